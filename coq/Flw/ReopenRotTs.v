(* C18 with rotation, Timestamps naming (rCURRENT + r<time stamp>[.restart-NNNN]): reopen_outputfile() after an external
   rename of rCURRENT, reopen_outputfile() with the file in place, reset(builder) to another Timestamps family.  The analogue
   of ReopenRot.v (Numbers), ReopenRotD.v (NumbersDirect), ReopenRotTsd.v (TimestampsDirect).

   What the model does (found by experiments, then proved):
   - reopen_outputfile() keeps the whole rotation state, in particular the naming state NSTs ts: the time stamp of the start
     of the rCURRENT that was MOVED AWAY.  The new rCURRENT that the reopen creates (at the time of the reopen) is therefore
     closed, at the next rotation, under the time stamp of the moved file's start - not under the time of its own creation:
     its key is (ts1, count ts1 keys1), exactly the key the moved file would have got (reopen_timestamps, last conjuncts;
     ext_reopen_stamp).  The name is NOT used twice (the moved file never had it), the restart counter is the right one
     (collision_free_infix counts the files of that second that are there), the keys of the family are those of a history
     without the rename (ext_reopen_same_keys), the reader's order is the order of writing.  The only oddity: a file whose
     name says "started at ts1" was created later (ext_reopen_stamp: name ..00-00-00.restart-0000, created at second 9).
   - the size count / creation date of the roll state survive too (as with the other namings): when the moved file was over
     the size limit the new rCURRENT is rotated EMPTY by the first record after the reopen (ext_reopen_empty_file).
   - the new writer is an unbuffered File until the next rotation; the buffered tail of the old BufWriter is flushed into the
     inode it has open: the moved file.
   - the name the file is moved to must not be a member of the family (ts_member).  A member name is never overwritten, but a
     name with a LATER time stamp misplaces the records in the reader's order (ext_reopen_family_name_misplaces).
   Main statements: reopen_timestamps, reopen_timestamps_in_place (both for histories ops1 with at least one record).
   MISSING: reset_timestamps (reset to another Timestamps family) is not proved here; the case `wrote ops1 = false`. *)
Require Import FL.Base.Bytes FL.Base.BytesFacts FL.Base.PathName FL.Fs.Fs FL.Fs.FsFacts FL.Time.Civil FL.Time.TsFormat
  FL.Names.FileSpec FL.Names.NamesFacts FL.Names.SortFacts FL.Names.FamilyFacts FL.Flw.Model FL.Flw.ModelFacts FL.Flw.NumFs
  FL.Flw.NumInv FL.Flw.Run FL.Flw.RunFacts FL.Flw.NumRun FL.Oracles.O_Flw FL.Flw.NumTheorems FL.Flw.NumListing
  FL.Flw.TsCal FL.Flw.TsTime FL.Flw.TsMono FL.Flw.TsNames FL.Flw.TsInv FL.Flw.TsRun FL.Flw.TsTheorems FL.Flw.TsRestart
  FL.Flw.ForeignFs FL.Flw.ForeignModel FL.Flw.NumForeign FL.Flw.ForeignGen FL.Flw.TsForeignFacts FL.Flw.MemberPattern
  FL.Flw.ReopenRot FL.Flw.ReopenRotTsd.
From Coq Require Import ZifyN ZifyNat ZifyBool.
Open Scope nat_scope.

(* ================================================================== 1. the invariant with other files in the directory *)
Lemma cname_not_tsd c : tsd_member c (cname c) = false.
Proof.
  destruct (tsd_member c (cname c)) eqn:E; [|reflexivity]. apply tsd_member_iff in E. destruct (cname_not_ts_pattern c E).
Qed.

Lemma ts_member_false c n : ts_member c n = false -> tsd_member c n = false /\ n <> cname c.
Proof.
  unfold ts_member. intros H. apply orb_false_iff in H. destruct H as [H1 H2]. split; [exact H1|].
  intros ->. rewrite beq_refl in H2. discriminate.
Qed.

(* extra: files that are not members of the family (name, content); the writer may have another buffer capacity than the
   configuration says (after reopen it is an unbuffered File) *)
Record TsInvX (c : config) (e lo : Z) (w : world) (wr : writer) (keys : list key) (closed : list bytes) (ts : Z)
              (extra : list (bytes * bytes)) : Prop := {
  ux_quiet : quiet w;
  ux_wf : fs_wf (wfs w);
  ux_nodup : NoDup (dir_names (wfs w));
  ux_off : eoff c w = e;
  ux_cur : lookup (wfs w) (cname c) = Some (wino wr);
  ux_curplain : plain (inode (wfs w) (wino wr));
  ux_len : length keys = length closed;
  ux_closed : forall i, i < length closed ->
      exists j, lookup (wfs w) (kname c e (nth i keys kd)) = Some j /\ plain (inode (wfs w) j) /\ content (wfs w) j = nth i closed []
                /\ j <> wino wr;
  ux_extra : forall n d, In (n, d) extra ->
      exists j, lookup (wfs w) n = Some j /\ plain (inode (wfs w) j) /\ content (wfs w) j = d /\ j <> wino wr;
  ux_only : forall n j, lookup (wfs w) n = Some j ->
      n = cname c \/ (exists i, i < length closed /\ n = kname c e (nth i keys kd)) \/ In n (List.map fst extra);
  ux_foreign : forall n, In n (List.map fst extra) -> ts_member c n = false;
  ux_keys : keys_ok keys;
  ux_range : forall k, In k keys -> (lo <= fst k <= ts)%Z;
  ux_ts : (lo <= ts <= wnow w)%Z;
  ux_wr : wr_ok wr }.

Lemma tsinv_x c e lo w wr keys closed ts : TsInv c e lo w wr keys closed ts -> TsInvX c e lo w wr keys closed ts [].
Proof.
  intros [Q W Hnd Hoff Hc Hcp Hlen Hcl Hon Hko Hrg Htsr Hwr Hcap]. constructor; try assumption.
  - intros n d [].
  - intros n j H. destruct (Hon n j H) as [E|E]; [left; exact E | right; left; exact E].
  - intros n [].
Qed.

Lemma tsinvx_dir c e lo w wr keys closed ts extra : TsInvX c e lo w wr keys closed ts extra ->
  dir_isx c e (wfs w) keys (cname c :: List.map fst extra)
  /\ (forall x, In x (cname c :: List.map fst extra) -> tsd_member c x = false).
Proof.
  intros I. pose proof I as [Q W Hnd Hoff Hc Hcp Hlen Hcl Hex Hon Hfo Hko Hrg Htsr Hwr]. split; [split|].
  - intros k Ik. destruct (In_nth keys k kd Ik) as [i [Hi E]]. rewrite Hlen in Hi.
    destruct (Hcl i Hi) as [j [Lj [[_ Pd] _]]]. rewrite E in Lj. eauto.
  - intros n j L. destruct (Hon n j L) as [->|[[i [Hi ->]]|Hx]]; [right; left; reflexivity | left | right; right; exact Hx].
    exists (nth i keys kd). split; [apply nth_In; rewrite Hlen; exact Hi | reflexivity].
  - intros x [<-|Hx]; [apply cname_not_tsd | exact (proj1 (ts_member_false c x (Hfo x Hx)))].
Qed.

(* ------------------------------------------------------------------ one rotation *)
Lemma mount_next_rotates_tsx c crit e lo hi w wr keys closed ts extra roll force :
  tscfg c crit -> tag_ok c -> years_ok e lo hi -> TsInvX c e lo w wr keys closed ts extra ->
  (wnow w <= hi)%Z -> (N.of_nat (length closed) <= usize_max)%N ->
  force || rotation_necessary w roll = true ->
  exists w' wr' roll',
    mount_next c w (Active (Some (mk_rs (NSTs ts (Some cur_infix) std_fmt) roll)) wr (cname c)) force
      = (Ok tt, w', Active (Some (mk_rs (NSTs (wnow w) (Some cur_infix) std_fmt) roll')) wr' (cname c))
    /\ TsInvX c e lo w' wr' (keys ++ [(ts, count ts keys)]) (closed ++ [cur_view w wr]) (wnow w) extra
    /\ cur_view w' wr' = [] /\ same_env w w'.
Proof.
  intros [Hrot [Hts [Hlink _]]] T Y I Hhi Hmax Hnec.
  pose proof I as [Q W Hnd Hoff Hc Hcp Hlen Hcl Hex Hon Hfo Hko Hrg Htsr Hwr].
  destruct (tsinvx_dir _ _ _ _ _ _ _ _ _ I) as [D Hfor].
  assert (Yk : forall k, In k keys -> in_years e (fst k)).
  { intros k Ik. apply (years_in e lo hi); [exact Y|]. specialize (Hrg k Ik). lia. }
  assert (Yts : in_years e ts) by (apply (years_in e lo hi); [exact Y | lia]).
  set (knew := (ts, count ts keys)).
  unfold mount_next. cbn [mk_rs rs_roll rs_naming rs_cleanup rs_bg]. rewrite Hnec.
  unfold creation_ts_of_current, collision_free. rewrite !tick_quiet by assumption.
  rewrite !(name_of_fixed c w) by assumption. rewrite (fixed_of_fixed0 c w Hts), infix_from_ts_tsx, Hoff.
  rewrite (collision_free_infix_ts_x c e (woff w) (wfs w) keys (cname c :: List.map fst extra) ts (count ts keys) T Yts Yk D Hfor
             (keys_count keys Hko ts)) by (pose proof (count_le_length ts keys); lia).
  rewrite ?(name_of_fixed c w) by assumption.
  fold (nm c cur_infix). fold (cname c).
  change (as_name (c_spec c) (fixed0 c) (Some (infix_of e (ts, count ts keys)))) with (kname c e knew).
  assert (Hxk : forall n, In n (List.map fst extra) -> n <> cname c /\ forall k, in_years e (fst k) -> n <> kname c e k).
  { intros n Hn. split; [exact (proj2 (ts_member_false c n (Hfo n Hn)))|]. intros k Yk' E.
    apply (kname_not_extra c e k _ Hfor Yk'). right. rewrite <- E. exact Hn. }
  (* the target name is free *)
  assert (Ht : lookup (wfs w) (kname c e knew) = None).
  { destruct (lookup (wfs w) (kname c e knew)) as [j|] eqn:E; [|reflexivity].
    destruct (Hon _ _ E) as [E1|[[i [Hi E1]]|E1]]; [exfalso; exact (kname_not_cname c e knew Yts E1)| |].
    - apply kname_inj in E1; [|exact Yts | apply Yk, nth_In; lia].
      assert (Ik : In knew keys) by (rewrite E1; apply nth_In; lia).
      apply (keys_count keys Hko) in Ik. lia.
    - exfalso. exact (proj2 (Hxk _ E1) knew Yts eq_refl). }
  destruct (rotate_fs_spec (wfs w) (cname c) (kname c e knew) (wino wr) (wpend wr) (wnow w) W
              (fun E => kname_not_cname c e knew Yts (eq_sym E)) Hc Ht) as [f1 [Er R]].
  cbn zeta in R. destruct R as [L1c [Hino1 [W3 [Hnew [L3c [L3t [L3o [Hlenf [Inew [Iold Ioth]]]]]]]]]].
  pose proof (p_rename_quiet w (cname c) (kname c e knew) Q) as PR. rewrite Er in PR.
  destruct PR as [w1 [Epr [F1 S1]]]. rewrite Epr.
  assert (Eb : birth_or_now w1 (cname c) = wnow w).
  { unfold birth_or_now, file_of. rewrite F1, L1c. apply S1. }
  rewrite Eb.
  unfold open_log_file. rewrite (name_of_fixed c w1) by assumption. fold (nm c cur_infix) (cname c).
  unfold do_symlink. rewrite Hlink.
  assert (D1 : match file_of (wfs w1) (cname c) with Some fl => fdir fl = false | None => True end).
  { unfold file_of. rewrite F1, L1c. exact Logic.I. }
  destruct (p_open_quiet w1 (cname c) (c_append c) (proj1 S1) D1) as [w2 [Eop [F2 S2]]]. rewrite Eop.
  assert (Eopen : (if c_append c then open_append (wfs w1) (cname c) (wnow w1) else open_trunc (wfs w1) (cname c) 0%N (wnow w1))
                  = create_file f1 (cname c) 0%N (wnow w)).
  { rewrite F1. destruct S1 as [_ [-> _]]. destruct (c_append c); [apply open_append_fresh | apply open_trunc_fresh]; exact L1c. }
  rewrite Eopen in *. clear Eopen.
  unfold w_drop. destruct (w_flush_quiet w2 wr (proj1 S2)) as [w3 [Efl [F3 S3]]]. rewrite Efl. cbn [fst snd].
  unfold cleanup_or_queue. cbn [mk_rs rs_roll rs_naming rs_cleanup rs_bg cleanup_impl].
  set (new := snd (create_file f1 (cname c) 0%N (wnow w))) in *.
  set (f3 := append_ino (fst (create_file f1 (cname c) 0%N (wnow w))) (wino wr) (wpend wr)) in *.
  assert (F3' : wfs w3 = f3) by (rewrite F3, F2; reflexivity).
  set (wr' := {| wino := new; wpend := []; wcap := c_cap c |}).
  exists w3, wr', (reset_size_and_date w3 roll (cname c)).
  split; [reflexivity|].
  assert (SE : same_env w w3) by (eapply same_env_trans; [eapply same_env_trans|]; eassumption).
  pose proof (wf_bound _ W _ _ Hc) as Hold.
  split.
  { constructor.
    - exact (proj1 S3).
    - rewrite F3'. exact W3.
    - rewrite F3'. unfold f3. change (dir_names (append_ino ?g _ _)) with (dir_names g).
      apply create_nodup; [exact (rename_nodup _ _ _ _ Hnd Er) | exact L1c].
    - unfold eoff in *. destruct SE as [_ [_ [-> _]]]. exact Hoff.
    - rewrite F3'. exact L3c.
    - rewrite F3'. cbn [wr' wino]. rewrite Inew. split; reflexivity.
    - rewrite !app_length, Hlen. reflexivity.
    - intros i Hi. rewrite app_length in Hi. cbn [length] in Hi. rewrite F3'.
      destruct (Nat.eq_dec i (length closed)) as [->|Hne].
      + exists (wino wr). rewrite app_nth2, Hlen, Nat.sub_diag by lia. cbn [nth]. split; [exact L3t|]. split.
        * rewrite Iold. exact Hcp.
        * split; [|cbn [wr' wino]; rewrite Hnew; lia].
          unfold content at 1. rewrite Iold. cbn [with_data fdata]. rewrite app_nth2, Nat.sub_diag by lia. reflexivity.
      + assert (Hi' : i < length closed) by lia. destruct (Hcl i Hi') as [j [Lj [Pj [Cj Hj2]]]].
        assert (Ik : In (nth i keys kd) keys) by (apply nth_In; lia).
        exists j. rewrite (app_nth1 keys _ kd) by lia.
        rewrite L3o; [|apply kname_not_cname, Yk, Ik |].
        2:{ intros E. apply kname_inj in E; [|apply Yk, Ik | exact Yts]. rewrite E in Ik. apply (keys_count keys Hko) in Ik. lia. }
        split; [exact Lj|].
        assert (Hj1 : j <> new). { pose proof (wf_bound _ W _ _ Lj). rewrite Hnew. lia. }
        unfold content. rewrite Ioth by assumption. split; [exact Pj|]. rewrite app_nth1 by assumption. split; [exact Cj | exact Hj1].
    - intros n d Hin. rewrite F3'. destruct (Hex n d Hin) as [j [Lj [Pj [Cj Hj2]]]].
      assert (Hn : In n (List.map fst extra)) by (apply (in_map fst) in Hin; exact Hin).
      destruct (Hxk n Hn) as [Hn1 Hn2]. exists j. rewrite L3o by (auto; apply Hn2; exact Yts). split; [exact Lj|].
      assert (Hj1 : j <> new). { pose proof (wf_bound _ W _ _ Lj). rewrite Hnew. lia. }
      unfold content. rewrite Ioth by assumption. split; [exact Pj|]. split; [exact Cj | exact Hj1].
    - intros n j Hn. rewrite F3' in Hn.
      destruct (beq_spec n (cname c)) as [->|Hn1]; [left; reflexivity|].
      destruct (beq_spec n (kname c e knew)) as [->|Hn2].
      + right. left. exists (length closed). rewrite app_length. cbn [length]. split; [lia|].
        rewrite app_nth2, Hlen, Nat.sub_diag by lia. reflexivity.
      + rewrite L3o in Hn by assumption. destruct (Hon _ _ Hn) as [E|[[i [Hi E]]|E]]; [contradiction| |right; right; exact E].
        right. left. exists i. rewrite app_length. cbn [length]. split; [lia|]. rewrite (app_nth1 keys _ kd) by lia. exact E.
    - exact Hfo.
    - apply ko_snoc; [exact Hko|]. intros k Ik. specialize (Hrg k Ik). lia.
    - intros k Ik. apply in_app_or in Ik. destruct Ik as [Ik|[<-|[]]].
      + specialize (Hrg k Ik). lia.
      + unfold knew. cbn [fst]. lia.
    - destruct SE as [_ [-> _]]. lia.
    - unfold wr_ok, wr'. cbn. destruct (c_cap c); [lia | reflexivity]. }
  split. { unfold cur_view. rewrite F3'. cbn [wr' wino wpend]. unfold content. rewrite Inew. reflexivity. }
  exact SE.
Qed.

(* ------------------------------------------------------------------ appending to the current inode keeps the invariant *)
Lemma tsinvx_append c e lo w w' wr wr' keys closed ts extra x :
  TsInvX c e lo w wr keys closed ts extra -> wfs w' = append_ino (wfs w) (wino wr) x -> same_env w w' ->
  wino wr' = wino wr -> wr_ok wr' ->
  TsInvX c e lo w' wr' keys closed ts extra /\ content (wfs w') (wino wr') = content (wfs w) (wino wr) ++ x.
Proof.
  intros [Q W Hnd Hoff Hc Hcp Hlen Hcl Hex Hon Hfo Hko Hrg Htsr Hwr] F SE Ei Hok.
  pose proof (wf_bound _ W _ _ Hc) as Hold.
  split.
  - constructor.
    + exact (proj1 SE).
    + rewrite F. apply wf_append. exact W.
    + rewrite F. exact Hnd.
    + unfold eoff in *. destruct SE as [_ [_ [-> _]]]. exact Hoff.
    + rewrite F, lookup_append, Ei. exact Hc.
    + rewrite F, Ei, inode_append, Nat.eqb_refl by assumption. exact Hcp.
    + exact Hlen.
    + intros i Hi. destruct (Hcl i Hi) as [j [Lj [Pj [Cj Hj]]]]. exists j. rewrite F, lookup_append. split; [exact Lj|].
      unfold content. rewrite inode_append by assumption. destruct (Nat.eqb_spec j (wino wr)); [contradiction|]. rewrite Ei. auto.
    + intros n d Hin. destruct (Hex n d Hin) as [j [Lj [Pj [Cj Hj]]]]. exists j. rewrite F, lookup_append. split; [exact Lj|].
      unfold content. rewrite inode_append by assumption. destruct (Nat.eqb_spec j (wino wr)); [contradiction|]. rewrite Ei. auto.
    + intros n j. rewrite F, lookup_append. apply Hon.
    + exact Hfo.
    + exact Hko.
    + exact Hrg.
    + destruct SE as [_ [-> _]]. exact Htsr.
    + exact Hok.
  - rewrite F, Ei, content_append, Nat.eqb_refl by assumption. reflexivity.
Qed.

(* ------------------------------------------------------------------ a write on an active writer *)
Lemma write_active_tsx c crit e lo hi w wr keys closed ts extra roll b :
  tscfg c crit -> tag_ok c -> years_ok e lo hi -> TsInvX c e lo w wr keys closed ts extra ->
  (wnow w <= hi)%Z -> (N.of_nat (length closed) <= usize_max)%N ->
  let rot := rotation_necessary w roll in
  exists w' wr' roll' keys' closed' ts',
    write_buffer (st_ts c ts roll wr) w b = (Ok tt, w', st_ts c ts' roll' wr', rot)
    /\ TsInvX c e lo w' wr' keys' closed' ts' extra /\ same_env w w'
    /\ (closed', cur_view w' wr') = (if rot then (closed ++ [cur_view w wr], b) else (closed, cur_view w wr ++ b))
    /\ (keys', ts') = (if rot then (keys ++ [(ts, count ts keys)], wnow w) else (keys, ts)).
Proof.
  intros Hcfg T Y I Hhi Hmax rot.
  unfold write_buffer, st_ts. cbn [f_cfg f_inner f_poisoned mk_rs rs_roll]. fold rot.
  assert (M : exists w1 wr1 roll1 keys1 closed1 ts1,
            mount_next c w (Active (Some (mk_rs (NSTs ts (Some cur_infix) std_fmt) roll)) wr (cname c)) false
            = (Ok tt, w1, Active (Some (mk_rs (NSTs ts1 (Some cur_infix) std_fmt) roll1)) wr1 (cname c))
            /\ TsInvX c e lo w1 wr1 keys1 closed1 ts1 extra /\ same_env w w1
            /\ (closed1, cur_view w1 wr1) = (if rot then (closed ++ [cur_view w wr], []) else (closed, cur_view w wr))
            /\ (keys1, ts1) = (if rot then (keys ++ [(ts, count ts keys)], wnow w) else (keys, ts))).
  { destruct rot eqn:Er.
    - destruct (mount_next_rotates_tsx c crit e lo hi w wr keys closed ts extra roll false Hcfg T Y I Hhi Hmax) as [w1 [wr1 [roll1 [E [I1 [V1 S1]]]]]]; [exact Er|].
      exists w1, wr1, roll1, (keys ++ [(ts, count ts keys)]), (closed ++ [cur_view w wr]), (wnow w). rewrite V1.
      split; [exact E|]. split; [exact I1|]. split; [exact S1|]. split; reflexivity.
    - exists w, wr, roll, keys, closed, ts. split.
      + unfold mount_next. cbn [mk_rs rs_roll orb]. unfold rot in Er. rewrite Er. reflexivity.
      + split; [exact I|]. split; [apply same_env_refl; apply I|]. split; reflexivity. }
  destruct M as [w1 [wr1 [roll1 [keys1 [closed1 [ts1 [E [I1 [S1 [V1 K1]]]]]]]]]].
  rewrite E.
  destruct (w_write_quiet w1 wr1 b (ux_quiet _ _ _ _ _ _ _ _ _ I1) (ux_wr _ _ _ _ _ _ _ _ _ I1)) as [w2 [wr2 [fl [Ew [S2 [F2 [Ei [Ec [Ep Hok]]]]]]]]].
  rewrite Ew.
  destruct (tsinvx_append c e lo w1 w2 wr1 wr2 keys1 closed1 ts1 extra fl I1 F2 S2 Ei Hok) as [I2 C2].
  exists w2, wr2, (increase_size roll1 (N.of_nat (length b))), keys1, closed1, ts1.
  assert (V2 : cur_view w2 wr2 = cur_view w1 wr1 ++ b).
  { unfold cur_view. rewrite C2, <- !app_assoc, Ep. reflexivity. }
  split; [reflexivity|]. split; [exact I2|].
  split; [eapply same_env_trans; eassumption|].
  split; [|exact K1].
  rewrite V2. destruct rot; injection V1 as -> ->; reflexivity.
Qed.

Lemma flush_active_tsx c e lo w wr keys closed ts extra roll :
  TsInvX c e lo w wr keys closed ts extra ->
  exists w' wr', flush_state (st_ts c ts roll wr) w = (true, w', st_ts c ts roll wr')
    /\ TsInvX c e lo w' wr' keys closed ts extra /\ cur_view w' wr' = cur_view w wr /\ wpend wr' = [] /\ same_env w w'.
Proof.
  intros I. unfold flush_state, st_ts. cbn [f_inner].
  destruct (w_flush_quiet w wr (ux_quiet _ _ _ _ _ _ _ _ _ I)) as [w1 [E [F S]]]. rewrite E.
  set (wr' := {| wino := wino wr; wpend := []; wcap := wcap wr |}).
  assert (Hok : wr_ok wr') by (unfold wr_ok, wr'; cbn; destruct (wcap wr); [lia | reflexivity]).
  destruct (tsinvx_append c e lo w w1 wr wr' keys closed ts extra (wpend wr) I F S eq_refl Hok) as [I1 C1].
  exists w1, wr'. split; [reflexivity|]. split; [exact I1|]. split; [|split; [reflexivity | exact S]].
  unfold cur_view. rewrite C1. cbn [wr' wpend]. rewrite app_nil_r. reflexivity.
Qed.

Lemma shutdown_active_tsx c e lo w wr keys closed ts extra roll : TsInvX c e lo w wr keys closed ts extra -> wacts w = 0 ->
  exists w' wr', shutdown_state (st_ts c ts roll wr) w = (w', st_ts c ts roll wr')
    /\ TsInvX c e lo w' wr' keys closed ts extra /\ cur_view w' wr' = cur_view w wr /\ wpend wr' = [] /\ wacts w' = 0.
Proof.
  intros I Ha. unfold shutdown_state, st_ts, drain_acts. cbn [f_inner f_cfg mk_rs rs_cleanup rs_naming].
  destruct (w_flush_quiet w wr (ux_quiet _ _ _ _ _ _ _ _ _ I)) as [w1 [E [F S]]]. rewrite E.
  set (wr' := {| wino := wino wr; wpend := []; wcap := wcap wr |}).
  assert (Hok : wr_ok wr') by (unfold wr_ok, wr'; cbn; destruct (wcap wr); [lia | reflexivity]).
  destruct (tsinvx_append c e lo w w1 wr wr' keys closed ts extra (wpend wr) I F S eq_refl Hok) as [I1 C1].
  exists w1, wr'. split; [reflexivity|]. split; [exact I1|]. split; [|split; [reflexivity | exact (same_env_acts _ _ S Ha)]].
  unfold cur_view. rewrite C1. cbn [wr' wpend]. rewrite app_nil_r. reflexivity.
Qed.

Lemma tsinvx_tick c e lo w wr keys closed ts extra dt : TsInvX c e lo w wr keys closed ts extra -> (0 <= dt)%Z ->
  TsInvX c e lo (set_now w (wnow w + dt)%Z) wr keys closed ts extra.
Proof.
  intros [Q W Hnd Hoff Hc Hcp Hlen Hcl Hex Hon Hfo Hko Hrg Htsr Hwr] Hdt. constructor; try assumption. cbn [set_now wnow]. lia.
Qed.

(* ================================================================== 2. histories on the generalised invariant *)
(* the keys are only ever extended; the first key added after (keys0, ts0) carries the time stamp ts0 *)
Definition kchain (keys0 : list key) (ts0 : Z) (keys : list key) (ts : Z) : Prop :=
  (keys = keys0 /\ ts = ts0) \/ exists tl, keys = keys0 ++ (ts0, count ts0 keys0) :: tl.

Lemma kchain_rot keys0 ts0 keys ts t' : kchain keys0 ts0 keys ts -> kchain keys0 ts0 (keys ++ [(ts, count ts keys)]) t'.
Proof.
  intros [[-> ->]|[tl ->]]; right.
  - exists []. reflexivity.
  - eexists. rewrite <- app_assoc. cbn [app]. reflexivity.
Qed.

(* the abstract view (xview, x_step, x_run of ReopenRot.v; the ghost size is not used here); n bounds the number of closed files *)
Definition RelTX (c : config) (e lo : Z) (extra : list (bytes * bytes)) (keys0 : list key) (ts0 : Z) (n : nat)
                 (x : sys) (v : xview) : Prop :=
  let '(closed, cur, g) := v in
  s_tl x = [] /\ wacts (s_w x) = 0 /\
  exists keys wr roll ts, s_flw x = Some (st_ts c ts roll wr) /\ TsInvX c e lo (s_w x) wr keys closed ts extra
    /\ cur_view (s_w x) wr = cur /\ length closed <= n /\ kchain keys0 ts0 keys ts.

Lemma step_sync_reltx c crit e lo extra keys0 ts0 n x v o : tscfg c crit -> RelTX c e lo extra keys0 ts0 n x v ->
  step x o = sync_step x o.
Proof.
  intros [_ [Hts [_ Ha]]] R. destruct v as [[closed cur] g]. destruct R as [_ [_ [keys [wr [roll [ts [Es _]]]]]]].
  exact (ReopenRot.step_sync_cfg x o _ Es Hts Ha).
Qed.

Lemma RelTX_mono c e lo extra keys0 ts0 n x v : RelTX c e lo extra keys0 ts0 n x v -> RelTX c e lo extra keys0 ts0 (S n) x v.
Proof.
  destruct v as [[closed cur] g]. intros [Ht [Ha [keys [wr [roll [ts [Es [I [V [Hn K]]]]]]]]]].
  split; [exact Ht|]. split; [exact Ha|]. exists keys, wr, roll, ts.
  split; [exact Es|]. split; [exact I|]. split; [exact V|]. split; [lia | exact K].
Qed.

Lemma write_reltx c crit e lo hi extra keys0 ts0 n x v b :
  tscfg c crit -> tag_ok c -> years_ok e lo hi -> RelTX c e lo extra keys0 ts0 n x v ->
  (wnow (s_w x) <= hi)%Z -> (N.of_nat n <= usize_max)%N ->
  exists s w' s' rot, s_flw x = Some s /\ f_poisoned s = false /\
    write_buffer s (s_w x) b = (Ok tt, w', s', rot)
    /\ RelTX c e lo extra keys0 ts0 (S n) {| s_flw := Some s'; s_w := w'; s_tl := []; s_dead := s_dead x |} (x_step v (OWrite b) rot)
    /\ wnow w' = wnow (s_w x).
Proof.
  intros Hcfg T Y R Hhi Hmax. destruct v as [[closed cur] g].
  destruct R as [Ht [Ha [keys [wr [roll [ts [Es [I [V [Hn K]]]]]]]]]].
  destruct (write_active_tsx c crit e lo hi (s_w x) wr keys closed ts extra roll b Hcfg T Y I Hhi ltac:(lia))
    as [w' [wr' [roll' [keys' [closed' [ts' [E [I' [S' [V' K']]]]]]]]]].
  exists (st_ts c ts roll wr), w', (st_ts c ts' roll' wr'), (rotation_necessary (s_w x) roll).
  split; [exact Es|]. split; [reflexivity|]. split; [exact E|].
  split; [|exact (same_env_now _ _ S')].
  cbn [x_step]. rewrite V in V'.
  destruct (rotation_necessary (s_w x) roll); injection V' as -> V''; injection K' as -> ->;
    (split; [reflexivity|]; split; [cbn [s_w]; exact (same_env_acts _ _ S' Ha)|];
     eexists _, wr', roll', _; cbn [s_flw s_w];
     split; [reflexivity|]; split; [exact I'|]; split; [exact V''|]; split; [rewrite ?app_length; cbn [length]; lia|]).
  - apply kchain_rot. exact K.
  - exact K.
Qed.

Lemma step_reltx c crit e lo hi extra keys0 ts0 n x v o :
  tscfg c crit -> tag_ok c -> years_ok e lo hi -> RelTX c e lo extra keys0 ts0 n x v -> basic_op o -> tick_ok o ->
  (wnow (s_w x) <= hi)%Z -> (N.of_nat n <= usize_max)%N ->
  let '(x', ob) := step x o in
  RelTX c e lo extra keys0 ts0 (S n) x' (x_step v o (rot_of ob)) /\ wnow (s_w x') = (wnow (s_w x) + dt_of o)%Z.
Proof.
  intros Hcfg T Y R Hb Htk Hhi Hmax. rewrite (step_sync_reltx c crit e lo extra keys0 ts0 n x v o Hcfg R).
  destruct o; try contradiction; cbn [sync_step dt_of].
  - (* OWrite *)
    destruct (write_reltx c crit e lo hi extra keys0 ts0 n x v b Hcfg T Y R Hhi Hmax) as [s [w' [s' [rot [Es [Hp [E [R' Hw]]]]]]]].
    assert (Ht : s_tl x = []) by (destruct v as [[? ?] ?]; apply R).
    rewrite Es, Hp. rewrite Ht. cbn [app]. rewrite E. cbn [rot_of s_w]. split; [exact R' | lia].
  - (* OPlain *)
    destruct (write_reltx c crit e lo hi extra keys0 ts0 n x v b Hcfg T Y R Hhi Hmax) as [s [w' [s' [rot [Es [Hp [E [R' Hw]]]]]]]].
    assert (Ht : s_tl x = []) by (destruct v as [[? ?] ?]; apply R).
    rewrite Es, Hp, E. cbn [rot_of code_of s_w]. rewrite Ht. split; [exact R' | lia].
  - (* OFlush *)
    destruct v as [[closed cur] g]. destruct R as [Ht [Ha [keys [wr [roll [ts [Es [I [V [Hn K]]]]]]]]]]. rewrite Es. cbn [st_ts f_poisoned].
    destruct (flush_active_tsx c e lo (s_w x) wr keys closed ts extra roll I) as [w' [wr' [E [I' [V' [P' S']]]]]].
    fold (st_ts c ts roll wr). rewrite E. cbn [rot_of x_step s_w].
    split; [|rewrite (same_env_now _ _ S'); lia].
    split; [exact Ht|]. split; [exact (same_env_acts _ _ S' Ha)|]. exists keys, wr', roll, ts. cbn [s_flw s_w].
    split; [reflexivity|]. split; [exact I'|]. split; [congruence|]. split; [lia | exact K].
  - (* OTrigger *)
    destruct v as [[closed cur] g]. destruct R as [Ht [Ha [keys [wr [roll [ts [Es [I [V [Hn K]]]]]]]]]].
    rewrite Es. cbn [st_ts f_poisoned f_cfg f_inner].
    destruct (mount_next_rotates_tsx c crit e lo hi (s_w x) wr keys closed ts extra roll true Hcfg T Y I Hhi ltac:(lia) eq_refl)
      as [w' [wr' [roll' [E [I' [V' S']]]]]].
    rewrite E. cbn [rot_of x_step code_of with_inner f_cfg f_poisoned s_w].
    split; [|rewrite (same_env_now _ _ S'); lia].
    split; [exact Ht|]. split; [exact (same_env_acts _ _ S' Ha)|]. rewrite V in *.
    exists (keys ++ [(ts, count ts keys)]), wr', roll', (wnow (s_w x)). cbn [s_flw s_w].
    split; [reflexivity|]. split; [exact I'|]. split; [exact V'|]. split; [rewrite app_length; cbn [length]; lia|].
    apply kchain_rot. exact K.
  - (* OTick *)
    cbn [rot_of x_step s_w set_now wnow tick_ok] in *. split; [|reflexivity].
    destruct v as [[closed cur] g]. destruct R as [Ht [Ha [keys [wr [roll [ts [Es [I [V [Hn K]]]]]]]]]].
    split; [exact Ht|]. split; [exact Ha|]. exists keys, wr, roll, ts. cbn [s_flw s_w].
    split; [exact Es|]. split; [apply tsinvx_tick; assumption|]. split; [exact V|]. split; [lia | exact K].
  - (* OSnap *)
    cbn [rot_of x_step]. split; [apply RelTX_mono; destruct v as [[closed cur] g]; exact R | lia].
Qed.

Lemma run_reltx c crit e lo hi extra keys0 ts0 : tscfg c crit -> tag_ok c -> years_ok e lo hi ->
  forall ops x v n, RelTX c e lo extra keys0 ts0 n x v -> Forall basic_op ops -> Forall tick_ok ops ->
  (wnow (s_w x) + elapsed ops <= hi)%Z -> (N.of_nat (n + length ops) <= usize_max)%N ->
  RelTX c e lo extra keys0 ts0 (n + length ops) (fst (run x ops)) (x_run v ops (snd (run x ops)))
  /\ wnow (s_w (fst (run x ops))) = (wnow (s_w x) + elapsed ops)%Z.
Proof.
  intros Hcfg T Y. induction ops as [|o r IH]; intros x v n R Hb Htk Hhi Hmax.
  - cbn [run fst snd x_run length elapsed]. rewrite Nat.add_0_r. split; [exact R | lia].
  - cbn [run]. inversion Hb as [|o' r' Ho Hr]; subst. inversion Htk as [|o' r' Hto Htr]; subst.
    cbn [elapsed length] in *. pose proof (elapsed_nonneg r Htr) as Er.
    assert (Hdt : (0 <= dt_of o)%Z) by (destruct o; cbn [dt_of tick_ok] in *; lia).
    pose proof (step_reltx c crit e lo hi extra keys0 ts0 n x v o Hcfg T Y R Ho Hto ltac:(lia) ltac:(lia)) as S. destruct (step x o) as [x1 ob].
    destruct S as [R1 W1]. specialize (IH x1 _ (S n) R1 Hr Htr ltac:(lia) ltac:(lia)). destruct (run x1 r) as [x2 obs].
    cbn [fst snd x_run] in *. replace (n + S (length r)) with (S n + length r) by lia. destruct IH as [IH1 IH2]. split; [exact IH1 | lia].
Qed.

(* ------------------------------------------------------------------ stop: what the reader finds *)
(* the closed files under their keys, rCURRENT, the other files with their contents, nothing else *)
Definition tsx_view (c : config) (e : Z) (f : fs) (keys : list key) (closed : list bytes) (cur : bytes)
                    (extra : list (bytes * bytes)) : Prop :=
  length keys = length closed
  /\ (forall i, i < length closed ->
        exists j, lookup f (kname c e (nth i keys kd)) = Some j /\ plain (inode f j) /\ content f j = nth i closed [])
  /\ (exists j, lookup f (cname c) = Some j /\ plain (inode f j) /\ content f j = cur)
  /\ (forall n d, In (n, d) extra -> exists j, lookup f n = Some j /\ plain (inode f j) /\ content f j = d)
  /\ (forall n j, lookup f n = Some j ->
        n = cname c \/ (exists i, i < length closed /\ n = kname c e (nth i keys kd)) \/ In n (List.map fst extra))
  /\ NoDup (dir_names f).

Lemma tsx_view_nil c e f keys closed cur : tsx_view c e f keys closed cur [] <-> ts_view c e f keys closed cur.
Proof.
  split.
  - intros [A [B [C [_ [D E]]]]]. split; [exact A|]. split; [exact B|]. split; [exact C|]. split; [|exact E].
    intros n j L. destruct (D n j L) as [H|[H|[]]]; [left | right]; exact H.
  - intros [A [B [C [D E]]]]. split; [exact A|]. split; [exact B|]. split; [exact C|]. split; [intros n d []|]. split; [|exact E].
    intros n j L. destruct (D n j L) as [H|H]; [left | right; left]; exact H.
Qed.

Lemma stop_tsx_core c crit e lo extra x keys wr roll ts closed :
  tscfg c crit -> s_flw x = Some (st_ts c ts roll wr) -> wacts (s_w x) = 0 -> TsInvX c e lo (s_w x) wr keys closed ts extra ->
  tsx_view c e (wfs (s_w (fst (step x OStop)))) keys closed (cur_view (s_w x) wr) extra.
Proof.
  intros [_ [Hts [_ Hasync]]] Es Ha I. rewrite (ReopenRot.step_sync_cfg x OStop _ Es Hts Hasync). cbn [sync_step].
  rewrite Es. cbn [st_ts f_poisoned]. unfold drop_state.
  destruct (shutdown_active_tsx c e lo (s_w x) wr keys closed ts extra roll I Ha) as [w1 [wr1 [E1 [I1 [V1 [P1 A1]]]]]].
  fold (st_ts c ts roll wr). rewrite E1.
  destruct (shutdown_active_tsx c e lo w1 wr1 keys closed ts extra roll I1 A1) as [w2 [wr2 [E2 [I2 [V2 [P2 A2]]]]]]. rewrite E2.
  cbn [st_ts f_inner s_w fst]. unfold w_drop.
  destruct (w_flush_quiet w2 wr2 (ux_quiet _ _ _ _ _ _ _ _ _ I2)) as [w3 [E3 [F3 S3]]]. rewrite E3. cbn [fst snd].
  rewrite P2, append_ino_nil_id in F3. rewrite F3.
  destruct I2 as [Q W Hnd Hoff Hc Hcp Hlen Hcl Hex Hon Hfo Hko Hrg Htsr Hwr].
  split; [exact Hlen|]. split.
  { intros i Hi. destruct (Hcl i Hi) as [j [Lj [Pj [Cj _]]]]. eauto. }
  split.
  { exists (wino wr2). split; [exact Hc|]. split; [exact Hcp|].
    unfold cur_view in *. rewrite P2, app_nil_r in V2. congruence. }
  split.
  { intros n d Hin. destruct (Hex n d Hin) as [j [Lj [Pj [Cj _]]]]. eauto. }
  split; [exact Hon | exact Hnd].
Qed.

Lemma stop_reltx c crit e lo extra keys0 ts0 n x closed cur g : tscfg c crit -> RelTX c e lo extra keys0 ts0 n x (closed, cur, g) ->
  exists keys ts, tsx_view c e (wfs (s_w (fst (step x OStop)))) keys closed cur extra /\ keys_ok keys
               /\ (forall k, In k keys -> (lo <= fst k <= wnow (s_w x))%Z) /\ kchain keys0 ts0 keys ts.
Proof.
  intros Hcfg [Ht [Ha [keys [wr [roll [ts [Es [I [V [_ K]]]]]]]]]]. exists keys, ts.
  split; [rewrite <- V; exact (stop_tsx_core c crit e lo extra x keys wr roll ts closed Hcfg Es Ha I)|].
  split; [exact (ux_keys _ _ _ _ _ _ _ _ _ I)|]. split; [|exact K].
  intros k Ik. pose proof (ux_range _ _ _ _ _ _ _ _ _ I k Ik). pose proof (ux_ts _ _ _ _ _ _ _ _ _ I). lia.
Qed.

(* ================================================================== 3. reopen_outputfile() *)
(* the time stamp in the naming state: the start of the current rCURRENT as the writer remembers it *)
Definition ns_stamp (x : sys) : option Z :=
  match s_flw x with
  | Some s => match f_inner s with
              | Active (Some rs) _ _ => match rs_naming rs with NSTs ts _ _ => Some ts | _ => None end
              | _ => None end
  | None => None
  end.

(* somebody renames rCURRENT to a name outside the family, then reopen_outputfile(): the renamed file gets the buffered
   tail, a new empty rCURRENT exists, the rotation state - with the time stamp of the moved file's start - is kept *)
Lemma reopen_moved_step_ts c crit e lo hi n x keys wr roll ts cl cu moved :
  tscfg c crit -> years_ok e lo hi -> (wnow (s_w x) <= hi)%Z ->
  s_tl x = [] -> wacts (s_w x) = 0 ->
  s_flw x = Some (st_ts c ts roll wr) -> TsInv c e lo (s_w x) wr keys cl ts ->
  cur_view (s_w x) wr = cu -> length cl <= n ->
  ts_member c moved = false ->
  exists x2, run x [OExtRename (cname c) moved; OReopen] = (x2, [ObsRes 0 false; ObsRes 0 false])
    /\ RelTX c e lo [(moved, cu)] keys ts n x2 (cl, [], 0) /\ wnow (s_w x2) = wnow (s_w x) /\ ns_stamp x2 = Some ts.
Proof.
  intros Hcfg Y Hhi Ht Ha Es I V Hn Hm. pose proof Hcfg as [Hrot [Hts [Hlink Hasync]]].
  pose proof I as [Q W Hnd Hoff Hc Hcp Hlen Hcl Hon Hko Hrg Htsr Hwr Hcap].
  destruct (ts_member_false c moved Hm) as [Hm1 Hm2].
  assert (Yk : forall k, In k keys -> in_years e (fst k)).
  { intros k Ik. apply (years_in e lo hi); [exact Y|]. specialize (Hrg k Ik). lia. }
  assert (Hmx : forall n0, In n0 [moved] -> tsd_member c n0 = false) by (intros n0 [<-|[]]; exact Hm1).
  assert (Hmk : forall k, In k keys -> moved <> kname c e k).
  { intros k Ik E. apply (kname_not_extra c e k [moved] Hmx (Yk k Ik)). left. exact E. }
  assert (Hfree : lookup (wfs (s_w x)) moved = None).
  { destruct (lookup (wfs (s_w x)) moved) as [j|] eqn:E; [|reflexivity]. exfalso.
    destruct (Hon _ _ E) as [E1|[i [Hi E1]]]; [exact (Hm2 E1)|]. apply (Hmk (nth i keys kd)); [apply nth_In; lia | exact E1]. }
  cbn [run]. rewrite (ReopenRot.step_sync_cfg x (OExtRename (cname c) moved) _ Es Hts Hasync).
  destruct (rotate_fs_spec (wfs (s_w x)) (cname c) moved (wino wr) (wpend wr) (wnow (s_w x)) W
              (fun E => Hm2 (eq_sym E)) Hc Hfree) as [f1 [Er R]].
  cbn zeta in R. destruct R as [L1c [Hino1 [W3 [Hnew [L3c [L3t [L3o [Hlen3 [Inew [Iold Ioth]]]]]]]]]].
  cbn [sync_step]. rewrite Er.
  set (w1 := set_fs (s_w x) f1).
  set (x1 := {| s_flw := s_flw x; s_w := w1; s_tl := s_tl x; s_dead := s_dead x |}).
  assert (Q1 : quiet w1) by exact Q.
  rewrite (ReopenRot.step_sync_cfg x1 OReopen _ Es Hts Hasync).
  cbn [sync_step x1 s_flw s_w s_tl s_dead]. rewrite Es. cbn [st_ts f_poisoned].
  unfold reopen_state. cbn [f_inner st_ts]. rewrite (tick_quiet w1 Q1). cbv beta iota zeta.
  assert (Eopen : open_append (wfs w1) (cname c) (wnow w1) = create_file f1 (cname c) 0%N (wnow (s_w x))).
  { apply open_append_fresh. exact L1c. }
  destruct (effect_quiet w1 (fun f => fst (open_append f (cname c) (wnow w1))) Q1) as [F2 S2].
  set (w2 := effect w1 (fun f => fst (open_append f (cname c) (wnow w1)))) in *.
  rewrite Eopen in F2. rewrite Eopen.
  unfold w_drop. destruct (w_flush_quiet w2 wr (proj1 S2)) as [w3 [Efl [F3 S3]]]. rewrite Efl. cbn [fst snd code_of].
  set (new := snd (create_file f1 (cname c) 0%N (wnow (s_w x)))) in *.
  set (f3 := append_ino (fst (create_file f1 (cname c) 0%N (wnow (s_w x)))) (wino wr) (wpend wr)) in *.
  assert (F3' : wfs w3 = f3) by (rewrite F3, F2; reflexivity).
  set (wr' := {| wino := new; wpend := []; wcap := None |}).
  pose proof (same_env_trans _ _ _ S2 S3) as S13.
  assert (Enow : wnow w3 = wnow (s_w x)) by (rewrite (same_env_now _ _ S13); reflexivity).
  eexists. split; [reflexivity|]. cbn [s_w].
  pose proof (wf_bound _ W _ _ Hc) as Hold.
  assert (A3 : wacts w3 = 0) by (apply (same_env_acts w1 w3 S13); exact Ha).
  split; [|split; [exact Enow | reflexivity]].
  split; [exact Ht|]. split; [exact A3|]. exists keys, wr', roll, ts. cbn [s_flw s_w with_inner st_ts f_cfg f_poisoned].
  split; [reflexivity|]. split.
  { constructor.
    - exact (proj1 S3).
    - rewrite F3'. exact W3.
    - rewrite F3'. unfold f3. change (dir_names (append_ino ?g _ _)) with (dir_names g).
      apply create_nodup; [exact (rename_nodup _ _ _ _ Hnd Er) | exact L1c].
    - unfold eoff in *. destruct S13 as [_ [_ [-> _]]]. exact Hoff.
    - rewrite F3'. exact L3c.
    - rewrite F3'. cbn [wr' wino]. rewrite Inew. split; reflexivity.
    - exact Hlen.
    - intros i Hi. rewrite F3'. destruct (Hcl i Hi) as [j [Lj [Pj [Cj Hj2]]]].
      exists j. rewrite L3o.
      + split; [exact Lj|].
        assert (Hj1 : j <> new). { pose proof (wf_bound _ W _ _ Lj). rewrite Hnew. lia. }
        unfold content. rewrite Ioth by assumption. split; [exact Pj|]. split; [exact Cj | exact Hj1].
      + intros E. rewrite E, Hc in Lj. injection Lj as <-. exact (Hj2 eq_refl).
      + intros E. rewrite E, Hfree in Lj. discriminate.
    - intros n0 d [E|[]]. injection E as <- <-. rewrite F3'. exists (wino wr). split; [exact L3t|]. split.
      + rewrite Iold. exact Hcp.
      + split; [|cbn [wr' wino]; rewrite Hnew; lia].
        unfold content at 1. rewrite Iold. cbn [with_data fdata]. exact V.
    - intros n0 j Hn0. rewrite F3' in Hn0.
      destruct (beq_spec n0 (cname c)) as [->|Hn1]; [left; reflexivity|].
      destruct (beq_spec n0 moved) as [->|Hn2]; [right; right; left; reflexivity|].
      rewrite L3o in Hn0 by assumption. destruct (Hon _ _ Hn0) as [E|E]; [contradiction | right; left; exact E].
    - intros n0 [<-|[]]. exact Hm.
    - exact Hko.
    - exact Hrg.
    - rewrite Enow. exact Htsr.
    - reflexivity. }
  split. { unfold cur_view. rewrite F3'. cbn [wr' wino wpend]. unfold content. rewrite Inew. reflexivity. }
  split; [exact Hn|]. left. split; reflexivity.
Qed.

(* reopen_outputfile() with the file in place: the same inode is continued, the buffered tail is flushed into it *)
Lemma reopen_inplace_step_ts c crit e lo n x keys wr roll ts cl cu :
  tscfg c crit -> s_tl x = [] -> wacts (s_w x) = 0 ->
  s_flw x = Some (st_ts c ts roll wr) -> TsInv c e lo (s_w x) wr keys cl ts ->
  cur_view (s_w x) wr = cu -> length cl <= n ->
  exists x2, step x OReopen = (x2, ObsRes 0 false)
    /\ RelTX c e lo [] keys ts n x2 (cl, cu, 0) /\ wnow (s_w x2) = wnow (s_w x).
Proof.
  intros Hcfg Ht Ha Es I V Hn. pose proof Hcfg as [Hrot [Hts [Hlink Hasync]]].
  rewrite (ReopenRot.step_sync_cfg x OReopen _ Es Hts Hasync).
  pose proof (tsinv_x _ _ _ _ _ _ _ _ I) as IX. pose proof I as [Q W Hnd Hoff Hc Hcp Hlen Hcl Hon Hko Hrg Htsr Hwr Hcap].
  cbn [sync_step]. rewrite Es. cbn [st_ts f_poisoned].
  unfold reopen_state. cbn [f_inner st_ts]. rewrite (tick_quiet _ Q). cbv beta iota zeta.
  assert (Eopen : open_append (wfs (s_w x)) (cname c) (wnow (s_w x)) = (wfs (s_w x), wino wr)).
  { unfold open_append. rewrite Hc. reflexivity. }
  destruct (effect_quiet (s_w x) (fun f => fst (open_append f (cname c) (wnow (s_w x)))) Q) as [F2 S2].
  set (w2 := effect (s_w x) (fun f => fst (open_append f (cname c) (wnow (s_w x))))) in *.
  rewrite Eopen in F2. rewrite Eopen. cbn [fst snd] in F2 |- *.
  unfold w_drop. destruct (w_flush_quiet w2 wr (proj1 S2)) as [w3 [Efl [F3 S3]]]. rewrite Efl. cbn [fst snd code_of].
  set (wr' := {| wino := wino wr; wpend := []; wcap := None |}).
  pose proof (same_env_trans _ _ _ S2 S3) as S13. rewrite F2 in F3.
  destruct (tsinvx_append c e lo (s_w x) w3 wr wr' keys cl ts [] (wpend wr) IX F3 S13 eq_refl eq_refl) as [I3 C3].
  eexists. split; [reflexivity|]. cbn [s_w]. split; [|exact (same_env_now _ _ S13)].
  split; [exact Ht|]. split; [exact (same_env_acts _ _ S13 Ha)|].
  exists keys, wr', roll, ts. cbn [s_flw s_w with_inner st_ts f_cfg f_poisoned].
  split; [reflexivity|]. split; [exact I3|].
  split. { unfold cur_view. rewrite C3. cbn [wr' wpend]. rewrite app_nil_r. exact V. }
  split; [exact Hn|]. left. split; reflexivity.
Qed.

(* ================================================================== 4. whole histories *)
Lemma tail_reltx c crit e lo hi extra keys0 ts0 n x cl cu g ops2 :
  tscfg c crit -> tag_ok c -> years_ok e lo hi -> RelTX c e lo extra keys0 ts0 n x (cl, cu, g) ->
  Forall basic_op ops2 -> Forall tick_ok ops2 ->
  (wnow (s_w x) + elapsed ops2 <= hi)%Z -> (N.of_nat (n + length ops2) <= usize_max)%N ->
  exists keys ts closed2 cur2,
    tsx_view c e (wfs (s_w (fst (run x (ops2 ++ [OStop]))))) keys (cl ++ closed2) cur2 extra
    /\ keys_ok keys /\ kchain keys0 ts0 keys ts
    /\ (forall k, In k keys -> (lo <= fst k <= wnow (s_w x) + elapsed ops2)%Z)
    /\ concat closed2 ++ cur2 = cu ++ written ops2
    /\ (exists t, closed2 ++ [cur2] = (cu ++ t) :: List.tl (closed2 ++ [cur2])).
Proof.
  intros Hcfg T Y R Hb Htk Hhi Hmax. rewrite run_app.
  pose proof (run_reltx c crit e lo hi extra keys0 ts0 Hcfg T Y ops2 x _ n R Hb Htk Hhi Hmax) as [R1 W1].
  pose proof (run_length ops2 x) as L.
  pose proof (x_run_ext ops2 (cl, cu, g) (snd (run x ops2))) as X.
  pose proof (x_run_flat ops2 (cl, cu, g) (snd (run x ops2)) Hb L) as Fl.
  destruct (run x ops2) as [x1 obs1]. cbn [fst snd] in *.
  destruct (x_run (cl, cu, g) ops2 obs1) as [[cl3 cu3] g3] eqn:Ev.
  destruct (stop_reltx c crit e lo extra keys0 ts0 _ x1 cl3 cu3 g3 Hcfg R1) as [keys [ts [S [K [Rg KC]]]]].
  cbn [run]. destruct (step x1 OStop) as [x2 ob2]. cbn [fst] in *.
  cbn [x_ext x_flat] in X, Fl.
  assert (Ecl : exists closed2, cl3 = cl ++ closed2 /\ exists t, closed2 ++ [cu3] = (cu ++ t) :: List.tl (closed2 ++ [cu3])).
  { destruct X as [[-> [t ->]]|[t [rest ->]]].
    - exists []. rewrite app_nil_r. split; [reflexivity|]. exists t. reflexivity.
    - exists ((cu ++ t) :: rest). split; [reflexivity|]. exists t. reflexivity. }
  destruct Ecl as [closed2 [-> Ht]]. exists keys, ts, closed2, cu3.
  split; [exact S|]. split; [exact K|]. split; [exact KC|]. split; [rewrite <- W1; exact Rg|]. split; [|exact Ht].
  rewrite concat_app, <- !app_assoc in Fl. apply app_inv_head in Fl. exact Fl.
Qed.

(* ------------------------------------------------------------------ theorem 1: external rename of rCURRENT, then reopen *)
Theorem reopen_timestamps c crit t0 off ops1 ops2 moved :
  tscfg c crit -> tag_ok c -> Forall basic_op ops1 -> Forall basic_op ops2 -> Forall tick_ok (ops1 ++ ops2) ->
  (0 <= t0 + ts_e c off)%Z -> (t0 + elapsed (ops1 ++ ops2) + ts_e c off < sec_max)%Z ->
  (N.of_nat (length (ops1 ++ ops2)) <= usize_max)%N ->
  ts_member c moved = false -> wrote ops1 = true ->
  let e := ts_e c off in
  let x1 := fst (run (sys0 t0 off) (OStart c :: ops1)) in
  let r := run (sys0 t0 off) (OStart c :: ops1 ++ [OExtRename (cname c) moved; OReopen] ++ ops2 ++ [OStop]) in
  let f := wfs (s_w (fst r)) in
  (* reopen_outputfile() succeeds *)
  nth_error (snd r) (S (S (length ops1))) = Some (ObsRes 0 false)
  /\ exists keys1 closed1 cur1 ts1 keys2 closed2 cur2,
       (* keys1, closed1, cur1: the closed files and rCURRENT of the history ops1; ts1: the time stamp in the naming state,
          the start of that rCURRENT *)
       ts_view c e (wfs (s_w (fst (run (sys0 t0 off) (OStart c :: ops1 ++ [OStop]))))) keys1 closed1 cur1
       /\ concat closed1 ++ cur1 = written ops1
       /\ ns_stamp x1 = Some ts1 /\ (t0 <= ts1 <= t0 + elapsed ops1)%Z
       (* the directory: the closed files of ops1 untouched, the files closed during ops2 under further keys, a new rCURRENT,
          and the renamed file with everything written since the last rotation of ops1 (buffered tail included) *)
       /\ tsx_view c e f (keys1 ++ keys2) (closed1 ++ closed2) cur2 [(moved, cur1)]
       /\ keys_ok (keys1 ++ keys2)
       /\ (forall k, In k (keys1 ++ keys2) -> (t0 <= fst k <= t0 + elapsed (ops1 ++ ops2))%Z)
       /\ concat closed2 ++ cur2 = written ops2
       /\ concat (closed1 ++ [cur1] ++ closed2 ++ [cur2]) = written (ops1 ++ ops2)
       (* the rCURRENT created by the reopen is closed under the time stamp of the MOVED file's start, with the restart
          counter that the moved file would have got *)
       /\ (keys2 = [] \/ exists tl, keys2 = (ts1, count ts1 keys1) :: tl).
Proof.
  intros Hcfg T Hb1 Hb2 Htk Hlo Hhi Hmax Hm Hw e. cbv zeta.
  apply Forall_app in Htk. destruct Htk as [Htk1 Htk2]. rewrite elapsed_app in Hhi |- *. rewrite app_length in Hmax.
  pose proof (elapsed_nonneg _ Htk1) as En1. pose proof (elapsed_nonneg _ Htk2) as En2.
  destruct (step (sys0 t0 off) (OStart c)) as [x0 ob0] eqn:E0.
  pose proof (wnow_start c t0 off x0 ob0 E0) as W0.
  pose proof (start_rel_ts c t0 off) as R0. rewrite E0 in R0. cbn [fst] in R0. fold e in R0.
  assert (Y : years_ok e t0 (t0 + elapsed ops1 + elapsed ops2)) by (unfold years_ok, e; lia).
  cbn [run]. rewrite E0. rewrite !run_app.
  pose proof (run_rel_ts c crit e t0 _ Hcfg T Y ops1 x0 None 0 R0 Hb1 Htk1 ltac:(lia) ltac:(cbn [Nat.add]; lia)) as [R1 W1].
  pose proof (run_length ops1 x0) as L1.
  pose proof (a_run_none_wrote ops1 (snd (run x0 ops1)) L1) as Hw'. rewrite Hw in Hw'.
  pose proof (a_run_flat ops1 None (snd (run x0 ops1)) Hb1 L1) as Fl1. cbn [flat app] in Fl1.
  destruct (run x0 ops1) as [x1 obs1]. cbn [fst snd Nat.add] in *.
  destruct Hw' as [[cl cu] Ea]. rewrite Ea in *. cbn [flat] in Fl1.
  destruct R1 as [Ht1 [Ha1 [keys [wr [roll [ts [Es [I [V Hn]]]]]]]]].
  pose proof (stop_tsx_core c crit e t0 [] x1 keys wr roll ts cl Hcfg Es Ha1 (tsinv_x _ _ _ _ _ _ _ _ I)) as S1.
  apply tsx_view_nil in S1. rewrite V in S1.
  destruct (reopen_moved_step_ts c crit e t0 _ _ x1 keys wr roll ts cl cu moved Hcfg Y ltac:(lia) Ht1 Ha1 Es I V Hn Hm)
    as [x2 [E2 [R2 [W2 St2]]]].
  rewrite (run_app [OExtRename (cname c) moved; OReopen]). rewrite E2.
  destruct (tail_reltx c crit e t0 _ [(moved, cu)] keys ts _ x2 cl [] 0 ops2 Hcfg T Y R2 Hb2 Htk2 ltac:(lia) ltac:(lia))
    as [keys' [ts' [closed2 [cur2 [D [K [KC [Rg [C _]]]]]]]]].
  destruct (run x2 (ops2 ++ [OStop])) as [x3 obs3]. cbn [fst snd] in *.
  split; [apply nth_error_after; exact L1|].
  cbn [run]. destruct (step x1 OStop) as [x1s ob1s]. cbn [fst] in *. cbn [app] in C.
  assert (Ek : exists keys2, keys' = keys ++ keys2 /\ (keys2 = [] \/ exists tl, keys2 = (ts, count ts keys) :: tl)).
  { destruct KC as [[-> _]|[tl ->]]; [exists []; rewrite app_nil_r; auto | eexists; split; [reflexivity | right; eauto]]. }
  destruct Ek as [keys2 [-> Hk2]].
  exists keys, cl, cu, ts, keys2, closed2, cur2.
  split; [exact S1|]. split; [exact Fl1|].
  split; [unfold ns_stamp; rewrite Es; reflexivity|].
  split; [pose proof (ti_ts _ _ _ _ _ _ _ _ I); lia|].
  split; [exact D|]. split; [exact K|]. split; [intros k Ik; specialize (Rg k Ik); lia|]. split; [exact C|].
  split; [|exact Hk2].
  rewrite ReopenRot.written_app, !concat_app. cbn [concat]. rewrite !app_nil_r, <- Fl1, <- C, <- !app_assoc. reflexivity.
Qed.
Print Assumptions reopen_timestamps.

Lemma nth_error_mid {A} (pre : list A) a rest n : length pre = n -> nth_error (pre ++ a :: rest) n = Some a.
Proof. intros <-. rewrite nth_error_app2 by lia. rewrite Nat.sub_diag. reflexivity. Qed.

(* ------------------------------------------------------------------ theorem 2: reopen with rCURRENT in place *)
(* the current file is continued (not truncated), the keys of the closed files are extended *)
Theorem reopen_timestamps_in_place c crit t0 off ops1 ops2 :
  tscfg c crit -> tag_ok c -> Forall basic_op ops1 -> Forall basic_op ops2 -> Forall tick_ok (ops1 ++ ops2) ->
  (0 <= t0 + ts_e c off)%Z -> (t0 + elapsed (ops1 ++ ops2) + ts_e c off < sec_max)%Z ->
  (N.of_nat (length (ops1 ++ ops2)) <= usize_max)%N -> wrote ops1 = true ->
  let e := ts_e c off in
  let r := run (sys0 t0 off) (OStart c :: ops1 ++ [OReopen] ++ ops2 ++ [OStop]) in
  let f := wfs (s_w (fst r)) in
  nth_error (snd r) (S (length ops1)) = Some (ObsRes 0 false)
  /\ exists keys1 closed1 cur1 keys2 closed2 cur2,
       ts_view c e (wfs (s_w (fst (run (sys0 t0 off) (OStart c :: ops1 ++ [OStop]))))) keys1 closed1 cur1
       /\ concat closed1 ++ cur1 = written ops1
       /\ ts_view c e f (keys1 ++ keys2) (closed1 ++ closed2) cur2
       /\ keys_ok (keys1 ++ keys2)
       /\ (forall k, In k (keys1 ++ keys2) -> (t0 <= fst k <= t0 + elapsed (ops1 ++ ops2))%Z)
       /\ concat (closed1 ++ closed2) ++ cur2 = written (ops1 ++ ops2)
       /\ (exists t, closed2 ++ [cur2] = (cur1 ++ t) :: List.tl (closed2 ++ [cur2])).
Proof.
  intros Hcfg T Hb1 Hb2 Htk Hlo Hhi Hmax Hw e. cbv zeta.
  apply Forall_app in Htk. destruct Htk as [Htk1 Htk2]. rewrite elapsed_app in Hhi |- *. rewrite app_length in Hmax.
  pose proof (elapsed_nonneg _ Htk1) as En1. pose proof (elapsed_nonneg _ Htk2) as En2.
  destruct (step (sys0 t0 off) (OStart c)) as [x0 ob0] eqn:E0.
  pose proof (wnow_start c t0 off x0 ob0 E0) as W0.
  pose proof (start_rel_ts c t0 off) as R0. rewrite E0 in R0. cbn [fst] in R0. fold e in R0.
  assert (Y : years_ok e t0 (t0 + elapsed ops1 + elapsed ops2)) by (unfold years_ok, e; lia).
  cbn [run]. rewrite E0. rewrite !run_app.
  pose proof (run_rel_ts c crit e t0 _ Hcfg T Y ops1 x0 None 0 R0 Hb1 Htk1 ltac:(lia) ltac:(cbn [Nat.add]; lia)) as [R1 W1].
  pose proof (run_length ops1 x0) as L1.
  pose proof (a_run_none_wrote ops1 (snd (run x0 ops1)) L1) as Hw'. rewrite Hw in Hw'.
  pose proof (a_run_flat ops1 None (snd (run x0 ops1)) Hb1 L1) as Fl1. cbn [flat app] in Fl1.
  destruct (run x0 ops1) as [x1 obs1]. cbn [fst snd Nat.add] in *.
  destruct Hw' as [[cl cu] Ea]. rewrite Ea in *. cbn [flat] in Fl1.
  destruct R1 as [Ht1 [Ha1 [keys [wr [roll [ts [Es [I [V Hn]]]]]]]]].
  pose proof (stop_tsx_core c crit e t0 [] x1 keys wr roll ts cl Hcfg Es Ha1 (tsinv_x _ _ _ _ _ _ _ _ I)) as S1.
  apply tsx_view_nil in S1. rewrite V in S1.
  destruct (reopen_inplace_step_ts c crit e t0 _ x1 keys wr roll ts cl cu Hcfg Ht1 Ha1 Es I V Hn) as [x2 [E2 [R2 W2]]].
  assert (E2' : run x1 [OReopen] = (x2, [ObsRes 0 false])) by (cbn [run]; rewrite E2; reflexivity).
  rewrite (run_app [OReopen]), E2'.
  destruct (tail_reltx c crit e t0 _ [] keys ts _ x2 cl cu 0 ops2 Hcfg T Y R2 Hb2 Htk2 ltac:(lia) ltac:(lia))
    as [keys' [ts' [closed2 [cur2 [D [K [KC [Rg [C Hext]]]]]]]]].
  destruct (run x2 (ops2 ++ [OStop])) as [x3 obs3]. cbn [fst snd] in *.
  split; [apply nth_error_mid; exact L1|].
  cbn [run]. destruct (step x1 OStop) as [x1s ob1s]. cbn [fst] in *.
  assert (Ek : exists keys2, keys' = keys ++ keys2).
  { destruct KC as [[-> _]|[tl ->]]; [exists []; rewrite app_nil_r; reflexivity | eexists; reflexivity]. }
  destruct Ek as [keys2 ->]. apply tsx_view_nil in D.
  exists keys, cl, cu, keys2, closed2, cur2.
  split; [exact S1|]. split; [exact Fl1|]. split; [exact D|]. split; [exact K|].
  split; [intros k Ik; specialize (Rg k Ik); lia|]. split; [|exact Hext].
  rewrite ReopenRot.written_app, concat_app, <- Fl1, <- !app_assoc. f_equal. exact C.
Qed.
Print Assumptions reopen_timestamps_in_place.

(* ================================================================== 5. examples (non-vacuity) and findings *)
Require FL.Flw.ReopenFacts.
Import String.StringSyntax.
Open Scope string_scope.

Definition ett_cfg (base : String.string) (cap : option nat) (app : bool) : config :=
  {| c_spec := {| fbase := bs base; fdisc := None; fts := false; fsfx := Some (bs "log") |};
     c_append := app; c_cap := cap; c_rot := Some (CSize 3, NTimestamps, KNever); c_utc := false;
     c_symlink := false; c_bg := false; c_async := false; c_start := None |}.
Definition ett_a := ett_cfg "a" (Some 8) false.   (* a_rCURRENT.log, a_r<ts>[.restart-NNNN].log; limit 3 bytes, BufWriter of 8 bytes *)
(* the histories of ReopenRot.v: ex_ops1 = "abcd" | "ef" flush "gh" (in the buffer);  ex_ops2 = "ij" "kl" tick 5 "mnop" snap "q" *)

Example ett_hyps :
  tscfg ett_a (CSize 3) /\ tag_ok ett_a /\ Forall basic_op ex_ops1 /\ Forall basic_op ex_ops2
  /\ Forall tick_ok (ex_ops1 ++ ex_ops2)
  /\ (0 <= 0 + ts_e ett_a 0)%Z /\ (0 + elapsed (ex_ops1 ++ ex_ops2) + ts_e ett_a 0 < sec_max)%Z
  /\ (N.of_nat (length (ex_ops1 ++ ex_ops2)) <= usize_max)%N
  /\ ts_member ett_a ex_moved = false /\ wrote ex_ops1 = true.
Proof.
  split; [repeat split|]. split; [apply tag_free_ok; split; vm_compute; reflexivity|].
  split; [repeat constructor|]. split; [repeat constructor|].
  split; [repeat (apply Forall_cons; [cbn [tick_ok]; first [exact Logic.I | lia]|]); apply Forall_nil|].
  split; [vm_compute; discriminate|]. split; [vm_compute; reflexivity|]. split; [vm_compute; discriminate|].
  split; vm_compute; reflexivity.
Qed.

(* at the rename "efgh" is partly on disk, partly in the buffer; reopen succeeds; a.old gets the buffered tail; the new
   rCURRENT (over the inherited size count at once) is closed EMPTY under the time stamp 00-00-00 of the moved file's start
   with the restart counter 0000; no name is used twice *)
Example ett_reopen_computed :
  ex_dir (OStart ett_a :: ex_ops1)
  = [(bs "a_r1970-01-01_00-00-00.log", bs "abcd"); (bs "a_rCURRENT.log", bs "ef")]
  /\ ex_dir (OStart ett_a :: ex_ops1 ++ [OExtRename (cname ett_a) ex_moved; OReopen])
  = [(bs "a.old", bs "efgh"); (bs "a_r1970-01-01_00-00-00.log", bs "abcd"); (bs "a_rCURRENT.log", [])]
  /\ ex_dir (OStart ett_a :: ex_ops1 ++ [OExtRename (cname ett_a) ex_moved; OReopen] ++ ex_ops2 ++ [OStop])
  = [(bs "a.old", bs "efgh"); (bs "a_r1970-01-01_00-00-00.log", bs "abcd"); (bs "a_r1970-01-01_00-00-00.restart-0000.log", []);
     (bs "a_r1970-01-01_00-00-00.restart-0001.log", bs "ijkl"); (bs "a_r1970-01-01_00-00-05.log", bs "mnop");
     (bs "a_rCURRENT.log", bs "q")]
  /\ nth_error (snd (run (sys0 0 0) (OStart ett_a :: ex_ops1 ++ [OExtRename (cname ett_a) ex_moved; OReopen] ++ ex_ops2 ++ [OStop])))
               (S (S (length ex_ops1))) = Some (ObsRes 0 false).
Proof. repeat (split; [vm_compute; reflexivity|]); vm_compute; reflexivity. Qed.

(* FINDING (ext_reopen_stamp): rename at second 7, reopen at second 9 - the rCURRENT created at second 9 is closed at second 12
   as ..._00-00-00.restart-0000: under the time stamp 0 of the MOVED file's start (the naming state survives the reopen), with
   the counter the moved file would have got.  The file name claims a start 9 seconds before the file existed. *)
Example ext_reopen_stamp :
  ex_dir (OStart ett_a :: ex_ops1 ++ [OTick 7; OExtRename (cname ett_a) ex_moved; OTick 2; OReopen; OTick 3] ++ ex_ops2 ++ [OStop])
  = [(bs "a.old", bs "efgh"); (bs "a_r1970-01-01_00-00-00.log", bs "abcd"); (bs "a_r1970-01-01_00-00-00.restart-0000.log", []);
     (bs "a_r1970-01-01_00-00-12.log", bs "ijkl"); (bs "a_r1970-01-01_00-00-17.log", bs "mnop"); (bs "a_rCURRENT.log", bs "q")]
  /\ ns_stamp (ReopenFacts.end_of (OStart ett_a :: ex_ops1 ++ [OTick 7; OExtRename (cname ett_a) ex_moved; OTick 2; OReopen])) = Some 0%Z
  /\ wnow (s_w (ReopenFacts.end_of (OStart ett_a :: ex_ops1 ++ [OTick 7; OExtRename (cname ett_a) ex_moved; OTick 2; OReopen]))) = 9%Z.
Proof. repeat (split; [vm_compute; reflexivity|]); vm_compute; reflexivity. Qed.

(* the NAMES of the family are those of the history without the rename (there "efgh" is in ...restart-0000) *)
Example ext_reopen_same_keys :
  List.map fst (ex_dir (OStart ett_a :: (ex_ops1 ++ [OTick 7]) ++ ex_ops2 ++ [OStop]))
  = List.tl (List.map fst (ex_dir (OStart ett_a :: (ex_ops1 ++ [OTick 7]) ++ [OExtRename (cname ett_a) ex_moved; OReopen] ++ ex_ops2 ++ [OStop]))).
Proof. vm_compute. reflexivity. Qed.

(* the size count is not reset by the reopen: the new rCURRENT stays empty (as with the other namings) *)
Example ext_reopen_empty_file :
  ReopenFacts.assoc (bs "a_r1970-01-01_00-00-00.restart-0000.log")
    (ex_dir (OStart ett_a :: ex_ops1 ++ [OExtRename (cname ett_a) ex_moved; OReopen] ++ ex_ops2 ++ [OStop])) = Some [].
Proof. vm_compute. reflexivity. Qed.

(* ... what theorem 1 says about the history *)
Example ett_reopen_thm :
  exists keys1 closed1 cur1 keys2 closed2 cur2,
    ts_view ett_a 0 (wfs (s_w (fst (run (sys0 0 0) (OStart ett_a :: ex_ops1 ++ [OStop]))))) keys1 closed1 cur1
    /\ tsx_view ett_a 0 (wfs (s_w (fst (run (sys0 0 0) (OStart ett_a :: ex_ops1 ++ [OExtRename (cname ett_a) ex_moved; OReopen] ++ ex_ops2 ++ [OStop])))))
         (keys1 ++ keys2) (closed1 ++ closed2) cur2 [(ex_moved, cur1)]
    /\ keys_ok (keys1 ++ keys2)
    /\ concat closed2 ++ cur2 = written ex_ops2
    /\ (keys2 = [] \/ exists tl, keys2 = (0%Z, count 0%Z keys1) :: tl).
Proof.
  destruct ett_hyps as (Hc & T & H1 & H2 & Htk & Hlo & Hhi & Hmax & Hm & Hw).
  pose proof (reopen_timestamps ett_a (CSize 3) 0 0 ex_ops1 ex_ops2 ex_moved Hc T H1 H2 Htk Hlo Hhi Hmax Hm Hw) as [_ X].
  destruct X as (keys1 & closed1 & cur1 & ts1 & keys2 & closed2 & cur2 & V1 & _ & St & _ & D & K & _ & C & _ & F).
  assert (Ets : ts1 = 0%Z) by (vm_compute in St; injection St as <-; reflexivity). subst ts1.
  exists keys1, closed1, cur1, keys2, closed2, cur2. auto.
Qed.

(* FINDING: the hypothesis ts_member c moved = false.  A member name is never overwritten, but a name with a LATER time stamp
   (second 5) misplaces the records in the reader's order: abcd | "" | ijkl | efgh | mnop | q *)
Example ext_reopen_family_name_misplaces :
  ts_member ett_a (kname ett_a 0 (5%Z, 0)) = true
  /\ ex_dir (OStart ett_a :: ex_ops1 ++ [OExtRename (cname ett_a) (kname ett_a 0 (5%Z, 0)); OReopen] ++ ex_ops2 ++ [OStop])
  = [(bs "a_r1970-01-01_00-00-00.log", bs "abcd"); (bs "a_r1970-01-01_00-00-00.restart-0000.log", []);
     (bs "a_r1970-01-01_00-00-00.restart-0001.log", bs "ijkl"); (bs "a_r1970-01-01_00-00-05.log", bs "efgh");
     (bs "a_r1970-01-01_00-00-05.restart-0000.log", bs "mnop"); (bs "a_rCURRENT.log", bs "q")].
Proof. split; vm_compute; reflexivity. Qed.

(* ---- theorem 2 on a history: the directory is the one of the history without the reopen ---- *)
Example ett_in_place_computed :
  ex_dir (OStart ett_a :: ex_ops1 ++ [OReopen] ++ ex_ops2 ++ [OStop])
  = [(bs "a_r1970-01-01_00-00-00.log", bs "abcd"); (bs "a_r1970-01-01_00-00-00.restart-0000.log", bs "efgh");
     (bs "a_r1970-01-01_00-00-00.restart-0001.log", bs "ijkl"); (bs "a_r1970-01-01_00-00-05.log", bs "mnop");
     (bs "a_rCURRENT.log", bs "q")]
  /\ ex_dir (OStart ett_a :: ex_ops1 ++ ex_ops2 ++ [OStop]) = ex_dir (OStart ett_a :: ex_ops1 ++ [OReopen] ++ ex_ops2 ++ [OStop])
  /\ nth_error (snd (run (sys0 0 0) (OStart ett_a :: ex_ops1 ++ [OReopen] ++ ex_ops2 ++ [OStop]))) (S (length ex_ops1))
     = Some (ObsRes 0 false).
Proof. repeat (split; [vm_compute; reflexivity|]); vm_compute; reflexivity. Qed.

Example ett_in_place_thm :
  exists keys closed cur,
    ts_view ett_a 0 (wfs (s_w (fst (run (sys0 0 0) (OStart ett_a :: ex_ops1 ++ [OReopen] ++ ex_ops2 ++ [OStop]))))) keys closed cur
    /\ keys_ok keys /\ concat closed ++ cur = written (ex_ops1 ++ ex_ops2).
Proof.
  destruct ett_hyps as (Hc & T & H1 & H2 & Htk & Hlo & Hhi & Hmax & _ & Hw).
  pose proof (reopen_timestamps_in_place ett_a (CSize 3) 0 0 ex_ops1 ex_ops2 Hc T H1 H2 Htk Hlo Hhi Hmax Hw) as [_ X].
  destruct X as (keys1 & closed1 & cur1 & keys2 & closed2 & cur2 & _ & _ & V & K & _ & C & _).
  exists (keys1 ++ keys2), (closed1 ++ closed2), cur2. split; [exact V|]. split; [exact K | exact C].
Qed.
