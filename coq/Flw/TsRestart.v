(* Timestamps naming: sequences of runs on the same directory.  A writer that starts on the directory that earlier writers
   left behind never destroys, truncates or reorders what they wrote, and no file name is used twice: the closed files are
   named by keys (second of creation, position within the second) that satisfy keys_ok over the WHOLE history. *)
Require Import FL.Base.Bytes FL.Base.BytesFacts FL.Base.PathName FL.Fs.Fs FL.Fs.FsFacts FL.Time.Civil FL.Time.TsFormat
  FL.Names.FileSpec FL.Names.NamesFacts FL.Names.SortFacts FL.Flw.Model FL.Flw.ModelFacts FL.Flw.NumFs FL.Flw.NumInv FL.Flw.Run
  FL.Flw.RunFacts FL.Flw.NumRun FL.Oracles.O_Flw FL.Flw.NumTheorems FL.Flw.NumListing FL.Flw.NumRestart
  FL.Flw.TsCal FL.Flw.TsTime FL.Flw.TsNames FL.Flw.TsInv FL.Flw.TsRun FL.Flw.TsTheorems FL.Flw.TsRestartInv.
From Coq Require Import ZifyN ZifyNat ZifyBool.
Import String.StringSyntax.
Open Scope nat_scope.

(* ------------------------------------------------------------------ the abstract view *)
(* None: the directory is empty.  Some (keys, closed, cur, ts): the closed files in the order of their closing, with their
   keys; the content of rCURRENT (including what its writer still buffers); the birth second of rCURRENT *)
Definition tview := option (list key * list bytes * bytes * Z).
Definition closedT (d : tview) : list bytes := match d with Some (_, cl, _, _) => cl | None => [] end.
Definition flatT (d : tview) : bytes := match d with Some (_, cl, cu, _) => concat cl ++ cu | None => [] end.

(* d' continues d: either nothing was closed (same keys, same closed files, the same current file - same birth second -,
   possibly longer), or the current file of d was closed - possibly after more was appended to it - under the key of ITS
   birth second, and further files follow.  Nothing that was closed changes its key or its content. *)
Definition ExtT (d d' : tview) : Prop :=
  match d with
  | None => True
  | Some (keys, closed, cur, ts) =>
    match d' with
    | None => False
    | Some (keys', closed', cur', ts') =>
      (keys' = keys /\ closed' = closed /\ ts' = ts /\ exists t, cur' = cur ++ t)
      \/ (exists t mk mc, keys' = keys ++ (ts, count ts keys) :: mk /\ closed' = closed ++ (cur ++ t) :: mc)
    end
  end.

Lemma ExtT_refl d : ExtT d d.
Proof.
  destruct d as [[[[keys closed] cur] ts]|]; cbn [ExtT]; [|exact Logic.I].
  left. repeat split. exists []. rewrite app_nil_r. reflexivity.
Qed.

Lemma ExtT_trans d1 d2 d3 : ExtT d1 d2 -> ExtT d2 d3 -> ExtT d1 d3.
Proof.
  destruct d1 as [[[[k1 c1] u1] t1]|]; [|intros; exact Logic.I].
  destruct d2 as [[[[k2 c2] u2] t2]|]; [|intros []].
  destruct d3 as [[[[k3 c3] u3] t3]|]; [|intros _ []].
  cbn [ExtT]. intros [[-> [-> [-> [t ->]]]]|[t [mk [mc [-> ->]]]]] [[-> [-> [-> [t' ->]]]]|[t' [mk' [mc' [-> ->]]]]].
  - left. repeat split. exists (t ++ t'). rewrite app_assoc. reflexivity.
  - right. exists (t ++ t'), mk', mc'. rewrite app_assoc. split; reflexivity.
  - right. exists t, mk, mc. split; reflexivity.
  - right. exists t, (mk ++ (t2, count t2 (k1 ++ (t1, count t1 k1) :: mk)) :: mk'), (mc ++ (u2 ++ t') :: mc').
    rewrite <- !app_assoc. split; reflexivity.
Qed.

Lemma ExtT_same keys closed cur ts t : ExtT (Some (keys, closed, cur, ts)) (Some (keys, closed, cur ++ t, ts)).
Proof. cbn [ExtT]. left. repeat split. exists t. reflexivity. Qed.

Lemma ExtT_rot keys closed cur ts cur' ts' :
  ExtT (Some (keys, closed, cur, ts)) (Some (keys ++ [(ts, count ts keys)], closed ++ [cur], cur', ts')).
Proof. cbn [ExtT]. right. exists [], [], []. rewrite app_nil_r. split; reflexivity. Qed.

(* ------------------------------------------------------------------ the directory between two writers *)
(* described as what a writer with an empty buffer holds (TsInvB) *)
Definition dir_ts (c : config) (e lo : Z) (w : world) (d : tview) : Prop :=
  match d with
  | None => names (wfs w) = [] /\ inodes (wfs w) = [] /\ (lo <= wnow w)%Z
  | Some (keys, closed, cur, ts) =>
    exists wr, TsInvB c e lo w wr keys closed ts /\ wpend wr = [] /\ cur_view w wr = cur
  end.

Definition envT (c : config) (e : Z) (x : sys) : Prop :=
  s_tl x = [] /\ wacts (s_w x) = 0 /\ quiet (s_w x) /\ eoff c (s_w x) = e.

(* no writer; n bounds the number of closed files *)
Definition IdleT (c : config) (e lo : Z) (n : nat) (x : sys) (d : tview) : Prop :=
  envT c e x /\ s_flw x = None /\ dir_ts c e lo (s_w x) d /\ length (closedT d) <= n.
(* a writer that has not written yet: it has not looked at the directory *)
Definition PreT (c : config) (e lo : Z) (n : nat) (x : sys) (d : tview) : Prop :=
  envT c e x /\ s_flw x = Some (new_flw c) /\ dir_ts c e lo (s_w x) d /\ S (length (closedT d)) <= n.
(* a writer that has written *)
Definition ActT (c : config) (e lo : Z) (n : nat) (x : sys) (d : tview) : Prop :=
  envT c e x /\
  match d with
  | None => False
  | Some (keys, closed, cur, ts) =>
    exists wr roll, s_flw x = Some (st_ts c ts roll wr) /\ TsInvB c e lo (s_w x) wr keys closed ts
      /\ cur_view (s_w x) wr = cur /\ length closed <= n
  end.

(* ---- the names depend on the file spec only ---- *)
Lemma kname_spec_eq c c' e k : c_spec c = c_spec c' -> kname c e k = kname c' e k.
Proof. unfold kname, nm, fixed0. intros ->. reflexivity. Qed.

Lemma tsinv_spec c c' e lo w wr keys closed ts : c_spec c = c_spec c' -> eoff c' w = e ->
  TsInv c e lo w wr keys closed ts -> wpend wr = [] ->
  TsInv c' e lo w {| wino := wino wr; wpend := []; wcap := c_cap c' |} keys closed ts.
Proof.
  intros E Hoff' [Q W Hnd Hoff Hc Hcp Hlen Hcl Hon Hko Hrg Htsr Hwr Hcap] Hp.
  pose proof (cname_spec_eq c c' E) as En.
  constructor; cbn [wino wpend wcap]; try assumption.
  - rewrite <- En. exact Hc.
  - intros i Hi. rewrite <- (kname_spec_eq c c' e _ E). exact (Hcl i Hi).
  - intros n j L. destruct (Hon n j L) as [->|[i [Hi ->]]]; [left; exact En | right].
    exists i. split; [exact Hi | apply kname_spec_eq; exact E].
  - unfold wr_ok. cbn. destruct (c_cap c'); [lia | reflexivity].
  - reflexivity.
Qed.

Lemma dir_ts_spec c c' e lo w d : c_spec c = c_spec c' -> eoff c' w = e -> dir_ts c e lo w d -> dir_ts c' e lo w d.
Proof.
  intros E Hoff'. destruct d as [[[[keys closed] cur] ts]|]; cbn [dir_ts]; [|tauto].
  intros [wr [[I B] [Hp V]]]. exists {| wino := wino wr; wpend := []; wcap := c_cap c' |}.
  split; [split; [exact (tsinv_spec c c' e lo w wr keys closed ts E Hoff' I Hp) | exact B]|].
  split; [reflexivity|]. unfold cur_view in *. cbn [wino wpend]. rewrite Hp in V. exact V.
Qed.

Lemma eoff_utc c c' w : c_utc c = c_utc c' -> eoff c w = eoff c' w.
Proof. unfold eoff. intros ->. reflexivity. Qed.

Lemma idleT_spec c c' e lo n x d : c_spec c = c_spec c' -> c_utc c = c_utc c' -> IdleT c e lo n x d -> IdleT c' e lo n x d.
Proof.
  intros E U [[Ht [Ha [Q Ho]]] [Es [D Hn]]].
  assert (Ho' : eoff c' (s_w x) = e) by (rewrite <- (eoff_utc c c' _ U); exact Ho).
  split; [repeat split; try assumption; apply Q|]. split; [exact Es|]. split; [exact (dir_ts_spec c c' e lo _ d E Ho' D) | exact Hn].
Qed.

Lemma idleT_mono c e lo n m x d : n <= m -> IdleT c e lo n x d -> IdleT c e lo m x d.
Proof. intros H [A [B [C D]]]. split; [exact A|]. split; [exact B|]. split; [exact C | lia]. Qed.

(* ------------------------------------------------------------------ steps are steps of the synchronous handle *)
Lemma step_sync_cfg c crit x s o : tscfg c crit -> s_flw x = Some s -> f_cfg s = c -> step x o = sync_step x o.
Proof.
  intros [_ [Hts [_ Ha]]] Es Ec.
  rewrite step_plain by (intros s' Es'; rewrite Es in Es'; injection Es' as <-; rewrite Ec; exact Hts).
  unfold step_core. rewrite Es. unfold is_async. rewrite Ec, Ha. reflexivity.
Qed.

Lemma step_sync_none x o : s_flw x = None -> step x o = sync_step x o.
Proof. intros Es. unfold step, apply_start. rewrite Es. unfold step_core. rewrite Es. reflexivity. Qed.

Lemma eoff_set_now c w t : eoff c (set_now w t) = eoff c w.
Proof. reflexivity. Qed.

Lemma eoff_same_env c w w' : same_env w w' -> eoff c w' = eoff c w.
Proof. intros [_ [_ [H _]]]. unfold eoff. rewrite H. reflexivity. Qed.

Lemma envT_env c e x x' : envT c e x -> s_tl x' = [] -> same_env (s_w x) (s_w x') -> envT c e x'.
Proof.
  intros [Ht [Ha [Q Ho]]] Ht' S. split; [exact Ht'|]. split; [exact (same_env_acts _ _ S Ha)|]. split; [apply S|].
  rewrite (eoff_same_env c _ _ S). exact Ho.
Qed.

(* ------------------------------------------------------------------ one operation of a writer that has written *)
Lemma act_step c crit e lo hi n x D o :
  tscfg c crit -> tag_ok c -> years_ok e lo hi -> ActT c e lo n x (Some D) -> basic_op o -> tick_ok o ->
  (wnow (s_w x) <= hi)%Z -> (N.of_nat n <= usize_max)%N ->
  exists D', ActT c e lo (S n) (fst (step x o)) (Some D') /\ ExtT (Some D) (Some D')
    /\ flatT (Some D') = flatT (Some D) ++ written [o]
    /\ wnow (s_w (fst (step x o))) = (wnow (s_w x) + dt_of o)%Z.
Proof.
  intros Hcfg T Y A Hb Htk Hhi Hmax. destruct D as [[[keys closed] cur] ts].
  destruct A as [E0 [wr [roll [Es [I [V Hn]]]]]]. pose proof E0 as [Ht [Ha [Q Ho]]].
  rewrite (step_sync_cfg c crit x _ o Hcfg Es eq_refl).
  assert (WR : forall b, exists D', ActT c e lo (S n)
              (fst (let '(r, w1, s1, rot) := write_buffer (st_ts c ts roll wr) (s_w x) b in
                    ({| s_flw := Some s1; s_w := w1; s_tl := []; s_dead := s_dead x |}, ObsRes 0%N rot))) (Some D')
            /\ ExtT (Some (keys, closed, cur, ts)) (Some D')
            /\ flatT (Some D') = flatT (Some (keys, closed, cur, ts)) ++ b
            /\ wnow (s_w (fst (let '(r, w1, s1, rot) := write_buffer (st_ts c ts roll wr) (s_w x) b in
                    ({| s_flw := Some s1; s_w := w1; s_tl := []; s_dead := s_dead x |}, ObsRes 0%N rot)))) = wnow (s_w x)).
  { intros b.
    destruct (write_active_tsb c crit e lo hi (s_w x) wr keys closed ts roll b Hcfg T Y I Hhi ltac:(lia))
      as [w' [wr' [roll' [keys' [closed' [ts' [E [I' [S' V']]]]]]]]].
    rewrite E. cbn [fst s_w]. rewrite V in V'.
    exists (keys', closed', cur_view w' wr', ts').
    split; [|split; [|split; [|exact (same_env_now _ _ S')]]].
    - split; [apply (envT_env c e x _ E0); [reflexivity | exact S']|].
      exists wr', roll'. cbn [s_flw s_w]. split; [reflexivity|]. split; [exact I'|]. split; [reflexivity|].
      destruct (rotation_necessary (s_w x) roll); injection V' as _ -> _ _; rewrite ?app_length; cbn [length]; lia.
    - rewrite V'. destruct (rotation_necessary (s_w x) roll); [apply ExtT_rot | apply ExtT_same].
    - rewrite V'. destruct (rotation_necessary (s_w x) roll); cbn [flatT].
      + rewrite concat_app. cbn [concat]. rewrite app_nil_r. reflexivity.
      + rewrite app_assoc. reflexivity. }
  destruct o; try contradiction; cbn [sync_step dt_of written].
  - (* OWrite *)
    rewrite Es. cbn [st_ts f_poisoned]. fold (st_ts c ts roll wr). rewrite Ht. cbn [app].
    destruct (WR b) as [D' [A' [X' [F' W']]]]. exists D'.
    destruct (write_buffer (st_ts c ts roll wr) (s_w x) b) as [[[r w1] s1] rot] eqn:E.
    assert (Er : r = Ok tt).
    { destruct (write_active_tsb c crit e lo hi (s_w x) wr keys closed ts roll b Hcfg T Y I Hhi ltac:(lia))
        as [w' [wr' [roll' [keys' [closed' [ts' [E' _]]]]]]]. rewrite E in E'. injection E' as -> _ _ _. reflexivity. }
    subst r. cbn [fst s_w] in *. rewrite app_nil_r. split; [exact A'|]. split; [exact X'|]. split; [exact F' | lia].
  - (* OPlain *)
    rewrite Es. cbn [st_ts f_poisoned]. fold (st_ts c ts roll wr).
    destruct (WR b) as [D' [A' [X' [F' W']]]]. exists D'.
    destruct (write_buffer (st_ts c ts roll wr) (s_w x) b) as [[[r w1] s1] rot] eqn:E.
    cbn [fst s_w] in *. rewrite Ht. rewrite app_nil_r. split; [exact A'|]. split; [exact X'|]. split; [exact F' | lia].
  - (* OFlush *)
    rewrite Es. cbn [st_ts f_poisoned]. fold (st_ts c ts roll wr).
    destruct (flush_active_tsb c e lo (s_w x) wr keys closed ts roll I) as [w' [wr' [E [I' [V' [P' S']]]]]].
    rewrite E. cbn [fst s_w]. exists (keys, closed, cur, ts).
    split; [|split; [apply ExtT_refl|]; split; [rewrite app_nil_r; reflexivity | rewrite (same_env_now _ _ S'); lia]].
    split; [apply (envT_env c e x _ E0); [exact Ht | exact S']|].
    exists wr', roll. cbn [s_flw s_w]. split; [reflexivity|]. split; [exact I'|]. split; [congruence | lia].
  - (* OTrigger *)
    rewrite Es. cbn [st_ts f_poisoned f_cfg f_inner].
    destruct (mount_next_rotates_tsb c crit e lo hi (s_w x) wr keys closed ts roll true Hcfg T Y I Hhi ltac:(lia) eq_refl)
      as [w' [wr' [roll' [E [I' [V' S']]]]]].
    rewrite E. cbn [fst code_of with_inner f_cfg f_poisoned s_w].
    exists (keys ++ [(ts, count ts keys)], closed ++ [cur], [], wnow (s_w x)).
    split; [|split; [apply ExtT_rot|]; split; [|rewrite (same_env_now _ _ S'); lia]].
    + split; [apply (envT_env c e x _ E0); [exact Ht | exact S']|].
      rewrite V in *. exists wr', roll'. cbn [s_flw s_w]. split; [reflexivity|]. split; [exact I'|]. split; [exact V'|].
      rewrite app_length. cbn [length]. lia.
    + cbn [flatT]. rewrite concat_app. cbn [concat]. rewrite !app_nil_r. reflexivity.
  - (* OTick *)
    cbn [fst s_w set_now wnow tick_ok] in *. exists (keys, closed, cur, ts).
    split; [|split; [apply ExtT_refl|]; split; [rewrite app_nil_r; reflexivity | reflexivity]].
    split; [repeat split; [exact Ht | exact Ha | apply Q | apply Q | exact Ho]|].
    exists wr, roll. cbn [s_flw s_w]. split; [exact Es|]. split; [apply tsinvb_tick; assumption|]. split; [exact V | lia].
  - (* OSnap *)
    cbn [fst]. exists (keys, closed, cur, ts).
    split; [|split; [apply ExtT_refl|]; split; [rewrite app_nil_r; reflexivity | lia]].
    split; [repeat split; [exact Ht | exact Ha | apply Q | apply Q | exact Ho]|].
    exists wr, roll. split; [exact Es|]. split; [exact I|]. split; [exact V | lia].
Qed.

(* ------------------------------------------------------------------ the first write of a writer *)
Lemma first_write_ts c crit e lo hi n x d b :
  tscfg c crit -> tag_ok c -> years_ok e lo hi -> PreT c e lo n x d ->
  (wnow (s_w x) <= hi)%Z -> (N.of_nat n <= usize_max)%N ->
  exists w' s' rot D', write_buffer (new_flw c) (s_w x) b = (Ok tt, w', s', rot)
    /\ ActT c e lo (S n) {| s_flw := Some s'; s_w := w'; s_tl := []; s_dead := s_dead x |} (Some D')
    /\ ExtT d (Some D') /\ flatT (Some D') = flatT d ++ b /\ wnow w' = wnow (s_w x).
Proof.
  intros Hcfg T Y [E0 [Es [D Hn]]] Hhi Hmax. pose proof E0 as [Ht [Ha [Q Ho]]].
  (* what initialize makes of the directory *)
  assert (IN : exists w1 wr1 roll1 keys1 closed1 ts1,
            initialize c (s_w x) = (Ok (Active (Some (mk_rs (NSTs ts1 (Some cur_infix) std_fmt) roll1)) wr1 (cname c)), w1)
            /\ TsInvB c e lo w1 wr1 keys1 closed1 ts1 /\ same_env (s_w x) w1
            /\ ExtT d (Some (keys1, closed1, cur_view w1 wr1, ts1))
            /\ flatT (Some (keys1, closed1, cur_view w1 wr1, ts1)) = flatT d
            /\ length closed1 <= n).
  { destruct d as [[[[keys closed] cur] ts]|]; cbn [dir_ts closedT] in D, Hn.
    - destruct D as [wr [I [Hp V]]].
      destruct (initialize_view_ts c crit e lo hi (s_w x) wr keys closed ts Hcfg T Y I Hp Hhi ltac:(lia))
        as [w1 [wr1 [roll1 [keys1 [closed1 [ts1 [Ei [I1 [S1 V1]]]]]]]]].
      exists w1, wr1, roll1, keys1, closed1, ts1. split; [exact Ei|]. split; [exact I1|]. split; [exact S1|].
      rewrite V in V1. destruct (c_append c); injection V1 as -> -> -> ->.
      + split; [apply ExtT_refl|]. split; [reflexivity | lia].
      + split; [apply ExtT_rot|]. split; [|rewrite app_length; cbn [length]; lia].
        cbn [flatT]. rewrite concat_app. cbn [concat]. rewrite !app_nil_r. reflexivity.
    - destruct D as [Hnm [Hin Hlo]].
      destruct (initialize_empty_tsb c crit e lo (s_w x) Hcfg Q Hnm Hin Ho Hlo) as [w1 [wr1 [roll1 [Ei [I1 [V1 S1]]]]]].
      exists w1, wr1, roll1, [], [], (wnow (s_w x)). split; [exact Ei|]. split; [exact I1|]. split; [exact S1|].
      split; [exact Logic.I|]. split; [rewrite V1; reflexivity | cbn [length]; lia]. }
  destruct IN as [w1 [wr1 [roll1 [keys1 [closed1 [ts1 [Ei [I1 [S1 [X1 [F1 L1]]]]]]]]]]].
  assert (Hhi1 : (wnow w1 <= hi)%Z) by (rewrite (same_env_now _ _ S1); exact Hhi).
  destruct (write_active_tsb c crit e lo hi w1 wr1 keys1 closed1 ts1 roll1 b Hcfg T Y I1 Hhi1 ltac:(lia))
    as [w' [wr' [roll' [keys' [closed' [ts' [E [I' [S' V']]]]]]]]].
  exists w', (st_ts c ts' roll' wr'), (rotation_necessary w1 roll1), (keys', closed', cur_view w' wr', ts').
  split. { rewrite (write_buffer_init c (s_w x) b _ _ _ w1 Ei). exact E. }
  assert (S2 : same_env (s_w x) w') by (eapply same_env_trans; eassumption).
  split; [|split; [|split; [|exact (same_env_now _ _ S2)]]].
  - split; [apply (envT_env c e x _ E0); [reflexivity | exact S2]|].
    exists wr', roll'. cbn [s_flw s_w]. split; [reflexivity|]. split; [exact I'|]. split; [reflexivity|].
    destruct (rotation_necessary w1 roll1); injection V' as _ -> _ _; rewrite ?app_length; cbn [length]; lia.
  - apply (ExtT_trans _ _ _ X1). rewrite V'. destruct (rotation_necessary w1 roll1); [apply ExtT_rot | apply ExtT_same].
  - rewrite <- F1, V'. destruct (rotation_necessary w1 roll1); cbn [flatT].
    + rewrite concat_app. cbn [concat]. rewrite app_nil_r. reflexivity.
    + rewrite app_assoc. reflexivity.
Qed.

(* ------------------------------------------------------------------ one run *)
(* the state of a run: None as long as nothing has been written (the directory is still d0) *)
Definition GRelT (c : config) (e lo : Z) (n : nat) (x : sys) (d0 a : tview) : Prop :=
  match a with None => PreT c e lo n x d0 | Some _ => ActT c e lo n x a end.
Definition gviewT (d0 a : tview) : tview := match a with None => d0 | Some _ => a end.

Lemma dir_ts_tick c e lo w d dt : (0 <= dt)%Z -> dir_ts c e lo w d -> dir_ts c e lo (set_now w (wnow w + dt)%Z) d.
Proof.
  intros Hdt. destruct d as [[[[keys closed] cur] ts]|]; cbn [dir_ts].
  - intros [wr [I [Hp V]]]. exists wr. split; [apply tsinvb_tick; assumption|]. split; [exact Hp | exact V].
  - intros [A [B C]]. repeat split; try assumption. cbn [set_now wnow]. lia.
Qed.

Lemma gstep_ts c crit e lo hi n x d0 a o :
  tscfg c crit -> tag_ok c -> years_ok e lo hi -> GRelT c e lo n x d0 a -> basic_op o -> tick_ok o ->
  (wnow (s_w x) <= hi)%Z -> (N.of_nat n <= usize_max)%N ->
  exists a', GRelT c e lo (S n) (fst (step x o)) d0 a' /\ ExtT (gviewT d0 a) (gviewT d0 a')
    /\ flatT (gviewT d0 a') = flatT (gviewT d0 a) ++ written [o]
    /\ wnow (s_w (fst (step x o))) = (wnow (s_w x) + dt_of o)%Z.
Proof.
  intros Hcfg T Y G Hb Htk Hhi Hmax. destruct a as [D|].
  - cbn [GRelT gviewT] in *. destruct (act_step c crit e lo hi n x D o Hcfg T Y G Hb Htk Hhi Hmax) as [D' [A' [X' [F' W']]]].
    exists (Some D'). cbn [GRelT gviewT]. auto.
  - cbn [GRelT gviewT] in *. pose proof G as [[Ht [Ha [Q Ho]]] [Es [D Hn]]].
    rewrite (step_sync_cfg c crit x _ o Hcfg Es eq_refl).
    destruct o; try contradiction; cbn [sync_step dt_of written].
    + (* OWrite *)
      destruct (first_write_ts c crit e lo hi n x d0 (s_tl x ++ b) Hcfg T Y G Hhi Hmax) as [w' [s' [rot [D' [E [A' [X' [F' W']]]]]]]].
      rewrite Es. cbn [new_flw f_poisoned]. fold (new_flw c). rewrite E. cbn [fst s_w].
      rewrite Ht in F'. cbn [app] in F'.
      exists (Some D'). cbn [GRelT gviewT]. rewrite app_nil_r. split; [exact A'|]. split; [exact X'|]. split; [exact F' | lia].
    + (* OPlain *)
      destruct (first_write_ts c crit e lo hi n x d0 b Hcfg T Y G Hhi Hmax) as [w' [s' [rot [D' [E [A' [X' [F' W']]]]]]]].
      rewrite Es. cbn [new_flw f_poisoned]. fold (new_flw c). rewrite E. cbn [fst s_w]. rewrite Ht.
      exists (Some D'). cbn [GRelT gviewT]. rewrite app_nil_r. split; [exact A'|]. split; [exact X'|]. split; [exact F' | lia].
    + (* OFlush *)
      rewrite Es. cbn [new_flw f_poisoned flush_state f_inner fst s_w]. exists None. cbn [GRelT gviewT].
      split; [|split; [apply ExtT_refl|]; split; [rewrite app_nil_r; reflexivity | lia]].
      split; [repeat split; try assumption; apply Q|]. split; [reflexivity|]. split; [exact D | lia].
    + (* OTrigger *)
      rewrite Es. cbn [new_flw f_poisoned f_cfg f_inner mount_next with_inner code_of fst s_w]. exists None. cbn [GRelT gviewT].
      split; [|split; [apply ExtT_refl|]; split; [rewrite app_nil_r; reflexivity | lia]].
      split; [repeat split; try assumption; apply Q|]. split; [reflexivity|]. split; [exact D | lia].
    + (* OTick *)
      cbn [fst s_w set_now wnow tick_ok] in *. exists None. cbn [GRelT gviewT].
      split; [|split; [apply ExtT_refl|]; split; [rewrite app_nil_r; reflexivity | reflexivity]].
      split; [repeat split; try assumption; apply Q|]. split; [exact Es|]. split; [apply dir_ts_tick; assumption | lia].
    + (* OSnap *)
      cbn [fst]. exists None. cbn [GRelT gviewT].
      split; [|split; [apply ExtT_refl|]; split; [rewrite app_nil_r; reflexivity | lia]].
      split; [repeat split; try assumption; apply Q|]. split; [exact Es|]. split; [exact D | lia].
Qed.

Lemma grun_ts c crit e lo hi d0 : tscfg c crit -> tag_ok c -> years_ok e lo hi ->
  forall ops x a n, GRelT c e lo n x d0 a -> Forall basic_op ops -> Forall tick_ok ops ->
  (wnow (s_w x) + elapsed ops <= hi)%Z -> (N.of_nat (n + length ops) <= usize_max)%N ->
  exists a', GRelT c e lo (n + length ops) (fst (run x ops)) d0 a' /\ ExtT (gviewT d0 a) (gviewT d0 a')
    /\ flatT (gviewT d0 a') = flatT (gviewT d0 a) ++ written ops
    /\ wnow (s_w (fst (run x ops))) = (wnow (s_w x) + elapsed ops)%Z.
Proof.
  intros Hcfg T Y. induction ops as [|o r IH]; intros x a n G Hb Htk Hhi Hmax.
  - cbn [run fst length elapsed written]. rewrite Nat.add_0_r, app_nil_r. exists a.
    split; [exact G|]. split; [apply ExtT_refl|]. split; [reflexivity | lia].
  - cbn [run]. inversion Hb as [|o' r' Ho Hr]; subst. inversion Htk as [|o' r' Hto Htr]; subst.
    cbn [elapsed length] in *. pose proof (elapsed_nonneg r Htr) as Er.
    assert (Hdt : (0 <= dt_of o)%Z) by (destruct o; cbn [dt_of tick_ok] in *; lia).
    destruct (gstep_ts c crit e lo hi n x d0 a o Hcfg T Y G Ho Hto ltac:(lia) ltac:(lia)) as [a1 [G1 [X1 [F1 W1]]]].
    destruct (step x o) as [x1 ob]. cbn [fst] in *.
    destruct (IH x1 a1 (S n) G1 Hr Htr ltac:(lia) ltac:(lia)) as [a2 [G2 [X2 [F2 W2]]]].
    destruct (run x1 r) as [x2 obs]. cbn [fst] in *.
    exists a2. replace (n + S (length r)) with (S n + length r) by lia.
    split; [exact G2|]. split; [exact (ExtT_trans _ _ _ X1 X2)|].
    split; [rewrite F2, F1, (written_cons o r), app_assoc; reflexivity | lia].
Qed.

(* ---- start, stop, the clock between two runs ---- *)
Lemma start_ts c e lo n x d : IdleT c e lo n x d -> PreT c e lo (S n) (fst (step x (OStart c))) d.
Proof.
  intros [[Ht [Ha [Q Ho]]] [Es [D Hn]]]. rewrite (step_sync_none x _ Es). cbn [sync_step fst].
  split; [repeat split; try assumption; apply Q|]. split; [reflexivity|]. split; [exact D | lia].
Qed.

Lemma start_now x c : wnow (s_w (fst (step x (OStart c)))) = wnow (s_w x).
Proof.
  unfold step, apply_start. cbn [names_computed andb]. destruct (s_flw x) as [s|] eqn:Es.
  - unfold step_core. rewrite Es. destruct (is_async s); reflexivity.
  - unfold step_core. rewrite Es. reflexivity.
Qed.

Lemma idle_tick c e lo n x d dt : (0 <= dt)%Z -> IdleT c e lo n x d ->
  IdleT c e lo n (fst (step x (OTick dt))) d /\ wnow (s_w (fst (step x (OTick dt)))) = (wnow (s_w x) + dt)%Z.
Proof.
  intros Hdt [[Ht [Ha [Q Ho]]] [Es [D Hn]]]. rewrite (step_sync_none x _ Es). cbn [sync_step fst s_w set_now wnow].
  split; [|reflexivity].
  split; [repeat split; try assumption; apply Q|]. split; [exact Es|]. split; [apply dir_ts_tick; assumption | exact Hn].
Qed.

Lemma stop_ts c crit e lo n x d0 a : tscfg c crit -> GRelT c e lo n x d0 a ->
  IdleT c e lo n (fst (step x OStop)) (gviewT d0 a) /\ wnow (s_w (fst (step x OStop))) = wnow (s_w x).
Proof.
  intros Hcfg G. destruct a as [[[[keys closed] cur] ts]|]; cbn [GRelT gviewT] in *.
  - destruct G as [E0 [wr [roll [Es [I [V Hn]]]]]]. pose proof E0 as [Ht [Ha [Q Ho]]].
    rewrite (step_sync_cfg c crit x _ OStop Hcfg Es eq_refl). cbn [sync_step].
    rewrite Es. cbn [st_ts f_poisoned]. unfold drop_state.
    destruct (shutdown_active_tsb c e lo (s_w x) wr keys closed ts roll I Ha) as [w1 [wr1 [E1 [I1 [V1 [P1 S1]]]]]].
    fold (st_ts c ts roll wr). rewrite E1.
    destruct (shutdown_active_tsb c e lo w1 wr1 keys closed ts roll I1 (same_env_acts _ _ S1 Ha)) as [w2 [wr2 [E2 [I2 [V2 [P2 S2]]]]]].
    rewrite E2. cbn [st_ts f_inner s_w]. unfold w_drop.
    destruct (w_flush_quiet w2 wr2 (ti_quiet _ _ _ _ _ _ _ _ (proj1 I2))) as [w3 [E3 [F3 S3]]]. rewrite E3. cbn [fst snd s_w].
    rewrite P2, append_ino_nil_id in F3.
    assert (SE : same_env (s_w x) w3) by (eapply same_env_trans; [eapply same_env_trans|]; eassumption).
    split; [|exact (same_env_now _ _ SE)].
    split; [apply (envT_env c e x _ E0); [exact Ht | exact SE]|].
    split; [reflexivity|]. cbn [s_w dir_ts closedT]. split; [|exact Hn].
    exists wr2. split; [apply (tsinvb_env c e lo w2 w3); [exact I2 | exact F3 | apply S3 | apply S3 | apply S3]|].
    split; [exact P2|]. unfold cur_view in *. rewrite F3. congruence.
  - destruct G as [[Ht [Ha [Q Ho]]] [Es [D Hn]]].
    rewrite (step_sync_cfg c crit x _ OStop Hcfg Es eq_refl). cbn [sync_step].
    rewrite Es. cbn [new_flw f_poisoned drop_state shutdown_state f_inner fst s_w]. split; [|reflexivity].
    split; [repeat split; try assumption; apply Q|]. split; [reflexivity|]. split; [exact D | lia].
Qed.

Lemma elapsed_app a b : elapsed (a ++ b) = (elapsed a + elapsed b)%Z.
Proof. induction a as [|o r IH]; cbn [app elapsed]; [reflexivity | rewrite IH; lia]. Qed.

Lemma fst_run_app a b x : fst (run x (a ++ b)) = fst (run (fst (run x a)) b).
Proof. rewrite run_app. destruct (run x a) as [x1 o1]. cbn [fst]. destruct (run x1 b) as [x2 o2]. reflexivity. Qed.

(* ---- one whole run, after the clock has advanced by dt ---- *)
Definition run_t (dt : Z) (c : config) (ops : list op) : list op := OTick dt :: OStart c :: ops ++ [OStop].

Lemma one_run_t c crit e lo hi n x d dt ops :
  tscfg c crit -> tag_ok c -> years_ok e lo hi -> IdleT c e lo n x d -> (0 <= dt)%Z ->
  Forall basic_op ops -> Forall tick_ok ops ->
  (wnow (s_w x) + elapsed (run_t dt c ops) <= hi)%Z -> (N.of_nat (n + length (run_t dt c ops)) <= usize_max)%N ->
  exists d', IdleT c e lo (n + length (run_t dt c ops)) (fst (run x (run_t dt c ops))) d'
    /\ ExtT d d' /\ flatT d' = flatT d ++ written ops
    /\ wnow (s_w (fst (run x (run_t dt c ops)))) = (wnow (s_w x) + elapsed (run_t dt c ops))%Z.
Proof.
  intros Hcfg T Y Id Hdt Hb Htk Hhi Hmax. unfold run_t in *.
  cbn [elapsed dt_of length] in Hhi, Hmax. rewrite elapsed_app in Hhi. rewrite app_length in Hmax. cbn [elapsed dt_of length] in Hhi, Hmax.
  pose proof (elapsed_nonneg ops Htk) as Eo.
  cbn [run].
  destruct (idle_tick c e lo n x d dt Hdt Id) as [Id0 W0]. destruct (step x (OTick dt)) as [xa oba]. cbn [fst] in Id0, W0.
  pose proof (start_ts c e lo n xa d Id0) as P0. pose proof (start_now xa c) as W1.
  destruct (step xa (OStart c)) as [x0 ob0]. cbn [fst] in P0, W1.
  assert (G0 : GRelT c e lo (S n) x0 d None) by exact P0.
  destruct (grun_ts c crit e lo hi d Hcfg T Y ops x0 None (S n) G0 Hb Htk ltac:(lia) ltac:(lia)) as [a1 [G1 [X1 [F1 W2]]]].
  pose proof (fst_run_app ops [OStop] x0) as RA.
  destruct (run x0 (ops ++ [OStop])) as [x2 obs2]. cbn [fst] in RA |- *.
  destruct (run x0 ops) as [x1 obs1]. cbn [fst] in RA, G1, W2.
  destruct (stop_ts c crit e lo (S n + length ops) x1 d a1 Hcfg G1) as [Id2 W3].
  cbn [run] in RA. destruct (step x1 OStop) as [x2' ob2]. cbn [fst] in RA, Id2, W3. subst x2'.
  exists (gviewT d a1). cbn [gviewT] in X1, F1.
  split; [apply (idleT_mono c e lo (S n + length ops)); [cbn [length]; rewrite app_length; cbn [length]; lia | exact Id2]|].
  split; [exact X1|]. split; [exact F1|].
  cbn [elapsed dt_of]. rewrite elapsed_app. cbn [elapsed dt_of]. lia.
Qed.

(* ------------------------------------------------------------------ sequences of runs *)
(* a history: before each run the clock advances by dt >= 0 *)
Definition trun := (Z * config * list op)%type.
Fixpoint runs_ops_t (rs : list trun) : list op :=
  match rs with [] => [] | (dt, c, ops) :: r => run_t dt c ops ++ runs_ops_t r end.
Fixpoint runs_written_t (rs : list trun) : bytes :=
  match rs with [] => [] | (_, _, ops) :: r => written ops ++ runs_written_t r end.

(* every run: the same file spec, the same choice of use_utc; its own criterion, buffer capacity and append flag *)
Definition run_ok_ts (sp : file_spec) (utc : bool) (r : trun) : Prop :=
  let '(dt, c, ops) := r in
  (0 <= dt)%Z /\ c_spec c = sp /\ c_utc c = utc /\ (exists crit, tscfg c crit) /\ tag_ok c
  /\ Forall basic_op ops /\ Forall tick_ok ops.

Lemma run_ok_ts_elim sp utc dt c ops : run_ok_ts sp utc (dt, c, ops) ->
  (0 <= dt)%Z /\ c_spec c = sp /\ c_utc c = utc /\ (exists crit, tscfg c crit) /\ tag_ok c
  /\ Forall basic_op ops /\ Forall tick_ok ops.
Proof. exact (fun H => H). Qed.

Lemma run_ok_ts_elim_rev sp utc dt c ops :
  (0 <= dt)%Z /\ c_spec c = sp /\ c_utc c = utc /\ (exists crit, tscfg c crit) /\ tag_ok c
  /\ Forall basic_op ops /\ Forall tick_ok ops -> run_ok_ts sp utc (dt, c, ops).
Proof. exact (fun H => H). Qed.

Lemma runs_elapsed_nonneg sp utc rs : Forall (run_ok_ts sp utc) rs -> (0 <= elapsed (runs_ops_t rs))%Z.
Proof.
  induction 1 as [|[[dt c] ops] r Hok _ IH]; cbn [runs_ops_t elapsed]; [lia|].
  apply run_ok_ts_elim in Hok. destruct Hok as [Hdt [_ [_ [_ [_ [_ Htk]]]]]].
  rewrite elapsed_app. unfold run_t. cbn [elapsed dt_of]. rewrite elapsed_app. cbn [elapsed dt_of].
  pose proof (elapsed_nonneg ops Htk). lia.
Qed.

Lemma runs_rel_t sp utc e lo hi : years_ok e lo hi ->
  forall rs x d c0 n, c_spec c0 = sp -> c_utc c0 = utc -> Forall (run_ok_ts sp utc) rs -> IdleT c0 e lo n x d ->
  (wnow (s_w x) + elapsed (runs_ops_t rs) <= hi)%Z -> (N.of_nat (n + length (runs_ops_t rs)) <= usize_max)%N ->
  exists d', IdleT c0 e lo (n + length (runs_ops_t rs)) (fst (run x (runs_ops_t rs))) d'
    /\ ExtT d d' /\ flatT d' = flatT d ++ runs_written_t rs
    /\ wnow (s_w (fst (run x (runs_ops_t rs)))) = (wnow (s_w x) + elapsed (runs_ops_t rs))%Z.
Proof.
  intros Y. induction rs as [|[[dt c] ops] r IH]; intros x d c0 n Ec0 Eu0 Hrs Id Hhi Hmax.
  - cbn [runs_ops_t runs_written_t run fst length elapsed]. rewrite Nat.add_0_r, app_nil_r. exists d.
    split; [exact Id|]. split; [apply ExtT_refl|]. split; [reflexivity | lia].
  - inversion Hrs as [|r0 r' Hok Hr]; subst. apply run_ok_ts_elim in Hok.
    destruct Hok as [Hdt [Ec [Eu [[crit Hcfg] [T [Hb Htk]]]]]].
    cbn [runs_ops_t runs_written_t] in *. rewrite elapsed_app in Hhi. rewrite app_length in Hmax.
    pose proof (runs_elapsed_nonneg _ _ r Hr) as Er.
    assert (Id' : IdleT c e lo n x d) by (apply (idleT_spec c0 c); congruence).
    destruct (one_run_t c crit e lo hi n x d dt ops Hcfg T Y Id' Hdt Hb Htk ltac:(lia) ltac:(lia)) as [d1 [Id1 [X1 [F1 W1]]]].
    rewrite fst_run_app. set (x1 := fst (run x (run_t dt c ops))) in *.
    assert (Id1' : IdleT c0 e lo (n + length (run_t dt c ops)) x1 d1) by (apply (idleT_spec c c0); congruence).
    destruct (IH x1 d1 c0 (n + length (run_t dt c ops)) eq_refl eq_refl Hr Id1' ltac:(lia) ltac:(lia)) as [d2 [Id2 [X2 [F2 W2]]]].
    exists d2. rewrite app_length, elapsed_app, Nat.add_assoc.
    split; [exact Id2|]. split; [exact (ExtT_trans _ _ _ X1 X2)|].
    split; [rewrite F2, F1, app_assoc; reflexivity | lia].
Qed.

Lemma idleT0 c t0 off : IdleT c (ts_e c off) t0 0 (sys0 t0 off) None.
Proof. cbn. repeat split; cbn; lia. Qed.

(* ------------------------------------------------------------------ what the reader finds between two writers *)
Lemma ts_view_spec c c' e f keys closed cur : c_spec c = c_spec c' -> ts_view c e f keys closed cur -> ts_view c' e f keys closed cur.
Proof.
  intros E [Hlen [Hcl [Hcur [Hon Hnd]]]]. pose proof (cname_spec_eq c c' E) as En. unfold ts_view. rewrite <- En.
  split; [exact Hlen|]. split; [|split; [exact Hcur|split; [|exact Hnd]]].
  - intros i Hi. rewrite <- (kname_spec_eq c c' e _ E). exact (Hcl i Hi).
  - intros n j L. destruct (Hon n j L) as [->|[i [Hi ->]]]; [left; reflexivity | right].
    exists i. split; [exact Hi | apply kname_spec_eq; exact E].
Qed.

Lemma idleT_view sp c0 e lo n x keys closed cur ts : c_spec c0 = sp -> IdleT c0 e lo n x (Some (keys, closed, cur, ts)) ->
  (forall c, c_spec c = sp ->
     ts_view c e (wfs (s_w x)) keys closed cur
     /\ exists j, lookup (wfs (s_w x)) (cname c) = Some j /\ fborn (inode (wfs (s_w x)) j) = ts)
  /\ keys_ok keys /\ (forall k, In k keys -> (lo <= fst k <= ts)%Z) /\ (lo <= ts <= wnow (s_w x))%Z.
Proof.
  intros E0 [_ [_ [[wr [[I B] [Hp V]]] _]]].
  pose proof I as [Q W Hnd Hoff Hc Hcp Hlen Hcl Hon Hko Hrg Htsr Hwr Hcap].
  split; [|split; [exact Hko | split; [exact Hrg | exact Htsr]]].
  intros c Ec. assert (E : c_spec c0 = c_spec c) by congruence. split.
  - apply (ts_view_spec c0 c e _ _ _ _ E). split; [exact Hlen|]. split.
    { intros i Hi. destruct (Hcl i Hi) as [j [Lj [Pj [Cj _]]]]. eauto. }
    split; [|split; [exact Hon | exact Hnd]].
    exists (wino wr). split; [exact Hc|]. split; [exact Hcp|]. unfold cur_view in V. rewrite Hp, app_nil_r in V. exact V.
  - exists (wino wr). rewrite <- (cname_spec_eq c0 c E). split; [exact Hc | exact B].
Qed.

Lemma idleT_none c0 e lo n x : IdleT c0 e lo n x None -> names (wfs (s_w x)) = [].
Proof. intros [_ [_ [[H _] _]]]. exact H. Qed.

Definition sp_config_utc (sp : file_spec) (utc : bool) : config :=
  {| c_spec := sp; c_append := false; c_cap := None; c_rot := None; c_utc := utc; c_symlink := false;
     c_bg := false; c_async := false; c_start := None |}.

(* ------------------------------------------------------------------ THE THEOREMS *)
(* Any number of runs on the same directory, starting from the empty one; before each run the clock may advance (and it may
   advance within the runs); each run has its own criterion, buffer capacity and append flag; all runs have the same file
   spec and the same choice of use_utc.  e is the offset that enters the time-stamp texts.

   After the whole history the directory is empty (nothing was ever written), or it consists exactly of the closed files
   named by keys (second of creation, position) - in the order of their closing - and rCURRENT;
   - their contents, in this order, are exactly the bytes written in all runs, in the order of the writing;
   - keys_ok keys: over the WHOLE history the keys are pairwise distinct and strictly increasing in the order of closing
     (keys_ok_order, ts_names_distinct in TsTheorems.v): no file name is used twice, across runs too. *)
Theorem timestamps_restarts sp utc t0 off rs :
  Forall (run_ok_ts sp utc) rs ->
  let e := if utc then 0%Z else off in
  (0 <= t0 + e)%Z -> (t0 + elapsed (runs_ops_t rs) + e < sec_max)%Z -> (N.of_nat (length (runs_ops_t rs)) <= usize_max)%N ->
  let f := wfs (s_w (fst (run (sys0 t0 off) (runs_ops_t rs)))) in
  (names f = [] /\ runs_written_t rs = [])
  \/ exists keys closed cur,
       (forall c, c_spec c = sp -> ts_view c e f keys closed cur)
       /\ concat closed ++ cur = runs_written_t rs
       /\ keys_ok keys
       /\ (forall k, In k keys -> (t0 <= fst k <= t0 + elapsed (runs_ops_t rs))%Z).
Proof.
  intros Hrs e Hlo Hhi Hmax f.
  assert (Y : years_ok e t0 (t0 + elapsed (runs_ops_t rs))) by (split; assumption).
  pose proof (idleT0 (sp_config_utc sp utc) t0 off) as Id0. change (ts_e (sp_config_utc sp utc) off) with e in Id0.
  destruct (runs_rel_t sp utc e t0 _ Y rs (sys0 t0 off) None (sp_config_utc sp utc) 0 eq_refl eq_refl Hrs Id0
              ltac:(cbn [sys0 s_w world0 wnow]; lia) ltac:(cbn [Nat.add]; exact Hmax)) as [d' [Id [_ [F W]]]].
  cbn [flatT app] in F. cbn [sys0 s_w world0 wnow] in W. fold f in Id.
  destruct d' as [[[[keys closed] cur] ts]|].
  - right. destruct (idleT_view sp (sp_config_utc sp utc) e t0 _ _ keys closed cur ts eq_refl Id) as [V [K [Rg Rt]]].
    exists keys, closed, cur. split; [intros c Ec; exact (proj1 (V c Ec))|]. split; [exact F|]. split; [exact K|].
    intros k Ik. specialize (Rg k Ik). lia.
  - left. split; [exact (idleT_none _ _ _ _ _ Id) | symmetry; exact F].
Qed.
Print Assumptions timestamps_restarts.

(* Later runs never change a closed file and never reuse a name: after rs1 the directory shows (keys1, closed1, cur1), and ts1
   is the birth second of rCURRENT - not earlier than the second of any closed file; after the further runs rs2 it shows
   (keys2, closed2, cur2), where either nothing was closed (the same keys and closed files; rCURRENT was continued), or every
   closed file of before is there under its key with its content, the former rCURRENT - possibly continued first, by an
   appending run - is closed under the key of ITS OWN creation second ts1, the next position of that second, and more files
   follow. *)
Theorem timestamps_restarts_keep sp utc t0 off rs1 rs2 :
  Forall (run_ok_ts sp utc) (rs1 ++ rs2) ->
  let e := if utc then 0%Z else off in
  (0 <= t0 + e)%Z -> (t0 + elapsed (runs_ops_t (rs1 ++ rs2)) + e < sec_max)%Z ->
  (N.of_nat (length (runs_ops_t (rs1 ++ rs2))) <= usize_max)%N ->
  let f1 := wfs (s_w (fst (run (sys0 t0 off) (runs_ops_t rs1)))) in
  let f2 := wfs (s_w (fst (run (sys0 t0 off) (runs_ops_t (rs1 ++ rs2))))) in
  (names f1 = [] /\ runs_written_t rs1 = [])
  \/ exists keys1 closed1 cur1 ts1 keys2 closed2 cur2,
       (forall c, c_spec c = sp ->
          ts_view c e f1 keys1 closed1 cur1 /\ exists j, lookup f1 (cname c) = Some j /\ fborn (inode f1 j) = ts1)
       /\ concat closed1 ++ cur1 = runs_written_t rs1
       /\ (forall k, In k keys1 -> (fst k <= ts1)%Z)
       /\ (forall c, c_spec c = sp -> ts_view c e f2 keys2 closed2 cur2)
       /\ concat closed2 ++ cur2 = runs_written_t (rs1 ++ rs2)
       /\ keys_ok keys2
       /\ ((keys2 = keys1 /\ closed2 = closed1 /\ exists t, cur2 = cur1 ++ t)
           \/ exists t mk mc, keys2 = keys1 ++ (ts1, count ts1 keys1) :: mk /\ closed2 = closed1 ++ (cur1 ++ t) :: mc).
Proof.
  intros Hrs e Hlo Hhi Hmax f1 f2. apply Forall_app in Hrs. destruct Hrs as [Hrs1 Hrs2].
  assert (RA : forall a b, runs_ops_t (a ++ b) = runs_ops_t a ++ runs_ops_t b).
  { induction a as [|[[dt c] ops] r IH]; intros b; [reflexivity|]. cbn [app runs_ops_t]. rewrite IH, app_assoc. reflexivity. }
  assert (RW : forall a b, runs_written_t (a ++ b) = runs_written_t a ++ runs_written_t b).
  { induction a as [|[[dt c] ops] r IH]; intros b; [reflexivity|]. cbn [app runs_written_t]. rewrite IH, app_assoc. reflexivity. }
  pose proof (runs_elapsed_nonneg sp utc) as EN.
  unfold f2. rewrite RA in *. rewrite elapsed_app in Hhi. rewrite app_length in Hmax.
  pose proof (EN rs1 Hrs1) as E1. pose proof (EN rs2 Hrs2) as E2.
  set (hi := (t0 + (elapsed (runs_ops_t rs1) + elapsed (runs_ops_t rs2)))%Z).
  assert (Y : years_ok e t0 hi) by (split; assumption).
  pose proof (idleT0 (sp_config_utc sp utc) t0 off) as Id0. change (ts_e (sp_config_utc sp utc) off) with e in Id0.
  destruct (runs_rel_t sp utc e t0 hi Y rs1 (sys0 t0 off) None (sp_config_utc sp utc) 0 eq_refl eq_refl Hrs1 Id0
              ltac:(cbn [sys0 s_w world0 wnow]; unfold hi; lia) ltac:(cbn [Nat.add]; lia)) as [d1 [Id1 [_ [F1 W1]]]].
  cbn [flatT app] in F1. cbn [sys0 s_w world0 wnow] in W1. cbn [Nat.add] in Id1.
  rewrite fst_run_app. set (x1 := fst (run (sys0 t0 off) (runs_ops_t rs1))) in *.
  destruct (runs_rel_t sp utc e t0 hi Y rs2 x1 d1 (sp_config_utc sp utc) _ eq_refl eq_refl Hrs2 Id1
              ltac:(unfold hi; lia) ltac:(lia)) as [d2 [Id2 [X2 [F2 W2]]]].
  destruct d1 as [[[[keys1 closed1] cur1] ts1]|].
  - right. destruct d2 as [[[[keys2 closed2] cur2] ts2]|]; [|destruct X2].
    destruct (idleT_view sp (sp_config_utc sp utc) e t0 _ _ keys1 closed1 cur1 ts1 eq_refl Id1) as [V1 [K1 [Rg1 Rt1]]].
    destruct (idleT_view sp (sp_config_utc sp utc) e t0 _ _ keys2 closed2 cur2 ts2 eq_refl Id2) as [V2 [K2 [Rg2 Rt2]]].
    exists keys1, closed1, cur1, ts1, keys2, closed2, cur2.
    split; [exact V1|]. split; [exact F1|]. split; [intros k Ik; specialize (Rg1 k Ik); lia|].
    split; [intros c Ec; exact (proj1 (V2 c Ec))|]. split; [rewrite RW, <- F1; exact F2|]. split; [exact K2|].
    cbn [ExtT] in X2. destruct X2 as [[-> [-> [_ Ht]]]|H]; [left; auto | right; exact H].
  - left. split; [exact (idleT_none _ _ _ _ _ Id1) | symmetry; exact F1].
Qed.
Print Assumptions timestamps_restarts_keep.

(* no name twice, none is rCURRENT's: spelled out for the names *)
Theorem timestamps_restarts_names sp utc t0 off rs :
  Forall (run_ok_ts sp utc) rs ->
  let e := if utc then 0%Z else off in
  (0 <= t0 + e)%Z -> (t0 + elapsed (runs_ops_t rs) + e < sec_max)%Z -> (N.of_nat (length (runs_ops_t rs)) <= usize_max)%N ->
  let f := wfs (s_w (fst (run (sys0 t0 off) (runs_ops_t rs)))) in
  (names f = [] /\ runs_written_t rs = [])
  \/ exists keys closed cur,
       (forall c, c_spec c = sp -> ts_view c e f keys closed cur)
       /\ concat closed ++ cur = runs_written_t rs
       /\ (forall i j, i < j < length keys ->
             let a := nth i keys kd in let b := nth j keys kd in (fst a < fst b)%Z \/ (fst a = fst b /\ snd a < snd b))
       /\ (forall c, c_spec c = sp ->
             (forall i j, i < length keys -> j < length keys -> kname c e (nth i keys kd) = kname c e (nth j keys kd) -> i = j)
             /\ (forall i, i < length keys -> kname c e (nth i keys kd) <> cname c)).
Proof.
  intros Hrs e Hlo Hhi Hmax f.
  destruct (timestamps_restarts sp utc t0 off rs Hrs Hlo Hhi Hmax) as [H|[keys [closed [cur [V [F [K Rg]]]]]]]; [left; exact H | right].
  exists keys, closed, cur. split; [exact V|]. split; [exact F|]. split; [exact (proj1 (keys_ok_order keys K))|].
  intros c _. apply (ts_names_distinct c e t0 (t0 + elapsed (runs_ops_t rs)) keys K); [split; assumption | exact Rg].
Qed.
Print Assumptions timestamps_restarts_names.

(* ------------------------------------------------------------------ a run without a write changes nothing *)
(* the writer looks at the directory at its first write only (lazy initialisation) *)
Definition no_write_op (o : op) : Prop := match o with OFlush | OTrigger | OTick _ | OSnap => True | _ => False end.

Lemma run_without_write_ts c crit x ops : tscfg c crit -> s_flw x = None -> Forall no_write_op ops ->
  wfs (s_w (fst (run x (OStart c :: ops ++ [OStop])))) = wfs (s_w x).
Proof.
  intros Hcfg Es Hops. cbn [run]. rewrite (step_sync_none x _ Es). cbn [sync_step].
  set (x0 := {| s_flw := Some (new_flw c); s_w := s_w x; s_tl := s_tl x; s_dead := false |}).
  assert (G : forall l y, Forall no_write_op l -> s_flw y = Some (new_flw c) ->
            s_flw (fst (run y l)) = Some (new_flw c) /\ wfs (s_w (fst (run y l))) = wfs (s_w y)).
  { induction l as [|o r IH]; intros y Hl Ey; [split; [exact Ey | reflexivity]|].
    inversion Hl as [|o' r' Ho Hr]; subst. cbn [run].
    assert (S1 : s_flw (fst (step y o)) = Some (new_flw c) /\ wfs (s_w (fst (step y o))) = wfs (s_w y)).
    { rewrite (step_sync_cfg c crit y _ o Hcfg Ey eq_refl).
      destruct o; try contradiction; cbn [sync_step]; rewrite ?Ey; cbn [new_flw f_poisoned flush_state f_inner f_cfg mount_next with_inner fst s_flw s_w];
        split; reflexivity || exact Ey. }
    destruct (step y o) as [y1 ob]. cbn [fst] in S1. destruct S1 as [E1 F1].
    destruct (IH y1 Hr E1) as [E2 F2]. destruct (run y1 r) as [y2 obs]. cbn [fst] in *. split; [exact E2 | congruence]. }
  destruct (G ops x0 Hops eq_refl) as [E1 F1].
  pose proof (fst_run_app ops [OStop] x0) as RA. destruct (run x0 (ops ++ [OStop])) as [x2 obs2]. cbn [fst] in RA |- *. rewrite RA.
  set (x1 := fst (run x0 ops)) in *. cbn [run].
  rewrite (step_sync_cfg c crit x1 _ OStop Hcfg E1 eq_refl). cbn [sync_step]. rewrite E1.
  cbn [new_flw f_poisoned drop_state shutdown_state f_inner fst s_w]. exact F1.
Qed.

(* ------------------------------------------------------------------ the same for histories without a tick between the runs *)
(* runs_ops / runs_written of NumRestart.v: the clock advances within the runs only (a tick at the beginning of a run, before
   its first write, has the same effect as one between the runs) *)
Definition timed0 (rs : list (config * list op)) : list trun := List.map (fun r => (0%Z, fst r, snd r)) rs.

Lemma step_tick0 x : fst (step x (OTick 0)) = x.
Proof.
  unfold step, apply_start. destruct (s_flw x) as [s|] eqn:Es; cbn [names_computed andb]; unfold step_core; rewrite Es.
  - destruct (is_async s); cbn [async_step sync_step fst]; destruct x as [fl w tl dd]; destruct w; cbn; rewrite Z.add_0_r; reflexivity.
  - cbn [sync_step fst]. destruct x as [fl w tl dd]; destruct w; cbn; rewrite Z.add_0_r; reflexivity.
Qed.

Lemma runs_ops_timed0 rs : forall x, fst (run x (runs_ops_t (timed0 rs))) = fst (run x (runs_ops rs)).
Proof.
  induction rs as [|[c ops] r IH]; intros x; [reflexivity|].
  cbn [timed0 List.map runs_ops_t fst snd]. fold (timed0 r). rewrite runs_ops_cons. unfold run_t.
  change (OTick 0 :: OStart c :: ops ++ [OStop]) with ([OTick 0] ++ (OStart c :: ops ++ [OStop])).
  rewrite <- app_assoc, (fst_run_app [OTick 0]).
  assert (E : fst (run x [OTick 0]) = x).
  { cbn [run]. pose proof (step_tick0 x) as H. destruct (step x (OTick 0)) as [x1 ob]. exact H. }
  rewrite E, !fst_run_app. apply IH.
Qed.

Lemma runs_written_timed0 rs : runs_written_t (timed0 rs) = runs_written rs.
Proof. induction rs as [|[c ops] r IH]; [reflexivity|]. cbn [timed0 List.map runs_written_t runs_written fst snd]. fold (timed0 r). rewrite IH. reflexivity. Qed.

Lemma runs_elapsed_timed0 rs : elapsed (runs_ops_t (timed0 rs)) = elapsed (runs_ops rs).
Proof.
  induction rs as [|[c ops] r IH]; [reflexivity|]. cbn [timed0 List.map runs_ops_t fst snd]. fold (timed0 r).
  rewrite runs_ops_cons, !elapsed_app, IH. unfold run_t. cbn [elapsed dt_of]. lia.
Qed.

Lemma runs_length_timed0 rs : length (runs_ops_t (timed0 rs)) = length (runs_ops rs) + length rs.
Proof.
  induction rs as [|[c ops] r IH]; [reflexivity|]. cbn [timed0 List.map runs_ops_t fst snd]. fold (timed0 r).
  rewrite runs_ops_cons, !app_length, IH. unfold run_t. cbn [length]. lia.
Qed.

Definition run_ok_ts0 (sp : file_spec) (utc : bool) (r : config * list op) : Prop :=
  c_spec (fst r) = sp /\ c_utc (fst r) = utc /\ (exists crit, tscfg (fst r) crit) /\ tag_ok (fst r)
  /\ Forall basic_op (snd r) /\ Forall tick_ok (snd r).

Corollary timestamps_restarts_untimed sp utc t0 off rs :
  Forall (run_ok_ts0 sp utc) rs ->
  let e := if utc then 0%Z else off in
  (0 <= t0 + e)%Z -> (t0 + elapsed (runs_ops rs) + e < sec_max)%Z -> (N.of_nat (length (runs_ops rs) + length rs) <= usize_max)%N ->
  let f := wfs (s_w (fst (run (sys0 t0 off) (runs_ops rs)))) in
  (names f = [] /\ runs_written rs = [])
  \/ exists keys closed cur,
       (forall c, c_spec c = sp -> ts_view c e f keys closed cur)
       /\ concat closed ++ cur = runs_written rs
       /\ keys_ok keys
       /\ (forall k, In k keys -> (t0 <= fst k <= t0 + elapsed (runs_ops rs))%Z).
Proof.
  intros Hrs e Hlo Hhi Hmax. rewrite <- runs_ops_timed0, <- runs_written_timed0, <- runs_elapsed_timed0.
  apply (timestamps_restarts sp utc t0 off (timed0 rs)).
  - unfold timed0. apply Forall_map. eapply Forall_impl; [|exact Hrs]. intros [c ops] H. cbn [fst snd] in *.
    split; [lia | exact H].
  - exact Hlo.
  - rewrite runs_elapsed_timed0. exact Hhi.
  - rewrite runs_length_timed0. exact Hmax.
Qed.
Print Assumptions timestamps_restarts_untimed.

(* ------------------------------------------------------------------ examples *)
Open Scope string_scope.
Definition rs_sp : file_spec := ex_sp "log".

(* five runs.  (1) without append, three files in second 0: a | b | c (current).  (2) with append, started in the same
   second: "c" is continued ("cd"), the clock advances, a rotation closes it under the second of ITS creation - the third name
   of second 0 -, "e" is born in second 1.  (3) without append, started in second 1: "e" is closed at the start under the first
   name of second 1, "f" and "g" follow in the same second.  (4) two seconds later, a writer that does not write (it flushes and
   even triggers a rotation): nothing changes.  (5) without append, in second 3: "g" - born in second 1 - is closed under the
   third name of second 1. *)
Definition rs_ex : list trun :=
  [ (0%Z, ext_cfg rs_sp false (CSize 100) None false, [OWrite (bs "a"); OTrigger; OWrite (bs "b"); OTrigger; OWrite (bs "c")]);
    (0%Z, ext_cfg rs_sp true (CSize 100) (Some 4%nat) false, [OWrite (bs "d"); OTick 1; OTrigger; OWrite (bs "e")]);
    (0%Z, ext_cfg rs_sp false (CAge ADay) None false, [OWrite (bs "f"); OTrigger; OWrite (bs "g")]);
    (2%Z, ext_cfg rs_sp false (CSize 1) None false, [OSnap; OFlush; OTrigger]);
    (0%Z, ext_cfg rs_sp false (CSize 1) (Some 2%nat) false, [OPlain (bs "h")]) ].

Example ts_restarts_dir :
  snap_of (fst (run (sys0 0 0) (runs_ops_t rs_ex)))
  = [ (bs "app_r1970-01-01_00-00-00.log", 0%N, bs "a");
      (bs "app_r1970-01-01_00-00-00.restart-0000.log", 0%N, bs "b");
      (bs "app_r1970-01-01_00-00-00.restart-0001.log", 0%N, bs "cd");
      (bs "app_r1970-01-01_00-00-01.log", 0%N, bs "e");
      (bs "app_r1970-01-01_00-00-01.restart-0000.log", 0%N, bs "f");
      (bs "app_r1970-01-01_00-00-01.restart-0001.log", 0%N, bs "g");
      (bs "app_rCURRENT.log", 0%N, bs "h") ]
  /\ runs_written_t rs_ex = bs "abcdefgh".
Proof. split; vm_compute; reflexivity. Qed.

(* the directory after the first three runs: the fourth run leaves it as it is *)
Example ts_restarts_dir3 :
  snap_of (fst (run (sys0 0 0) (runs_ops_t (firstn 3 rs_ex))))
  = [ (bs "app_r1970-01-01_00-00-00.log", 0%N, bs "a");
      (bs "app_r1970-01-01_00-00-00.restart-0000.log", 0%N, bs "b");
      (bs "app_r1970-01-01_00-00-00.restart-0001.log", 0%N, bs "cd");
      (bs "app_r1970-01-01_00-00-01.log", 0%N, bs "e");
      (bs "app_r1970-01-01_00-00-01.restart-0000.log", 0%N, bs "f");
      (bs "app_rCURRENT.log", 0%N, bs "g") ]
  /\ snap_of (fst (run (sys0 0 0) (runs_ops_t (firstn 4 rs_ex)))) = snap_of (fst (run (sys0 0 0) (runs_ops_t (firstn 3 rs_ex)))).
Proof. split; vm_compute; reflexivity. Qed.

(* the hypotheses of the theorems can be met *)
Lemma ext_cfg_tag_ok app crit cap utc : tag_ok (ext_cfg rs_sp app crit cap utc).
Proof. apply tag_free_ok. split; vm_compute; reflexivity. Qed.

Lemma rs_ex_ok : Forall (run_ok_ts rs_sp false) rs_ex.
Proof.
  unfold rs_ex.
  repeat (apply Forall_cons;
          [apply run_ok_ts_elim_rev; split; [lia|]; split; [reflexivity|]; split; [reflexivity|];
           split; [eexists; apply ext_cfg_ok; reflexivity|]; split; [apply ext_cfg_tag_ok|];
           split; [repeat constructor | repeat (apply Forall_cons; [cbn [tick_ok]; first [exact Logic.I | lia]|]); apply Forall_nil]|]).
  apply Forall_nil.
Qed.

Example ts_restarts_instance :
  exists keys closed cur,
    (forall c, c_spec c = rs_sp -> ts_view c 0 (wfs (s_w (fst (run (sys0 0 0) (runs_ops_t rs_ex))))) keys closed cur)
    /\ concat closed ++ cur = bs "abcdefgh" /\ keys_ok keys /\ (forall k, In k keys -> (0 <= fst k <= 3)%Z).
Proof.
  destruct (timestamps_restarts rs_sp false 0 0 rs_ex rs_ex_ok) as [[_ H]|H];
    [change (0 <= 0)%Z; lia | change (3 + 0 < sec_max)%Z; unfold sec_max; lia | vm_compute; discriminate | discriminate H | exact H].
Qed.

(* the keys of this history: seconds never decrease in the order of closing, positions count from 0 within each second *)
Example ts_restarts_keys :
  List.map (infix_of 0) [(0%Z, 0); (0%Z, 1); (0%Z, 2); (1%Z, 0); (1%Z, 1); (1%Z, 2)]
  = [ bs "r1970-01-01_00-00-00"; bs "r1970-01-01_00-00-00.restart-0000"; bs "r1970-01-01_00-00-00.restart-0001";
      bs "r1970-01-01_00-00-01"; bs "r1970-01-01_00-00-01.restart-0000"; bs "r1970-01-01_00-00-01.restart-0001" ].
Proof. vm_compute. reflexivity. Qed.

Example ts_restarts_keep_instance :
  exists keys1 closed1 cur1 ts1 keys2 closed2 cur2,
    (forall c, c_spec c = rs_sp ->
       ts_view c 0 (wfs (s_w (fst (run (sys0 0 0) (runs_ops_t (firstn 2 rs_ex)))))) keys1 closed1 cur1)
    /\ concat closed1 ++ cur1 = bs "abcde"
    /\ (forall c, c_spec c = rs_sp -> ts_view c 0 (wfs (s_w (fst (run (sys0 0 0) (runs_ops_t rs_ex))))) keys2 closed2 cur2)
    /\ concat closed2 ++ cur2 = bs "abcdefgh"
    /\ ((keys2 = keys1 /\ closed2 = closed1 /\ exists t, cur2 = cur1 ++ t)
        \/ exists t mk mc, keys2 = keys1 ++ (ts1, count ts1 keys1) :: mk /\ closed2 = closed1 ++ (cur1 ++ t) :: mc).
Proof.
  pose proof rs_ex_ok as Hok. change rs_ex with (firstn 2 rs_ex ++ skipn 2 rs_ex) in Hok |- *.
  destruct (timestamps_restarts_keep rs_sp false 0 0 (firstn 2 rs_ex) (skipn 2 rs_ex) Hok)
    as [[_ H]|[keys1 [closed1 [cur1 [ts1 [keys2 [closed2 [cur2 [V1 [F1 [_ [V2 [F2 [_ X]]]]]]]]]]]]]];
    [change (0 <= 0)%Z; lia | change (3 + 0 < sec_max)%Z; unfold sec_max; lia | vm_compute; discriminate | discriminate H |].
  exists keys1, closed1, cur1, ts1, keys2, closed2, cur2.
  split; [intros c Ec; exact (proj1 (V1 c Ec))|]. split; [exact F1|]. split; [exact V2|]. split; [exact F2 | exact X].
Qed.

(* ------------------------------------------------------------------ the hypothesis "the same use_utc in all runs" is needed *)
(* zone offset one hour.  The first writer names its files by local time: "a", born and closed in second 0, is
   <01:00:00>.  The second writer, an hour later, uses UTC: it closes "b" - born in second 0 - as <00:00:00>, and "c" - born in
   second 3600 - collides with the local name of the first run and becomes <01:00:00>.restart-0000.  Nothing is lost and no
   name is used twice, but a reader that goes by the names gets b, a, c, d. *)
Definition utc_ex : list trun :=
  [ (0%Z, ext_cfg rs_sp false (CSize 100) None false, [OWrite (bs "a"); OTrigger; OWrite (bs "b")]);
    (3600%Z, ext_cfg rs_sp false (CSize 100) None true, [OWrite (bs "c"); OTrigger; OWrite (bs "d")]) ].
Example use_utc_changed_between_runs :
  snap_of (fst (run (sys0 0 3600) (runs_ops_t utc_ex)))
  = [ (bs "app_r1970-01-01_00-00-00.log", 0%N, bs "b");
      (bs "app_r1970-01-01_01-00-00.log", 0%N, bs "a");
      (bs "app_r1970-01-01_01-00-00.restart-0000.log", 0%N, bs "c");
      (bs "app_rCURRENT.log", 0%N, bs "d") ]
  /\ runs_written_t utc_ex = bs "abcd".
Proof. split; vm_compute; reflexivity. Qed.

Print Assumptions timestamps_restarts.
Print Assumptions timestamps_restarts_keep.
