(* TimestampsDirect naming: a new writer on the directory that a KILLED writer left behind (TsdKill.v).  The directory of the
   dead process is one that a stopped writer could have left (IdleTd: the files are named by keys with keys_ok, the newest file
   possibly empty), so the restart is the one of TsdRestart.v (one_run_td: without append the next free name of the present second
   - a restart counter when the clock still shows the second of the killed writer's last file -, with append the newest file is
   continued).  What is added here: every operation of the new writer succeeds (obs_ok), and the two runs are put together. *)
Require Import FL.Base.Bytes FL.Base.BytesFacts FL.Base.PathName FL.Fs.Fs FL.Fs.FsFacts FL.Time.Civil FL.Time.TsFormat
  FL.Names.FileSpec FL.Names.NamesFacts FL.Names.SortFacts FL.Names.FamilyFacts FL.Flw.Model FL.Flw.ModelFacts FL.Flw.NumFs FL.Flw.NumInv
  FL.Flw.Run FL.Flw.RunFacts FL.Flw.NumRun FL.Flw.NumListing FL.Oracles.O_Flw FL.Flw.NumTheorems FL.Flw.NumRestart
  FL.Flw.KillFacts FL.Flw.NumKill FL.Flw.NumKillRestart FL.Flw.NumDInv FL.Flw.NumDTheorems
  FL.Flw.TsCal FL.Flw.TsTime FL.Flw.TsNames FL.Flw.TsInv FL.Flw.TsRun FL.Flw.TsTheorems FL.Flw.TsRestartInv FL.Flw.TsRestart
  FL.Flw.TsdInv FL.Flw.TsdRun FL.Flw.TsdTheorems FL.Flw.TsdRestartInv FL.Flw.TsdRestart FL.Flw.KillEnv FL.Flw.TsdKill.
From Coq Require Import ZifyN ZifyNat ZifyBool.
Import String.StringSyntax.
Open Scope nat_scope.

(* ------------------------------------------------------------------ every operation of a run on a directory left behind succeeds *)
Lemma gstep_ok_td c crit e off lo hi n x d0 a o :
  tsdcfg c crit -> tag_ok c -> years_ok e lo hi -> aok c -> GRelTd c e off lo n x d0 a -> basic_op o -> tick_ok o ->
  (wnow (s_w x) <= hi)%Z -> (N.of_nat (S n) <= usize_max)%N -> obs_ok (snd (step x o)).
Proof.
  intros Hcfg T Y Hao G Hb Htk Hhi Hmax. destruct a as [[[keys closed] cur]|].
  - cbn [GRelTd] in G. destruct G as [E0 [wr [roll [Es [I [V [Hn Z]]]]]]]. pose proof E0 as [Ht _].
    pose proof (td_len _ _ _ _ _ _ _ I) as Hlen.
    assert (Hk : (N.of_nat (length keys) <= usize_max)%N) by lia.
    rewrite (step_sync_tsd c crit x _ o Hcfg Es eq_refl).
    set (s := st_tsd c e (nth (length closed) keys kd) roll wr) in *.
    assert (Hp : f_poisoned s = false) by reflexivity.
    destruct o; try contradiction; cbn [sync_step].
    + rewrite Es, Hp, Ht. cbn [app]. rewrite <- V in Z.
      destruct (write_active_tsd_k c crit e lo hi (s_w x) wr keys closed roll b Hcfg T Y I Hhi Hk Z)
        as [w' [wr' [roll' [keys' [closed' [E _]]]]]].
      fold s in E. rewrite E. reflexivity.
    + rewrite Es, Hp. rewrite <- V in Z.
      destruct (write_active_tsd_k c crit e lo hi (s_w x) wr keys closed roll b Hcfg T Y I Hhi Hk Z)
        as [w' [wr' [roll' [keys' [closed' [E _]]]]]].
      fold s in E. rewrite E. reflexivity.
    + rewrite Es, Hp.
      destruct (flush_active_tsd c e lo (s_w x) wr keys closed roll (nth (length closed) keys kd) I) as [w' [wr' [E _]]].
      fold s in E. rewrite E. reflexivity.
    + rewrite Es, Hp. unfold s. cbn [st_tsd f_cfg f_inner].
      destruct (mount_next_rotates_tsd c crit e lo hi (s_w x) wr keys closed roll true Hcfg T Y I Hhi Hk eq_refl)
        as [w' [wr' [roll' [E _]]]].
      rewrite E. reflexivity.
    + reflexivity.
    + cbn [snd snapshot obs_ok]. exact Logic.I.
  - cbn [GRelTd] in G. pose proof G as [[Ht _] [Es _]].
    rewrite (step_sync_tsd c crit x _ o Hcfg Es eq_refl).
    destruct o; try contradiction; cbn [sync_step].
    + destruct (first_write_td c crit e off lo hi n x d0 (s_tl x ++ b) Hcfg T Y Hao G Hhi Hmax) as [w' [s' [rot [D' [E _]]]]].
      rewrite Es. cbn [new_flw f_poisoned]. fold (new_flw c). rewrite E. reflexivity.
    + destruct (first_write_td c crit e off lo hi n x d0 b Hcfg T Y Hao G Hhi Hmax) as [w' [s' [rot [D' [E _]]]]].
      rewrite Es. cbn [new_flw f_poisoned]. fold (new_flw c). rewrite E. reflexivity.
    + rewrite Es. reflexivity.
    + rewrite Es. reflexivity.
    + reflexivity.
    + cbn [snd snapshot obs_ok]. exact Logic.I.
Qed.

Lemma grun_ok_td c crit e off lo hi d0 : tsdcfg c crit -> tag_ok c -> years_ok e lo hi -> aok c ->
  forall ops x a n, GRelTd c e off lo n x d0 a -> Forall basic_op ops -> Forall tick_ok ops ->
  (wnow (s_w x) + elapsed ops <= hi)%Z -> (N.of_nat (n + length ops) <= usize_max)%N ->
  Forall obs_ok (snd (run x ops)).
Proof.
  intros Hcfg T Y Hao. induction ops as [|o r IH]; intros x a n G Hb Htk Hhi Hmax; [constructor|].
  cbn [run]. inversion Hb as [|o' r' Ho Hr]; subst. inversion Htk as [|o' r' Hto Htr]; subst.
  cbn [elapsed length] in *. pose proof (elapsed_nonneg r Htr) as Er.
  assert (Hdt : (0 <= dt_of o)%Z) by (destruct o; cbn [dt_of tick_ok] in *; lia).
  destruct (gstep_td c crit e off lo hi n x d0 a o Hcfg T Y Hao G Ho Hto ltac:(lia) ltac:(lia)) as [a1 [G1 [_ [_ [W1 _]]]]].
  pose proof (gstep_ok_td c crit e off lo hi n x d0 a o Hcfg T Y Hao G Ho Hto ltac:(lia) ltac:(lia)) as K.
  destruct (step x o) as [x1 ob]. cbn [fst snd] in *.
  specialize (IH x1 a1 (S n) G1 Hr Htr ltac:(lia) ltac:(lia)). destruct (run x1 r) as [x2 obs].
  cbn [snd] in *. constructor; assumption.
Qed.

Lemma stop_ok_td c crit e off lo n x d0 a : tsdcfg c crit -> GRelTd c e off lo n x d0 a -> obs_ok (snd (step x OStop)).
Proof.
  intros Hcfg G.
  assert (E : exists s, s_flw x = Some s /\ f_cfg s = c).
  { destruct a as [[[keys closed] cur]|]; cbn [GRelTd] in G.
    - destruct G as [_ [wr [roll [Es _]]]]. rewrite Es. eexists. split; reflexivity.
    - destruct G as [_ [Es _]]. rewrite Es. eexists. split; reflexivity. }
  destruct E as [s [Es Ec]]. rewrite (step_sync_tsd c crit x s OStop Hcfg Es Ec). cbn [sync_step]. rewrite Es. reflexivity.
Qed.

(* one whole run, after the clock has advanced by dt: every observation is a normal result *)
Lemma one_run_ok_td c crit e off lo hi n x d dt ops :
  tsdcfg c crit -> tag_ok c -> years_ok e lo hi -> aok c -> IdleTd c e off lo n x d -> (0 <= dt)%Z ->
  Forall basic_op ops -> Forall tick_ok ops ->
  (wnow (s_w x) + elapsed (run_t dt c ops) <= hi)%Z -> (N.of_nat (n + length (run_t dt c ops)) <= usize_max)%N ->
  Forall obs_ok (snd (run x (run_t dt c ops))).
Proof.
  intros Hcfg T Y Hao Id Hdt Hb Htk Hhi Hmax. unfold run_t in *.
  cbn [elapsed dt_of length] in Hhi, Hmax. rewrite elapsed_app in Hhi. rewrite app_length in Hmax. cbn [elapsed dt_of length] in Hhi, Hmax.
  pose proof (elapsed_nonneg ops Htk) as Eo.
  cbn [run].
  destruct (idle_tick_td c e off lo n x d dt Hdt Id) as [Id0 W0].
  assert (Ka : obs_ok (snd (step x (OTick dt)))).
  { destruct Id as [_ [Es _]]. rewrite (step_sync_none x _ Es). reflexivity. }
  destruct (step x (OTick dt)) as [xa oba]. cbn [fst snd] in Id0, W0, Ka.
  pose proof (start_td c e off lo n xa d Id0) as P0. pose proof (start_now xa c) as W1.
  assert (K0 : obs_ok (snd (step xa (OStart c)))).
  { destruct Id0 as [_ [Es _]]. rewrite (step_sync_none xa _ Es). reflexivity. }
  destruct (step xa (OStart c)) as [x0 ob0]. cbn [fst snd] in P0, W1, K0.
  assert (G0 : GRelTd c e off lo (S n) x0 d None) by exact P0.
  destruct (grun_td c crit e off lo hi d Hcfg T Y Hao ops x0 None (S n) G0 Hb Htk ltac:(lia) ltac:(lia)) as [a1 [G1 _]].
  pose proof (grun_ok_td c crit e off lo hi d Hcfg T Y Hao ops x0 None (S n) G0 Hb Htk ltac:(lia) ltac:(lia)) as K1.
  rewrite run_app. destruct (run x0 ops) as [x1 obs1]. cbn [fst snd] in G1, K1.
  pose proof (stop_ok_td c crit e off lo _ x1 d a1 Hcfg G1) as K2. cbn [run]. destruct (step x1 OStop) as [x2 ob2]. cbn [fst snd] in *.
  constructor; [exact Ka|]. constructor; [exact K0|]. apply Forall_app. split; [exact K1 | constructor; [exact K2 | constructor]].
Qed.

(* one whole run OStart c :: ops ++ [OStop] on a directory left behind: every observation is a normal result, and what
   TsdRestart.one_run_td says about the directory (here without the clock tick in front) *)
Lemma start_run_td c crit e off lo hi n x d ops :
  tsdcfg c crit -> tag_ok c -> years_ok e lo hi -> aok c -> IdleTd c e off lo n x d ->
  Forall basic_op ops -> Forall tick_ok ops ->
  (wnow (s_w x) + elapsed ops <= hi)%Z -> (N.of_nat (S n + length ops) <= usize_max)%N ->
  Forall obs_ok (snd (run x (OStart c :: ops ++ [OStop])))
  /\ exists d', IdleTd c e off lo (S n + length ops) (fst (run x (OStart c :: ops ++ [OStop]))) d'
       /\ ExtD d d' /\ flatD d' = flatD d ++ written ops
       /\ wnow (s_w (fst (run x (OStart c :: ops ++ [OStop])))) = (wnow (s_w x) + elapsed ops)%Z
       /\ (c_append c = false -> KeepD d d').
Proof.
  intros Hcfg T Y Hao Id Hb Htk Hhi Hmax.
  pose proof (elapsed_nonneg ops Htk) as Eo.
  cbn [run].
  pose proof (start_td c e off lo n x d Id) as P0. pose proof (start_now x c) as W1.
  assert (K0 : obs_ok (snd (step x (OStart c)))).
  { destruct Id as [_ [Es _]]. rewrite (step_sync_none x _ Es). reflexivity. }
  destruct (step x (OStart c)) as [x0 ob0]. cbn [fst snd] in P0, W1, K0.
  assert (G0 : GRelTd c e off lo (S n) x0 d None) by exact P0.
  destruct (grun_td c crit e off lo hi d Hcfg T Y Hao ops x0 None (S n) G0 Hb Htk ltac:(lia) ltac:(lia)) as [a1 [G1 [X1 [F1 [W2 N1]]]]].
  pose proof (grun_ok_td c crit e off lo hi d Hcfg T Y Hao ops x0 None (S n) G0 Hb Htk ltac:(lia) ltac:(lia)) as K1.
  rewrite run_app. destruct (run x0 ops) as [x1 obs1]. cbn [fst snd] in G1, K1, W2.
  pose proof (stop_ok_td c crit e off lo _ x1 d a1 Hcfg G1) as K2.
  destruct (stop_td c crit e off lo (S n + length ops) x1 d a1 Hcfg G1) as [Id2 W3].
  cbn [run]. destruct (step x1 OStop) as [x2 ob2]. cbn [fst snd] in *.
  split. { constructor; [exact K0|]. apply Forall_app. split; [exact K1 | constructor; [exact K2 | constructor]]. }
  exists (gviewD d a1). cbn [gviewD] in X1, F1.
  split; [exact Id2|]. split; [exact X1|]. split; [exact F1|]. split; [lia|].
  intros Hna. specialize (N1 Hna Logic.I). destruct a1 as [D1|]; [right; exact N1 | left; reflexivity].
Qed.

Lemma tag_ok_spec c c' : c_spec c' = c_spec c -> tag_ok c -> tag_ok c'.
Proof. intros E. unfold tag_ok, fixed0. rewrite E. exact (fun H => H). Qed.

Lemma ts_e_utc c c' off : c_utc c' = c_utc c -> ts_e c' off = ts_e c off.
Proof. intros E. unfold ts_e. rewrite E. reflexivity. Qed.

(* the directories before and after the restart, in the terms of TsdRestart.v; tick: the clock advances by dt >= 0 between the
   crash and the start of the new writer (tick = None: no operation in between) *)
Definition restart_ops (tick : option Z) (c' : config) (ops3 : list op) : list op :=
  match tick with Some dt => [OTick dt] | None => [] end ++ OStart c' :: ops3 ++ [OStop].
Definition tick_dt (tick : option Z) : Z := match tick with Some dt => dt | None => 0%Z end.

Lemma kill_restart_td c crit c' crit' t0 off ops1 k ops2 tick ops3 :
  tsdcfg c crit -> tag_ok c -> c_cap c = None ->
  tsdcfg c' crit' -> c_spec c' = c_spec c -> c_utc c' = c_utc c -> (c_append c' = true -> probe_ok c') ->
  Forall basic_op ops1 -> Forall basic_op ops2 -> Forall basic_op ops3 ->
  Forall tick_ok ops1 -> Forall tick_ok ops2 -> Forall tick_ok ops3 -> (0 <= tick_dt tick)%Z ->
  let e := ts_e c off in
  let hi := (t0 + elapsed ops1 + elapsed ops2 + tick_dt tick + elapsed ops3)%Z in
  (0 <= t0 + e)%Z -> (hi + e < sec_max)%Z ->
  (N.of_nat (length ops1 + length ops2 + length ops3 + 1) <= usize_max)%N ->
  let x1 := fst (run (sys0 t0 off) (OStart c :: ops1 ++ [OSetKill k])) in
  let xk := fst (run (sys0 t0 off) (OStart c :: ops1 ++ [OSetKill k] ++ ops2 ++ [OCrash])) in
  let r2 := run xk (restart_ops tick c' ops3) in
  Forall obs_ok (snd r2)
  /\ exists n d d',
       IdleTd c e off t0 n xk d /\ flatD d = written ops1 ++ acked x1 ops2
       /\ IdleTd c' e off t0 (S n + length ops3) (fst r2) d' /\ flatD d' = written ops1 ++ acked x1 ops2 ++ written ops3
       /\ wnow (s_w (fst r2)) = hi
       /\ ExtD d d' /\ (c_append c' = false -> KeepD d d').
Proof.
  intros Hcfg T Hcap Hcfg' Hsp Hutc Hpr Hb1 Hb2 Hb3 Htk1 Htk2 Htk3 Hdt e hi Hlo Hhi Hmax x1 xk r2.
  pose proof (elapsed_nonneg ops1 Htk1) as E1. pose proof (elapsed_nonneg ops2 Htk2) as E2. pose proof (elapsed_nonneg ops3 Htk3) as E3.
  destruct (kill_history_td c crit t0 off ops1 k ops2 Hcfg Hcap T Hb1 Hb2 Htk1 Htk2 Hlo ltac:(fold e; unfold hi in Hhi; lia) ltac:(lia))
    as [[d [Id [F [W _]]]] _].
  fold xk in Id, W. fold x1 in F. fold e in Id.
  assert (Y : years_ok e t0 hi) by (split; assumption).
  pose proof (tag_ok_spec c c' Hsp T) as T'.
  assert (Id' : IdleTd c' e off t0 (length ops1 + length ops2) xk d) by (apply (idleTd_spec c c'); [congruence | congruence | exact Id]).
  set (n := length ops1 + length ops2) in *.
  (* the clock tick between the crash and the restart *)
  assert (TK : exists xa, fst (run xk (match tick with Some dt => [OTick dt] | None => [] end)) = xa
                 /\ Forall obs_ok (snd (run xk (match tick with Some dt => [OTick dt] | None => [] end)))
                 /\ IdleTd c' e off t0 n xa d /\ wnow (s_w xa) = (wnow (s_w xk) + tick_dt tick)%Z).
  { destruct tick as [dt|]; cbn [tick_dt] in *.
    - cbn [run]. destruct (idle_tick_td c' e off t0 n xk d dt Hdt Id') as [Id0 W0].
      assert (Ka : obs_ok (snd (step xk (OTick dt)))).
      { destruct Id' as [_ [Es _]]. rewrite (step_sync_none xk _ Es). reflexivity. }
      destruct (step xk (OTick dt)) as [xa oba]. cbn [fst snd] in *. exists xa.
      split; [reflexivity|]. split; [constructor; [exact Ka | constructor]|]. split; [exact Id0 | exact W0].
    - exists xk. cbn [run fst snd]. split; [reflexivity|]. split; [constructor|]. split; [exact Id' | lia]. }
  destruct TK as [xa [Exa [Ka [Ida Wa]]]].
  unfold r2, restart_ops. rewrite run_app. rewrite <- Exa in Ida, Wa.
  destruct (run xk (match tick with Some dt => [OTick dt] | None => [] end)) as [xa' obsa]. cbn [fst snd] in *. clear Exa xa.
  destruct (start_run_td c' crit' e off t0 hi n xa' d ops3 Hcfg' T' Y Hpr Ida Hb3 Htk3 ltac:(rewrite Wa, W; unfold hi; lia) ltac:(unfold n; lia))
    as [K3 [d' [Id2 [X [F2 [W2 Kp]]]]]].
  destruct (run xa' (OStart c' :: ops3 ++ [OStop])) as [x3 obs3]. cbn [fst snd] in *.
  split; [apply Forall_app; split; assumption|].
  exists n, d, d'. split; [exact Id|]. split; [exact F|]. split; [exact Id2|].
  split; [rewrite F2, F, <- app_assoc; reflexivity|]. split; [rewrite W2, Wa, W; unfold hi; lia|]. split; [exact X | exact Kp].
Qed.

(* ------------------------------------------------------------------ THE THEOREMS *)
(* The killed writer: TimestampsDirect naming, direct mode (TsdKill.v), any history, any kill point.  After the crash the clock
   advances by dt >= 0 (dt = 0: the new writer starts in the very second in which the process was killed), then a new writer
   with the same file spec and the same choice of use_utc - its own criterion, buffer capacity and append flag; with append
   the infix must be found in the names (probe_ok, e.g. by probe_free_ok) - runs ops3 and is stopped.
   - Every operation of the new writer succeeds (Forall obs_ok: no error result, no panic).
   - The final directory consists exactly of the plain files named by keys, in the order of their creation; they hold exactly
     acknowledged ++ the new writer's records.
   - keys_ok keys: over BOTH runs the names are pairwise distinct and increasing in the order of creation - no name is used
     twice; a new file in the second of the killed writer's last file gets the next restart counter (tsdkr_same_second). *)
Theorem timestampsdirect_kill_restart c crit c' crit' t0 off ops1 k ops2 dt ops3 :
  tsdcfg c crit -> tag_ok c -> c_cap c = None ->
  tsdcfg c' crit' -> c_spec c' = c_spec c -> c_utc c' = c_utc c -> (c_append c' = true -> probe_ok c') ->
  Forall basic_op ops1 -> Forall basic_op ops2 -> Forall basic_op ops3 ->
  Forall tick_ok ops1 -> Forall tick_ok ops2 -> Forall tick_ok ops3 -> (0 <= dt)%Z ->
  let e := ts_e c off in
  (0 <= t0 + e)%Z -> (t0 + elapsed ops1 + elapsed ops2 + dt + elapsed ops3 + e < sec_max)%Z ->
  (N.of_nat (length ops1 + length ops2 + length ops3 + 1) <= usize_max)%N ->
  let x1 := fst (run (sys0 t0 off) (OStart c :: ops1 ++ [OSetKill k])) in
  let xk := fst (run (sys0 t0 off) (OStart c :: ops1 ++ [OSetKill k] ++ ops2 ++ [OCrash])) in
  let r2 := run xk (OTick dt :: OStart c' :: ops3 ++ [OStop]) in
  Forall obs_ok (snd r2)
  /\ exists keys files,
       tsd_view c' e (wfs (s_w (fst r2))) keys files
       /\ keys_ok keys
       /\ (forall key, In key keys -> (t0 <= fst key <= t0 + elapsed ops1 + elapsed ops2 + dt + elapsed ops3)%Z)
       /\ concat files = written ops1 ++ acked x1 ops2 ++ written ops3.
Proof.
  intros Hcfg T Hcap Hcfg' Hsp Hutc Hpr Hb1 Hb2 Hb3 Htk1 Htk2 Htk3 Hdt e Hlo Hhi Hmax x1 xk r2.
  destruct (kill_restart_td c crit c' crit' t0 off ops1 k ops2 (Some dt) ops3 Hcfg T Hcap Hcfg' Hsp Hutc Hpr Hb1 Hb2 Hb3 Htk1 Htk2 Htk3
              Hdt Hlo Hhi Hmax) as [K [n [d [d' [_ [_ [Id2 [F2 [W2 _]]]]]]]]].
  split; [exact K|]. cbn [tick_dt] in W2.
  destruct (idleTd_view (c_spec c') c' (ts_e c off) off t0 _ _ d' eq_refl Id2) as [V [C [Ko Rg]]].
  exists (keysD d'), (filesD d'). split; [exact (V c' eq_refl)|]. split; [exact Ko|].
  split; [|rewrite C; exact F2]. intros key Ik. specialize (Rg key Ik).
  change (restart_ops (Some dt) c' ops3) with (OTick dt :: OStart c' :: ops3 ++ [OStop]) in Rg, W2. rewrite W2 in Rg. exact Rg.
Qed.
Print Assumptions timestampsdirect_kill_restart.

(* the same without an operation between the crash and the restart (the form of the theorems for Numbers / NumbersDirect naming) *)
Theorem timestampsdirect_kill_restart_now c crit c' crit' t0 off ops1 k ops2 ops3 :
  tsdcfg c crit -> tag_ok c -> c_cap c = None ->
  tsdcfg c' crit' -> c_spec c' = c_spec c -> c_utc c' = c_utc c -> (c_append c' = true -> probe_ok c') ->
  Forall basic_op ops1 -> Forall basic_op ops2 -> Forall basic_op ops3 ->
  Forall tick_ok ops1 -> Forall tick_ok ops2 -> Forall tick_ok ops3 ->
  let e := ts_e c off in
  (0 <= t0 + e)%Z -> (t0 + elapsed ops1 + elapsed ops2 + elapsed ops3 + e < sec_max)%Z ->
  (N.of_nat (length ops1 + length ops2 + length ops3 + 1) <= usize_max)%N ->
  let x1 := fst (run (sys0 t0 off) (OStart c :: ops1 ++ [OSetKill k])) in
  let xk := fst (run (sys0 t0 off) (OStart c :: ops1 ++ [OSetKill k] ++ ops2 ++ [OCrash])) in
  let r2 := run xk (OStart c' :: ops3 ++ [OStop]) in
  Forall obs_ok (snd r2)
  /\ exists keys files,
       tsd_view c' e (wfs (s_w (fst r2))) keys files
       /\ keys_ok keys
       /\ concat files = written ops1 ++ acked x1 ops2 ++ written ops3.
Proof.
  intros Hcfg T Hcap Hcfg' Hsp Hutc Hpr Hb1 Hb2 Hb3 Htk1 Htk2 Htk3 e Hlo Hhi Hmax x1 xk r2.
  destruct (kill_restart_td c crit c' crit' t0 off ops1 k ops2 None ops3 Hcfg T Hcap Hcfg' Hsp Hutc Hpr Hb1 Hb2 Hb3 Htk1 Htk2 Htk3
              ltac:(cbn [tick_dt]; lia) Hlo ltac:(cbn [tick_dt]; fold e; lia) Hmax) as [K [n [d [d' [_ [_ [Id2 [F2 _]]]]]]]].
  split; [exact K|].
  destruct (idleTd_view (c_spec c') c' (ts_e c off) off t0 _ _ d' eq_refl Id2) as [V [C [Ko _]]].
  exists (keysD d'), (filesD d'). split; [exact (V c' eq_refl)|]. split; [exact Ko|]. rewrite C. exact F2.
Qed.
Print Assumptions timestampsdirect_kill_restart_now.

(* The new writer never changes a file of the killed one - except that with append it continues the NEWEST file - and never
   reuses a name: the directory after the crash shows (keys1, files1), the final one (keys2, files2).  Every file of before
   is there under its key; all but the last one have their content of before, the last one has at most been continued;
   further files follow.  Without append the last file (possibly the empty one that the kill left) is untouched too. *)
Theorem timestampsdirect_kill_restart_keep c crit c' crit' t0 off ops1 k ops2 dt ops3 :
  tsdcfg c crit -> tag_ok c -> c_cap c = None ->
  tsdcfg c' crit' -> c_spec c' = c_spec c -> c_utc c' = c_utc c -> (c_append c' = true -> probe_ok c') ->
  Forall basic_op ops1 -> Forall basic_op ops2 -> Forall basic_op ops3 ->
  Forall tick_ok ops1 -> Forall tick_ok ops2 -> Forall tick_ok ops3 -> (0 <= dt)%Z ->
  let e := ts_e c off in
  (0 <= t0 + e)%Z -> (t0 + elapsed ops1 + elapsed ops2 + dt + elapsed ops3 + e < sec_max)%Z ->
  (N.of_nat (length ops1 + length ops2 + length ops3 + 1) <= usize_max)%N ->
  let x1 := fst (run (sys0 t0 off) (OStart c :: ops1 ++ [OSetKill k])) in
  let xk := fst (run (sys0 t0 off) (OStart c :: ops1 ++ [OSetKill k] ++ ops2 ++ [OCrash])) in
  let x2 := fst (run xk (OTick dt :: OStart c' :: ops3 ++ [OStop])) in
  exists keys1 files1 keys2 files2,
    tsd_view c e (wfs (s_w xk)) keys1 files1 /\ concat files1 = written ops1 ++ acked x1 ops2
    /\ tsd_view c' e (wfs (s_w x2)) keys2 files2 /\ concat files2 = written ops1 ++ acked x1 ops2 ++ written ops3
    /\ keys_ok keys2
    /\ (files1 = []
        \/ exists closed cur t mk more,
             files1 = closed ++ [cur] /\ keys2 = keys1 ++ mk /\ files2 = closed ++ (cur ++ t) :: more)
    /\ (c_append c' = false -> exists mk more, keys2 = keys1 ++ mk /\ files2 = files1 ++ more).
Proof.
  intros Hcfg T Hcap Hcfg' Hsp Hutc Hpr Hb1 Hb2 Hb3 Htk1 Htk2 Htk3 Hdt e Hlo Hhi Hmax x1 xk x2.
  destruct (kill_restart_td c crit c' crit' t0 off ops1 k ops2 (Some dt) ops3 Hcfg T Hcap Hcfg' Hsp Hutc Hpr Hb1 Hb2 Hb3 Htk1 Htk2 Htk3
              Hdt Hlo Hhi Hmax) as [_ [n [d1 [d2 [Id1 [F1 [Id2 [F2 [_ [X2 K2]]]]]]]]]].
  destruct (idleTd_view (c_spec c) c (ts_e c off) off t0 _ _ d1 eq_refl Id1) as [V1 [C1 _]].
  destruct (idleTd_view (c_spec c') c' (ts_e c off) off t0 _ _ d2 eq_refl Id2) as [V2 [C2 [Ko2 _]]].
  exists (keysD d1), (filesD d1), (keysD d2), (filesD d2).
  split; [exact (V1 c eq_refl)|]. split; [rewrite C1; exact F1|]. split; [exact (V2 c' eq_refl)|]. split; [rewrite C2; exact F2|].
  split; [exact Ko2|]. split.
  - destruct d1 as [[[keys1 closed1] cur1]|]; [right | left; reflexivity].
    destruct d2 as [[[keys2 closed2] cur2]|]; [|destruct X2]. cbn [keysD filesD ExtD] in *.
    destruct X2 as [[-> [-> [t ->]]]|[t [mk [mc [-> ->]]]]].
    + exists closed1, cur1, t, [], []. rewrite app_nil_r. auto.
    + exists closed1, cur1, t, mk, (mc ++ [cur2]). rewrite <- app_assoc. auto.
  - intros Hna. destruct (K2 Hna) as [->|Hf]; [exists [], []; rewrite !app_nil_r; auto|].
    destruct d1 as [[[keys1 closed1] cur1]|]; [|exists (keysD d2), (filesD d2); auto].
    destruct d2 as [[[keys2 closed2] cur2]|]; [|destruct Hf]. cbn [keysD filesD FreshD] in *.
    destruct Hf as [mk [mc [-> ->]]]. exists mk, (mc ++ [cur2]). rewrite <- !app_assoc. auto.
Qed.
Print Assumptions timestampsdirect_kill_restart_keep.

(* ------------------------------------------------------------------ examples (non-vacuity) *)
Open Scope string_scope.
(* the killed writer of TsdKill.v (direct mode, size criterion 3) without a clock tick after the kill: the crash happens in the
   second 0 in which all its files were started *)
Definition tsdkr_ops2 : list op := [OTrigger; OWrite (bs "gh"); OSnap; OWrite (bs "ijkl"); OWrite (bs "m")].
Definition tsdkr_hist (k : nat) : list op := OStart (tsdk_cfg false) :: tsdk_ops1 ++ [OSetKill k] ++ tsdkr_ops2 ++ [OCrash].
(* the new writer: buffered, size criterion 100 *)
Definition tsdkr_cfg2 (app : bool) : config := tsd_cfg (ex_sp "log") app (CSize 100) (Some 8%nat) false.
Definition tsdkr_ops3 : list op := [OWrite (bs "xy"); OFlush; OTick 5; OTrigger; OWrite (bs "z")].

(* kill point 1: the trigger has created <00>.restart-0001, the write of "gh" was killed: the newest file is EMPTY.  The new writer
   starts in the same second 0.  With append it continues the empty file; without append it takes the NEXT restart counter
   (restart-0002) - the empty file stays, no name is used twice.  Kill point 0 (the creation itself was killed): with append
   "ef" is continued, without append restart-0001 is taken (it does not exist). *)
Example tsdkr_same_second :
  snap_of (fst (run (fst (run (sys0 0 0) (tsdkr_hist 1))) (OStart (tsdkr_cfg2 true) :: tsdkr_ops3 ++ [OStop])))
  = [ (bs "app_r1970-01-01_00-00-00.log", 0%N, bs "abcd"); (bs "app_r1970-01-01_00-00-00.restart-0000.log", 0%N, bs "ef");
      (bs "app_r1970-01-01_00-00-00.restart-0001.log", 0%N, bs "xy"); (bs "app_r1970-01-01_00-00-05.log", 0%N, bs "z") ]
  /\ snap_of (fst (run (fst (run (sys0 0 0) (tsdkr_hist 1))) (OStart (tsdkr_cfg2 false) :: tsdkr_ops3 ++ [OStop])))
  = [ (bs "app_r1970-01-01_00-00-00.log", 0%N, bs "abcd"); (bs "app_r1970-01-01_00-00-00.restart-0000.log", 0%N, bs "ef");
      (bs "app_r1970-01-01_00-00-00.restart-0001.log", 0%N, []); (bs "app_r1970-01-01_00-00-00.restart-0002.log", 0%N, bs "xy");
      (bs "app_r1970-01-01_00-00-05.log", 0%N, bs "z") ]
  /\ snap_of (fst (run (fst (run (sys0 0 0) (tsdkr_hist 0))) (OStart (tsdkr_cfg2 true) :: tsdkr_ops3 ++ [OStop])))
  = [ (bs "app_r1970-01-01_00-00-00.log", 0%N, bs "abcd"); (bs "app_r1970-01-01_00-00-00.restart-0000.log", 0%N, bs "efxy");
      (bs "app_r1970-01-01_00-00-05.log", 0%N, bs "z") ]
  /\ snap_of (fst (run (fst (run (sys0 0 0) (tsdkr_hist 0))) (OStart (tsdkr_cfg2 false) :: tsdkr_ops3 ++ [OStop])))
  = [ (bs "app_r1970-01-01_00-00-00.log", 0%N, bs "abcd"); (bs "app_r1970-01-01_00-00-00.restart-0000.log", 0%N, bs "ef");
      (bs "app_r1970-01-01_00-00-00.restart-0001.log", 0%N, bs "xy"); (bs "app_r1970-01-01_00-00-05.log", 0%N, bs "z") ].
Proof. vm_compute. repeat split; reflexivity. Qed.

(* the history of TsdKill.v with the clock tick, kill point 4: the rotating write of "m" has created <01> and was killed at its
   write.  A new writer without append in the same second 1: <01>.restart-0000 *)
Example tsdkr_after_rotating_write :
  snap_of (fst (run (fst (run (sys0 0 0) (tsdk_hist false 4))) (OTick 0 :: OStart (tsdkr_cfg2 false) :: tsdkr_ops3 ++ [OStop])))
  = [ (bs "app_r1970-01-01_00-00-00.log", 0%N, bs "abcd"); (bs "app_r1970-01-01_00-00-00.restart-0000.log", 0%N, bs "ef");
      (bs "app_r1970-01-01_00-00-00.restart-0001.log", 0%N, bs "ghijkl"); (bs "app_r1970-01-01_00-00-01.log", 0%N, []);
      (bs "app_r1970-01-01_00-00-01.restart-0000.log", 0%N, bs "xy"); (bs "app_r1970-01-01_00-00-06.log", 0%N, bs "z") ].
Proof. vm_compute. reflexivity. Qed.

(* a kill in the very first write (the first file is created, empty), then a new writer without append in the same second *)
Example tsdkr_after_first_write :
  snap_of (fst (run (fst (run (sys0 0 0) (OStart (tsdk_cfg true) :: [] ++ [OSetKill 1] ++ [OWrite (bs "a")] ++ [OCrash])))
                    (OStart (tsdkr_cfg2 false) :: tsdkr_ops3 ++ [OStop])))
  = [ (bs "app_r1970-01-01_00-00-00.log", 0%N, []); (bs "app_r1970-01-01_00-00-00.restart-0000.log", 0%N, bs "xy");
      (bs "app_r1970-01-01_00-00-05.log", 0%N, bs "z") ].
Proof. vm_compute. reflexivity. Qed.

Lemma tsdkr_basic2 : Forall basic_op tsdkr_ops2.
Proof. repeat constructor. Qed.
Lemma tsdkr_ticks2 : Forall tick_ok tsdkr_ops2.
Proof. repeat constructor. Qed.
Lemma tsdkr_basic3 : Forall basic_op tsdkr_ops3.
Proof. repeat constructor. Qed.
Lemma tsdkr_ticks3 : Forall tick_ok tsdkr_ops3.
Proof. repeat (apply Forall_cons; [cbn [tick_ok]; first [exact Logic.I | lia]|]); apply Forall_nil. Qed.
Lemma tsdkr_cfg2_ok app : tsdcfg (tsdkr_cfg2 app) (CSize 100).
Proof. apply tsd_cfg_ok. reflexivity. Qed.
Lemma tsdkr_cfg2_probe app : c_append (tsdkr_cfg2 app) = true -> probe_ok (tsdkr_cfg2 app).
Proof. intros _. apply probe_free_ok. vm_compute. reflexivity. Qed.

(* the theorems applied: the restart in the second of the kill, with append, on the empty newest file *)
Example tsdkr_restart_now_instance :
  let r2 := run (fst (run (sys0 0 0) (tsdkr_hist 1))) (OStart (tsdkr_cfg2 true) :: tsdkr_ops3 ++ [OStop]) in
  Forall obs_ok (snd r2)
  /\ exists keys files, tsd_view (tsdkr_cfg2 true) 0 (wfs (s_w (fst r2))) keys files /\ keys_ok keys /\ concat files = bs "abcdefxyz".
Proof.
  destruct (timestampsdirect_kill_restart_now (tsdk_cfg false) (CSize 3) (tsdkr_cfg2 true) (CSize 100) 0 0 tsdk_ops1 1 tsdkr_ops2 tsdkr_ops3
              (tsdk_cfg_ok false) (tsdk_tag_ok false) eq_refl (tsdkr_cfg2_ok true) eq_refl eq_refl (tsdkr_cfg2_probe true)
              tsdk_basic1 tsdkr_basic2 tsdkr_basic3 tsdk_ticks1 tsdkr_ticks2 tsdkr_ticks3) as [K [keys [files [V [Ko E]]]]];
    [change (0 <= 0)%Z; lia | change (5 + 0 < sec_max)%Z; unfold sec_max; lia | vm_compute; discriminate |].
  split; [exact K|]. exists keys, files. split; [exact V|]. split; [exact Ko|]. rewrite E. vm_compute. reflexivity.
Qed.

(* ... and after a clock tick of 0 seconds, without append, after the kill in the rotating write *)
Example tsdkr_restart_instance :
  let r2 := run (fst (run (sys0 0 0) (tsdk_hist false 4))) (OTick 0 :: OStart (tsdkr_cfg2 false) :: tsdkr_ops3 ++ [OStop]) in
  Forall obs_ok (snd r2)
  /\ exists keys files, tsd_view (tsdkr_cfg2 false) 0 (wfs (s_w (fst r2))) keys files /\ keys_ok keys
       /\ concat files = bs "abcdefghijklxyz".
Proof.
  destruct (timestampsdirect_kill_restart (tsdk_cfg false) (CSize 3) (tsdkr_cfg2 false) (CSize 100) 0 0 tsdk_ops1 4 tsdk_ops2 0 tsdkr_ops3
              (tsdk_cfg_ok false) (tsdk_tag_ok false) eq_refl (tsdkr_cfg2_ok false) eq_refl eq_refl (tsdkr_cfg2_probe false)
              tsdk_basic1 tsdk_basic2 tsdkr_basic3 tsdk_ticks1 tsdk_ticks2 tsdkr_ticks3 ltac:(lia))
    as [K [keys [files [V [Ko [_ E]]]]]];
    [change (0 <= 0)%Z; lia | change (6 + 0 < sec_max)%Z; unfold sec_max; lia | vm_compute; discriminate |].
  split; [exact K|]. exists keys, files. split; [exact V|]. split; [exact Ko|]. rewrite E. vm_compute. reflexivity.
Qed.

(* the files of the killed writer are kept: without append even the empty newest one *)
Example tsdkr_keep_instance :
  exists keys1 files1 keys2 files2 mk more,
    tsd_view (tsdk_cfg false) 0 (wfs (s_w (fst (run (sys0 0 0) (tsdk_hist false 4))))) keys1 files1
    /\ concat files1 = bs "abcdefghijkl"
    /\ tsd_view (tsdkr_cfg2 false) 0
         (wfs (s_w (fst (run (fst (run (sys0 0 0) (tsdk_hist false 4))) (OTick 0 :: OStart (tsdkr_cfg2 false) :: tsdkr_ops3 ++ [OStop]))))) keys2 files2
    /\ keys_ok keys2 /\ keys2 = keys1 ++ mk /\ files2 = files1 ++ more.
Proof.
  destruct (timestampsdirect_kill_restart_keep (tsdk_cfg false) (CSize 3) (tsdkr_cfg2 false) (CSize 100) 0 0 tsdk_ops1 4 tsdk_ops2 0 tsdkr_ops3
              (tsdk_cfg_ok false) (tsdk_tag_ok false) eq_refl (tsdkr_cfg2_ok false) eq_refl eq_refl (tsdkr_cfg2_probe false)
              tsdk_basic1 tsdk_basic2 tsdkr_basic3 tsdk_ticks1 tsdk_ticks2 tsdkr_ticks3 ltac:(lia))
    as [keys1 [files1 [keys2 [files2 [V1 [E1 [V2 [_ [Ko [_ X]]]]]]]]]];
    [change (0 <= 0)%Z; lia | change (6 + 0 < sec_max)%Z; unfold sec_max; lia | vm_compute; discriminate |].
  destruct (X eq_refl) as [mk [more [A B]]].
  exists keys1, files1, keys2, files2, mk, more. split; [exact V1|]. split; [rewrite E1; vm_compute; reflexivity|]. auto.
Qed.

Print Assumptions timestampsdirect_kill_restart.
Print Assumptions timestampsdirect_kill_restart_now.
Print Assumptions timestampsdirect_kill_restart_keep.
