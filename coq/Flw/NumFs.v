(* File-system level description of one rotation with rename (rCURRENT namings):
   rename current -> target, create a fresh current, the old writer flushes into its (renamed) inode. *)
Require Import FL.Base.Bytes FL.Base.BytesFacts FL.Fs.Fs FL.Fs.FsFacts.
Open Scope nat_scope.

Lemma open_trunc_fresh f a gz now : lookup f a = None -> open_trunc f a gz now = create_file f a gz now.
Proof. intros H. unfold open_trunc. rewrite H. reflexivity. Qed.
Lemma open_append_fresh f a now : lookup f a = None -> open_append f a now = create_file f a 0%N now.
Proof. intros H. unfold open_append. rewrite H. reflexivity. Qed.

Lemma inode_append f i b j : (i < length (inodes f)) ->
  inode (append_ino f i b) j = if Nat.eqb j i then with_data (inode f i) (content f i ++ b) else inode f j.
Proof. intros H. unfold inode at 1. cbn [append_ino inodes]. rewrite nth_upd by assumption. reflexivity. Qed.

Definition fresh_file (now : Z) : file := {| fdata := []; fgz := 0%N; fborn := now; fdir := false |}.

Lemma rotate_fs_spec f cur tgt old pend now : fs_wf f -> cur <> tgt -> lookup f cur = Some old -> lookup f tgt = None ->
  exists f1, rename f cur tgt = Some f1 /\
    let f2 := fst (create_file f1 cur 0%N now) in
    let new := snd (create_file f1 cur 0%N now) in
    let f3 := append_ino f2 old pend in
    lookup f1 cur = None /\ inodes f1 = inodes f /\
    fs_wf f3 /\ new = length (inodes f) /\ lookup f3 cur = Some new /\ lookup f3 tgt = Some old
    /\ (forall n, n <> cur -> n <> tgt -> lookup f3 n = lookup f n)
    /\ length (inodes f3) = S (length (inodes f))
    /\ inode f3 new = fresh_file now
    /\ inode f3 old = with_data (inode f old) (content f old ++ pend)
    /\ (forall j, j <> new -> j <> old -> inode f3 j = inode f j).
Proof.
  intros W Hne Hc Ht. destruct (rename_spec f cur tgt old Hne Hc) as [f1 [E [Hino [Lt [Lc Lo]]]]].
  exists f1. split; [exact E|]. cbn zeta.
  pose proof (wf_rename f cur tgt f1 W E) as W1.
  pose proof (create_file_spec f1 cur 0%N now) as S. pose proof (wf_create f1 cur 0%N now W1 Lc) as W2.
  destruct (create_file f1 cur 0%N now) as [f2 new]. cbn [fst snd] in *. destruct S as [-> [Hino2 [L2c L2o]]].
  pose proof (wf_bound f W cur old Hc) as Hold.
  assert (Hold2 : old < length (inodes f2)) by (rewrite Hino2, Hino, app_length; cbn; lia).
  split; [exact Lc|]. split; [exact Hino|].
  split; [apply wf_append; exact W2|]. split; [rewrite Hino; reflexivity|].
  split; [rewrite lookup_append; exact L2c|].
  split; [rewrite lookup_append, L2o by congruence; exact Lt|].
  split. { intros n H1 H2. rewrite lookup_append, L2o by assumption. apply Lo; assumption. }
  split; [rewrite len_append, Hino2, Hino, app_length; cbn; lia|].
  split. { rewrite inode_append by assumption. destruct (Nat.eqb_spec (length (inodes f1)) old) as [E0|_]; [rewrite Hino in E0; lia|].
           unfold inode. rewrite Hino2, inode_app_new. reflexivity. }
  split. { rewrite inode_append, Nat.eqb_refl by assumption. unfold content, inode. rewrite Hino2, inode_app_old by (rewrite Hino; assumption).
           rewrite Hino. reflexivity. }
  intros j Hj1 Hj2. rewrite inode_append by assumption. destruct (Nat.eqb_spec j old); [congruence|].
  unfold inode. rewrite Hino2, Hino in *. destruct (Nat.lt_ge_cases j (length (inodes f))) as [Hlt|Hge].
  - rewrite inode_app_old by assumption. reflexivity.
  - rewrite !nth_overflow; [reflexivity | lia | rewrite app_length; cbn; lia].
Qed.
