(* Timestamps naming (rCURRENT + r<time stamp>[.restart-NNNN]) over several runs, part 1: the invariant extended by the
   birth second of the current file, the rotation on the level of the invariant, and what a NEW writer makes of a
   directory that earlier writers left behind (initialize: without append the current file found is closed under the
   collision-free infix of its birth second, with append it is continued and the naming state takes its birth second). *)
Require Import FL.Base.Bytes FL.Base.BytesFacts FL.Base.PathName FL.Fs.Fs FL.Fs.FsFacts FL.Time.Civil FL.Time.TsFormat
  FL.Names.FileSpec FL.Names.NamesFacts FL.Names.SortFacts FL.Flw.Model FL.Flw.ModelFacts FL.Flw.NumFs FL.Flw.NumInv FL.Flw.Run
  FL.Flw.RunFacts FL.Flw.NumRun FL.Oracles.O_Flw FL.Flw.NumTheorems FL.Flw.NumListing FL.Flw.NumRestart
  FL.Flw.TsCal FL.Flw.TsTime FL.Flw.TsNames FL.Flw.TsInv FL.Flw.TsRun.
From Coq Require Import ZifyN ZifyNat ZifyBool.
Open Scope nat_scope.

(* ------------------------------------------------------------------ the birth second of the current file *)
Definition born (w : world) (wr : writer) : Z := fborn (inode (wfs w) (wino wr)).

(* the invariant of TsInv.v, and: the naming state holds the second in which the current file was created *)
Definition TsInvB (c : config) (e lo : Z) (w : world) (wr : writer) (keys : list key) (closed : list bytes) (ts : Z) : Prop :=
  TsInv c e lo w wr keys closed ts /\ born w wr = ts.

Lemma born_birth c e lo w wr keys closed ts : TsInvB c e lo w wr keys closed ts -> birth_or_now w (cname c) = ts.
Proof.
  intros [I B]. unfold birth_or_now, file_of. rewrite (ti_cur _ _ _ _ _ _ _ _ I). exact B.
Qed.

Lemma tsinvb_append c e lo w w' wr wr' keys closed ts x :
  TsInvB c e lo w wr keys closed ts -> wfs w' = append_ino (wfs w) (wino wr) x -> same_env w w' ->
  wino wr' = wino wr -> wcap wr' = wcap wr -> wr_ok wr' ->
  TsInvB c e lo w' wr' keys closed ts /\ content (wfs w') (wino wr') = content (wfs w) (wino wr) ++ x.
Proof.
  intros [I B] F SE Ei Ec Hok.
  destruct (tsinv_append c e lo w w' wr wr' keys closed ts x I F SE Ei Ec Hok) as [I' C'].
  split; [|exact C']. split; [exact I'|].
  pose proof (wf_bound _ (ti_wf _ _ _ _ _ _ _ _ I) _ _ (ti_cur _ _ _ _ _ _ _ _ I)) as Hold.
  unfold born in *. rewrite F, Ei, inode_append, Nat.eqb_refl by assumption. cbn [with_data fborn]. exact B.
Qed.

Lemma tsinvb_tick c e lo w wr keys closed ts dt : TsInvB c e lo w wr keys closed ts -> (0 <= dt)%Z ->
  TsInvB c e lo (set_now w (wnow w + dt)%Z) wr keys closed ts.
Proof. intros [I B] Hdt. split; [apply tsinv_tick; assumption | exact B]. Qed.

Lemma tsinvb_env c e lo w w' wr keys closed ts : TsInvB c e lo w wr keys closed ts ->
  wfs w' = wfs w -> quiet w' -> woff w' = woff w -> wnow w' = wnow w -> TsInvB c e lo w' wr keys closed ts.
Proof.
  intros [I B] F Q O N'. split; [exact (tsinv_env c e lo w w' wr keys closed ts I F Q O N')|]. unfold born in *. rewrite F. exact B.
Qed.

(* ------------------------------------------------------------------ what collision_free_infix answers under the invariant *)
Lemma cfi_tsinv c e lo hi w wr keys closed ts :
  tag_ok c -> years_ok e lo hi -> TsInv c e lo w wr keys closed ts -> (wnow w <= hi)%Z ->
  (N.of_nat (length closed) <= usize_max)%N ->
  collision_free_infix (woff w) (c_spec c) (fixed0 c) (wfs w) (tsx e ts) = Some (Some (infix_of e (ts, count ts keys))).
Proof.
  intros T Y I Hhi Hmax.
  pose proof I as [Q W Hnd Hoff Hc Hcp Hlen Hcl Hon Hko Hrg Htsr Hwr Hcap].
  assert (Yk : forall k, In k keys -> in_years e (fst k)).
  { intros k Ik. apply (years_in e lo hi); [exact Y|]. specialize (Hrg k Ik). lia. }
  assert (Yts : in_years e ts) by (apply (years_in e lo hi); [exact Y | lia]).
  apply (collision_free_infix_ts c e (woff w) (wfs w) keys ts (count ts keys) T Yts Yk (tsinv_dir _ _ _ _ _ _ _ _ I)
           (keys_count keys Hko ts)).
  pose proof (count_le_length ts keys). lia.
Qed.

(* ------------------------------------------------------------------ one rotation on the level of the invariant *)
(* rename rCURRENT to the name of the key (ts, number of closed files of the second ts), create a fresh rCURRENT at the
   time `wnow w`, the old writer flushes into the renamed inode *)
Lemma rotate_tsinv c e lo hi w wr keys closed ts :
  TsInv c e lo w wr keys closed ts -> years_ok e lo hi -> (wnow w <= hi)%Z ->
  exists f1, rename (wfs w) (cname c) (kname c e (ts, count ts keys)) = Some f1 /\ lookup f1 (cname c) = None /\
    forall w3, quiet w3 -> eoff c w3 = e -> wnow w3 = wnow w ->
      wfs w3 = append_ino (fst (create_file f1 (cname c) 0%N (wnow w))) (wino wr) (wpend wr) ->
      TsInvB c e lo w3 {| wino := snd (create_file f1 (cname c) 0%N (wnow w)); wpend := []; wcap := c_cap c |}
             (keys ++ [(ts, count ts keys)]) (closed ++ [cur_view w wr]) (wnow w)
      /\ cur_view w3 {| wino := snd (create_file f1 (cname c) 0%N (wnow w)); wpend := []; wcap := c_cap c |} = [].
Proof.
  intros I Y Hhi.
  pose proof I as [Q W Hnd Hoff Hc Hcp Hlen Hcl Hon Hko Hrg Htsr Hwr Hcap].
  assert (Yk : forall k, In k keys -> in_years e (fst k)).
  { intros k Ik. apply (years_in e lo hi); [exact Y|]. specialize (Hrg k Ik). lia. }
  assert (Yts : in_years e ts) by (apply (years_in e lo hi); [exact Y | lia]).
  set (knew := (ts, count ts keys)).
  (* the target name is free *)
  assert (Ht : lookup (wfs w) (kname c e knew) = None).
  { destruct (lookup (wfs w) (kname c e knew)) as [j|] eqn:E; [|reflexivity].
    destruct (Hon _ _ E) as [E1|[i [Hi E1]]]; [exfalso; exact (kname_not_cname c e knew Yts E1)|].
    apply kname_inj in E1; [|exact Yts | apply Yk, nth_In; lia].
    assert (Ik : In knew keys) by (rewrite E1; apply nth_In; lia).
    apply (keys_count keys Hko) in Ik. lia. }
  destruct (rotate_fs_spec (wfs w) (cname c) (kname c e knew) (wino wr) (wpend wr) (wnow w) W
              (fun E => kname_not_cname c e knew Yts (eq_sym E)) Hc Ht) as [f1 [Er R]].
  cbn zeta in R. destruct R as [L1c [Hino1 [W3 [Hnew [L3c [L3t [L3o [Hlenf [Inew [Iold Ioth]]]]]]]]]].
  exists f1. split; [exact Er|]. split; [exact L1c|]. intros w3 Q3 Hoff3 Hnow3 F3'.
  set (new := snd (create_file f1 (cname c) 0%N (wnow w))) in *.
  set (f3 := append_ino (fst (create_file f1 (cname c) 0%N (wnow w))) (wino wr) (wpend wr)) in *.
  set (wr' := {| wino := new; wpend := []; wcap := c_cap c |}).
  pose proof (wf_bound _ W _ _ Hc) as Hold.
  split; [split|].
  { constructor.
    - exact Q3.
    - rewrite F3'. exact W3.
    - rewrite F3'. unfold f3. change (dir_names (append_ino ?g _ _)) with (dir_names g).
      apply create_nodup; [exact (rename_nodup _ _ _ _ Hnd Er) | exact L1c].
    - exact Hoff3.
    - rewrite F3'. exact L3c.
    - rewrite F3'. cbn [wr' wino]. rewrite Inew. split; reflexivity.
    - rewrite !app_length, Hlen. reflexivity.
    - intros i Hi. rewrite app_length in Hi. cbn [length] in Hi. rewrite F3'.
      destruct (Nat.eq_dec i (length closed)) as [->|Hne].
      + exists (wino wr). rewrite app_nth2, Hlen, Nat.sub_diag by lia. cbn [nth]. split; [exact L3t|]. split.
        * rewrite Iold. exact Hcp.
        * split; [|cbn [wr' wino]; rewrite Hnew; lia].
          unfold content at 1. rewrite Iold. cbn [with_data fdata]. rewrite app_nth2, Nat.sub_diag by lia. reflexivity.
      + assert (Hi' : i < length closed) by lia. destruct (Hcl i Hi') as [j [Lj [Pj [Cj Hj2]]]].
        assert (Ik : In (nth i keys kd) keys) by (apply nth_In; lia).
        exists j. rewrite (app_nth1 keys _ kd) by lia.
        rewrite L3o; [|apply kname_not_cname, Yk, Ik |].
        2:{ intros E. apply kname_inj in E; [|apply Yk, Ik | exact Yts]. rewrite E in Ik. apply (keys_count keys Hko) in Ik. lia. }
        split; [exact Lj|].
        assert (Hj1 : j <> new). { pose proof (wf_bound _ W _ _ Lj). rewrite Hnew. lia. }
        unfold content. rewrite Ioth by assumption. split; [exact Pj|]. rewrite app_nth1 by assumption. split; [exact Cj | exact Hj1].
    - intros n j Hn. rewrite F3' in Hn.
      destruct (beq_spec n (cname c)) as [->|Hn1]; [left; reflexivity|].
      destruct (beq_spec n (kname c e knew)) as [->|Hn2].
      + right. exists (length closed). rewrite app_length. cbn [length]. split; [lia|].
        rewrite app_nth2, Hlen, Nat.sub_diag by lia. reflexivity.
      + rewrite L3o in Hn by assumption. destruct (Hon _ _ Hn) as [E|[i [Hi E]]]; [contradiction|].
        right. exists i. rewrite app_length. cbn [length]. split; [lia|]. rewrite (app_nth1 keys _ kd) by lia. exact E.
    - apply ko_snoc; [exact Hko|]. intros k Ik. specialize (Hrg k Ik). lia.
    - intros k Ik. apply in_app_or in Ik. destruct Ik as [Ik|[<-|[]]].
      + specialize (Hrg k Ik). lia.
      + unfold knew. cbn [fst]. lia.
    - rewrite Hnow3. lia.
    - unfold wr_ok, wr'. cbn. destruct (c_cap c); [lia | reflexivity].
    - reflexivity. }
  { unfold born. rewrite F3'. cbn [wr' wino]. rewrite Inew. reflexivity. }
  { unfold cur_view. rewrite F3'. cbn [wr' wino wpend]. unfold content. rewrite Inew. reflexivity. }
Qed.

(* ------------------------------------------------------------------ one rotation of the running writer *)
Lemma mount_next_rotates_tsb c crit e lo hi w wr keys closed ts roll force :
  tscfg c crit -> tag_ok c -> years_ok e lo hi -> TsInvB c e lo w wr keys closed ts ->
  (wnow w <= hi)%Z -> (N.of_nat (length closed) <= usize_max)%N ->
  force || rotation_necessary w roll = true ->
  exists w' wr' roll',
    mount_next c w (Active (Some (mk_rs (NSTs ts (Some cur_infix) std_fmt) roll)) wr (cname c)) force
      = (Ok tt, w', Active (Some (mk_rs (NSTs (wnow w) (Some cur_infix) std_fmt) roll')) wr' (cname c))
    /\ TsInvB c e lo w' wr' (keys ++ [(ts, count ts keys)]) (closed ++ [cur_view w wr]) (wnow w)
    /\ cur_view w' wr' = [] /\ same_env w w'.
Proof.
  intros [Hrot [Hts [Hlink _]]] T Y [I B] Hhi Hmax Hnec.
  pose proof I as [Q W Hnd Hoff Hc Hcp Hlen Hcl Hon Hko Hrg Htsr Hwr Hcap].
  unfold mount_next. cbn [mk_rs rs_roll rs_naming rs_cleanup rs_bg]. rewrite Hnec.
  unfold creation_ts_of_current, collision_free. rewrite !tick_quiet by assumption.
  rewrite !(name_of_fixed c w) by assumption. rewrite (fixed_of_fixed0 c w Hts), infix_from_ts_tsx, Hoff.
  rewrite (cfi_tsinv c e lo hi w wr keys closed ts T Y I Hhi Hmax).
  rewrite ?(name_of_fixed c w) by assumption.
  fold (nm c cur_infix). fold (cname c).
  change (as_name (c_spec c) (fixed0 c) (Some (infix_of e (ts, count ts keys)))) with (kname c e (ts, count ts keys)).
  destruct (rotate_tsinv c e lo hi w wr keys closed ts I Y Hhi) as [f1 [Er [L1c RI]]].
  pose proof (p_rename_quiet w (cname c) (kname c e (ts, count ts keys)) Q) as PR. rewrite Er in PR.
  destruct PR as [w1 [Epr [F1 S1]]]. rewrite Epr.
  assert (Eb : birth_or_now w1 (cname c) = wnow w).
  { unfold birth_or_now, file_of. rewrite F1, L1c. apply S1. }
  rewrite Eb.
  unfold open_log_file. rewrite (name_of_fixed c w1) by assumption. fold (nm c cur_infix) (cname c).
  unfold do_symlink. rewrite Hlink.
  assert (D1 : match file_of (wfs w1) (cname c) with Some fl => fdir fl = false | None => True end).
  { unfold file_of. rewrite F1, L1c. exact Logic.I. }
  destruct (p_open_quiet w1 (cname c) (c_append c) (proj1 S1) D1) as [w2 [Eop [F2 S2]]]. rewrite Eop.
  assert (Eopen : (if c_append c then open_append (wfs w1) (cname c) (wnow w1) else open_trunc (wfs w1) (cname c) 0%N (wnow w1))
                  = create_file f1 (cname c) 0%N (wnow w)).
  { rewrite F1. destruct S1 as [_ [-> _]]. destruct (c_append c); [apply open_append_fresh | apply open_trunc_fresh]; exact L1c. }
  rewrite Eopen in *. clear Eopen.
  unfold w_drop. destruct (w_flush_quiet w2 wr (proj1 S2)) as [w3 [Efl [F3 S3]]]. rewrite Efl. cbn [fst snd].
  unfold cleanup_or_queue. cbn [mk_rs rs_roll rs_naming rs_cleanup rs_bg cleanup_impl].
  assert (F3' : wfs w3 = append_ino (fst (create_file f1 (cname c) 0%N (wnow w))) (wino wr) (wpend wr)) by (rewrite F3, F2; reflexivity).
  assert (SE : same_env w w3) by (eapply same_env_trans; [eapply same_env_trans|]; eassumption).
  assert (Hoff3 : eoff c w3 = e). { unfold eoff in *. destruct SE as [_ [_ [-> _]]]. exact Hoff. }
  destruct (RI w3 (proj1 S3) Hoff3 (same_env_now _ _ SE) F3') as [I3 V3].
  eexists w3, _, (reset_size_and_date w3 roll (cname c)).
  split; [reflexivity|]. split; [exact I3|]. split; [exact V3 | exact SE].
Qed.

(* ------------------------------------------------------------------ write, flush, shutdown *)
Lemma write_active_tsb c crit e lo hi w wr keys closed ts roll b :
  tscfg c crit -> tag_ok c -> years_ok e lo hi -> TsInvB c e lo w wr keys closed ts ->
  (wnow w <= hi)%Z -> (N.of_nat (length closed) <= usize_max)%N ->
  let rot := rotation_necessary w roll in
  exists w' wr' roll' keys' closed' ts',
    write_buffer (st_ts c ts roll wr) w b = (Ok tt, w', st_ts c ts' roll' wr', rot)
    /\ TsInvB c e lo w' wr' keys' closed' ts' /\ same_env w w'
    /\ (keys', closed', cur_view w' wr', ts')
       = (if rot then (keys ++ [(ts, count ts keys)], closed ++ [cur_view w wr], b, wnow w)
          else (keys, closed, cur_view w wr ++ b, ts)).
Proof.
  intros Hcfg T Y I Hhi Hmax rot.
  unfold write_buffer, st_ts. cbn [f_cfg f_inner f_poisoned mk_rs rs_roll]. fold rot.
  assert (M : exists w1 wr1 roll1 keys1 closed1 ts1,
            mount_next c w (Active (Some (mk_rs (NSTs ts (Some cur_infix) std_fmt) roll)) wr (cname c)) false
            = (Ok tt, w1, Active (Some (mk_rs (NSTs ts1 (Some cur_infix) std_fmt) roll1)) wr1 (cname c))
            /\ TsInvB c e lo w1 wr1 keys1 closed1 ts1 /\ same_env w w1
            /\ (keys1, closed1, cur_view w1 wr1, ts1)
               = (if rot then (keys ++ [(ts, count ts keys)], closed ++ [cur_view w wr], [], wnow w) else (keys, closed, cur_view w wr, ts))).
  { destruct rot eqn:Er.
    - destruct (mount_next_rotates_tsb c crit e lo hi w wr keys closed ts roll false Hcfg T Y I Hhi Hmax) as [w1 [wr1 [roll1 [E [I1 [V1 S1]]]]]]; [exact Er|].
      exists w1, wr1, roll1, (keys ++ [(ts, count ts keys)]), (closed ++ [cur_view w wr]), (wnow w). rewrite V1.
      split; [exact E|]. split; [exact I1|]. split; [exact S1 | reflexivity].
    - exists w, wr, roll, keys, closed, ts. split.
      + unfold mount_next. cbn [mk_rs rs_roll orb]. unfold rot in Er. rewrite Er. reflexivity.
      + split; [exact I|]. split; [apply same_env_refl; apply (proj1 I) | reflexivity]. }
  destruct M as [w1 [wr1 [roll1 [keys1 [closed1 [ts1 [E [I1 [S1 V1]]]]]]]]].
  rewrite E.
  destruct (w_write_quiet w1 wr1 b (ti_quiet _ _ _ _ _ _ _ _ (proj1 I1)) (ti_wr _ _ _ _ _ _ _ _ (proj1 I1))) as [w2 [wr2 [fl [Ew [S2 [F2 [Ei [Ec [Ep Hok]]]]]]]]].
  rewrite Ew.
  destruct (tsinvb_append c e lo w1 w2 wr1 wr2 keys1 closed1 ts1 fl I1 F2 S2 Ei Ec Hok) as [I2 C2].
  exists w2, wr2, (increase_size roll1 (N.of_nat (length b))), keys1, closed1, ts1.
  assert (V2 : cur_view w2 wr2 = cur_view w1 wr1 ++ b).
  { unfold cur_view. rewrite C2, <- !app_assoc, Ep. reflexivity. }
  split; [reflexivity|]. split; [exact I2|].
  split; [eapply same_env_trans; eassumption|].
  rewrite V2. destruct rot; injection V1 as -> -> -> ->; reflexivity.
Qed.

Lemma flush_active_tsb c e lo w wr keys closed ts roll :
  TsInvB c e lo w wr keys closed ts ->
  exists w' wr', flush_state (st_ts c ts roll wr) w = (true, w', st_ts c ts roll wr')
    /\ TsInvB c e lo w' wr' keys closed ts /\ cur_view w' wr' = cur_view w wr /\ wpend wr' = [] /\ same_env w w'.
Proof.
  intros I. unfold flush_state, st_ts. cbn [f_inner].
  destruct (w_flush_quiet w wr (ti_quiet _ _ _ _ _ _ _ _ (proj1 I))) as [w1 [E [F S]]]. rewrite E.
  set (wr' := {| wino := wino wr; wpend := []; wcap := wcap wr |}).
  assert (Hok : wr_ok wr') by (unfold wr_ok, wr'; cbn; destruct (wcap wr); [lia | reflexivity]).
  destruct (tsinvb_append c e lo w w1 wr wr' keys closed ts (wpend wr) I F S eq_refl eq_refl Hok) as [I1 C1].
  exists w1, wr'. split; [reflexivity|]. split; [exact I1|]. split; [|split; [reflexivity | exact S]].
  unfold cur_view. rewrite C1. cbn [wr' wpend]. rewrite app_nil_r. reflexivity.
Qed.

Lemma shutdown_active_tsb c e lo w wr keys closed ts roll : TsInvB c e lo w wr keys closed ts -> wacts w = 0 ->
  exists w' wr', shutdown_state (st_ts c ts roll wr) w = (w', st_ts c ts roll wr')
    /\ TsInvB c e lo w' wr' keys closed ts /\ cur_view w' wr' = cur_view w wr /\ wpend wr' = [] /\ same_env w w'.
Proof.
  intros I Ha. unfold shutdown_state, st_ts, drain_acts. cbn [f_inner f_cfg mk_rs rs_cleanup rs_naming].
  destruct (w_flush_quiet w wr (ti_quiet _ _ _ _ _ _ _ _ (proj1 I))) as [w1 [E [F S]]]. rewrite E.
  set (wr' := {| wino := wino wr; wpend := []; wcap := wcap wr |}).
  assert (Hok : wr_ok wr') by (unfold wr_ok, wr'; cbn; destruct (wcap wr); [lia | reflexivity]).
  destruct (tsinvb_append c e lo w w1 wr wr' keys closed ts (wpend wr) I F S eq_refl eq_refl Hok) as [I1 C1].
  exists w1, wr'. split; [reflexivity|]. split; [exact I1|]. split; [|split; [reflexivity | exact S]].
  unfold cur_view. rewrite C1. cbn [wr' wpend]. rewrite app_nil_r. reflexivity.
Qed.

(* ------------------------------------------------------------------ the first write of a writer: empty directory *)
Lemma initialize_empty_tsb c crit e lo w :
  tscfg c crit -> quiet w -> names (wfs w) = [] -> inodes (wfs w) = [] -> eoff c w = e -> (lo <= wnow w)%Z ->
  exists w' wr roll,
    initialize c w = (Ok (Active (Some (mk_rs (NSTs (wnow w) (Some cur_infix) std_fmt) roll)) wr (cname c)), w')
    /\ TsInvB c e lo w' wr [] [] (wnow w) /\ cur_view w' wr = [] /\ same_env w w'.
Proof.
  intros [Hrot [Hts [Hlink _]]] Q Hn Hi Hoff Hlo.
  unfold initialize. rewrite Hrot. unfold init_naming.
  assert (E0 : creation_ts_of_current c w cur_infix (negb (c_append c)) None std_fmt = (Ok (wnow w), w)).
  { unfold creation_ts_of_current. rewrite (name_of_fixed c w) by assumption. fold (nm c cur_infix) (cname c).
    assert (Eb : birth_or_now w (cname c) = wnow w).
    { unfold birth_or_now, file_of. rewrite lookup_empty by assumption. reflexivity. }
    rewrite Eb. destruct (negb (c_append c)); [|reflexivity].
    unfold collision_free. rewrite !tick_quiet by assumption. rewrite collision_free_infix_empty by assumption.
    pose proof (p_rename_quiet w (cname c) (name_of c w (Some (infix_from_ts c w std_fmt (wnow w)))) Q) as PR.
    rewrite rename_none in PR by (apply lookup_empty; assumption). rewrite PR, Eb. reflexivity. }
  rewrite E0. cbn [bind].
  unfold open_log_file. rewrite (name_of_fixed c w) by assumption. fold (nm c cur_infix) (cname c).
  unfold do_symlink. rewrite Hlink.
  assert (D1 : match file_of (wfs w) (cname c) with Some fl => fdir fl = false | None => True end).
  { unfold file_of. rewrite lookup_empty by assumption. exact Logic.I. }
  destruct (p_open_quiet w (cname c) (c_append c) Q D1) as [w2 [Eop [F2 S2]]]. rewrite Eop.
  assert (Eopen : (if c_append c then open_append (wfs w) (cname c) (wnow w) else open_trunc (wfs w) (cname c) 0%N (wnow w))
                  = create_file (wfs w) (cname c) 0%N (wnow w)).
  { destruct (c_append c); [apply open_append_fresh | apply open_trunc_fresh]; apply lookup_empty; assumption. }
  rewrite Eopen in *. clear Eopen. cbn [bind fst snd].
  unfold create_file in F2. cbn [fst snd] in F2. rewrite Hn, Hi in F2. cbn [length app] in F2.
  unfold create_file. cbn [snd]. rewrite Hi. cbn [length].
  set (wr := {| wino := 0; wpend := []; wcap := c_cap c |}).
  assert (Lc : lookup (wfs w2) (cname c) = Some 0) by (rewrite F2; unfold lookup; cbn; rewrite beq_refl; reflexivity).
  assert (Fo : file_of (wfs w2) (cname c) = Some (fresh_file (wnow w))) by (unfold file_of; rewrite Lc, F2; reflexivity).
  assert (RN : exists roll, roll_new w2 crit (c_append c) (cname c) = (Ok roll, w2)).
  { unfold roll_new. destruct (c_append c).
    - rewrite tick_quiet by apply S2. rewrite Fo. cbn [fresh_file fdata length]. eexists. reflexivity.
    - eexists. reflexivity. }
  destruct RN as [roll Ern]. rewrite Ern. cbn [bind].
  exists w2, wr, roll. split; [reflexivity|].
  split; [split|].
  { constructor.
    - apply S2.
    - rewrite F2. split.
      + intros a j. unfold lookup; cbn. destruct (beq (cname c) a); [|discriminate]. intros E; injection E as <-. lia.
      + intros a b j. unfold lookup; cbn. destruct (beq_spec (cname c) a), (beq_spec (cname c) b); try discriminate. congruence.
    - rewrite F2. unfold dir_names. cbn [names List.map fst]. constructor; [intros [] | constructor].
    - unfold eoff in *. destruct S2 as [_ [_ [-> _]]]. exact Hoff.
    - exact Lc.
    - rewrite F2. split; reflexivity.
    - reflexivity.
    - cbn [length]. intros i Hi'. lia.
    - intros n j. rewrite F2. unfold lookup; cbn. destruct (beq_spec (cname c) n); [auto | discriminate].
    - constructor.
    - intros k [].
    - destruct S2 as [_ [-> _]]. lia.
    - unfold wr_ok, wr. cbn. destruct (c_cap c); [lia | reflexivity].
    - reflexivity. }
  { unfold born. rewrite F2. reflexivity. }
  split. { unfold cur_view, content, inode. rewrite F2. reflexivity. }
  exact S2.
Qed.

(* ------------------------------------------------------------------ the first write of a writer: a directory left behind *)
(* what the writer makes of the directory before anything is written: with append nothing changes - the current file is
   continued, and the naming state takes ITS birth second -; without append the current file is closed under the key of its
   birth second and a new one is created now *)
Lemma initialize_view_ts c crit e lo hi w wr keys closed ts :
  tscfg c crit -> tag_ok c -> years_ok e lo hi -> TsInvB c e lo w wr keys closed ts -> wpend wr = [] ->
  (wnow w <= hi)%Z -> (N.of_nat (length closed) <= usize_max)%N ->
  exists w' wr' roll keys' closed' ts',
    initialize c w = (Ok (Active (Some (mk_rs (NSTs ts' (Some cur_infix) std_fmt) roll)) wr' (cname c)), w')
    /\ TsInvB c e lo w' wr' keys' closed' ts' /\ same_env w w'
    /\ (keys', closed', cur_view w' wr', ts')
       = (if c_append c then (keys, closed, cur_view w wr, ts)
          else (keys ++ [(ts, count ts keys)], closed ++ [cur_view w wr], [], wnow w)).
Proof.
  intros [Hrot [Hts [Hlink _]]] T Y IB Hp Hhi Hmax. pose proof IB as [I B].
  pose proof I as [Q W Hnd Hoff Hc Hcp Hlen Hcl Hon Hko Hrg Htsr Hwr Hcap].
  pose proof (born_birth _ _ _ _ _ _ _ _ IB) as Ebirth.
  unfold initialize. rewrite Hrot. unfold init_naming, creation_ts_of_current.
  rewrite !(name_of_fixed c w) by assumption. fold (nm c cur_infix) (cname c). rewrite Ebirth.
  destruct (c_append c) eqn:Happ; cbn [negb].
  - (* append: the current file is continued *)
    cbn [bind]. unfold open_log_file. rewrite (name_of_fixed c w) by assumption. fold (nm c cur_infix) (cname c).
    unfold do_symlink. rewrite Hlink, Happ.
    assert (Fo : file_of (wfs w) (cname c) = Some (inode (wfs w) (wino wr))) by (unfold file_of; rewrite Hc; reflexivity).
    assert (D1 : match file_of (wfs w) (cname c) with Some fl => fdir fl = false | None => True end).
    { rewrite Fo. apply Hcp. }
    destruct (p_open_quiet w (cname c) true Q D1) as [w2 [Eop [F2 S2]]]. rewrite Eop.
    assert (Eopen : open_append (wfs w) (cname c) (wnow w) = (wfs w, wino wr)) by (unfold open_append; rewrite Hc; reflexivity).
    rewrite Eopen in *. cbn [fst snd] in *. cbn [bind].
    assert (Fo2 : file_of (wfs w2) (cname c) = Some (inode (wfs w) (wino wr))) by (rewrite F2; exact Fo).
    destruct (roll_new_append w2 crit (cname c) _ (proj1 S2) Fo2) as [roll [Ern _]]. rewrite Ern. cbn [bind].
    assert (Ewr : {| wino := wino wr; wpend := []; wcap := c_cap c |} = wr).
    { destruct wr as [i p k]. cbn [wino wpend wcap] in *. subst. reflexivity. }
    rewrite Ewr.
    exists w2, wr, roll, keys, closed, ts. split; [reflexivity|].
    split. { apply (tsinvb_env c e lo w w2); [exact IB | exact F2 | apply S2 | apply S2 | apply S2]. }
    split; [exact S2|]. unfold cur_view. rewrite F2. reflexivity.
  - (* no append: the current file is closed under the key of its birth second *)
    unfold collision_free. rewrite !tick_quiet by assumption.
    rewrite (fixed_of_fixed0 c w Hts), infix_from_ts_tsx, Hoff.
    rewrite (cfi_tsinv c e lo hi w wr keys closed ts T Y I Hhi Hmax).
    rewrite ?(name_of_fixed c w) by assumption.
    change (as_name (c_spec c) (fixed0 c) (Some (infix_of e (ts, count ts keys)))) with (kname c e (ts, count ts keys)).
    destruct (rotate_tsinv c e lo hi w wr keys closed ts I Y Hhi) as [f1 [Er [L1c RI]]].
    pose proof (p_rename_quiet w (cname c) (kname c e (ts, count ts keys)) Q) as PR. rewrite Er in PR.
    destruct PR as [w1 [Epr [F1 S1]]]. rewrite Epr.
    assert (Eb : birth_or_now w1 (cname c) = wnow w).
    { unfold birth_or_now, file_of. rewrite F1, L1c. apply S1. }
    rewrite Eb. cbn [bind].
    unfold open_log_file. rewrite (name_of_fixed c w1) by assumption. fold (nm c cur_infix) (cname c).
    unfold do_symlink. rewrite Hlink.
    assert (D1 : match file_of (wfs w1) (cname c) with Some fl => fdir fl = false | None => True end).
    { unfold file_of. rewrite F1, L1c. exact Logic.I. }
    destruct (p_open_quiet w1 (cname c) (c_append c) (proj1 S1) D1) as [w2 [Eop [F2 S2]]].
    rewrite Happ in Eop, F2. rewrite Happ, Eop.
    assert (Eopen : open_trunc (wfs w1) (cname c) 0%N (wnow w1) = create_file f1 (cname c) 0%N (wnow w)).
    { rewrite F1. destruct S1 as [_ [-> _]]. apply open_trunc_fresh. exact L1c. }
    rewrite Eopen in *. clear Eopen. cbn [bind].
    destruct (roll_new_fresh w2 crit (cname c)) as [roll [Ern _]]. rewrite Ern. cbn [bind].
    assert (F3 : wfs w2 = append_ino (fst (create_file f1 (cname c) 0%N (wnow w))) (wino wr) (wpend wr)).
    { rewrite Hp, append_ino_nil_id. exact F2. }
    assert (SE : same_env w w2) by (eapply same_env_trans; eassumption).
    assert (Hoff2 : eoff c w2 = e). { unfold eoff in *. destruct SE as [_ [_ [-> _]]]. exact Hoff. }
    destruct (RI w2 (proj1 S2) Hoff2 (same_env_now _ _ SE) F3) as [I2 V2].
    eexists w2, _, roll, _, _, _. split; [reflexivity|].
    split; [exact I2|]. split; [exact SE|]. rewrite V2. reflexivity.
Qed.
Print Assumptions initialize_view_ts.
