(* "The listing returns exactly the existing family files the selector asks for" for TimestampsDirect naming (ListingExact.v
   has Numbers, NumbersDirect and Timestamps).  At every point of every history  OStart c :: ops  covered by
   timestampsdirect_stream the operation  existing_log_files(selector)  (OQuery sel) returns normally, leaves the state as it is,
   and its result satisfies the oracle Oracles/O_Names.oracle_listing on the snapshot of the directory: sorted, it is exactly
   expected_listing.  The listing filters with the time-stamp parser (IFTs std_fmt), as for Timestamps naming.
   There is no rCURRENT file: with_r_current (sel_rcur) and a custom current infix (sel_custom, custom_ok_ts: it is no time
   stamp) select NOTHING, in the model and in the oracle - timestampsdirect_listing_no_current: the answer is the one for the
   selector without them; asked for alone they give the empty list.
   Condition custom_ok_ts is needed (example tsd_custom_stamp_listed): a custom infix that is the time stamp of existing files
   lists those files - all files of that second, the restart siblings included -, the oracle does not count them as current. *)
Require Import FL.Base.Bytes FL.Base.BytesFacts FL.Base.PathName FL.Fs.Fs FL.Fs.FsFacts FL.Time.Civil FL.Time.TsFormat
  FL.Names.FileSpec FL.Names.NamesFacts FL.Names.SortFacts FL.Names.FamilyFacts FL.Flw.Model FL.Flw.ModelFacts FL.Flw.NumFs
  FL.Flw.NumInv FL.Flw.Run FL.Flw.RunFacts FL.Flw.NumRun FL.Oracles.O_Flw FL.Oracles.ReaderOrder FL.Oracles.O_Names
  FL.Flw.NumTheorems FL.Flw.NumListing FL.Flw.NumRestart FL.Flw.NumDTheorems
  FL.Flw.TsCal FL.Flw.TsTime FL.Flw.TsNames FL.Flw.TsInv FL.Flw.TsRun FL.Flw.TsTheorems FL.Flw.TsReader
  FL.Flw.TsdInv FL.Flw.TsdRun FL.Flw.TsdTheorems
  FL.Flw.NumKillRestart FL.Flw.NoPanic FL.Flw.TsParse FL.Flw.NamesDocumented FL.Flw.ListingExact FL.Flw.TsdNoPanic FL.Flw.TsdNames.
From Coq Require Import ZifyN ZifyNat ZifyBool Permutation Sorted.
Open Scope nat_scope.

(* ------------------------------------------------------------------ the oracle's selection of a file of the family *)
Lemma kname_selected_tsd c crit k sel e key d : c_rot c = Some (crit, NTimestampsDirect, k) -> not_gz c -> in_years e (fst key) ->
  selected sel c (kname c e key, 0%N, d) = sel_plain sel.
Proof.
  intros Hrot G Y. unfold selected, classify_entry. rewrite Hrot. change (fixed_name_part (c_spec c) []) with (fixed0 c).
  rewrite (full_infix_kname c e key G Y). change (0 =? 1)%N with false. change (0 =? 0)%N with true. cbv iota.
  unfold cur_infix_of. rewrite Hrot. rewrite (valid_std_infix NTimestampsDirect None e key eq_refl Y). reflexivity.
Qed.

(* without a current infix the oracle ignores with_r_current and the custom infix *)
Definition no_current (sel : selector) : selector :=
  {| sel_plain := sel_plain sel; sel_gz := sel_gz sel; sel_rcur := false; sel_custom := None |}.

Lemma selected_no_current c sel en : cur_infix_of c = None -> selected sel c en = selected (no_current sel) c en.
Proof.
  intros H. unfold selected. destruct (classify_entry c en); cbn [no_current sel_plain sel_gz sel_rcur sel_custom]; try reflexivity.
  rewrite H. destruct (sel_rcur sel), (sel_custom sel); reflexivity.
Qed.

Lemma expected_no_current c sel l : cur_infix_of c = None -> expected_listing sel c l = expected_listing (no_current sel) c l.
Proof.
  intros H. unfold expected_listing. f_equal. f_equal. apply filter_ext. intros en. apply selected_no_current. exact H.
Qed.

Lemma selected_none c sel en : cur_infix_of c = None -> sel_plain sel = false -> sel_gz sel = false -> selected sel c en = false.
Proof.
  intros H P Z. rewrite (selected_no_current c sel en H). unfold selected.
  destruct (classify_entry c en); cbn [no_current sel_plain sel_gz sel_rcur sel_custom]; try assumption; try reflexivity.
Qed.

Lemma expected_none c sel l : cur_infix_of c = None -> sel_plain sel = false -> sel_gz sel = false -> expected_listing sel c l = [].
Proof.
  intros H P Z. unfold expected_listing.
  rewrite (filter_ext _ (fun _ => false) (fun en => selected_none c sel en H P Z)), filter_false. reflexivity.
Qed.

Lemma sort_names_nil l : sort_names l = [] -> l = [].
Proof.
  intros H. destruct l as [|x l]; [reflexivity|]. exfalso.
  assert (I : In x (sort_names (x :: l))) by (apply sort_names_in'; left; reflexivity). rewrite H in I. destruct I.
Qed.

(* ------------------------------------------------------------------ the query on a state of the invariant *)
Lemma query_reltd c crit e lo hi n x a sel :
  tsdcfg c crit -> not_gz c -> custom_ok_ts sel -> years_ok e lo hi -> (wnow (s_w x) <= hi)%Z -> RelTd c crit e lo n x a ->
  exists l, step x (OQuery sel) = (x, ObsList 0%N l) /\ oracle_listing sel c (snap_of x) l = true.
Proof.
  intros Hcfg G Hsel Y Hhi R. rewrite (step_sync_rel_tsd c crit e lo n x a (OQuery sel) Hcfg R). cbn [sync_step].
  destruct Hcfg as (Hrot & Hts & _). destruct R as [_ [_ R]]. rewrite snap_of_list. destruct a as [[closed cur]|].
  - destruct R as [keys [wr [roll [Es [Iv _]]]]]. rewrite Es. cbn [st_tsd f_poisoned]. unfold query.
    cbn [st_tsd f_cfg f_inner mk_rs rs_naming ns_filter]. unfold with_listing.
    rewrite (tick_quiet _ (td_quiet _ _ _ _ _ _ _ Iv)), (fixed_of_fixed0 c _ Hts), existing_rot_filters_ts. cbv zeta.
    fold (st_tsd c e (nth (length closed) keys kd) roll wr). cbv beta iota. rewrite (sys_eta x _ Es).
    eexists. split; [reflexivity|].
    set (f := wfs (s_w x)) in *.
    assert (Yk : forall i, i <= length closed -> in_years e (fst (nth i keys kd))).
    { intros i Hi. apply (years_in e lo hi _ Y).
      pose proof (td_range _ _ _ _ _ _ _ Iv (nth i keys kd)) as Rg. pose proof (td_len _ _ _ _ _ _ _ Iv) as Hl.
      assert (Ik : In (nth i keys kd) keys) by (apply nth_In; lia). specialize (Rg Ik). lia. }
    assert (Cases : forall m, In m (dir_names f) ->
              is_reg_file f m = true /\ exists d, snap_entry f m = (m, 0%N, d)
                /\ exists key, in_years e (fst key) /\ m = kname c e key).
    { intros m In_. apply dir_names_lookup in In_. destruct In_ as [j Lj].
      destruct (td_only _ _ _ _ _ _ _ Iv m j Lj) as [i [Hi Em]].
      assert (Pj : plain (inode f j)).
      { subst m. destruct (Nat.eq_dec i (length closed)) as [->|Hne].
        - unfold f in Lj. rewrite (td_cur _ _ _ _ _ _ _ Iv) in Lj. injection Lj as <-. exact (td_curplain _ _ _ _ _ _ _ Iv).
        - destruct (td_closed _ _ _ _ _ _ _ Iv i ltac:(lia)) as [j' [Lj' [Pj' _]]]. unfold f in Lj. rewrite Lj in Lj'.
          injection Lj' as <-. exact Pj'. }
      destruct Pj as [Pg Pd]. unfold snap_entry, is_reg_file, file_of. rewrite Lj, Pd, Pg. split; [reflexivity|].
      exists (fdata (inode f j)). split; [reflexivity|]. exists (nth i keys kd). split; [apply Yk; exact Hi | exact Em]. }
    apply generic_oracle.
    + intros m In_. destruct (Cases m In_) as [Hr [d [_ [key [Yi ->]]]]]. rewrite Hr.
      rewrite (kname_shape c e key Yi), is_prefix_under. reflexivity.
    + intros m In_. destruct (Cases m In_) as [_ [d [Es' [key [Yi ->]]]]]. rewrite Es'.
      destruct (kname_filters_ts (woff (s_w x)) c sel e G Hsel key Yi) as (-> & -> & -> & ->).
      rewrite (kname_selected_tsd c crit KNever sel e key d Hrot G Yi), !orb_false_r. auto.
  - destruct R as [Es [Q [Hn _]]]. rewrite Es. cbn [new_flw f_poisoned]. unfold query. cbn [new_flw f_cfg f_inner]. rewrite Hrot.
    unfold with_listing. rewrite (tick_quiet _ Q), existing_rot_empty by exact Hn.
    fold (new_flw c). cbv beta iota. rewrite (sys_eta x _ Es). exists []. split; [reflexivity|].
    unfold oracle_listing, expected_listing, snap_list, dir_names. rewrite Hn. reflexivity.
Qed.

(* THE THEOREM.  For every history of basic operations and every selector (custom_ok_ts), under the hypotheses of
   timestampsdirect_stream and not_gz: in the state after  OStart c :: ops  the listing operation returns normally (code 0),
   changes nothing, and the oracle accepts its result for the snapshot of the directory: sorted, the result is exactly
   expected_listing sel c (snapshot). *)
Theorem timestampsdirect_listing_exact c crit t0 off ops sel :
  tsdcfg c crit -> tag_ok c -> not_gz c -> Forall basic_op ops -> Forall tick_ok ops -> custom_ok_ts sel ->
  (0 <= t0 + ts_e c off)%Z -> (t0 + elapsed ops + ts_e c off < sec_max)%Z -> (N.of_nat (length ops) <= usize_max)%N ->
  let x := fst (run (sys0 t0 off) (OStart c :: ops)) in
  exists l, step x (OQuery sel) = (x, ObsList 0%N l)
            /\ oracle_listing sel c (snap_of x) l = true
            /\ sort_names l = expected_listing sel c (snap_of x).
Proof.
  intros Hcfg T G Hb Htk Hsel Hlo Hhi Hmax x. unfold x. clear x. cbn [run].
  destruct (step (sys0 t0 off) (OStart c)) as [x0 ob0] eqn:E0.
  pose proof (start_rel_tsd c crit t0 off) as R0. rewrite E0 in R0. cbn [fst] in R0.
  assert (W0 : wnow (s_w x0) = t0) by (cbn in E0; injection E0 as <- _; reflexivity).
  assert (Y : years_ok (ts_e c off) t0 (t0 + elapsed ops)) by (split; assumption).
  pose proof (run_rel_tsd c crit _ _ _ Hcfg T Y ops x0 None 0 R0 Hb Htk ltac:(lia) ltac:(cbn [Nat.add]; exact Hmax)) as [R1 [W1 _]].
  destruct (run x0 ops) as [x1 obs1]. cbn [fst snd] in *.
  destruct (query_reltd c crit _ _ _ _ x1 _ sel Hcfg G Hsel Y ltac:(lia) R1) as [l [E O]]. exists l. split; [exact E|]. split; [exact O|].
  apply names_beq_eq. exact O.
Qed.
Print Assumptions timestampsdirect_listing_exact.

(* what with_r_current and the custom current infix select: nothing.  The answer is, up to the order, the one for the selector
   without them (no_current sel); when neither the plain files nor the archives are asked for, it is empty. *)
Theorem timestampsdirect_listing_no_current c crit t0 off ops sel :
  tsdcfg c crit -> tag_ok c -> not_gz c -> Forall basic_op ops -> Forall tick_ok ops -> custom_ok_ts sel ->
  (0 <= t0 + ts_e c off)%Z -> (t0 + elapsed ops + ts_e c off < sec_max)%Z -> (N.of_nat (length ops) <= usize_max)%N ->
  let x := fst (run (sys0 t0 off) (OStart c :: ops)) in
  exists l l0, step x (OQuery sel) = (x, ObsList 0%N l) /\ step x (OQuery (no_current sel)) = (x, ObsList 0%N l0)
               /\ sort_names l = sort_names l0
               /\ (sel_plain sel = false -> sel_gz sel = false -> l = []).
Proof.
  intros Hcfg T G Hb Htk Hsel Hlo Hhi Hmax x.
  assert (Ec : cur_infix_of c = None) by (unfold cur_infix_of; rewrite (proj1 Hcfg); reflexivity).
  destruct (timestampsdirect_listing_exact c crit t0 off ops sel Hcfg T G Hb Htk Hsel Hlo Hhi Hmax) as [l [E [_ S]]].
  destruct (timestampsdirect_listing_exact c crit t0 off ops (no_current sel) Hcfg T G Hb Htk I Hlo Hhi Hmax) as [l0 [E0 [_ S0]]].
  fold x in E, S, E0, S0. exists l, l0. split; [exact E|]. split; [exact E0|]. split.
  - rewrite S, S0. apply expected_no_current. exact Ec.
  - intros P Z. apply sort_names_nil. rewrite S. apply expected_none; assumption.
Qed.
Print Assumptions timestampsdirect_listing_no_current.

(* ------------------------------------------------------------------ instances *)
Import String.StringSyntax.
Open Scope string_scope.

Definition tl_x : sys := fst (run (sys0 0 0) (OStart tsd_c :: ext_ops)).

(* the model lists the newest file first *)
Example timestampsdirect_listing_instance_computed :
  snd (step tl_x (OQuery sel_all))
  = ObsList 0%N (List.map bs ["app_r1970-01-01_00-00-01.restart-0000.log"; "app_r1970-01-01_00-00-01.log";
                              "app_r1970-01-01_00-00-00.restart-0002.log"; "app_r1970-01-01_00-00-00.restart-0001.log";
                              "app_r1970-01-01_00-00-00.restart-0000.log"; "app_r1970-01-01_00-00-00.log"])
  /\ expected_listing sel_all tsd_c (snap_of tl_x)
     = List.map bs ["app_r1970-01-01_00-00-00.log"; "app_r1970-01-01_00-00-00.restart-0000.log";
                    "app_r1970-01-01_00-00-00.restart-0001.log"; "app_r1970-01-01_00-00-00.restart-0002.log";
                    "app_r1970-01-01_00-00-01.log"; "app_r1970-01-01_00-00-01.restart-0000.log"]
  /\ custom_ok_ts sel_all.
Proof. split; [vm_compute; reflexivity|]. split; [vm_compute; reflexivity | exact I]. Qed.

Example timestampsdirect_listing_instance sel : custom_ok_ts sel ->
  exists l, step tl_x (OQuery sel) = (tl_x, ObsList 0%N l) /\ oracle_listing sel tsd_c (snap_of tl_x) l = true
            /\ sort_names l = expected_listing sel tsd_c (snap_of tl_x).
Proof.
  intros Hsel. destruct tsd_instance_bounds as (B1 & B2 & B3).
  exact (timestampsdirect_listing_exact tsd_c (CSize 100) 0 0 ext_ops sel tsd_c_ok tsd_c_tag_ok tsd_c_not_gz ext_ops_basic ext_ops_ticks
           Hsel B1 B2 B3).
Qed.

(* with_r_current alone, and together with the custom current infix "rCURRENT": nothing is listed, six files exist *)
Example timestampsdirect_rcurrent_lists_nothing :
  let sel1 := {| sel_plain := false; sel_gz := false; sel_rcur := true; sel_custom := None |} in
  let sel2 := {| sel_plain := false; sel_gz := false; sel_rcur := true; sel_custom := Some cur_infix |} in
  let sel3 := {| sel_plain := false; sel_gz := false; sel_rcur := false; sel_custom := Some (bs "current") |} in
  snd (step tl_x (OQuery sel1)) = ObsList 0%N [] /\ snd (step tl_x (OQuery sel2)) = ObsList 0%N []
  /\ snd (step tl_x (OQuery sel3)) = ObsList 0%N []
  /\ length (snap_of tl_x) = 6
  /\ oracle_listing sel1 tsd_c (snap_of tl_x) [] = true /\ oracle_listing sel2 tsd_c (snap_of tl_x) [] = true
  /\ oracle_listing sel3 tsd_c (snap_of tl_x) [] = true.
Proof. cbv zeta. repeat split; vm_compute; reflexivity. Qed.

(* custom_ok_ts is needed for the oracle (not a defect of the listing): a custom current infix that is the time stamp of
   existing files lists the files of that second, as asked - the restart siblings included -; the oracle, for which this naming
   has no current file, expects nothing *)
Example tsd_custom_stamp_listed :
  let sel := {| sel_plain := false; sel_gz := false; sel_rcur := false; sel_custom := Some (bs "r1970-01-01_00-00-01") |} in
  snd (step tl_x (OQuery sel))
  = ObsList 0%N [bs "app_r1970-01-01_00-00-01.restart-0000.log"; bs "app_r1970-01-01_00-00-01.log"]
  /\ expected_listing sel tsd_c (snap_of tl_x) = []
  /\ oracle_listing sel tsd_c (snap_of tl_x) [bs "app_r1970-01-01_00-00-01.restart-0000.log"; bs "app_r1970-01-01_00-00-01.log"] = false
  /\ ~ custom_ok_ts sel.
Proof.
  cbv zeta. split; [vm_compute; reflexivity|]. split; [vm_compute; reflexivity|]. split; [vm_compute; reflexivity|].
  intros H. apply (H 0%Z 1%Z); [unfold in_years, sec_max; lia | vm_compute; reflexivity].
Qed.
