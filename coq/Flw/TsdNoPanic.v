(* "No operation panics, whatever the history" for TimestampsDirect naming (NoPanic.v has Numbers, NumbersDirect and Timestamps):
   under the hypotheses of timestampsdirect_stream every observation of a whole run  OStart c :: ops ++ [OStop]  is a normal
   result - ObsRes 0 _ for an operation, a snapshot for OSnap - never code 1 (error result), 2 (panic) or 3 (no writer).
   Derived from the run invariant RelTd (TsdRun.v). *)
Require Import FL.Base.Bytes FL.Base.BytesFacts FL.Base.PathName FL.Fs.Fs FL.Fs.FsFacts FL.Time.Civil FL.Time.TsFormat
  FL.Names.FileSpec FL.Names.NamesFacts FL.Flw.Model FL.Flw.ModelFacts FL.Flw.NumFs FL.Flw.NumInv FL.Flw.Run FL.Flw.RunFacts
  FL.Flw.NumRun FL.Oracles.O_Flw FL.Flw.NumTheorems FL.Flw.NumListing FL.Flw.NumRestart FL.Flw.NumKillRestart FL.Flw.NumDTheorems
  FL.Flw.TsCal FL.Flw.TsTime FL.Flw.TsNames FL.Flw.TsInv FL.Flw.TsRun FL.Flw.TsTheorems
  FL.Flw.TsdInv FL.Flw.TsdRun FL.Flw.TsdTheorems FL.Flw.NoPanic.
From Coq Require Import ZifyN ZifyNat ZifyBool.
Open Scope nat_scope.

(* one basic operation on a state of the invariant returns normally *)
Lemma step_rel_tsd_ok c crit e lo hi n x a o :
  tsdcfg c crit -> tag_ok c -> years_ok e lo hi -> RelTd c crit e lo n x a -> basic_op o -> tick_ok o ->
  (wnow (s_w x) <= hi)%Z -> (N.of_nat (S n) <= usize_max)%N -> obs_ok (snd (step x o)).
Proof.
  intros Hcfg T Y R Hb Htk Hhi Hmax. rewrite (step_sync_rel_tsd c crit e lo n x a o Hcfg R).
  destruct o; try contradiction; cbn [sync_step].
  - destruct (write_rel_tsd c crit e lo hi n x a b Hcfg T Y R Hhi Hmax) as [s [w' [s' [rot [Es [Hp [E _]]]]]]].
    rewrite Es, Hp. rewrite (proj1 R). cbn [app]. rewrite E. reflexivity.
  - destruct (write_rel_tsd c crit e lo hi n x a b Hcfg T Y R Hhi Hmax) as [s [w' [s' [rot [Es [Hp [E _]]]]]]].
    rewrite Es, Hp, E. reflexivity.
  - destruct R as [Ht [Ha R]]. destruct a as [[closed cur]|].
    + destruct R as [keys [wr [roll [Es [Iv _]]]]]. rewrite Es. cbn [st_tsd f_poisoned].
      destruct (flush_active_tsd c e lo (s_w x) wr keys closed roll (nth (length closed) keys kd) Iv) as [w' [wr' [E _]]].
      fold (st_tsd c e (nth (length closed) keys kd) roll wr). rewrite E. reflexivity.
    + destruct R as [Es R]. rewrite Es. reflexivity.
  - destruct R as [Ht [Ha R]]. destruct a as [[closed cur]|].
    + destruct R as [keys [wr [roll [Es [Iv [V [Hn _]]]]]]]. rewrite Es. cbn [st_tsd f_poisoned f_cfg f_inner].
      assert (Hk : (N.of_nat (length keys) <= usize_max)%N) by (rewrite (td_len _ _ _ _ _ _ _ Iv); lia).
      destruct (mount_next_rotates_tsd c crit e lo hi (s_w x) wr keys closed roll true Hcfg T Y Iv Hhi Hk eq_refl)
        as [w' [wr' [roll' [E _]]]].
      rewrite E. reflexivity.
    + destruct R as [Es R]. rewrite Es. reflexivity.
  - reflexivity.
  - cbn [snd snapshot obs_ok]. exact I.
Qed.

Lemma run_ok_tsd c crit e lo hi : tsdcfg c crit -> tag_ok c -> years_ok e lo hi ->
  forall ops x a n, RelTd c crit e lo n x a -> Forall basic_op ops -> Forall tick_ok ops ->
  (wnow (s_w x) + elapsed ops <= hi)%Z -> (N.of_nat (n + length ops) <= usize_max)%N ->
  Forall obs_ok (snd (run x ops)).
Proof.
  intros Hcfg T Y. induction ops as [|o r IH]; intros x a n R Hb Htk Hhi Hmax; [constructor|].
  cbn [run]. inversion Hb as [|o' r' Ho Hr]; subst. inversion Htk as [|o' r' Hto Htr]; subst.
  cbn [elapsed length] in *. pose proof (elapsed_nonneg r Htr) as Er.
  assert (Hdt : (0 <= dt_of o)%Z) by (destruct o; cbn [dt_of tick_ok] in *; lia).
  pose proof (step_rel_tsd c crit e lo hi n x a o Hcfg T Y R Ho Hto ltac:(lia) ltac:(lia)) as S.
  pose proof (step_rel_tsd_ok c crit e lo hi n x a o Hcfg T Y R Ho Hto ltac:(lia) ltac:(lia)) as K.
  destruct (step x o) as [x1 ob].
  destruct S as [R1 [W1 _]]. specialize (IH x1 _ (S n) R1 Hr Htr ltac:(lia) ltac:(lia)). destruct (run x1 r) as [x2 obs].
  cbn [snd] in *. constructor; assumption.
Qed.

Lemma stop_ok_tsd c crit e lo n x a : tsdcfg c crit -> RelTd c crit e lo n x a -> snd (step x OStop) = ObsRes 0%N false.
Proof.
  intros Hcfg R. rewrite (step_sync_rel_tsd c crit e lo n x a OStop Hcfg R). cbn [sync_step]. destruct R as [_ [_ R]].
  destruct a as [[cl cu]|]; [destruct R as [keys [wr [roll [Es _]]]] | destruct R as [Es _]]; rewrite Es; reflexivity.
Qed.

(* THE THEOREM: hypotheses of timestampsdirect_stream *)
Theorem timestampsdirect_no_panic c crit t0 off ops :
  tsdcfg c crit -> tag_ok c -> Forall basic_op ops -> Forall tick_ok ops ->
  (0 <= t0 + ts_e c off)%Z -> (t0 + elapsed ops + ts_e c off < sec_max)%Z -> (N.of_nat (length ops) <= usize_max)%N ->
  Forall obs_ok (snd (run (sys0 t0 off) (OStart c :: ops ++ [OStop]))).
Proof.
  intros Hcfg T Hb Htk Hlo Hhi Hmax. cbn [run]. destruct (step (sys0 t0 off) (OStart c)) as [x0 ob0] eqn:E0.
  pose proof (start_rel_tsd c crit t0 off) as R0. rewrite E0 in R0. cbn [fst] in R0.
  assert (K0 : obs_ok ob0) by (cbn in E0; injection E0 as _ <-; reflexivity).
  assert (W0 : wnow (s_w x0) = t0) by (cbn in E0; injection E0 as <- _; reflexivity).
  assert (Y : years_ok (ts_e c off) t0 (t0 + elapsed ops)) by (split; assumption).
  rewrite run_app.
  pose proof (run_rel_tsd c crit _ _ _ Hcfg T Y ops x0 None 0 R0 Hb Htk ltac:(lia) ltac:(cbn [Nat.add]; exact Hmax)) as [R1 _].
  pose proof (run_ok_tsd c crit _ _ _ Hcfg T Y ops x0 None 0 R0 Hb Htk ltac:(lia) ltac:(cbn [Nat.add]; exact Hmax)) as K1.
  destruct (run x0 ops) as [x1 obs1]. cbn [fst snd] in *.
  pose proof (stop_ok_tsd c crit _ _ _ x1 _ Hcfg R1) as K2. cbn [run]. destruct (step x1 OStop) as [x2 ob2]. cbn [snd] in *.
  constructor; [exact K0|]. apply Forall_app. split; [exact K1|]. subst ob2. repeat constructor.
Qed.
Print Assumptions timestampsdirect_no_panic.

(* the shapes, position by position: ObsRes 0 _ for an operation, a snapshot for OSnap *)
Corollary timestampsdirect_no_panic_shapes c crit t0 off ops :
  tsdcfg c crit -> tag_ok c -> Forall basic_op ops -> Forall tick_ok ops ->
  (0 <= t0 + ts_e c off)%Z -> (t0 + elapsed ops + ts_e c off < sec_max)%Z -> (N.of_nat (length ops) <= usize_max)%N ->
  Forall2 obs_normal (OStart c :: ops ++ [OStop]) (snd (run (sys0 t0 off) (OStart c :: ops ++ [OStop]))).
Proof.
  intros Hcfg T Hb Htk Hlo Hhi Hmax.
  apply whole_run_shapes; [exact Hb | exact (timestampsdirect_no_panic c crit t0 off ops Hcfg T Hb Htk Hlo Hhi Hmax)].
Qed.
Print Assumptions timestampsdirect_no_panic_shapes.

(* ------------------------------------------------------------------ instances *)
(* the history of TsdTheorems.tsd_instance_dir: three rotations within one second, a tick, two more rotations, a flush, a raw
   chunk, a snapshot (six files) *)
Example timestampsdirect_no_panic_instance :
  Forall2 obs_normal (OStart tsd_c :: ext_ops ++ [OStop]) (snd (run (sys0 0 0) (OStart tsd_c :: ext_ops ++ [OStop]))).
Proof.
  apply (timestampsdirect_no_panic_shapes tsd_c (CSize 100) 0 0 ext_ops tsd_c_ok tsd_c_tag_ok ext_ops_basic ext_ops_ticks).
  - change (0 <= 0)%Z. lia.
  - change (1 < sec_max)%Z. unfold sec_max. lia.
  - vm_compute. discriminate.
Qed.

(* the observations of this history, computed: the writes and triggers report their rotations, the snapshot shows the five
   files that exist before the stop *)
Example timestampsdirect_no_panic_computed :
  List.map (fun ob => match ob with ObsRes code _ => code | ObsList code _ => code | ObsSnap _ _ _ => 0%N end)
           (snd (run (sys0 0 0) (OStart tsd_c :: ext_ops ++ [OStop])))
  = List.map (fun _ => 0%N) (OStart tsd_c :: ext_ops ++ [OStop])
  /\ Forall obs_ok (snd (run (sys0 0 0) (OStart tsd_c :: ext_ops ++ [OStop]))).
Proof. split; [vm_compute; reflexivity | vm_compute; repeat constructor]. Qed.

(* a size criterion, append, a trigger before the first record (history of TsdTheorems.tsd_partition_dir) *)
Example timestampsdirect_no_panic_instance_size :
  Forall obs_ok (snd (run (sys0 0 0) (OStart tsd_c3 :: exd_ops ++ [OStop]))).
Proof.
  apply (timestampsdirect_no_panic tsd_c3 (CSize 3) 0 0 exd_ops tsd_c3_ok tsd_c3_tag_ok exd_ops_basic exd_ops_ticks).
  - change (0 <= 0)%Z. lia.
  - change (3 < sec_max)%Z. unfold sec_max. lia.
  - vm_compute. discriminate.
Qed.
