(* THE POINT OF THE REPAIR of the cleanup (list_and_cleanup.rs: remove_or_compress_too_old_logfiles_impl(.., o_current)):
   the file that is being written is handed to the cleanup, which skips it - it is no longer protected by its POSITION in
   the listing (first limit at least 1, the file expected at index 0), which fails when the clock is set back.

   1. cleanup_spares_current: for EVERY world (fault oracle, kill counter, whatever the directory holds, whatever order the
      listing has, whatever the limits are) and cur = Some p: a file p that exists before cleanup_impl exists after it, with
      the same inode, unchanged (same content, same kind: a plain file stays plain, it is not compressed).
      Hypotheses: the file system is well-formed, and p does not end in ".gz" - that one is NECESSARY
      (Example archive_name_not_spared: remove_redundant, which runs before the loop, does not know about cur).
   2. mount_next_spares_new_file: one rotation of a writer with a direct naming, any clock.
   3. timestampsdirect_current_never_cleaned: every history of a TimestampsDirect writer with a cleanup strategy, WITHOUT
      tick_ok - the clock may be set back -: after every operation the file the writer writes to exists, is plain, and holds
      exactly what was written to it since it was opened. *)
Require Import FL.Base.Bytes FL.Base.BytesFacts FL.Base.PathName FL.Fs.Fs FL.Fs.FsFacts FL.Time.Civil FL.Time.TsFormat
  FL.Names.FileSpec FL.Names.NamesFacts FL.Names.SortFacts FL.Names.FamilyFacts FL.Flw.Model FL.Flw.ModelFacts FL.Flw.NumFs
  FL.Flw.NumInv FL.Flw.Run FL.Flw.RunFacts FL.Flw.NumRun FL.Flw.NumListing FL.Flw.CleanupFacts FL.Flw.CleanupCur
  FL.Flw.NumCleanupNames FL.Flw.NumCleanupStep FL.Flw.NumCleanupRun FL.Flw.NumDInv
  FL.Flw.TsCal FL.Flw.TsTime FL.Flw.TsMono FL.Flw.TsNames FL.Flw.TsInv FL.Flw.TsRun FL.Flw.TsTheorems FL.Flw.TsForeignFacts
  FL.Flw.ListingExact FL.Flw.GenCleanup FL.Flw.TsCleanupNames FL.Flw.NumDCleanupStep FL.Flw.TsdCleanupRun FL.Flw.TsdCleanup FL.Flw.NumRestart.
From Coq Require Import ZifyN ZifyNat ZifyBool.
Open Scope nat_scope.

(* ================================================================== 1. cleanup_impl, every world *)
(* the name p means the inode i, which holds fl; the file system is well-formed *)
Definition holds (p : bytes) (i : nat) (fl : file) (f : fs) : Prop :=
  fs_wf f /\ lookup f p = Some i /\ inode f i = fl.

(* an effect happens or not (kill counter) *)
Lemma effect_cases w g : wfs (effect w g) = g (wfs w) \/ wfs (effect w g) = wfs w.
Proof. unfold effect. destruct (kill_step w); cbn; auto. Qed.

Lemma effect_holds p i fl w g : holds p i fl (wfs w) -> (holds p i fl (wfs w) -> holds p i fl (g (wfs w))) ->
  holds p i fl (wfs (effect w g)).
Proof. intros H G. destruct (effect_cases w g) as [E|E]; rewrite E; auto. Qed.

Lemma tick_wfs' w : wfs (snd (tick w)) = wfs w.
Proof. unfold tick. destruct (wfaults w); reflexivity. Qed.

Lemma unlink_holds p i fl f n : n <> p -> holds p i fl f -> holds p i fl (unlink f n).
Proof.
  intros Hn (W & L & I). destruct (unlink_spec f n) as (UI & _ & UO).
  split; [apply wf_unlink; exact W|]. split; [rewrite UO by congruence; exact L|]. unfold inode. rewrite UI. exact I.
Qed.

Lemma p_remove_holds p i fl w n : n <> p -> holds p i fl (wfs w) -> holds p i fl (wfs (snd (p_remove w n))).
Proof.
  intros Hn H. unfold p_remove. pose proof (tick_wfs' w) as T. destruct (tick w) as [flt w1]. cbn [snd] in T.
  rewrite <- T in H. destruct flt; [exact H|]. destruct (lookup (wfs w1) n); [|exact H].
  cbn [snd]. apply effect_holds; [exact H|]. apply unlink_holds. exact Hn.
Qed.

Lemma inode_set_gz_other f ino st d j : j <> ino -> inode (set_gz f ino st d) j = inode f j.
Proof.
  intros H. unfold inode, set_gz. cbn [inodes]. destruct (Nat.lt_ge_cases ino (length (inodes f))) as [Hl|Hl].
  - rewrite nth_upd by exact Hl. destruct (Nat.eqb_spec j ino); [congruence | reflexivity].
  - rewrite nth_upd_out by exact Hl. reflexivity.
Qed.

Lemma set_gz_holds p i fl f ino st d : i <> ino -> holds p i fl f -> holds p i fl (set_gz f ino st d).
Proof.
  intros Hne (W & L & I). split; [apply wf_set_gz; exact W|]. split; [exact L|].
  rewrite inode_set_gz_other by exact Hne. exact I.
Qed.

(* opening (create, truncate) another name *)
Lemma open_trunc_holds p i fl f a gz now : a <> p -> holds p i fl f ->
  holds p i fl (fst (open_trunc f a gz now)) /\ i <> snd (open_trunc f a gz now).
Proof.
  intros Ha (W & L & I). pose proof (open_trunc_spec f a gz now W) as S.
  destruct (open_trunc f a gz now) as [f' j]. cbn [fst snd].
  destruct S as (W' & La & Hj & _ & Hlen & Lo & Io & Jnew & Jold).
  pose proof (wf_bound _ W _ _ L) as Hi.
  assert (Hij : i <> j).
  { intros <-. destruct (lookup f a) as [k|] eqn:Ea.
    - specialize (Jold k eq_refl). subst k. apply Ha. exact (wf_inj _ W _ _ _ Ea L).
    - specialize (Jnew eq_refl). lia. }
  split; [|exact Hij]. split; [exact W'|]. split; [rewrite Lo by congruence; exact L|].
  rewrite Io by assumption. exact I.
Qed.

(* compress_file of another file, whose archive name is not p *)
Lemma compress_file_holds p i fl w n : n <> p -> gz_name n <> p -> holds p i fl (wfs w) ->
  holds p i fl (wfs (snd (compress_file w n))).
Proof.
  intros Hn Hg H. unfold compress_file.
  pose proof (tick_wfs' w) as T. destruct (tick w) as [flt1 w1]. cbn [snd] in T. rewrite <- T in H. clear T.
  destruct flt1; [exact H|].
  destruct (match file_of (wfs w1) (gz_name n) with Some fl0 => fdir fl0 | None => false end); [exact H|].
  destruct (open_trunc_holds p i fl (wfs w1) (gz_name n) 2%N (wnow w1) Hg H) as [H2 Hino].
  set (ino := snd (open_trunc (wfs w1) (gz_name n) 2%N (wnow w1))) in *.
  assert (H2' : holds p i fl (wfs (effect w1 (fun f => fst (open_trunc f (gz_name n) 2%N (wnow w1)))))).
  { apply effect_holds; [exact H|]. intros _. exact H2. }
  set (w2 := effect w1 (fun f => fst (open_trunc f (gz_name n) 2%N (wnow w1)))) in *.
  assert (Dr : forall w' d, holds p i fl (wfs w') -> holds p i fl (wfs (effect w' (fun f => set_gz f ino 1%N d)))).
  { intros w' d H'. apply effect_holds; [exact H'|]. apply set_gz_holds. exact Hino. }
  pose proof (tick_wfs' w2) as T. destruct (tick w2) as [flt2 w3]. cbn [snd] in T. rewrite <- T in H2'. clear T.
  destruct flt2; [cbn [snd]; apply Dr; exact H2'|].
  destruct (lookup (wfs w3) n) as [src|]; [|cbn [snd]; apply Dr; exact H2'].
  pose proof (tick_wfs' w3) as T. destruct (tick w3) as [flt3 w4]. cbn [snd] in T. rewrite <- T in H2'. clear T.
  destruct flt3; [cbn [snd]; apply Dr; exact H2'|].
  assert (H5 : holds p i fl (wfs (effect w4 (fun f => f)))) by (apply effect_holds; auto).
  set (w5 := effect w4 (fun f => f)) in *.
  pose proof (tick_wfs' w5) as T. destruct (tick w5) as [flt4 w6]. cbn [snd] in T. rewrite <- T in H5. clear T.
  destruct flt4; [cbn [snd]; apply Dr; exact H5|].
  apply p_remove_holds; [exact Hn|]. apply Dr. exact H5.
Qed.

(* the loop: the entry equal to cur is skipped; no other entry has the archive name p *)
Lemma cleanup_loop_holds p i fl ll total : forall files w idx,
  (forall n, In n files -> gz_name n <> p) -> holds p i fl (wfs w) ->
  holds p i fl (wfs (snd (cleanup_loop w files idx ll total (Some p)))).
Proof.
  induction files as [|n r IH]; intros w idx Hg H; [exact H|].
  assert (Hr : forall m, In m r -> gz_name m <> p) by (intros m Hm; apply Hg; right; exact Hm).
  rewrite cleanup_loop_consc. unfold actc. destruct (is_cur (Some p) n) eqn:B; [apply IH; assumption|].
  assert (Hn : n <> p).
  { intros ->. unfold is_cur in B. rewrite beq_refl in B. discriminate. }
  destruct (act ll total idx n).
  - apply IH; assumption.
  - pose proof (compress_file_holds p i fl w n Hn (Hg n (or_introl eq_refl)) H) as H1.
    destruct (compress_file w n) as [ok w1]. cbn [snd] in H1. destruct ok; [apply IH; assumption | exact H1].
  - pose proof (p_remove_holds p i fl w n Hn H) as H1.
    destruct (p_remove w n) as [ok w1]. cbn [snd] in H1. destruct ok; [apply IH; assumption | exact H1].
Qed.

(* the redundant archives are removed before the loop - WITHOUT regard to cur: p must not be one of them *)
Lemma remove_redundant_holds p i fl : forall red w files, ~ In p red -> holds p i fl (wfs w) ->
  holds p i fl (wfs (snd (fst (remove_redundant w red files)))).
Proof.
  induction red as [|n r IH]; intros w files Hp H; [exact H|]. cbn [remove_redundant].
  assert (Hn : n <> p) by (intros ->; apply Hp; left; reflexivity).
  pose proof (p_remove_holds p i fl w n Hn H) as H1. destruct (p_remove w n) as [ok w1]. cbn [snd] in H1.
  destruct ok; [|exact H1]. apply IH; [|exact H1]. intros Hin. apply Hp. right; exact Hin.
Qed.

(* "the name does not end in .gz", as in the statements about the listing (Properties/C07.v) *)
Lemma no_gz_not_archive_name p n : strip_suffix (dot :: gz_sfx) p = None -> gz_name n <> p.
Proof. intros H E. rewrite <- E, gz_name_app in H. unfold dot_gz in H. rewrite strip_suffix_app in H. discriminate. Qed.
Lemma no_gz_not_redundant p files : strip_suffix (dot :: gz_sfx) p = None -> ~ In p (redundant_gz files).
Proof.
  intros H Hin. unfold redundant_gz in Hin. apply filter_In in Hin. destruct Hin as [_ Hb].
  apply andb_prop in Hb. destruct Hb as [Hb _]. apply ext_is_gz_suffix in Hb. destruct Hb as [st E].
  rewrite E in H. unfold dot_gz in H. rewrite strip_suffix_app in H. discriminate.
Qed.

(* THE THEOREM.  No hypothesis about the clock, the order or the content of the listing, the limits, the fault oracle or
   the kill counter; nothing about the result either (Ok, Err or Panic).  same inode, same file: the content is the same,
   and so is the kind - a plain file is not compressed *)
Theorem cleanup_spares_current c w k flt p i r w' :
  fs_wf (wfs w) -> strip_suffix (dot :: gz_sfx) p = None ->
  lookup (wfs w) p = Some i ->
  cleanup_impl c w k flt (Some p) = (r, w') ->
  fs_wf (wfs w') /\ lookup (wfs w') p = Some i /\ inode (wfs w') i = inode (wfs w) i.
Proof.
  intros W Hp L E.
  assert (H : holds p i (inode (wfs w) i) (wfs w)) by (split; [exact W | split; [exact L | reflexivity]]).
  enough (X : holds p i (inode (wfs w) i) (wfs (snd (cleanup_impl c w k flt (Some p))))) by (rewrite E in X; exact X).
  clear E. generalize dependent (inode (wfs w) i). intros fl0 H. unfold cleanup_impl.
  assert (G : forall ll cl, holds p i fl0 (wfs (snd
    (let '(fl, w1) := tick w in
     if fl then (@Err unit, w1) else
     match list_log_gz (woff w1) (c_spec c) (fixed_of c w1) (wfs w1) flt with
     | None => (Panic, w1)
     | Some files =>
       let '(ok0, w1', files') := remove_redundant w1 (redundant_gz files) files in
       if negb ok0 then (Err, w1') else
       let '(ok, w2) := cleanup_loop w1' files' 0 ll (ll + cl) (Some p) in
       ((if ok then Ok tt else Err), w2)
     end)))).
  { intros ll cl. pose proof (tick_wfs' w) as T. destruct (tick w) as [fl w1]. cbn [snd] in T. rewrite <- T in H.
    destruct fl; [exact H|].
    destruct (list_log_gz (woff w1) (c_spec c) (fixed_of c w1) (wfs w1) flt) as [files|]; [|exact H].
    pose proof (remove_redundant_holds p i _ (redundant_gz files) w1 files (no_gz_not_redundant p files Hp) H) as H1.
    destruct (remove_redundant w1 (redundant_gz files) files) as [[ok0 w1'] files']. cbn [fst snd] in H1.
    destruct ok0; cbn [negb]; [|exact H1].
    pose proof (cleanup_loop_holds p i _ ll (ll + cl) files' w1' 0 (fun n _ => no_gz_not_archive_name p n Hp) H1) as H2.
    destruct (cleanup_loop w1' files' 0 ll (ll + cl) (Some p)) as [ok w2]. exact H2. }
  destruct k as [|a|b|a b]; [exact H | apply G | apply G | apply G].
Qed.
Print Assumptions cleanup_spares_current.

(* in the words of the task: a plain file stays a plain file with the same content *)
Corollary cleanup_spares_current_plain c w k flt p i r w' :
  fs_wf (wfs w) -> strip_suffix (dot :: gz_sfx) p = None ->
  lookup (wfs w) p = Some i -> plain (inode (wfs w) i) ->
  cleanup_impl c w k flt (Some p) = (r, w') ->
  lookup (wfs w') p = Some i /\ plain (inode (wfs w') i) /\ content (wfs w') i = content (wfs w) i.
Proof.
  intros W Hp L P E. destruct (cleanup_spares_current c w k flt p i r w' W Hp L E) as (_ & L' & I').
  split; [exact L'|]. unfold content. rewrite I'. split; [exact P | reflexivity].
Qed.

(* the same through cleanup_or_queue (the request to the cleanup thread carries cur) *)
Theorem cleanup_or_queue_spares_current c w bg k flt p i r w' :
  fs_wf (wfs w) -> strip_suffix (dot :: gz_sfx) p = None ->
  lookup (wfs w) p = Some i ->
  cleanup_or_queue c w bg k flt (Some p) = (r, w') ->
  fs_wf (wfs w') /\ lookup (wfs w') p = Some i /\ inode (wfs w') i = inode (wfs w) i.
Proof.
  intros W Hp L. unfold cleanup_or_queue.
  destruct bg; [|apply cleanup_spares_current; assumption].
  assert (G : forall K, (if Nat.eqb (wacts w) 1 then (Ok tt, w) else
                         match cleanup_impl c w K flt (Some p) with
                         | (Panic, w1) => (Ok tt, set_acts w1 1)
                         | (_, w1) => (Ok tt, w1)
                         end) = (r, w') ->
                        fs_wf (wfs w') /\ lookup (wfs w') p = Some i /\ inode (wfs w') i = inode (wfs w) i).
  { intros K. destruct (Nat.eqb (wacts w) 1); [intros E; injection E as _ <-; auto|].
    destruct (cleanup_impl c w K flt (Some p)) as [rc w1] eqn:EC.
    destruct (cleanup_spares_current c w K flt p i rc w1 W Hp L EC) as (W1 & L1 & I1).
    destruct rc; intros E; injection E as _ <-; cbn [set_acts wfs]; auto. }
  destruct k as [|a|b|a b]; [intros E; injection E as _ <-; auto | apply G | apply G | apply G].
Qed.

(* ================================================================== 2. one rotation *)
(* ---- without faults and kills, whatever the result: the environment stays ---- *)
Definition env2 (w w' : world) : Prop := quiet w' /\ wnow w' = wnow w /\ woff w' = woff w.
Lemma env2_refl w : quiet w -> env2 w w.
Proof. intros Q. split; [exact Q | split; reflexivity]. Qed.
Lemma env2_trans a b c : env2 a b -> env2 b c -> env2 a c.
Proof. intros (Q1 & A1 & B1) (Q2 & A2 & B2). split; [exact Q2 | split; congruence]. Qed.
Lemma same_env_env2 w w' : same_env w w' -> env2 w w'.
Proof. intros (Q & A & B & _). split; [exact Q | split; assumption]. Qed.
Lemma effect_env2 w g : quiet w -> env2 w (effect w g).
Proof. intros Q. apply same_env_env2. apply effect_quiet. exact Q. Qed.
Lemma report_env2 e w : quiet w -> env2 w (report e w) /\ wfs (report e w) = wfs w.
Proof. intros [F K]. unfold report. rewrite K. cbn. repeat split; auto. Qed.

Lemma p_remove_env2 w n : quiet w -> env2 w (snd (p_remove w n)).
Proof.
  intros Q. unfold p_remove. rewrite tick_quiet by exact Q.
  destruct (lookup (wfs w) n); cbn [snd]; [apply effect_env2; exact Q | apply env2_refl; exact Q].
Qed.

Lemma compress_file_env2 w n : quiet w -> env2 w (snd (compress_file w n)).
Proof.
  intros Q. unfold compress_file. rewrite tick_quiet by exact Q. cbv beta iota zeta.
  destruct (match file_of (wfs w) (gz_name n) with Some fl => fdir fl | None => false end); [apply env2_refl; exact Q|].
  pose proof (effect_env2 w (fun f => fst (open_trunc f (gz_name n) 2%N (wnow w))) Q) as E2.
  set (w2 := effect w (fun f => fst (open_trunc f (gz_name n) 2%N (wnow w)))) in *.
  pose proof (proj1 E2) as Q2. rewrite (tick_quiet w2 Q2). cbv beta iota zeta.
  set (ino := snd (open_trunc (wfs w) (gz_name n) 2%N (wnow w))).
  assert (Dr : forall w' d, env2 w w' -> env2 w (effect w' (fun f => set_gz f ino 1%N d))).
  { intros w' d E. eapply env2_trans; [exact E | apply effect_env2; apply E]. }
  destruct (lookup (wfs w2) n) as [src|]; [|cbn [snd]; apply Dr; exact E2].
  rewrite (tick_quiet w2 Q2). cbv beta iota zeta.
  assert (E5 : env2 w (effect w2 (fun f => f))) by (eapply env2_trans; [exact E2 | apply effect_env2; exact Q2]).
  set (w5 := effect w2 (fun f => f)) in *. rewrite (tick_quiet w5 (proj1 E5)). cbv beta iota zeta.
  pose proof (Dr w5 (content (wfs w2) src) E5) as E7.
  eapply env2_trans; [exact E7 | apply p_remove_env2; apply E7].
Qed.

Lemma cleanup_loop_env2 ll total cur : forall files w idx, quiet w -> env2 w (snd (cleanup_loop w files idx ll total cur)).
Proof.
  induction files as [|n r IH]; intros w idx Q; [apply env2_refl; exact Q|].
  rewrite cleanup_loop_consc. destruct (actc cur ll total idx n).
  - apply IH. exact Q.
  - pose proof (compress_file_env2 w n Q) as E1. destruct (compress_file w n) as [ok w1]. cbn [snd] in E1.
    destruct ok; [|exact E1]. eapply env2_trans; [exact E1 | apply IH; apply E1].
  - pose proof (p_remove_env2 w n Q) as E1. destruct (p_remove w n) as [ok w1]. cbn [snd] in E1.
    destruct ok; [|exact E1]. eapply env2_trans; [exact E1 | apply IH; apply E1].
Qed.

Lemma remove_redundant_env2 : forall red w files, quiet w -> env2 w (snd (fst (remove_redundant w red files))).
Proof.
  induction red as [|n r IH]; intros w files Q; [apply env2_refl; exact Q|]. cbn [remove_redundant].
  pose proof (p_remove_env2 w n Q) as E1. destruct (p_remove w n) as [ok w1]. cbn [snd] in E1.
  destruct ok; [|exact E1]. eapply env2_trans; [exact E1 | apply IH; apply E1].
Qed.

Lemma cleanup_impl_env2 c w k flt cur : quiet w -> env2 w (snd (cleanup_impl c w k flt cur)).
Proof.
  intros Q. unfold cleanup_impl.
  assert (G : forall ll cl, env2 w (snd
    (let '(fl, w1) := tick w in
     if fl then (@Err unit, w1) else
     match list_log_gz (woff w1) (c_spec c) (fixed_of c w1) (wfs w1) flt with
     | None => (Panic, w1)
     | Some files =>
       let '(ok0, w1', files') := remove_redundant w1 (redundant_gz files) files in
       if negb ok0 then (Err, w1') else
       let '(ok, w2) := cleanup_loop w1' files' 0 ll (ll + cl) cur in
       ((if ok then Ok tt else Err), w2)
     end))).
  { intros ll cl. rewrite tick_quiet by exact Q.
    destruct (list_log_gz (woff w) (c_spec c) (fixed_of c w) (wfs w) flt) as [files|]; [|apply env2_refl; exact Q].
    pose proof (remove_redundant_env2 (redundant_gz files) w files Q) as E1.
    destruct (remove_redundant w (redundant_gz files) files) as [[ok0 w1'] files']. cbn [fst snd] in E1.
    destruct ok0; cbn [negb]; [|exact E1].
    pose proof (cleanup_loop_env2 ll (ll + cl) cur files' w1' 0 (proj1 E1)) as E2.
    destruct (cleanup_loop w1' files' 0 ll (ll + cl) cur) as [ok w2]. cbn [snd] in *. eapply env2_trans; eassumption. }
  destruct k as [|a|b|a b]; [apply env2_refl; exact Q | apply G | apply G | apply G].
Qed.

(* ---- the name that collision_free_infix answers with does not exist (as a file) ---- *)
Lemma infix_of_restart e ts k : infix_of e (ts, S (N.to_nat k)) = tsx e ts ++ restart_tag ++ pad_left 4 48%N (dec k).
Proof. unfold infix_of. cbn [fst snd]. rewrite N2Nat.id. reflexivity. Qed.

Theorem collision_free_infix_fresh c e off f ts i :
  tag_ok c -> in_years e ts ->
  collision_free_infix off (c_spec c) (fixed0 c) f (tsx e ts) = Some (Some i) ->
  exists m, i = infix_of e (ts, m) /\ is_reg_file f (kname c e (ts, m)) = false.
Proof.
  intros T Hts. unfold collision_free_infix. rewrite !filter_files_total.
  set (rel := related_files f (fsfx (c_spec c)) (fixed0 c)).
  set (unc := filter (qf off (fsfx (c_spec c)) (fixed0 c) (IFEq (tsx e ts)) (fsfx (c_spec c))) rel).
  set (cmp := filter (qf off (fsfx (c_spec c)) (fixed0 c) (IFEq (tsx e ts)) (Some gz_sfx)) rel).
  set (sibs := filter (fun x => contains (tsx e ts ++ restart_tag) x) (unc ++ cmp)).
  (* a regular file with a restart counter is a sibling, and its counter is found *)
  assert (Sib : forall m, (N.of_nat m <= usize_max)%N -> is_reg_file f (kname c e (ts, S m)) = true ->
                In (N.of_nat m) (filter_map_opt (restart_number (tsx e ts)) sibs)).
  { intros m Hm Hr. apply filter_map_opt_in. exists (kname c e (ts, S m)). split.
    - apply filter_In. split; [|apply kname_restart_contains; [apply T | exact Hts]].
      apply in_or_app. left. apply filter_In. split; [|apply qf_eq_lower; exact Hts].
      apply related_files_in. split; [|split; [exact Hr|]].
      + apply dir_names_lookup. unfold is_reg_file, file_of in Hr.
        destruct (lookup f (kname c e (ts, S m))) as [j|]; [eauto | discriminate].
      + rewrite kname_shape by exact Hts. apply is_prefix_under.
    - apply restart_number_kname; [apply T | exact Hts | exact Hm]. }
  cbv zeta.
  match goal with |- (if ?B then _ else _) = _ -> _ => destruct B eqn:EB end.
  - pose proof (max_opt_spec (filter_map_opt (restart_number (tsx e ts)) sibs)) as MS.
    destruct (max_opt (filter_map_opt (restart_number (tsx e ts)) sibs)) as [k|].
    + destruct (N.ltb_spec k usize_max) as [Hk|Hk]; [|discriminate]. intros H. injection H as <-.
      exists (S (N.to_nat (k + 1))). split; [symmetry; apply infix_of_restart|].
      destruct (is_reg_file f (kname c e (ts, S (N.to_nat (k + 1))))) eqn:Er; [exfalso | reflexivity].
      apply Sib in Er; [|lia]. rewrite N2Nat.id in Er. destruct MS as [_ MS]. specialize (MS _ Er). lia.
    + intros H. injection H as <-. exists 1. split; [symmetry; exact (infix_of_restart e ts 0%N)|].
      destruct (is_reg_file f (kname c e (ts, 1))) eqn:Er; [exfalso | reflexivity].
      apply (Sib 0) in Er; [|vm_compute; discriminate]. rewrite MS in Er. exact Er.
  - intros H. injection H as <-. exists 0. split; [reflexivity|].
    apply orb_false_iff in EB. destruct EB as [EB _]. apply orb_false_iff in EB. destruct EB as [EB _].
    change (as_name (c_spec c) (fixed0 c) (Some (tsx e ts))) with (kname c e (ts, 0)) in EB.
    unfold is_reg_file, file_of. destruct (lookup f (kname c e (ts, 0))); [discriminate | reflexivity].
Qed.
Print Assumptions collision_free_infix_fresh.

(* ---- the file of the writer ---- *)
(* the writer wr writes to the file named path: it exists under this name with the inode of the writer, it is plain, and
   with what the writer still buffers it holds g; the name does not end in .gz *)
Record CurF (c : config) (w : world) (wr : writer) (path : bytes) (g : bytes) : Prop := {
  cf_nogz : strip_suffix (dot :: gz_sfx) path = None;
  cf_cur : lookup (wfs w) path = Some (wino wr);
  cf_plain : plain (inode (wfs w) (wino wr));
  cf_data : cur_view w wr = g;
  cf_wr : wr_ok wr;
  cf_cap : wcap wr = c_cap c }.

Lemma eoff_env2 c w w' : env2 w w' -> eoff c w' = eoff c w.
Proof. intros (_ & _ & H). unfold eoff. rewrite H. reflexivity. Qed.

Lemma curf_same_fs c w w' wr path g : wfs w' = wfs w -> CurF c w wr path g -> CurF c w' wr path g.
Proof. intros F [A B C D E G]. constructor; auto; unfold cur_view in *; rewrite F; assumption. Qed.

Lemma p_open_dir_quiet w name app j : quiet w -> lookup (wfs w) name = Some j -> fdir (inode (wfs w) j) = true ->
  p_open w name app = (None, w).
Proof. intros Q L D. unfold p_open. rewrite tick_quiet by exact Q. unfold file_of. rewrite L, D. reflexivity. Qed.

(* THE ROTATION of a writer with TimestampsDirect naming and a cleanup strategy, at ANY time of the clock (it may have been set
   back: nothing is assumed about the time stamps of the files in the directory), whatever the result is (Ok, Err, Panic):
   - either the writer keeps its file (no rotation was necessary, or the rotation failed before the new file was opened):
     nothing has happened to the file;
   - or the writer has a NEW file, under a name that did not exist: after the cleanup - which ran with this file in its
     listing, at whatever position - the file exists, is plain and empty. *)
Theorem mount_next_spares_new_file c crit k e w rs wr path force g r w' st' :
  tsdkcfg c crit k -> tag_ok c -> sfx_ok (c_spec c) -> in_years e (wnow w) ->
  quiet w -> fs_wf (wfs w) -> eoff c w = e ->
  (exists ts, rs_naming rs = NSTs ts None std_fmt) -> rs_cleanup rs = k -> rs_bg rs = false ->
  CurF c w wr path g ->
  mount_next c w (Active (Some rs) wr path) force = (r, w', st') ->
  env2 w w' /\ fs_wf (wfs w') /\
  exists rs' wr' path', st' = Active (Some rs') wr' path'
    /\ (exists ts, rs_naming rs' = NSTs ts None std_fmt) /\ rs_cleanup rs' = k /\ rs_bg rs' = false
    /\ ((wr' = wr /\ path' = path /\ CurF c w' wr path g)
        \/ (path' <> path /\ lookup (wfs w) path' = None /\ CurF c w' wr' path' [])).
Proof.
  intros Hcfg T Hsfx Y Q W Hoff [ts Ens] Ek Eb F. pose proof Hcfg as (Hrot & Hts & Hlink & Has & Hbg).
  destruct rs as [ns roll kc bg]. cbn [rs_naming rs_cleanup rs_bg] in Ens, Ek, Eb. subst ns kc bg.
  unfold mount_next. cbn [rs_naming rs_roll rs_cleanup rs_bg].
  (* the writer keeps its file, the world is w *)
  assert (Keep : forall ns', (exists ts', ns' = NSTs ts' None std_fmt) ->
    env2 w w /\ fs_wf (wfs w) /\
    exists rs' wr' path',
      Active (Some {| rs_naming := ns'; rs_roll := roll; rs_cleanup := k; rs_bg := false |}) wr path = Active (Some rs') wr' path'
      /\ (exists ts0, rs_naming rs' = NSTs ts0 None std_fmt) /\ rs_cleanup rs' = k /\ rs_bg rs' = false
      /\ ((wr' = wr /\ path' = path /\ CurF c w wr path g)
          \/ (path' <> path /\ lookup (wfs w) path' = None /\ CurF c w wr' path' []))).
  { intros ns' [ts' ->]. split; [apply env2_refl; exact Q|]. split; [exact W|].
    eexists _, wr, path. split; [reflexivity|]. cbn [rs_naming rs_cleanup rs_bg].
    split; [eauto|]. split; [reflexivity|]. split; [reflexivity|]. left. auto. }
  destruct (force || rotation_necessary w roll).
  2:{ intros E. injection E as <- <- <-. apply Keep. eauto. }
  unfold collision_free. rewrite !tick_quiet by exact Q.
  rewrite (TsInv.fixed_of_fixed0 c w Hts), infix_from_ts_tsx, Hoff.
  destruct (collision_free_infix (woff w) (c_spec c) (fixed0 c) (wfs w) (tsx e (wnow w))) as [[i|]|] eqn:CF.
  2:{ intros E. injection E as <- <- <-. apply Keep. eauto. }
  2:{ intros E. injection E as <- <- <-. apply Keep. eauto. }
  destruct (collision_free_infix_fresh c e (woff w) (wfs w) (wnow w) i T Y CF) as (m & -> & Hreg).
  set (kn := (wnow w, m)) in *.
  assert (Yk : in_years e (fst kn)) by exact Y.
  unfold open_log_file. rewrite (name_of_fixed c w) by exact Hts.
  change (as_name (c_spec c) (fixed0 c) (Some (infix_of e kn))) with (kname c e kn).
  destruct (lookup (wfs w) (kname c e kn)) as [j|] eqn:Lk.
  - (* a directory of that name: the file cannot be opened *)
    assert (D : fdir (inode (wfs w) j) = true).
    { unfold is_reg_file, file_of in Hreg. rewrite Lk in Hreg. destruct (fdir (inode (wfs w) j)); [reflexivity | discriminate]. }
    unfold do_symlink. rewrite Hlink. rewrite (p_open_dir_quiet w _ _ j Q Lk D).
    intros E. injection E as <- <- <-. apply Keep. eauto.
  - destruct (open_fresh_quiet c w (kname c e kn) Q Hlink Lk) as [w2 [Eop [F2 S2]]]. rewrite Eop.
    unfold w_drop. destruct (w_flush_quiet w2 wr (proj1 S2)) as [w3 [Efl [F3 S3]]]. rewrite Efl. cbn [fst snd].
    change (w_flush w3 {| wino := wino wr; wpend := []; wcap := wcap wr |})
      with (true, w3, {| wino := wino wr; wpend := []; wcap := wcap wr |}). cbn [fst snd].
    unfold cleanup_or_queue. cbn [ns_filter ns_writes_direct].
    destruct F as [Fng Fc Fp Fd Fw Fcap].
    pose proof (wf_bound _ W _ _ Fc) as Hold.
    pose proof (direct_fs_spec (wfs w) (kname c e kn) (wino wr) (wpend wr) (wnow w) W Hold Lk) as R.
    cbn zeta in R. destruct R as (W3 & Hnew & L3t & L3o & Inew & Iold & Ioth).
    set (new := snd (create_file (wfs w) (kname c e kn) 0%N (wnow w))) in *.
    assert (F3' : wfs w3 = append_ino (fst (create_file (wfs w) (kname c e kn) 0%N (wnow w))) (wino wr) (wpend wr))
      by (rewrite F3, F2; reflexivity).
    rewrite <- F3' in W3, L3t, L3o, Inew, Iold, Ioth.
    assert (E3 : env2 w w3) by (apply same_env_env2; eapply same_env_trans; eassumption).
    pose proof (kname_no_gz c e kn Hsfx Yk) as Hng.
    destruct (cleanup_impl c w3 k (IFTs std_fmt) (Some (kname c e kn))) as [rc w4] eqn:EC.
    destruct (cleanup_spares_current c w3 k (IFTs std_fmt) (kname c e kn) new rc w4 W3 Hng L3t EC) as (W4 & L4 & I4).
    pose proof (cleanup_impl_env2 c w3 k (IFTs std_fmt) (Some (kname c e kn)) (proj1 E3)) as E4. rewrite EC in E4. cbn [snd] in E4.
    intros E. injection E as <- <- <-.
    split; [eapply env2_trans; eassumption|]. split; [exact W4|].
    eexists _, {| wino := new; wpend := []; wcap := c_cap c |}, (kname c e kn). split; [reflexivity|].
    cbn [rs_naming rs_cleanup rs_bg]. split; [eauto|]. split; [reflexivity|]. split; [reflexivity|].
    right. split; [intros X; rewrite X in Lk; congruence|]. split; [exact Lk|].
    constructor; cbn [wino wpend wcap].
    + exact Hng.
    + exact L4.
    + rewrite I4, Inew. split; reflexivity.
    + unfold cur_view, content. cbn [wino wpend]. rewrite I4, Inew. reflexivity.
    + unfold wr_ok. cbn [wcap wpend]. destruct (c_cap c); [cbn; lia | reflexivity].
    + reflexivity.
Qed.
Print Assumptions mount_next_spares_new_file.

(* ================================================================== 3. every history, any clock *)
(* the file of the writer: its name and its inode *)
Definition wfile (st : inner) : option (bytes * nat) :=
  match st with Active _ wr path => Some (path, wino wr) | Initial => None end.
Definition writer_file (x : sys) : option (bytes * nat) :=
  match s_flw x with Some s => wfile (f_inner s) | None => None end.
Definition same_file (a b : option (bytes * nat)) : bool :=
  match a, b with Some (p, i), Some (q, j) => beq p q && Nat.eqb i j | _, _ => false end.

Lemma same_file_refl p i : same_file (Some (p, i)) (Some (p, i)) = true.
Proof. cbn [same_file]. rewrite beq_refl, Nat.eqb_refl. reflexivity. Qed.
Lemma same_file_other p i q j : q <> p -> same_file (Some (p, i)) (Some (q, j)) = false.
Proof. intros H. cbn [same_file]. rewrite beq_neq by congruence. reflexivity. Qed.

(* the state of a TimestampsDirect writer with the strategy k: it has no file yet (and the directory is empty), or its file
   satisfies CurF with g *)
Definition InnerInv (c : config) (k : cleanup) (w : world) (st : inner) (g : bytes) : Prop :=
  match st with
  | Initial => names (wfs w) = [] /\ inodes (wfs w) = [] /\ g = []
  | Active (Some rs) wr path =>
    (exists ts, rs_naming rs = NSTs ts None std_fmt) /\ rs_cleanup rs = k /\ rs_bg rs = false /\ CurF c w wr path g
  | Active None _ _ => False
  end.

Lemma innerinv_same_fs c k w w' st g : wfs w' = wfs w -> InnerInv c k w st g -> InnerInv c k w' st g.
Proof.
  intros F. destruct st as [|[rs|] wr path]; cbn [InnerInv]; [rewrite F; auto | | auto].
  intros (A & B & C & D). split; [exact A|]. split; [exact B|]. split; [exact C|]. eapply curf_same_fs; eassumption.
Qed.

(* appending to the file of the writer *)
Lemma curf_append c w w' wr wr' path g x flushed :
  fs_wf (wfs w) -> CurF c w wr path g -> wfs w' = append_ino (wfs w) (wino wr) flushed ->
  wino wr' = wino wr -> wcap wr' = wcap wr -> flushed ++ wpend wr' = wpend wr ++ x -> wr_ok wr' ->
  CurF c w' wr' path (g ++ x).
Proof.
  intros W [Fng Fc Fp Fd Fw Fcap] F Ei Ec Ef Hok. pose proof (wf_bound _ W _ _ Fc) as Hold.
  constructor.
  - exact Fng.
  - rewrite F, lookup_append, Ei. exact Fc.
  - rewrite F, Ei, inode_append, Nat.eqb_refl by exact Hold. exact Fp.
  - unfold cur_view in *. rewrite F, Ei, content_append, Nat.eqb_refl by exact Hold.
    rewrite <- app_assoc, Ef, app_assoc, Fd. reflexivity.
  - exact Hok.
  - congruence.
Qed.

(* a write, from a state with a file: the rotation check, then the record goes to the file the writer has then *)
Lemma write_active_cur c crit k e s w rs wr path g b r w1 s1 rot :
  tsdkcfg c crit k -> tag_ok c -> sfx_ok (c_spec c) -> in_years e (wnow w) ->
  quiet w -> fs_wf (wfs w) -> eoff c w = e ->
  f_cfg s = c -> f_inner s = Active (Some rs) wr path -> InnerInv c k w (f_inner s) g ->
  write_buffer s w b = (r, w1, s1, rot) ->
  env2 w w1 /\ fs_wf (wfs w1) /\ f_cfg s1 = c /\ r <> Err
  /\ f_poisoned s1 = (match r with Panic => true | _ => f_poisoned s end)
  /\ InnerInv c k w1 (f_inner s1)
       (let acc := match r with Ok _ => b | _ => [] end in
        if same_file (wfile (f_inner s)) (wfile (f_inner s1)) then g ++ acc else acc).
Proof.
  intros Hcfg T Hsfx Y Q W Hoff Ec Ei I. unfold write_buffer. rewrite Ei, Ec. rewrite Ei in I. cbn [InnerInv] in I.
  destruct I as (Ens & Ek & Eb & F).
  destruct (mount_next c w (Active (Some rs) wr path) false) as [[r1 wm] st1] eqn:EM.
  destruct (mount_next_spares_new_file c crit k e w rs wr path false g r1 wm st1 Hcfg T Hsfx Y Q W Hoff Ens Ek Eb F EM)
    as (E1 & W1 & rs' & wr' & path' & -> & Ens' & Ek' & Eb' & D).
  cbn [wfile].
  assert (G1 : exists g1, CurF c wm wr' path' g1
               /\ forall wr'', wino wr'' = wino wr' ->
                    forall acc, (if same_file (Some (path, wino wr)) (Some (path', wino wr'')) then g ++ acc else acc) = g1 ++ acc).
  { destruct D as [(-> & -> & F1)|(Hne & _ & F1)].
    - exists g. split; [exact F1|]. intros wr'' -> acc. rewrite same_file_refl. reflexivity.
    - exists []. split; [exact F1|]. intros wr'' _ acc. rewrite same_file_other by exact Hne. reflexivity. }
  destruct G1 as (g1 & F1 & SF).
  destruct r1 as [[]| |].
  - (* the rotation check succeeded *)
    destruct (w_write_quiet wm wr' b (proj1 E1) (cf_wr _ _ _ _ _ F1)) as (w3 & wr'' & fl & EW & S3 & F3 & Ei3 & Ec3 & Ef3 & Hok3).
    rewrite EW. intros E. injection E as <- <- <- _. cbn [f_cfg f_inner f_poisoned with_inner wfile].
    split; [eapply env2_trans; [exact E1 | apply same_env_env2; exact S3]|].
    split; [rewrite F3; apply wf_append; exact W1|]. split; [exact Ec|]. split; [discriminate|]. split; [reflexivity|].
    cbn [InnerInv rs_naming rs_cleanup rs_bg]. split; [exact Ens'|]. split; [exact Ek'|]. split; [exact Eb'|].
    cbv beta iota zeta.
    match goal with |- CurF _ _ _ _ ?X => assert (EX : X = g1 ++ b) by (apply SF; exact Ei3); rewrite EX end.
    eapply curf_append; eassumption.
  - (* the rotation failed: reported, the record goes to the file the writer has *)
    destruct (report_env2 ELogFile wm (proj1 E1)) as [Er Fr].
    assert (F1r : CurF c (report ELogFile wm) wr' path' g1) by (eapply curf_same_fs; eassumption).
    assert (W1r : fs_wf (wfs (report ELogFile wm))) by (rewrite Fr; exact W1).
    destruct (w_write_quiet (report ELogFile wm) wr' b (proj1 Er) (cf_wr _ _ _ _ _ F1r)) as (w3 & wr'' & fl & EW & S3 & F3 & Ei3 & Ec3 & Ef3 & Hok3).
    rewrite EW. intros E. injection E as <- <- <- _. cbn [f_cfg f_inner f_poisoned with_inner wfile].
    split; [eapply env2_trans; [exact E1 | eapply env2_trans; [exact Er | apply same_env_env2; exact S3]]|].
    split; [rewrite F3; apply wf_append; exact W1r|]. split; [exact Ec|]. split; [discriminate|]. split; [reflexivity|].
    cbn [InnerInv rs_naming rs_cleanup rs_bg]. split; [exact Ens'|]. split; [exact Ek'|]. split; [exact Eb'|].
    cbv beta iota zeta.
    match goal with |- CurF _ _ _ _ ?X => assert (EX : X = g1 ++ b) by (apply SF; exact Ei3); rewrite EX end.
    eapply curf_append; eassumption.
  - (* panic: the state is poisoned, nothing is written *)
    intros E. injection E as <- <- <- _. cbn [f_cfg f_inner f_poisoned with_inner poison wfile].
    split; [exact E1|]. split; [exact W1|]. split; [exact Ec|]. split; [discriminate|]. split; [reflexivity|].
    cbn [InnerInv rs_naming rs_cleanup rs_bg]. split; [exact Ens'|]. split; [exact Ek'|]. split; [exact Eb'|].
    cbv beta iota zeta.
    match goal with |- CurF _ _ _ _ ?X => assert (EX : X = g1 ++ []) by (apply SF; reflexivity); rewrite EX end.
    rewrite app_nil_r. exact F1.
Qed.

(* a write from any state: the first write opens the first file in the empty directory (initialize_empty_tk) *)
Lemma write_buffer_cur c crit k e s w g b r w1 s1 rot :
  tsdkcfg c crit k -> tag_ok c -> sfx_ok (c_spec c) -> in_years e (wnow w) ->
  quiet w -> fs_wf (wfs w) -> eoff c w = e ->
  f_cfg s = c -> f_poisoned s = false -> InnerInv c k w (f_inner s) g ->
  write_buffer s w b = (r, w1, s1, rot) ->
  env2 w w1 /\ fs_wf (wfs w1) /\ f_cfg s1 = c /\ r <> Err
  /\ f_poisoned s1 = (match r with Panic => true | _ => false end)
  /\ InnerInv c k w1 (f_inner s1)
       (let acc := match r with Ok _ => b | _ => [] end in
        if same_file (wfile (f_inner s)) (wfile (f_inner s1)) then g ++ acc else acc).
Proof.
  intros Hcfg T Hsfx Y Q W Hoff Ec Hp I EWB.
  destruct (f_inner s) as [|[rs|] wr path] eqn:Ei; cbn [InnerInv] in I; [| |contradiction].
  - (* the first write *)
    destruct I as (Hn & Hi & ->).
    assert (Es : s = new_flw c) by (destruct s; cbn in *; subst; reflexivity). subst s.
    assert (Yy : years_ok e (wnow w) (wnow w)) by (unfold years_ok, in_years in *; lia).
    destruct (initialize_empty_tk c crit k e (wnow w) (wnow w) w Hcfg Hsfx Yy (Z.le_refl _) Q Hn Hi Hoff (Z.le_refl _))
      as (w0 & wr & roll & Einit & I0 & V0 & _ & S0 & _).
    rewrite (write_buffer_init c w b _ _ _ w0 Einit) in EWB.
    pose proof I0 as [Q0 W0 Hoff0 _ Hc0 Hcp0 _ _ _ _ _ Hwr0 Hcap0].
    change (tname c e [(wnow w, 0)] (length (@nil bytes))) with (kname c e (wnow w, 0)) in Hc0.
    assert (Y0 : in_years e (wnow w0)) by (rewrite (same_env_now _ _ S0); exact Y).
    match type of EWB with write_buffer ?S0 _ _ = _ => set (s0 := S0) in * end.
    assert (I0' : InnerInv c k w0 (f_inner s0) []).
    { cbn [s0 f_inner InnerInv mk_rsk rs_naming rs_cleanup rs_bg]. split; [eauto|]. split; [reflexivity|].
      split; [reflexivity|]. constructor; auto. apply (kname_no_gz c e (wnow w, 0) Hsfx). exact Y. }
    destruct (write_active_cur c crit k e s0 w0 _ wr _ [] b r w1 s1 rot Hcfg T Hsfx Y0 Q0 W0 Hoff0 eq_refl eq_refl I0' EWB)
      as (E1 & W1 & Ec1 & Hr & Hp1 & I1).
    split; [eapply env2_trans; [apply same_env_env2; exact S0 | exact E1]|]. split; [exact W1|]. split; [exact Ec1|].
    split; [exact Hr|]. split; [rewrite Hp1; destruct r; reflexivity|].
    cbn [wfile same_file]. cbv zeta in I1 |- *. destruct (same_file (wfile (f_inner s0)) (wfile (f_inner s1))); exact I1.
  - (* a later write *)
    assert (I' : InnerInv c k w (f_inner s) g) by (rewrite Ei; exact I).
    destruct (write_active_cur c crit k e s w rs wr path g b r w1 s1 rot Hcfg T Hsfx Y Q W Hoff Ec Ei I' EWB)
      as (E1 & W1 & Ec1 & Hr & Hp1 & I1).
    rewrite Ei in I1. rewrite Hp in Hp1. auto 10.
Qed.

(* ---- the history ---- *)
(* what an operation hands to the writer: the bytes of a record or chunk that is accepted *)
Definition accepted (o : op) (ob : obs) : bytes :=
  match o, ob with
  | OWrite b, ObsRes 0%N _ => b
  | OPlain b, ObsRes 0%N _ => b
  | _, _ => []
  end.
(* WHAT WAS WRITTEN TO THE FILE OF THE WRITER SINCE IT WAS OPENED: the count restarts whenever the writer has another file
   (name, inode) after an operation than before - the first file, or a new file after a rotation *)
Definition g_next (x x' : sys) (o : op) (ob : obs) (g : bytes) : bytes :=
  if same_file (writer_file x) (writer_file x') then g ++ accepted o ob else accepted o ob.
Fixpoint since_opened (x : sys) (g : bytes) (ops : list op) : bytes :=
  match ops with
  | [] => g
  | o :: r => let '(x', ob) := step x o in since_opened x' (g_next x x' o ob g) r
  end.

(* the clock stays within the years 1970..9999 - it need not advance (this replaces tick_ok and the bounds on the first and
   the last instant of the theorems about retention) *)
Fixpoint clock_in_years (e t : Z) (ops : list op) : Prop :=
  match ops with
  | [] => in_years e t
  | o :: r => in_years e t /\ clock_in_years e (t + dt_of o)%Z r
  end.

Lemma clock_in_years_now e t ops : clock_in_years e t ops -> in_years e t.
Proof. destruct ops; cbn [clock_in_years]; tauto. Qed.

(* the hypotheses of the retention theorems imply it *)
Lemma clock_in_years_forward e t ops : Forall tick_ok ops -> (0 <= t + e)%Z -> (t + elapsed ops + e < sec_max)%Z ->
  clock_in_years e t ops.
Proof.
  revert t; induction ops as [|o r IH]; intros t Htk Hlo Hhi; cbn [clock_in_years elapsed] in *.
  - unfold in_years. lia.
  - inversion Htk as [|o' r' Ho Hr]; subst. pose proof (elapsed_nonneg r Hr) as Er.
    assert (Hdt : (0 <= dt_of o)%Z) by (destruct o; cbn [dt_of tick_ok] in *; lia).
    split; [unfold in_years; lia|]. apply IH; [exact Hr | lia | lia].
Qed.

Definition RunInv (c : config) (k : cleanup) (e : Z) (x : sys) (g : bytes) : Prop :=
  exists s, s_flw x = Some s /\ f_cfg s = c /\ (f_poisoned s = false -> s_tl x = [])
    /\ quiet (s_w x) /\ fs_wf (wfs (s_w x)) /\ eoff c (s_w x) = e /\ InnerInv c k (s_w x) (f_inner s) g.

Lemma gnext_nil c k w st g : InnerInv c k w st g -> (if same_file (wfile st) (wfile st) then g ++ [] else []) = g.
Proof.
  destruct st as [|o wr path]; cbn [InnerInv wfile].
  - intros (_ & _ & ->). reflexivity.
  - intros _. rewrite same_file_refl. apply app_nil_r.
Qed.

Lemma gnext_idle c k w st x x' o ob g :
  writer_file x = wfile st -> writer_file x' = wfile st -> accepted o ob = [] -> InnerInv c k w st g ->
  g_next x x' o ob g = g.
Proof.
  intros E1 E2 Ha I. unfold g_next. rewrite E1, E2, Ha. destruct st as [|o' wr path]; cbn [InnerInv wfile] in *.
  - destruct I as (_ & _ & ->). reflexivity.
  - rewrite same_file_refl. apply app_nil_r.
Qed.

Lemma step_sync_cur c crit k e x g o : tsdkcfg c crit k -> RunInv c k e x g -> step x o = sync_step x o.
Proof.
  intros (_ & Hts & _ & Ha & _) (s & Es & Ec & _).
  rewrite step_plain by (intros s' Es'; rewrite Es in Es'; injection Es' as <-; rewrite Ec; exact Hts).
  unfold step_core. rewrite Es. unfold is_async. rewrite Ec, Ha. reflexivity.
Qed.

(* one operation, at any time of the clock *)
Lemma step_cur c crit k e x g o :
  tsdkcfg c crit k -> tag_ok c -> sfx_ok (c_spec c) -> RunInv c k e x g -> basic_op o -> in_years e (wnow (s_w x)) ->
  let '(x', ob) := step x o in
  RunInv c k e x' (g_next x x' o ob g) /\ wnow (s_w x') = (wnow (s_w x) + dt_of o)%Z.
Proof.
  intros Hcfg T Hsfx R Hb Y. rewrite (step_sync_cur c crit k e x g o Hcfg R).
  destruct R as (s & Es & Ec & Htl & Q & W & Hoff & I).
  assert (WF : writer_file x = wfile (f_inner s)) by (unfold writer_file; rewrite Es; reflexivity).
  (* nothing happens to the writer and the directory *)
  assert (Idle : forall tl dd ob, accepted o ob = [] -> (f_poisoned s = false -> tl = []) ->
            RunInv c k e {| s_flw := s_flw x; s_w := s_w x; s_tl := tl; s_dead := dd |}
                   (g_next x {| s_flw := s_flw x; s_w := s_w x; s_tl := tl; s_dead := dd |} o ob g)
            /\ wnow (s_w x) = (wnow (s_w x) + 0)%Z).
  { intros tl dd ob Ha Ht. split; [|lia].
    rewrite (gnext_idle c k (s_w x) (f_inner s) x _ o ob g WF) by (try exact Ha; try exact I; unfold writer_file; cbn [s_flw]; rewrite Es; reflexivity).
    exists s. cbn [s_flw s_w s_tl]. auto 10. }
  assert (Idle' : forall ob, accepted o ob = [] -> RunInv c k e x (g_next x x o ob g) /\ wnow (s_w x) = (wnow (s_w x) + 0)%Z).
  { intros ob Ha. destruct (Idle (s_tl x) (s_dead x) ob Ha Htl) as [R1 R2]. destruct x; exact (conj R1 R2). }
  rewrite Es in Idle.
  destruct o; try contradiction; cbn [sync_step dt_of]; rewrite ?Es.
  - (* OWrite *)
    destruct (f_poisoned s) eqn:Hp.
    + apply Idle; [reflexivity | discriminate].
    + rewrite (Htl eq_refl). cbn [app].
      destruct (write_buffer s (s_w x) b) as [[[r w1] s1] rot] eqn:EWB.
      destruct (write_buffer_cur c crit k e s (s_w x) g b r w1 s1 rot Hcfg T Hsfx Y Q W Hoff Ec Hp I EWB) as (E1 & W1 & Ec1 & Hr & Hp1 & I1).
      assert (Ew : match r with Err => report EWrite w1 | _ => w1 end = w1) by (destruct r; [reflexivity | congruence | reflexivity]).
      rewrite Ew. split; [|cbn [s_w]; destruct E1 as (_ & -> & _); lia].
      exists s1. cbn [s_flw s_w s_tl]. split; [reflexivity|]. split; [exact Ec1|].
      split; [rewrite Hp1; destruct r; [reflexivity | reflexivity | discriminate]|].
      split; [apply E1|]. split; [exact W1|]. split; [rewrite (eoff_env2 c _ _ E1); exact Hoff|].
      unfold g_next. rewrite WF. unfold writer_file. cbn [s_flw]. cbv zeta in I1.
      destruct r as [[]| |]; [exact I1 | congruence | exact I1].
  - (* OPlain *)
    destruct (f_poisoned s) eqn:Hp.
    + apply Idle'. reflexivity.
    + destruct (write_buffer s (s_w x) b) as [[[r w1] s1] rot] eqn:EWB.
      destruct (write_buffer_cur c crit k e s (s_w x) g b r w1 s1 rot Hcfg T Hsfx Y Q W Hoff Ec Hp I EWB) as (E1 & W1 & Ec1 & Hr & Hp1 & I1).
      split; [|cbn [s_w]; destruct E1 as (_ & -> & _); lia].
      exists s1. cbn [s_flw s_w s_tl]. split; [reflexivity|]. split; [exact Ec1|].
      split; [intros _; apply Htl; reflexivity|].
      split; [apply E1|]. split; [exact W1|]. split; [rewrite (eoff_env2 c _ _ E1); exact Hoff|].
      unfold g_next. rewrite WF. unfold writer_file. cbn [s_flw]. cbv zeta in I1.
      destruct r as [[]| |]; [exact I1 | congruence | exact I1].
  - (* OFlush *)
    destruct (f_poisoned s) eqn:Hp; [apply Idle'; reflexivity|].
    unfold flush_state. destruct (f_inner s) as [|[rs|] wr path] eqn:Ei; cbn [InnerInv] in I; [| |contradiction].
    + apply Idle; [reflexivity | exact Htl].
    + destruct I as (Ens & Ek & Eb & F).
      destruct (w_flush_quiet (s_w x) wr Q) as (w1 & Efl & F1 & S1). rewrite Efl.
      split; [|cbn [s_w]; rewrite (same_env_now _ _ S1); lia].
      eexists. cbn [s_flw s_w s_tl]. split; [reflexivity|]. cbn [with_inner f_cfg f_poisoned f_inner]. split; [exact Ec|].
      split; [intros _; apply Htl; reflexivity|]. split; [apply S1|]. split; [rewrite F1; apply wf_append; exact W|].
      split; [rewrite (eoff_env2 c _ _ (same_env_env2 _ _ S1)); exact Hoff|].
      cbn [InnerInv]. split; [exact Ens|]. split; [exact Ek|]. split; [exact Eb|].
      unfold g_next. rewrite WF. unfold writer_file. cbn [s_flw with_inner f_inner wfile wino]. rewrite same_file_refl. cbn [accepted].
      eapply (curf_append c (s_w x) w1 wr _ path g [] (wpend wr) W F F1); cbn [wino wcap wpend]; try reflexivity.
      unfold wr_ok. cbn [wcap wpend]. destruct (wcap wr); [cbn; lia | reflexivity].
  - (* OTrigger *)
    destruct (f_poisoned s) eqn:Hp; [apply Idle'; reflexivity|]. rewrite Ec.
    destruct (f_inner s) as [|[rs|] wr path] eqn:Ei; cbn [InnerInv] in I; [| |contradiction].
    + cbn [mount_next code_of]. split; [|cbn [s_w]; lia].
      exists (with_inner s Initial). cbn [s_flw s_w s_tl with_inner f_cfg f_poisoned f_inner]. split; [reflexivity|]. split; [exact Ec|].
      split; [intros _; apply Htl; reflexivity|]. split; [exact Q|]. split; [exact W|]. split; [exact Hoff|]. cbn [InnerInv].
      unfold g_next. rewrite WF. unfold writer_file. cbn [s_flw with_inner f_inner]. cbn [wfile same_file accepted].
      destruct I as (Hn & Hi & ->). auto.
    + destruct I as (Ens & Ek & Eb & F).
      destruct (mount_next c (s_w x) (Active (Some rs) wr path) true) as [[r w1] st1] eqn:EM.
      destruct (mount_next_spares_new_file c crit k e (s_w x) rs wr path true g r w1 st1 Hcfg T Hsfx Y Q W Hoff Ens Ek Eb F EM)
        as (E1 & W1 & rs' & wr' & path' & -> & Ens' & Ek' & Eb' & D).
      split; [|cbn [s_w]; destruct E1 as (_ & -> & _); lia].
      exists (match r with Panic => poison (with_inner s (Active (Some rs') wr' path')) | _ => with_inner s (Active (Some rs') wr' path') end).
      cbn [s_flw s_w s_tl]. split; [reflexivity|].
      split; [destruct r; exact Ec|].
      split; [intros _; apply Htl; reflexivity|].
      split; [apply E1|]. split; [exact W1|]. split; [rewrite (eoff_env2 c _ _ E1); exact Hoff|].
      assert (Ein : f_inner (match r with Panic => poison (with_inner s (Active (Some rs') wr' path')) | _ => with_inner s (Active (Some rs') wr' path') end)
                    = Active (Some rs') wr' path') by (destruct r; reflexivity).
      unfold g_next. rewrite WF. unfold writer_file. cbn [s_flw]. rewrite Ein. cbn [InnerInv wfile accepted].
      split; [exact Ens'|]. split; [exact Ek'|]. split; [exact Eb'|].
      destruct D as [(-> & -> & F1)|(Hne & _ & F1)].
      * rewrite same_file_refl, app_nil_r. exact F1.
      * rewrite same_file_other by exact Hne. exact F1.
  - (* OTick *)
    split; [|reflexivity]. exists s. cbn [s_flw s_w s_tl]. split; [reflexivity|]. split; [exact Ec|]. split; [exact Htl|].
    split; [exact Q|]. split; [exact W|]. split; [exact Hoff|].
    rewrite (gnext_idle c k (s_w x) (f_inner s) x _ (OTick dt) _ g WF) by (try reflexivity; exact I).
    apply (innerinv_same_fs c k (s_w x)); [reflexivity | exact I].
  - (* OSnap *)
    apply Idle'. reflexivity.
Qed.

Lemma run_cur c crit k e : tsdkcfg c crit k -> tag_ok c -> sfx_ok (c_spec c) ->
  forall ops x g, RunInv c k e x g -> Forall basic_op ops -> clock_in_years e (wnow (s_w x)) ops ->
  RunInv c k e (fst (run x ops)) (since_opened x g ops).
Proof.
  intros Hcfg T Hsfx. induction ops as [|o r IH]; intros x g R Hb Hc; [exact R|].
  inversion Hb as [|o' r' Hbo Hbr]; subst. cbn [clock_in_years] in Hc. destruct Hc as [Y Hc].
  cbn [run since_opened].
  pose proof (step_cur c crit k e x g o Hcfg T Hsfx R Hbo Y) as S.
  destruct (step x o) as [x1 ob]. destruct S as [R1 N1].
  specialize (IH x1 (g_next x x1 o ob g) R1 Hbr). rewrite N1 in IH. specialize (IH Hc).
  destruct (run x1 r) as [x2 obs]. exact IH.
Qed.

(* THE THEOREM: every history of basic operations of a TimestampsDirect writer with a cleanup strategy, the clock ANYWHERE
   in the years 1970..9999 at every instant - it may be set back at will (OTick with negative values), there is no tick_ok.
   Whenever the writer has a file (that is: from the first write on), after every operation - the history is arbitrary, so
   this is the state after every prefix, see the corollary -
   - the file exists under the name the writer has for it, with the inode the writer writes to,
   - it is a plain file (not compressed, not an unfinished archive, not a directory),
   - and, together with what the writer still buffers, it holds exactly what was written to it since it was opened. *)
Theorem timestampsdirect_current_never_cleaned c crit k t0 off ops :
  tsdkcfg c crit k -> tag_ok c -> sfx_ok (c_spec c) -> Forall basic_op ops ->
  clock_in_years (ts_e c off) t0 ops ->
  let x := fst (run (sys0 t0 off) (OStart c :: ops)) in
  forall path ino, writer_file x = Some (path, ino) ->
  exists s o_rot wr fl,
    s_flw x = Some s /\ f_inner s = Active o_rot wr path /\ wino wr = ino
    /\ lookup (wfs (s_w x)) path = Some ino /\ file_of (wfs (s_w x)) path = Some fl
    /\ fgz fl = 0%N /\ fdir fl = false
    /\ fdata fl ++ wpend wr = since_opened (sys0 t0 off) [] (OStart c :: ops).
Proof.
  intros Hcfg T Hsfx Hb Hc x path ino Hw.
  assert (R0 : RunInv c k (ts_e c off) (fst (step (sys0 t0 off) (OStart c))) []).
  { exists (new_flw c). cbn. repeat split; auto; apply wf_empty. }
  pose proof (run_cur c crit k (ts_e c off) Hcfg T Hsfx ops _ [] R0 Hb Hc) as R.
  assert (Ex : fst (run (fst (step (sys0 t0 off) (OStart c))) ops) = x).
  { unfold x. cbn [run]. destruct (step (sys0 t0 off) (OStart c)) as [x1 ob1]. cbn [fst]. destruct (run x1 ops). reflexivity. }
  rewrite Ex in R.
  change (since_opened (fst (step (sys0 t0 off) (OStart c))) [] ops) with (since_opened (sys0 t0 off) [] (OStart c :: ops)) in R.
  destruct R as (s & Es & Ec & _ & _ & _ & _ & I).
  unfold writer_file in Hw. rewrite Es in Hw.
  destruct (f_inner s) as [|[rs|] wr p] eqn:Ei; cbn [wfile InnerInv] in Hw, I; [discriminate | | contradiction].
  injection Hw as -> <-. destruct I as (_ & _ & _ & [Fng Fc [Fp1 Fp2] Fd _ _]).
  exists s, (Some rs), wr, (inode (wfs (s_w x)) (wino wr)).
  split; [exact Es|]. split; [exact Ei|]. split; [reflexivity|]. split; [exact Fc|].
  split; [unfold file_of; rewrite Fc; reflexivity|]. split; [exact Fp1|]. split; [exact Fp2|]. exact Fd.
Qed.
Print Assumptions timestampsdirect_current_never_cleaned.

(* after every operation: the theorem for every prefix of the history *)
Lemma clock_in_years_firstn e : forall n ops t, clock_in_years e t ops -> clock_in_years e t (firstn n ops).
Proof.
  induction n as [|n IH]; intros [|o r] t H; cbn [firstn clock_in_years] in *; try tauto.
  destruct H as [H1 H2]. split; [exact H1 | apply IH; exact H2].
Qed.
Lemma Forall_firstn' {A} (P : A -> Prop) n l : Forall P l -> Forall P (firstn n l).
Proof. revert l; induction n as [|n IH]; intros [|a l] H; cbn [firstn]; auto. inversion H; subst. constructor; auto. Qed.

Corollary timestampsdirect_current_never_cleaned_prefix c crit k t0 off ops n :
  tsdkcfg c crit k -> tag_ok c -> sfx_ok (c_spec c) -> Forall basic_op ops ->
  clock_in_years (ts_e c off) t0 ops ->
  let x := fst (run (sys0 t0 off) (OStart c :: firstn n ops)) in
  forall path ino, writer_file x = Some (path, ino) ->
  exists s o_rot wr fl,
    s_flw x = Some s /\ f_inner s = Active o_rot wr path /\ wino wr = ino
    /\ lookup (wfs (s_w x)) path = Some ino /\ file_of (wfs (s_w x)) path = Some fl
    /\ fgz fl = 0%N /\ fdir fl = false
    /\ fdata fl ++ wpend wr = since_opened (sys0 t0 off) [] (OStart c :: firstn n ops).
Proof.
  intros Hcfg T Hsfx Hb Hc. apply (timestampsdirect_current_never_cleaned c crit k t0 off (firstn n ops) Hcfg T Hsfx).
  - apply Forall_firstn'. exact Hb.
  - apply clock_in_years_firstn. exact Hc.
Qed.

(* ================================================================== examples *)
Import String.StringSyntax.
Open Scope string_scope.

(* 1. THE FILE THAT IS BEING WRITTEN IS LISTED LAST (its time stamp is older: the clock was set back).  The listing has the file
      of second 5 first; with the limits of KeepLogFiles(1) the position of the current file is beyond the limit:
      - told which file it is (cur = Some ..) the cleanup spares it, with KLog 1 and with KGz 1 (where its position is in the
        zone that is compressed);
      - not told (cur = None; this is the loop of the code before the repair, which relied on the position), it removes it. *)
Definition cs_cur : bytes := bs "app_r1970-01-01_00-00-00.log".
Definition cs_old : bytes := bs "app_r1970-01-01_00-00-05.log".
Definition cs_fs : fs := mkfile (mkfile empty_fs cs_old (bs "b") 0 5) cs_cur (bs "c") 0 6.
Lemma cs_fs_wf : fs_wf cs_fs.
Proof. unfold cs_fs. repeat (apply wf_mkfile; [|vm_compute; reflexivity]). apply wf_empty. Qed.

Example cleanup_spares_current_instance :
  list_log_gz 0 (c_spec (tk_cfg (KLog 1) "log")) (fixed0 (tk_cfg (KLog 1) "log")) cs_fs (IFTs std_fmt) = Some [cs_old; cs_cur]
  /\ lookup cs_fs cs_cur = Some 1
  /\ (forall k r w', cleanup_impl (tk_cfg k "log") (world_of cs_fs) k (IFTs std_fmt) (Some cs_cur) = (r, w') ->
        lookup (wfs w') cs_cur = Some 1 /\ inode (wfs w') 1 = {| fdata := bs "c"; fgz := 0; fborn := 6; fdir := false |})
  /\ (let r := cleanup_impl (tk_cfg (KLog 1) "log") (world_of cs_fs) (KLog 1) (IFTs std_fmt) (Some cs_cur) in
      fst r = Ok tt /\ snap_of {| s_flw := None; s_w := snd r; s_tl := []; s_dead := false |}
                      = [(cs_cur, 0%N, bs "c"); (cs_old, 0%N, bs "b")])
  /\ (let r := cleanup_impl (tk_cfg (KGz 1) "log") (world_of cs_fs) (KGz 1) (IFTs std_fmt) (Some cs_cur) in
      fst r = Ok tt /\ snap_of {| s_flw := None; s_w := snd r; s_tl := []; s_dead := false |}
                      = [(cs_cur, 0%N, bs "c"); (cs_old, 0%N, bs "b")])
  /\ (let r := cleanup_impl (tk_cfg (KLog 1) "log") (world_of cs_fs) (KLog 1) (IFTs std_fmt) None in
      fst r = Ok tt /\ snap_of {| s_flw := None; s_w := snd r; s_tl := []; s_dead := false |} = [(cs_old, 0%N, bs "b")]).
Proof.
  split; [vm_compute; reflexivity|]. split; [vm_compute; reflexivity|].
  split.
  { intros k r w' E.
    destruct (cleanup_spares_current (tk_cfg k "log") (world_of cs_fs) k (IFTs std_fmt) cs_cur 1 r w' cs_fs_wf) as (_ & L & I);
      [vm_compute; reflexivity | vm_compute; reflexivity | exact E |]. split; [exact L | rewrite I; vm_compute; reflexivity]. }
  repeat split; vm_compute; reflexivity.
Qed.

(* 2. THE HYPOTHESIS ON THE NAME IS NECESSARY (cleanup_spares_current is FALSE without it): a "current file" with an archive
      name whose original is listed too is removed - not by the loop, which skips it, but before the loop, with the redundant
      archives (remove_redundant does not know about cur; neither does the Rust code before its loop).  No direct naming
      gives the file that is being written such a name when the configured suffix does not end in gz (sfx_ok). *)
Definition an_gz : bytes := bs "app_r1970-01-01_00-00-05.log.gz".
Definition an_fs : fs := mkfile (mkfile empty_fs cs_old (bs "b") 0 5) an_gz (bs "z") 1 6.
Example archive_name_not_spared :
  fs_wf an_fs /\ lookup an_fs an_gz = Some 1
  /\ strip_suffix (dot :: gz_sfx) an_gz = Some cs_old
  /\ (let r := cleanup_impl (tk_cfg (KLog 5) "log") (world_of an_fs) (KLog 5) (IFTs std_fmt) (Some an_gz) in
      fst r = Ok tt /\ lookup (wfs (snd r)) an_gz = None
      /\ snap_of {| s_flw := None; s_w := snd r; s_tl := []; s_dead := false |} = [(cs_old, 0%N, bs "b")]).
Proof.
  split; [unfold an_fs; repeat (apply wf_mkfile; [|vm_compute; reflexivity]); apply wf_empty|].
  repeat split; vm_compute; reflexivity.
Qed.

(* 3. THE CLOCK IS SET BACK (back_ops of TsTheorems.v: "a" in second 0, "b" in second 5, then OTick (-5), "c" and "d" in
      second 0 again; tk_cfg of TsdCleanup.v: TimestampsDirect, a buffered writer).  tick_ok does not hold, the hypotheses of
      the theorem do; with KLog 1 and with KGz 1 the writer ends with a file of second 0 - listed behind the file of second
      5 - that exists, is plain, and holds (with the buffer) the last record "d". *)
Example clock_backwards_hypotheses k :
  tsdkcfg (tk_cfg k "log") (CSize 100) k /\ tag_ok (tk_cfg k "log") /\ sfx_ok (c_spec (tk_cfg k "log"))
  /\ Forall basic_op back_ops /\ ~ Forall tick_ok back_ops
  /\ clock_in_years (ts_e (tk_cfg k "log") 0) 0 back_ops.
Proof.
  split; [apply tk_cfg_ok|]. split; [apply tk_tag_ok|]. split; [apply tk_sfx_ok|].
  split; [repeat constructor|].
  split.
  { intros H. rewrite Forall_forall in H. specialize (H (OTick (-5))). cbn [tick_ok] in H.
    assert (X : (0 <= -5)%Z) by (apply H; unfold back_ops; cbn [In]; tauto). lia. }
  unfold back_ops. cbn [clock_in_years dt_of ts_e tk_cfg c_utc]. unfold in_years. repeat split; vm_compute; congruence.
Qed.

Example current_never_cleaned_instance :
  (let x := fst (run (sys0 0 0) (OStart (tk_cfg (KLog 1) "log") :: back_ops)) in
   writer_file x = Some (bs "app_r1970-01-01_00-00-00.restart-0000.log", 3)
   /\ since_opened (sys0 0 0) [] (OStart (tk_cfg (KLog 1) "log") :: back_ops) = bs "d"
   /\ exists s o_rot wr fl, s_flw x = Some s /\ f_inner s = Active o_rot wr (bs "app_r1970-01-01_00-00-00.restart-0000.log")
        /\ file_of (wfs (s_w x)) (bs "app_r1970-01-01_00-00-00.restart-0000.log") = Some fl
        /\ fgz fl = 0%N /\ fdir fl = false /\ fdata fl ++ wpend wr = bs "d")
  /\ (let x := fst (run (sys0 0 0) (OStart (tk_cfg (KGz 1) "log") :: back_ops)) in
      writer_file x = Some (bs "app_r1970-01-01_00-00-00.restart-0001.log", 4)
      /\ since_opened (sys0 0 0) [] (OStart (tk_cfg (KGz 1) "log") :: back_ops) = bs "d"
      /\ exists s o_rot wr fl, s_flw x = Some s /\ f_inner s = Active o_rot wr (bs "app_r1970-01-01_00-00-00.restart-0001.log")
           /\ file_of (wfs (s_w x)) (bs "app_r1970-01-01_00-00-00.restart-0001.log") = Some fl
           /\ fgz fl = 0%N /\ fdir fl = false /\ fdata fl ++ wpend wr = bs "d").
Proof.
  assert (G : forall k p i, writer_file (fst (run (sys0 0 0) (OStart (tk_cfg k "log") :: back_ops))) = Some (p, i) ->
              since_opened (sys0 0 0) [] (OStart (tk_cfg k "log") :: back_ops) = bs "d" ->
              let x := fst (run (sys0 0 0) (OStart (tk_cfg k "log") :: back_ops)) in
              exists s o_rot wr fl, s_flw x = Some s /\ f_inner s = Active o_rot wr p
                /\ file_of (wfs (s_w x)) p = Some fl /\ fgz fl = 0%N /\ fdir fl = false /\ fdata fl ++ wpend wr = bs "d").
  { intros k p i Hw Hs x. destruct (clock_backwards_hypotheses k) as (H1 & H2 & H3 & H4 & _ & H6).
    destruct (timestampsdirect_current_never_cleaned (tk_cfg k "log") (CSize 100) k 0 0 back_ops H1 H2 H3 H4 H6 p i Hw)
      as (s & o_rot & wr & fl & A1 & A2 & _ & _ & A5 & A6 & A7 & A8).
    exists s, o_rot, wr, fl. rewrite Hs in A8. auto 10. }
  split.
  - assert (Hw : writer_file (fst (run (sys0 0 0) (OStart (tk_cfg (KLog 1) "log") :: back_ops)))
                 = Some (bs "app_r1970-01-01_00-00-00.restart-0000.log", 3)) by (vm_compute; reflexivity).
    assert (Hs : since_opened (sys0 0 0) [] (OStart (tk_cfg (KLog 1) "log") :: back_ops) = bs "d") by (vm_compute; reflexivity).
    cbv zeta. split; [exact Hw|]. split; [exact Hs|]. exact (G _ _ _ Hw Hs).
  - assert (Hw : writer_file (fst (run (sys0 0 0) (OStart (tk_cfg (KGz 1) "log") :: back_ops)))
                 = Some (bs "app_r1970-01-01_00-00-00.restart-0001.log", 4)) by (vm_compute; reflexivity).
    assert (Hs : since_opened (sys0 0 0) [] (OStart (tk_cfg (KGz 1) "log") :: back_ops) = bs "d") by (vm_compute; reflexivity).
    cbv zeta. split; [exact Hw|]. split; [exact Hs|]. exact (G _ _ _ Hw Hs).
Qed.
