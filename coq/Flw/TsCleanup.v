(* Timestamps naming (rCURRENT + closed files r<time stamp>[.restart-NNNN]) with a cleanup strategy: "the cleanup keeps
   exactly the newest files, compresses losslessly and never touches rCURRENT", end to end, for every history
   OStart c :: ops ++ [OStop]  of basic operations from the empty directory with a clock that does not go backwards.
   Parts: GenCleanup.v, TsCleanupNames.v (listing = keys in descending order; collision_free_infix after cleanups),
   TsCleanupRun.v (invariant, rotation, run; theorem timestamps_cleanup_stream).  Here: the properties spelled out
   (timestamps_cleanup), no operation fails or panics (timestamps_cleanup_no_panic), the version for a size criterion,
   examples, and findings.

   WHAT THE MODEL DOES (determined by vm_compute, see the examples at the end).  A closed file is named by the second in which
   it was STARTED as rCURRENT and its position among the files of that second; `keys` lists the keys of all closed files in
   the order of closing, L = number of closed files.  rCURRENT is not part of the listing that the cleanup works on and does
   not count for the limits (as for Numbers naming).  With (n, m) = klim k:
     - the plain files are those of the keys at the positions L-n .. L-1: the newest n closed files;
     - the archives are the m closed files before them, each with exactly the content of the file it replaces;
     - everything older is gone; rCURRENT is never compressed or removed.
   FINDING (names_reused): with n + m = 0 every closed file is removed at once, and the next file closed in the same second
   gets the same name again - there is no restart counter any more. *)
Require Import FL.Base.Bytes FL.Base.BytesFacts FL.Base.PathName FL.Fs.Fs FL.Fs.FsFacts FL.Time.Civil FL.Time.TsFormat
  FL.Names.FileSpec FL.Names.NamesFacts FL.Names.SortFacts FL.Names.FamilyFacts FL.Flw.Model FL.Flw.ModelFacts FL.Flw.NumFs
  FL.Flw.NumInv FL.Flw.Run FL.Flw.RunFacts FL.Flw.NumRun FL.Oracles.O_Flw FL.Flw.NumTheorems FL.Flw.NumListing FL.Flw.CleanupFacts
  FL.Flw.NumKillRestart FL.Flw.NumRestart
  FL.Flw.NumCleanupNames FL.Flw.NumCleanupStep FL.Flw.NumCleanupRun FL.Flw.NumCleanup
  FL.Flw.TsCal FL.Flw.TsTime FL.Flw.TsNames FL.Flw.TsInv FL.Flw.TsRun FL.Flw.TsTheorems FL.Flw.TsReader
  FL.Flw.GenCleanup FL.Flw.TsCleanupNames FL.Flw.TsCleanupRun FL.Flw.TsdCleanup.
From Coq Require Import ZifyN ZifyNat ZifyBool.
Open Scope nat_scope.

(* ------------------------------------------------------------------ the final directory, name by name *)
Lemma gdir_names_cn nmf cn f all lo mid jc : gnames nmf cn (length all) -> gdir nmf cn f all lo mid -> lookup f cn = Some jc ->
  forall x, (exists j, lookup f x = Some j) <->
    x = cn \/ (exists i, mid <= i < length all /\ x = nmf i) \/ (exists i, lo <= i < mid /\ x = gzf nmf i).
Proof.
  intros GN [Hle Hnd Hp Ha Hon] Hc x. split.
  - intros [j Lj]. exact (Hon _ _ Lj).
  - intros [->|[(i & Hi & ->)|(i & Hi & ->)]].
    + eauto.
    + destruct (Hp i Hi) as (j & Lj & _). eauto.
    + destruct (Ha i Hi) as (j & Lj & _). eauto.
Qed.

(* ------------------------------------------------------------------ 1. THE PROPERTIES *)
(* (n, m) = klim k: n = number of closed files kept as they are, m = number of files kept as archives.  closed, cur: the
   reader's view that the run would leave without cleanup (timestamps_cleanup_vs_never; with a size criterion it is the
   greedy partition, timestamps_cleanup_partition).  K i: the name of the i-th closed file, G i: the name of its archive. *)
Theorem timestamps_cleanup c crit k n m t0 off ops closed cur :
  tskcfg c crit k -> klim k = Some (n, m) -> tag_ok c -> sfx_ok (c_spec c) ->
  Forall basic_op ops -> Forall tick_ok ops ->
  (0 <= t0 + ts_e c off)%Z -> (t0 + elapsed ops + ts_e c off < sec_max)%Z -> (N.of_nat (length ops) <= usize_max)%N ->
  a_run None ops (snd (run (fst (step (sys0 t0 off) (OStart c))) ops)) = Some (closed, cur) ->
  let f := wfs (s_w (fst (run (sys0 t0 off) (OStart c :: ops ++ [OStop])))) in
  let L := length closed in let lo := L - (n + m) in let mid := L - n in
  (* what was written *)
  concat closed ++ cur = written ops
  /\ exists keys : list key,
       let K i := kname c (ts_e c off) (nth i keys kd) in
       let G i := gz_name (K i) in
       (* the keys: one for every closed file; seconds non-decreasing, within a second the positions 0, 1, 2, .. *)
       length keys = L /\ keys_ok keys /\ (forall key, In key keys -> (t0 <= fst key <= t0 + elapsed ops)%Z)
       (* exactly these names exist, each once *)
       /\ (forall x, (exists j, lookup f x = Some j) <->
             x = cname c \/ (exists i, mid <= i < L /\ x = K i) \/ (exists i, lo <= i < mid /\ x = G i))
       /\ NoDup (dir_names f)
       (* (a) the limits: at most n plain closed files, at most m archives; the next cleanup would see them like this:
              NEWEST KEY FIRST, the plain files, then the archives *)
       /\ L - mid <= n /\ mid - lo <= m
       /\ (forall off', list_log_gz off' (c_spec c) (fixed0 c) f (IFTs std_fmt)
                        = Some (rev (map K (seq mid (L - mid))) ++ rev (map G (seq lo (mid - lo)))))
       (* the newest n closed files are there as they were closed *)
       /\ (forall i, mid <= i < L -> lookup f (G i) = None /\
             exists fl, file_of f (K i) = Some fl /\ fdata fl = nth i closed [] /\ fgz fl = 0%N /\ fdir fl = false)
       (* (c) the next m are complete archives of what the file held when it was closed; the original is gone *)
       /\ (forall i, lo <= i < mid -> lookup f (K i) = None /\
             exists fl, file_of f (G i) = Some fl /\ fdata fl = nth i closed [] /\ fgz fl = 1%N /\ fdir fl = false)
       (* older files are gone *)
       /\ (forall i, i < lo -> lookup f (K i) = None /\ lookup f (G i) = None)
       (* (b) the survivors, read in key order, then rCURRENT: a suffix of what was written *)
       /\ written ops = concat (firstn lo closed) ++ concat (map (fun i => data_at f (if mid <=? i then K i else G i)) (seq lo (L - lo))) ++ cur
       (* (d) the current file is plain and holds what it would hold without cleanup *)
       /\ (exists fl, file_of f (cname c) = Some fl /\ fdata fl = cur /\ fgz fl = 0%N /\ fdir fl = false).
Proof.
  intros Hcfg Hk T Hsfx Hb Htk Hlo Hhi Hmax Ea f L lo mid.
  pose proof (timestamps_cleanup_stream c crit k t0 off ops Hcfg T Hsfx Hb Htk Hlo Hhi Hmax) as S. cbv zeta in S. rewrite Ea in S. fold f in S.
  destruct S as [Fl [[keys [V [Hko Hrg]]] _]]. cbn [flat] in Fl. split; [exact Fl|].
  unfold k_lo, k_mid in V. rewrite Hk in V. fold L lo mid in V.
  destruct V as (Hlen & KD & (jc & Lc & Pc & Cc)). fold L in Hlen.
  exists keys. cbv zeta. set (e := ts_e c off) in *.
  assert (Y : years_ok e t0 (t0 + elapsed ops)) by (split; assumption).
  assert (Yk : forall key, In key keys -> in_years e (fst key)).
  { intros key Ik. apply (years_in e t0 (t0 + elapsed ops)); [exact Y | exact (Hrg key Ik)]. }
  pose proof (gnames_ts c e keys Hsfx Hko Yk) as GN. rewrite Hlen in GN.
  pose proof (gdir_names_cn _ _ _ _ _ _ jc GN KD Lc) as Names. fold L in Names.
  pose proof KD as [Hle Hnd Hp Ha Hon]. fold L in Hle, Hp, Hon.
  assert (NoName : forall x, x <> cname c -> ~ ((exists i, mid <= i < L /\ x = tname c e keys i) \/ (exists i, lo <= i < mid /\ x = gzf (tname c e keys) i)) ->
                   lookup f x = None).
  { intros x Hx H. destruct (lookup f x) as [j|] eqn:E; [|reflexivity]. exfalso.
    destruct (proj1 (Names x) (ex_intro _ j E)) as [X|X]; [exact (Hx X) | exact (H X)]. }
  assert (LG : forall off', list_log_gz off' (c_spec c) (fixed0 c) f (IFTs std_fmt) = Some (glisting (tname c e keys) lo mid L)).
  { intros off'. apply (list_log_gz_ts c e off' f keys closed lo mid Hsfx Hko Yk Hlen KD). }
  assert (Data : forall i, lo <= i < L -> data_at f (gentry (tname c e keys) mid i) = nth i closed []).
  { intros i Hi. unfold data_at, file_of. destruct (Nat.le_gt_cases mid i) as [H|H].
    - rewrite gentry_plain by exact H. destruct (Hp i ltac:(lia)) as (j & -> & _ & Cj). exact Cj.
    - rewrite gentry_arch by exact H. destruct (Ha i ltac:(lia)) as (j & -> & Dj & _). exact Dj. }
  split; [exact Hlen|]. split; [exact Hko|]. split; [exact Hrg|].
  split; [exact Names|].
  split; [exact Hnd|].
  split; [unfold mid; lia|]. split; [unfold lo, mid; lia|].
  split; [exact LG|].
  split.
  { intros i Hi. split.
    - apply NoName; [exact (proj2 (gn_cn _ _ _ GN i ltac:(lia)))|]. intros [(j & Hj & X)|(j & Hj & X)].
      + apply (gzf_not_nmf _ _ _ GN) in X; [exact X | lia | lia].
      + apply (gzf_inj _ _ _ GN) in X; lia.
    - destruct (Hp i ltac:(lia)) as (j & Lj & [Gj Dj] & Cj). exists (inode f j). unfold file_of. fold (tname c e keys i). rewrite Lj. auto. }
  split.
  { intros i Hi. split.
    - apply NoName; [exact (proj1 (gn_cn _ _ _ GN i ltac:(lia)))|]. intros [(j & Hj & X)|(j & Hj & X)].
      + apply (gn_inj _ _ _ GN) in X; lia.
      + symmetry in X. apply (gzf_not_nmf _ _ _ GN) in X; [exact X | lia | lia].
    - destruct (Ha i Hi) as (j & Lj & Dj & Gj & Fj). exists (inode f j). unfold file_of. fold (tname c e keys i). fold (gzf (tname c e keys) i).
      rewrite Lj. auto. }
  split.
  { intros i Hi. split; (apply NoName; [first [exact (proj1 (gn_cn _ _ _ GN i ltac:(lia))) | exact (proj2 (gn_cn _ _ _ GN i ltac:(lia)))]|]);
      intros [(j & Hj & X)|(j & Hj & X)].
    - apply (gn_inj _ _ _ GN) in X; lia.
    - symmetry in X. apply (gzf_not_nmf _ _ _ GN) in X; [exact X | lia | lia].
    - apply (gzf_not_nmf _ _ _ GN) in X; [exact X | lia | lia].
    - apply (gzf_inj _ _ _ GN) in X; lia. }
  split.
  { change (fun i => data_at f (if mid <=? i then kname c e (nth i keys kd) else gz_name (kname c e (nth i keys kd))))
      with (fun i => data_at f (gentry (tname c e keys) mid i)).
    rewrite (map_seq_skipn (fun i => data_at f (gentry (tname c e keys) mid i)) closed [] (L - lo) lo); [|unfold lo, L; lia | exact Data].
    rewrite app_assoc, <- concat_app, firstn_skipn. symmetry. exact Fl. }
  destruct Pc as [Gc Dc]. exists (inode f jc). unfold file_of. rewrite Lc. auto.
Qed.
Print Assumptions timestamps_cleanup.

(* ------------------------------------------------------------------ 2. NO OPERATION FAILS OR PANICS *)
Theorem timestamps_cleanup_no_panic c crit k t0 off ops :
  tskcfg c crit k -> tag_ok c -> sfx_ok (c_spec c) -> Forall basic_op ops -> Forall tick_ok ops ->
  (0 <= t0 + ts_e c off)%Z -> (t0 + elapsed ops + ts_e c off < sec_max)%Z -> (N.of_nat (length ops) <= usize_max)%N ->
  Forall obs_ok (snd (run (sys0 t0 off) (OStart c :: ops ++ [OStop]))).
Proof.
  intros Hcfg T Hsfx Hb Htk Hlo Hhi Hmax.
  pose proof (timestamps_cleanup_stream c crit k t0 off ops Hcfg T Hsfx Hb Htk Hlo Hhi Hmax) as S. cbv zeta in S.
  exact (proj1 (proj2 (proj2 S))).
Qed.
Print Assumptions timestamps_cleanup_no_panic.

(* ------------------------------------------------------------------ size criterion: the view is a function of the operations *)
Theorem timestamps_cleanup_partition c k m t0 off ops :
  tskcfg c (CSize m) k -> tag_ok c -> sfx_ok (c_spec c) -> Forall basic_op ops -> Forall tick_ok ops ->
  (0 <= t0 + ts_e c off)%Z -> (t0 + elapsed ops + ts_e c off < sec_max)%Z -> (N.of_nat (length ops) <= usize_max)%N ->
  let f := wfs (s_w (fst (run (sys0 t0 off) (OStart c :: ops ++ [OStop])))) in
  match s_run m None ops with
  | None => names f = []
  | Some (closed, cur) =>
    closed ++ [cur] = expected_files m None (items false ops)
    /\ exists keys, tsk_view c (ts_e c off) f keys closed cur (k_lo k (length closed)) (k_mid k (length closed)) /\ keys_ok keys
  end.
Proof.
  intros Hcfg T Hsfx Hb Htk Hlo Hhi Hmax f.
  pose proof (timestamps_cleanup_stream c (CSize m) k t0 off ops Hcfg T Hsfx Hb Htk Hlo Hhi Hmax) as S. cbv zeta in S.
  destruct S as (_ & V & _ & Z). rewrite (Z m eq_refl) in V. fold f in V.
  pose proof (s_run_none m ops Hb) as P.
  destruct (s_run m None ops) as [[closed cur]|]; [|exact V]. split; [exact P|].
  destruct V as [keys [V [K _]]]. exists keys. auto.
Qed.
Print Assumptions timestamps_cleanup_partition.

(* ------------------------------------------------------------------ examples *)
Import String.StringSyntax.
Open Scope string_scope.

Definition sk_cfg (k : cleanup) (sfx : String.string) : config :=
  {| c_spec := ex_sp sfx; c_append := false; c_cap := Some 3%nat; c_rot := Some (CSize 100, NTimestamps, k); c_utc := false;
     c_symlink := false; c_bg := false; c_async := false; c_start := None |}.
Definition sk_final (k : cleanup) (sfx : String.string) (ops : list op) : list (bytes * N * bytes) :=
  snap_of (fst (run (sys0 0 0) (OStart (sk_cfg k sfx) :: ops ++ [OStop]))).

(* ext_ops (TsTheorems.v): rCURRENT is closed four times in second 0 ("a", "b", "c", "d"), then the clock advances; "e" was
   started in second 1; "f" stays in rCURRENT *)
Example sk_never :
  sk_final KNever "log" ext_ops
  = [ (bs "app_r1970-01-01_00-00-00.log", 0%N, bs "a");
      (bs "app_r1970-01-01_00-00-00.restart-0000.log", 0%N, bs "b");
      (bs "app_r1970-01-01_00-00-00.restart-0001.log", 0%N, bs "c");
      (bs "app_r1970-01-01_00-00-00.restart-0002.log", 0%N, bs "d");
      (bs "app_r1970-01-01_00-00-01.log", 0%N, bs "e");
      (bs "app_rCURRENT.log", 0%N, bs "f") ].
Proof. vm_compute. reflexivity. Qed.

(* KLog 2: rCURRENT and TWO closed files (TimestampsDirect: the current file and one closed file, tk_log_2) *)
Example sk_log_2 :
  sk_final (KLog 2) "log" ext_ops
  = [ (bs "app_r1970-01-01_00-00-00.restart-0002.log", 0%N, bs "d"); (bs "app_r1970-01-01_00-00-01.log", 0%N, bs "e");
      (bs "app_rCURRENT.log", 0%N, bs "f") ].
Proof. vm_compute. reflexivity. Qed.

Example sk_gz_2 :
  sk_final (KGz 2) "log" ext_ops
  = [ (bs "app_r1970-01-01_00-00-00.restart-0002.log.gz", 1%N, bs "d"); (bs "app_r1970-01-01_00-00-01.log.gz", 1%N, bs "e");
      (bs "app_rCURRENT.log", 0%N, bs "f") ].
Proof. vm_compute. reflexivity. Qed.

Example sk_loggz_1_2 :
  sk_final (KLogGz 1 2) "log" ext_ops
  = [ (bs "app_r1970-01-01_00-00-00.restart-0001.log.gz", 1%N, bs "c");
      (bs "app_r1970-01-01_00-00-00.restart-0002.log.gz", 1%N, bs "d");
      (bs "app_r1970-01-01_00-00-01.log", 0%N, bs "e");
      (bs "app_rCURRENT.log", 0%N, bs "f") ].
Proof. vm_compute. reflexivity. Qed.

(* both limits 0: only rCURRENT is left *)
Example sk_none :
  sk_final (KLog 0) "log" ext_ops = [ (bs "app_rCURRENT.log", 0%N, bs "f") ]
  /\ sk_final (KGz 0) "log" ext_ops = [ (bs "app_rCURRENT.log", 0%N, bs "f") ]
  /\ sk_final (KLogGz 0 0) "log" ext_ops = [ (bs "app_rCURRENT.log", 0%N, bs "f") ].
Proof. repeat split; vm_compute; reflexivity. Qed.

(* the hypotheses of the theorems hold for this history (they are not vacuous), and the conclusion is what was computed *)
Lemma sk_cfg_ok k sfx : tskcfg (sk_cfg k sfx) (CSize 100) k.
Proof. repeat split. Qed.
Lemma sk_tag_ok k : tag_ok (sk_cfg k "log").
Proof. apply tag_free_ok. split; vm_compute; reflexivity. Qed.
Lemma sk_sfx_ok k : sfx_ok (c_spec (sk_cfg k "log")).
Proof. vm_compute. reflexivity. Qed.
Lemma sk_bounds k : (0 <= 0 + ts_e (sk_cfg k "log") 0)%Z /\ (0 + elapsed ext_ops + ts_e (sk_cfg k "log") 0 < sec_max)%Z
  /\ (N.of_nat (length ext_ops) <= usize_max)%N.
Proof. split; [vm_compute; discriminate|]. split; [vm_compute; reflexivity | vm_compute; discriminate]. Qed.

Example sk_view :
  a_run None ext_ops (snd (run (fst (step (sys0 0 0) (OStart (sk_cfg (KLogGz 1 2) "log")))) ext_ops))
  = Some ([bs "a"; bs "b"; bs "c"; bs "d"; bs "e"], bs "f").
Proof. vm_compute. reflexivity. Qed.

(* timestamps_cleanup for KLogGz 1 2 and five rotations: L = 5, n = 1, m = 2, lo = 2, mid = 4 *)
Example sk_instance :
  let c := sk_cfg (KLogGz 1 2) "log" in
  let f := wfs (s_w (fst (run (sys0 0 0) (OStart c :: ext_ops ++ [OStop])))) in
  exists keys : list key,
    let K i := kname c 0 (nth i keys kd) in
    let G i := gz_name (K i) in
    length keys = 5 /\ keys_ok keys
    /\ (forall x, (exists j, lookup f x = Some j) <-> x = cname c \/ (exists i, 4 <= i < 5 /\ x = K i) \/ (exists i, 2 <= i < 4 /\ x = G i))
    /\ list_log_gz 0 (c_spec c) (fixed0 c) f (IFTs std_fmt) = Some [K 4; G 3; G 2]
    /\ (exists fl, file_of f (K 4) = Some fl /\ fdata fl = bs "e" /\ fgz fl = 0%N /\ fdir fl = false)
    /\ (exists fl, file_of f (G 3) = Some fl /\ fdata fl = bs "d" /\ fgz fl = 1%N /\ fdir fl = false)
    /\ lookup f (K 3) = None /\ lookup f (K 1) = None /\ lookup f (G 1) = None
    /\ (exists fl, file_of f (cname c) = Some fl /\ fdata fl = bs "f" /\ fgz fl = 0%N /\ fdir fl = false).
Proof.
  intros c f. destruct (sk_bounds (KLogGz 1 2)) as (B1 & B2 & B3).
  pose proof (timestamps_cleanup c (CSize 100) (KLogGz 1 2) 1 2 0 0 ext_ops _ _
                (sk_cfg_ok _ _) eq_refl (sk_tag_ok _) (sk_sfx_ok _) ext_ops_basic ext_ops_ticks B1 B2 B3 sk_view) as T.
  cbv zeta in T. fold f in T. destruct T as (_ & keys & T). exists keys. cbv zeta.
  change (length [bs "a"; bs "b"; bs "c"; bs "d"; bs "e"]) with 5 in T. cbn [Nat.sub Nat.add] in T.
  change (ts_e c 0) with 0%Z in T.
  destruct T as (Hl & Hko & _ & Names & _ & _ & _ & LG & Pl & Ar & Old & _ & Cur).
  split; [exact Hl|]. split; [exact Hko|]. split; [exact Names|].
  split; [exact (LG 0%Z)|].
  split; [exact (proj2 (Pl 4 ltac:(lia)))|].
  split; [exact (proj2 (Ar 3 ltac:(lia)))|].
  split; [exact (proj1 (Ar 3 ltac:(lia)))|].
  split; [exact (proj1 (Old 1 ltac:(lia)))|].
  split; [exact (proj2 (Old 1 ltac:(lia))) | exact Cur].
Qed.

Example sk_no_panic_instance :
  Forall obs_ok (snd (run (sys0 0 0) (OStart (sk_cfg (KLog 0) "log") :: ext_ops ++ [OStop]))).
Proof.
  destruct (sk_bounds (KLog 0)) as (B1 & B2 & B3).
  exact (timestamps_cleanup_no_panic _ (CSize 100) (KLog 0) 0 0 ext_ops (sk_cfg_ok _ _) (sk_tag_ok _) (sk_sfx_ok _)
           ext_ops_basic ext_ops_ticks B1 B2 B3).
Qed.

(* ------------------------------------------------------------------ findings *)
(* 1. NAMES ARE USED AGAIN when nothing is kept (n + m = 0).  An unbuffered writer with KLog 0: "a" is closed in second 0 as
      <ts> and removed at once; then "b" is closed in the same second.  The process is killed after the rename and the
      creation of the new rCURRENT, just before the removal: the file of "b" is there under the SAME name <ts> that the file
      of "a" had - no restart counter.  With KLog 1 (the file of "a" is still there) it is <ts>.restart-0000. *)
Definition ru_cfg (k : cleanup) : config :=
  {| c_spec := ex_sp "log"; c_append := false; c_cap := None; c_rot := Some (CSize 100, NTimestamps, k); c_utc := false;
     c_symlink := false; c_bg := false; c_async := false; c_start := None |}.
Definition ru_ops : list op := [OWrite (bs "a"); OTrigger; OWrite (bs "b"); OSetKill 2; OTrigger].
Example names_reused :
  snap_of (fst (run (sys0 0 0) (OStart (ru_cfg (KLog 0)) :: [OWrite (bs "a"); OTrigger; OWrite (bs "b")])))
  = [ (bs "app_rCURRENT.log", 0%N, bs "b") ]
  /\ snap_of (fst (run (sys0 0 0) (OStart (ru_cfg (KLog 0)) :: ru_ops)))
     = [ (bs "app_r1970-01-01_00-00-00.log", 0%N, bs "b"); (bs "app_rCURRENT.log", 0%N, bs "") ]
  /\ snap_of (fst (run (sys0 0 0) (OStart (ru_cfg (KLog 1)) :: ru_ops)))
     = [ (bs "app_r1970-01-01_00-00-00.log", 0%N, bs "a"); (bs "app_r1970-01-01_00-00-00.restart-0000.log", 0%N, bs "b");
         (bs "app_rCURRENT.log", 0%N, bs "") ].
Proof. repeat split; vm_compute; reflexivity. Qed.

(* 2. A CLOCK THAT GOES BACKWARDS (tick_ok violated, back_ops of TsTheorems.v: "a" started in second 0, "b" in second 5, "c" in
      second 0 again): the file of "c" is listed behind the file of "b"; KLog 1 removes "c" although the older "b" survives.
      rCURRENT is not affected: in contrast to TimestampsDirect naming (where the cleanup has to be told which of the
      listed files is being written, TsdCleanup.clock_backwards_current_spared) the file that is being written is never listed. *)
Example clock_backwards_newer_removed :
  sk_final KNever "log" back_ops
  = [ (bs "app_r1970-01-01_00-00-00.log", 0%N, bs "a"); (bs "app_r1970-01-01_00-00-00.restart-0000.log", 0%N, bs "c");
      (bs "app_r1970-01-01_00-00-05.log", 0%N, bs "b"); (bs "app_rCURRENT.log", 0%N, bs "d") ]
  /\ sk_final (KLog 1) "log" back_ops
     = [ (bs "app_r1970-01-01_00-00-05.log", 0%N, bs "b"); (bs "app_rCURRENT.log", 0%N, bs "d") ].
Proof. split; vm_compute; reflexivity. Qed.

(* 3. The suffix "gz" / a suffix that ends with ".gz" (sfx_ok violated), as for the other namings: with "gz" every closed file
      is listed twice - KLogGz 2 1 keeps one closed file instead of three -; with "log.gz" the closed files are taken for
      archives and are never compressed. *)
Example sk_sfx_gz_counterexamples :
  ~ sfx_ok (c_spec (sk_cfg (KLogGz 2 1) "gz"))
  /\ sk_final (KLogGz 2 1) "gz" ext_ops = [ (bs "app_r1970-01-01_00-00-01.gz", 0%N, bs "e"); (bs "app_rCURRENT.gz", 0%N, bs "f") ]
  /\ ~ sfx_ok (c_spec (sk_cfg (KGz 2) "log.gz"))
  /\ sk_final (KGz 2) "log.gz" ext_ops
     = [ (bs "app_r1970-01-01_00-00-00.restart-0002.log.gz", 0%N, bs "d"); (bs "app_r1970-01-01_00-00-01.log.gz", 0%N, bs "e");
         (bs "app_rCURRENT.log.gz", 0%N, bs "f") ].
Proof.
  split; [vm_compute; discriminate|]. split; [vm_compute; reflexivity|]. split; [vm_compute; discriminate | vm_compute; reflexivity].
Qed.

(* ------------------------------------------------------------------ THE SAME HISTORY WITHOUT CLEANUP *)
(* The rotation flags - and with them the view (closed, cur) - do not depend on the cleanup strategy (trace_ok).  So the view of
   the run with cleanup IS what the same history leaves in the directory when the strategy is KNever: all closed files, plain,
   named by keys, and rCURRENT (ts_view of TsRun.v). *)
Close Scope string_scope.
Lemma runs_agree_sk c c' crit k k' e lo0 hi :
  tskcfg c crit k -> tskcfg c' crit k' -> sfx_ok (c_spec c) -> sfx_ok (c_spec c') -> tag_ok c -> tag_ok c' -> years_ok e lo0 hi ->
  forall ops x x' a n, RelSK c crit k e lo0 n x a -> RelSK c' crit k' e lo0 n x' a ->
  wnow (s_w x') = wnow (s_w x) -> woff (s_w x') = woff (s_w x) -> roll_of_sys x' = roll_of_sys x ->
  Forall basic_op ops -> Forall tick_ok ops ->
  (wnow (s_w x) + elapsed ops <= hi)%Z -> (N.of_nat (n + length ops) <= usize_max)%N ->
  a_run a ops (snd (run x' ops)) = a_run a ops (snd (run x ops)).
Proof.
  intros Hcfg Hcfg' Hs Hs' T T' Y. induction ops as [|o r IH]; intros x x' a n R R' Hn Ho Hr Hb Htk Hhi Hmax; [reflexivity|].
  inversion Hb as [|o' r' Hbo Hbr]; subst. inversion Htk as [|o' r' Hto Htr]; subst. cbn [run elapsed length] in *.
  pose proof (elapsed_nonneg r Htr) as Er.
  assert (Hdt : (0 <= dt_of o)%Z) by (destruct o; cbn [dt_of tick_ok] in *; lia).
  pose proof (step_rel_sk c crit k e lo0 hi n x a o Hcfg Hs T Y R Hbo Hto ltac:(lia) ltac:(lia)) as S.
  pose proof (step_rel_sk c' crit k' e lo0 hi n x' a o Hcfg' Hs' T' Y R' Hbo Hto ltac:(lia) ltac:(lia)) as S'.
  destruct (step x o) as [x1 ob]. destruct (step x' o) as [x1' ob'].
  specialize (IH x1 x1'). destruct (run x1 r) as [x2 obs]. destruct (run x1' r) as [x2' obs']. cbn [snd a_run] in *.
  destruct S as (R1 & W1 & _ & _ & (F1 & G1 & N1 & O1)). destruct S' as (R1' & W1' & _ & _ & (F1' & G1' & N1' & O1')).
  assert (Ef : rot_of ob' = rot_of ob) by (rewrite F1, F1', Hr; apply flag_of_env; assumption).
  rewrite Ef in *. apply (IH _ (S n)); auto; try congruence; lia.
Qed.

Definition never_cfg_s (c : config) (crit : criterion) : config :=
  {| c_spec := c_spec c; c_append := c_append c; c_cap := c_cap c; c_rot := Some (crit, NTimestamps, KNever); c_utc := c_utc c;
     c_symlink := c_symlink c; c_bg := c_bg c; c_async := c_async c; c_start := c_start c |}.

Lemma tsk_view_never c e f keys closed cur : tsk_view c e f keys closed cur 0 0 -> ts_view c e f keys closed cur.
Proof.
  intros (Hlen & [Hle Hnd Hp Ha Hon] & HC). split; [exact Hlen|]. split; [|split; [exact HC|split; [|exact Hnd]]].
  - intros i Hi. apply Hp. lia.
  - intros n j Lj. destruct (Hon n j Lj) as [->|[(i & Hi & ->)|(i & Hi & _)]]; [left; reflexivity | right; exists i; split; [lia | reflexivity] | lia].
Qed.

Theorem timestamps_cleanup_vs_never c crit k t0 off ops :
  tskcfg c crit k -> tag_ok c -> sfx_ok (c_spec c) -> Forall basic_op ops -> Forall tick_ok ops ->
  (0 <= t0 + ts_e c off)%Z -> (t0 + elapsed ops + ts_e c off < sec_max)%Z -> (N.of_nat (length ops) <= usize_max)%N ->
  let a := a_run None ops (snd (run (fst (step (sys0 t0 off) (OStart c))) ops)) in
  let f0 := wfs (s_w (fst (run (sys0 t0 off) (OStart (never_cfg_s c crit) :: ops ++ [OStop])))) in
  tscfg (never_cfg_s c crit) crit
  /\ match a with
     | None => names f0 = []
     | Some (closed, cur) => exists keys, ts_view (never_cfg_s c crit) (ts_e c off) f0 keys closed cur /\ keys_ok keys
                                          /\ (forall key, In key keys -> (t0 <= fst key <= t0 + elapsed ops)%Z)
     end.
Proof.
  intros Hcfg T Hsfx Hb Htk Hlo Hhi Hmax a f0.
  assert (Hc0 : tscfg (never_cfg_s c crit) crit) by (destruct Hcfg as (_ & ? & ? & ? & _); repeat split; assumption).
  assert (Hk0 : tskcfg (never_cfg_s c crit) crit KNever) by (destruct Hcfg as (_ & ? & ? & ? & ?); repeat split; assumption).
  split; [exact Hc0|].
  assert (T0 : tag_ok (never_cfg_s c crit)) by exact T.
  assert (S0 : sfx_ok (c_spec (never_cfg_s c crit))) by exact Hsfx.
  pose proof (timestamps_cleanup_stream (never_cfg_s c crit) crit KNever t0 off ops Hk0 T0 S0 Hb Htk Hlo Hhi Hmax) as S. cbv zeta in S.
  fold f0 in S. destruct S as (_ & V & _).
  assert (Ea : a_run None ops (snd (run (fst (step (sys0 t0 off) (OStart (never_cfg_s c crit)))) ops)) = a).
  { assert (Y : years_ok (ts_e c off) t0 (t0 + elapsed ops)) by (split; assumption).
    apply (runs_agree_sk c (never_cfg_s c crit) crit k KNever (ts_e c off) t0 (t0 + elapsed ops) Hcfg Hk0 Hsfx S0 T T0 Y ops _ _ None 0); auto.
    - apply start_rel_sk.
    - exact (start_rel_sk (never_cfg_s c crit) crit KNever t0 off).
    - cbn. lia. }
  rewrite Ea in V. destruct a as [[closed cur]|]; [|exact V].
  destruct V as (keys & V & K & Rg). exists keys. split; [|split; [exact K | exact Rg]].
  apply tsk_view_never. exact V.
Qed.
Print Assumptions timestamps_cleanup_vs_never.
