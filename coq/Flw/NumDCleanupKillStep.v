(* NumbersDirect naming with a cleanup strategy, killed process (C11), part 1: the cleanup with a kill budget.
   The directory descriptions xdir / kst / kill_view of Numbers naming (NumCleanupKillDir.v, NumCleanupKillStep.v) are used
   with ocur = None (there is no rCURRENT) and the list `all` of the contents of ALL numbered files, the file being written
   (the newest number) included.  The cleanup is told the file being written (cur = Some r<L-1>) and skips it; with the
   effective limits klimd (n >= 1) it is at position 0 of the listing and kept anyway.
   kstd: kst and "the file being written is untouched" (same inode, same content). *)
Require Import FL.Base.Bytes FL.Base.BytesFacts FL.Base.PathName FL.Fs.Fs FL.Fs.FsFacts FL.Time.Civil FL.Time.TsFormat
  FL.Names.FileSpec FL.Names.NamesFacts FL.Names.SortFacts FL.Names.FamilyFacts FL.Flw.Model FL.Flw.ModelFacts FL.Flw.NumFs
  FL.Flw.NumInv FL.Flw.Run FL.Flw.RunFacts FL.Flw.NumRun FL.Flw.NumListing FL.Flw.CleanupFacts
  FL.Flw.NumCleanupNames FL.Flw.NumCleanupStep FL.Flw.NumCleanupRun FL.Flw.KillFacts FL.Flw.NumCleanupKillDir
  FL.Flw.NumCleanupKillStep FL.Flw.NumDCleanupStep.
From Coq Require Import ZifyN ZifyNat ZifyBool.
Open Scope nat_scope.

Lemma cleanup_impl_kw_unfold_d c q j k flt n m p : klimd k = Some (n, m) -> quiet q ->
  cleanup_impl c (kw q j) k flt (Some p) =
  match list_log_gz (woff q) (c_spec c) (fixed_of c (kw q j)) (wfs q) flt with
  | None => (Panic, kw q j)
  | Some files =>
    let '(ok0, w1', files') := remove_redundant (kw q j) (redundant_gz files) files in
    if negb ok0 then (Err, w1') else
    let '(ok, w2) := cleanup_loop w1' files' 0 n (n + m) (Some p) in ((if ok then Ok tt else Err), w2)
  end.
Proof.
  intros H Q. unfold klimd in H.
  destruct k as [|a|b|a b]; cbn [klim] in H; try discriminate; injection H as <- <-;
    unfold cleanup_impl; cbn [andb]; rewrite (tick_kw q j Q); try (destruct a as [|a]); reflexivity.
Qed.

(* ------------------------------------------------------------------ kst + the newest numbered file is untouched *)
Definition kstd (c : config) (f0 f : fs) (all : list bytes) (lo mid : nat) (red : option bool) : Prop :=
  kst c f0 f all None lo mid red /\ same_at f0 f (rname c (length all - 1)).

Lemma same_at_create f a gz now x : fs_wf f -> x <> a -> same_at f (fst (create_file f a gz now)) x.
Proof.
  intros W H. apply (same_at_upd f _ a (Some {| fdata := []; fgz := gz; fborn := now; fdir := false |})).
  - pose proof (create_file_spec f a gz now) as CS. destruct (create_file f a gz now) as [f' i].
    destruct CS as (_ & _ & _ & Lo). cbn [fst]. apply Lo. exact H.
  - intros y. apply file_of_create. exact W.
  - exact H.
Qed.

Lemma same_at_set_gz f a i st d x : fs_wf f -> lookup f a = Some i -> x <> a -> same_at f (set_gz f i st d) x.
Proof.
  intros W La H.
  apply (same_at_upd f _ a (Some {| fdata := d; fgz := st; fborn := fborn (inode f i); fdir := false |})).
  - reflexivity.
  - intros y. apply (file_of_set_gz f a); assumption.
  - exact H.
Qed.

Lemma kstd_create c f0 f all lo mid now : kstd c f0 f all lo mid None -> mid < length all ->
  kstd c f0 (fst (create_file f (gname c mid) 2%N now)) all lo mid (Some false).
Proof.
  intros [K S] Hm. split; [apply kst_create; assumption|].
  apply (same_at_trans _ f); [exact S|]. apply same_at_create; [exact (ks_wf _ _ _ _ _ _ _ _ K)|].
  intros E. exact (gname_ne_rname _ _ _ (eq_sym E)).
Qed.

Lemma kstd_finish c f0 f all lo mid ino : kstd c f0 f all lo mid (Some false) ->
  lookup f (gname c mid) = Some ino ->
  kstd c f0 (set_gz f ino 1%N (nth mid all [])) all lo mid (Some true).
Proof.
  intros [K S] Lg. split; [apply kst_finish; assumption|].
  apply (same_at_trans _ f); [exact S|]. apply (same_at_set_gz f (gname c mid)); [exact (ks_wf _ _ _ _ _ _ _ _ K) | exact Lg|].
  intros E. exact (gname_ne_rname _ _ _ (eq_sym E)).
Qed.

Lemma kstd_rm_orig c f0 f all lo mid : kstd c f0 f all lo mid (Some true) -> mid < length all - 1 ->
  kstd c f0 (unlink f (rname c mid)) all lo (S mid) None.
Proof.
  intros [K S] Hm. split; [apply kst_rm_orig; assumption|].
  apply (same_at_trans _ f); [exact S|]. apply same_at_unlink. intros E. apply rname_inj in E. lia.
Qed.

Lemma kstd_rm_lo c f0 f all lo mid : kstd c f0 f all lo mid None -> lo < mid ->
  kstd c f0 (unlink f (gname c lo)) all (S lo) mid None.
Proof.
  intros [K S] Hm. split; [apply kst_rm_lo; assumption|].
  apply (same_at_trans _ f); [exact S|]. apply same_at_unlink. intros E. exact (gname_ne_rname _ _ _ (eq_sym E)).
Qed.

Lemma kstd_rm_mid c f0 f all mid : kstd c f0 f all mid mid None -> mid < length all - 1 ->
  kstd c f0 (unlink f (rname c mid)) all (S mid) (S mid) None.
Proof.
  intros [K S] Hm. split; [apply kst_rm_mid; [exact K | lia]|].
  apply (same_at_trans _ f); [exact S|]. apply same_at_unlink. intros E. apply rname_inj in E. lia.
Qed.

(* ------------------------------------------------------------------ one compression with a budget *)
Lemma compress_budget_d c q all lo mid j : quiet q -> kstd c (wfs q) (wfs q) all lo mid None -> mid < length all - 1 ->
  exists r w1, compress_file (kw q (S j)) (rname c mid) = (r, w1) /\
    ( (exists fc j', j = S (S (S (S j'))) /\ r = true /\ w1 = kw (set_fs q fc) (S j') /\ kstd c (wfs q) fc all lo (S mid) None)
      \/ (exists f' red, w1 = kw (set_fs q f') 0 /\ kstd c (wfs q) f' all lo mid red) ).
Proof.
  intros Q KS Hm. pose proof KS as [K SL]. pose proof K as [W Nd X Sc].
  destruct (kst_plain_lookup c _ _ all None lo mid None mid K ltac:(lia)) as (i & Li & Ci).
  assert (Lg : lookup (wfs q) (gz_name (rname c mid)) = None) by (apply (kst_lookup_red c _ _ all None lo mid K); lia).
  pose proof (compress_file_kw q (rname c mid) i j Q W Li Lg) as CF. cbv zeta in CF. rewrite Ci in CF.
  fold (gname c mid) in CF.
  pose proof (kstd_create c (wfs q) (wfs q) all lo mid (wnow q) KS ltac:(lia)) as Ka.
  set (fa := fst (create_file (wfs q) (gname c mid) 2%N (wnow q))) in *.
  assert (Lga : lookup fa (gname c mid) = Some (length (inodes (wfs q)))).
  { pose proof (create_file_spec (wfs q) (gname c mid) 2%N (wnow q)) as CS. unfold create_file in CS. destruct CS as (_ & _ & La & _). exact La. }
  pose proof (kstd_finish c (wfs q) fa all lo mid _ Ka Lga) as Kb.
  set (fb := set_gz fa (length (inodes (wfs q))) 1%N (nth mid all [])) in *.
  pose proof (kstd_rm_orig c (wfs q) fb all lo mid Kb Hm) as Kc.
  destruct j as [|[|[|[|j']]]].
  - destruct CF as [r E]. exists r, (kw q 0). split; [exact E|]. right. exists (wfs q), None. split; [reflexivity | exact KS].
  - destruct CF as [r E]. exists r, (kw (set_fs q fa) 0). split; [exact E|]. right. exists fa, (Some false). split; [reflexivity | exact Ka].
  - destruct CF as [r E]. exists r, (kw (set_fs q fa) 0). split; [exact E|]. right. exists fa, (Some false). split; [reflexivity | exact Ka].
  - destruct CF as [r E]. exists r, (kw (set_fs q fb) 0). split; [exact E|]. right. exists fb, (Some true). split; [reflexivity | exact Kb].
  - eexists _, _. split; [exact CF|]. left. exists (unlink fb (rname c mid)), j'. split; [reflexivity|]. split; [reflexivity|].
    split; [reflexivity | exact Kc].
Qed.

(* ------------------------------------------------------------------ one cleanup with a budget *)
(* all: the contents of all numbered files, the one being written (the newest, r<L-1>) included; (n, m) the effective limits *)
Lemma cleanup_budget_d c k n m q all j :
  fts (c_spec c) = false -> klimd k = Some (n, m) -> sfx_ok (c_spec c) -> quiet q ->
  kstd c (wfs q) (wfs q) all (length all - 1 - (n + m)) (length all - 1 - n) None ->
  exists r w', cleanup_impl c (kw q (S j)) k IFNum (Some (rname c (length all - 1))) = (r, w') /\
    ( (exists f' j', w' = kw (set_fs q f') (S j') /\ r = Ok tt
                      /\ kstd c (wfs q) f' all (length all - (n + m)) (length all - n) None)
      \/ (exists f' lo mid red, w' = kw (set_fs q f') 0 /\ kstd c (wfs q) f' all lo mid red
                                /\ lo <= length all - (n + m) /\ mid <= length all - n) ).
Proof.
  intros Hts Hk Hsfx Q KS. pose proof (klimd_pos _ _ _ Hk) as Hn1.
  set (L := length all) in *. pose proof KS as [K SL]. pose proof K as [W Nd X Sc].
  assert (KD : kdir c (wfs q) all (L - 1 - (n + m)) (L - 1 - n)) by (eapply xdir_kdir; eassumption).
  pose proof (kd_le _ _ _ _ _ KD) as Hle. fold L in Hle.
  rewrite (cleanup_impl_kw_unfold_d c q (S j) k IFNum n m _ Hk Q), (fixed_of_fixed0 c _ Hts).
  rewrite (list_log_gz_numbers c (wfs q) (woff q) _ _ L Hsfx (kdir_shape _ _ _ _ _ KD)).
  rewrite (listing_no_redundant c _ _ L Hsfx Hle). cbn [remove_redundant negb].
  (* the file being written is at position 0: kept anyway *)
  rewrite cleanup_loop_cur_kept.
  2:{ intros k0 Hk0. cbn [Nat.add]. apply listing_nth_inv in Hk0; [|exact Hle]. destruct Hk0 as [Hk1 Ee].
      assert (k0 = 0).
      { unfold entry in Ee. destruct (L - 1 - n <=? L - 1 - k0).
        - apply rname_inj in Ee. lia.
        - exfalso. exact (gname_ne_rname _ _ _ (eq_sym Ee)). }
      subst k0. apply act_keep. split; [lia | left; lia]. }
  destruct (Nat.le_gt_cases L n) as [HLn|HLn].
  - (* fewer files than the limit: nothing to do *)
    rewrite cleanup_loop_all_keep.
    + exists (Ok tt), (kw q (S j)). split; [reflexivity|]. left. exists (wfs q), j. split; [reflexivity|]. split; [reflexivity|].
      replace (L - (n + m)) with (L - 1 - (n + m)) by lia. replace (L - n) with (L - 1 - n) by lia. exact KS.
    + intros k0 x Hk0. apply listing_nth_inv in Hk0; [|exact Hle]. apply act_keep_below; lia.
  - (* position n: the oldest plain file *)
    assert (Emid : L - (L - 1 - n) = S n) by lia.
    unfold listing. rewrite Emid, rev_map_seq_S, <- app_assoc. cbn [app].
    rewrite cleanup_loop_skip by (intros k0 x Hk0; apply nth_error_rev_map_in in Hk0; apply act_keep_below; lia).
    rewrite rev_map_seq_length. cbn [Nat.add]. rewrite cleanup_loop_cons.
    destruct (kst_plain_lookup c _ _ all None _ _ None (L - 1 - n) K ltac:(fold L; lia)) as (i & Li & Ci).
    destruct (Nat.eq_dec m 0) as [->|Hm0].
    + (* deletion only *)
      rewrite (proj2 (act_remove n (n + 0) n (rname c (L - 1 - n)))) by lia.
      rewrite (p_remove_budget q _ i j Q Li).
      replace (L - 1 - (n + 0) ) with (L - 1 - n) in * by lia.
      replace (L - 1 - n - (L - 1 - n)) with 0 by lia. cbn [seq map rev].
      destruct j as [|j'].
      * exists (Ok tt), (kw q 0). split; [reflexivity|]. right. exists (wfs q), (L - 1 - n), (L - 1 - n), None.
        split; [reflexivity|]. split; [exact KS | lia].
      * eexists (Ok tt), _. split; [reflexivity|]. left. exists (unlink (wfs q) (rname c (L - 1 - n))), j'.
        split; [reflexivity|]. split; [reflexivity|].
        replace (L - (n + 0)) with (S (L - 1 - n)) by lia. replace (L - n) with (S (L - 1 - n)) by lia.
        apply kstd_rm_mid; [exact KS | fold L; lia].
    + (* compression of the oldest plain file *)
      rewrite (proj2 (act_compress n (n + m) n (rname c (L - 1 - n)))) by (split; [lia | apply rname_not_gz; exact Hsfx]).
      destruct (compress_budget_d c q all _ _ j Q KS ltac:(fold L; lia)) as (r1 & w1 & E1 & [(fc & j' & -> & -> & -> & Kc) | (f' & red & -> & Kd)]).
      * rewrite E1.
        destruct (Nat.lt_ge_cases (L - 1 - n) m) as [Hlt|Hge].
        -- (* fewer archives than the limit *)
           rewrite cleanup_loop_all_keep.
           ++ eexists (Ok tt), _. split; [reflexivity|]. left. exists fc, j'. split; [reflexivity|]. split; [reflexivity|].
              replace (L - (n + m)) with (L - 1 - (n + m)) by lia. replace (L - n) with (S (L - 1 - n)) by lia. exact Kc.
           ++ intros k0 x Hk0. apply nth_error_rev_map_in in Hk0. destruct Hk0 as (Hk1 & i0 & _ & ->).
              apply act_keep_gz; [lia | apply gname_is_gz].
        -- (* the oldest archive is removed *)
           assert (Ear : L - 1 - n - (L - 1 - (n + m)) = S (m - 1)) by lia.
           rewrite Ear, rev_map_seq_S.
           rewrite cleanup_loop_skip by (intros k0 x Hk0; apply nth_error_rev_map_in in Hk0; destruct Hk0 as (Hk1 & i0 & _ & ->);
                                          apply act_keep_gz; [lia | apply gname_is_gz]).
           rewrite rev_map_seq_length. replace (S n + (m - 1)) with (n + m) by lia. rewrite cleanup_loop_cons.
           rewrite (proj2 (act_remove n (n + m) (n + m) (gname c (L - 1 - (n + m))))) by lia.
           destruct (kst_arch_lookup c _ _ all None _ _ None (L - 1 - (n + m)) (proj1 Kc) ltac:(lia)) as (ig & Lig).
           rewrite (p_remove_budget (set_fs q fc) _ ig j' (quiet_set_fs2 q fc Q) Lig).
           destruct j' as [|j''].
           ++ eexists (Ok tt), _. split; [reflexivity|]. right. exists fc, (L - 1 - (n + m)), (S (L - 1 - n)), None.
              split; [reflexivity|]. split; [exact Kc | lia].
           ++ eexists (Ok tt), _. split; [reflexivity|]. left. exists (unlink fc (gname c (L - 1 - (n + m)))), j''.
              split; [reflexivity|]. split; [reflexivity|].
              replace (L - (n + m)) with (S (L - 1 - (n + m))) by lia. replace (L - n) with (S (L - 1 - n)) by lia.
              apply kstd_rm_lo; [exact Kc | lia].
      * rewrite E1.
        destruct (loop_tail_dead (kw (set_fs q f') 0) (rev (map (gname c) (seq (L - 1 - (n + m)) (L - 1 - n - (L - 1 - (n + m)))))) (S n) n (n + m) r1
                    (dead_kw _ (quiet_set_fs2 q f' Q))) as [r2 E2].
        rewrite E2. eexists _, _. split; [reflexivity|]. right. exists f', (L - 1 - (n + m)), (L - 1 - n), red.
        split; [reflexivity|]. split; [exact Kd | lia].
Qed.
