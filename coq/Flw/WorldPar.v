(* The model never inspects the symlink target, the error channel or (below cleanup_or_queue) the counter of queued
   cleanup requests; and a process that is not being killed stays so.

   X l es n w  is the world w with the link replaced by l, the errors es put in front of the error channel, the
   request counter replaced by n, and no kill pending.  Every world without a pending kill has this form (alive_X).
   For every function f of the model that works on the world:
       exists result and world w', forall l es n,  f (X l es n w) = (result, X l es n w')            (U1, U2, U3)
   that is: the result and what happens to the file system, the clock and the fault oracle do not depend on l, es, n;
   the link and the counter are handed on unchanged; errors are only appended; no kill appears.
   (open_log_file: for configurations without symlink.)  No statement here is specific to a naming scheme. *)
Require Import FL.Base.Bytes FL.Base.BytesFacts FL.Base.PathName FL.Fs.Fs FL.Fs.FsFacts FL.Time.Civil FL.Time.TsFormat
  FL.Names.FileSpec FL.Flw.Model FL.Flw.ModelFacts.
Open Scope nat_scope.

Definition X (l : option bytes) (es : list ecode) (n : nat) (w : world) : world :=
  {| wfs := wfs w; wnow := wnow w; woff := woff w; wfaults := wfaults w; wkill := None; werrs := es ++ werrs w;
     wlink := l; wacts := n |}.

Ltac xs := cbn [X wfs wnow woff wfaults wkill werrs wlink wacts].
Ltac red_let := cbv beta iota zeta.

Lemma alive_X w : wkill w = None -> w = X (wlink w) [] (wacts w) w.
Proof. destruct w; cbn. intros ->. reflexivity. Qed.

Lemma X_X l es n l' es' n' w : X l es n (X l' es' n' w) = X l (es ++ es') n w.
Proof. unfold X. cbn. rewrite app_assoc. reflexivity. Qed.

Definition U1 (f : world -> world) (w : world) : Prop :=
  exists w', forall l es n, f (X l es n w) = X l es n w'.
Definition U2 {A} (f : world -> A * world) (w : world) : Prop :=
  exists a w', forall l es n, f (X l es n w) = (a, X l es n w').
Definition U3 {A B} (f : world -> A * world * B) (w : world) : Prop :=
  exists a w' b, forall l es n, f (X l es n w) = (a, X l es n w', b).

(* ------------------------------------------------------------------ primitives *)
Lemma tick_X l es n w : tick (X l es n w) = (fst (tick w), X l es n (snd (tick w))).
Proof. unfold tick. xs. destruct (wfaults w); reflexivity. Qed.
Lemma tick_U w : U2 tick w.
Proof. exists (fst (tick w)), (snd (tick w)). intros. apply tick_X. Qed.

Lemma effect_X l es n w g : effect (X l es n w) g = X l es n (set_fs w (g (wfs w))).
Proof. reflexivity. Qed.

Definition rep (e : ecode) (w : world) : world :=
  {| wfs := wfs w; wnow := wnow w; woff := woff w; wfaults := wfaults w; wkill := wkill w; werrs := werrs w ++ [e];
     wlink := wlink w; wacts := wacts w |}.
Lemma report_X e l es n w : report e (X l es n w) = X l es n (rep e w).
Proof. unfold report, X, rep. cbn. rewrite app_assoc. reflexivity. Qed.
Lemma set_acts_X l es n w m : set_acts (X l es n w) m = X l es m w.
Proof. reflexivity. Qed.

Lemma p_rename_U a b w : U2 (fun W => p_rename W a b) w.
Proof.
  unfold U2, p_rename. destruct (tick_U w) as [flt [w1 T]].
  destruct flt; [exists RErr, w1; intros; rewrite T; reflexivity|].
  destruct (rename (wfs w1) a b) as [f'|] eqn:Er.
  - eexists _, _. intros. rewrite T. red_let. xs. rewrite Er, effect_X. reflexivity.
  - exists RNotFound, w1. intros. rewrite T. red_let. xs. rewrite Er. reflexivity.
Qed.

Lemma p_remove_U a w : U2 (fun W => p_remove W a) w.
Proof.
  unfold U2, p_remove. destruct (tick_U w) as [flt [w1 T]].
  destruct flt; [exists false, w1; intros; rewrite T; reflexivity|].
  destruct (lookup (wfs w1) a) as [j|] eqn:El.
  - eexists _, _. intros. rewrite T. red_let. xs. rewrite El, effect_X. reflexivity.
  - exists false, w1. intros. rewrite T. red_let. xs. rewrite El. reflexivity.
Qed.

Lemma p_open_U name app w : U2 (fun W => p_open W name app) w.
Proof.
  unfold U2, p_open. destruct (tick_U w) as [flt [w1 T]].
  destruct flt; [exists None, w1; intros; rewrite T; reflexivity|].
  destruct (match file_of (wfs w1) name with Some fl => fdir fl | None => false end) eqn:Ed.
  - exists None, w1. intros. rewrite T. red_let. xs. rewrite Ed. reflexivity.
  - eexists _, _. intros. rewrite T. red_let. xs. rewrite Ed, effect_X. reflexivity.
Qed.

Lemma p_write_U i b w : U2 (fun W => p_write W i b) w.
Proof.
  unfold U2, p_write. destruct b as [|x b]; [exists true, w; reflexivity|].
  destruct (tick_U w) as [flt [w1 T]].
  destruct flt; [exists false, w1; intros; rewrite T; reflexivity|].
  eexists _, _. intros. rewrite T. red_let. rewrite effect_X. reflexivity.
Qed.

(* ------------------------------------------------------------------ the buffered writer *)
Lemma w_flush_U wr w : U3 (fun W => w_flush W wr) w.
Proof.
  unfold U3, w_flush. destruct (p_write_U (wino wr) (wpend wr) w) as [ok [w1 E]].
  destruct ok; eexists _, _, _; intros; rewrite E; reflexivity.
Qed.

Lemma w_write_U wr b w : U3 (fun W => w_write W wr b) w.
Proof.
  unfold U3, w_write. destruct (wcap wr) as [c|].
  - destruct (Nat.ltb (length b) (c - length (wpend wr))); [eexists _, _, _; intros; reflexivity|].
    destruct (Nat.ltb (c - length (wpend wr)) (length b)).
    + destruct (w_flush_U wr w) as [ok1 [w1 [wr1 EF]]]. destruct ok1.
      * destruct (Nat.leb c (length b)).
        -- destruct (p_write_U (wino wr1) b w1) as [ok [w2 EP]].
           eexists _, _, _. intros. rewrite EF. red_let. rewrite EP. reflexivity.
        -- eexists _, _, _. intros. rewrite EF. reflexivity.
      * eexists _, _, _. intros. rewrite EF. reflexivity.
    + destruct (Nat.leb c (length b)).
      * destruct (p_write_U (wino wr) b w) as [ok [w2 EP]].
        eexists _, _, _. intros. red_let. rewrite EP. reflexivity.
      * eexists _, _, _. intros. reflexivity.
  - destruct (p_write_U (wino wr) b w) as [ok [w2 EP]].
    eexists _, _, _. intros. rewrite EP. reflexivity.
Qed.

Lemma w_drop_U wr w : U1 (fun W => w_drop W wr) w.
Proof.
  unfold U1, w_drop. destruct (w_flush_U wr w) as [ok [w1 [wr1 E]]]. exists w1. intros. rewrite E. reflexivity.
Qed.

(* ------------------------------------------------------------------ names and time: read-only *)
Lemma fixed_of_X c l es n w : fixed_of c (X l es n w) = fixed_of c w.
Proof. reflexivity. Qed.
Lemma name_of_X c l es n w o : name_of c (X l es n w) o = name_of c w o.
Proof. reflexivity. Qed.
Lemma infix_from_ts_X c l es n w fmt t : infix_from_ts c (X l es n w) fmt t = infix_from_ts c w fmt t.
Proof. reflexivity. Qed.
Lemma birth_or_now_X l es n w p : birth_or_now (X l es n w) p = birth_or_now w p.
Proof. reflexivity. Qed.
Lemma rotation_necessary_X l es n w r : rotation_necessary (X l es n w) r = rotation_necessary w r.
Proof. reflexivity. Qed.
Lemma reset_size_and_date_X l es n w r p : reset_size_and_date (X l es n w) r p = reset_size_and_date w r p.
Proof. reflexivity. Qed.

Ltac lf :=
  intros;
  repeat first
    [ rewrite effect_X | rewrite fixed_of_X | rewrite name_of_X | rewrite infix_from_ts_X | rewrite birth_or_now_X
    | progress red_let | progress xs | progress cbn [bind]
    | match goal with H : forall (l : option bytes) (es : list ecode) (n : nat), _ = _ |- _ => rewrite H end
    | match goal with H : _ = _ |- _ => rewrite H end ];
  reflexivity.

(* ------------------------------------------------------------------ cleanup *)
Lemma compress_file_U nm w : U2 (fun W => compress_file W nm) w.
Proof.
  unfold U2, compress_file. destruct (tick_U w) as [f1 [w1 T1]].
  destruct f1; [exists false, w1; lf|].
  destruct (match file_of (wfs w1) (gz_name nm) with Some fl => fdir fl | None => false end) eqn:Ed.
  { exists false, w1. lf. }
  destruct (tick_U (set_fs w1 (fst (open_trunc (wfs w1) (gz_name nm) 2%N (wnow w1))))) as [f2 [w3 T2]].
  destruct f2; [eexists _, _; lf|].
  destruct (lookup (wfs w3) nm) as [src|] eqn:El; [|eexists _, _; lf].
  destruct (tick_U w3) as [f3 [w4 T3]].
  destruct f3; [eexists _, _; lf|].
  destruct (tick_U (set_fs w4 (wfs w4))) as [f4 [w6 T4]].
  destruct f4; [eexists _, _; lf|].
  destruct (p_remove_U nm (set_fs w6 (set_gz (wfs w6) (snd (open_trunc (wfs w1) (gz_name nm) 2%N (wnow w1))) 1%N (content (wfs w3) src))))
    as [ok [w8 ER]].
  eexists _, _. lf.
Qed.

Lemma cleanup_loop_U ll total cur : forall files w idx, U2 (fun W => cleanup_loop W files idx ll total cur) w.
Proof.
  induction files as [|nm r IH]; intros w idx; unfold U2; cbn [cleanup_loop].
  - exists true, w. reflexivity.
  - destruct (match cur with Some p => beq p nm | None => false end); [apply IH|].
    assert (C : exists a w', forall l es n,
               (let '(ok, w1) := compress_file (X l es n w) nm in
                if ok then cleanup_loop w1 r (S idx) ll total cur else (false, w1)) = (a, X l es n w')).
    { destruct (compress_file_U nm w) as [ok [w1 E]]. destruct ok.
      - destruct (IH w1 (S idx)) as [a [w2 E2]]. exists a, w2. intros. rewrite E. apply E2.
      - exists false, w1. intros. rewrite E. reflexivity. }
    destruct (Nat.leb total idx).
    + destruct (p_remove_U nm w) as [ok [w1 E]]. destruct ok.
      * destruct (IH w1 (S idx)) as [a [w2 E2]]. exists a, w2. intros. rewrite E. apply E2.
      * exists false, w1. intros. rewrite E. reflexivity.
    + destruct (Nat.leb ll idx); [|apply IH].
      destruct (extension nm) as [e|]; [|exact C]. destruct (beq e gz_sfx); [apply IH | exact C].
Qed.

Lemma remove_redundant_U : forall red files w, U3 (fun W => remove_redundant W red files) w.
Proof.
  induction red as [|nm r IH]; intros files w; unfold U3; cbn [remove_redundant].
  - exists true, w, files. reflexivity.
  - destruct (p_remove_U nm w) as [ok [w1 E]]. destruct ok.
    + destruct (IH (filter (fun m => negb (beq m nm)) files) w1) as [a [w2 [b E2]]]. exists a, w2, b. intros. rewrite E. apply E2.
    + exists false, w1, files. intros. rewrite E. reflexivity.
Qed.

Lemma cleanup_impl_U c k flt cur w : U2 (fun W => cleanup_impl c W k flt cur) w.
Proof.
  assert (G : forall ll tot, exists a w', forall l es n,
            (let '(fl, w1) := tick (X l es n w) in
             if fl then (Err, w1) else
             match list_log_gz (woff w1) (c_spec c) (fixed_of c w1) (wfs w1) flt with
             | None => (Panic, w1)
             | Some files =>
               let '(ok0, w1', files') := remove_redundant w1 (redundant_gz files) files in
               if negb ok0 then (Err, w1') else
               let '(ok, w2) := cleanup_loop w1' files' 0 ll tot cur in
               ((if ok then Ok tt else Err), w2)
             end) = (a, X l es n w')).
  { intros ll tot. destruct (tick_U w) as [fl [w1 T]]. destruct fl; [exists Err, w1; lf|].
    destruct (list_log_gz (woff w1) (c_spec c) (fixed_of c w1) (wfs w1) flt) as [files|] eqn:El; [|exists Panic, w1; lf].
    destruct (remove_redundant_U (redundant_gz files) files w1) as [ok0 [w1' [files' ER]]].
    destruct ok0; [|exists Err, w1'; lf].
    destruct (cleanup_loop_U ll tot cur files' w1' 0) as [ok [w2 EC]].
    eexists _, _. lf. }
  unfold U2, cleanup_impl. destruct k; [exists (Ok tt), w; reflexivity | | |]; apply G.
Qed.

(* ------------------------------------------------------------------ naming *)
Lemma bind_U {A B} (f : world -> res A * world) (g : A -> world -> res B * world) w :
  U2 f w -> (forall a w1, U2 (g a) w1) -> U2 (fun W => bind (f W) g) w.
Proof.
  intros [r [w1 E]] H. destruct r as [a| |].
  - destruct (H a w1) as [b [w2 E2]]. exists b, w2. intros. rewrite E. apply E2.
  - exists Err, w1. intros. rewrite E. reflexivity.
  - exists Panic, w1. intros. rewrite E. reflexivity.
Qed.

Lemma with_listing_U {A} (g : world -> option A) w :
  (forall l es n w, g (X l es n w) = g w) -> U2 (fun W => with_listing W g) w.
Proof.
  intros Hg. unfold U2, with_listing. destruct (tick_U w) as [fl [w1 T]]. destruct fl; [exists Err, w1; lf|].
  destruct (g w1) as [a|] eqn:Eg; [exists (Ok a), w1 | exists Panic, w1]; intros; rewrite T; red_let; rewrite Hg, Eg; reflexivity.
Qed.

Lemma index_for_rcurrent_U c o_idx rotate w : U2 (fun W => index_for_rcurrent c W o_idx rotate) w.
Proof.
  assert (A : U2 (fun W => match o_idx with
                           | Some i => (Ok i, W)
                           | None => with_listing W (fun w' =>
                               match get_highest_index (woff w') (c_spec c) (fixed_of c w') (wfs w') with
                               | None => None | Some (Some i) => Some (i + 1)%N | Some None => Some 0%N end)
                           end) w).
  { destruct o_idx as [i|]; [exists (Ok i), w; reflexivity|]. apply with_listing_U. reflexivity. }
  destruct A as [r0 [w0 E0]]. unfold U2, index_for_rcurrent.
  destruct r0 as [idx| |]; [|exists Err, w0; intros; rewrite E0; reflexivity | exists Panic, w0; intros; rewrite E0; reflexivity].
  destruct rotate; [|exists (Ok idx), w0; intros; rewrite E0; reflexivity].
  destruct (p_rename_U (name_of c w0 (Some cur_infix)) (name_of c w0 (Some (number_infix idx))) w0) as [r [w1 E1]].
  destruct r; eexists _, _; intros; rewrite E0; red_let; rewrite !name_of_X, E1; reflexivity.
Qed.

Lemma collision_free_U c infix w : U2 (fun W => collision_free c W infix) w.
Proof.
  unfold U2, collision_free. destruct (tick_U w) as [f1 [w1 T1]]. destruct f1; [exists Err, w1; lf|].
  destruct (tick_U w1) as [f2 [w2 T2]]. destruct f2; [exists Err, w2; lf|].
  destruct (collision_free_infix (woff w2) (c_spec c) (fixed_of c w2) (wfs w2) infix) as [[i|]|] eqn:Ec; eexists _, _; lf.
Qed.

Lemma creation_ts_of_current_U c cur rotate o_date fmt w : U2 (fun W => creation_ts_of_current c W cur rotate o_date fmt) w.
Proof.
  unfold U2, creation_ts_of_current. destruct rotate; [|eexists _, _; lf].
  destruct (collision_free_U c (infix_from_ts c w fmt (match o_date with Some d => d | None => birth_or_now w (name_of c w (Some cur)) end)) w)
    as [r [w1 E1]].
  destruct r as [infix| |]; [|exists Err, w1; lf | exists Panic, w1; lf].
  destruct (p_rename_U (name_of c w (Some cur)) (name_of c w1 (Some infix)) w1) as [rr [w2 E2]].
  destruct rr; eexists _, _; lf.
Qed.

Lemma latest_timestamp_file_U c rotate fmt w : U2 (fun W => latest_timestamp_file c W rotate fmt) w.
Proof.
  unfold latest_timestamp_file. destruct rotate; [exists (Ok (wnow w)), w; reflexivity|].
  apply with_listing_U. reflexivity.
Qed.

Lemma roll_new_U crit app path w : U2 (fun W => roll_new W crit app path) w.
Proof.
  unfold U2, roll_new. destruct app; [|eexists _, _; lf].
  destruct (tick_U w) as [fl [w1 T]]. destruct fl; [exists Err, w1; lf|].
  destruct (file_of (wfs w1) path) as [f|] eqn:Ef; eexists _, _; lf.
Qed.

Lemma init_naming_U c nam w : U2 (fun W => init_naming c W nam) w.
Proof.
  assert (D : forall fmt, U2 (fun W =>
            bind (latest_timestamp_file c W (negb (c_append c)) fmt)
              (fun ts w1 =>
                 let infix := infix_from_ts c w1 fmt ts in
                 bind (collision_free c w1 infix)
                   (fun next w2 =>
                      if c_append c then
                        match newest_of_next infix next with
                        | None => (Ok (NSTs ts None fmt, next), w2)
                        | Some newest =>
                          match lookup (wfs w2) (name_of c w2 (Some newest)) with
                          | Some _ => (Ok (NSTs ts None fmt, newest), w2)
                          | None => (Ok (NSTs ts None fmt, next), w2)
                          end
                        end
                      else (Ok (NSTs ts None fmt, next), w2)))) w).
  { intros fmt. apply bind_U; [apply latest_timestamp_file_U|]. intros ts w1. unfold U2.
    destruct (collision_free_U c (infix_from_ts c w1 fmt ts) w1) as [r [w2 E]].
    destruct r as [next| |]; [|exists Err, w2; lf | exists Panic, w2; lf].
    destruct (c_append c); [|eexists _, _; lf].
    destruct (newest_of_next (infix_from_ts c w1 fmt ts) next) as [newest|] eqn:En; [|eexists _, _; lf].
    destruct (lookup (wfs w2) (name_of c w2 (Some newest))) eqn:El; eexists _, _; lf. }
  assert (C : forall cur fmt, U2 (fun W =>
            bind (creation_ts_of_current c W cur (negb (c_append c)) None fmt)
              (fun ts w1 => (Ok (NSTs ts (Some cur) fmt, cur), w1))) w).
  { intros cur fmt. apply bind_U; [apply creation_ts_of_current_U|]. intros ts w1. eexists _, _. reflexivity. }
  unfold init_naming. destruct nam as [| |[cur|] fmt| |].
  - apply C.
  - apply D.
  - apply C.
  - apply D.
  - apply bind_U; [apply index_for_rcurrent_U|]. intros idx w1. eexists _, _. reflexivity.
  - apply bind_U; [apply with_listing_U; reflexivity|]. intros o w1. destruct o as [i|]; eexists _, _; lf.
Qed.

(* ------------------------------------------------------------------ corollaries for a single world *)
Definition noerr (w : world) : world :=
  {| wfs := wfs w; wnow := wnow w; woff := woff w; wfaults := wfaults w; wkill := wkill w; werrs := [];
     wlink := wlink w; wacts := wacts w |}.
Lemma X_noerr l n w : X l (werrs w) n (noerr w) = X l [] n w.
Proof. unfold X, noerr. cbn. rewrite app_nil_r. reflexivity. Qed.
Lemma grow_help l n' n2 w w' w2 : X l [] n' w' = X l (werrs w) n2 w2 -> exists e, werrs w' = werrs w ++ e.
Proof. intros H. apply (f_equal werrs) in H. cbn in H. eauto. Qed.

(* what a function with the uniformity property does to a world without a pending kill *)
Lemma U2_env {A} (f : world -> A * world) w a w1 : U2 f w -> wkill w = None -> f w = (a, w1) ->
  wkill w1 = None /\ wacts w1 = wacts w /\ wlink w1 = wlink w.
Proof.
  intros [a' [w' E]] K H. rewrite (alive_X w K), E in H. injection H as _ <-. repeat split.
Qed.
Lemma U3_env {A B} (f : world -> A * world * B) w a w1 b : U3 f w -> wkill w = None -> f w = (a, w1, b) ->
  wkill w1 = None /\ wacts w1 = wacts w /\ wlink w1 = wlink w.
Proof.
  intros [a' [w' [b' E]]] K H. rewrite (alive_X w K), E in H. injection H as _ <- _. repeat split.
Qed.
Lemma U1_env (f : world -> world) w : U1 f w -> wkill w = None ->
  wkill (f w) = None /\ wacts (f w) = wacts w /\ wlink (f w) = wlink w.
Proof. intros [w' E] K. rewrite (alive_X w K), E. repeat split. Qed.

(* ------------------------------------------------------------------ the symlink; open_log_file *)
Lemma do_symlink_X c l es n w p : do_symlink c (X l es n w) p = X (if c_symlink c then Some p else l) es n w.
Proof. unfold do_symlink. destruct (c_symlink c); [|reflexivity]. destruct l; reflexivity. Qed.

Definition upd (ol l : option bytes) : option bytes := match ol with Some p => Some p | None => l end.

(* the link that open_log_file leaves: with a configured symlink the path that is (about to be) opened *)
Definition link_of (c : config) (w : world) (i : option bytes) : option bytes :=
  if c_symlink c then Some (name_of c w i) else None.

Lemma open_log_file_X c i w : exists r w', forall l es n,
  open_log_file c (X l es n w) i = (r, X (upd (link_of c w i) l) es n w').
Proof.
  unfold open_log_file, link_of. destruct (p_open_U (name_of c w i) (c_append c) w) as [o [w2 E]].
  destruct o as [ino|]; eexists _, _; intros; rewrite do_symlink_X, name_of_X; red_let;
    (replace (if c_symlink c then Some (name_of c w i) else l) with (upd (if c_symlink c then Some (name_of c w i) else None) l)
       by (destruct (c_symlink c); reflexivity)); rewrite E; reflexivity.
Qed.

Lemma open_log_file_path c w i wr p w' : open_log_file c w i = (Ok (wr, p), w') -> p = name_of c w i.
Proof.
  unfold open_log_file. destruct (p_open (do_symlink c w (name_of c w i)) (name_of c w i) (c_append c)) as [[ino|] w2]; [|discriminate].
  intros E. injection E as _ <- _. reflexivity.
Qed.

(* ------------------------------------------------------------------ above the cleanup: the request counter is tracked *)
Definition V2 {A} (f : world -> A * world) (n : nat) (w : world) : Prop :=
  exists a w' n', forall l es, f (X l es n w) = (a, X l es n' w').

Lemma cleanup_or_queue_V c bg k flt cur n w : V2 (fun W => cleanup_or_queue c W bg k flt cur) n w.
Proof.
  unfold V2, cleanup_or_queue. destruct bg.
  - assert (G : exists a w' n', forall l es,
              (if Nat.eqb (wacts (X l es n w)) 1 then (Ok tt, X l es n w) else
               match cleanup_impl c (X l es n w) k flt cur with
               | (Panic, w1) => (Ok tt, set_acts w1 1)
               | (_, w1) => (Ok tt, w1)
               end) = (a, X l es n' w')).
    { xs. destruct (Nat.eqb n 1); [exists (Ok tt), w, n; reflexivity|].
      destruct (cleanup_impl_U c k flt cur w) as [r [w1 E]].
      destruct r as [u| |]; [exists (Ok tt), w1, n | exists (Ok tt), w1, n | exists (Ok tt), w1, 1]; intros; rewrite E; reflexivity. }
    destruct k; [exists (Ok tt), w, n; reflexivity | | |]; exact G.
  - destruct (cleanup_impl_U c k flt cur w) as [r [w1 E]]. exists r, w1, n. intros. apply E.
Qed.

(* ------------------------------------------------------------------ flush, shutdown, drop: no configuration involved *)
Lemma flush_state_U s w : U3 (fun W => flush_state s W) w.
Proof.
  unfold U3, flush_state. destruct (f_inner s) as [|o wr p]; [exists true, w, s; reflexivity|].
  destruct (w_flush_U wr w) as [ok [w1 [wr1 E]]]. eexists _, _, _. intros. rewrite E. reflexivity.
Qed.

Lemma shutdown_state_U s w : exists w' s', forall l es n, shutdown_state s (X l es n w) = (X l es n w', s').
Proof.
  unfold shutdown_state, drain_acts. destruct (f_inner s) as [|o wr p]; [exists w, s; reflexivity|].
  destruct (w_flush_U wr w) as [ok [w1 [wr1 E]]]. destruct ok; eexists _, _; intros; rewrite E; red_let; rewrite ?report_X; reflexivity.
Qed.

Lemma drop_state_U s w : U1 (fun W => drop_state s W) w.
Proof.
  unfold U1, drop_state. destruct (shutdown_state_U s w) as [w1 [s1 E1]]. destruct (shutdown_state_U s1 w1) as [w2 [s2 E2]].
  destruct (f_inner s2) as [|o wr p] eqn:Ei.
  - exists w2. intros. rewrite E1, E2, Ei. reflexivity.
  - destruct (w_drop_U wr w2) as [w3 E3]. exists w3. intros. rewrite E1, E2, Ei. apply E3.
Qed.

(* ------------------------------------------------------------------ initialize, mount_next, write_buffer with the opening
   function as a parameter: Model.initialize c = initialize_g (open_log_file c) c, and so on (by computation) *)
Definition opn_t := world -> option bytes -> res (writer * bytes) * world.

Definition initialize_g (o : opn_t) (c : config) (w : world) : res inner * world :=
  match c_rot c with
  | None =>
    bind (o w None) (fun wp w1 => (Ok (Active None (fst wp) (snd wp)), w1))
  | Some (crit, nam, k) =>
    bind (init_naming c w nam) (fun ni w1 =>
    let '(ns, infix) := ni in
    bind (o w1 (Some infix)) (fun wp w2 =>
    let '(wr, path) := wp in
    bind (roll_new w2 crit (c_append c) path) (fun roll w3 =>
    bind (match k with
          | KNever => (Ok tt, w3)
          | _ => cleanup_impl c w3 k (ns_filter ns) (if naming_writes_direct nam then Some path else None)
          end) (fun _ w4 =>
    let bg := match k with KNever => false | _ => c_bg c end in
    (Ok (Active (Some {| rs_naming := ns; rs_roll := roll; rs_cleanup := k; rs_bg := bg |}) wr path),
     if bg then set_acts w4 0 else w4)))))
  end.

Definition next_naming (c : config) (w : world) (ns : naming_state) : res bytes * world * naming_state :=
  match ns with
  | NSTs ts (Some cur) fmt =>
    match creation_ts_of_current c w cur true (Some ts) fmt with
    | (Ok ts', w') => (Ok cur, w', NSTs ts' (Some cur) fmt)
    | (Err, w') => (Err, w', ns)
    | (Panic, w') => (Panic, w', ns)
    end
  | NSTs _ None fmt =>
    let ts' := wnow w in
    match collision_free c w (infix_from_ts c w fmt ts') with
    | (Ok i, w') => (Ok i, w', NSTs ts' None fmt)
    | (Err, w') => (Err, w', NSTs ts' None fmt)
    | (Panic, w') => (Panic, w', NSTs ts' None fmt)
    end
  | NSNumR idx =>
    match index_for_rcurrent c w (Some idx) true with
    | (Ok idx', w') => (Ok cur_infix, w', NSNumR idx')
    | (Err, w') => (Err, w', NSNumR idx)
    | (Panic, w') => (Panic, w', NSNumR idx)
    end
  | NSNumD idx => (Ok (number_infix (idx + 1)), w, NSNumD (idx + 1))
  end.

Definition finish_rotation (c : config) (w2 : world) (rs : rot_state) (ns1 : naming_state) (wr wr' : writer) (path' : bytes)
  : res unit * world * inner :=
  let '(okf, w2a, wra) := w_flush w2 wr in
  let w2b := if okf then w2a else report EFlush w2a in
  let w3 := w_drop w2b wra in
  let roll' := reset_size_and_date w3 (rs_roll rs) path' in
  let '(rc, w4) := cleanup_or_queue c w3 (rs_bg rs) (rs_cleanup rs) (ns_filter ns1) (if ns_writes_direct ns1 then Some path' else None) in
  let st' := Active (Some {| rs_naming := ns1; rs_roll := roll'; rs_cleanup := rs_cleanup rs; rs_bg := rs_bg rs |}) wr' path' in
  (match rc with Ok _ => Ok tt | Err => Err | Panic => Panic end, w4, st').

Definition mount_next_g (o : opn_t) (c : config) (w : world) (st : inner) (force : bool) : res unit * world * inner :=
  match st with
  | Active (Some rs) wr path =>
    if force || rotation_necessary w (rs_roll rs) then
      let with_ns ns := Active (Some {| rs_naming := ns; rs_roll := rs_roll rs; rs_cleanup := rs_cleanup rs; rs_bg := rs_bg rs |}) wr path in
      let '(r, w1, ns1) := next_naming c w (rs_naming rs) in
      match r with
      | Ok infix =>
        match o w1 (Some infix) with
        | (Ok (wr', path'), w2) => finish_rotation c w2 rs ns1 wr wr' path'
        | (Err, w2) => (Err, w2, with_ns ns1)
        | (Panic, w2) => (Panic, w2, with_ns ns1)
        end
      | Err => (Err, w1, with_ns ns1)
      | Panic => (Panic, w1, with_ns ns1)
      end
    else (Ok tt, w, st)
  | _ => (Ok tt, w, st)
  end.

Definition init_part (o : opn_t) (c : config) (w : world) (i : inner) : res unit * world * inner :=
  match i with
  | Initial => match initialize_g o c w with
               | (Ok i, w') => (Ok tt, w', i)
               | (Err, w') => (Err, w', Initial)
               | (Panic, w') => (Panic, w', Initial)
               end
  | i => (Ok tt, w, i)
  end.

Definition write_rest (o : opn_t) (s : flw) (w0 : world) (st0 : inner) (b : bytes) : res unit * world * flw * bool :=
  let rotating := match st0 with
                  | Active (Some rs) _ _ => rotation_necessary w0 (rs_roll rs)
                  | _ => false end in
  let '(r1, w1, st1) := mount_next_g o (f_cfg s) w0 st0 false in
  match r1 with
  | Panic => (Panic, w1, poison (with_inner s st1), rotating)
  | _ =>
    let w2 := match r1 with Err => report ELogFile w1 | _ => w1 end in
    match st1 with
    | Active o_rot wr path =>
      let '(ok, w3, wr') := w_write w2 wr b in
      if ok then
        let o_rot' := match o_rot with
                      | Some rs => Some {| rs_naming := rs_naming rs; rs_roll := increase_size (rs_roll rs) (N.of_nat (length b));
                                           rs_cleanup := rs_cleanup rs; rs_bg := rs_bg rs |}
                      | None => None end in
        (Ok tt, w3, with_inner s (Active o_rot' wr' path), rotating)
      else (Err, w3, with_inner s (Active o_rot wr' path), rotating)
    | Initial => (Ok tt, w2, with_inner s st1, rotating)
    end
  end.

Definition write_buffer_g (o : opn_t) (s : flw) (w : world) (b : bytes) : res unit * world * flw * bool :=
  let '(r0, w0, st0) := init_part o (f_cfg s) w (f_inner s) in
  match r0 with
  | Ok _ => write_rest o s w0 st0 b
  | Err => (Err, w0, with_inner s st0, false)
  | Panic => (Panic, w0, poison (with_inner s st0), false)
  end.

Lemma initialize_g_eq c w : initialize c w = initialize_g (open_log_file c) c w.
Proof. reflexivity. Qed.
Lemma mount_next_g_eq c w st f : mount_next c w st f = mount_next_g (open_log_file c) c w st f.
Proof. reflexivity. Qed.
Lemma write_buffer_g_eq s w b : write_buffer s w b = write_buffer_g (open_log_file (f_cfg s)) s w b.
Proof.
  unfold write_buffer, write_buffer_g, init_part, write_rest. rewrite <- initialize_g_eq.
  destruct (f_inner s) as [|o wr p].
  - destruct (initialize (f_cfg s) w) as [[i| |] w0]; reflexivity.
  - reflexivity.
Qed.

(* ------------------------------------------------------------------ two opening functions that differ in the link only *)
Definition nolink (c : config) : config :=
  {| c_spec := c_spec c; c_append := c_append c; c_cap := c_cap c; c_rot := c_rot c; c_utc := c_utc c;
     c_symlink := false; c_bg := c_bg c; c_async := c_async c; c_start := c_start c |}.

Lemma nolink_id c : c_symlink c = false -> nolink c = c.
Proof. destruct c; cbn. intros ->. reflexivity. Qed.

(* the writer state is consistent with the link l (l0: the link before the writer was initialised) *)
Definition link_st (l0 l : option bytes) (st : inner) : Prop :=
  match st with Active _ _ p => l = Some p | Initial => l = l0 end.

(* o1 leaves the link alone, o2 sets it (ol = Some p) or not (ol = None), otherwise they do the same;
   good: o2 sets the link to the path it returns *)
Definition OPs (good : Prop) (o1 o2 : opn_t) : Prop :=
  forall w i, exists r w' ol,
    (forall l es n, o1 (X l es n w) i = (r, X l es n w'))
    /\ (forall l es n, o2 (X l es n w) i = (r, X (upd ol l) es n w'))
    /\ (good -> forall wr p, r = Ok (wr, p) -> ol = Some p).

Lemma OPs_left good o1 o2 : OPs good o1 o2 -> OPs False o1 o1.
Proof.
  intros H w i. destruct (H w i) as [r [w' [ol [A _]]]]. exists r, w', None. split; [exact A|]. split; [exact A | intros []].
Qed.

Lemma OPs_nolink c : OPs (c_symlink c = true) (open_log_file (nolink c)) (open_log_file c).
Proof.
  intros w i. destruct (p_open_U (name_of c w i) (c_append c) w) as [o [w2 E]].
  exists (match o with Some ino => Ok ({| wino := ino; wpend := []; wcap := c_cap c |}, name_of c w i) | None => Err end), w2, (link_of c w i).
  split; [|split].
  - intros. unfold open_log_file. rewrite do_symlink_X. cbn [nolink c_symlink c_append c_cap].
    change (name_of (nolink c) (X l es n w) i) with (name_of c w i). rewrite E. destruct o; reflexivity.
  - intros. unfold open_log_file, link_of. rewrite do_symlink_X, name_of_X.
    replace (if c_symlink c then Some (name_of c w i) else l) with (upd (if c_symlink c then Some (name_of c w i) else None) l)
      by (destruct (c_symlink c); reflexivity).
    rewrite E. destruct o; reflexivity.
  - intros Hs wr p. unfold link_of. rewrite Hs. destruct o; [|discriminate]. intros H. injection H as _ <-. reflexivity.
Qed.

Lemma OPs_same c : c_symlink c = false -> OPs False (open_log_file c) (open_log_file c).
Proof. intros H. pose proof (OPs_left _ _ _ (OPs_nolink c)) as P. rewrite (nolink_id c H) in P. exact P. Qed.

Section Pair.
Variables (good : Prop) (o1 o2 : opn_t).
Hypothesis OP : OPs good o1 o2.

Lemma initialize_g_pair c n w :
  exists r w' n' ol,
    (forall l es, initialize_g o1 c (X l es n w) = (r, X l es n' w'))
    /\ (forall l es, initialize_g o2 c (X l es n w) = (r, X (upd ol l) es n' w'))
    /\ (good -> forall st, r = Ok st -> forall l0 l, link_st l0 (upd ol l) st).
Proof.
  unfold initialize_g. destruct (c_rot c) as [[[crit nam] k]|].
  - destruct (init_naming_U c nam w) as [r0 [w1 E0]].
    destruct r0 as [[ns infix]| |];
      [| exists Err, w1, n, None; split; [lf | split; [lf | intros _ st H; discriminate H]]
       | exists Panic, w1, n, None; split; [lf | split; [lf | intros _ st H; discriminate H]]].
    destruct (OP w1 (Some infix)) as [r1 [w2 [ol [A1 [B1 G1]]]]].
    destruct r1 as [[wr path]| |];
      [| exists Err, w2, n, ol; split; [lf | split; [lf | intros _ st H; discriminate H]]
       | exists Panic, w2, n, ol; split; [lf | split; [lf | intros _ st H; discriminate H]]].
    destruct (roll_new_U crit (c_append c) path w2) as [r2 [w3 E2]].
    destruct r2 as [roll| |];
      [| exists Err, w3, n, ol; split; [lf | split; [lf | intros _ st H; discriminate H]]
       | exists Panic, w3, n, ol; split; [lf | split; [lf | intros _ st H; discriminate H]]].
    assert (K : U2 (fun W => match k with
                             | KNever => (Ok tt, W)
                             | _ => cleanup_impl c W k (ns_filter ns) (if naming_writes_direct nam then Some path else None) end) w3).
    { destruct k; [exists (Ok tt), w3; reflexivity | | |]; apply cleanup_impl_U. }
    destruct K as [r3 [w4 E3]].
    destruct r3 as [[]| |];
      [| exists Err, w4, n, ol; split; [lf | split; [lf | intros _ st H; discriminate H]]
       | exists Panic, w4, n, ol; split; [lf | split; [lf | intros _ st H; discriminate H]]].
    destruct (match k with KNever => false | _ => c_bg c end) eqn:Ebg.
    + eexists _, w4, 0, ol. split; [lf | split; [lf|]].
      intros Hg st H l0 l. injection H as <-. cbn [link_st]. rewrite (G1 Hg wr path eq_refl). reflexivity.
    + eexists _, w4, n, ol. split; [lf | split; [lf|]].
      intros Hg st H l0 l. injection H as <-. cbn [link_st]. rewrite (G1 Hg wr path eq_refl). reflexivity.
  - destruct (OP w None) as [r1 [w2 [ol [A1 [B1 G1]]]]].
    destruct r1 as [[wr path]| |];
      [| exists Err, w2, n, ol; split; [lf | split; [lf | intros _ st H; discriminate H]]
       | exists Panic, w2, n, ol; split; [lf | split; [lf | intros _ st H; discriminate H]]].
    eexists _, w2, n, ol. split; [lf | split; [lf|]].
    intros Hg st H l0 l. injection H as <-. cbn [link_st fst snd]. rewrite (G1 Hg wr path eq_refl). reflexivity.
Qed.
End Pair.

Lemma next_naming_U c ns w : U3 (fun W => next_naming c W ns) w.
Proof.
  unfold U3, next_naming. destruct ns as [ts [cur|] fmt|idx|idx].
  - destruct (creation_ts_of_current_U c cur true (Some ts) fmt w) as [r [w1 E]]. destruct r; eexists _, _, _; lf.
  - destruct (collision_free_U c (infix_from_ts c w fmt (wnow w)) w) as [r [w1 E]]. destruct r; eexists _, _, _; lf.
  - destruct (index_for_rcurrent_U c (Some idx) true w) as [r [w1 E]]. destruct r; eexists _, _, _; lf.
  - eexists _, _, _. reflexivity.
Qed.

Lemma finish_rotation_V c rs ns1 wr wr' path' n w :
  exists r w' o' n', forall l es, finish_rotation c (X l es n w) rs ns1 wr wr' path' = (r, X l es n' w', Active o' wr' path').
Proof.
  unfold finish_rotation. destruct (w_flush_U wr w) as [okf [w2a [wra EF]]].
  assert (B : exists w2b, forall l es n, (if okf then X l es n w2a else report EFlush (X l es n w2a)) = X l es n w2b).
  { destruct okf; [exists w2a; reflexivity|]. exists (rep EFlush w2a). intros. apply report_X. }
  destruct B as [w2b EB]. destruct (w_drop_U wra w2b) as [w3 ED].
  destruct (cleanup_or_queue_V c (rs_bg rs) (rs_cleanup rs) (ns_filter ns1) (if ns_writes_direct ns1 then Some path' else None) n w3) as [rc [w4 [n' EC]]].
  eexists _, w4, _, n'. intros. rewrite EF. red_let. rewrite EB, ED, reset_size_and_date_X, EC. reflexivity.
Qed.

Section Pair2.
Variables (good : Prop) (o1 o2 : opn_t).
Hypothesis OP : OPs good o1 o2.

Lemma mount_next_g_pair c n w st f :
  exists r w' st' n' ol,
    (forall l es, mount_next_g o1 c (X l es n w) st f = (r, X l es n' w', st'))
    /\ (forall l es, mount_next_g o2 c (X l es n w) st f = (r, X (upd ol l) es n' w', st'))
    /\ (good -> r = Ok tt -> forall l0 l, link_st l0 l st -> link_st l0 (upd ol l) st').
Proof.
  unfold mount_next_g.
  assert (Triv : exists r w' st' n' ol,
            (forall l es : _, (Ok tt, X l es n w, st) = (r, X l es n' w', st'))
            /\ (forall l es : _, (Ok tt, X l es n w, st) = (r, X (upd ol l) es n' w', st'))
            /\ (good -> r = Ok tt -> forall l0 l, link_st l0 l st -> link_st l0 (upd ol l) st')).
  { exists (Ok tt), w, st, n, None. split; [reflexivity|]. split; [reflexivity|]. intros _ _ l0 l H. exact H. }
  destruct st as [|[rs|] wr path]; try exact Triv.
  destruct (f || rotation_necessary w (rs_roll rs))%bool eqn:Hc;
    [|destruct Triv as [r [w' [st' [n' [ol [T1 [T2 T3]]]]]]]; exists r, w', st', n', ol;
      split; [intros; rewrite rotation_necessary_X, Hc; apply T1 | split; [intros; rewrite rotation_necessary_X, Hc; apply T2 | exact T3]]].
  destruct (next_naming_U c (rs_naming rs) w) as [r0 [w1 [ns1 E0]]].
  destruct r0 as [infix| |];
    [| eexists Err, w1, _, n, None; split; [intros; rewrite rotation_necessary_X, Hc, E0; reflexivity
         | split; [intros; rewrite rotation_necessary_X, Hc, E0; reflexivity | intros _ H; discriminate H]]
     | eexists Panic, w1, _, n, None; split; [intros; rewrite rotation_necessary_X, Hc, E0; reflexivity
         | split; [intros; rewrite rotation_necessary_X, Hc, E0; reflexivity | intros _ H; discriminate H]]].
  destruct (OP w1 (Some infix)) as [r1 [w2 [ol [A1 [B1 G1]]]]].
  destruct r1 as [[wr' path']| |];
    [| eexists Err, w2, _, n, ol; split; [intros; rewrite rotation_necessary_X, Hc, E0; red_let; rewrite A1; reflexivity
         | split; [intros; rewrite rotation_necessary_X, Hc, E0; red_let; rewrite B1; reflexivity | intros _ H; discriminate H]]
     | eexists Panic, w2, _, n, ol; split; [intros; rewrite rotation_necessary_X, Hc, E0; red_let; rewrite A1; reflexivity
         | split; [intros; rewrite rotation_necessary_X, Hc, E0; red_let; rewrite B1; reflexivity | intros _ H; discriminate H]]].
  destruct (finish_rotation_V c rs ns1 wr wr' path' n w2) as [r [w4 [o' [n' EF]]]].
  exists r, w4, (Active o' wr' path'), n', ol.
  split; [intros; rewrite rotation_necessary_X, Hc, E0; red_let; rewrite A1; apply EF|].
  split; [intros; rewrite rotation_necessary_X, Hc, E0; red_let; rewrite B1; apply EF|].
  intros Hg _ l0 l _. cbn [link_st]. rewrite (G1 Hg wr' path' eq_refl). reflexivity.
Qed.
End Pair2.

(* ------------------------------------------------------------------ the error channel only grows *)
Lemma initialize_g_grow o c n w r w' n' : OPs False o o ->
  (forall l es, initialize_g o c (X l es n w) = (r, X l es n' w')) -> exists e, werrs w' = werrs w ++ e.
Proof.
  intros OP E. destruct (initialize_g_pair False o o OP c n (noerr w)) as [r2 [w2 [n2 [ol [E2 _]]]]].
  specialize (E None []). specialize (E2 None (werrs w)). rewrite X_noerr, E in E2.
  apply (grow_help None n' n2 w w' w2). congruence.
Qed.

Lemma mount_next_g_grow o c n w st f r w' st' n' : OPs False o o ->
  (forall l es, mount_next_g o c (X l es n w) st f = (r, X l es n' w', st')) -> exists e, werrs w' = werrs w ++ e.
Proof.
  intros OP E. destruct (mount_next_g_pair False o o OP c n (noerr w) st f) as [r2 [w2 [st2 [n2 [ol [E2 _]]]]]].
  specialize (E None []). specialize (E2 None (werrs w)). rewrite X_noerr, E in E2.
  apply (grow_help None n' n2 w w' w2). congruence.
Qed.

Lemma w_write_grow wr b w ok w' wr' :
  (forall l es n, w_write (X l es n w) wr b = (ok, X l es n w', wr')) -> exists e, werrs w' = werrs w ++ e.
Proof.
  intros E. destruct (w_write_U wr b (noerr w)) as [ok2 [w2 [wr2 E2]]].
  specialize (E None [] 0). specialize (E2 None (werrs w) 0). rewrite X_noerr, E in E2.
  apply (grow_help None 0 0 w w' w2). congruence.
Qed.

Lemma upd_upd ol ol0 l : upd ol (upd ol0 l) = upd (upd ol ol0) l.
Proof. destruct ol, ol0; reflexivity. Qed.

Lemma app_self_nil {A} (l e : list A) : l ++ e = l -> e = [].
Proof. intros H. apply (app_inv_head l). rewrite app_nil_r. exact H. Qed.

Section Pair3.
Variables (good : Prop) (o1 o2 : opn_t).
Hypothesis OP : OPs good o1 o2.

Lemma init_part_pair c n w i :
  exists r0 w0 st0 n0 ol,
    (forall l es, init_part o1 c (X l es n w) i = (r0, X l es n0 w0, st0))
    /\ (forall l es, init_part o2 c (X l es n w) i = (r0, X (upd ol l) es n0 w0, st0))
    /\ (exists e, werrs w0 = werrs w ++ e)
    /\ (good -> r0 = Ok tt -> forall l0 l, link_st l0 l i -> link_st l0 (upd ol l) st0).
Proof.
  unfold init_part. destruct i as [|o wr p].
  - destruct (initialize_g_pair good o1 o2 OP c n w) as [r [w0 [n0 [ol [A [B G]]]]]].
    pose proof (initialize_g_grow o1 c n w r w0 n0 (OPs_left _ _ _ OP) A) as Gr.
    destruct r as [i| |].
    + exists (Ok tt), w0, i, n0, ol. split; [intros; rewrite A; reflexivity|]. split; [intros; rewrite B; reflexivity|].
      split; [exact Gr|]. intros Hg _ l0 l _. exact (G Hg i eq_refl l0 l).
    + exists Err, w0, Initial, n0, ol. split; [intros; rewrite A; reflexivity|]. split; [intros; rewrite B; reflexivity|].
      split; [exact Gr|]. intros _ H. discriminate H.
    + exists Panic, w0, Initial, n0, ol. split; [intros; rewrite A; reflexivity|]. split; [intros; rewrite B; reflexivity|].
      split; [exact Gr|]. intros _ H. discriminate H.
  - exists (Ok tt), w, (Active o wr p), n, None. split; [reflexivity|]. split; [reflexivity|].
    split; [exists []; rewrite app_nil_r; reflexivity|]. intros _ _ l0 l H. exact H.
Qed.

Lemma write_rest_pair s n w0 st0 b :
  exists r w' s' rot n' ol,
    (forall l es, write_rest o1 s (X l es n w0) st0 b = (r, X l es n' w', s', rot))
    /\ (forall l es, write_rest o2 s (X l es n w0) st0 b = (r, X (upd ol l) es n' w', s', rot))
    /\ (exists e, werrs w' = werrs w0 ++ e)
    /\ (good -> r = Ok tt -> werrs w' = werrs w0 -> forall l0 l, link_st l0 l st0 -> link_st l0 (upd ol l) (f_inner s')).
Proof.
  unfold write_rest.
  destruct (mount_next_g_pair good o1 o2 OP (f_cfg s) n w0 st0 false) as [r1 [w1 [st1 [n1 [ol [A [B G]]]]]]].
  destruct (mount_next_g_grow o1 (f_cfg s) n w0 st0 false r1 w1 st1 n1 (OPs_left _ _ _ OP) A) as [e1 Gr1].
  set (rot := match st0 with Active (Some rs) _ _ => rotation_necessary w0 (rs_roll rs) | _ => false end).
  destruct r1 as [[]| |].
  - destruct st1 as [|o_rot wr path].
    + exists (Ok tt), w1, (with_inner s Initial), rot, n1, ol.
      split; [intros; rewrite A; reflexivity|]. split; [intros; rewrite B; reflexivity|]. split; [eauto|].
      intros Hg _ _ l0 l H. exact (G Hg eq_refl l0 l H).
    + destruct (w_write_U wr b w1) as [ok [w3 [wr3 EW]]]. destruct (w_write_grow wr b w1 ok w3 wr3 EW) as [e3 Gr3].
      assert (Gr : exists e, werrs w3 = werrs w0 ++ e) by (exists (e1 ++ e3); rewrite Gr3, Gr1, app_assoc; reflexivity).
      destruct ok.
      * eexists (Ok tt), w3, _, rot, n1, ol.
        split; [intros; rewrite A; red_let; rewrite EW; reflexivity|]. split; [intros; rewrite B; red_let; rewrite EW; reflexivity|].
        split; [exact Gr|]. intros Hg _ _ l0 l H. exact (G Hg eq_refl l0 l H).
      * eexists Err, w3, _, rot, n1, ol.
        split; [intros; rewrite A; red_let; rewrite EW; reflexivity|]. split; [intros; rewrite B; red_let; rewrite EW; reflexivity|].
        split; [exact Gr|]. intros _ H. discriminate H.
  - (* the rotation failed: reported, the write goes on *)
    destruct st1 as [|o_rot wr path].
    + exists (Ok tt), (rep ELogFile w1), (with_inner s Initial), rot, n1, ol.
      split; [intros; rewrite A; red_let; rewrite report_X; reflexivity|].
      split; [intros; rewrite B; red_let; rewrite report_X; reflexivity|].
      split; [exists (e1 ++ [ELogFile]); cbn [rep werrs]; rewrite Gr1, app_assoc; reflexivity|].
      intros _ _ H. exfalso. cbn [rep werrs] in H. rewrite Gr1, <- app_assoc in H. apply app_self_nil in H.
      destruct e1; discriminate H.
    + destruct (w_write_U wr b (rep ELogFile w1)) as [ok [w3 [wr3 EW]]].
      destruct (w_write_grow wr b (rep ELogFile w1) ok w3 wr3 EW) as [e3 Gr3].
      assert (Gr : werrs w3 = werrs w0 ++ (e1 ++ ELogFile :: e3)).
      { rewrite Gr3. cbn [rep werrs]. rewrite Gr1, <- !app_assoc. reflexivity. }
      assert (No : werrs w3 = werrs w0 -> False).
      { intros H. rewrite Gr in H. apply app_self_nil in H. destruct e1; discriminate H. }
      destruct ok.
      * eexists (Ok tt), w3, _, rot, n1, ol.
        split; [intros; rewrite A; red_let; rewrite report_X, EW; reflexivity|].
        split; [intros; rewrite B; red_let; rewrite report_X, EW; reflexivity|].
        split; [eauto|]. intros _ _ H. destruct (No H).
      * eexists Err, w3, _, rot, n1, ol.
        split; [intros; rewrite A; red_let; rewrite report_X, EW; reflexivity|].
        split; [intros; rewrite B; red_let; rewrite report_X, EW; reflexivity|].
        split; [eauto|]. intros _ H. discriminate H.
  - exists Panic, w1, (poison (with_inner s st1)), rot, n1, ol.
    split; [intros; rewrite A; reflexivity|]. split; [intros; rewrite B; reflexivity|]. split; [eauto|]. intros _ H. discriminate H.
Qed.

(* write_buffer: the two opening functions give the same result, state, flag and - up to the link - world;
   the error channel only grows; and when the result is Ok and nothing was reported (in particular: no rotation
   failed under way), the link is consistent with the new state if it was with the old one *)
Lemma write_buffer_g_pair s n w b :
  exists r w' s' rot n' ol,
    (forall l es, write_buffer_g o1 s (X l es n w) b = (r, X l es n' w', s', rot))
    /\ (forall l es, write_buffer_g o2 s (X l es n w) b = (r, X (upd ol l) es n' w', s', rot))
    /\ (exists e, werrs w' = werrs w ++ e)
    /\ (good -> r = Ok tt -> werrs w' = werrs w -> forall l0 l, link_st l0 l (f_inner s) -> link_st l0 (upd ol l) (f_inner s')).
Proof.
  unfold write_buffer_g.
  destruct (init_part_pair (f_cfg s) n w (f_inner s)) as [r0 [w0 [st0 [n0 [ol0 [A0 [B0 [[e0 Gr0] G0]]]]]]]].
  destruct r0 as [[]| |].
  - destruct (write_rest_pair s n0 w0 st0 b) as [r [w' [s' [rot [n' [ol [A [B [[e Gr] G]]]]]]]]].
    exists r, w', s', rot, n', (upd ol ol0).
    split; [intros; rewrite A0; apply A|]. split; [intros; rewrite B0, <- upd_upd; apply B|].
    split; [exists (e0 ++ e); rewrite Gr, Gr0, app_assoc; reflexivity|].
    intros Hg Hr He l0 l H. rewrite <- upd_upd.
    assert (E0 : e0 = []).
    { rewrite Gr, Gr0, <- app_assoc in He. apply app_self_nil in He. destruct e0; [reflexivity | discriminate He]. }
    subst e0. rewrite app_nil_r in Gr0. apply (G Hg Hr); [congruence|]. exact (G0 Hg eq_refl l0 l H).
  - exists Err, w0, (with_inner s st0), false, n0, ol0.
    split; [intros; rewrite A0; reflexivity|]. split; [intros; rewrite B0; reflexivity|]. split; [eauto|]. intros _ H. discriminate H.
  - exists Panic, w0, (poison (with_inner s st0)), false, n0, ol0.
    split; [intros; rewrite A0; reflexivity|]. split; [intros; rewrite B0; reflexivity|]. split; [eauto|]. intros _ H. discriminate H.
Qed.
End Pair3.

(* ------------------------------------------------------------------ the same facts for a single world without pending kill *)
Lemma open_log_file_env c W i r W' : wkill W = None -> open_log_file c W i = (r, W') ->
  wkill W' = None /\ wacts W' = wacts W.
Proof.
  intros K E. destruct (open_log_file_X c i W) as [r2 [w2 A]]. rewrite (alive_X W K), A in E. injection E as _ <-. split; reflexivity.
Qed.

Lemma report_env e W : wkill W = None -> wkill (report e W) = None /\ wacts (report e W) = wacts W /\ werrs (report e W) = werrs W ++ [e].
Proof. intros K. unfold report. rewrite K. cbn. repeat split; assumption. Qed.

Lemma mount_next_grow c W st f r W' st' : c_symlink c = false -> wkill W = None ->
  mount_next c W st f = (r, W', st') -> wkill W' = None /\ exists e, werrs W' = werrs W ++ e.
Proof.
  intros Hs K E. rewrite mount_next_g_eq in E. pose proof (OPs_same c Hs) as OP.
  destruct (mount_next_g_pair False _ _ OP c (wacts W) W st f) as [r2 [w2 [st2 [n2 [ol [A _]]]]]].
  destruct (mount_next_g_grow _ c _ W st f r2 w2 st2 n2 OP A) as [e Gr].
  specialize (A (wlink W) []). rewrite <- (alive_X W K), E in A. injection A as _ -> _. split; [reflexivity|]. exists e. exact Gr.
Qed.

Lemma w_write_grow_c W wr b ok W' wr' : wkill W = None -> w_write W wr b = (ok, W', wr') -> exists e, werrs W' = werrs W ++ e.
Proof.
  intros K E. destruct (w_write_U wr b W) as [ok2 [w2 [wr2 A]]]. destruct (w_write_grow wr b W ok2 w2 wr2 A) as [e Gr].
  specialize (A (wlink W) [] (wacts W)). rewrite <- (alive_X W K), E in A. injection A as _ -> _. exists e. exact Gr.
Qed.

Lemma write_buffer_grow s W b r W' s' rot : c_symlink (f_cfg s) = false -> wkill W = None ->
  write_buffer s W b = (r, W', s', rot) -> wkill W' = None /\ exists e, werrs W' = werrs W ++ e.
Proof.
  intros Hs K E. rewrite write_buffer_g_eq in E. pose proof (OPs_same (f_cfg s) Hs) as OP.
  destruct (write_buffer_g_pair False _ _ OP s (wacts W) W b) as [r2 [w2 [s2 [rot2 [n2 [ol [A [_ [[e Gr] _]]]]]]]]].
  specialize (A (wlink W) []). rewrite <- (alive_X W K), E in A. injection A as _ -> _ _. split; [reflexivity|]. exists e. exact Gr.
Qed.
