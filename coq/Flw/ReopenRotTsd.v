(* C18 with rotation, TimestampsDirect naming (r<time stamp>[.restart-NNNN], no rCURRENT: the current file is the one with
   the newest key): reopen_outputfile() after an external rename of the current file, reopen_outputfile() with the file in
   place, reset(builder) to another TimestampsDirect family.  The analogue of ReopenRot.v (Numbers) and ReopenRotD.v
   (NumbersDirect).

   What the model does (found by experiments, then proved):
   - the path of the current file is part of the Active state; reopen_outputfile() opens exactly this path again (append,
     create if missing) and keeps the whole rotation state.  After "rename <current> -> moved; reopen" there is a NEW, empty
     file AT THE ORIGINAL PATH: the same time stamp, the same restart counter.
   - a rotation in the same second as the time stamp of the moved file DOES take a restart counter: the name is occupied
     again by the new file, collision_free_infix sees it.  The keys (second, position) of the files of the family are
     exactly those of a history without the rename: in the directory no name is used twice, no counter is skipped; over
     time the name of the current file has named two different files (the one moved away and the new one).
   - the size count is not reset: the new file inherits the count of the file moved away (an empty file may stay behind,
     ext_reopen_empty_file), the new writer is an unbuffered File until the next rotation.
   - the name the file is moved to must not be a member of the family (tsd_member).  A member name is never overwritten
     (the rotation makes its names collision-free), but a name with a LATER time stamp misplaces the records in the
     reader's order (ext_reopen_family_name_misplaces).
   - without the reopen the writer goes on writing into the moved file; the name is then free and the next rotation in this
     second takes it a second time (ext_rename_without_reopen).
   - reset(builder) to another TimestampsDirect family in the same write mode: the old writer is dropped (buffered tail flushed
     into the old current file), the new writer starts as in a directory of its own at the time of the reset, provided the
     names of the old family are not members of the new one.
   Main statements: collision_free_infix_ts_x, reopen_timestampsdirect, reopen_timestampsdirect_partition,
   reopen_timestampsdirect_at_once, reopen_timestampsdirect_in_place, reset_timestampsdirect. *)
Require Import FL.Base.Bytes FL.Base.BytesFacts FL.Base.PathName FL.Fs.Fs FL.Fs.FsFacts FL.Time.Civil FL.Time.TsFormat
  FL.Names.FileSpec FL.Names.NamesFacts FL.Names.SortFacts FL.Names.FamilyFacts FL.Flw.Model FL.Flw.ModelFacts FL.Flw.NumFs
  FL.Flw.NumInv FL.Flw.Run FL.Flw.RunFacts FL.Flw.NumRun FL.Oracles.O_Flw FL.Flw.NumTheorems FL.Flw.NumListing FL.Flw.NumDInv
  FL.Flw.NumDTheorems
  FL.Flw.TsCal FL.Flw.TsTime FL.Flw.TsMono FL.Flw.TsNames FL.Flw.TsInv FL.Flw.TsRun FL.Flw.TsTheorems
  FL.Flw.TsdInv FL.Flw.TsdRun FL.Flw.TsdTheorems FL.Flw.TsRestart
  FL.Flw.ForeignFs FL.Flw.ForeignModel FL.Flw.NumForeign FL.Flw.ForeignGen FL.Flw.TsForeignFacts FL.Flw.TsdForeign FL.Flw.ReopenRot.
From Coq Require Import ZifyN ZifyNat ZifyBool.
Open Scope nat_scope.

(* ================================================================== 0. collision_free_infix with other files around *)
Definition fn_of (xs : list bytes) : list (bytes * nat) := List.map (fun n => (n, 0)) xs.
Lemma fnames_fn_of xs : fnames (fn_of xs) = xs.
Proof. unfold fnames, fn_of. rewrite map_map. cbn [fst]. apply map_id. Qed.

(* the names that the writer builds are not among names that the family test rejects *)
Lemma kname_not_extra c e k xs : (forall n, In n xs -> tsd_member c n = false) -> in_years e (fst k) -> ~ In (kname c e k) xs.
Proof.
  intros H Y I. rewrite <- (fnames_fn_of xs) in H, I. exact (kname_own (fn_of xs) c H e k Y I).
Qed.

(* the directory: the files named by `keys` (not directories) and files with the names xs, nothing else *)
Definition dir_isx (c : config) (e : Z) (f : fs) (keys : list key) (xs : list bytes) : Prop :=
  (forall k, In k keys -> exists j, lookup f (kname c e k) = Some j /\ fdir (inode f j) = false)
  /\ (forall n j, lookup f n = Some j -> (exists k, In k keys /\ n = kname c e k) \/ In n xs).

(* TsNames.collision_free_infix_ts with files around that are not members of the family: the answer is the same *)
Theorem collision_free_infix_ts_x c e off f keys xs ts n :
  tag_ok c -> in_years e ts -> (forall k, In k keys -> in_years e (fst k)) -> dir_isx c e f keys xs ->
  (forall x, In x xs -> tsd_member c x = false) ->
  (forall m, In (ts, m) keys <-> m < n) -> (N.of_nat n <= usize_max)%N ->
  collision_free_infix off (c_spec c) (fixed0 c) f (tsx e ts) = Some (Some (infix_of e (ts, n))).
Proof.
  intros T Hts Hk D Hfor0 Hn Hmax. pose proof D as [Hin Hon].
  assert (Hfor : forall x, In x (fnames (fn_of xs)) -> tsd_member c x = false) by (rewrite fnames_fn_of; exact Hfor0).
  unfold collision_free_infix. rewrite !filter_files_total.
  set (rel := related_files f (fsfx (c_spec c)) (fixed0 c)).
  set (unc := filter (qf off (fsfx (c_spec c)) (fixed0 c) (IFEq (tsx e ts)) (fsfx (c_spec c))) rel).
  set (cmp := filter (qf off (fsfx (c_spec c)) (fixed0 c) (IFEq (tsx e ts)) (Some gz_sfx)) rel).
  set (sibs := filter (fun x => contains (tsx e ts ++ restart_tag) x) (unc ++ cmp)).
  (* what is listed carries this time stamp *)
  assert (A : forall x, In x (unc ++ cmp) -> exists m, m < n /\ x = kname c e (ts, m)).
  { intros x I. apply in_app_or in I.
    assert (X : exists o, (o = fsfx (c_spec c) \/ o = Some gz_sfx) /\ In x rel
                          /\ qf off (fsfx (c_spec c)) (fixed0 c) (IFEq (tsx e ts)) o x = true).
    { destruct I as [I|I]; apply filter_In in I; destruct I; [exists (fsfx (c_spec c)) | exists (Some gz_sfx)]; auto. }
    destruct X as [o [Ho [Ir Q]]]. apply related_files_in in Ir. destruct Ir as [Id _].
    apply dir_names_lookup in Id. destruct Id as [j Lj].
    destruct (Hon x j Lj) as [Hx|Hx].
    - destruct (qf_eq_upper c e off ts Hts keys o x Hk (or_intror Hx) Q) as [m [Im ->]]. exists m. split; [apply Hn; exact Im | reflexivity].
    - rewrite <- (fnames_fn_of xs) in Hx.
      rewrite (foreign_eq (fn_of xs) c Hfor off (tsx e ts) o x (tsx_like e ts Hts) Ho Hx) in Q. discriminate. }
  (* every file with this time stamp is listed *)
  assert (B : forall m, m < n -> In (kname c e (ts, m)) (unc ++ cmp)).
  { intros m Hm. apply in_or_app. left. apply filter_In. split; [|apply qf_eq_lower; exact Hts].
    destruct (Hin (ts, m) (proj2 (Hn m) Hm)) as [j [Lj Pd]]. apply related_files_in. split; [apply dir_names_lookup; eauto|]. split.
    - unfold is_reg_file, file_of. rewrite Lj, Pd. reflexivity.
    - rewrite kname_shape by exact Hts. apply is_prefix_under. }
  (* the restart numbers found: 0 .. n-2 *)
  assert (R : forall v, In v (filter_map_opt (restart_number (tsx e ts)) sibs) <-> exists i, i < n - 1 /\ v = N.of_nat i).
  { intros v. rewrite filter_map_opt_in. split.
    - intros [x [Ix Ex]]. apply filter_In in Ix. destruct Ix as [Ix Cx]. destruct (A x Ix) as [m [Hm ->]].
      destruct m as [|m]; [rewrite kname_plain_no_tag in Cx by assumption; discriminate|].
      rewrite restart_number_kname in Ex by (assumption || apply T || lia). injection Ex as <-. exists m. split; [lia | reflexivity].
    - intros [i [Hi ->]]. exists (kname c e (ts, Datatypes.S i)). split.
      + apply filter_In. split; [apply B; lia | apply kname_restart_contains; [apply T | assumption]].
      + apply restart_number_kname; [apply T | assumption | lia]. }
  rewrite (max_opt_range _ _ R).
  (* the three tests *)
  assert (E1 : lookup f (as_name (c_spec c) (fixed0 c) (Some (tsx e ts))) = None <-> n = 0).
  { change (as_name (c_spec c) (fixed0 c) (Some (tsx e ts))) with (kname c e (ts, 0)). split.
    - intros L. destruct n as [|n']; [reflexivity|]. destruct (Hin (ts, 0) (proj2 (Hn 0) ltac:(lia))) as [j [Lj _]]. congruence.
    - intros ->. destruct (lookup f (kname c e (ts, 0))) as [j|] eqn:L; [exfalso|reflexivity].
      destruct (Hon _ _ L) as [[k [Ik X]]|X].
      + apply kname_inj in X; [|exact Hts | apply Hk; exact Ik]. subst k. apply Hn in Ik. lia.
      + exact (kname_not_extra c e (ts, 0) xs Hfor0 Hts X). }
  change (as_name (c_spec c) (fixed0 c) (Some (tsx e ts)) ++ dot :: gz_sfx) with (kname c e (ts, 0) ++ dot :: gz_sfx).
  assert (Gz : lookup f (kname c e (ts, 0) ++ dot :: gz_sfx) = None).
  { destruct (lookup f (kname c e (ts, 0) ++ dot :: gz_sfx)) as [j|] eqn:E; [exfalso|reflexivity].
    destruct (Hon _ _ E) as [[k [Ik X]]|X].
    - rewrite (kname_shape c e (ts, 0) Hts) in X. cbn [fst snd ktail app] in X.
      pose proof (Hk k Ik) as Yk. rewrite (kname_shape c e k Yk), <- !app_assoc in X. apply app_inv_head in X.
      apply app_inj_len in X; [|rewrite !tsx_length by assumption; reflexivity]. destruct X as [_ X].
      apply (f_equal (@length N)) in X. destruct (snd k) as [|m]; cbn [ktail app] in X.
      + rewrite app_length in X. cbn [length] in X. lia.
      + rewrite !app_length in X. change (length (dot :: gz_sfx)) with 3 in X. change (length restart_tag) with 9 in X. lia.
    - pose proof (built_name_gz_own (fn_of xs) c Hfor (tsx e ts) [] (tsx_like e ts Hts) (tsx_no_dot e ts Hts) (or_introl eq_refl)) as O.
      rewrite app_nil_r, fnames_fn_of in O. exact (O X). }
  rewrite Gz. cbn [orb].
  destruct n as [|[|n']].
  - rewrite (proj2 E1 eq_refl). cbn [orb].
    assert (Es : sibs = []).
    { destruct sibs as [|x r] eqn:Es; [reflexivity|exfalso].
      assert (Ix : In x sibs) by (rewrite Es; left; reflexivity). apply filter_In in Ix. destruct (A x (proj1 Ix)) as [m [Hm _]]. lia. }
    rewrite Es. reflexivity.
  - assert (L : exists j, lookup f (as_name (c_spec c) (fixed0 c) (Some (tsx e ts))) = Some j).
    { assert (L : lookup f (as_name (c_spec c) (fixed0 c) (Some (tsx e ts))) <> None) by (intros X; apply E1 in X; discriminate).
      destruct (lookup f (as_name (c_spec c) (fixed0 c) (Some (tsx e ts)))) as [j|]; [eauto | congruence]. }
    destruct L as [j L]. rewrite L.
    cbn [orb Nat.sub]. reflexivity.
  - assert (L : exists j, lookup f (as_name (c_spec c) (fixed0 c) (Some (tsx e ts))) = Some j).
    { assert (L : lookup f (as_name (c_spec c) (fixed0 c) (Some (tsx e ts))) <> None) by (intros X; apply E1 in X; discriminate).
      destruct (lookup f (as_name (c_spec c) (fixed0 c) (Some (tsx e ts)))) as [j|]; [eauto | congruence]. }
    destruct L as [j L]. rewrite L.
    cbn [orb Nat.sub].
    destruct (N.ltb_spec (N.of_nat n') usize_max) as [_|X]; [|lia].
    unfold infix_of, restart_infix. cbn [fst snd]. replace (N.of_nat n' + 1)%N with (N.of_nat (Datatypes.S n')) by lia. reflexivity.
Qed.
Print Assumptions collision_free_infix_ts_x.

(* ================================================================== 1. the invariant with other files in the directory *)
(* extra: files that are not members of the family (name, content); the writer may have another buffer capacity than the
   configuration says (after reopen it is an unbuffered File) *)
Record TsdInvX (c : config) (e lo : Z) (w : world) (wr : writer) (keys : list key) (closed : list bytes)
               (extra : list (bytes * bytes)) : Prop := {
  tx_quiet : quiet w;
  tx_wf : fs_wf (wfs w);
  tx_nodup : NoDup (dir_names (wfs w));
  tx_off : eoff c w = e;
  tx_len : length keys = S (length closed);
  tx_cur : lookup (wfs w) (kname c e (nth (length closed) keys kd)) = Some (wino wr);
  tx_curplain : plain (inode (wfs w) (wino wr));
  tx_closed : forall i, i < length closed ->
      exists j, lookup (wfs w) (kname c e (nth i keys kd)) = Some j /\ plain (inode (wfs w) j) /\ content (wfs w) j = nth i closed []
                /\ j <> wino wr;
  tx_extra : forall n d, In (n, d) extra ->
      exists j, lookup (wfs w) n = Some j /\ plain (inode (wfs w) j) /\ content (wfs w) j = d /\ j <> wino wr;
  tx_only : forall n j, lookup (wfs w) n = Some j ->
      (exists i, i <= length closed /\ n = kname c e (nth i keys kd)) \/ In n (List.map fst extra);
  tx_foreign : forall n, In n (List.map fst extra) -> tsd_member c n = false;
  tx_keys : keys_ok keys;
  tx_range : forall k, In k keys -> (lo <= fst k <= wnow w)%Z;
  tx_wr : wr_ok wr }.

Lemma tsdinv_x c e lo w wr keys closed : TsdInv c e lo w wr keys closed -> TsdInvX c e lo w wr keys closed [].
Proof.
  intros [Q W Hnd Hoff Hlen Hc Hcp Hcl Hon Hko Hrg Hwr Hcap]. constructor; try assumption.
  - intros n d [].
  - intros n j H. left. exact (Hon n j H).
  - intros n [].
Qed.

Lemma tsdinvx_dir c e lo w wr keys closed extra : TsdInvX c e lo w wr keys closed extra ->
  dir_isx c e (wfs w) keys (List.map fst extra).
Proof.
  intros I. pose proof I as [Q W Hnd Hoff Hlen Hc Hcp Hcl Hex Hon Hfo Hko Hrg Hwr]. split.
  - intros k Ik. destruct (In_nth keys k kd Ik) as [i [Hi E]]. rewrite Hlen in Hi.
    destruct (Nat.eq_dec i (length closed)) as [->|Hne].
    + exists (wino wr). rewrite <- E. split; [exact Hc | apply Hcp].
    + destruct (Hcl i ltac:(lia)) as [j [Lj [[_ Pd] _]]]. rewrite E in Lj. eauto.
  - intros n j L. destruct (Hon n j L) as [[i [Hi ->]]|Hx]; [left | right; exact Hx].
    exists (nth i keys kd). split; [apply nth_In; lia | reflexivity].
Qed.

Lemma tsdinvx_now c e lo w wr keys closed extra : TsdInvX c e lo w wr keys closed extra -> (lo <= wnow w)%Z.
Proof.
  intros I. pose proof (tx_len _ _ _ _ _ _ _ _ I) as Hlen.
  assert (Ik : In (nth 0 keys kd) keys) by (apply nth_In; lia).
  pose proof (tx_range _ _ _ _ _ _ _ _ I _ Ik). lia.
Qed.

(* ------------------------------------------------------------------ one rotation *)
Lemma mount_next_rotates_tsdx c crit e lo hi w wr keys closed extra roll force :
  tsdcfg c crit -> tag_ok c -> years_ok e lo hi -> TsdInvX c e lo w wr keys closed extra ->
  (wnow w <= hi)%Z -> (N.of_nat (length keys) <= usize_max)%N ->
  force || rotation_necessary w roll = true ->
  exists w' wr' roll',
    mount_next c w (Active (Some (mk_rs (NSTs (fst (nth (length closed) keys kd)) None std_fmt) roll)) wr
                           (kname c e (nth (length closed) keys kd))) force
      = (Ok tt, w', Active (Some (mk_rs (NSTs (wnow w) None std_fmt) roll')) wr' (kname c e (wnow w, count (wnow w) keys)))
    /\ TsdInvX c e lo w' wr' (keys ++ [(wnow w, count (wnow w) keys)]) (closed ++ [cur_view w wr]) extra
    /\ cur_view w' wr' = [] /\ roll_size_ok roll' 0 /\ same_env w w'
    /\ (forall m cur, roll = RSize m cur -> exists cur', roll' = RSize m cur').
Proof.
  intros [Hrot [Hts [Hlink _]]] T Y I Hhi Hmax Hnec.
  pose proof I as [Q W Hnd Hoff Hlen Hc Hcp Hcl Hex Hon Hfo Hko Hrg Hwr].
  pose proof (tsdinvx_now _ _ _ _ _ _ _ _ I) as Hlo.
  assert (Yk : forall k, In k keys -> in_years e (fst k)).
  { intros k Ik. apply (years_in e lo hi); [exact Y|]. specialize (Hrg k Ik). lia. }
  assert (Ynow : in_years e (wnow w)) by (apply (years_in e lo hi); [exact Y | lia]).
  set (kold := nth (length closed) keys kd) in *.
  set (knew := (wnow w, count (wnow w) keys)).
  assert (Ikold : In kold keys) by (apply nth_In; lia).
  unfold mount_next. cbn [mk_rs rs_roll rs_naming rs_cleanup rs_bg]. rewrite Hnec.
  unfold collision_free. rewrite !tick_quiet by assumption.
  rewrite (fixed_of_fixed0 c w Hts), infix_from_ts_tsx, Hoff.
  rewrite (collision_free_infix_ts_x c e (woff w) (wfs w) keys (List.map fst extra) (wnow w) (count (wnow w) keys) T Ynow Yk
             (tsdinvx_dir _ _ _ _ _ _ _ _ I) Hfo (keys_count keys Hko (wnow w))) by (pose proof (count_le_length (wnow w) keys); lia).
  unfold open_log_file. rewrite (name_of_fixed c w) by assumption.
  change (as_name (c_spec c) (fixed0 c) (Some (infix_of e (wnow w, count (wnow w) keys)))) with (kname c e knew).
  (* the target name is free *)
  assert (Hnk : ~ In knew keys).
  { intros Ik. apply (keys_count keys Hko) in Ik. lia. }
  assert (Ht : lookup (wfs w) (kname c e knew) = None).
  { destruct (lookup (wfs w) (kname c e knew)) as [j|] eqn:E; [|reflexivity]. exfalso.
    destruct (Hon _ _ E) as [[i [Hi E1]]|E1].
    - apply kname_inj in E1; [|exact Ynow | apply Yk, nth_In; lia].
      apply Hnk. rewrite E1. apply nth_In. lia.
    - exact (kname_not_extra c e knew _ Hfo Ynow E1). }
  destruct (open_fresh_quiet c w (kname c e knew) Q Hlink Ht) as [w2 [Eop [F2 S2]]]. rewrite Eop.
  (* the old writer is dropped *)
  unfold w_drop. destruct (w_flush_quiet w2 wr (proj1 S2)) as [w3 [Efl [F3 S3]]]. rewrite Efl. cbn [fst snd].
  unfold cleanup_or_queue. cbn [mk_rs rs_roll rs_naming rs_cleanup rs_bg cleanup_impl].
  rewrite F2 in F3.
  pose proof (wf_bound _ W _ _ Hc) as Hold.
  pose proof (direct_fs_spec (wfs w) (kname c e knew) (wino wr) (wpend wr) (wnow w) W Hold Ht) as R.
  cbn zeta in R. destruct R as [W3 [Hnew [L3t [L3o [Inew [Iold Ioth]]]]]].
  set (new := snd (create_file (wfs w) (kname c e knew) 0%N (wnow w))) in *.
  set (f3 := append_ino (fst (create_file (wfs w) (kname c e knew) 0%N (wnow w))) (wino wr) (wpend wr)) in *.
  set (wr' := {| wino := new; wpend := []; wcap := c_cap c |}).
  exists w3, wr', (reset_size_and_date w3 roll (kname c e knew)).
  split; [reflexivity|].
  assert (SE : same_env w w3) by (eapply same_env_trans; eassumption).
  assert (Elen : length (closed ++ [cur_view w wr]) = S (length closed)) by (rewrite app_length; cbn [length]; lia).
  assert (Hneq : forall i, i <= length closed -> kname c e (nth i keys kd) <> kname c e knew).
  { intros i Hi E. apply kname_inj in E; [|apply Yk, nth_In; lia | exact Ynow]. apply Hnk. rewrite <- E. apply nth_In. lia. }
  split.
  { constructor.
    - exact (proj1 S3).
    - rewrite F3. exact W3.
    - rewrite F3. unfold f3. change (dir_names (append_ino ?g _ _)) with (dir_names g).
      apply create_nodup; [exact Hnd | exact Ht].
    - unfold eoff in *. destruct SE as [_ [_ [-> _]]]. exact Hoff.
    - rewrite !app_length, Hlen. cbn [length]. lia.
    - rewrite Elen. rewrite nth_snoc_last by exact Hlen. rewrite F3. exact L3t.
    - rewrite F3. cbn [wr' wino]. rewrite Inew. split; reflexivity.
    - intros i Hi. rewrite Elen in Hi. rewrite F3. rewrite (app_nth1 keys _ kd) by lia.
      destruct (Nat.eq_dec i (length closed)) as [->|Hne].
      + exists (wino wr). fold kold. rewrite L3o by (apply Hneq; lia). split; [exact Hc|]. split.
        * rewrite Iold. exact Hcp.
        * split; [|cbn [wr' wino]; rewrite Hnew; lia].
          unfold content at 1. rewrite Iold. cbn [with_data fdata]. rewrite app_nth2, Nat.sub_diag by lia. reflexivity.
      + assert (Hi' : i < length closed) by lia. destruct (Hcl i Hi') as [j [Lj [Pj [Cj Hj2]]]].
        exists j. rewrite L3o by (apply Hneq; lia). split; [exact Lj|].
        assert (Hj1 : j <> new). { pose proof (wf_bound _ W _ _ Lj). rewrite Hnew. lia. }
        unfold content. rewrite Ioth by assumption. split; [exact Pj|]. rewrite app_nth1 by assumption. split; [exact Cj | exact Hj1].
    - intros n d Hin. rewrite F3. destruct (Hex n d Hin) as [j [Lj [Pj [Cj Hj2]]]].
      assert (Hn : n <> kname c e knew).
      { intros ->. apply (kname_not_extra c e knew _ Hfo Ynow). apply (in_map fst) in Hin. exact Hin. }
      exists j. rewrite L3o by exact Hn. split; [exact Lj|].
      assert (Hj1 : j <> new). { pose proof (wf_bound _ W _ _ Lj). rewrite Hnew. lia. }
      unfold content. rewrite Ioth by assumption. split; [exact Pj|]. split; [exact Cj | exact Hj1].
    - intros n j Hn. rewrite F3 in Hn. rewrite Elen.
      destruct (beq_spec n (kname c e knew)) as [->|Hn2].
      + left. exists (S (length closed)). split; [lia|]. rewrite nth_snoc_last by exact Hlen. reflexivity.
      + rewrite L3o in Hn by assumption. destruct (Hon _ _ Hn) as [[i [Hi E]]|E]; [left | right; exact E].
        exists i. split; [lia|]. rewrite (app_nth1 keys _ kd) by lia. exact E.
    - exact Hfo.
    - apply ko_snoc; [exact Hko|]. intros k Ik. specialize (Hrg k Ik). lia.
    - destruct SE as [_ [-> _]]. intros k Ik. apply in_app_or in Ik. destruct Ik as [Ik|[<-|[]]].
      + exact (Hrg k Ik).
      + unfold knew. cbn [fst]. lia.
    - unfold wr_ok, wr'. cbn. destruct (c_cap c); [lia | reflexivity]. }
  split. { unfold cur_view. rewrite F3. cbn [wr' wino wpend]. unfold content. rewrite Inew. reflexivity. }
  split. { destruct roll; cbn; auto. }
  split; [exact SE|].
  intros m cur ->. cbn. eauto.
Qed.

(* ------------------------------------------------------------------ appending to the current inode keeps the invariant *)
Lemma tsdinvx_append c e lo w w' wr wr' keys closed extra x :
  TsdInvX c e lo w wr keys closed extra -> wfs w' = append_ino (wfs w) (wino wr) x -> same_env w w' ->
  wino wr' = wino wr -> wr_ok wr' ->
  TsdInvX c e lo w' wr' keys closed extra /\ content (wfs w') (wino wr') = content (wfs w) (wino wr) ++ x.
Proof.
  intros [Q W Hnd Hoff Hlen Hc Hcp Hcl Hex Hon Hfo Hko Hrg Hwr] F SE Ei Hok.
  pose proof (wf_bound _ W _ _ Hc) as Hold.
  split.
  - constructor.
    + exact (proj1 SE).
    + rewrite F. apply wf_append. exact W.
    + rewrite F. exact Hnd.
    + unfold eoff in *. destruct SE as [_ [_ [-> _]]]. exact Hoff.
    + exact Hlen.
    + rewrite F, lookup_append, Ei. exact Hc.
    + rewrite F, Ei, inode_append, Nat.eqb_refl by assumption. exact Hcp.
    + intros i Hi. destruct (Hcl i Hi) as [j [Lj [Pj [Cj Hj]]]]. exists j. rewrite F, lookup_append. split; [exact Lj|].
      unfold content. rewrite inode_append by assumption. destruct (Nat.eqb_spec j (wino wr)); [contradiction|]. rewrite Ei. auto.
    + intros n d Hin. destruct (Hex n d Hin) as [j [Lj [Pj [Cj Hj]]]]. exists j. rewrite F, lookup_append. split; [exact Lj|].
      unfold content. rewrite inode_append by assumption. destruct (Nat.eqb_spec j (wino wr)); [contradiction|]. rewrite Ei. auto.
    + intros n j. rewrite F, lookup_append. apply Hon.
    + exact Hfo.
    + exact Hko.
    + destruct SE as [_ [-> _]]. exact Hrg.
    + exact Hok.
  - rewrite F, Ei, content_append, Nat.eqb_refl by assumption. reflexivity.
Qed.

(* ------------------------------------------------------------------ a write on an active writer *)
(* g: the part of the size count that is not in the current file *)
Lemma write_active_tsdx c crit e lo hi w wr keys closed extra roll g b :
  tsdcfg c crit -> tag_ok c -> years_ok e lo hi -> TsdInvX c e lo w wr keys closed extra ->
  (wnow w <= hi)%Z -> (N.of_nat (length keys) <= usize_max)%N -> roll_size_ok roll (g + length (cur_view w wr)) ->
  let rot := rotation_necessary w roll in
  exists w' wr' roll' keys' closed',
    write_buffer (st_tsd c e (nth (length closed) keys kd) roll wr) w b
      = (Ok tt, w', st_tsd c e (nth (length closed') keys' kd) roll' wr', rot)
    /\ TsdInvX c e lo w' wr' keys' closed' extra
    /\ roll_size_ok roll' ((if rot then 0 else g) + length (cur_view w' wr')) /\ same_env w w'
    /\ (closed', cur_view w' wr') = (if rot then (closed ++ [cur_view w wr], b) else (closed, cur_view w wr ++ b))
    /\ (exists tl, keys' = keys ++ tl)
    /\ (forall m cur, roll = RSize m cur -> exists cur', roll' = RSize m cur').
Proof.
  intros Hcfg T Y I Hhi Hmax Hsz rot.
  unfold write_buffer, st_tsd. cbn [f_cfg f_inner f_poisoned mk_rs rs_roll]. fold rot.
  assert (M : exists w1 wr1 roll1 keys1 closed1,
            mount_next c w (Active (Some (mk_rs (NSTs (fst (nth (length closed) keys kd)) None std_fmt) roll)) wr
                                   (kname c e (nth (length closed) keys kd))) false
            = (Ok tt, w1, Active (Some (mk_rs (NSTs (fst (nth (length closed1) keys1 kd)) None std_fmt) roll1)) wr1
                                 (kname c e (nth (length closed1) keys1 kd)))
            /\ TsdInvX c e lo w1 wr1 keys1 closed1 extra
            /\ roll_size_ok roll1 ((if rot then 0 else g) + length (cur_view w1 wr1)) /\ same_env w w1
            /\ (closed1, cur_view w1 wr1) = (if rot then (closed ++ [cur_view w wr], []) else (closed, cur_view w wr))
            /\ (exists tl, keys1 = keys ++ tl)
            /\ (forall m cur, roll = RSize m cur -> exists cur', roll1 = RSize m cur')).
  { destruct rot eqn:Er.
    - destruct (mount_next_rotates_tsdx c crit e lo hi w wr keys closed extra roll false Hcfg T Y I Hhi Hmax)
        as [w1 [wr1 [roll1 [E [I1 [V1 [Z1 [S1 R1]]]]]]]]; [exact Er|].
      exists w1, wr1, roll1, (keys ++ [(wnow w, count (wnow w) keys)]), (closed ++ [cur_view w wr]). rewrite V1.
      assert (En : nth (length (closed ++ [cur_view w wr])) (keys ++ [(wnow w, count (wnow w) keys)]) kd = (wnow w, count (wnow w) keys)).
      { apply nth_snoc_last. rewrite app_length. cbn [length]. rewrite (tx_len _ _ _ _ _ _ _ _ I). lia. }
      rewrite En. cbn [fst].
      split; [exact E|]. split; [exact I1|]. split; [exact Z1|]. split; [exact S1|]. split; [reflexivity|]. split; [eauto | exact R1].
    - exists w, wr, roll, keys, closed. split.
      + unfold mount_next. cbn [mk_rs rs_roll orb]. unfold rot in Er. rewrite Er. reflexivity.
      + split; [exact I|]. split; [exact Hsz|]. split; [apply same_env_refl; apply I|]. split; [reflexivity|].
        split; [exists []; rewrite app_nil_r; reflexivity | eauto]. }
  destruct M as [w1 [wr1 [roll1 [keys1 [closed1 [E [I1 [Z1 [S1 [V1 [K1 R1]]]]]]]]]]].
  rewrite E.
  destruct (w_write_quiet w1 wr1 b (tx_quiet _ _ _ _ _ _ _ _ I1) (tx_wr _ _ _ _ _ _ _ _ I1)) as [w2 [wr2 [fl [Ew [S2 [F2 [Ei [Ec [Ep Hok]]]]]]]]].
  rewrite Ew.
  destruct (tsdinvx_append c e lo w1 w2 wr1 wr2 keys1 closed1 extra fl I1 F2 S2 Ei Hok) as [I2 C2].
  exists w2, wr2, (increase_size roll1 (N.of_nat (length b))), keys1, closed1.
  assert (V2 : cur_view w2 wr2 = cur_view w1 wr1 ++ b).
  { unfold cur_view. rewrite C2, <- !app_assoc, Ep. reflexivity. }
  split; [reflexivity|]. split; [exact I2|].
  split. { rewrite V2, app_length, Nat.add_assoc. apply roll_size_increase. exact Z1. }
  split; [eapply same_env_trans; eassumption|].
  split. { rewrite V2. destruct rot; injection V1 as -> ->; reflexivity. }
  split; [exact K1|].
  intros m cur Hr. destruct (R1 m cur Hr) as [cur' ->]. cbn. eauto.
Qed.

Lemma flush_active_tsdx c e lo w wr keys closed extra roll k :
  TsdInvX c e lo w wr keys closed extra ->
  exists w' wr', flush_state (st_tsd c e k roll wr) w = (true, w', st_tsd c e k roll wr')
    /\ TsdInvX c e lo w' wr' keys closed extra /\ cur_view w' wr' = cur_view w wr /\ wpend wr' = [] /\ same_env w w'.
Proof.
  intros I. unfold flush_state, st_tsd. cbn [f_inner].
  destruct (w_flush_quiet w wr (tx_quiet _ _ _ _ _ _ _ _ I)) as [w1 [E [F S]]]. rewrite E.
  set (wr' := {| wino := wino wr; wpend := []; wcap := wcap wr |}).
  assert (Hok : wr_ok wr') by (unfold wr_ok, wr'; cbn; destruct (wcap wr); [lia | reflexivity]).
  destruct (tsdinvx_append c e lo w w1 wr wr' keys closed extra (wpend wr) I F S eq_refl Hok) as [I1 C1].
  exists w1, wr'. split; [reflexivity|]. split; [exact I1|]. split; [|split; [reflexivity | exact S]].
  unfold cur_view. rewrite C1. cbn [wr' wpend]. rewrite app_nil_r. reflexivity.
Qed.

Lemma shutdown_active_tsdx c e lo w wr keys closed extra roll k : TsdInvX c e lo w wr keys closed extra -> wacts w = 0 ->
  exists w' wr', shutdown_state (st_tsd c e k roll wr) w = (w', st_tsd c e k roll wr')
    /\ TsdInvX c e lo w' wr' keys closed extra /\ cur_view w' wr' = cur_view w wr /\ wpend wr' = [] /\ wacts w' = 0.
Proof.
  intros I Ha. unfold shutdown_state, st_tsd, drain_acts. cbn [f_inner f_cfg mk_rs rs_cleanup rs_naming].
  destruct (w_flush_quiet w wr (tx_quiet _ _ _ _ _ _ _ _ I)) as [w1 [E [F S]]]. rewrite E.
  set (wr' := {| wino := wino wr; wpend := []; wcap := wcap wr |}).
  assert (Hok : wr_ok wr') by (unfold wr_ok, wr'; cbn; destruct (wcap wr); [lia | reflexivity]).
  destruct (tsdinvx_append c e lo w w1 wr wr' keys closed extra (wpend wr) I F S eq_refl Hok) as [I1 C1].
  exists w1, wr'. split; [reflexivity|]. split; [exact I1|]. split; [|split; [reflexivity | exact (same_env_acts _ _ S Ha)]].
  unfold cur_view. rewrite C1. cbn [wr' wpend]. rewrite app_nil_r. reflexivity.
Qed.

(* the clock may advance under the invariant *)
Lemma tsdinvx_tick c e lo w wr keys closed extra dt : TsdInvX c e lo w wr keys closed extra -> (0 <= dt)%Z ->
  TsdInvX c e lo (set_now w (wnow w + dt)%Z) wr keys closed extra.
Proof.
  intros [Q W Hnd Hoff Hlen Hc Hcp Hcl Hex Hon Hfo Hko Hrg Hwr] Hdt. constructor; try assumption.
  intros k Ik. specialize (Hrg k Ik). cbn [set_now wnow]. lia.
Qed.

(* ================================================================== 2. histories on the generalised invariant *)
(* the abstract view (xview, x_step, x_run, sx_run of ReopenRot.v); n bounds the number of closed files; keys0: keys that
   were there at the start - the keys are only ever extended *)
Definition RelTdX (c : config) (crit : criterion) (e lo : Z) (extra : list (bytes * bytes)) (keys0 : list key) (n : nat)
                  (x : sys) (v : xview) : Prop :=
  let '(closed, cur, g) := v in
  s_tl x = [] /\ wacts (s_w x) = 0 /\
  exists keys wr roll, s_flw x = Some (st_tsd c e (nth (length closed) keys kd) roll wr)
    /\ TsdInvX c e lo (s_w x) wr keys closed extra
    /\ cur_view (s_w x) wr = cur /\ length closed <= n
    /\ roll_size_ok roll (g + length cur) /\ (forall m, crit = CSize m -> exists k, roll = RSize m k)
    /\ exists tl, keys = keys0 ++ tl.

Lemma step_sync_reltdx c crit e lo extra keys0 n x v o : tsdcfg c crit -> RelTdX c crit e lo extra keys0 n x v ->
  step x o = sync_step x o.
Proof.
  intros [_ [Hts [_ Ha]]] R. destruct v as [[closed cur] g]. destruct R as [_ [_ [keys [wr [roll [Es _]]]]]].
  rewrite step_plain by (intros s' Es'; rewrite Es in Es'; injection Es' as <-; exact Hts).
  unfold step_core. rewrite Es. unfold is_async. cbn [st_tsd f_cfg]. rewrite Ha. reflexivity.
Qed.

Lemma RelTdX_mono c crit e lo extra keys0 n x v : RelTdX c crit e lo extra keys0 n x v -> RelTdX c crit e lo extra keys0 (S n) x v.
Proof.
  destruct v as [[closed cur] g]. intros [Ht [Ha [keys [wr [roll [Es [I [V [Hn ZR]]]]]]]]].
  split; [exact Ht|]. split; [exact Ha|]. exists keys, wr, roll.
  split; [exact Es|]. split; [exact I|]. split; [exact V|]. split; [lia | exact ZR].
Qed.

Lemma write_reltdx c crit e lo hi extra keys0 n x v b :
  tsdcfg c crit -> tag_ok c -> years_ok e lo hi -> RelTdX c crit e lo extra keys0 n x v ->
  (wnow (s_w x) <= hi)%Z -> (N.of_nat (S n) <= usize_max)%N ->
  exists s w' s' rot, s_flw x = Some s /\ f_poisoned s = false /\
    write_buffer s (s_w x) b = (Ok tt, w', s', rot)
    /\ RelTdX c crit e lo extra keys0 (S n) {| s_flw := Some s'; s_w := w'; s_tl := []; s_dead := s_dead x |} (x_step v (OWrite b) rot)
    /\ wnow w' = wnow (s_w x)
    /\ (forall m, crit = CSize m -> rot = (m <? N.of_nat (size_of v))%N).
Proof.
  intros Hcfg T Y R Hhi Hmax. destruct v as [[closed cur] g].
  destruct R as [Ht [Ha [keys [wr [roll [Es [I [V [Hn [Z [RS [tl0 K0]]]]]]]]]]]].
  rewrite <- V in Z.
  assert (Hk : (N.of_nat (length keys) <= usize_max)%N) by (rewrite (tx_len _ _ _ _ _ _ _ _ I); lia).
  destruct (write_active_tsdx c crit e lo hi (s_w x) wr keys closed extra roll g b Hcfg T Y I Hhi Hk Z)
    as [w' [wr' [roll' [keys' [closed' [E [I' [Z' [S' [V' [[tl1 K1] R']]]]]]]]]]].
  exists (st_tsd c e (nth (length closed) keys kd) roll wr), w', (st_tsd c e (nth (length closed') keys' kd) roll' wr'),
         (rotation_necessary (s_w x) roll).
  split; [exact Es|]. split; [reflexivity|]. split; [exact E|].
  split; [|split; [exact (same_env_now _ _ S')|]].
  - cbn [x_step]. rewrite V in V'.
    destruct (rotation_necessary (s_w x) roll); injection V' as -> V''; (split; [reflexivity|]; split; [cbn [s_w]; exact (same_env_acts _ _ S' Ha)|];
      exists keys', wr', roll'; cbn [s_flw s_w];
      split; [reflexivity|]; split; [exact I'|]; split; [exact V''|]; split; [rewrite ?app_length; cbn [length]; lia|];
      split; [rewrite <- V''; exact Z'|];
      split; [intros m Hm; destruct (RS m Hm) as [k ->]; destruct (R' m k eq_refl) as [k' ->]; eauto|];
      exists (tl0 ++ tl1); rewrite K1, K0, app_assoc; reflexivity).
  - intros m Hm. destruct (RS m Hm) as [k ->]. cbn in Z. subst k. cbn [size_of]. rewrite V. reflexivity.
Qed.

Lemma step_reltdx c crit e lo hi extra keys0 n x v o :
  tsdcfg c crit -> tag_ok c -> years_ok e lo hi -> RelTdX c crit e lo extra keys0 n x v -> basic_op o -> tick_ok o ->
  (wnow (s_w x) <= hi)%Z -> (N.of_nat (S n) <= usize_max)%N ->
  let '(x', ob) := step x o in
  RelTdX c crit e lo extra keys0 (S n) x' (x_step v o (rot_of ob)) /\ wnow (s_w x') = (wnow (s_w x) + dt_of o)%Z
  /\ (forall m, is_wr o = true -> crit = CSize m -> ob = ObsRes 0 (m <? N.of_nat (size_of v))%N).
Proof.
  intros Hcfg T Y R Hb Htk Hhi Hmax. rewrite (step_sync_reltdx c crit e lo extra keys0 n x v o Hcfg R).
  destruct o; try contradiction; cbn [sync_step dt_of].
  - (* OWrite *)
    destruct (write_reltdx c crit e lo hi extra keys0 n x v b Hcfg T Y R Hhi Hmax) as [s [w' [s' [rot [Es [Hp [E [R' [Hw C]]]]]]]]].
    assert (Ht : s_tl x = []) by (destruct v as [[? ?] ?]; apply R).
    rewrite Es, Hp. rewrite Ht. cbn [app]. rewrite E. cbn [rot_of s_w]. split; [exact R'|]. split; [lia|].
    intros m _ Hm. rewrite (C m Hm). reflexivity.
  - (* OPlain *)
    destruct (write_reltdx c crit e lo hi extra keys0 n x v b Hcfg T Y R Hhi Hmax) as [s [w' [s' [rot [Es [Hp [E [R' [Hw C]]]]]]]]].
    assert (Ht : s_tl x = []) by (destruct v as [[? ?] ?]; apply R).
    rewrite Es, Hp, E. cbn [rot_of code_of s_w]. rewrite Ht. split; [exact R'|]. split; [lia|].
    intros m _ Hm. rewrite (C m Hm). reflexivity.
  - (* OFlush *)
    destruct v as [[closed cur] g]. destruct R as [Ht [Ha [keys [wr [roll [Es [I [V [Hn ZR]]]]]]]]]. rewrite Es. cbn [st_tsd f_poisoned].
    destruct (flush_active_tsdx c e lo (s_w x) wr keys closed extra roll (nth (length closed) keys kd) I) as [w' [wr' [E [I' [V' [P' S']]]]]].
    fold (st_tsd c e (nth (length closed) keys kd) roll wr). rewrite E. cbn [rot_of x_step s_w].
    split; [|split; [rewrite (same_env_now _ _ S'); lia | intros m H; discriminate]].
    split; [exact Ht|]. split; [exact (same_env_acts _ _ S' Ha)|]. exists keys, wr', roll. cbn [s_flw s_w].
    split; [reflexivity|]. split; [exact I'|]. split; [congruence|]. split; [lia | exact ZR].
  - (* OTrigger *)
    destruct v as [[closed cur] g]. destruct R as [Ht [Ha [keys [wr [roll [Es [I [V [Hn [Z [RS [tl0 K0]]]]]]]]]]]].
    rewrite Es. cbn [st_tsd f_poisoned f_cfg f_inner].
    assert (Hk : (N.of_nat (length keys) <= usize_max)%N) by (rewrite (tx_len _ _ _ _ _ _ _ _ I); lia).
    destruct (mount_next_rotates_tsdx c crit e lo hi (s_w x) wr keys closed extra roll true Hcfg T Y I Hhi Hk eq_refl)
      as [w' [wr' [roll' [E [I' [V' [Z' [S' R']]]]]]]].
    rewrite E. cbn [rot_of x_step code_of with_inner f_cfg f_poisoned s_w].
    split; [|split; [rewrite (same_env_now _ _ S'); lia | intros m H; discriminate]].
    split; [exact Ht|]. split; [exact (same_env_acts _ _ S' Ha)|]. rewrite V in *.
    exists (keys ++ [(wnow (s_w x), count (wnow (s_w x)) keys)]), wr', roll'. cbn [s_flw s_w].
    split.
    { rewrite nth_snoc_last by (rewrite app_length; cbn [length]; rewrite (tx_len _ _ _ _ _ _ _ _ I); lia). reflexivity. }
    split; [exact I'|]. split; [exact V'|]. split; [rewrite app_length; cbn [length]; lia|]. split; [exact Z'|].
    split; [intros m Hm; destruct (RS m Hm) as [k ->]; destruct (R' m k eq_refl) as [k' ->]; eauto|].
    eexists. rewrite K0, <- app_assoc. reflexivity.
  - (* OTick *)
    cbn [rot_of x_step s_w set_now wnow tick_ok] in *. split; [|split; [reflexivity | intros m H; discriminate]].
    destruct v as [[closed cur] g]. destruct R as [Ht [Ha [keys [wr [roll [Es [I [V [Hn ZR]]]]]]]]].
    split; [exact Ht|]. split; [exact Ha|]. exists keys, wr, roll. cbn [s_flw s_w].
    split; [exact Es|]. split; [apply tsdinvx_tick; assumption|]. split; [exact V|]. split; [lia | exact ZR].
  - (* OSnap *)
    cbn [rot_of x_step]. split; [apply RelTdX_mono; destruct v as [[closed cur] g]; exact R|]. split; [lia | intros m H; discriminate].
Qed.

(* a run: the relation, the clock, and - for a size criterion - the size rule *)
Lemma run_reltdx c crit e lo hi extra keys0 : tsdcfg c crit -> tag_ok c -> years_ok e lo hi ->
  forall ops x v n, RelTdX c crit e lo extra keys0 n x v -> Forall basic_op ops -> Forall tick_ok ops ->
  (wnow (s_w x) + elapsed ops <= hi)%Z -> (N.of_nat (n + length ops) <= usize_max)%N ->
  RelTdX c crit e lo extra keys0 (n + length ops) (fst (run x ops)) (x_run v ops (snd (run x ops)))
  /\ wnow (s_w (fst (run x ops))) = (wnow (s_w x) + elapsed ops)%Z
  /\ (forall m, crit = CSize m -> x_run v ops (snd (run x ops)) = sx_run m v ops).
Proof.
  intros Hcfg T Y. induction ops as [|o r IH]; intros x v n R Hb Htk Hhi Hmax.
  - cbn [run fst snd x_run length elapsed]. rewrite Nat.add_0_r. split; [exact R|]. split; [lia|]. intros m _. reflexivity.
  - cbn [run]. inversion Hb as [|o' r' Ho Hr]; subst. inversion Htk as [|o' r' Hto Htr]; subst.
    cbn [elapsed length] in *. pose proof (elapsed_nonneg r Htr) as Er.
    assert (Hdt : (0 <= dt_of o)%Z) by (destruct o; cbn [dt_of tick_ok] in *; lia).
    pose proof (step_reltdx c crit e lo hi extra keys0 n x v o Hcfg T Y R Ho Hto ltac:(lia) ltac:(lia)) as S. destruct (step x o) as [x1 ob].
    destruct S as [R1 [W1 C1]]. specialize (IH x1 _ (S n) R1 Hr Htr ltac:(lia) ltac:(lia)). destruct (run x1 r) as [x2 obs].
    cbn [fst snd x_run] in *. replace (n + S (length r)) with (S n + length r) by lia. destruct IH as [IH1 [IH2 IH3]].
    split; [exact IH1|]. split; [lia|].
    intros m Hm. rewrite (IH3 m Hm).
    assert (Erot : x_step v o (rot_of ob) = x_step v o (m <? N.of_nat (size_of v))%N).
    { destruct o; try reflexivity; rewrite (C1 m eq_refl Hm); reflexivity. }
    cbn [sx_run]. rewrite <- Erot. reflexivity.
Qed.

(* ------------------------------------------------------------------ stop: what the reader finds *)
(* the files named by the keys, with the given contents (the last one is the file that was written last), the other files
   with their contents, nothing else *)
Definition tsdx_view (c : config) (e : Z) (f : fs) (keys : list key) (files : list bytes) (extra : list (bytes * bytes)) : Prop :=
  length keys = length files
  /\ (forall i, i < length files ->
        exists j, lookup f (kname c e (nth i keys kd)) = Some j /\ plain (inode f j) /\ content f j = nth i files [])
  /\ (forall n d, In (n, d) extra -> exists j, lookup f n = Some j /\ plain (inode f j) /\ content f j = d)
  /\ (forall n j, lookup f n = Some j -> (exists i, i < length files /\ n = kname c e (nth i keys kd)) \/ In n (List.map fst extra))
  /\ NoDup (dir_names f).

Lemma tsdx_view_nil c e f keys files : tsdx_view c e f keys files [] <-> tsd_view c e f keys files.
Proof.
  split.
  - intros [A [B [_ [D E]]]]. split; [exact A|]. split; [exact B|]. split; [|exact E].
    intros n j L. destruct (D n j L) as [H|[]]. exact H.
  - intros [A [B [D E]]]. split; [exact A|]. split; [exact B|]. split; [intros n d []|]. split; [|exact E].
    intros n j L. left. exact (D n j L).
Qed.

Lemma tsdinvx_view c e lo w wr keys closed extra : TsdInvX c e lo w wr keys closed extra -> wpend wr = [] ->
  tsdx_view c e (wfs w) keys (closed ++ [cur_view w wr]) extra.
Proof.
  intros [Q W Hnd Hoff Hlen Hc Hcp Hcl Hex Hon Hfo Hko Hrg Hwr] P.
  assert (El : length (closed ++ [cur_view w wr]) = S (length closed)) by (rewrite app_length; cbn [length]; lia).
  split; [rewrite El; exact Hlen|]. split; [|split; [|split; [|exact Hnd]]].
  - intros i Hi. rewrite El in Hi.
    destruct (Nat.eq_dec i (length closed)) as [->|Hne].
    + exists (wino wr). split; [exact Hc|]. split; [exact Hcp|].
      rewrite app_nth2, Nat.sub_diag by lia. cbn [nth]. unfold cur_view. rewrite P, app_nil_r. reflexivity.
    + assert (Hi' : i < length closed) by lia. destruct (Hcl i Hi') as [j [Lj [Pj [Cj _]]]]. exists j.
      split; [exact Lj|]. split; [exact Pj|]. rewrite app_nth1 by assumption. exact Cj.
  - intros n d Hin. destruct (Hex n d Hin) as [j [Lj [Pj [Cj _]]]]. eauto.
  - intros n j L. destruct (Hon n j L) as [[i [Hi E]]|E]; [left | right; exact E]. exists i. rewrite El. split; [lia | exact E].
Qed.

Lemma stop_reltdx c crit e lo extra keys0 n x closed cur g : tsdcfg c crit -> RelTdX c crit e lo extra keys0 n x (closed, cur, g) ->
  exists keys, tsdx_view c e (wfs (s_w (fst (step x OStop)))) keys (closed ++ [cur]) extra /\ keys_ok keys
               /\ (forall k, In k keys -> (lo <= fst k <= wnow (s_w x))%Z) /\ exists tl, keys = keys0 ++ tl.
Proof.
  intros Hcfg R0. rewrite (step_sync_reltdx c crit e lo extra keys0 n x _ OStop Hcfg R0). destruct R0 as [Ht [Ha R]]. cbn [sync_step].
  destruct R as [keys [wr [roll [Es [I [V [_ [_ [_ K0]]]]]]]]]. rewrite Es. cbn [st_tsd f_poisoned]. unfold drop_state.
  set (k := nth (length closed) keys kd).
  destruct (shutdown_active_tsdx c e lo (s_w x) wr keys closed extra roll k I Ha) as [w1 [wr1 [E1 [I1 [V1 [P1 A1]]]]]].
  fold (st_tsd c e k roll wr). rewrite E1.
  destruct (shutdown_active_tsdx c e lo w1 wr1 keys closed extra roll k I1 A1) as [w2 [wr2 [E2 [I2 [V2 [P2 A2]]]]]]. rewrite E2.
  cbn [st_tsd f_inner s_w fst]. unfold w_drop.
  destruct (w_flush_quiet w2 wr2 (tx_quiet _ _ _ _ _ _ _ _ I2)) as [w3 [E3 [F3 S3]]]. rewrite E3. cbn [fst snd].
  rewrite P2, append_ino_nil_id in F3. rewrite F3.
  exists keys. split; [|split; [exact (tx_keys _ _ _ _ _ _ _ _ I) | split; [exact (tx_range _ _ _ _ _ _ _ _ I) | exact K0]]].
  rewrite <- V, <- V1, <- V2. apply (tsdinvx_view c e lo); assumption.
Qed.

(* ================================================================== 3. the view determines the keys *)
Lemma klt_asym a b : klt a b -> klt b a -> False.
Proof. unfold klt. lia. Qed.

Definition nsorted (l : list key) : Prop := forall i j, i < j < length l -> klt (nth i l kd) (nth j l kd).

Lemma nsorted_cons a r : nsorted (a :: r) -> nsorted r /\ forall x, In x r -> klt a x.
Proof.
  intros H. split.
  - intros i j Hij. apply (H (S i) (S j)). cbn [length]. lia.
  - intros x Ix. destruct (In_nth r x kd Ix) as [i [Hi <-]]. apply (H 0 (S i)). cbn [length]. lia.
Qed.

Lemma nsorted_unique : forall l1 l2, nsorted l1 -> nsorted l2 -> (forall k, In k l1 <-> In k l2) -> l1 = l2.
Proof.
  induction l1 as [|a r1 IH]; intros [|b r2] S1 S2 E.
  - reflexivity.
  - exfalso. apply (proj2 (E b)). left. reflexivity.
  - exfalso. apply (proj1 (E a)). left. reflexivity.
  - destruct (nsorted_cons a r1 S1) as [S1' M1]. destruct (nsorted_cons b r2 S2) as [S2' M2].
    assert (Eab : a = b).
    { destruct (proj1 (E a) (or_introl eq_refl)) as [<-|Ia]; [reflexivity|].
      destruct (proj2 (E b) (or_introl eq_refl)) as [<-|Ib]; [reflexivity|].
      exfalso. exact (klt_asym a b (M1 b Ib) (M2 a Ia)). }
    subst b. f_equal. apply IH; [exact S1' | exact S2'|].
    intros k. split; intros Ik.
    + destruct (proj1 (E k) (or_intror Ik)) as [<-|H]; [exfalso; exact (klt_irrefl _ (M1 _ Ik)) | exact H].
    + destruct (proj2 (E k) (or_intror Ik)) as [<-|H]; [exfalso; exact (klt_irrefl _ (M2 _ Ik)) | exact H].
Qed.

Lemma tsd_view_keys_unique c e lo hi f keys1 keys2 files1 files2 :
  years_ok e lo hi -> (forall k, In k keys1 -> (lo <= fst k <= hi)%Z) -> (forall k, In k keys2 -> (lo <= fst k <= hi)%Z) ->
  keys_ok keys1 -> keys_ok keys2 ->
  tsd_view c e f keys1 files1 -> tsd_view c e f keys2 files2 -> keys1 = keys2 /\ files1 = files2.
Proof.
  intros Y R1 R2 K1 K2 [L1 [A1 [B1 _]]] [L2 [A2 [B2 _]]].
  assert (Y1 : forall k, In k keys1 -> in_years e (fst k)) by (intros k Ik; apply (years_in e lo hi _ Y); apply R1, Ik).
  assert (Y2 : forall k, In k keys2 -> in_years e (fst k)) by (intros k Ik; apply (years_in e lo hi _ Y); apply R2, Ik).
  assert (Sub : forall (ka : list key) (fa : list bytes) (kb : list key) (fb : list bytes),
            length ka = length fa -> length kb = length fb ->
            (forall k, In k ka -> in_years e (fst k)) -> (forall k, In k kb -> in_years e (fst k)) ->
            (forall i, i < length fa -> exists j, lookup f (kname c e (nth i ka kd)) = Some j /\ plain (inode f j) /\ content f j = nth i fa []) ->
            (forall n j, lookup f n = Some j -> exists i, i < length fb /\ n = kname c e (nth i kb kd)) ->
            forall k, In k ka -> In k kb).
  { intros ka fa kb fb La Lb Ya Yb Aa Bb k Ik. destruct (In_nth ka k kd Ik) as [i [Hi E]]. rewrite La in Hi.
    destruct (Aa i Hi) as [j [Lj _]]. destruct (Bb _ _ Lj) as [i' [Hi' E']]. rewrite E in E'.
    assert (Ik' : In (nth i' kb kd) kb) by (apply nth_In; lia).
    apply kname_inj in E'; [|apply Ya; exact Ik | apply Yb; exact Ik']. rewrite E'. exact Ik'. }
  assert (EK : keys1 = keys2).
  { apply nsorted_unique; [exact (keys_sorted keys1 K1) | exact (keys_sorted keys2 K2)|].
    intros k. split; [apply (Sub keys1 files1 keys2 files2) | apply (Sub keys2 files2 keys1 files1)]; assumption. }
  split; [exact EK|]. subst keys2.
  assert (EL : length files1 = length files2) by exact (eq_trans (eq_sym L1) L2).
  apply (nth_ext _ _ [] []); [exact EL|]. intros i Hi.
  destruct (A1 i Hi) as [j1 [Lj1 [_ C1]]]. destruct (A2 i ltac:(rewrite <- EL; exact Hi)) as [j2 [Lj2 [_ C2]]].
  rewrite Lj1 in Lj2. injection Lj2 as <-. exact (eq_trans (eq_sym C1) C2).
Qed.

(* ================================================================== 4. reopen_outputfile() *)
(* somebody renames the current file to a name outside the family, then reopen_outputfile(): the renamed file gets the
   buffered tail, a new empty file exists at the original path, the rotation state and the keys are kept *)
Lemma reopen_moved_step_tsd c crit e lo hi n x keys wr roll cl cu moved :
  tsdcfg c crit -> years_ok e lo hi -> (wnow (s_w x) <= hi)%Z ->
  s_tl x = [] -> wacts (s_w x) = 0 ->
  s_flw x = Some (st_tsd c e (nth (length cl) keys kd) roll wr) -> TsdInv c e lo (s_w x) wr keys cl ->
  cur_view (s_w x) wr = cu -> length cl <= n -> roll_size_ok roll (length cu) ->
  (forall m, crit = CSize m -> exists k, roll = RSize m k) ->
  tsd_member c moved = false ->
  exists x2, run x [OExtRename (kname c e (nth (length cl) keys kd)) moved; OReopen] = (x2, [ObsRes 0 false; ObsRes 0 false])
    /\ RelTdX c crit e lo [(moved, cu)] keys n x2 (cl, [], length cu) /\ wnow (s_w x2) = wnow (s_w x).
Proof.
  intros Hcfg Y Hhi Ht Ha Es I V Hn Z RS Hm. pose proof Hcfg as [Hrot [Hts [Hlink Hasync]]].
  pose proof I as [Q W Hnd Hoff Hlen Hc Hcp Hcl Hon Hko Hrg Hwr Hcap].
  set (cur := kname c e (nth (length cl) keys kd)) in *.
  assert (Yk : forall k, In k keys -> in_years e (fst k)).
  { intros k Ik. apply (years_in e lo hi); [exact Y|]. specialize (Hrg k Ik). lia. }
  assert (Hmx : forall n0, In n0 [moved] -> tsd_member c n0 = false) by (intros n0 [<-|[]]; exact Hm).
  assert (Hmk : forall k, In k keys -> moved <> kname c e k).
  { intros k Ik E. apply (kname_not_extra c e k [moved] Hmx (Yk k Ik)). left. exact E. }
  assert (Hfree : lookup (wfs (s_w x)) moved = None).
  { destruct (lookup (wfs (s_w x)) moved) as [j|] eqn:E; [|reflexivity]. exfalso.
    destruct (Hon _ _ E) as [i [Hi E1]]. apply (Hmk (nth i keys kd)); [apply nth_In; lia | exact E1]. }
  assert (Hcm : cur <> moved) by (intros E; apply (Hmk (nth (length cl) keys kd)); [apply nth_In; lia | symmetry; exact E]).
  cbn [run]. rewrite (ReopenRot.step_sync_cfg x (OExtRename cur moved) _ Es Hts Hasync).
  destruct (rotate_fs_spec (wfs (s_w x)) cur moved (wino wr) (wpend wr) (wnow (s_w x)) W Hcm Hc Hfree) as [f1 [Er R]].
  cbn zeta in R. destruct R as [L1c [Hino1 [W3 [Hnew [L3c [L3t [L3o [Hlen3 [Inew [Iold Ioth]]]]]]]]]].
  cbn [sync_step]. rewrite Er.
  set (w1 := set_fs (s_w x) f1).
  set (x1 := {| s_flw := s_flw x; s_w := w1; s_tl := s_tl x; s_dead := s_dead x |}).
  assert (Q1 : quiet w1) by exact Q.
  rewrite (ReopenRot.step_sync_cfg x1 OReopen _ Es Hts Hasync).
  cbn [sync_step x1 s_flw s_w s_tl s_dead]. rewrite Es. cbn [st_tsd f_poisoned].
  unfold reopen_state. cbn [f_inner st_tsd]. rewrite (tick_quiet w1 Q1). cbv beta iota zeta. fold cur.
  assert (Eopen : open_append (wfs w1) cur (wnow w1) = create_file f1 cur 0%N (wnow (s_w x))).
  { apply open_append_fresh. exact L1c. }
  destruct (effect_quiet w1 (fun f => fst (open_append f cur (wnow w1))) Q1) as [F2 S2].
  set (w2 := effect w1 (fun f => fst (open_append f cur (wnow w1)))) in *.
  rewrite Eopen in F2. rewrite Eopen.
  unfold w_drop. destruct (w_flush_quiet w2 wr (proj1 S2)) as [w3 [Efl [F3 S3]]]. rewrite Efl. cbn [fst snd code_of].
  set (new := snd (create_file f1 cur 0%N (wnow (s_w x)))) in *.
  set (f3 := append_ino (fst (create_file f1 cur 0%N (wnow (s_w x)))) (wino wr) (wpend wr)) in *.
  assert (F3' : wfs w3 = f3) by (rewrite F3, F2; reflexivity).
  set (wr' := {| wino := new; wpend := []; wcap := None |}).
  pose proof (same_env_trans _ _ _ S2 S3) as S13.
  assert (Enow : wnow w3 = wnow (s_w x)) by (rewrite (same_env_now _ _ S13); reflexivity).
  eexists. split; [reflexivity|]. cbn [s_w].
  pose proof (wf_bound _ W _ _ Hc) as Hold.
  assert (A3 : wacts w3 = 0) by (apply (same_env_acts w1 w3 S13); exact Ha).
  split; [|exact Enow].
  split; [exact Ht|]. split; [exact A3|]. exists keys, wr', roll. cbn [s_flw s_w with_inner st_tsd f_cfg f_poisoned].
  split; [reflexivity|]. split.
  { constructor.
    - exact (proj1 S3).
    - rewrite F3'. exact W3.
    - rewrite F3'. unfold f3. change (dir_names (append_ino ?g _ _)) with (dir_names g).
      apply create_nodup; [exact (rename_nodup _ _ _ _ Hnd Er) | exact L1c].
    - unfold eoff in *. destruct S13 as [_ [_ [-> _]]]. exact Hoff.
    - exact Hlen.
    - rewrite F3'. exact L3c.
    - rewrite F3'. cbn [wr' wino]. rewrite Inew. split; reflexivity.
    - intros i Hi. rewrite F3'. destruct (Hcl i Hi) as [j [Lj [Pj [Cj Hj2]]]].
      exists j. rewrite L3o.
      + split; [exact Lj|].
        assert (Hj1 : j <> new). { pose proof (wf_bound _ W _ _ Lj). rewrite Hnew. lia. }
        unfold content. rewrite Ioth by assumption. split; [exact Pj|]. split; [exact Cj | exact Hj1].
      + intros E. rewrite E, Hc in Lj. injection Lj as <-. exact (Hj2 eq_refl).
      + intros E. rewrite E, Hfree in Lj. discriminate.
    - intros n0 d [E|[]]. injection E as <- <-. rewrite F3'. exists (wino wr). split; [exact L3t|]. split.
      + rewrite Iold. exact Hcp.
      + split; [|cbn [wr' wino]; rewrite Hnew; lia].
        unfold content at 1. rewrite Iold. cbn [with_data fdata]. exact V.
    - intros n0 j Hn0. rewrite F3' in Hn0.
      destruct (beq_spec n0 cur) as [->|Hn1]; [left; exists (length cl); split; [lia | reflexivity]|].
      destruct (beq_spec n0 moved) as [->|Hn2]; [right; left; reflexivity|].
      rewrite L3o in Hn0 by assumption. left. exact (Hon _ _ Hn0).
    - exact Hmx.
    - exact Hko.
    - rewrite Enow. exact Hrg.
    - reflexivity. }
  split. { unfold cur_view. rewrite F3'. cbn [wr' wino wpend]. unfold content. rewrite Inew. reflexivity. }
  split; [exact Hn|].
  split. { cbn [length]. rewrite Nat.add_0_r. exact Z. }
  split; [exact RS|]. exists []. rewrite app_nil_r. reflexivity.
Qed.

(* reopen_outputfile() with the file in place: the same inode is continued, the buffered tail is flushed into it *)
Lemma reopen_inplace_step_tsd c crit e lo n x keys wr roll cl cu :
  tsdcfg c crit -> s_tl x = [] -> wacts (s_w x) = 0 ->
  s_flw x = Some (st_tsd c e (nth (length cl) keys kd) roll wr) -> TsdInv c e lo (s_w x) wr keys cl ->
  cur_view (s_w x) wr = cu -> length cl <= n -> roll_size_ok roll (length cu) ->
  (forall m, crit = CSize m -> exists k, roll = RSize m k) ->
  exists x2, step x OReopen = (x2, ObsRes 0 false)
    /\ RelTdX c crit e lo [] keys n x2 (cl, cu, 0) /\ wnow (s_w x2) = wnow (s_w x).
Proof.
  intros Hcfg Ht Ha Es I V Hn Z RS. pose proof Hcfg as [Hrot [Hts [Hlink Hasync]]].
  rewrite (ReopenRot.step_sync_cfg x OReopen _ Es Hts Hasync).
  pose proof (tsdinv_x _ _ _ _ _ _ _ I) as IX. pose proof I as [Q W Hnd Hoff Hlen Hc Hcp Hcl Hon Hko Hrg Hwr Hcap].
  cbn [sync_step]. rewrite Es. cbn [st_tsd f_poisoned].
  unfold reopen_state. cbn [f_inner st_tsd]. rewrite (tick_quiet _ Q). cbv beta iota zeta.
  set (cur := kname c e (nth (length cl) keys kd)) in *.
  assert (Eopen : open_append (wfs (s_w x)) cur (wnow (s_w x)) = (wfs (s_w x), wino wr)).
  { unfold open_append. rewrite Hc. reflexivity. }
  destruct (effect_quiet (s_w x) (fun f => fst (open_append f cur (wnow (s_w x)))) Q) as [F2 S2].
  set (w2 := effect (s_w x) (fun f => fst (open_append f cur (wnow (s_w x))))) in *.
  rewrite Eopen in F2. rewrite Eopen. cbn [fst snd] in F2 |- *.
  unfold w_drop. destruct (w_flush_quiet w2 wr (proj1 S2)) as [w3 [Efl [F3 S3]]]. rewrite Efl. cbn [fst snd code_of].
  set (wr' := {| wino := wino wr; wpend := []; wcap := None |}).
  pose proof (same_env_trans _ _ _ S2 S3) as S13. rewrite F2 in F3.
  destruct (tsdinvx_append c e lo (s_w x) w3 wr wr' keys cl [] (wpend wr) IX F3 S13 eq_refl eq_refl) as [I3 C3].
  eexists. split; [reflexivity|]. cbn [s_w]. split; [|exact (same_env_now _ _ S13)].
  split; [exact Ht|]. split; [exact (same_env_acts _ _ S13 Ha)|].
  exists keys, wr', roll. cbn [s_flw s_w with_inner st_tsd f_cfg f_poisoned].
  split; [reflexivity|]. split; [exact I3|].
  split. { unfold cur_view. rewrite C3. cbn [wr' wpend]. rewrite app_nil_r. exact V. }
  split; [exact Hn|]. split; [exact Z|]. split; [exact RS|]. exists []. rewrite app_nil_r. reflexivity.
Qed.

(* before the first record there is no file and no writer: reopen does nothing *)
Lemma reopen_initial_step_tsd c crit e lo n x :
  tsdcfg c crit -> RelTd c crit e lo n x None ->
  exists x2, step x OReopen = (x2, ObsRes 0 false) /\ RelTd c crit e lo n x2 None /\ wnow (s_w x2) = wnow (s_w x).
Proof.
  intros Hcfg R. rewrite (step_sync_rel_tsd c crit e lo n x _ OReopen Hcfg R). cbn [sync_step].
  pose proof R as [Ht [Ha [Es RR]]]. rewrite Es.
  cbn [new_flw f_poisoned reopen_state f_inner code_of]. eexists. split; [reflexivity|]. split; [|reflexivity].
  split; [exact Ht|]. split; [exact Ha|]. split; [reflexivity|]. exact RR.
Qed.

(* ================================================================== 5. whole histories *)
(* the directory that a stop leaves, with the keys of the state *)
Lemma tsd_stop_view c crit e lo n x keys wr roll cl cu :
  tsdcfg c crit -> s_tl x = [] -> wacts (s_w x) = 0 ->
  s_flw x = Some (st_tsd c e (nth (length cl) keys kd) roll wr) -> TsdInv c e lo (s_w x) wr keys cl ->
  cur_view (s_w x) wr = cu -> length cl <= n -> roll_size_ok roll (length cu) ->
  (forall m, crit = CSize m -> exists k, roll = RSize m k) ->
  tsd_view c e (wfs (s_w (fst (step x OStop)))) keys (cl ++ [cu]).
Proof.
  intros Hcfg Ht Ha Es I V Hn Z RS.
  assert (RX : RelTdX c crit e lo [] keys n x (cl, cu, 0)).
  { split; [exact Ht|]. split; [exact Ha|]. exists keys, wr, roll. split; [exact Es|]. split; [apply tsdinv_x; exact I|].
    split; [exact V|]. split; [exact Hn|]. split; [exact Z|]. split; [exact RS|]. exists []. rewrite app_nil_r. reflexivity. }
  destruct (stop_reltdx c crit e lo [] keys n x cl cu 0 Hcfg RX) as [keys' [VX [_ [_ [tl Ek]]]]].
  apply tsdx_view_nil in VX. pose proof (proj1 VX) as L. rewrite Ek, !app_length, (td_len _ _ _ _ _ _ _ I) in L. cbn [length] in L.
  assert (Etl : tl = []) by (apply length_zero_iff_nil; lia). rewrite Etl, app_nil_r in Ek. rewrite <- Ek. exact VX.
Qed.

(* the state at the end of a history whose directory (after a stop) is known *)
Lemma reltd_view_components c crit e lo hi n x a keys1 files1 :
  tsdcfg c crit -> years_ok e lo hi -> (wnow (s_w x) <= hi)%Z -> RelTd c crit e lo n x a ->
  tsd_view c e (wfs (s_w (fst (step x OStop)))) keys1 files1 -> files1 <> [] -> keys_ok keys1 ->
  (forall k, In k keys1 -> (lo <= fst k <= hi)%Z) ->
  exists cl cu wr roll, a = Some (cl, cu) /\ files1 = cl ++ [cu]
    /\ s_flw x = Some (st_tsd c e (nth (length cl) keys1 kd) roll wr) /\ TsdInv c e lo (s_w x) wr keys1 cl
    /\ cur_view (s_w x) wr = cu /\ length cl <= n /\ roll_size_ok roll (length cu)
    /\ (forall m, crit = CSize m -> exists k, roll = RSize m k).
Proof.
  intros Hcfg Y Hhi R Hv Hne K1 Rg1. destruct a as [[cl cu]|].
  - pose proof R as [Ht [Ha [keys [wr [roll [Es [I [V [Hn [Z RS]]]]]]]]]].
    pose proof (tsd_stop_view c crit e lo n x keys wr roll cl cu Hcfg Ht Ha Es I V Hn Z RS) as V2.
    assert (Rg2 : forall k, In k keys -> (lo <= fst k <= hi)%Z).
    { intros k Ik. pose proof (td_range _ _ _ _ _ _ _ I k Ik). lia. }
    destruct (tsd_view_keys_unique c e lo hi _ keys keys1 (cl ++ [cu]) files1 Y Rg2 Rg1 (td_keys _ _ _ _ _ _ _ I) K1 V2 Hv) as [-> <-].
    exists cl, cu, wr, roll. repeat (split; [first [reflexivity | assumption]|]). exact RS.
  - exfalso. pose proof (stop_rel_tsd c crit e lo n x None Hcfg R) as S. destruct (step x OStop) as [x' ob']. cbn [fst] in Hv.
    destruct Hv as [_ [A _]]. destruct files1 as [|f0 fr]; [exact (Hne eq_refl)|].
    destruct (A 0 ltac:(cbn [length]; lia)) as [j [Lj _]]. rewrite (lookup_empty _ _ S) in Lj. discriminate.
Qed.

(* ---- the part of the history after the switch ---- *)
Lemma tail_reltdx c crit e lo hi extra keys0 n x cl cu g ops2 :
  tsdcfg c crit -> tag_ok c -> years_ok e lo hi -> RelTdX c crit e lo extra keys0 n x (cl, cu, g) ->
  Forall basic_op ops2 -> Forall tick_ok ops2 ->
  (wnow (s_w x) + elapsed ops2 <= hi)%Z -> (N.of_nat (n + length ops2) <= usize_max)%N ->
  exists keys2 closed2 cur2,
    tsdx_view c e (wfs (s_w (fst (run x (ops2 ++ [OStop]))))) (keys0 ++ keys2) (cl ++ closed2 ++ [cur2]) extra
    /\ keys_ok (keys0 ++ keys2)
    /\ (forall k, In k (keys0 ++ keys2) -> (lo <= fst k <= wnow (s_w x) + elapsed ops2)%Z)
    /\ concat closed2 ++ cur2 = cu ++ written ops2
    /\ (exists t, closed2 ++ [cur2] = (cu ++ t) :: List.tl (closed2 ++ [cur2]))
    /\ (forall m, crit = CSize m -> cl ++ closed2 ++ [cur2] = x_files (sx_run m (cl, cu, g) ops2)).
Proof.
  intros Hcfg T Y R Hb Htk Hhi Hmax. rewrite run_app.
  pose proof (run_reltdx c crit e lo hi extra keys0 Hcfg T Y ops2 x _ n R Hb Htk Hhi Hmax) as [R1 [W1 Hs]].
  pose proof (run_length ops2 x) as L.
  pose proof (x_run_ext ops2 (cl, cu, g) (snd (run x ops2))) as X.
  pose proof (x_run_flat ops2 (cl, cu, g) (snd (run x ops2)) Hb L) as Fl.
  destruct (run x ops2) as [x1 obs1]. cbn [fst snd] in *.
  destruct (x_run (cl, cu, g) ops2 obs1) as [[cl3 cu3] g3] eqn:Ev.
  destruct (stop_reltdx c crit e lo extra keys0 _ x1 cl3 cu3 g3 Hcfg R1) as [keys [S [K [Rg [keys2 Ek]]]]].
  cbn [run]. destruct (step x1 OStop) as [x2 ob2]. cbn [fst] in *.
  cbn [x_ext x_flat] in X, Fl.
  assert (Ecl : exists closed2, cl3 = cl ++ closed2 /\ exists t, closed2 ++ [cu3] = (cu ++ t) :: List.tl (closed2 ++ [cu3])).
  { destruct X as [[-> [t ->]]|[t [rest ->]]].
    - exists []. rewrite app_nil_r. split; [reflexivity|]. exists t. reflexivity.
    - exists ((cu ++ t) :: rest). split; [reflexivity|]. exists t. reflexivity. }
  destruct Ecl as [closed2 [-> Ht]]. exists keys2, closed2, cu3. rewrite <- Ek.
  split; [rewrite app_assoc; exact S|]. split; [exact K|]. split; [rewrite <- W1; exact Rg|]. split.
  - rewrite concat_app, <- !app_assoc in Fl. apply app_inv_head in Fl. exact Fl.
  - split; [exact Ht|]. intros m Hm. rewrite <- (Hs m Hm). cbn [x_files]. rewrite app_assoc. reflexivity.
Qed.

(* a history from a state of the original invariant, then stop *)
Lemma finish_rel_tsd c crit e lo hi n x a ops : tsdcfg c crit -> tag_ok c -> years_ok e lo hi -> RelTd c crit e lo n x a ->
  Forall basic_op ops -> Forall tick_ok ops -> (wnow (s_w x) + elapsed ops <= hi)%Z -> (N.of_nat (n + length ops) <= usize_max)%N ->
  let a' := a_run a ops (snd (run x ops)) in
  (exists keys, tsd_view c e (wfs (s_w (fst (run x (ops ++ [OStop]))))) keys (files_of a') /\ keys_ok keys
                /\ (forall k, In k keys -> (lo <= fst k <= wnow (s_w x) + elapsed ops)%Z))
  /\ flat a' = flat a ++ written ops
  /\ (forall m, crit = CSize m -> a' = s_run m a ops).
Proof.
  intros Hcfg T Y R Hb Htk Hhi Hmax a'. subst a'. rewrite run_app.
  pose proof (run_rel_tsd c crit e lo hi Hcfg T Y ops x a n R Hb Htk Hhi Hmax) as [R1 [W1 Z1]].
  pose proof (run_length ops x) as L.
  destruct (run x ops) as [x1 obs1]. cbn [fst snd] in *.
  pose proof (stop_rel_tsd c crit e lo _ x1 _ Hcfg R1) as S. cbn [run]. destruct (step x1 OStop) as [x2 ob2]. cbn [fst].
  split; [|split; [apply a_run_flat; assumption | intros m Hm; exact (proj1 (Z1 m Hm))]].
  destruct (a_run a ops obs1) as [[cl cu]|]; cbn [files_of].
  - destruct S as [keys [V [K Rg]]]. exists keys. split; [exact V|]. split; [exact K|]. rewrite <- W1. exact Rg.
  - exists []. split; [apply tsd_view_nil; auto|]. split; [constructor | intros k []].
Qed.

Lemma wnow_start c t0 off x0 ob0 : step (sys0 t0 off) (OStart c) = (x0, ob0) -> wnow (s_w x0) = t0.
Proof. intros E0. cbn in E0. injection E0 as <- _. reflexivity. Qed.

(* ------------------------------------------------------------------ theorem 1: external rename, then reopen *)
(* keys1, closed1 ++ [cur1]: the keys and contents of the files that the history ops1 leaves; the current file is the one
   with the newest key.  It is renamed to `moved`, then reopen_outputfile() is called. *)
Theorem reopen_timestampsdirect c crit t0 off ops1 ops2 moved keys1 closed1 cur1 :
  tsdcfg c crit -> tag_ok c -> Forall basic_op ops1 -> Forall basic_op ops2 -> Forall tick_ok (ops1 ++ ops2) ->
  (0 <= t0 + ts_e c off)%Z -> (t0 + elapsed (ops1 ++ ops2) + ts_e c off < sec_max)%Z ->
  (N.of_nat (length (ops1 ++ ops2)) <= usize_max)%N ->
  tsd_member c moved = false ->
  let e := ts_e c off in
  tsd_view c e (wfs (s_w (fst (run (sys0 t0 off) (OStart c :: ops1 ++ [OStop]))))) keys1 (closed1 ++ [cur1]) ->
  keys_ok keys1 -> (forall k, In k keys1 -> (t0 <= fst k <= t0 + elapsed ops1)%Z) ->
  let cur := kname c e (nth (length closed1) keys1 kd) in
  let r := run (sys0 t0 off) (OStart c :: ops1 ++ [OExtRename cur moved; OReopen] ++ ops2 ++ [OStop]) in
  let f := wfs (s_w (fst r)) in
  (* reopen_outputfile() succeeds *)
  nth_error (snd r) (S (S (length ops1))) = Some (ObsRes 0 false)
  /\ concat closed1 ++ cur1 = written ops1
  /\ exists keys2 closed2 cur2,
       (* the directory: the files of ops1 under their keys - the last of these keys, the original path, now names the first
          file of ops2 -, the further files of ops2 under further keys, and the renamed file with everything written since the
          last rotation of ops1 (buffered tail included) *)
       tsdx_view c e f (keys1 ++ keys2) (closed1 ++ closed2 ++ [cur2]) [(moved, cur1)]
       /\ keys_ok (keys1 ++ keys2)
       /\ (forall k, In k (keys1 ++ keys2) -> (t0 <= fst k <= t0 + elapsed (ops1 ++ ops2))%Z)
       /\ length keys1 = S (length closed1)
       /\ concat closed2 ++ cur2 = written ops2
       /\ concat (closed1 ++ [cur1] ++ closed2 ++ [cur2]) = written (ops1 ++ ops2).
Proof.
  intros Hcfg T Hb1 Hb2 Htk Hlo Hhi Hmax Hm e Hv K1 Rg1. cbv zeta.
  apply Forall_app in Htk. destruct Htk as [Htk1 Htk2]. rewrite elapsed_app in Hhi |- *. rewrite app_length in Hmax.
  pose proof (elapsed_nonneg _ Htk1) as En1. pose proof (elapsed_nonneg _ Htk2) as En2.
  destruct (step (sys0 t0 off) (OStart c)) as [x0 ob0] eqn:E0.
  pose proof (wnow_start c t0 off x0 ob0 E0) as W0.
  pose proof (start_rel_tsd c crit t0 off) as R0. rewrite E0 in R0. cbn [fst] in R0. fold e in R0.
  assert (Y : years_ok e t0 (t0 + elapsed ops1 + elapsed ops2)) by (unfold years_ok, e; lia).
  cbn [run] in Hv |- *. rewrite E0 in Hv |- *. rewrite !run_app in Hv |- *.
  pose proof (run_rel_tsd c crit e t0 _ Hcfg T Y ops1 x0 None 0 R0 Hb1 Htk1 ltac:(lia) ltac:(cbn [Nat.add]; lia)) as [R1 [W1 _]].
  pose proof (run_length ops1 x0) as L1.
  pose proof (a_run_flat ops1 None (snd (run x0 ops1)) Hb1 L1) as Fl1. cbn [flat app] in Fl1.
  destruct (run x0 ops1) as [x1 obs1]. cbn [fst snd Nat.add] in *.
  assert (Hv' : tsd_view c e (wfs (s_w (fst (step x1 OStop)))) keys1 (closed1 ++ [cur1])).
  { cbn [run] in Hv. destruct (step x1 OStop) as [x1s ob1s]. exact Hv. }
  clear Hv.
  destruct (reltd_view_components c crit e t0 _ _ x1 _ keys1 (closed1 ++ [cur1]) Hcfg Y ltac:(lia) R1 Hv'
              ltac:(destruct closed1; discriminate) K1 ltac:(intros k Ik; specialize (Rg1 k Ik); lia))
    as [cl [cu [wr [roll [Ea [Ef [Es [I [V [Hn [Z RS]]]]]]]]]]].
  apply app_inj_tail in Ef. destruct Ef as [<- <-]. rewrite Ea in Fl1. cbn [flat] in Fl1.
  destruct R1 as [Ht1 [Ha1 _]].
  destruct (reopen_moved_step_tsd c crit e t0 _ _ x1 keys1 wr roll closed1 cur1 moved Hcfg Y ltac:(lia) Ht1 Ha1 Es I V Hn Z RS Hm)
    as [x2 [E2 [R2 W2]]].
  rewrite (run_app [OExtRename (kname c e (nth (length closed1) keys1 kd)) moved; OReopen]). rewrite E2.
  destruct (tail_reltdx c crit e t0 _ [(moved, cur1)] keys1 _ x2 closed1 [] (length cur1) ops2 Hcfg T Y R2 Hb2 Htk2 ltac:(lia) ltac:(lia))
    as [keys2 [closed2 [cur2 [D [K [Rg [C _]]]]]]].
  destruct (run x2 (ops2 ++ [OStop])) as [x3 obs3]. cbn [fst snd] in *.
  split; [apply nth_error_after; exact L1|]. split; [exact Fl1|].
  exists keys2, closed2, cur2. cbn [app] in C.
  split; [exact D|]. split; [exact K|]. split; [intros k Ik; specialize (Rg k Ik); lia|].
  split; [exact (td_len _ _ _ _ _ _ _ I)|]. split; [exact C|].
  rewrite ReopenRot.written_app, !concat_app. cbn [concat]. rewrite !app_nil_r, <- Fl1, <- C, <- !app_assoc. reflexivity.
Qed.
Print Assumptions reopen_timestampsdirect.

(* the history up to the return of reopen_outputfile() *)
Lemma reopen_tsd_prefix c crit t0 off ops1 moved keys1 closed1 cur1 hi :
  tsdcfg c crit -> tag_ok c -> Forall basic_op ops1 -> Forall tick_ok ops1 ->
  years_ok (ts_e c off) t0 hi -> (t0 + elapsed ops1 <= hi)%Z -> (N.of_nat (length ops1) <= usize_max)%N ->
  tsd_member c moved = false ->
  let e := ts_e c off in
  tsd_view c e (wfs (s_w (fst (run (sys0 t0 off) (OStart c :: ops1 ++ [OStop]))))) keys1 (closed1 ++ [cur1]) ->
  keys_ok keys1 -> (forall k, In k keys1 -> (t0 <= fst k <= t0 + elapsed ops1)%Z) ->
  exists x2 obs1,
    run (sys0 t0 off) ((OStart c :: ops1) ++ [OExtRename (kname c e (nth (length closed1) keys1 kd)) moved; OReopen])
      = (x2, obs1 ++ [ObsRes 0 false; ObsRes 0 false]) /\ length obs1 = S (length ops1)
    /\ RelTdX c crit e t0 [(moved, cur1)] keys1 (length ops1) x2 (closed1, [], length cur1)
    /\ wnow (s_w x2) = (t0 + elapsed ops1)%Z /\ concat closed1 ++ cur1 = written ops1.
Proof.
  intros Hcfg T Hb1 Htk1 Y Hhi Hmax Hm e Hv K1 Rg1.
  pose proof (elapsed_nonneg _ Htk1) as En1.
  destruct (step (sys0 t0 off) (OStart c)) as [x0 ob0] eqn:E0.
  pose proof (wnow_start c t0 off x0 ob0 E0) as W0.
  pose proof (start_rel_tsd c crit t0 off) as R0. rewrite E0 in R0. cbn [fst] in R0. fold e in R0.
  rewrite run_app. cbn [run] in Hv |- *. rewrite E0 in Hv |- *. rewrite run_app in Hv.
  pose proof (run_rel_tsd c crit e t0 _ Hcfg T Y ops1 x0 None 0 R0 Hb1 Htk1 ltac:(lia) ltac:(cbn [Nat.add]; lia)) as [R1 [W1 _]].
  pose proof (run_length ops1 x0) as L1.
  pose proof (a_run_flat ops1 None (snd (run x0 ops1)) Hb1 L1) as Fl1. cbn [flat app] in Fl1.
  destruct (run x0 ops1) as [x1 obs1]. cbn [fst snd Nat.add] in *.
  assert (Hv' : tsd_view c e (wfs (s_w (fst (step x1 OStop)))) keys1 (closed1 ++ [cur1])).
  { cbn [run] in Hv. destruct (step x1 OStop) as [x1s ob1s]. exact Hv. }
  clear Hv.
  destruct (reltd_view_components c crit e t0 _ _ x1 _ keys1 (closed1 ++ [cur1]) Hcfg Y ltac:(lia) R1 Hv'
              ltac:(destruct closed1; discriminate) K1 ltac:(intros k Ik; specialize (Rg1 k Ik); lia))
    as [cl [cu [wr [roll [Ea [Ef [Es [I [V [Hn [Z RS]]]]]]]]]]].
  apply app_inj_tail in Ef. destruct Ef as [<- <-]. rewrite Ea in Fl1. cbn [flat] in Fl1.
  destruct R1 as [Ht1 [Ha1 _]].
  destruct (reopen_moved_step_tsd c crit e t0 _ _ x1 keys1 wr roll closed1 cur1 moved Hcfg Y ltac:(lia) Ht1 Ha1 Es I V Hn Z RS Hm)
    as [x2 [E2 [R2 W2]]].
  cbn [run] in E2. rewrite E2. exists x2, (ob0 :: obs1). split; [reflexivity|]. split; [cbn [length]; lia|].
  split; [exact R2|]. split; [lia | exact Fl1].
Qed.

(* size criterion: the size count survives the reopen.  The files of ops2 - the first one at the original path - are the
   greedy partition of ops2 that starts with cur1 (the content of the renamed file) in the current file, with cur1 taken
   off the first file, because these bytes are in the renamed file *)
Theorem reopen_timestampsdirect_partition c m t0 off ops1 ops2 moved keys1 closed1 cur1 :
  tsdcfg c (CSize m) -> tag_ok c -> Forall basic_op ops1 -> Forall basic_op ops2 -> Forall tick_ok (ops1 ++ ops2) ->
  (0 <= t0 + ts_e c off)%Z -> (t0 + elapsed (ops1 ++ ops2) + ts_e c off < sec_max)%Z ->
  (N.of_nat (length (ops1 ++ ops2)) <= usize_max)%N ->
  tsd_member c moved = false ->
  let e := ts_e c off in
  tsd_view c e (wfs (s_w (fst (run (sys0 t0 off) (OStart c :: ops1 ++ [OStop]))))) keys1 (closed1 ++ [cur1]) ->
  keys_ok keys1 -> (forall k, In k keys1 -> (t0 <= fst k <= t0 + elapsed ops1)%Z) ->
  let cur := kname c e (nth (length closed1) keys1 kd) in
  let r := run (sys0 t0 off) (OStart c :: ops1 ++ [OExtRename cur moved; OReopen] ++ ops2 ++ [OStop]) in
  exists keys2 h tl,
    partition m [] cur1 (items true ops2) = (cur1 ++ h) :: tl
    /\ tsdx_view c e (wfs (s_w (fst r))) (keys1 ++ keys2) (closed1 ++ h :: tl) [(moved, cur1)]
    /\ keys_ok (keys1 ++ keys2).
Proof.
  intros Hcfg T Hb1 Hb2 Htk Hlo Hhi Hmax Hm e Hv K1 Rg1. cbv zeta.
  apply Forall_app in Htk. destruct Htk as [Htk1 Htk2]. rewrite elapsed_app in Hhi. rewrite app_length in Hmax.
  pose proof (elapsed_nonneg _ Htk1) as En1. pose proof (elapsed_nonneg _ Htk2) as En2.
  assert (Y : years_ok e t0 (t0 + elapsed ops1 + elapsed ops2)) by (unfold years_ok, e; lia).
  destruct (reopen_tsd_prefix c (CSize m) t0 off ops1 moved keys1 closed1 cur1 _ Hcfg T Hb1 Htk1 Y ltac:(lia) ltac:(lia) Hm Hv K1 Rg1)
    as [x2 [obs1 [E2 [_ [R2 [W2 _]]]]]]. fold e in E2, R2.
  rewrite app_comm_cons, app_assoc, run_app, E2.
  destruct (tail_reltdx c (CSize m) e t0 _ [(moved, cur1)] keys1 _ x2 closed1 [] (length cur1) ops2 Hcfg T Y R2 Hb2 Htk2 ltac:(lia) ltac:(lia))
    as [keys2 [closed2 [cur2 [D [K [_ [_ [_ P]]]]]]]].
  destruct (run x2 (ops2 ++ [OStop])) as [x3 obs3]. cbn [fst snd] in *.
  destruct (sx_run_partition m ops2 closed1 [] cur1 Hb2) as [h [tl [P1 P2]]]. rewrite app_nil_r in P1.
  exists keys2, h, tl. split; [exact P1|]. split; [|exact K].
  rewrite (eq_trans (P m eq_refl) P2) in D. exact D.
Qed.
Print Assumptions reopen_timestampsdirect_partition.

(* right after reopen_outputfile() has returned the renamed file holds every record written since the last rotation -
   the buffered tail included -, and there is a new, empty file at the original path: the keys are unchanged *)
Theorem reopen_timestampsdirect_at_once c crit t0 off ops1 moved keys1 closed1 cur1 :
  tsdcfg c crit -> tag_ok c -> Forall basic_op ops1 -> Forall tick_ok ops1 ->
  (0 <= t0 + ts_e c off)%Z -> (t0 + elapsed ops1 + ts_e c off < sec_max)%Z -> (N.of_nat (length ops1) <= usize_max)%N ->
  tsd_member c moved = false ->
  let e := ts_e c off in
  tsd_view c e (wfs (s_w (fst (run (sys0 t0 off) (OStart c :: ops1 ++ [OStop]))))) keys1 (closed1 ++ [cur1]) ->
  keys_ok keys1 -> (forall k, In k keys1 -> (t0 <= fst k <= t0 + elapsed ops1)%Z) ->
  let cur := kname c e (nth (length closed1) keys1 kd) in
  let f := wfs (s_w (fst (run (sys0 t0 off) (OStart c :: ops1 ++ [OExtRename cur moved; OReopen])))) in
  concat closed1 ++ cur1 = written ops1
  /\ tsdx_view c e f keys1 (closed1 ++ [[]]) [(moved, cur1)].
Proof.
  intros Hcfg T Hb1 Htk1 Hlo Hhi Hmax Hm e Hv K1 Rg1. cbv zeta.
  assert (Y : years_ok e t0 (t0 + elapsed ops1)) by (unfold years_ok, e; lia).
  destruct (reopen_tsd_prefix c crit t0 off ops1 moved keys1 closed1 cur1 _ Hcfg T Hb1 Htk1 Y ltac:(lia) Hmax Hm Hv K1 Rg1)
    as [x2 [obs1 [E2 [_ [R2 [_ Fl1]]]]]]. fold e in E2, R2.
  rewrite app_comm_cons, E2. cbn [fst]. split; [exact Fl1|].
  destruct R2 as [_ [_ [keys [wr [roll [_ [I [V [_ [_ [_ [tl Ek]]]]]]]]]]]].
  assert (Etl : tl = []).
  { pose proof (tx_len _ _ _ _ _ _ _ _ I) as L. pose proof (proj1 Hv) as L1. rewrite Ek, app_length in L.
    rewrite app_length in L1. cbn [length] in L1. apply length_zero_iff_nil. lia. }
  rewrite Etl, app_nil_r in Ek. subst keys.
  assert (Hp : wpend wr = []).
  { unfold cur_view in V. destruct (content (wfs (s_w x2)) (wino wr)); [exact V | discriminate]. }
  rewrite <- V. apply (tsdinvx_view c e t0); assumption.
Qed.
Print Assumptions reopen_timestampsdirect_at_once.

(* ------------------------------------------------------------------ theorem 2: reopen with the file in place *)
(* nothing is lost, nothing is truncated: the files of ops1 stay under their keys, the current file of ops1 is continued,
   the family holds exactly the stream; for a size criterion the files are those of the history without the reopen *)
Theorem reopen_timestampsdirect_in_place c crit t0 off ops1 ops2 :
  tsdcfg c crit -> tag_ok c -> Forall basic_op ops1 -> Forall basic_op ops2 -> Forall tick_ok (ops1 ++ ops2) ->
  (0 <= t0 + ts_e c off)%Z -> (t0 + elapsed (ops1 ++ ops2) + ts_e c off < sec_max)%Z ->
  (N.of_nat (length (ops1 ++ ops2)) <= usize_max)%N ->
  let e := ts_e c off in
  let r := run (sys0 t0 off) (OStart c :: ops1 ++ [OReopen] ++ ops2 ++ [OStop]) in
  let f := wfs (s_w (fst r)) in
  nth_error (snd r) (S (length ops1)) = Some (ObsRes 0 false)
  /\ exists keys1 files1 keys files,
       tsd_view c e (wfs (s_w (fst (run (sys0 t0 off) (OStart c :: ops1 ++ [OStop]))))) keys1 files1
       /\ concat files1 = written ops1
       /\ tsd_view c e f keys files /\ keys_ok keys
       /\ (forall k, In k keys -> (t0 <= fst k <= t0 + elapsed (ops1 ++ ops2))%Z)
       /\ concat files = written (ops1 ++ ops2)
       /\ (exists tl, keys = keys1 ++ tl)
       /\ (forall closed1 cur1, files1 = closed1 ++ [cur1] -> exists t rest, files = closed1 ++ (cur1 ++ t) :: rest)
       /\ (forall m, crit = CSize m -> files = expected_files m None (items false (ops1 ++ ops2))).
Proof.
  intros Hcfg T Hb1 Hb2 Htk Hlo Hhi Hmax e. cbv zeta.
  apply Forall_app in Htk. destruct Htk as [Htk1 Htk2]. rewrite elapsed_app in Hhi |- *. rewrite app_length in Hmax.
  pose proof (elapsed_nonneg _ Htk1) as En1. pose proof (elapsed_nonneg _ Htk2) as En2.
  assert (Y : years_ok e t0 (t0 + elapsed ops1 + elapsed ops2)) by (unfold years_ok, e; lia).
  cbn [run]. destruct (step (sys0 t0 off) (OStart c)) as [x0 ob0] eqn:E0.
  pose proof (wnow_start c t0 off x0 ob0 E0) as W0.
  pose proof (start_rel_tsd c crit t0 off) as R0. rewrite E0 in R0. cbn [fst] in R0. fold e in R0.
  rewrite !run_app.
  pose proof (run_rel_tsd c crit e t0 _ Hcfg T Y ops1 x0 None 0 R0 Hb1 Htk1 ltac:(lia) ltac:(cbn [Nat.add]; lia)) as [R1 [W1 Z1]].
  pose proof (run_length ops1 x0) as L1.
  pose proof (a_run_flat ops1 None (snd (run x0 ops1)) Hb1 L1) as Fl1. cbn [flat app] in Fl1.
  destruct (run x0 ops1) as [x1 obs1] eqn:E1. cbn [fst snd Nat.add] in *.
  assert (Hex : forall m, crit = CSize m -> forall a, a_run None ops1 obs1 = a -> forall fl,
            fl = files_of (s_run m a ops2) -> fl = expected_files m None (items false (ops1 ++ ops2))).
  { intros m Hm a Ea fl ->. rewrite <- s_run_none by (apply Forall_app; split; assumption).
    rewrite s_run_app. rewrite <- (proj1 (Z1 m Hm)), Ea. reflexivity. }
  assert (Hnth : forall (a : obs) rest, nth_error (obs1 ++ a :: rest) (length ops1) = Some a).
  { intros a rest. rewrite nth_error_app2 by lia. rewrite L1, Nat.sub_diag. reflexivity. }
  cbn [run].
  destruct (a_run None ops1 obs1) as [[cl cu]|] eqn:Ea.
  - pose proof R1 as [Ht1 [Ha1 [keys1 [wr [roll [Es [I [V [Hn [Z RS]]]]]]]]]].
    pose proof (tsd_stop_view c crit e t0 _ x1 keys1 wr roll cl cu Hcfg Ht1 Ha1 Es I V Hn Z RS) as V1.
    destruct (reopen_inplace_step_tsd c crit e t0 _ x1 keys1 wr roll cl cu Hcfg Ht1 Ha1 Es I V Hn Z RS) as [x2 [E2 [R2 W2]]].
    assert (E2' : run x1 [OReopen] = (x2, [ObsRes 0 false])) by (cbn [run]; rewrite E2; reflexivity).
    rewrite (run_app [OReopen]), E2'.
    destruct (tail_reltdx c crit e t0 _ [] keys1 _ x2 cl cu 0 ops2 Hcfg T Y R2 Hb2 Htk2 ltac:(lia) ltac:(lia))
      as [keys2 [closed2 [cur2 [D [K [Rg [C [[t Ht] P]]]]]]]].
    destruct (run x2 (ops2 ++ [OStop])) as [x3 obs3]. cbn [fst snd] in *.
    split; [apply Hnth|].
    destruct (step x1 OStop) as [x1s ob1s]. cbn [fst] in *.
    exists keys1, (cl ++ [cu]), (keys1 ++ keys2), (cl ++ closed2 ++ [cur2]).
    split; [exact V1|].
    split. { rewrite concat_app. cbn [concat]. rewrite app_nil_r. exact Fl1. }
    split; [apply tsdx_view_nil; exact D|]. split; [exact K|].
    split; [intros k Ik; specialize (Rg k Ik); lia|].
    split.
    { rewrite ReopenRot.written_app, !concat_app. cbn [concat]. rewrite app_nil_r, <- Fl1. cbn [flat]. rewrite <- app_assoc, <- C. reflexivity. }
    split; [eauto|].
    split.
    { intros closed1 cur1 E. apply app_inj_tail in E. destruct E as [<- <-].
      rewrite Ht. exists t, (List.tl (closed2 ++ [cur2])). reflexivity. }
    intros m Hm. apply (Hex m Hm _ eq_refl). rewrite (P m Hm). apply sx_run_files. exact Hb2.
  - pose proof (stop_rel_tsd c crit e t0 _ x1 None Hcfg R1) as S1.
    destruct (reopen_initial_step_tsd c crit e t0 _ x1 Hcfg R1) as [x2 [E2 [R2 W2]]].
    assert (E2' : run x1 [OReopen] = (x2, [ObsRes 0 false])) by (cbn [run]; rewrite E2; reflexivity).
    rewrite (run_app [OReopen]), E2'.
    pose proof (finish_rel_tsd c crit e t0 _ _ x2 None ops2 Hcfg T Y R2 Hb2 Htk2 ltac:(lia) ltac:(lia)) as [[keys [Rd [K Rg]]] [Fl Sz2]].
    destruct (run x2 (ops2 ++ [OStop])) as [x3 obs3]. cbn [fst snd] in *.
    split; [apply Hnth|].
    destruct (step x1 OStop) as [x1s ob1s]. cbn [fst] in *.
    exists [], [], keys, (files_of (a_run None ops2 (snd (run x2 ops2)))).
    split; [apply tsd_view_nil; auto|]. split; [exact Fl1|]. split; [exact Rd|]. split; [exact K|].
    split; [intros k Ik; specialize (Rg k Ik); lia|].
    split. { rewrite files_of_concat, Fl, ReopenRot.written_app, <- Fl1. reflexivity. }
    split; [exists keys; reflexivity|].
    split; [intros closed1 cur1 E; destruct closed1; discriminate|].
    intros m Hm. apply (Hex m Hm _ eq_refl). rewrite (Sz2 m Hm). reflexivity.
Qed.
Print Assumptions reopen_timestampsdirect_in_place.

(* ================================================================== 6. reset(builder) to another TimestampsDirect family *)
Lemma same_env_off w w' : same_env w w' -> woff w' = woff w.
Proof. intros [_ [_ [H _]]]. exact H. Qed.

(* the zone offset of the world does not change in a history (the relation RelTd says this only for configurations
   without use_utc) *)
Lemma write_woff_tsd c crit e lo hi n x a b :
  tsdcfg c crit -> tag_ok c -> years_ok e lo hi -> RelTd c crit e lo n x a ->
  (wnow (s_w x) <= hi)%Z -> (N.of_nat (S n) <= usize_max)%N ->
  exists s w' s' rot, s_flw x = Some s /\ f_poisoned s = false /\
    write_buffer s (s_w x) b = (Ok tt, w', s', rot) /\ woff w' = woff (s_w x).
Proof.
  intros Hcfg T Y [Ht [Ha R]] Hhi Hmax. destruct a as [[closed cur]|].
  - destruct R as [keys [wr [roll [Es [I [V [Hn [Z RS]]]]]]]]. rewrite <- V in Z.
    assert (Hk : (N.of_nat (length keys) <= usize_max)%N) by (rewrite (td_len _ _ _ _ _ _ _ I); lia).
    destruct (write_active_tsd c crit e lo hi (s_w x) wr keys closed roll b Hcfg T Y I Hhi Hk Z)
      as [w' [wr' [roll' [keys' [closed' [E [_ [_ [S' _]]]]]]]]].
    eexists _, w', _, _. split; [exact Es|]. split; [reflexivity|]. split; [exact E|]. exact (same_env_off _ _ S').
  - destruct R as [Es [Q [Hn [Hi [Hoff Hlo]]]]].
    destruct (initialize_empty_tsd c crit e lo (s_w x) Hcfg Q Hn Hi Hoff Hlo) as [w1 [wr [roll [Ei [I [V [Z [S1 RS]]]]]]]].
    assert (Hhi1 : (wnow w1 <= hi)%Z) by (rewrite (same_env_now _ _ S1); exact Hhi).
    assert (Z0 : roll_size_ok roll (length (cur_view w1 wr))) by (rewrite V; exact Z).
    destruct (write_active_tsd c crit e lo hi w1 wr [(wnow (s_w x), 0)] [] roll b Hcfg T Y I Hhi1 ltac:(cbn [length]; lia) Z0)
      as [w' [wr' [roll' [keys' [closed' [E [_ [_ [S' _]]]]]]]]].
    eexists (new_flw c), w', _, _. split; [exact Es|]. split; [reflexivity|].
    split. { rewrite (write_buffer_init c (s_w x) b _ _ _ w1 Ei). exact E. }
    rewrite (same_env_off _ _ S'). exact (same_env_off _ _ S1).
Qed.

Lemma step_woff_tsd c crit e lo hi n x a o :
  tsdcfg c crit -> tag_ok c -> years_ok e lo hi -> RelTd c crit e lo n x a -> basic_op o ->
  (wnow (s_w x) <= hi)%Z -> (N.of_nat (S n) <= usize_max)%N ->
  woff (s_w (fst (step x o))) = woff (s_w x).
Proof.
  intros Hcfg T Y R Hb Hhi Hmax. rewrite (step_sync_rel_tsd c crit e lo n x a o Hcfg R).
  destruct o; try contradiction; cbn [sync_step].
  - destruct (write_woff_tsd c crit e lo hi n x a b Hcfg T Y R Hhi Hmax) as [s [w' [s' [rot [Es [Hp [E Hw]]]]]]].
    rewrite Es, Hp. rewrite (proj1 R). cbn [app]. rewrite E. cbn [fst s_w]. exact Hw.
  - destruct (write_woff_tsd c crit e lo hi n x a b Hcfg T Y R Hhi Hmax) as [s [w' [s' [rot [Es [Hp [E Hw]]]]]]].
    rewrite Es, Hp, E. cbn [fst s_w]. exact Hw.
  - destruct R as [Ht [Ha R]]. destruct a as [[closed cur]|].
    + destruct R as [keys [wr [roll [Es [I _]]]]]. rewrite Es. cbn [st_tsd f_poisoned].
      destruct (flush_active_tsd c e lo (s_w x) wr keys closed roll (nth (length closed) keys kd) I) as [w' [wr' [E [_ [_ [_ S']]]]]].
      fold (st_tsd c e (nth (length closed) keys kd) roll wr). rewrite E. cbn [fst s_w]. exact (same_env_off _ _ S').
    + destruct R as [Es _]. rewrite Es. cbn [new_flw f_poisoned flush_state f_inner fst s_w]. reflexivity.
  - destruct R as [Ht [Ha R]]. destruct a as [[closed cur]|].
    + destruct R as [keys [wr [roll [Es [I [_ [Hn _]]]]]]]. rewrite Es. cbn [st_tsd f_poisoned f_cfg f_inner].
      assert (Hk : (N.of_nat (length keys) <= usize_max)%N) by (rewrite (td_len _ _ _ _ _ _ _ I); lia).
      destruct (mount_next_rotates_tsd c crit e lo hi (s_w x) wr keys closed roll true Hcfg T Y I Hhi Hk eq_refl)
        as [w' [wr' [roll' [E [_ [_ [_ [S' _]]]]]]]].
      rewrite E. cbn [fst s_w]. exact (same_env_off _ _ S').
    + destruct R as [Es _]. rewrite Es. cbn [new_flw f_poisoned f_cfg f_inner mount_next fst s_w]. reflexivity.
  - reflexivity.
  - reflexivity.
Qed.

Lemma run_woff_tsd c crit e lo hi : tsdcfg c crit -> tag_ok c -> years_ok e lo hi ->
  forall ops x a n, RelTd c crit e lo n x a -> Forall basic_op ops -> Forall tick_ok ops ->
  (wnow (s_w x) + elapsed ops <= hi)%Z -> (N.of_nat (n + length ops) <= usize_max)%N ->
  woff (s_w (fst (run x ops))) = woff (s_w x).
Proof.
  intros Hcfg T Y. induction ops as [|o r IH]; intros x a n R Hb Htk Hhi Hmax; [reflexivity|].
  cbn [run]. inversion Hb as [|o' r' Ho Hr]; subst. inversion Htk as [|o' r' Hto Htr]; subst.
  cbn [elapsed length] in *. pose proof (elapsed_nonneg r Htr) as Er.
  assert (Hdt : (0 <= dt_of o)%Z) by (destruct o; cbn [dt_of tick_ok] in *; lia).
  pose proof (step_woff_tsd c crit e lo hi n x a o Hcfg T Y R Ho ltac:(lia) ltac:(lia)) as Wo.
  pose proof (step_rel_tsd c crit e lo hi n x a o Hcfg T Y R Ho Hto ltac:(lia) ltac:(lia)) as S. destruct (step x o) as [x1 ob].
  destruct S as [R1 [W1 _]]. specialize (IH x1 _ (S n) R1 Hr Htr ltac:(lia) ltac:(lia)). destruct (run x1 r) as [x2 obs].
  cbn [fst] in *. congruence.
Qed.

(* (name, content) of the files named by the keys *)
Definition keyed (c : config) (e : Z) (keys : list key) (files : list bytes) : list (bytes * bytes) :=
  combine (List.map (kname c e) keys) files.

Lemma keyed_in c e : forall keys files n d, length keys = length files ->
  (In (n, d) (keyed c e keys files) <-> exists i, i < length files /\ n = kname c e (nth i keys kd) /\ d = nth i files []).
Proof.
  induction keys as [|k ks IH]; intros [|f0 fs] n d Hl; try discriminate.
  - cbn. split; [intros [] | intros [i [Hi _]]; lia].
  - injection Hl as Hl. unfold keyed in *. cbn [List.map combine In length]. rewrite (IH fs n d Hl). split.
    + intros [E|[i [Hi [En Ed]]]].
      * injection E as <- <-. exists 0. split; [lia|]. split; reflexivity.
      * exists (S i). split; [lia|]. split; assumption.
    + intros [[|i] [Hi [En Ed]]].
      * left. cbn [nth] in En, Ed. congruence.
      * right. exists i. split; [lia|]. split; assumption.
Qed.

Lemma keyed_names c e keys files n : length keys = length files ->
  (In n (List.map fst (keyed c e keys files)) <-> exists i, i < length files /\ n = kname c e (nth i keys kd)).
Proof.
  intros Hl. rewrite in_map_iff. split.
  - intros [[n' d] [E H]]. cbn [fst] in E. subst n'. apply keyed_in in H; [|exact Hl]. destruct H as [i [Hi [En _]]]. eauto.
  - intros [i [Hi En]]. exists (n, nth i files []). split; [reflexivity|]. apply keyed_in; [exact Hl|]. eauto.
Qed.

Lemma tsd_view_dir_holds c e f keys files : tsd_view c e f keys files -> dir_holds f (keyed c e keys files).
Proof.
  intros [L [A [B _]]]. split.
  - intros n d Hin. apply keyed_in in Hin; [|exact L]. destruct Hin as [i [Hi [-> ->]]]. exact (A i Hi).
  - intros n j Hn. apply keyed_names; [exact L|]. exact (B n j Hn).
Qed.

(* the names of the family of c are not members of the family of c2 (the family test of the model, tsd_member) *)
Definition foreign_family_tsd (c c2 : config) (e : Z) : Prop :=
  forall k, in_years e (fst k) -> tsd_member c2 (kname c e k) = false.

(* reset: the old writer is dropped - its buffered tail reaches the old current file -, a new writer is installed *)
Lemma reset_step_tsd c crit c2 crit2 e lo n x a :
  tsdcfg c crit -> tsdcfg c2 crit2 -> c_cap c2 = c_cap c -> RelTd c crit e lo n x a ->
  exists x2, step x (OReset c2) = (x2, ObsRes 0 false)
    /\ s_flw x2 = Some (new_flw c2) /\ s_tl x2 = [] /\ wacts (s_w x2) = 0 /\ quiet (s_w x2)
    /\ fs_wf (wfs (s_w x2)) /\ wnow (s_w x2) = wnow (s_w x) /\ woff (s_w x2) = woff (s_w x)
    /\ exists keys, tsd_view c e (wfs (s_w x2)) keys (files_of a) /\ keys_ok keys
         /\ (forall k, In k keys -> (lo <= fst k <= wnow (s_w x))%Z)
         /\ tsd_view c e (wfs (s_w (fst (step x OStop)))) keys (files_of a).
Proof.
  intros Hcfg Hcfg2 Hcap R. rewrite (step_sync_rel_tsd c crit e lo n x _ (OReset c2) Hcfg R). cbn [sync_step].
  pose proof Hcfg as [_ [_ [_ Has]]]. destruct Hcfg2 as [_ [_ [_ Has2]]].
  pose proof R as [Ht [Ha R']]. destruct a as [[cl cu]|].
  - destruct R' as [keys [wr [roll [Es [I [V [Hn [Z RS]]]]]]]]. rewrite Es. cbn [st_tsd f_poisoned f_cfg f_inner].
    rewrite Hcap, cap_eqb_refl, Has, Has2. cbn [Bool.eqb andb negb]. unfold drain_acts, w_drop.
    destruct (w_flush_quiet (s_w x) wr (td_quiet _ _ _ _ _ _ _ I)) as [w1 [E [F S]]]. rewrite E. cbn [fst snd].
    set (wr' := {| wino := wino wr; wpend := []; wcap := wcap wr |}).
    assert (Hok : wr_ok wr') by (unfold wr_ok, wr'; cbn; destruct (wcap wr); [lia | reflexivity]).
    destruct (tsdinv_append c e lo (s_w x) w1 wr wr' keys cl (wpend wr) I F S eq_refl eq_refl Hok) as [I1 C1].
    eexists. split; [reflexivity|]. cbn [s_flw s_tl s_w].
    split; [reflexivity|]. split; [exact Ht|]. split; [exact (same_env_acts _ _ S Ha)|]. split; [exact (proj1 S)|].
    split; [exact (td_wf _ _ _ _ _ _ _ I1)|]. split; [exact (same_env_now _ _ S)|]. split; [exact (same_env_off _ _ S)|].
    exists keys. cbn [files_of].
    split. { replace cu with (cur_view w1 wr').
             - apply (tsdinv_view c e lo); [exact I1 | reflexivity].
             - unfold cur_view. cbn [wr' wino wpend] in C1 |- *. rewrite C1, app_nil_r. exact V. }
    split; [exact (td_keys _ _ _ _ _ _ _ I)|]. split; [exact (td_range _ _ _ _ _ _ _ I)|].
    exact (tsd_stop_view c crit e lo n x keys wr roll cl cu Hcfg Ht Ha Es I V Hn Z RS).
  - pose proof (stop_rel_tsd c crit e lo n x None Hcfg R) as S1.
    destruct R' as [Es [Q [Hn Hi]]]. rewrite Es. cbn [new_flw f_poisoned f_cfg f_inner].
    rewrite Hcap, cap_eqb_refl, Has, Has2. cbn [Bool.eqb andb negb]. unfold drain_acts.
    eexists. split; [reflexivity|]. cbn [s_flw s_tl s_w].
    split; [reflexivity|]. split; [exact Ht|]. split; [exact Ha|]. split; [exact Q|].
    split. { split; intros n0; intros; rewrite (lookup_empty _ n0 Hn) in *; discriminate. }
    split; [reflexivity|]. split; [reflexivity|].
    exists []. cbn [files_of]. split; [apply tsd_view_nil; auto|]. split; [constructor|]. split; [intros k []|].
    destruct (step x OStop) as [xs obs]. cbn [fst]. apply tsd_view_nil. auto.
Qed.

(* the history of the new writer in a directory that holds the old family: the embedding of its history in an empty one *)
Lemma run_stop_embed_tsd fn fi c2 crit2 e2 lo2 hi2 x ops :
  tsdcfg c2 crit2 -> tag_ok c2 -> years_ok e2 lo2 hi2 -> (forall n, In n (fnames fn) -> tsd_member c2 n = false) ->
  RelTd c2 crit2 e2 lo2 0 x None -> Forall basic_op ops -> Forall tick_ok ops ->
  (wnow (s_w x) + elapsed ops <= hi2)%Z -> (N.of_nat (length ops) <= usize_max)%N ->
  fst (run (embedx fn fi x) (ops ++ [OStop])) = embedx fn fi (fst (run x (ops ++ [OStop]))).
Proof.
  intros Hcfg T Y Hfor R Hb Htk Hhi Hmax. pose proof Hcfg as [Hrot [Hts [Hlink Hasync]]].
  set (good := good_td c2 crit2 e2 lo2 hi2).
  pose proof (fun y s (G : good y) (Es : s_flw y = Some s) => good_td_cfg c2 crit2 e2 lo2 hi2 y s G Es) as Hg.
  pose proof (fun y s b (G : good y) (Es : s_flw y = Some s) =>
                write_buffer_embed_good_td fn fi c2 crit2 e2 lo2 hi2 Hcfg Y Hfor y s b G Es) as HW.
  pose proof (fun y s (G : good y) (Es : s_flw y = Some s) =>
                mount_next_embed_good_td fn fi c2 crit2 e2 lo2 hi2 Hcfg Y Hfor y s G Es) as HM.
  assert (F : forall i, fam_g fn good (fst (run x (firstn i ops)))).
  { intros i. apply (good_td_fam fn c2 crit2 e2 lo2 hi2 Hcfg Y Hfor).
    pose proof (elapsed_firstn_le ops Htk i) as El. pose proof (firstn_length_le ops i) as Ll.
    pose proof (run_rel_tsd c2 crit2 e2 lo2 hi2 Hcfg T Y (firstn i ops) x None 0 R (Forall_firstn' _ _ i Hb) (Forall_firstn' _ _ i Htk)
                  ltac:(lia) ltac:(cbn [Nat.add]; lia)) as [R1 [W1 _]].
    split; [eauto | lia]. }
  rewrite !run_app.
  pose proof (run_embed_g fn fi c2 good Hts Hasync Hg HW HM ops x F Hb) as [E1 _].
  pose proof (F (length ops)) as [G1 _]. rewrite firstn_all in G1.
  destruct (run (embedx fn fi x) ops) as [xf1 obsf1]. destruct (run x ops) as [x1 obs1]. cbn [fst snd] in *. subst xf1.
  cbn [run]. pose proof (step_embed_g fn fi c2 good Hts Hasync Hg HW HM x1 OStop G1 Logic.I) as ES.
  destruct (step (embedx fn fi x1) OStop) as [xf2 obf2]. destruct (step x1 OStop) as [x2 ob2]. cbn [fst snd] in *.
  injection ES as -> _. reflexivity.
Qed.

(* ------------------------------------------------------------------ theorem 3 *)
Theorem reset_timestampsdirect c crit c2 crit2 t0 off ops1 ops2 :
  tsdcfg c crit -> tsdcfg c2 crit2 -> tag_ok c -> tag_ok c2 -> c_cap c2 = c_cap c ->
  foreign_family_tsd c c2 (ts_e c off) ->
  Forall basic_op ops1 -> Forall basic_op ops2 -> Forall tick_ok (ops1 ++ ops2) ->
  (0 <= t0 + ts_e c off)%Z -> (t0 + elapsed ops1 + ts_e c off < sec_max)%Z ->
  (0 <= t0 + elapsed ops1 + ts_e c2 off)%Z -> (t0 + elapsed (ops1 ++ ops2) + ts_e c2 off < sec_max)%Z ->
  (N.of_nat (length (ops1 ++ ops2)) <= usize_max)%N ->
  let r := run (sys0 t0 off) (OStart c :: ops1 ++ [OReset c2] ++ ops2 ++ [OStop]) in
  (* the reset is accepted *)
  nth_error (snd r) (S (length ops1)) = Some (ObsRes 0 false)
  /\ exists keys1 files1 keys2 files2,
       (* keys1, files1: the family of c as the history ops1 alone leaves it (the buffered tail has reached its current file) *)
       tsd_view c (ts_e c off) (wfs (s_w (fst (run (sys0 t0 off) (OStart c :: ops1 ++ [OStop]))))) keys1 files1
       /\ keys_ok keys1 /\ (forall k, In k keys1 -> (t0 <= fst k <= t0 + elapsed ops1)%Z)
       /\ concat files1 = written ops1
       (* keys2, files2: the family of c2, as timestampsdirect_stream / _partition describe it for a fresh start at the time of
          the reset *)
       /\ length keys2 = length files2 /\ keys_ok keys2
       /\ (forall k, In k keys2 -> (t0 + elapsed ops1 <= fst k <= t0 + elapsed (ops1 ++ ops2))%Z)
       /\ concat files2 = written ops2
       /\ (forall m, crit = CSize m -> files1 = expected_files m None (items false ops1))
       /\ (forall m2, crit2 = CSize m2 -> files2 = expected_files m2 None (items false ops2))
       (* the directory: both families - the old one untouched -, nothing else *)
       /\ dir_holds (wfs (s_w (fst r))) (keyed c (ts_e c off) keys1 files1 ++ keyed c2 (ts_e c2 off) keys2 files2).
Proof.
  intros Hcfg Hcfg2 T T2 Hcap Hf Hb1 Hb2 Htk Hlo Hhi Hlo2 Hhi2 Hmax. cbv zeta.
  apply Forall_app in Htk. destruct Htk as [Htk1 Htk2]. rewrite elapsed_app in Hhi2 |- *. rewrite app_length in Hmax.
  pose proof (elapsed_nonneg _ Htk1) as En1. pose proof (elapsed_nonneg _ Htk2) as En2.
  set (e := ts_e c off) in *. set (e2 := ts_e c2 off) in *.
  assert (Y : years_ok e t0 (t0 + elapsed ops1)) by (unfold years_ok; lia).
  assert (Y2 : years_ok e2 (t0 + elapsed ops1) (t0 + elapsed ops1 + elapsed ops2)) by (unfold years_ok; lia).
  cbn [run]. destruct (step (sys0 t0 off) (OStart c)) as [x0 ob0] eqn:E0.
  pose proof (wnow_start c t0 off x0 ob0 E0) as W0.
  assert (O0 : woff (s_w x0) = off) by (cbn in E0; injection E0 as <- _; reflexivity).
  pose proof (start_rel_tsd c crit t0 off) as R0. rewrite E0 in R0. cbn [fst] in R0. fold e in R0.
  rewrite !run_app.
  pose proof (run_rel_tsd c crit e t0 _ Hcfg T Y ops1 x0 None 0 R0 Hb1 Htk1 ltac:(lia) ltac:(cbn [Nat.add]; lia)) as [R1 [W1 Z1]].
  pose proof (run_woff_tsd c crit e t0 _ Hcfg T Y ops1 x0 None 0 R0 Hb1 Htk1 ltac:(lia) ltac:(cbn [Nat.add]; lia)) as O1.
  pose proof (run_length ops1 x0) as L1.
  pose proof (a_run_flat ops1 None (snd (run x0 ops1)) Hb1 L1) as Fl1. cbn [flat app] in Fl1.
  destruct (run x0 ops1) as [x1 obs1]. cbn [fst snd Nat.add] in *.
  set (a1 := a_run None ops1 obs1) in *.
  destruct (reset_step_tsd c crit c2 crit2 e t0 _ x1 a1 Hcfg Hcfg2 Hcap R1)
    as [x2 [E2 [Es2 [Ht2 [Ha2 [Q2 [W2 [Wn2 [Wo2 [keys1 [V2 [K1 [Rg1 Vs]]]]]]]]]]]]].
  assert (E2' : run x1 [OReset c2] = (x2, [ObsRes 0 false])) by (cbn [run]; rewrite E2; reflexivity).
  cbn [run] in Vs |- *. rewrite (run_app [OReset c2]), E2'.
  (* the system after the reset is the embedding of a fresh one *)
  set (fn := names (wfs (s_w x2))). set (fi := inodes (wfs (s_w x2))).
  set (x2' := {| s_flw := Some (new_flw c2); s_w := set_fs (s_w x2) empty_fs; s_tl := s_tl x2; s_dead := s_dead x2 |}).
  assert (Eemb : x2 = embedx fn fi x2').
  { unfold embedx, x2'. cbn [s_flw s_w s_tl s_dead]. unfold embedw. cbn [set_fs wfs wnow woff wfaults wkill werrs wlink wacts].
    rewrite stock_embed. unfold fn, fi. rewrite stock_eta. destruct x2 as [fl w tl dd]. cbn [s_flw s_w s_tl s_dead] in *.
    rewrite Es2. destruct w. reflexivity. }
  assert (R2 : RelTd c2 crit2 e2 (t0 + elapsed ops1) 0 x2' None).
  { split; [exact Ht2|]. split; [exact Ha2|]. split; [reflexivity|]. split; [exact Q2|]. split; [reflexivity|]. split; [reflexivity|].
    cbn [x2' s_w]. split.
    - unfold eoff, e2, ts_e. cbn [set_fs woff]. rewrite Wo2, O1, O0. reflexivity.
    - cbn [set_fs wnow]. lia. }
  assert (Wx2 : wnow (s_w x2') = (t0 + elapsed ops1)%Z) by (cbn [x2' s_w set_fs wnow]; lia).
  pose proof (tsd_view_dir_holds c e _ _ _ V2) as D0.
  assert (Hfor : forall n, In n (fnames fn) -> tsd_member c2 n = false).
  { intros n Hn. change (fnames fn) with (dir_names (wfs (s_w x2))) in Hn. apply dir_names_lookup in Hn. destruct Hn as [j Hj].
    destruct V2 as [Lk [_ [B _]]]. destruct (B n j Hj) as [i [Hi ->]]. apply Hf.
    apply (years_in e t0 (t0 + elapsed ops1) _ Y).
    assert (Ik : In (nth i keys1 kd) keys1) by (apply nth_In; lia). specialize (Rg1 _ Ik). lia. }
  pose proof (run_stop_embed_tsd fn fi c2 crit2 e2 _ _ x2' ops2 Hcfg2 T2 Y2 Hfor R2 Hb2 Htk2 ltac:(lia) ltac:(lia)) as Eend.
  rewrite <- Eemb in Eend.
  pose proof (finish_rel_tsd c2 crit2 e2 _ _ 0 x2' None ops2 Hcfg2 T2 Y2 R2 Hb2 Htk2 ltac:(lia) ltac:(cbn [Nat.add]; lia))
    as [[keys2 [Rd [K2 Rg2]]] [Fl Sz2]].
  destruct (run x2 (ops2 ++ [OStop])) as [x3 obs3]. cbn [fst snd] in *.
  assert (Hnth : forall (a : obs) rest, nth_error (obs1 ++ a :: rest) (length ops1) = Some a).
  { intros a rest. rewrite nth_error_app2 by lia. rewrite L1, Nat.sub_diag. reflexivity. }
  split; [apply Hnth|].
  destruct (step x1 OStop) as [x1s ob1s]. cbn [fst] in *.
  exists keys1, (files_of a1), keys2, (files_of (a_run None ops2 (snd (run x2' ops2)))).
  split; [exact Vs|]. split; [exact K1|]. split; [intros k Ik; specialize (Rg1 k Ik); lia|].
  split; [rewrite files_of_concat; exact Fl1|].
  split; [exact (proj1 Rd)|]. split; [exact K2|]. split; [intros k Ik; specialize (Rg2 k Ik); lia|].
  split; [rewrite files_of_concat; exact Fl|].
  split; [intros m Hm; rewrite (proj1 (Z1 m Hm)); apply s_run_none; exact Hb1|].
  split; [intros m Hm; rewrite (Sz2 m Hm); apply s_run_none; exact Hb2|].
  rewrite Eend. cbn [embedx s_w]. unfold embedw. cbn [set_fs wfs].
  apply dir_holds_embed.
  - unfold fn, fi. rewrite stock_eta. exact W2.
  - unfold fn, fi. rewrite stock_eta. exact D0.
  - apply tsd_view_dir_holds. exact Rd.
  - intros n Hn Hn'. apply keyed_names in Hn; [|exact (proj1 V2)]. apply keyed_names in Hn'; [|exact (proj1 Rd)].
    destruct Hn as [i [Hi ->]]. destruct Hn' as [i' [Hi' E]].
    assert (Ik : In (nth i keys1 kd) keys1) by (apply nth_In; rewrite (proj1 V2); exact Hi).
    assert (Ik' : In (nth i' keys2 kd) keys2) by (apply nth_In; rewrite (proj1 Rd); exact Hi').
    assert (M : tsd_member c2 (kname c e (nth i keys1 kd)) = false).
    { apply Hf. apply (years_in e t0 (t0 + elapsed ops1) _ Y). specialize (Rg1 _ Ik). lia. }
    rewrite E in M.
    assert (Yk' : in_years e2 (fst (nth i' keys2 kd))).
    { apply (years_in e2 _ _ _ Y2). specialize (Rg2 _ Ik'). lia. }
    refine (kname_not_extra c2 e2 (nth i' keys2 kd) [kname c2 e2 (nth i' keys2 kd)] _ Yk' (or_introl eq_refl)).
    intros n0 [<-|[]]. exact M.
Qed.
Print Assumptions reset_timestampsdirect.

(* a simple sufficient condition: the fixed name parts (basename [_discriminant]) differ, neither is a prefix of the other *)
Lemma foreign_family_tsd_prefix c c2 e :
  is_prefix (fixed0 c) (fixed0 c2) = false -> is_prefix (fixed0 c2) (fixed0 c) = false -> foreign_family_tsd c c2 e.
Proof.
  intros H1 H2 k Yk. apply foreign_no_prefix_ts. rewrite (kname_shape c e k Yk).
  unfold under. destruct (fixed0 c) as [|f0 fr] eqn:E; [discriminate|]. rewrite <- app_assoc. apply not_prefix_app; assumption.
Qed.

(* ================================================================== 7. examples (non-vacuity) and findings *)
Require FL.Flw.ReopenFacts.
Import String.StringSyntax.
Open Scope string_scope.

Definition ext_cfg (base : String.string) (cap : option nat) (app : bool) : config :=
  {| c_spec := {| fbase := bs base; fdisc := None; fts := false; fsfx := Some (bs "log") |};
     c_append := app; c_cap := cap; c_rot := Some (CSize 3, NTimestampsDirect, KNever); c_utc := false;
     c_symlink := false; c_bg := false; c_async := false; c_start := None |}.

Definition ext_a := ext_cfg "a" (Some 8) false.   (* a_r<ts>[.restart-NNNN].log; limit 3 bytes, BufWriter of 8 bytes *)
Definition ext_aa := ext_cfg "a" (Some 8) true.   (* the same family, append *)
(* the histories of ReopenRot.v: ex_ops1 = "abcd" | "ef" flush "gh" (in the buffer);  ex_ops2 = "ij" "kl" tick 5 "mnop" snap "q" *)
Definition ext_k0 : bytes := kname ext_a 0 (0%Z, 0).     (* a_r1970-01-01_00-00-00.log *)
Definition ext_k1 : bytes := kname ext_a 0 (0%Z, 1).     (* a_r1970-01-01_00-00-00.restart-0000.log *)

Example ext_hyps :
  tsdcfg ext_a (CSize 3) /\ tag_ok ext_a /\ Forall basic_op ex_ops1 /\ Forall basic_op ex_ops2
  /\ Forall tick_ok (ex_ops1 ++ ex_ops2) /\ Forall tick_ok ex_ops1
  /\ (0 <= 0 + ts_e ext_a 0)%Z /\ (0 + elapsed (ex_ops1 ++ ex_ops2) + ts_e ext_a 0 < sec_max)%Z
  /\ (N.of_nat (length (ex_ops1 ++ ex_ops2)) <= usize_max)%N
  /\ tsd_member ext_a ex_moved = false
  /\ ext_k0 = bs "a_r1970-01-01_00-00-00.log" /\ ext_k1 = bs "a_r1970-01-01_00-00-00.restart-0000.log".
Proof.
  split; [repeat split|]. split; [apply tag_free_ok; split; vm_compute; reflexivity|].
  split; [repeat constructor|]. split; [repeat constructor|].
  split; [repeat (apply Forall_cons; [cbn [tick_ok]; first [exact Logic.I | lia]|]); apply Forall_nil|].
  split; [repeat (apply Forall_cons; [cbn [tick_ok]; first [exact Logic.I | lia]|]); apply Forall_nil|].
  split; [vm_compute; discriminate|]. split; [vm_compute; reflexivity|]. split; [vm_compute; discriminate|].
  repeat split; vm_compute; reflexivity.
Qed.

(* the history ops1 leaves <ts 0> = "abcd", <ts 0>.restart-0000 = "efgh": the current file is the second one *)
Lemma ext_view1 :
  tsd_view ext_a (ts_e ext_a 0) (wfs (s_w (fst (run (sys0 0 0) (OStart ext_a :: ex_ops1 ++ [OStop]))))) [(0%Z, 0); (0%Z, 1)]
           ([bs "abcd"] ++ [bs "efgh"])
  /\ keys_ok [(0%Z, 0); (0%Z, 1)] /\ (forall k, In k [(0%Z, 0); (0%Z, 1)] -> (0 <= fst k <= 0 + elapsed ex_ops1)%Z).
Proof.
  destruct ext_hyps as (Hc & T & H1 & _ & _ & Htk1 & _).
  destruct (timestampsdirect_partition ext_a 3 0 0 ex_ops1 Hc T H1 Htk1) as [keys [V [K Rg]]];
    [vm_compute; discriminate | vm_compute; reflexivity | vm_compute; discriminate|].
  assert (E : expected_files 3 None (items false ex_ops1) = [bs "abcd"] ++ [bs "efgh"]) by (vm_compute; reflexivity).
  rewrite E in V.
  assert (Ek : keys = [(0%Z, 0); (0%Z, 1)]).
  { pose proof (proj1 V) as L. cbn [length app] in L.
    pose proof (keys_one_second keys 0%Z K ltac:(intros k Ik; specialize (Rg k Ik); change (elapsed ex_ops1) with 0%Z in Rg; lia)) as N1.
    destruct keys as [|k0 [|k1 [|k2 r]]]; try discriminate L.
    rewrite <- (N1 0 ltac:(cbn [length]; lia)), <- (N1 1 ltac:(cbn [length]; lia)). reflexivity. }
  subst keys. split; [exact V|]. split; [exact K | exact Rg].
Qed.

(* ---- theorem 1 on a history ---- *)
(* at the rename "efgh" is partly on disk, partly in the buffer; reopen succeeds; the new file at the original path has the
   same time stamp and the same restart counter 0000; the next rotation - still in second 0 - takes the counter 0001 *)
Example ext_reopen_computed :
  ex_dir (OStart ext_a :: ex_ops1)
  = [(bs "a_r1970-01-01_00-00-00.log", bs "abcd"); (bs "a_r1970-01-01_00-00-00.restart-0000.log", bs "ef")]
  /\ ex_dir (OStart ext_a :: ex_ops1 ++ [OExtRename ext_k1 ex_moved])
  = [(bs "a.old", bs "ef"); (bs "a_r1970-01-01_00-00-00.log", bs "abcd")]
  /\ ex_dir (OStart ext_a :: ex_ops1 ++ [OExtRename ext_k1 ex_moved; OReopen])
  = [(bs "a.old", bs "efgh"); (bs "a_r1970-01-01_00-00-00.log", bs "abcd"); (bs "a_r1970-01-01_00-00-00.restart-0000.log", [])]
  /\ ex_dir (OStart ext_a :: ex_ops1 ++ [OExtRename ext_k1 ex_moved; OReopen] ++ ex_ops2 ++ [OStop])
  = [(bs "a.old", bs "efgh"); (bs "a_r1970-01-01_00-00-00.log", bs "abcd"); (bs "a_r1970-01-01_00-00-00.restart-0000.log", []);
     (bs "a_r1970-01-01_00-00-00.restart-0001.log", bs "ijkl"); (bs "a_r1970-01-01_00-00-05.log", bs "mnop");
     (bs "a_r1970-01-01_00-00-05.restart-0000.log", bs "q")]
  /\ nth_error (snd (run (sys0 0 0) (OStart ext_a :: ex_ops1 ++ [OExtRename ext_k1 ex_moved; OReopen] ++ ex_ops2 ++ [OStop])))
               (S (S (length ex_ops1))) = Some (ObsRes 0 false).
Proof. repeat (split; [vm_compute; reflexivity|]); vm_compute; reflexivity. Qed.

(* ... what the theorem says about it *)
Example ext_reopen_thm :
  exists keys2 closed2 cur2,
    tsdx_view ext_a 0 (wfs (s_w (fst (run (sys0 0 0) (OStart ext_a :: ex_ops1 ++ [OExtRename ext_k1 ex_moved; OReopen] ++ ex_ops2 ++ [OStop])))))
      ([(0%Z, 0); (0%Z, 1)] ++ keys2) ([bs "abcd"] ++ closed2 ++ [cur2]) [(ex_moved, bs "efgh")]
    /\ keys_ok ([(0%Z, 0); (0%Z, 1)] ++ keys2)
    /\ concat closed2 ++ cur2 = written ex_ops2.
Proof.
  destruct ext_hyps as (Hc & T & H1 & H2 & Htk & _ & Hlo & Hhi & Hmax & Hm & _).
  destruct ext_view1 as (V1 & K1 & Rg1).
  pose proof (reopen_timestampsdirect ext_a (CSize 3) 0 0 ex_ops1 ex_ops2 ex_moved [(0%Z, 0); (0%Z, 1)] [bs "abcd"] (bs "efgh")
                Hc T H1 H2 Htk Hlo Hhi Hmax Hm V1 K1 Rg1) as [_ [_ X]].
  destruct X as (keys2 & closed2 & cur2 & D & K & _ & _ & C & _). exists keys2, closed2, cur2. auto.
Qed.

(* the size rule: the files of ops2 - the first one at the original path - are  "" | ijkl | mnop | q *)
Example ext_reopen_partition_thm :
  exists keys2,
    tsdx_view ext_a 0 (wfs (s_w (fst (run (sys0 0 0) (OStart ext_a :: ex_ops1 ++ [OExtRename ext_k1 ex_moved; OReopen] ++ ex_ops2 ++ [OStop])))))
      ([(0%Z, 0); (0%Z, 1)] ++ keys2) [bs "abcd"; []; bs "ijkl"; bs "mnop"; bs "q"] [(ex_moved, bs "efgh")]
    /\ keys_ok ([(0%Z, 0); (0%Z, 1)] ++ keys2).
Proof.
  destruct ext_hyps as (Hc & T & H1 & H2 & Htk & _ & Hlo & Hhi & Hmax & Hm & _).
  destruct ext_view1 as (V1 & K1 & Rg1).
  destruct (reopen_timestampsdirect_partition ext_a 3 0 0 ex_ops1 ex_ops2 ex_moved [(0%Z, 0); (0%Z, 1)] [bs "abcd"] (bs "efgh")
                Hc T H1 H2 Htk Hlo Hhi Hmax Hm V1 K1 Rg1) as (keys2 & h & tl & P & D & K).
  assert (E2 : partition 3 [] (bs "efgh") (items true ex_ops2) = (bs "efgh" ++ []) :: [bs "ijkl"; bs "mnop"; bs "q"])
    by (vm_compute; reflexivity).
  rewrite E2 in P. injection P as Ph Pt. subst h tl. exists keys2. split; [exact D | exact K].
Qed.

(* right after the reopen: the same keys, an empty file under the newest one *)
Example ext_reopen_at_once_thm :
  tsdx_view ext_a 0 (wfs (s_w (fst (run (sys0 0 0) (OStart ext_a :: ex_ops1 ++ [OExtRename ext_k1 ex_moved; OReopen])))))
    [(0%Z, 0); (0%Z, 1)] [bs "abcd"; []] [(ex_moved, bs "efgh")].
Proof.
  destruct ext_hyps as (Hc & T & H1 & _ & _ & Htk1 & _ & _ & _ & Hm & _).
  destruct ext_view1 as (V1 & K1 & Rg1).
  refine (proj2 (reopen_timestampsdirect_at_once ext_a (CSize 3) 0 0 ex_ops1 ex_moved [(0%Z, 0); (0%Z, 1)] [bs "abcd"] (bs "efgh")
                   Hc T H1 Htk1 _ _ _ Hm V1 K1 Rg1)); [vm_compute; discriminate | vm_compute; reflexivity | vm_compute; discriminate].
Qed.

(* FINDING 1 (as for the number namings): the size count is not reset by reopen_outputfile(): the moved file was over the
   limit, so the first record after the reopen rotates at once and the new file at the original path stays EMPTY *)
Example ext_reopen_empty_file :
  ReopenFacts.assoc ext_k1
    (ex_dir (OStart ext_a :: ex_ops1 ++ [OExtRename ext_k1 ex_moved; OReopen] ++ ex_ops2 ++ [OStop])) = Some []
  /\ expected_files 3 None (items false ex_ops2) = [bs "ijkl"; bs "mnop"; bs "q"].
Proof. repeat (split; [vm_compute; reflexivity|]); vm_compute; reflexivity. Qed.

(* FINDING 2: the state after the reopen: the same path, the same time stamp in the naming state, size count 4 (the bytes of
   a.old), an unbuffered writer.  The rotation that follows in the SAME second takes the restart counter 0001: the name
   ...restart-0000 is occupied again - by the new file.  Over time this name has named two different files; in the directory
   no name is used twice and the sequence <ts>, .restart-0000, .restart-0001 has no gap. *)
Example ext_reopen_state :
  match s_flw (ReopenFacts.end_of (OStart ext_a :: ex_ops1 ++ [OExtRename ext_k1 ex_moved; OReopen])) with
  | Some s => match f_inner s with
              | Active (Some rs) wr path =>
                (rs_naming rs, rs_roll rs, wcap wr, wpend wr, path) = (NSTs 0 None std_fmt, RSize 3 4, None, [], ext_k1)
              | _ => False end
  | None => False end.
Proof. vm_compute. reflexivity. Qed.

(* ... whereas WITHOUT the reopen the writer goes on writing into the moved file, the name is free at the next rotation and
   is taken again: then the name is used for a second file while the first one (a.old) still receives nothing more *)
Example ext_rename_without_reopen :
  ex_dir (OStart ext_a :: ex_ops1 ++ [OExtRename ext_k1 ex_moved] ++ ex_ops2 ++ [OStop])
  = [(bs "a.old", bs "efgh"); (bs "a_r1970-01-01_00-00-00.log", bs "abcd"); (bs "a_r1970-01-01_00-00-00.restart-0000.log", bs "ijkl");
     (bs "a_r1970-01-01_00-00-05.log", bs "mnop"); (bs "a_r1970-01-01_00-00-05.restart-0000.log", bs "q")].
Proof. vm_compute. reflexivity. Qed.

(* FINDING 3: the hypothesis tsd_member c moved = false.  A member name is never overwritten or truncated - the rotation
   makes its names collision-free -, so nothing is lost, unlike with NumbersDirect naming (exd_reopen_family_name_loses_records):
   (a) renamed to the next restart name of the same second: the rotation skips it; in key order the files still read as
       the stream  abcd | "" | efgh | ijkl | mnop | q;
   (b) renamed to a name with a LATER time stamp (second 5): in key order the files read
       abcd | "" | ijkl | efgh | mnop | q : the records "efgh" are MISPLACED behind "ijkl". *)
Example ext_reopen_family_name_misplaces :
  tsd_member ext_a (kname ext_a 0 (0%Z, 2)) = true /\ tsd_member ext_a (kname ext_a 0 (5%Z, 0)) = true
  /\ ex_dir (OStart ext_a :: ex_ops1 ++ [OExtRename ext_k1 (kname ext_a 0 (0%Z, 2)); OReopen] ++ ex_ops2 ++ [OStop])
  = [(bs "a_r1970-01-01_00-00-00.log", bs "abcd"); (bs "a_r1970-01-01_00-00-00.restart-0000.log", []);
     (bs "a_r1970-01-01_00-00-00.restart-0001.log", bs "efgh"); (bs "a_r1970-01-01_00-00-00.restart-0002.log", bs "ijkl");
     (bs "a_r1970-01-01_00-00-05.log", bs "mnop"); (bs "a_r1970-01-01_00-00-05.restart-0000.log", bs "q")]
  /\ ex_dir (OStart ext_a :: ex_ops1 ++ [OExtRename ext_k1 (kname ext_a 0 (5%Z, 0)); OReopen] ++ ex_ops2 ++ [OStop])
  = [(bs "a_r1970-01-01_00-00-00.log", bs "abcd"); (bs "a_r1970-01-01_00-00-00.restart-0000.log", []);
     (bs "a_r1970-01-01_00-00-00.restart-0001.log", bs "ijkl"); (bs "a_r1970-01-01_00-00-05.log", bs "efgh");
     (bs "a_r1970-01-01_00-00-05.restart-0000.log", bs "mnop"); (bs "a_r1970-01-01_00-00-05.restart-0001.log", bs "q")].
Proof. repeat (split; [vm_compute; reflexivity|]); vm_compute; reflexivity. Qed.

(* ---- theorem 2 on a history: the directory is the one of the history without the reopen ---- *)
Example ext_in_place_computed :
  ex_dir (OStart ext_a :: ex_ops1 ++ [OReopen] ++ ex_ops2 ++ [OStop])
  = [(bs "a_r1970-01-01_00-00-00.log", bs "abcd"); (bs "a_r1970-01-01_00-00-00.restart-0000.log", bs "efgh");
     (bs "a_r1970-01-01_00-00-00.restart-0001.log", bs "ijkl"); (bs "a_r1970-01-01_00-00-05.log", bs "mnop");
     (bs "a_r1970-01-01_00-00-05.restart-0000.log", bs "q")]
  /\ ex_dir (OStart ext_a :: ex_ops1 ++ ex_ops2 ++ [OStop]) = ex_dir (OStart ext_a :: ex_ops1 ++ [OReopen] ++ ex_ops2 ++ [OStop])
  /\ nth_error (snd (run (sys0 0 0) (OStart ext_a :: ex_ops1 ++ [OReopen] ++ ex_ops2 ++ [OStop]))) (S (length ex_ops1))
     = Some (ObsRes 0 false).
Proof. repeat (split; [vm_compute; reflexivity|]); vm_compute; reflexivity. Qed.

Example ext_in_place_thm :
  exists keys,
    tsd_view ext_a 0 (wfs (s_w (fst (run (sys0 0 0) (OStart ext_a :: ex_ops1 ++ [OReopen] ++ ex_ops2 ++ [OStop])))))
             keys [bs "abcd"; bs "efgh"; bs "ijkl"; bs "mnop"; bs "q"]
    /\ keys_ok keys.
Proof.
  destruct ext_hyps as (Hc & T & H1 & H2 & Htk & _ & Hlo & Hhi & Hmax & _).
  pose proof (reopen_timestampsdirect_in_place ext_a (CSize 3) 0 0 ex_ops1 ex_ops2 Hc T H1 H2 Htk Hlo Hhi Hmax) as [_ X].
  destruct X as (keys1 & files1 & keys & files & _ & _ & V & K & _ & _ & _ & _ & P).
  rewrite (P 3%N eq_refl) in V. exists keys. split; [exact V | exact K].
Qed.

(* ---- theorem 3 on a history: reset from the family a_ to the family b_ ---- *)
Definition ext_b := ext_cfg "b" (Some 8) true.
Example ext_reset_computed :
  ex_dir (OStart ext_a :: ex_ops1 ++ [OReset ext_b] ++ ex_ops2 ++ [OStop])
  = [(bs "a_r1970-01-01_00-00-00.log", bs "abcd"); (bs "a_r1970-01-01_00-00-00.restart-0000.log", bs "efgh");
     (bs "b_r1970-01-01_00-00-00.log", bs "ijkl"); (bs "b_r1970-01-01_00-00-05.log", bs "mnop");
     (bs "b_r1970-01-01_00-00-05.restart-0000.log", bs "q")]
  /\ nth_error (snd (run (sys0 0 0) (OStart ext_a :: ex_ops1 ++ [OReset ext_b] ++ ex_ops2 ++ [OStop]))) (S (length ex_ops1))
     = Some (ObsRes 0 false).
Proof. repeat (split; [vm_compute; reflexivity|]); vm_compute; reflexivity. Qed.

Example ext_reset_thm :
  exists keys1 keys2,
    dir_holds (wfs (s_w (fst (run (sys0 0 0) (OStart ext_a :: ex_ops1 ++ [OReset ext_b] ++ ex_ops2 ++ [OStop])))))
      (keyed ext_a 0 keys1 [bs "abcd"; bs "efgh"] ++ keyed ext_b 0 keys2 [bs "ijkl"; bs "mnop"; bs "q"])
    /\ keys_ok keys1 /\ keys_ok keys2 /\ length keys1 = 2 /\ length keys2 = 3.
Proof.
  destruct ext_hyps as (Hc & T & H1 & H2 & Htk & _ & Hlo & Hhi & Hmax & _).
  assert (Hc2 : tsdcfg ext_b (CSize 3)) by (repeat split).
  assert (T2 : tag_ok ext_b) by (apply tag_free_ok; split; vm_compute; reflexivity).
  assert (Hf : foreign_family_tsd ext_a ext_b (ts_e ext_a 0)) by (apply foreign_family_tsd_prefix; vm_compute; reflexivity).
  destruct (reset_timestampsdirect ext_a (CSize 3) ext_b (CSize 3) 0 0 ex_ops1 ex_ops2 Hc Hc2 T T2 eq_refl Hf H1 H2 Htk Hlo) as [_ X];
    [vm_compute; reflexivity | vm_compute; discriminate | exact Hhi | exact Hmax|].
  destruct X as (keys1 & files1 & keys2 & files2 & V1 & K1 & _ & _ & L2 & K2 & _ & _ & E1 & E2 & D).
  rewrite (E1 3%N eq_refl) in D, V1. rewrite (E2 3%N eq_refl) in D, L2.
  exists keys1, keys2. split; [exact D|]. split; [exact K1|]. split; [exact K2|]. split; [exact (proj1 V1) | exact L2].
Qed.
