(* Histories that also ask for the list of log files (OQuery, existing_log_files): under the invariants of the stream theorems
   a query returns normally and changes nothing - neither the writer's state nor the world.  Hence the queries can be erased
   from a history: the final state is the one of the history without them, and every observation is normal.  This extends
   "no operation panics" (NoPanic.v) and the stream theorems to histories of basic operations AND queries. *)
Require Import FL.Base.Bytes FL.Base.BytesFacts FL.Base.PathName FL.Fs.Fs FL.Fs.FsFacts FL.Time.Civil FL.Time.TsFormat
  FL.Names.FileSpec FL.Names.NamesFacts FL.Flw.Model FL.Flw.ModelFacts FL.Flw.NumFs FL.Flw.NumInv FL.Flw.Run FL.Flw.RunFacts
  FL.Flw.NumRun FL.Oracles.O_Flw FL.Flw.NumTheorems FL.Flw.NumListing FL.Flw.NumRestart FL.Flw.NumKillRestart
  FL.Flw.NumDInv FL.Flw.NumDRun FL.Flw.NumDTheorems
  FL.Flw.TsCal FL.Flw.TsTime FL.Flw.TsNames FL.Flw.TsInv FL.Flw.TsRun FL.Flw.TsTheorems
  FL.Flw.CleanupFacts FL.Flw.NumCleanupNames FL.Flw.NumCleanupStep FL.Flw.NumCleanupRun FL.Flw.NumCleanup FL.Flw.NoPanic.
From Coq Require Import ZifyN ZifyNat ZifyBool.
Open Scope nat_scope.

(* ------------------------------------------------------------------ a query in a quiet world *)
Lemma existing_rot_some off sp fixed f flt sel : exists l, existing_rot off sp fixed f flt sel = Some l.
Proof.
  unfold existing_rot. destruct (sel_custom sel) as [x|]; rewrite ?filter_files_total;
    [destruct (sel_rcur sel && beq x cur_infix)|]; destruct (sel_plain sel), (sel_gz sel), (sel_rcur sel); cbn [app_opt]; eauto.
Qed.

Lemma query_quiet s w sel : quiet w -> exists l, query s w sel = (Ok l, w).
Proof.
  intros Q. unfold query.
  destruct (match f_inner s with
            | Initial => match c_rot (f_cfg s) with Some _ => true | None => false end
            | Active (Some _) _ _ => true
            | Active None _ _ => false end); [|eauto].
  unfold with_listing. rewrite (tick_quiet _ Q).
  match goal with |- context [existing_rot ?a ?b ?c ?d ?e ?g] => destruct (existing_rot_some a b c d e g) as [l ->] end. eauto.
Qed.

Lemma sys_eta x s : s_flw x = Some s -> {| s_flw := Some s; s_w := s_w x; s_tl := s_tl x; s_dead := s_dead x |} = x.
Proof. destruct x as [fl w tl dd]. cbn. intros ->. reflexivity. Qed.

(* the query is a no-op with a normal result *)
Definition qfree (x : sys) : Prop := forall sel, exists l, step x (OQuery sel) = (x, ObsList 0%N l).

Lemma sync_query_noop x s sel : s_flw x = Some s -> f_poisoned s = false -> quiet (s_w x) ->
  exists l, sync_step x (OQuery sel) = (x, ObsList 0%N l).
Proof.
  intros Es Hp Q. cbn [sync_step]. rewrite Es, Hp. destruct (query_quiet s (s_w x) sel Q) as [l ->].
  rewrite (sys_eta x s Es). eauto.
Qed.

(* ------------------------------------------------------------------ erasing the queries *)
Definition opq (o : op) : Prop := basic_op o \/ exists sel, o = OQuery sel.
Definition is_query (o : op) : bool := match o with OQuery _ => true | _ => false end.
Definition noq (ops : list op) : list op := filter (fun o => negb (is_query o)) ops.

(* P holds in the state before each operation *)
Fixpoint before_each (P : sys -> Prop) (x : sys) (ops : list op) : Prop :=
  match ops with [] => True | o :: r => P x /\ before_each P (fst (step x o)) r end.

Lemma noq_basic ops : Forall opq ops -> Forall basic_op (noq ops).
Proof.
  induction 1 as [|o r [Ho|[sel ->]] _ IH]; cbn [noq filter is_query negb]; [constructor| |exact IH].
  destruct o; try contradiction; cbn [is_query negb]; constructor; (exact Ho || exact IH).
Qed.

Lemma noq_app a b : noq (a ++ b) = noq a ++ noq b.
Proof. apply filter_app. Qed.

Lemma noq_written ops : written (noq ops) = written ops.
Proof. induction ops as [|o r IH]; [reflexivity|]. unfold noq in *. destruct o; cbn [filter is_query negb written]; rewrite ?IH; reflexivity. Qed.

(* if the query is a no-op in every state that the history without queries passes through - and in the last one -,
   then the history with queries ends in the same state, and the observations of the two histories are normal together *)
Lemma erase_queries : forall ops x, Forall opq ops -> before_each qfree x (noq ops) -> qfree (fst (run x (noq ops))) ->
  fst (run x ops) = fst (run x (noq ops))
  /\ (Forall obs_ok (snd (run x (noq ops))) -> Forall obs_ok (snd (run x ops))).
Proof.
  induction ops as [|o r IH]; intros x Hq B L; [split; [reflexivity | auto]|].
  inversion Hq as [|o' r' Ho Hr]; subst. destruct Ho as [Ho|[sel ->]].
  - assert (E : noq (o :: r) = o :: noq r) by (destruct o; try contradiction; reflexivity).
    rewrite E in *. cbn [run before_each] in *. destruct B as [_ B]. destruct (step x o) as [x1 ob]. cbn [fst] in *.
    specialize (IH x1 Hr B). destruct (run x1 r) as [x2 obs]. destruct (run x1 (noq r)) as [x2' obs']. cbn [fst snd] in *.
    destruct (IH L) as [IH1 IH2]. split; [exact IH1|]. intros K. inversion K as [|? ? K1 K2]; subst. constructor; [exact K1 | exact (IH2 K2)].
  - change (noq (OQuery sel :: r)) with (noq r) in *. cbn [run].
    assert (Qx : qfree x).
    { destruct (noq r) as [|o' r'] eqn:En; [exact L | exact (proj1 B)]. }
    destruct (Qx sel) as [l ->]. specialize (IH x Hr B L). destruct (run x r) as [x2 obs]. cbn [fst snd] in *.
    destruct IH as [IH1 IH2]. split; [exact IH1|]. intros K. constructor; [reflexivity | exact (IH2 K)].
Qed.

(* ------------------------------------------------------------------ Numbers *)
Lemma rel_qfree c crit x a : numcfg c crit -> Rel c crit x a -> qfree x.
Proof.
  intros Hcfg R sel. rewrite (step_sync_rel c crit x a (OQuery sel) Hcfg R). destruct R as [_ [_ R]]. destruct a as [[cl cu]|].
  - destruct R as [wr [roll [Es [I _]]]]. exact (sync_query_noop x _ sel Es eq_refl (ni_quiet _ _ _ _ I)).
  - destruct R as [Es [Q _]]. exact (sync_query_noop x _ sel Es eq_refl Q).
Qed.

Lemma rel_before_each c crit : numcfg c crit -> forall ops x a, Rel c crit x a -> Forall basic_op ops -> before_each qfree x ops.
Proof.
  intros Hcfg. induction ops as [|o r IH]; intros x a R Hb; [exact I|]. inversion Hb as [|o' r' Ho Hr]; subst.
  cbn [before_each]. split; [exact (rel_qfree c crit x a Hcfg R)|].
  pose proof (step_rel c crit x a o Hcfg R Ho) as S. destruct (step x o) as [x1 ob]. destruct S as [R1 _]. exact (IH x1 _ R1 Hr).
Qed.

(* the final directory is the one of the history without the queries: numbers_stream for histories with queries *)
Theorem numbers_stream_q c crit t0 off ops :
  numcfg c crit -> Forall opq ops ->
  exists files, reads c (wfs (s_w (fst (run (sys0 t0 off) (OStart c :: ops ++ [OStop]))))) files
    /\ concat files = written ops
  /\ Forall obs_ok (snd (run (sys0 t0 off) (OStart c :: ops ++ [OStop]))).
Proof.
  intros Hcfg Hq. pose proof (noq_basic ops Hq) as Hb.
  destruct (numbers_stream c crit t0 off (noq ops) Hcfg Hb) as [files [Rd Fl]].
  pose proof (numbers_no_panic c crit t0 off (noq ops) Hcfg Hb) as K.
  exists files. rewrite noq_written in Fl. revert Rd K. cbn [run]. destruct (step (sys0 t0 off) (OStart c)) as [x0 ob0] eqn:E0.
  pose proof (start_rel c crit t0 off) as R0. rewrite E0 in R0. cbn [fst] in R0.
  rewrite !run_app.
  pose proof (run_rel c crit Hcfg (noq ops) x0 None R0 Hb) as R1.
  destruct (erase_queries ops x0 Hq (rel_before_each c crit Hcfg _ x0 None R0 Hb) (rel_qfree c crit _ _ Hcfg R1)) as [E1 E2].
  destruct (run x0 ops) as [x1 obs1]. destruct (run x0 (noq ops)) as [x1' obs1']. cbn [fst snd] in *. subst x1'.
  cbn [run]. destruct (step x1 OStop) as [x2 ob2]. cbn [fst snd]. intros Rd K. split; [exact Rd|]. split; [exact Fl|].
  inversion K as [|? ? K0 K1]; subst. apply Forall_app in K1. destruct K1 as [K1 K2].
  constructor; [exact K0|]. apply Forall_app. split; [exact (E2 K1) | exact K2].
Qed.
Print Assumptions numbers_stream_q.

(* ------------------------------------------------------------------ NumbersDirect *)
Lemma reld_qfree c crit x a : numdcfg c crit -> RelD c crit x a -> qfree x.
Proof.
  intros Hcfg R sel. rewrite (step_sync_rel_d c crit x a (OQuery sel) Hcfg R). destruct R as [_ [_ R]]. destruct a as [[cl cu]|].
  - destruct R as [wr [roll [Es [I _]]]]. exact (sync_query_noop x _ sel Es eq_refl (nd_quiet _ _ _ _ I)).
  - destruct R as [Es [Q _]]. exact (sync_query_noop x _ sel Es eq_refl Q).
Qed.

Lemma reld_before_each c crit : numdcfg c crit -> forall ops x a, RelD c crit x a -> Forall basic_op ops -> before_each qfree x ops.
Proof.
  intros Hcfg. induction ops as [|o r IH]; intros x a R Hb; [exact I|]. inversion Hb as [|o' r' Ho Hr]; subst.
  cbn [before_each]. split; [exact (reld_qfree c crit x a Hcfg R)|].
  pose proof (step_rel_d c crit x a o Hcfg R Ho) as S. destruct (step x o) as [x1 ob]. destruct S as [R1 _]. exact (IH x1 _ R1 Hr).
Qed.

Theorem numbersdirect_stream_q c crit t0 off ops :
  numdcfg c crit -> Forall opq ops ->
  exists files, direct_view c (wfs (s_w (fst (run (sys0 t0 off) (OStart c :: ops ++ [OStop]))))) files
    /\ concat files = written ops
  /\ Forall obs_ok (snd (run (sys0 t0 off) (OStart c :: ops ++ [OStop]))).
Proof.
  intros Hcfg Hq. pose proof (noq_basic ops Hq) as Hb.
  destruct (numbersdirect_stream c crit t0 off (noq ops) Hcfg Hb) as [files [Rd Fl]].
  pose proof (numbersdirect_no_panic c crit t0 off (noq ops) Hcfg Hb) as K.
  exists files. rewrite noq_written in Fl. revert Rd K. cbn [run]. destruct (step (sys0 t0 off) (OStart c)) as [x0 ob0] eqn:E0.
  pose proof (start_rel_d c crit t0 off) as R0. rewrite E0 in R0. cbn [fst] in R0.
  rewrite !run_app.
  pose proof (run_rel_d c crit Hcfg (noq ops) x0 None R0 Hb) as R1.
  destruct (erase_queries ops x0 Hq (reld_before_each c crit Hcfg _ x0 None R0 Hb) (reld_qfree c crit _ _ Hcfg R1)) as [E1 E2].
  destruct (run x0 ops) as [x1 obs1]. destruct (run x0 (noq ops)) as [x1' obs1']. cbn [fst snd] in *. subst x1'.
  cbn [run]. destruct (step x1 OStop) as [x2 ob2]. cbn [fst snd]. intros Rd K. split; [exact Rd|]. split; [exact Fl|].
  inversion K as [|? ? K0 K1]; subst. apply Forall_app in K1. destruct K1 as [K1 K2].
  constructor; [exact K0|]. apply Forall_app. split; [exact (E2 K1) | exact K2].
Qed.
Print Assumptions numbersdirect_stream_q.

(* ------------------------------------------------------------------ Timestamps *)
Lemma relt_qfree c crit e lo n x a : tscfg c crit -> RelT c e lo n x a -> qfree x.
Proof.
  intros Hcfg R sel. rewrite (step_sync_rel_ts c crit e lo n x a (OQuery sel) Hcfg R). destruct R as [_ [_ R]]. destruct a as [[cl cu]|].
  - destruct R as [keys [wr [roll [ts [Es [I _]]]]]]. exact (sync_query_noop x _ sel Es eq_refl (ti_quiet _ _ _ _ _ _ _ _ I)).
  - destruct R as [Es [Q _]]. exact (sync_query_noop x _ sel Es eq_refl Q).
Qed.

Lemma relt_before_each c crit e lo hi : tscfg c crit -> tag_ok c -> years_ok e lo hi ->
  forall ops x a n, RelT c e lo n x a -> Forall basic_op ops -> Forall tick_ok ops ->
  (wnow (s_w x) + elapsed ops <= hi)%Z -> (N.of_nat (n + length ops) <= usize_max)%N -> before_each qfree x ops.
Proof.
  intros Hcfg T Y. induction ops as [|o r IH]; intros x a n R Hb Htk Hhi Hmax; [exact I|].
  inversion Hb as [|o' r' Ho Hr]; subst. inversion Htk as [|o' r' Hto Htr]; subst.
  cbn [elapsed length before_each] in *. pose proof (elapsed_nonneg r Htr) as Er.
  assert (Hdt : (0 <= dt_of o)%Z) by (destruct o; cbn [dt_of tick_ok] in *; lia).
  split; [exact (relt_qfree c crit e lo n x a Hcfg R)|].
  pose proof (step_rel_ts c crit e lo hi n x a o Hcfg T Y R Ho Hto ltac:(lia) ltac:(lia)) as S. destruct (step x o) as [x1 ob].
  destruct S as [R1 W1]. exact (IH x1 _ (S n) R1 Hr Htr ltac:(cbn [fst]; lia) ltac:(lia)).
Qed.

Lemma noq_tick_ok ops : Forall opq ops -> Forall tick_ok ops -> Forall tick_ok (noq ops).
Proof. intros _ H. unfold noq. rewrite Forall_forall in *. intros o Ho. apply filter_In in Ho. apply H, Ho. Qed.
Lemma noq_elapsed ops : elapsed (noq ops) = elapsed ops.
Proof. induction ops as [|o r IH]; [reflexivity|]. unfold noq in *. destruct o; cbn [filter is_query negb elapsed dt_of]; rewrite ?IH; reflexivity. Qed.
Lemma noq_length ops : length (noq ops) <= length ops.
Proof. unfold noq. induction ops as [|o r IH]; cbn [filter length]; [lia|]. destruct (negb (is_query o)); cbn [length]; lia. Qed.

Theorem timestamps_stream_q c crit t0 off ops :
  tscfg c crit -> tag_ok c -> Forall opq ops -> Forall tick_ok ops ->
  (0 <= t0 + ts_e c off)%Z -> (t0 + elapsed ops + ts_e c off < sec_max)%Z -> (N.of_nat (length ops) <= usize_max)%N ->
  let f := wfs (s_w (fst (run (sys0 t0 off) (OStart c :: ops ++ [OStop])))) in
  ((names f = [] /\ written ops = [])
   \/ exists keys closed cur,
        ts_view c (ts_e c off) f keys closed cur /\ concat closed ++ cur = written ops /\ keys_ok keys
        /\ (forall k, In k keys -> (t0 <= fst k <= t0 + elapsed ops)%Z))
  /\ Forall obs_ok (snd (run (sys0 t0 off) (OStart c :: ops ++ [OStop]))).
Proof.
  intros Hcfg T Hq Htk Hlo Hhi Hmax. pose proof (noq_basic ops Hq) as Hb. pose proof (noq_tick_ok ops Hq Htk) as Htk'.
  pose proof (noq_length ops) as Len.
  assert (Hhi' : (t0 + elapsed (noq ops) + ts_e c off < sec_max)%Z) by (rewrite noq_elapsed; exact Hhi).
  assert (Hmax' : (N.of_nat (length (noq ops)) <= usize_max)%N) by lia.
  pose proof (timestamps_stream c crit t0 off (noq ops) Hcfg T Hb Htk' Hlo Hhi' Hmax') as TS.
  pose proof (timestamps_no_panic c crit t0 off (noq ops) Hcfg T Hb Htk' Hlo Hhi' Hmax') as K.
  cbv zeta in TS |- *. rewrite noq_written, noq_elapsed in TS. revert TS K.
  cbn [run]. destruct (step (sys0 t0 off) (OStart c)) as [x0 ob0] eqn:E0.
  pose proof (start_rel_ts c t0 off) as R0. rewrite E0 in R0. cbn [fst] in R0.
  assert (W0 : wnow (s_w x0) = t0) by (cbn in E0; injection E0 as <- _; reflexivity).
  assert (Y : years_ok (ts_e c off) t0 (t0 + elapsed ops)) by (split; assumption).
  rewrite !run_app.
  pose proof (run_rel_ts c crit _ _ _ Hcfg T Y (noq ops) x0 None 0 R0 Hb Htk' ltac:(rewrite noq_elapsed; lia) ltac:(cbn [Nat.add]; exact Hmax')) as [R1 _].
  pose proof (relt_before_each c crit _ _ _ Hcfg T Y (noq ops) x0 None 0 R0 Hb Htk' ltac:(rewrite noq_elapsed; lia) ltac:(cbn [Nat.add]; exact Hmax')) as B.
  destruct (erase_queries ops x0 Hq B (relt_qfree c crit _ _ _ _ _ Hcfg R1)) as [E1 E2].
  destruct (run x0 ops) as [x1 obs1]. destruct (run x0 (noq ops)) as [x1' obs1']. cbn [fst snd] in *. subst x1'.
  cbn [run]. destruct (step x1 OStop) as [x2 ob2]. cbn [fst snd]. intros TS K. split; [exact TS|].
  inversion K as [|? ? K0 K1]; subst. apply Forall_app in K1. destruct K1 as [K1 K2].
  constructor; [exact K0|]. apply Forall_app. split; [exact (E2 K1) | exact K2].
Qed.
Print Assumptions timestamps_stream_q.

(* ------------------------------------------------------------------ an instance: queries between the operations *)
Definition qsel : selector := {| sel_plain := true; sel_gz := true; sel_rcur := true; sel_custom := None |}.
Example numbers_q_instance :
  Forall obs_ok (snd (run (sys0 0 0) (OStart (NumCleanup.ex_cfg KNever log_sfx) :: (OQuery qsel :: ex_ops ++ [OQuery qsel; OSnap]) ++ [OStop]))).
Proof.
  destruct (numbers_stream_q (NumCleanup.ex_cfg KNever log_sfx) (CSize 3) 0 0 (OQuery qsel :: ex_ops ++ [OQuery qsel; OSnap])) as [files [_ [_ K]]].
  - destruct (ex_numkcfg KNever log_sfx) as (A & B & C & D & _). repeat split; assumption.
  - constructor; [right; eauto|]. apply Forall_app. split.
    + eapply Forall_impl; [|exact ex_ops_basic]. intros o Ho. left. exact Ho.
    + constructor; [right; eauto|]. constructor; [left; exact I | constructor].
  - exact K.
Qed.
