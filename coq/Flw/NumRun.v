(* Numbers naming: every history of writes, flushes, triggers and clock ticks refines the abstract
   reader's view (closed files, current content). *)
Require Import FL.Base.Bytes FL.Base.BytesFacts FL.Base.PathName FL.Fs.Fs FL.Fs.FsFacts FL.Time.Civil FL.Time.TsFormat
  FL.Names.FileSpec FL.Names.NamesFacts FL.Flw.Model FL.Flw.ModelFacts FL.Flw.NumFs FL.Flw.NumInv FL.Flw.Run FL.Flw.RunFacts.
From Coq Require Import ZifyN ZifyNat ZifyBool.
Open Scope nat_scope.

Definition aview := option (list bytes * bytes).

Definition basic_op (o : op) : Prop :=
  match o with OWrite _ | OPlain _ | OFlush | OTrigger | OTick _ | OSnap => True | _ => False end.

Definition rot_of (ob : obs) : bool := match ob with ObsRes _ r => r | _ => false end.

Definition a_step (a : aview) (o : op) (rot : bool) : aview :=
  match o with
  | OWrite b | OPlain b =>
    let '(cl, cu) := match a with Some v => v | None => ([], []) end in
    Some (if rot then (cl ++ [cu], b) else (cl, cu ++ b))
  | OTrigger => match a with Some (cl, cu) => Some (cl ++ [cu], []) | None => None end
  | _ => a
  end.

Definition Rel (c : config) (crit : criterion) (x : sys) (a : aview) : Prop :=
  s_tl x = [] /\ wacts (s_w x) = 0 /\
  match a with
  | None => s_flw x = Some (new_flw c) /\ quiet (s_w x) /\ names (wfs (s_w x)) = [] /\ inodes (wfs (s_w x)) = []
  | Some (closed, cur) =>
    exists wr roll, s_flw x = Some (st_of c (length closed) roll wr) /\ NumInv c (s_w x) wr closed
      /\ cur_view (s_w x) wr = cur /\ roll_size_ok roll (length cur)
      /\ (forall m, crit = CSize m -> exists k, roll = RSize m k)
  end.

Lemma write_buffer_init c w b o wr p w' :
  initialize c w = (Ok (Active o wr p), w') ->
  write_buffer (new_flw c) w b = write_buffer {| f_cfg := c; f_inner := Active o wr p; f_poisoned := false |} w' b.
Proof.
  intros H. unfold write_buffer, new_flw. cbn [f_cfg f_inner]. rewrite H. reflexivity.
Qed.

Lemma same_env_acts w w' : same_env w w' -> wacts w = 0 -> wacts w' = 0.
Proof. intros [_ [_ [_ [_ [_ H]]]]] E. congruence. Qed.

(* what a write does, from either kind of state *)
Lemma write_rel c crit x a b :
  numcfg c crit -> Rel c crit x a ->
  exists s w' s' rot, s_flw x = Some s /\ f_poisoned s = false /\
    write_buffer s (s_w x) b = (Ok tt, w', s', rot)
    /\ Rel c crit {| s_flw := Some s'; s_w := w'; s_tl := []; s_dead := s_dead x |} (a_step a (OWrite b) rot)
    /\ (forall m, crit = CSize m ->
          rot = (m <? N.of_nat (length (match a with Some (_, cu) => cu | None => [] end)))%N).
Proof.
  intros Hcfg [Ht [Ha R]]. destruct a as [[closed cur]|].
  - destruct R as [wr [roll [Es [I [V [Z RS]]]]]].
    rewrite <- V in Z.
    destruct (write_active c crit (s_w x) wr closed roll b Hcfg I Z) as [w' [wr' [roll' [closed' [E [I' [Z' [S' [V' R']]]]]]]]].
    exists (st_of c (length closed) roll wr), w', (st_of c (length closed') roll' wr'), (rotation_necessary (s_w x) roll).
    split; [exact Es|]. split; [reflexivity|]. split; [exact E|].
    split.
    + split; [reflexivity|]. split; [cbn [s_w]; exact (same_env_acts _ _ S' Ha)|].
      cbn [a_step]. rewrite V in V'.
      destruct (rotation_necessary (s_w x) roll); injection V' as <- V''; (exists wr', roll'; cbn [s_flw s_w];
        split; [reflexivity|]; split; [exact I'|]; split; [exact V''|]; split; [rewrite <- V''; exact Z'|];
        intros m Hm; destruct (RS m Hm) as [k ->]; destruct (R' m k eq_refl) as [k' ->]; eauto).
    + intros m Hm. destruct (RS m Hm) as [k ->]. cbn in Z. subst k. rewrite V. reflexivity.
  - destruct R as [Es [Q [Hn Hi]]].
    destruct (initialize_empty c crit (s_w x) Hcfg Q Hn Hi) as [w1 [wr [roll [Ei [I [V [Z [S1 RS]]]]]]]].
    assert (Z0 : roll_size_ok roll (length (cur_view w1 wr))) by (rewrite V; exact Z).
    destruct (write_active c crit w1 wr [] roll b Hcfg I Z0) as [w' [wr' [roll' [closed' [E [I' [Z' [S' [V' R']]]]]]]]].
    exists (new_flw c), w', (st_of c (length closed') roll' wr'), (rotation_necessary w1 roll).
    split; [exact Es|]. split; [reflexivity|].
    split. { rewrite (write_buffer_init c (s_w x) b _ _ _ w1 Ei). exact E. }
    split.
    + split; [reflexivity|]. split; [cbn [s_w]; exact (same_env_acts _ _ (same_env_trans _ _ _ S1 S') Ha)|].
      cbn [a_step]. rewrite V in V'. cbn [app] in V'.
      destruct (rotation_necessary w1 roll); injection V' as <- V''; (exists wr', roll'; cbn [s_flw s_w];
        split; [reflexivity|]; split; [exact I'|]; split; [exact V''|]; split; [rewrite <- V''; exact Z'|]).
      * intros m Hm. rewrite (RS m Hm) in R'. destruct (R' m 0%N eq_refl) as [k' ->]; eauto.
      * intros m Hm. rewrite (RS m Hm) in R'. destruct (R' m 0%N eq_refl) as [k' ->]; eauto.
    + intros m Hm. rewrite (RS m Hm). reflexivity.
Qed.

Lemma numinv_env c w w' wr closed : NumInv c w wr closed -> wfs w' = wfs w -> quiet w' -> NumInv c w' wr closed.
Proof. intros [Q W Hc Hcp Hcl Hon Hwr Hcap] F Q'. constructor; try rewrite F; assumption. Qed.

(* the configurations covered are synchronous: a step is a step of the synchronous handle *)
Lemma step_sync_rel c crit x a o : numcfg c crit -> Rel c crit x a -> step x o = sync_step x o.
Proof.
  intros [_ [Hts [_ Ha]]] [_ [_ R]].
  assert (E : exists s, s_flw x = Some s /\ f_cfg s = c).
  { destruct a as [[closed cur]|]; [destruct R as [wr [roll [Es _]]] | destruct R as [Es _]]; rewrite Es; eexists; split; reflexivity. }
  destruct E as [s [Es Ec]].
  rewrite step_plain by (intros s' Es'; rewrite Es in Es'; injection Es' as <-; rewrite Ec; exact Hts).
  unfold step_core. rewrite Es. unfold is_async. rewrite Ec, Ha. reflexivity.
Qed.

(* one basic operation *)
Lemma step_rel c crit x a o :
  numcfg c crit -> Rel c crit x a -> basic_op o ->
  let '(x', ob) := step x o in
  Rel c crit x' (a_step a o (rot_of ob))
  /\ (forall b m, (o = OWrite b \/ o = OPlain b) -> crit = CSize m ->
        ob = ObsRes 0 (m <? N.of_nat (length (match a with Some (_, cu) => cu | None => [] end)))%N)
  /\ (wfs (s_w x') = wfs (s_w x) \/ exists v, a_step a o (rot_of ob) = Some v).
Proof.
  intros Hcfg R Hb. rewrite (step_sync_rel c crit x a o Hcfg R). destruct o; try contradiction; cbn [sync_step].
  - (* OWrite *)
    destruct (write_rel c crit x a b Hcfg R) as [s [w' [s' [rot [Es [Hp [E [R' C]]]]]]]].
    rewrite Es, Hp. rewrite (proj1 R). cbn [app]. rewrite E. cbn [rot_of]. split; [exact R'|]. split.
    + intros b0 m _ Hm. rewrite (C m Hm). reflexivity.
    + right. cbn [a_step]. destruct (match a with Some v => v | None => ([], []) end). eauto.
  - (* OPlain *)
    destruct (write_rel c crit x a b Hcfg R) as [s [w' [s' [rot [Es [Hp [E [R' C]]]]]]]].
    rewrite Es, Hp, E. cbn [rot_of code_of]. rewrite (proj1 R). split; [exact R'|]. split.
    + intros b0 m _ Hm. rewrite (C m Hm). reflexivity.
    + right. cbn [a_step]. destruct (match a with Some v => v | None => ([], []) end). eauto.
  - (* OFlush *)
    destruct R as [Ht [Ha R]]. destruct a as [[closed cur]|].
    + destruct R as [wr [roll [Es [I [V [Z RS]]]]]]. rewrite Es. cbn [st_of f_poisoned].
      destruct (flush_active c (s_w x) wr closed roll I) as [w' [wr' [E [I' [V' [P' S']]]]]].
      rewrite E. cbn [rot_of a_step].
      split; [|split; [intros b m [H|H]; discriminate | right; eauto]].
      split; [exact Ht|]. split; [exact (same_env_acts _ _ S' Ha)|]. exists wr', roll. cbn [s_flw s_w].
      split; [reflexivity|]. split; [exact I'|]. split; [congruence|]. split; assumption.
    + destruct R as [Es R]. rewrite Es. cbn [new_flw f_poisoned flush_state f_inner rot_of a_step].
      split; [|split; [intros b m [H|H]; discriminate | left; reflexivity]].
      split; [exact Ht|]. split; [exact Ha|]. split; [reflexivity | exact R].
  - (* OTrigger *)
    destruct R as [Ht [Ha R]]. destruct a as [[closed cur]|].
    + destruct R as [wr [roll [Es [I [V [Z RS]]]]]]. rewrite Es. cbn [st_of f_poisoned f_cfg f_inner].
      destruct (mount_next_rotates c crit (s_w x) wr closed roll true Hcfg I eq_refl) as [w' [wr' [roll' [E [I' [V' [Z' [S' R']]]]]]]].
      rewrite E. cbn [rot_of a_step code_of with_inner f_cfg f_poisoned].
      split; [|split; [intros b m [H|H]; discriminate | right; eauto]].
      split; [exact Ht|]. split; [exact (same_env_acts _ _ S' Ha)|]. rewrite V in *. exists wr', roll'. cbn [s_flw s_w].
      split; [reflexivity|]. split; [exact I'|]. split; [exact V'|]. split; [exact Z'|].
      intros m Hm. destruct (RS m Hm) as [k ->]. destruct (R' m k eq_refl) as [k' ->]. eauto.
    + destruct R as [Es R]. rewrite Es. cbn [new_flw f_poisoned f_cfg f_inner mount_next with_inner rot_of a_step code_of].
      split; [|split; [intros b m [H|H]; discriminate | left; reflexivity]].
      split; [exact Ht|]. split; [exact Ha|]. split; [reflexivity | exact R].
  - (* OTick *)
    cbn [rot_of a_step]. split; [|split; [intros b m [H|H]; discriminate | left; reflexivity]].
    destruct R as [Ht [Ha R]]. split; [exact Ht|]. split; [exact Ha|]. destruct a as [[closed cur]|].
    + destruct R as [wr [roll [Es [I [V [Z RS]]]]]]. exists wr, roll. cbn [s_flw s_w].
      split; [exact Es|]. split; [apply (numinv_env c (s_w x)); [exact I | reflexivity | apply I]|].
      split; [exact V|]. split; assumption.
    + cbn [s_flw s_w]. exact R.
  - (* OSnap *)
    cbn [rot_of a_step]. split; [exact R|]. split; [intros b m [H|H]; discriminate | left; reflexivity].
Qed.

(* the abstract run: driven by the observed rotation flags *)
Fixpoint a_run (a : aview) (ops : list op) (obs : list obs) : aview :=
  match ops, obs with
  | o :: r, ob :: robs => a_run (a_step a o (rot_of ob)) r robs
  | _, _ => a
  end.

Lemma run_rel c crit : numcfg c crit -> forall ops x a, Rel c crit x a -> Forall basic_op ops ->
  Rel c crit (fst (run x ops)) (a_run a ops (snd (run x ops))).
Proof.
  intros Hcfg. induction ops as [|o r IH]; intros x a R Hb; [exact R|].
  cbn [run]. inversion Hb as [|o' r' Ho Hr]; subst.
  pose proof (step_rel c crit x a o Hcfg R Ho) as S. destruct (step x o) as [x1 ob].
  destruct S as [R1 _]. specialize (IH x1 _ R1 Hr). destruct (run x1 r) as [x2 obs]. exact IH.
Qed.

(* ---- stop: what the reader finds ---- *)
Definition reader_view (c : config) (f : fs) (closed : list bytes) (cur : bytes) : Prop :=
  (forall i, i < length closed ->
     exists j, lookup f (rname c i) = Some j /\ plain (inode f j) /\ content f j = nth i closed [])
  /\ (exists j, lookup f (cname c) = Some j /\ plain (inode f j) /\ content f j = cur)
  /\ (forall n j, lookup f n = Some j -> n = cname c \/ exists i, i < length closed /\ n = rname c i).

Lemma shutdown_active c w wr closed roll : NumInv c w wr closed -> wacts w = 0 ->
  exists w' wr', shutdown_state (st_of c (length closed) roll wr) w = (w', st_of c (length closed) roll wr')
    /\ NumInv c w' wr' closed /\ cur_view w' wr' = cur_view w wr /\ wpend wr' = [] /\ wacts w' = 0.
Proof.
  intros I Ha. unfold shutdown_state, st_of, drain_acts. cbn [f_inner f_cfg mk_rs rs_cleanup rs_naming].
  assert (Ew : set_acts w 0 = w) by (destruct w; cbn in Ha |- *; subst; reflexivity).
  assert (I0 : NumInv c (set_acts w 0) wr closed) by (apply (numinv_env c w); [exact I | reflexivity | apply I]).
  destruct (w_flush_quiet (set_acts w 0) wr (ni_quiet _ _ _ _ I0)) as [w1 [E [F S]]]. rewrite Ew in E. rewrite E.
  set (wr' := {| wino := wino wr; wpend := []; wcap := wcap wr |}).
  assert (Hok : wr_ok wr') by (unfold wr_ok, wr'; cbn; destruct (wcap wr); [lia | reflexivity]).
  destruct (numinv_append c (set_acts w 0) w1 wr wr' closed (wpend wr) I0 F S eq_refl eq_refl Hok) as [I1 C1].
  exists w1, wr'. split; [reflexivity|]. split; [exact I1|]. split; [|split; [reflexivity | exact (same_env_acts _ _ S eq_refl)]].
  unfold cur_view. rewrite C1. cbn [wr' wpend set_acts wfs]. rewrite app_nil_r. reflexivity.
Qed.

Lemma stop_rel c crit x a : numcfg c crit -> Rel c crit x a ->
  let '(x', _) := step x OStop in
  match a with
  | None => names (wfs (s_w x')) = []
  | Some (closed, cur) => reader_view c (wfs (s_w x')) closed cur
  end.
Proof.
  intros Hcfg R0. rewrite (step_sync_rel c crit x a OStop Hcfg R0). destruct R0 as [Ht [Ha R]]. cbn [sync_step]. destruct a as [[closed cur]|].
  - destruct R as [wr [roll [Es [I [V [Z RS]]]]]]. rewrite Es. cbn [st_of f_poisoned]. unfold drop_state.
    destruct (shutdown_active c (s_w x) wr closed roll I Ha) as [w1 [wr1 [E1 [I1 [V1 [P1 A1]]]]]]. fold (st_of c (length closed) roll wr). rewrite E1.
    destruct (shutdown_active c w1 wr1 closed roll I1 A1) as [w2 [wr2 [E2 [I2 [V2 [P2 A2]]]]]]. rewrite E2.
    cbn [st_of f_inner s_w]. unfold w_drop.
    destruct (w_flush_quiet w2 wr2 (ni_quiet _ _ _ _ I2)) as [w3 [E3 [F3 S3]]]. rewrite E3. cbn [fst snd].
    rewrite P2, append_ino_nil_id in F3. rewrite F3.
    destruct I2 as [Q W Hc Hcp Hcl Hon Hwr Hcap]. split; [exact Hcl|]. split; [|exact Hon].
    exists (wino wr2). split; [exact Hc|]. split; [exact Hcp|].
    unfold cur_view in *. rewrite P2, app_nil_r in V2. congruence.
  - destruct R as [Es [Q [Hn Hi]]]. rewrite Es. cbn [new_flw f_poisoned drop_state shutdown_state f_inner s_w]. exact Hn.
Qed.

(* ---- the abstract view only ever appends what was written ---- *)
Fixpoint written (ops : list op) : bytes :=
  match ops with
  | [] => []
  | (OWrite b | OPlain b) :: r => b ++ written r
  | _ :: r => written r
  end.
Definition flat (a : aview) : bytes := match a with Some (cl, cu) => concat cl ++ cu | None => [] end.

Lemma a_step_flat a o rot : basic_op o -> flat (a_step a o rot) = flat a ++ written [o].
Proof.
  destruct o; try contradiction; intros _; cbn [a_step written]; rewrite ?app_nil_r; try reflexivity.
  - destruct a as [[cl cu]|]; destruct rot; cbn [flat]; rewrite ?concat_app; cbn [concat app]; rewrite ?app_nil_r, ?app_assoc; reflexivity.
  - destruct a as [[cl cu]|]; destruct rot; cbn [flat]; rewrite ?concat_app; cbn [concat app]; rewrite ?app_nil_r, ?app_assoc; reflexivity.
  - destruct a as [[cl cu]|]; cbn [flat]; rewrite ?concat_app; cbn [concat app]; rewrite ?app_nil_r; reflexivity.
Qed.

Lemma written_cons o r : written (o :: r) = written [o] ++ written r.
Proof. destruct o; cbn [written]; rewrite ?app_nil_r; reflexivity. Qed.

Lemma a_run_flat ops : forall a obs, Forall basic_op ops -> length obs = length ops ->
  flat (a_run a ops obs) = flat a ++ written ops.
Proof.
  induction ops as [|o r IH]; intros a obs Hb Hl; [cbn; rewrite app_nil_r; reflexivity|].
  destruct obs as [|ob robs]; [discriminate|]. inversion Hb as [|o' r' Ho Hr]; subst.
  cbn [a_run]. rewrite IH by (auto; cbn in Hl; lia). rewrite a_step_flat by assumption.
  rewrite (written_cons o r), app_assoc. reflexivity.
Qed.

Lemma run_length : forall ops x, length (snd (run x ops)) = length ops.
Proof. induction ops as [|o r IH]; intros x; [reflexivity|]. cbn [run]. destruct (step x o) as [x1 ob].
  specialize (IH x1). destruct (run x1 r). cbn in *. lia. Qed.

(* ---- the size rule ---- *)
Definition cur_of (a : aview) : bytes := match a with Some (_, cu) => cu | None => [] end.
Fixpoint s_run (m : N) (a : aview) (ops : list op) : aview :=
  match ops with
  | [] => a
  | o :: r => s_run m (a_step a o (m <? N.of_nat (length (cur_of a)))%N) r
  end.

Lemma a_step_rot_irrelevant a o r1 r2 : (forall b, o <> OWrite b /\ o <> OPlain b) -> a_step a o r1 = a_step a o r2.
Proof. intros H. destruct o; try reflexivity; destruct (H b); congruence. Qed.

Lemma run_size c m : numcfg c (CSize m) -> forall ops x a, Rel c (CSize m) x a -> Forall basic_op ops ->
  a_run a ops (snd (run x ops)) = s_run m a ops
  /\ (forall i o, nth_error ops i = Some o -> forall b, (o = OWrite b \/ o = OPlain b) ->
        nth_error (snd (run x ops)) i = Some (ObsRes 0 (m <? N.of_nat (length (cur_of (s_run m a (firstn i ops)))))%N)).
Proof.
  intros Hcfg. induction ops as [|o r IH]; intros x a R Hb.
  - split; [reflexivity|]. intros i o H. destruct i; discriminate.
  - cbn [run]. inversion Hb as [|o' r' Ho Hr]; subst.
    pose proof (step_rel c (CSize m) x a o Hcfg R Ho) as S. destruct (step x o) as [x1 ob] eqn:Est.
    destruct S as [R1 [C1 _]]. specialize (IH x1 _ R1 Hr). destruct (run x1 r) as [x2 obs] eqn:Er. cbn [snd] in *.
    assert (Erot : a_step a o (rot_of ob) = a_step a o (m <? N.of_nat (length (cur_of a)))%N).
    { destruct o; try reflexivity.
      - rewrite (C1 b m (or_introl eq_refl) eq_refl). reflexivity.
      - rewrite (C1 b m (or_intror eq_refl) eq_refl). reflexivity. }
    cbn [a_run s_run]. rewrite <- Erot. destruct IH as [IH1 IH2]. split; [exact IH1|].
    intros i o0 Hi b Hw. destruct i as [|i].
    + cbn in Hi. injection Hi as <-. cbn [nth_error firstn s_run]. f_equal. apply (C1 b m Hw eq_refl).
    + cbn [nth_error firstn s_run] in *. rewrite <- Erot. apply (IH2 i o0 Hi b Hw).
Qed.
