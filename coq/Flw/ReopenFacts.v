(* reopen_outputfile and reset switch files without losing or reordering records.
   Configuration: no rotation, one log file, no start-time name part, no symlink, synchronous; any buffer capacity.
   Histories: writes / raw writes / flushes, interleaved with "switches":
     - somebody renames the log file away, then reopen_outputfile()        (OExtRename log moved; OReopen)
     - somebody removes the log file, then reopen_outputfile()             (OExtRemove log; OReopen)
     - reset to a new configuration with another file name                 (OReset c2)
   Result (for ALL such histories, quiet world): after the writer is dropped, the directory consists exactly of the
   files computed by a small abstract machine; without removals their contents, in switch order, tile the stream. *)
Require Import FL.Base.Bytes FL.Base.BytesFacts FL.Fs.Fs FL.Fs.FsFacts FL.Names.FileSpec FL.Flw.Model FL.Flw.ModelFacts
  FL.Flw.NumFs FL.Flw.Run FL.Flw.RunFacts FL.Flw.FaultFacts.
From Coq Require Import Permutation.
Open Scope nat_scope.

(* ================================================================== 1. file-system layer *)
Definition plainf (fl : file) : Prop := fgz fl = 0%N /\ fdir fl = false.

(* what a reader sees under a name *)
Definition fview (f : fs) (n : bytes) : option bytes :=
  match lookup f n with Some i => Some (content f i) | None => None end.

Lemma find_name_in {A} (l : list (bytes * A)) n :
  find (fun p => beq (fst p) n) l <> None <-> In n (List.map fst l).
Proof.
  induction l as [|[m j] l IH]; cbn [find List.map fst In].
  - split; [congruence | tauto].
  - destruct (beq_spec m n) as [->|Hn].
    + split; [auto | discriminate].
    + rewrite IH. split; [auto | intros [H|H]; [contradiction | exact H]].
Qed.

Lemma lookup_in f n : lookup f n <> None <-> In n (dir_names f).
Proof.
  unfold lookup, dir_names. rewrite <- find_name_in.
  destruct (find (fun p => beq (fst p) n) (names f)); split; congruence.
Qed.
Lemma lookup_none_notin f n : lookup f n = None -> ~ In n (dir_names f).
Proof. intros H Hin. apply lookup_in in Hin. contradiction. Qed.

Lemma in_fst_filter {A} (p : bytes * A -> bool) (l : list (bytes * A)) n :
  In n (List.map fst (filter p l)) -> exists y, In (n, y) l /\ p (n, y) = true.
Proof.
  intros H. apply in_map_iff in H. destruct H as [[m y] [E H]]. cbn [fst] in E. subst m.
  apply filter_In in H. exists y. exact H.
Qed.
Lemma nodup_fst_filter {A} (p : bytes * A -> bool) (l : list (bytes * A)) :
  NoDup (List.map fst l) -> NoDup (List.map fst (filter p l)).
Proof.
  induction l as [|[m y] l IH]; cbn [filter List.map fst]; intros H; [constructor|].
  inversion H as [|? ? Hm Hl]; subst. destruct (p (m, y)); cbn [List.map fst]; [|auto].
  constructor; [|auto]. intros Hin. apply in_fst_filter in Hin. destruct Hin as [z [Hz _]].
  apply Hm. apply in_map_iff. exists (m, z). split; [reflexivity | exact Hz].
Qed.

Record FsOk (f : fs) : Prop := {
  fo_wf : fs_wf f;
  fo_plain : forall n i, lookup f n = Some i -> plainf (inode f i);
  fo_nodup : NoDup (dir_names f) }.

Lemma FsOk_empty : FsOk empty_fs.
Proof. split; [apply wf_empty | unfold lookup; cbn; intros; discriminate | constructor]. Qed.

Lemma plain_append f i b j : plainf (inode f j) -> plainf (inode (append_ino f i b) j).
Proof.
  intros H. destruct (Nat.ltb_spec i (length (inodes f))) as [Hi|Hi].
  - rewrite inode_append by assumption. destruct (Nat.eqb_spec j i) as [->|_]; [|exact H].
    unfold plainf, with_data; cbn [fgz fdir]. exact H.
  - unfold inode, append_ino; cbn [inodes]. rewrite nth_upd_out by assumption. exact H.
Qed.

Lemma FsOk_append f i b : FsOk f -> FsOk (append_ino f i b).
Proof.
  intros [W P N]. split.
  - apply wf_append; exact W.
  - intros n j. rewrite lookup_append. intros H. apply plain_append. eapply P; eassumption.
  - exact N.
Qed.

Lemma content_append_other f i b j : j <> i -> content (append_ino f i b) j = content f j.
Proof.
  intros Hj. destruct (Nat.ltb_spec i (length (inodes f))) as [Hi|Hi].
  - rewrite content_append by assumption. destruct (Nat.eqb_spec j i); [contradiction | reflexivity].
  - unfold content, inode, append_ino; cbn [inodes]. rewrite nth_upd_out by assumption. reflexivity.
Qed.
Lemma content_append_same f i b : i < length (inodes f) -> content (append_ino f i b) i = content f i ++ b.
Proof. intros Hi. rewrite content_append, Nat.eqb_refl by assumption. reflexivity. Qed.

Lemma fview_append_other f i b n : lookup f n <> Some i -> fview (append_ino f i b) n = fview f n.
Proof.
  intros H. unfold fview. rewrite lookup_append. destruct (lookup f n) as [j|]; [|reflexivity].
  rewrite content_append_other by congruence. reflexivity.
Qed.

(* a new file under a free name *)
Definition fresh_file (now : Z) : file := {| fdata := []; fgz := 0%N; fborn := now; fdir := false |}.

Lemma create_ok f a now : FsOk f -> lookup f a = None ->
  let f' := fst (create_file f a 0%N now) in
  let i := length (inodes f) in
  snd (create_file f a 0%N now) = i /\ FsOk f' /\ lookup f' a = Some i /\ content f' i = []
  /\ (forall n, n <> a -> lookup f' n = lookup f n)
  /\ (forall j, j < i -> inode f' j = inode f j)
  /\ length (inodes f') = S i.
Proof.
  intros [W P N] Ha. cbv zeta.
  pose proof (create_file_spec f a 0%N now) as S. pose proof (wf_create f a 0%N now W Ha) as W'.
  assert (Hn : names (fst (create_file f a 0%N now)) = (a, length (inodes f)) :: names f) by reflexivity.
  destruct (create_file f a 0%N now) as [f' i]. cbn [fst snd] in *. destruct S as [-> [Hino [La Lo]]].
  assert (Iold : forall j, j < length (inodes f) -> inode f' j = inode f j).
  { intros j Hj. unfold inode. rewrite Hino, inode_app_old by assumption. reflexivity. }
  assert (Inew : inode f' (length (inodes f)) = fresh_file now).
  { unfold inode. rewrite Hino, inode_app_new. reflexivity. }
  split; [reflexivity|]. split.
  { split.
    - exact W'.
    - intros n j Hj. destruct (beq_spec n a) as [->|Hna].
      + rewrite La in Hj. injection Hj as <-. rewrite Inew. split; reflexivity.
      + rewrite Lo in Hj by assumption. rewrite Iold by (eapply wf_bound; eassumption). eapply P; eassumption.
    - unfold dir_names. rewrite Hn. cbn [List.map fst]. constructor; [|exact N].
      apply lookup_none_notin. exact Ha. }
  split; [exact La|]. split; [unfold content; rewrite Inew; reflexivity|].
  split; [exact Lo|]. split; [exact Iold|]. rewrite Hino, app_length. cbn [length]. lia.
Qed.

(* opening (either mode) a name that does not exist creates the file *)
Lemma open_fresh f a app now : lookup f a = None ->
  (if app : bool then open_append f a now else open_trunc f a 0%N now) = create_file f a 0%N now.
Proof. intros H. destruct app; [apply open_append_fresh | apply open_trunc_fresh]; exact H. Qed.

Lemma rename_ok f a b i : FsOk f -> a <> b -> lookup f a = Some i ->
  exists f', rename f a b = Some f' /\ FsOk f' /\ inodes f' = inodes f
    /\ lookup f' b = Some i /\ lookup f' a = None /\ (forall n, n <> a -> n <> b -> lookup f' n = lookup f n).
Proof.
  intros [W P N] Hab Ha. destruct (rename_spec f a b i Hab Ha) as [f' [E [Hino [Lb [La Lo]]]]].
  exists f'. split; [exact E|]. split; [|auto].
  split.
  - eapply wf_rename; eassumption.
  - intros n j Hj. unfold inode. rewrite Hino. fold (inode f j).
    destruct (beq_spec n b) as [->|Hnb]; [rewrite Lb in Hj; injection Hj as <-; eapply P; eassumption|].
    destruct (beq_spec n a) as [->|Hna]; [rewrite La in Hj; discriminate|].
    rewrite Lo in Hj by assumption. eapply P; eassumption.
  - unfold rename in E. rewrite Ha in E. injection E as <-. unfold dir_names; cbn [names List.map fst].
    constructor; [|apply nodup_fst_filter; exact N].
    intros Hin. apply in_fst_filter in Hin. destruct Hin as [y [_ Hp]]. cbn [fst] in Hp.
    rewrite beq_refl in Hp. cbn in Hp. rewrite andb_false_r in Hp. discriminate.
Qed.

Lemma unlink_ok f a : FsOk f ->
  FsOk (unlink f a) /\ inodes (unlink f a) = inodes f /\ lookup (unlink f a) a = None
  /\ (forall n, n <> a -> lookup (unlink f a) n = lookup f n).
Proof.
  intros [W P N]. destruct (unlink_spec f a) as [Hino [La Lo]]. split; [|auto]. split.
  - apply wf_unlink; exact W.
  - intros n j Hj. unfold inode. rewrite Hino. fold (inode f j).
    destruct (beq_spec n a) as [->|Hna]; [rewrite La in Hj; discriminate|].
    rewrite Lo in Hj by assumption. eapply P; eassumption.
  - unfold dir_names, unlink; cbn [names]. apply nodup_fst_filter. exact N.
Qed.

(* ================================================================== 2. association lists: the expected directory *)
Definition assoc (n : bytes) (l : list (bytes * bytes)) : option bytes :=
  match find (fun p => beq (fst p) n) l with Some p => Some (snd p) | None => None end.

Lemma assoc_nil n : assoc n [] = None.
Proof. reflexivity. Qed.
Lemma assoc_cons n m d l : assoc n ((m, d) :: l) = if beq m n then Some d else assoc n l.
Proof. unfold assoc; cbn [find fst snd]. destruct (beq m n); reflexivity. Qed.
Lemma assoc_app n l l' : assoc n (l ++ l') = match assoc n l with Some d => Some d | None => assoc n l' end.
Proof.
  induction l as [|[m d] l IH]; [reflexivity|]. cbn [app]. rewrite !assoc_cons.
  destruct (beq m n); [reflexivity | exact IH].
Qed.
Lemma assoc_snoc_other n m d l : n <> m -> assoc n (l ++ [(m, d)]) = assoc n l.
Proof.
  intros H. rewrite assoc_app, assoc_cons, beq_neq by congruence. cbn. destruct (assoc n l); reflexivity.
Qed.
Lemma assoc_snoc_same m d l : assoc m l = None -> assoc m (l ++ [(m, d)]) = Some d.
Proof. intros H. rewrite assoc_app, H, assoc_cons, beq_refl. reflexivity. Qed.
Lemma assoc_in n l : assoc n l <> None <-> In n (List.map fst l).
Proof.
  unfold assoc. rewrite <- find_name_in. destruct (find (fun p => beq (fst p) n) l); split; congruence.
Qed.
Lemma assoc_none_notin n l : assoc n l = None -> ~ In n (List.map fst l).
Proof. intros H Hin. apply assoc_in in Hin. contradiction. Qed.
Lemma notin_assoc_none n l : ~ In n (List.map fst l) -> assoc n l = None.
Proof. intros H. destruct (assoc n l) eqn:E; [|reflexivity]. exfalso. apply H, assoc_in. congruence. Qed.

Lemma nodup_snoc_gen {A} (l : list A) x : NoDup l -> ~ In x l -> NoDup (l ++ [x]).
Proof.
  induction l as [|y l IH]; cbn [app]; intros N H; [constructor; [tauto | constructor]|].
  inversion N as [|? ? Hy Hl]; subst. constructor.
  - intros Hin. apply in_app_or in Hin. destruct Hin as [Hin|[->|[]]]; [contradiction|]. apply H. left. reflexivity.
  - apply IH; [exact Hl|]. intros Hin. apply H. right. exact Hin.
Qed.
Lemma nodup_snoc (l : list (bytes * bytes)) m d :
  NoDup (List.map fst l) -> assoc m l = None -> NoDup (List.map fst (l ++ [(m, d)])).
Proof.
  intros N H. rewrite map_app. cbn [List.map fst].
  apply nodup_snoc_gen; [exact N | apply assoc_none_notin; exact H].
Qed.

Lemma fview_ext f f' n : lookup f' n = lookup f n ->
  (forall j, lookup f n = Some j -> content f' j = content f j) -> fview f' n = fview f n.
Proof. intros L C. unfold fview. rewrite L. destruct (lookup f n) as [j|]; [|reflexivity]. rewrite C; reflexivity. Qed.

(* a file is created under the free name a, then an old handle i flushes its pending bytes *)
Lemma create_then_flush f a now i pend : FsOk f -> lookup f a = None -> i < length (inodes f) ->
  let f3 := append_ino (fst (create_file f a 0%N now)) i pend in
  let new := length (inodes f) in
  snd (create_file f a 0%N now) = new /\ FsOk f3 /\ lookup f3 a = Some new /\ content f3 new = []
  /\ (forall n, n <> a -> lookup f3 n = lookup f n)
  /\ content f3 i = content f i ++ pend
  /\ (forall j, j < new -> j <> i -> content f3 j = content f j).
Proof.
  intros Ok Ha Hi. cbv zeta.
  destruct (create_ok f a now Ok Ha) as (Hs & Ok2 & La & Cn & Lo & Io & Hl). cbv zeta in *.
  set (f2 := fst (create_file f a 0%N now)) in *.
  split; [exact Hs|]. split; [apply FsOk_append; exact Ok2|].
  split; [rewrite lookup_append; exact La|].
  split; [rewrite content_append_other by lia; exact Cn|].
  split; [intros n Hn; rewrite lookup_append; apply Lo; exact Hn|].
  split.
  - rewrite content_append_same by lia. unfold content. rewrite Io by assumption. reflexivity.
  - intros j Hj Hne. rewrite content_append_other by assumption. unfold content. rewrite Io by assumption. reflexivity.
Qed.

(* ================================================================== 3. the writer: invariants *)
Definition norot (c : config) : Prop :=
  c_rot c = None /\ c_async c = false /\ c_symlink c = false /\ fts (c_spec c) = false.
Definition logname (c : config) : bytes := the_name c.

Lemma logname_of c w : norot c -> name_of c w None = logname c.
Proof. intros (_ & _ & _ & H). apply name_plain; exact H. Qed.

(* closed: the files that exist besides the one that is being written, with their contents *)
Record WInit (c : config) (closed : list (bytes * bytes)) (w : world) : Prop := {
  wi_quiet : quiet w;
  wi_errs : werrs w = [];
  wi_ok : FsOk (wfs w);
  wi_view : forall n, fview (wfs w) n = assoc n closed;
  wi_free : assoc (logname c) closed = None }.

(* data: what has been handed to the open writer, whether it has reached the file already or is still buffered *)
Record WAct (c : config) (closed : list (bytes * bytes)) (data : bytes) (w : world) (wr : writer) : Prop := {
  wa_quiet : quiet w;
  wa_errs : werrs w = [];
  wa_ok : FsOk (wfs w);
  wa_wr : wr_ok wr;
  wa_cur : lookup (wfs w) (logname c) = Some (wino wr);
  wa_data : content (wfs w) (wino wr) ++ wpend wr = data;
  wa_view : forall n, n <> logname c -> fview (wfs w) n = assoc n closed;
  wa_free : assoc (logname c) closed = None }.

Lemma env_errs w w' : same_env w w' -> werrs w = [] -> werrs w' = [].
Proof. intros (_ & _ & _ & He & _) H. congruence. Qed.

Lemma winit_env c closed w w' : WInit c closed w -> wfs w' = wfs w -> same_env w w' -> WInit c closed w'.
Proof.
  intros [Q E Ok V Fr] F SE. split.
  - apply SE.
  - eapply env_errs; eassumption.
  - rewrite F; exact Ok.
  - rewrite F; exact V.
  - exact Fr.
Qed.

Lemma wact_append c closed data w wr w' wr' fl x :
  WAct c closed data w wr -> wfs w' = append_ino (wfs w) (wino wr) fl -> same_env w w' ->
  wino wr' = wino wr -> wr_ok wr' -> fl ++ wpend wr' = wpend wr ++ x ->
  WAct c closed (data ++ x) w' wr'.
Proof.
  intros [Q E Ok Hwr Cur D V Fr] F SE Ei Hok Ep.
  pose proof (wf_bound _ (fo_wf _ Ok) _ _ Cur) as Hi.
  split.
  - apply SE.
  - eapply env_errs; eassumption.
  - rewrite F. apply FsOk_append; exact Ok.
  - exact Hok.
  - rewrite F, lookup_append, Ei. exact Cur.
  - rewrite F, Ei, content_append_same by assumption. rewrite <- D, <- !app_assoc, Ep. reflexivity.
  - intros n Hn. rewrite F, fview_append_other; [apply V; exact Hn|].
    intros H. apply Hn. exact (wf_inj _ (fo_wf _ Ok) _ _ _ H Cur).
  - exact Fr.
Qed.

(* ---- write_buffer ---- *)
Lemma write_act c closed data w wr b : WAct c closed data w wr ->
  exists w' wr', write_buffer (mkflw c (Active None wr (logname c))) w b
                 = (Ok tt, w', mkflw c (Active None wr' (logname c)), false)
    /\ WAct c closed (data ++ b) w' wr'.
Proof.
  intros I. unfold write_buffer, mkflw; cbn [f_inner f_cfg mount_next].
  destruct (w_write_quiet w wr b (wa_quiet _ _ _ _ _ I) (wa_wr _ _ _ _ _ I))
    as (w2 & wr2 & fl & Ew & S2 & F2 & Ei & Ec & Ep & Hok).
  rewrite Ew. exists w2, wr2. split; [reflexivity|].
  eapply wact_append; eassumption.
Qed.

Lemma winit_lookup c closed w : WInit c closed w -> lookup (wfs w) (logname c) = None.
Proof.
  intros [_ _ _ V Fr]. specialize (V (logname c)). unfold fview in V. rewrite Fr in V.
  destruct (lookup (wfs w) (logname c)); [discriminate | reflexivity].
Qed.

Lemma write_init c closed w b : norot c -> WInit c closed w ->
  exists w' wr', write_buffer (mkflw c Initial) w b = (Ok tt, w', mkflw c (Active None wr' (logname c)), false)
    /\ WAct c closed b w' wr'.
Proof.
  intros Hc I. pose proof Hc as (Hrot & Hasync & Hsym & Hts).
  pose proof (winit_lookup _ _ _ I) as Ln. destruct I as [Q E Ok V Fr].
  assert (D : match file_of (wfs w) (logname c) with Some fl => fdir fl = false | None => True end)
    by (unfold file_of; rewrite Ln; exact Logic.I).
  destruct (p_open_quiet w (logname c) (c_append c) Q D) as (w1 & Eop & F1 & S1).
  rewrite (open_fresh _ _ _ _ Ln) in Eop, F1.
  destruct (create_ok (wfs w) (logname c) (wnow w) Ok Ln) as (Hs & Ok1 & La & Cn & Lo & Io & Hl). cbv zeta in *.
  set (wr0 := {| wino := snd (create_file (wfs w) (logname c) 0%N (wnow w)); wpend := []; wcap := c_cap c |}).
  assert (I0 : WAct c closed [] w1 wr0).
  { split.
    - apply S1.
    - eapply env_errs; eassumption.
    - rewrite F1; exact Ok1.
    - unfold wr_ok, wr0; cbn [wcap wpend length]. destruct (c_cap c); [lia | reflexivity].
    - rewrite F1. cbn [wr0 wino]. rewrite Hs. exact La.
    - rewrite F1. cbn [wr0 wino wpend]. rewrite Hs, Cn. reflexivity.
    - intros n Hn. rewrite F1, <- V. apply fview_ext; [apply Lo; exact Hn|].
      intros j Hj. unfold content. rewrite Io; [reflexivity|]. eapply wf_bound; [apply Ok | exact Hj].
    - exact Fr. }
  destruct (write_act c closed [] w1 wr0 b I0) as (w2 & wr2 & Ew & I2). cbn [app] in I2.
  exists w2, wr2. split; [|exact I2].
  unfold write_buffer, mkflw in *; cbn [f_inner f_cfg mount_next] in *.
  unfold initialize. rewrite Hrot. unfold open_log_file, do_symlink. rewrite Hsym, (logname_of c w Hc), Eop.
  cbn [bind fst snd mount_next]. fold wr0. exact Ew.
Qed.

(* ---- flush ---- *)
Lemma flush_act c closed data w wr : WAct c closed data w wr ->
  exists w' wr', flush_state (mkflw c (Active None wr (logname c))) w = (true, w', mkflw c (Active None wr' (logname c)))
    /\ WAct c closed data w' wr'.
Proof.
  intros I. unfold flush_state, mkflw; cbn [f_inner].
  destruct (w_flush_quiet w wr (wa_quiet _ _ _ _ _ I)) as (w1 & Efl & F1 & S1). rewrite Efl.
  eexists _, _. split; [reflexivity|].
  rewrite <- (app_nil_r data). eapply wact_append; try eassumption; try reflexivity.
  unfold wr_ok; cbn [wcap wpend length]. destruct (wcap wr); [lia | reflexivity].
Qed.

(* ---- reopen_outputfile on an open writer: open the path again (append), then drop the old writer ---- *)
Lemma reopen_quiet c w wr path : quiet w ->
  exists w', reopen_state (mkflw c (Active None wr path)) w
             = (Ok tt, w', mkflw c (Active None {| wino := snd (open_append (wfs w) path (wnow w)); wpend := []; wcap := None |} path))
    /\ wfs w' = append_ino (fst (open_append (wfs w) path (wnow w))) (wino wr) (wpend wr)
    /\ same_env w w'.
Proof.
  intros Q. unfold reopen_state, mkflw; cbn [f_inner]. rewrite tick_quiet by assumption.
  destruct (effect_quiet w (fun f => fst (open_append f path (wnow w))) Q) as [F2 S2].
  unfold w_drop.
  destruct (w_flush_quiet (effect w (fun f => fst (open_append f path (wnow w)))) wr (proj1 S2)) as (w3 & Efl & F3 & S3).
  rewrite Efl. cbn [fst snd with_inner f_cfg f_poisoned].
  exists w3. split; [reflexivity|]. split; [rewrite F3, F2; reflexivity|].
  eapply same_env_trans; eassumption.
Qed.

(* the situation before reopen: the name of the log file has been taken away from the writer's inode (f1 is the
   directory after that), and the rest of the directory is described by closed' *)
Lemma reopen_detached c closed' w1 wr data :
  quiet w1 -> werrs w1 = [] -> FsOk (wfs w1) -> lookup (wfs w1) (logname c) = None ->
  wino wr < length (inodes (wfs w1)) ->
  (forall n, lookup (wfs w1) n = Some (wino wr) -> content (wfs w1) (wino wr) ++ wpend wr = data) ->
  (forall n, n <> logname c -> lookup (wfs w1) n <> Some (wino wr) -> fview (wfs w1) n = assoc n closed') ->
  (forall n, lookup (wfs w1) n = Some (wino wr) -> assoc n closed' = Some data) ->
  assoc (logname c) closed' = None ->
  exists w' wr', reopen_state (mkflw c (Active None wr (logname c))) w1 = (Ok tt, w', mkflw c (Active None wr' (logname c)))
    /\ WAct c closed' [] w' wr'.
Proof.
  intros Q E Ok Ln Hi Hdata Hoth Hsame Fr.
  destruct (reopen_quiet c w1 wr (logname c) Q) as (w3 & Ere & F3 & S3).
  rewrite (open_append_fresh _ _ _ Ln) in Ere, F3.
  destruct (create_then_flush (wfs w1) (logname c) (wnow w1) (wino wr) (wpend wr) Ok Ln Hi)
    as (Hs & Ok3 & La & Cn & Lo & Ci & Co). cbv zeta in *. rewrite <- F3 in *.
  eexists w3, _. split; [exact Ere|].
  split.
  - apply S3.
  - eapply env_errs; eassumption.
  - exact Ok3.
  - reflexivity.
  - cbn [wino]. rewrite Hs. exact La.
  - cbn [wino wpend]. rewrite Hs, Cn. reflexivity.
  - intros n Hn. destruct (lookup (wfs w1) n) as [j|] eqn:Ej.
    + destruct (Nat.eq_dec j (wino wr)) as [->|Hj].
      * unfold fview. rewrite Lo, Ej, Ci, (Hdata n Ej) by assumption. symmetry. apply Hsame. exact Ej.
      * rewrite <- Hoth; [|exact Hn | rewrite Ej; congruence].
        apply fview_ext; [apply Lo; exact Hn|]. intros k Hk. rewrite Ej in Hk. injection Hk as <-.
        apply Co; [|exact Hj]. eapply wf_bound; [apply Ok | exact Ej].
    + rewrite <- Hoth; [|exact Hn | rewrite Ej; discriminate].
      apply fview_ext; [apply Lo; exact Hn|]. intros k Hk. rewrite Ej in Hk. discriminate.
  - exact Fr.
Qed.

(* ---- the writer is dropped (reset, or the end of the program) ---- *)
Lemma wact_dropped c closed data w wr w' :
  WAct c closed data w wr -> wfs w' = append_ino (wfs w) (wino wr) (wpend wr) -> same_env w w' ->
  quiet w' /\ werrs w' = [] /\ FsOk (wfs w') /\ forall n, fview (wfs w') n = assoc n (closed ++ [(logname c, data)]).
Proof.
  intros I F SE.
  assert (I' : WAct c closed (data ++ []) w' {| wino := wino wr; wpend := []; wcap := None |}).
  { eapply wact_append; try eassumption; try reflexivity. }
  rewrite app_nil_r in I'. destruct I' as [Q E Ok _ Cur D V Fr]. cbn [wino wpend] in *. rewrite app_nil_r in D.
  split; [exact Q|]. split; [exact E|]. split; [exact Ok|].
  intros n. destruct (beq_spec n (logname c)) as [->|Hn].
  - rewrite assoc_snoc_same by exact Fr. unfold fview. rewrite Cur, D. reflexivity.
  - rewrite assoc_snoc_other by exact Hn. apply V. exact Hn.
Qed.

Lemma drop_quiet c w wr path : quiet w ->
  exists w', drop_state (mkflw c (Active None wr path)) w = w'
    /\ wfs w' = append_ino (wfs w) (wino wr) (wpend wr) /\ same_env w w'.
Proof.
  intros Q. unfold drop_state, shutdown_state, mkflw, drain_acts; cbn [f_inner].
  destruct (w_flush_quiet w wr Q) as (w1 & E1 & F1 & S1). rewrite E1. cbn [with_inner f_inner f_cfg f_poisoned].
  set (wr1 := {| wino := wino wr; wpend := []; wcap := wcap wr |}) in *.
  destruct (w_flush_quiet w1 wr1 (proj1 S1)) as (w2 & E2 & F2 & S2). rewrite E2. cbn [with_inner f_inner f_cfg f_poisoned].
  cbn [wr1 wino wpend wcap] in *. fold wr1. unfold w_drop.
  destruct (w_flush_quiet w2 wr1 (proj1 S2)) as (w3 & E3 & F3 & S3). rewrite E3. cbn [fst snd].
  cbn [wr1 wino wpend wcap] in *.
  exists w3. split; [reflexivity|]. split.
  - rewrite F3, append_ino_nil_id, F2, append_ino_nil_id, F1. reflexivity.
  - eapply same_env_trans; [eapply same_env_trans|]; eassumption.
Qed.

(* ================================================================== 4. steps of the system *)
Inductive St (c : config) (closed : list (bytes * bytes)) : option bytes -> sys -> Prop :=
| St_init w : WInit c closed w -> St c closed None (mksys (mkflw c Initial) w)
| St_act w wr data : WAct c closed data w wr ->
    St c closed (Some data) (mksys (mkflw c (Active None wr (logname c))) w).

Lemma step_sync c st w o : norot c -> step (mksys (mkflw c st) w) o = sync_step (mksys (mkflw c st) w) o.
Proof.
  intros (_ & Ha & _ & Ht).
  rewrite step_plain by (unfold mksys, mkflw; cbn [s_flw]; intros s' Es'; injection Es' as <-; exact Ht).
  unfold step_core, mksys, mkflw; cbn [s_flw]. unfold is_async; cbn [f_cfg]. rewrite Ha. reflexivity.
Qed.

Definition wf_op (o : op) : Prop := match o with OWrite _ | OPlain _ | OFlush => True | _ => False end.
Definition bytes_of (o : op) : bytes := match o with OWrite b | OPlain b => b | _ => [] end.
Definition written (ops : list op) : bytes := concat (List.map bytes_of ops).
Definition is_write (o : op) : bool := match o with OWrite _ | OPlain _ => true | _ => false end.
Definition has_write (ops : list op) : bool := existsb is_write ops.

(* the abstract effect of one operation: the bytes handed to the open writer; None = no file opened yet *)
Definition acur (cur : option bytes) (o : op) : option bytes :=
  if is_write o then Some (match cur with Some d => d ++ bytes_of o | None => bytes_of o end) else cur.

Lemma St_write c closed cur w st b :
  norot c -> St c closed cur (mksys (mkflw c st) w) ->
  exists w' st', write_buffer (mkflw c st) w b = (Ok tt, w', mkflw c st', false)
    /\ St c closed (Some (match cur with Some d => d ++ b | None => b end)) (mksys (mkflw c st') w').
Proof.
  intros Hc H. inversion H as [w0 I E1 E2 | w0 wr data I E1 E2]; subst.
  - destruct (write_init c closed w b Hc I) as (w' & wr' & Ew & I'). eexists _, _. split; [exact Ew|].
    constructor. exact I'.
  - destruct (write_act c closed data w wr b I) as (w' & wr' & Ew & I'). eexists _, _. split; [exact Ew|].
    constructor. exact I'.
Qed.

Lemma St_shape c closed cur x : St c closed cur x -> exists st w, x = mksys (mkflw c st) w.
Proof. intros H. destruct H; eexists _, _; reflexivity. Qed.

Lemma St_op c closed cur x o : norot c -> wf_op o -> St c closed cur x ->
  exists x', step x o = (x', ObsRes 0%N false) /\ St c closed (acur cur o) x'.
Proof.
  intros Hc Ho H. destruct (St_shape _ _ _ _ H) as (st & w & ->). rewrite step_sync by exact Hc.
  destruct o; try contradiction; unfold acur; cbn [is_write bytes_of].
  - (* OWrite *)
    destruct (St_write c closed cur w st b Hc H) as (w' & st' & Ew & H').
    unfold sync_step, mksys, mkflw in *; cbn [s_flw s_w s_tl s_dead f_poisoned app] in *. rewrite Ew.
    eexists. split; [reflexivity | exact H'].
  - (* OPlain *)
    destruct (St_write c closed cur w st b Hc H) as (w' & st' & Ew & H').
    unfold sync_step, mksys, mkflw in *; cbn [s_flw s_w s_tl s_dead f_poisoned app] in *. rewrite Ew.
    eexists. split; [reflexivity | exact H'].
  - (* OFlush *)
    inversion H as [w0 I E1 E2 | w0 wr data I E1 E2]; subst.
    + eexists. split; [reflexivity | exact H].
    + destruct (flush_act c closed data w wr I) as (w' & wr' & Ef & I').
      unfold sync_step, mksys, mkflw in *; cbn [s_flw s_w s_tl s_dead f_poisoned] in *. rewrite Ef.
      eexists. split; [reflexivity|]. apply (St_act c closed w' wr' data I').
Qed.

(* ---- switch 1: the log file is renamed away by somebody else, then reopen_outputfile() ---- *)
Lemma St_rename c closed cur x m : norot c -> m <> logname c -> assoc m closed = None -> St c closed cur x ->
  exists x' obs, run x [OExtRename (logname c) m; OReopen] = (x', obs)
    /\ St c (match cur with Some d => closed ++ [(m, d)] | None => closed end)
            (match cur with Some _ => Some [] | None => None end) x'.
Proof.
  intros Hc Hm Hfree H. cbn [run].
  inversion H as [w I E1 E2 | w wr data I E1 E2]; subst.
  - (* no file opened yet: nothing to rename, reopen does nothing *)
    rewrite step_sync by exact Hc. cbn [sync_step mksys s_w s_flw s_tl s_dead].
    rewrite (rename_none _ _ _ (winit_lookup _ _ _ I)).
    fold (mksys (mkflw c Initial) (set_fs w (wfs w))). rewrite step_sync by exact Hc.
    unfold sync_step, mksys, mkflw; cbn [s_flw s_w s_tl s_dead f_poisoned reopen_state f_inner code_of].
    eexists _, _. split; [reflexivity|].
    apply (St_init c closed (set_fs w (wfs w))).
    destruct (set_fs_env w (wfs w) (wi_quiet _ _ _ I)) as [F S]. eapply winit_env; eassumption.
  - rewrite step_sync by exact Hc. cbn [sync_step mksys s_w s_flw s_tl s_dead].
    pose proof I as [Q E Ok Hwr Cur D V Fr].
    destruct (rename_ok (wfs w) (logname c) m (wino wr) Ok (not_eq_sym Hm) Cur) as (f1 & Er & Ok1 & Hino & Lm & Ll & Lo).
    rewrite Er.
    fold (mksys (mkflw c (Active None wr (logname c))) (set_fs w f1)). rewrite step_sync by exact Hc.
    destruct (set_fs_env w f1 Q) as [F1 S1].
    pose proof (wf_bound _ (fo_wf _ Ok) _ _ Cur) as Hi.
    assert (Cont : forall j, content (wfs (set_fs w f1)) j = content (wfs w) j).
    { intros j. rewrite F1. unfold content, inode. rewrite Hino. reflexivity. }
    destruct (reopen_detached c (closed ++ [(m, data)]) (set_fs w f1) wr data) as (w' & wr' & Ere & I').
    + apply S1.
    + eapply env_errs; eassumption.
    + rewrite F1; exact Ok1.
    + rewrite F1; exact Ll.
    + rewrite F1, Hino; exact Hi.
    + intros n _. rewrite Cont. exact D.
    + intros n Hn Hne. rewrite F1 in Hne.
      destruct (beq_spec n m) as [->|Hnm]; [rewrite Lm in Hne; congruence|].
      rewrite assoc_snoc_other by exact Hnm. rewrite <- V by exact Hn.
      apply fview_ext; [rewrite F1; apply Lo; assumption|]. intros j _. apply Cont.
    + intros n Hn. rewrite F1 in Hn.
      destruct (beq_spec n m) as [->|Hnm]; [apply assoc_snoc_same; exact Hfree|].
      destruct (beq_spec n (logname c)) as [->|Hnl]; [rewrite Ll in Hn; discriminate|].
      rewrite Lo in Hn by assumption. exfalso. apply Hnl. exact (wf_inj _ (fo_wf _ Ok) _ _ _ Hn Cur).
    + rewrite assoc_snoc_other by (apply not_eq_sym; exact Hm). exact Fr.
    + unfold sync_step, mksys, mkflw in *; cbn [s_flw s_w s_tl s_dead f_poisoned] in *. rewrite Ere.
      eexists _, _. split; [reflexivity|]. apply (St_act c _ w' wr' [] I').
Qed.

(* ---- switch 1': the log file is removed by somebody else, then reopen_outputfile() ---- *)
Lemma St_remove c closed cur x : norot c -> St c closed cur x ->
  exists x' obs, run x [OExtRemove (logname c); OReopen] = (x', obs)
    /\ St c closed (match cur with Some _ => Some [] | None => None end) x'.
Proof.
  intros Hc H. cbn [run].
  inversion H as [w I E1 E2 | w wr data I E1 E2]; subst.
  - rewrite step_sync by exact Hc. cbn [sync_step mksys s_w s_flw s_tl s_dead].
    fold (mksys (mkflw c Initial) (set_fs w (unlink (wfs w) (logname c)))). rewrite step_sync by exact Hc.
    unfold sync_step, mksys, mkflw; cbn [s_flw s_w s_tl s_dead f_poisoned reopen_state f_inner code_of].
    eexists _, _. split; [reflexivity|].
    apply (St_init c closed (set_fs w (unlink (wfs w) (logname c)))).
    pose proof (winit_lookup _ _ _ I) as Ln. destruct I as [Q E Ok V Fr].
    destruct (set_fs_env w (unlink (wfs w) (logname c)) Q) as [F S].
    destruct (unlink_ok (wfs w) (logname c) Ok) as (Ok1 & Hino & Ll & Lo).
    split.
    + apply S.
    + eapply env_errs; eassumption.
    + rewrite F; exact Ok1.
    + intros n. rewrite F, <- V. apply fview_ext.
      * destruct (beq_spec n (logname c)) as [->|Hn]; [congruence | apply Lo; exact Hn].
      * intros j _. unfold content, inode. rewrite Hino. reflexivity.
    + exact Fr.
  - rewrite step_sync by exact Hc. cbn [sync_step mksys s_w s_flw s_tl s_dead].
    pose proof I as [Q E Ok Hwr Cur D V Fr].
    destruct (unlink_ok (wfs w) (logname c) Ok) as (Ok1 & Hino & Ll & Lo).
    set (f1 := unlink (wfs w) (logname c)) in *.
    fold (mksys (mkflw c (Active None wr (logname c))) (set_fs w f1)). rewrite step_sync by exact Hc.
    destruct (set_fs_env w f1 Q) as [F1 S1].
    pose proof (wf_bound _ (fo_wf _ Ok) _ _ Cur) as Hi.
    assert (Orph : forall n, lookup f1 n <> Some (wino wr)).
    { intros n Hn. destruct (beq_spec n (logname c)) as [->|Hnl]; [rewrite Ll in Hn; discriminate|].
      rewrite Lo in Hn by assumption. apply Hnl. exact (wf_inj _ (fo_wf _ Ok) _ _ _ Hn Cur). }
    destruct (reopen_detached c closed (set_fs w f1) wr data) as (w' & wr' & Ere & I').
    + apply S1.
    + eapply env_errs; eassumption.
    + rewrite F1; exact Ok1.
    + rewrite F1; exact Ll.
    + rewrite F1, Hino; exact Hi.
    + intros n Hn. rewrite F1 in Hn. exfalso. exact (Orph n Hn).
    + intros n Hn _. rewrite <- V by exact Hn.
      apply fview_ext; [rewrite F1; apply Lo; assumption|]. intros j _. rewrite F1. unfold content, inode. rewrite Hino. reflexivity.
    + intros n Hn. rewrite F1 in Hn. exfalso. exact (Orph n Hn).
    + exact Fr.
    + unfold sync_step, mksys, mkflw in *; cbn [s_flw s_w s_tl s_dead f_poisoned] in *. rewrite Ere.
      eexists _, _. split; [reflexivity|]. apply (St_act c _ w' wr' [] I').
Qed.

(* ---- switch 2: reset to a configuration with another file name ---- *)
(* assert_write_mode: reset is accepted only if the new configuration has the very same write mode *)
Lemma cap_eqb_refl a : cap_eqb a a = true.
Proof. destruct a as [n|]; cbn [cap_eqb]; [apply Nat.eqb_refl | reflexivity]. Qed.
Lemma cap_eqb_neq a b : a <> b -> cap_eqb a b = false.
Proof.
  intros H. destruct a as [n|], b as [m|]; cbn [cap_eqb]; try reflexivity; [|contradiction].
  apply Nat.eqb_neq. intros ->. contradiction.
Qed.
Lemma reset_check_ok c c2 : norot c -> norot c2 -> c_cap c2 = c_cap c ->
  negb (cap_eqb (c_cap c2) (c_cap c) && Bool.eqb (c_async c2) (c_async c)) = false.
Proof. intros (_ & Ha & _) (_ & Ha2 & _) Hcap. rewrite Hcap, cap_eqb_refl, Ha, Ha2. reflexivity. Qed.

Lemma St_reset c closed cur x c2 :
  norot c -> norot c2 -> c_cap c2 = c_cap c ->
  logname c2 <> logname c -> assoc (logname c2) closed = None -> St c closed cur x ->
  exists x', step x (OReset c2) = (x', ObsRes 0%N false)
    /\ St c2 (match cur with Some d => closed ++ [(logname c, d)] | None => closed end) None x'.
Proof.
  intros Hc Hc2 Hcap Hne Hfree H.
  inversion H as [w I E1 E2 | w wr data I E1 E2]; subst; rewrite step_sync by exact Hc;
    unfold sync_step, mksys, mkflw, drain_acts; cbn [s_flw s_w s_tl s_dead f_poisoned f_inner f_cfg];
    rewrite (reset_check_ok c c2 Hc Hc2 Hcap).
  - eexists. split; [reflexivity|]. apply (St_init c2 closed w).
    destruct I as [Q E Ok V Fr]. split; assumption.
  - unfold w_drop. destruct (w_flush_quiet w wr (wa_quiet _ _ _ _ _ I)) as (w1 & Efl & F1 & S1). rewrite Efl. cbn [fst snd].
    eexists. split; [reflexivity|]. apply (St_init c2 _ w1).
    destruct (wact_dropped c closed data w wr w1 I F1 S1) as (Q1 & E1 & Ok1 & V1).
    split; try assumption.
    rewrite assoc_snoc_other by exact Hne. exact Hfree.
Qed.

(* a reset to another write mode (here: another buffer capacity) is rejected: error result, nothing changes,
   whether the writer has opened its file already or not, and whatever the world looks like *)
Theorem reset_other_write_mode_rejected c c2 st w :
  norot c -> c_cap c2 <> c_cap c ->
  step (mksys (mkflw c st) w) (OReset c2) = (mksys (mkflw c st) w, ObsRes 1%N false).
Proof.
  intros Hc Hcap. rewrite step_sync by exact Hc.
  unfold sync_step, mksys, mkflw; cbn [s_flw s_w s_tl s_dead f_poisoned f_inner f_cfg].
  rewrite (cap_eqb_neq _ _ Hcap). reflexivity.
Qed.
Print Assumptions reset_other_write_mode_rejected.

(* ---- the end: the writer is dropped ---- *)
Record Final (files : list (bytes * bytes)) (w : world) : Prop := {
  fin_quiet : quiet w;
  fin_errs : werrs w = [];
  fin_ok : FsOk (wfs w);
  fin_view : forall n, fview (wfs w) n = assoc n files }.

Definition afinal (c : config) (closed : list (bytes * bytes)) (cur : option bytes) : list (bytes * bytes) :=
  closed ++ match cur with Some d => [(logname c, d)] | None => [] end.

Lemma St_stop c closed cur x : norot c -> St c closed cur x ->
  exists x', step x OStop = (x', ObsRes 0%N false) /\ s_flw x' = None /\ Final (afinal c closed cur) (s_w x').
Proof.
  intros Hc H.
  inversion H as [w I E1 E2 | w wr data I E1 E2]; subst; rewrite step_sync by exact Hc; unfold afinal.
  - eexists. split; [reflexivity|]. split; [reflexivity|]. cbn [s_w]. rewrite app_nil_r.
    destruct I as [Q E Ok V Fr]. split; assumption.
  - unfold sync_step, mksys; cbn [s_flw s_w s_tl s_dead]. change (f_poisoned (mkflw c (Active None wr (logname c)))) with false.
    cbv iota.
    destruct (drop_quiet c w wr (logname c) (wa_quiet _ _ _ _ _ I)) as (w1 & Ed & F1 & S1). rewrite Ed.
    eexists. split; [reflexivity|]. split; [reflexivity|]. cbn [s_w].
    destruct (wact_dropped c closed data w wr w1 I F1 S1) as (Q1 & E1 & Ok1 & V1).
    split; assumption.
Qed.

Lemma St_free c closed cur x : St c closed cur x -> assoc (logname c) closed = None.
Proof. intros H. destruct H as [w I | w wr data I]; apply I. Qed.

(* ================================================================== 5. histories with switches; the abstract machine *)
Inductive item :=
| IOp (o : op)                 (* a write, a raw write or a flush *)
| IRename (moved : bytes)      (* OExtRename (log name) moved; OReopen *)
| IRemove                      (* OExtRemove (log name); OReopen *)
| IReset (c2 : config).        (* OReset c2 *)

Definition flat1 (c : config) (it : item) : list op :=
  match it with
  | IOp o => [o]
  | IRename m => [OExtRename (logname c) m; OReopen]
  | IRemove => [OExtRemove (logname c); OReopen]
  | IReset c2 => [OReset c2]
  end.
Definition next_cfg (c : config) (it : item) : config := match it with IReset c2 => c2 | _ => c end.
Fixpoint flat (c : config) (items : list item) : list op :=
  match items with
  | [] => []
  | it :: r => flat1 c it ++ flat (next_cfg c it) r
  end.

(* abstract state: the configuration, the files that are closed (name, content) in the order in which they were
   closed, and the bytes handed to the open writer (None: no file opened yet) *)
Record astate := { a_cfg : config; a_closed : list (bytes * bytes); a_cur : option bytes }.

Definition astep (a : astate) (it : item) : astate :=
  match it with
  | IOp o => {| a_cfg := a_cfg a; a_closed := a_closed a; a_cur := acur (a_cur a) o |}
  | IRename m =>
    match a_cur a with
    | Some d => {| a_cfg := a_cfg a; a_closed := a_closed a ++ [(m, d)]; a_cur := Some [] |}
    | None => a       (* no file yet: nothing is renamed, reopen does nothing *)
    end
  | IRemove =>
    match a_cur a with
    | Some d => {| a_cfg := a_cfg a; a_closed := a_closed a; a_cur := Some [] |}     (* d is gone with the file *)
    | None => a
    end
  | IReset c2 =>
    {| a_cfg := c2;
       a_closed := match a_cur a with Some d => a_closed a ++ [(logname (a_cfg a), d)] | None => a_closed a end;
       a_cur := None |}
  end.
Definition arun (a : astate) (items : list item) : astate := fold_left astep items a.
Definition astart (c : config) : astate := {| a_cfg := c; a_closed := []; a_cur := None |}.
Definition afiles (a : astate) : list (bytes * bytes) := afinal (a_cfg a) (a_closed a) (a_cur a).

(* what a switch needs: the name that comes into use is not in use *)
Definition item_ok (a : astate) (it : item) : Prop :=
  match it with
  | IOp o => wf_op o
  | IRename m => m <> logname (a_cfg a) /\ assoc m (a_closed a) = None
  | IRemove => True
  | IReset c2 => norot c2 /\ c_cap c2 = c_cap (a_cfg a)          (* the same write mode, otherwise reset is rejected *)
                 /\ logname c2 <> logname (a_cfg a) /\ assoc (logname c2) (a_closed a) = None
  end.
Fixpoint items_ok (a : astate) (items : list item) : Prop :=
  match items with
  | [] => True
  | it :: r => item_ok a it /\ items_ok (astep a it) r
  end.

Lemma cfg_astep a it : a_cfg (astep a it) = next_cfg (a_cfg a) it.
Proof. destruct it; cbn [astep next_cfg a_cfg]; try reflexivity; destruct (a_cur a); reflexivity. Qed.

Lemma run_cat : forall ops1 ops2 x, run x (ops1 ++ ops2) =
  let '(x1, o1) := run x ops1 in let '(x2, o2) := run x1 ops2 in (x2, o1 ++ o2).
Proof.
  induction ops1 as [|o r IH]; intros ops2 x; cbn [run app].
  - destruct (run x ops2). reflexivity.
  - destruct (step x o) as [x1 ob]. rewrite IH. destruct (run x1 r) as [x2 o1]. destruct (run x2 ops2). reflexivity.
Qed.

Definition StA (a : astate) (x : sys) : Prop :=
  norot (a_cfg a) /\ NoDup (List.map fst (a_closed a)) /\ St (a_cfg a) (a_closed a) (a_cur a) x.

Lemma engine_step a it x : StA a x -> item_ok a it ->
  exists x' obs, run x (flat1 (a_cfg a) it) = (x', obs) /\ StA (astep a it) x'.
Proof.
  intros (Hc & N & H) Hok. destruct a as [c closed cur]. cbn [a_cfg a_closed a_cur] in *.
  destruct it as [o | m | | c2]; cbn [flat1 item_ok astep a_cfg a_closed a_cur] in *.
  - destruct (St_op c closed cur x o Hc Hok H) as (x' & Es & H').
    exists x', [ObsRes 0%N false]. cbn [run]. rewrite Es. split; [reflexivity|]. split; [exact Hc|]. split; [exact N | exact H'].
  - destruct Hok as [Hm Hfree]. destruct (St_rename c closed cur x m Hc Hm Hfree H) as (x' & obs & Er & H').
    exists x', obs. split; [exact Er|].
    destruct cur as [d|]; cbn [a_cfg a_closed a_cur]; (split; [exact Hc|]); (split; [|exact H']); [|exact N].
    apply nodup_snoc; assumption.
  - destruct (St_remove c closed cur x Hc H) as (x' & obs & Er & H').
    exists x', obs. split; [exact Er|].
    destruct cur as [d|]; cbn [a_cfg a_closed a_cur]; (split; [exact Hc|]); (split; [exact N | exact H']).
  - destruct Hok as (Hc2 & Hcap & Hne & Hfree). destruct (St_reset c closed cur x c2 Hc Hc2 Hcap Hne Hfree H) as (x' & Es & H').
    exists x', [ObsRes 0%N false]. cbn [run]. rewrite Es. split; [reflexivity|].
    split; [exact Hc2|]. split; [|exact H'].
    destruct cur as [d|]; [|exact N]. apply nodup_snoc; [exact N|]. eapply St_free; eassumption.
Qed.

Lemma engine items : forall a x, StA a x -> items_ok a items ->
  exists x' obs, run x (flat (a_cfg a) items) = (x', obs) /\ StA (arun a items) x'.
Proof.
  induction items as [|it r IH]; intros a x H Hok.
  - exists x, []. split; [reflexivity | exact H].
  - destruct Hok as [Hit Hr]. destruct (engine_step a it x H Hit) as (x1 & o1 & E1 & H1).
    destruct (IH _ _ H1 Hr) as (x2 & o2 & E2 & H2). rewrite cfg_astep in E2.
    exists x2, (o1 ++ o2). cbn [flat]. rewrite run_cat, E1, E2. split; [reflexivity | exact H2].
Qed.

(* ---- the directory at the end ---- *)
Definition dir_is (f : fs) (files : list (bytes * bytes)) : Prop :=
  (forall n, fview f n = assoc n files)                            (* under each name: exactly this content *)
  /\ Permutation (dir_names f) (List.map fst files)                (* the directory entries: exactly these names, once each *)
  /\ (forall n i, lookup f n = Some i -> plainf (inode f i)).      (* plain files *)

Lemma final_dir_is files w : Final files w -> NoDup (List.map fst files) -> dir_is (wfs w) files.
Proof.
  intros [Q E Ok V] N. split; [exact V|]. split; [|apply Ok].
  apply NoDup_Permutation; [apply Ok | exact N|].
  intros n. rewrite <- lookup_in, <- assoc_in, <- V. unfold fview.
  destruct (lookup (wfs w) n); split; congruence.
Qed.

Lemma afiles_nodup a x : StA a x -> NoDup (List.map fst (afiles a)).
Proof.
  intros (_ & N & H). unfold afiles, afinal. destruct (a_cur a) as [d|]; [|rewrite app_nil_r; exact N].
  apply nodup_snoc; [exact N|]. eapply St_free; eassumption.
Qed.

Lemma start_StA c t0 off : norot c -> StA (astart c) (mksys (mkflw c Initial) (world0 t0 off)).
Proof.
  intros Hc. split; [exact Hc|]. split; [constructor|]. apply (St_init c [] (world0 t0 off)).
  split; try reflexivity. - split; reflexivity. - apply FsOk_empty.
Qed.

(* THE GENERAL THEOREM: for every history of writes, flushes and switches from the empty directory, after the
   writer has been dropped the directory is exactly what the abstract machine computes; nothing was reported *)
Theorem switches_general c t0 off items :
  norot c -> items_ok (astart c) items ->
  let x := fst (run (sys0 t0 off) (OStart c :: flat c items ++ [OStop])) in
  dir_is (wfs (s_w x)) (afiles (arun (astart c) items))
  /\ NoDup (List.map fst (afiles (arun (astart c) items)))
  /\ werrs (s_w x) = [] /\ s_flw x = None.
Proof.
  intros Hc Hok. cbv zeta.
  destruct (engine items (astart c) _ (start_StA c t0 off Hc) Hok) as (x1 & o1 & E1 & H1). cbn [astart a_cfg] in E1.
  pose proof (afiles_nodup _ _ H1) as N.
  destruct H1 as (Hc1 & _ & H1).
  destruct (St_stop _ _ _ _ Hc1 H1) as (x2 & E2 & Hn & F).
  assert (R : run (sys0 t0 off) (OStart c :: flat c items ++ [OStop]) = (x2, ObsRes 0%N false :: o1 ++ [ObsRes 0%N false])).
  { change (run (sys0 t0 off) (OStart c :: flat c items ++ [OStop]))
      with (let '(x2, obs) := run (mksys (mkflw c Initial) (world0 t0 off)) (flat c items ++ [OStop]) in (x2, ObsRes 0%N false :: obs)).
    rewrite run_cat, E1. cbn [run]. rewrite E2. reflexivity. }
  rewrite R. cbn [fst]. split; [apply final_dir_is; assumption|]. split; [exact N|]. split; [apply F | exact Hn].
Qed.
Print Assumptions switches_general.

(* ================================================================== 6. facts about the abstract machine *)
Lemma arun_app a l l' : arun a (l ++ l') = arun (arun a l) l'.
Proof. apply fold_left_app. Qed.
Lemma items_ok_app l : forall a l', items_ok a (l ++ l') <-> items_ok a l /\ items_ok (arun a l) l'.
Proof.
  induction l as [|it r IH]; intros a l'; cbn [app items_ok arun fold_left]; [tauto|].
  fold (arun (astep a it) r). rewrite IH. tauto.
Qed.
Lemma flat_app l : forall c l', flat c (l ++ l') = flat c l ++ flat (a_cfg (arun {| a_cfg := c; a_closed := []; a_cur := None |} l)) l'.
Proof.
  assert (G : forall a l', flat (a_cfg a) (l ++ l') = flat (a_cfg a) l ++ flat (a_cfg (arun a l)) l').
  { induction l as [|it r IH]; intros a l'; cbn [app flat arun fold_left]; [reflexivity|].
    fold (arun (astep a it) r). rewrite <- cfg_astep, IH, app_assoc. reflexivity. }
  intros c l'. apply (G {| a_cfg := c; a_closed := []; a_cur := None |}).
Qed.

(* a block of plain operations *)
Definition cur_after (cur : option bytes) (ops : list op) : option bytes :=
  if has_write ops then Some (match cur with Some d => d | None => [] end ++ written ops) else cur.

Lemma written_cons o r : written (o :: r) = bytes_of o ++ written r.
Proof. reflexivity. Qed.
Lemma written_app a b : written (a ++ b) = written a ++ written b.
Proof. unfold written. rewrite map_app, concat_app. reflexivity. Qed.
Lemma written_nowrite ops : has_write ops = false -> written ops = [].
Proof.
  induction ops as [|o r IH]; [reflexivity|]. cbn [has_write existsb]. intros H. apply orb_false_iff in H. destruct H as [Ho Hr].
  rewrite written_cons, (IH Hr), app_nil_r. destruct o; try reflexivity; discriminate.
Qed.

Lemma arun_ops ops : forall a,
  arun a (List.map IOp ops) = {| a_cfg := a_cfg a; a_closed := a_closed a; a_cur := cur_after (a_cur a) ops |}.
Proof.
  induction ops as [|o r IH]; intros a; cbn [List.map arun fold_left].
  - destruct a; reflexivity.
  - fold (arun (astep a (IOp o)) (List.map IOp r)). rewrite IH. cbn [astep a_cfg a_closed a_cur]. f_equal.
    unfold cur_after, acur. cbn [has_write existsb]. rewrite written_cons.
    destruct (is_write o) eqn:Ew; cbn [orb].
    + fold (has_write r). destruct (has_write r) eqn:Er.
      * destruct (a_cur a); rewrite ?app_assoc; reflexivity.
      * rewrite (written_nowrite r Er), !app_nil_r. destruct (a_cur a); reflexivity.
    + fold (has_write r). assert (Eb : bytes_of o = []) by (destruct o; try reflexivity; discriminate). rewrite Eb. reflexivity.
Qed.
Lemma flat_ops c ops : flat c (List.map IOp ops) = ops.
Proof. induction ops as [|o r IH]; cbn [List.map flat flat1 next_cfg app]; [reflexivity | rewrite IH; reflexivity]. Qed.
Lemma items_ok_ops ops : forall a, Forall wf_op ops -> items_ok a (List.map IOp ops).
Proof.
  induction ops as [|o r IH]; intros a H; cbn [List.map items_ok]; [exact I|].
  inversion H; subst. split; [assumption | apply IH; assumption].
Qed.

(* without removals the files tile the stream *)
Definition no_remove (items : list item) : Prop := Forall (fun it => it <> IRemove) items.
Definition stream (files : list (bytes * bytes)) : bytes := concat (List.map snd files).

Lemma stream_app a b : stream (a ++ b) = stream a ++ stream b.
Proof. unfold stream. rewrite map_app, concat_app. reflexivity. Qed.

Lemma stream_step a it : it <> IRemove ->
  stream (afiles (astep a it)) = stream (afiles a) ++ written (flat1 (a_cfg a) it).
Proof.
  intros Hit. destruct a as [c closed cur]. unfold afiles, afinal.
  destruct it as [o | m | | c2]; cbn [astep a_cfg a_closed a_cur flat1]; [| | contradiction |].
  - unfold acur, written. cbn [List.map concat]. rewrite app_nil_r.
    destruct (is_write o) eqn:Ew.
    + destruct cur as [d|]; rewrite !stream_app; unfold stream; cbn [List.map snd concat]; rewrite ?app_nil_r, ?app_assoc; reflexivity.
    + assert (Eb : bytes_of o = []) by (destruct o; try reflexivity; discriminate). rewrite Eb, app_nil_r. reflexivity.
  - destruct cur as [d|]; cbn [a_cfg a_closed a_cur]; rewrite ?stream_app; unfold stream, written; cbn; rewrite ?app_nil_r; reflexivity.
  - destruct cur as [d|]; cbn [a_cfg a_closed a_cur]; rewrite ?stream_app; unfold stream, written; cbn; rewrite ?app_nil_r; reflexivity.
Qed.

Lemma stream_run items : forall a, no_remove items ->
  stream (afiles (arun a items)) = stream (afiles a) ++ written (flat (a_cfg a) items).
Proof.
  induction items as [|it r IH]; intros a H; cbn [arun fold_left flat].
  - unfold written; cbn. rewrite app_nil_r. reflexivity.
  - inversion H; subst. fold (arun (astep a it) r). rewrite IH, stream_step, written_app, cfg_astep, app_assoc by assumption.
    reflexivity.
Qed.

(* THEOREM 3: an arbitrary alternation of blocks of writes/flushes and switches (rename + reopen, reset): the
   directory consists of a list of files whose contents, concatenated in switch order, are the stream written *)
Theorem switches_tile c t0 off items :
  norot c -> items_ok (astart c) items -> no_remove items ->
  let x := fst (run (sys0 t0 off) (OStart c :: flat c items ++ [OStop])) in
  exists files, dir_is (wfs (s_w x)) files /\ NoDup (List.map fst files)
    /\ stream files = written (flat c items) /\ werrs (s_w x) = [].
Proof.
  intros Hc Hok Hnr. cbv zeta.
  destruct (switches_general c t0 off items Hc Hok) as (D & N & E & _). cbv zeta in *.
  exists (afiles (arun (astart c) items)). split; [exact D|]. split; [exact N|]. split; [|exact E].
  rewrite stream_run by assumption. reflexivity.
Qed.
Print Assumptions switches_tile.

(* a static sufficient condition for items_ok: the names that come into use (targets of renames, file names of the
   new configurations) are pairwise different and different from the first log file name *)
Fixpoint new_names (items : list item) : list bytes :=
  match items with
  | [] => []
  | IRename m :: r => m :: new_names r
  | IReset c2 :: r => logname c2 :: new_names r
  | _ :: r => new_names r
  end.
(* every reset keeps the buffer capacity of the configuration in force (and is synchronous, without rotation) *)
Fixpoint static_ok (c : config) (items : list item) : Prop :=
  match items with
  | [] => True
  | IOp o :: r => wf_op o /\ static_ok c r
  | IReset c2 :: r => (norot c2 /\ c_cap c2 = c_cap c) /\ static_ok c2 r
  | _ :: r => static_ok c r
  end.

Lemma static_items_ok items : forall a, static_ok (a_cfg a) items -> NoDup (new_names items) ->
  (forall n, In n (new_names items) -> n <> logname (a_cfg a) /\ assoc n (a_closed a) = None) ->
  items_ok a items.
Proof.
  induction items as [|it r IH]; intros a Hs N Hf; cbn [items_ok]; [exact I|].
  destruct it as [o | m | | c2]; cbn [new_names static_ok] in *.
  - destruct Hs as [Hit Hr]. split; [exact Hit|]. apply IH; [rewrite cfg_astep; exact Hr | assumption | assumption].
  - inversion N as [|? ? Hm Nr]; subst. destruct (Hf m (or_introl eq_refl)) as [Hm1 Hm2].
    split; [split; assumption|]. apply IH; [rewrite cfg_astep; exact Hs | assumption|].
    intros n Hn. destruct (Hf n (or_intror Hn)) as [Hn1 Hn2]. cbn [astep].
    destruct (a_cur a); cbn [a_cfg a_closed]; [|auto]. split; [exact Hn1|].
    rewrite assoc_snoc_other; [exact Hn2 | intros ->; contradiction].
  - split; [exact I|]. apply IH; [rewrite cfg_astep; exact Hs | assumption|].
    intros n Hn. destruct (Hf n Hn) as [Hn1 Hn2]. cbn [astep]. destruct (a_cur a); cbn [a_cfg a_closed]; auto.
  - destruct Hs as [[Hit Hcap] Hr].
    inversion N as [|? ? Hm Nr]; subst. destruct (Hf _ (or_introl eq_refl)) as [Hm1 Hm2].
    split; [split; [exact Hit | split; [exact Hcap | split; assumption]]|]. apply IH; [exact Hr | assumption|].
    intros n Hn. destruct (Hf n (or_intror Hn)) as [Hn1 Hn2]. cbn [astep a_cfg a_closed].
    split; [intros ->; contradiction|].
    destruct (a_cur a); [|exact Hn2]. rewrite assoc_snoc_other; [exact Hn2 | exact Hn1].
Qed.

Theorem switches_tile_static c t0 off items :
  norot c -> static_ok c items -> NoDup (logname c :: new_names items) -> no_remove items ->
  let x := fst (run (sys0 t0 off) (OStart c :: flat c items ++ [OStop])) in
  exists files, dir_is (wfs (s_w x)) files /\ NoDup (List.map fst files)
    /\ stream files = written (flat c items) /\ werrs (s_w x) = [].
Proof.
  intros Hc Hs N Hnr. apply switches_tile; [exact Hc | | exact Hnr].
  inversion N as [|? ? Hl Nr]; subst. apply static_items_ok; [exact Hs | exact Nr|].
  intros n Hn. cbn [astart a_cfg a_closed]. split; [intros ->; contradiction | reflexivity].
Qed.
Print Assumptions switches_tile_static.

(* ================================================================== 7. one switch: THEOREMS 1 and 2 *)
Lemma flat_block c ops it r :
  flat c (List.map IOp ops ++ it :: r) = ops ++ flat1 c it ++ flat (next_cfg c it) r.
Proof. rewrite flat_app, arun_ops, flat_ops. reflexivity. Qed.

Lemma one_switch c t0 off ops1 it ops2 :
  norot c -> Forall wf_op ops1 -> Forall wf_op ops2 ->
  item_ok {| a_cfg := c; a_closed := []; a_cur := cur_after None ops1 |} it ->
  let x := fst (run (sys0 t0 off) (OStart c :: ops1 ++ flat1 c it ++ ops2 ++ [OStop])) in
  let a1 := astep {| a_cfg := c; a_closed := []; a_cur := cur_after None ops1 |} it in
  dir_is (wfs (s_w x)) (afiles {| a_cfg := a_cfg a1; a_closed := a_closed a1; a_cur := cur_after (a_cur a1) ops2 |})
  /\ werrs (s_w x) = [].
Proof.
  intros Hc H1 H2 Hit. cbv zeta.
  set (items := List.map IOp ops1 ++ it :: List.map IOp ops2).
  assert (Ef : flat c items ++ [OStop] = ops1 ++ flat1 c it ++ ops2 ++ [OStop]).
  { unfold items. rewrite flat_block, flat_ops, <- !app_assoc. reflexivity. }
  assert (Ea : arun (astart c) items
               = let a1 := astep {| a_cfg := c; a_closed := []; a_cur := cur_after None ops1 |} it in
                 {| a_cfg := a_cfg a1; a_closed := a_closed a1; a_cur := cur_after (a_cur a1) ops2 |}).
  { unfold items. rewrite arun_app, arun_ops. cbn [arun fold_left astart a_cfg a_closed a_cur].
    fold (arun (astep {| a_cfg := c; a_closed := []; a_cur := cur_after None ops1 |} it) (List.map IOp ops2)).
    rewrite arun_ops. reflexivity. }
  assert (Hok : items_ok (astart c) items).
  { unfold items. apply items_ok_app. split; [apply items_ok_ops; exact H1|].
    rewrite arun_ops. cbn [astart a_cfg a_closed a_cur items_ok]. split; [exact Hit|]. apply items_ok_ops; exact H2. }
  destruct (switches_general c t0 off items Hc Hok) as (D & _ & E & _). cbv zeta in *.
  rewrite Ef, Ea in *. split; assumption.
Qed.

(* THEOREM 1.  Records are logged (ops1), somebody renames the log file to moved, reopen_outputfile() is called,
   more records are logged (ops2), the writer is dropped.  Then moved holds exactly the records of ops1 - including
   those that were still in the buffer of the writer when the file was reopened -, the file under the original name
   holds exactly the records of ops2, and there is nothing else.
   When ops1 contains no write at all, no file has been opened at the time of the switch: the rename finds nothing,
   reopen_outputfile() does nothing, and the log file is created by the first write of ops2 (if there is one). *)
Theorem reopen_switches c t0 off ops1 ops2 moved :
  norot c -> Forall wf_op ops1 -> Forall wf_op ops2 -> moved <> logname c ->
  let x := fst (run (sys0 t0 off)
                    (OStart c :: ops1 ++ [OExtRename (logname c) moved; OReopen] ++ ops2 ++ [OStop])) in
  dir_is (wfs (s_w x))
         (if has_write ops1 then [(moved, written ops1); (logname c, written ops2)]
          else if has_write ops2 then [(logname c, written ops2)] else [])
  /\ werrs (s_w x) = [].
Proof.
  intros Hc H1 H2 Hm.
  pose proof (one_switch c t0 off ops1 (IRename moved) ops2 Hc H1 H2 (conj Hm eq_refl)) as T.
  cbv zeta in *. cbn [flat1] in T. unfold cur_after in T.
  destruct (has_write ops1) eqn:E1; cbn [astep a_cfg a_closed a_cur app] in T.
  - destruct (has_write ops2) eqn:E2; unfold afiles, afinal in T; cbn [a_cfg a_closed a_cur app] in T; [exact T|].
    rewrite (written_nowrite ops2 E2). exact T.
  - destruct (has_write ops2) eqn:E2; unfold afiles, afinal in T; cbn [a_cfg a_closed a_cur app] in T; exact T.
Qed.
Print Assumptions reopen_switches.

(* the same in terms of what is found under each name *)
Corollary reopen_switches_views c t0 off ops1 ops2 moved :
  norot c -> Forall wf_op ops1 -> Forall wf_op ops2 -> moved <> logname c -> has_write ops1 = true ->
  let f := wfs (s_w (fst (run (sys0 t0 off)
                    (OStart c :: ops1 ++ [OExtRename (logname c) moved; OReopen] ++ ops2 ++ [OStop])))) in
  fview f moved = Some (written ops1) /\ fview f (logname c) = Some (written ops2)
  /\ (forall n, n <> moved -> n <> logname c -> fview f n = None)
  /\ Permutation (dir_names f) [moved; logname c].
Proof.
  intros Hc H1 H2 Hm Hw. destruct (reopen_switches c t0 off ops1 ops2 moved Hc H1 H2 Hm) as [(V & P & _) _].
  cbv zeta in *. rewrite Hw in *. cbn [List.map fst] in P.
  split; [rewrite V, assoc_cons, beq_refl; reflexivity|].
  split; [rewrite V, !assoc_cons, (beq_neq moved (logname c)), beq_refl by exact Hm; reflexivity|].
  split; [|exact P].
  intros n Hn1 Hn2. rewrite V, !assoc_cons, !beq_neq by congruence. reflexivity.
Qed.

(* THEOREM 1'.  The log file is removed instead: the records of ops1 are gone with it (also those that were still
   buffered: they are flushed into the removed file); the new file holds exactly the records of ops2 *)
Theorem reopen_after_remove c t0 off ops1 ops2 :
  norot c -> Forall wf_op ops1 -> Forall wf_op ops2 ->
  let x := fst (run (sys0 t0 off)
                    (OStart c :: ops1 ++ [OExtRemove (logname c); OReopen] ++ ops2 ++ [OStop])) in
  dir_is (wfs (s_w x))
         (if has_write ops1 || has_write ops2 then [(logname c, written ops2)] else [])
  /\ werrs (s_w x) = [].
Proof.
  intros Hc H1 H2.
  pose proof (one_switch c t0 off ops1 IRemove ops2 Hc H1 H2 I) as T.
  cbv zeta in *. cbn [flat1] in T. unfold cur_after in T.
  destruct (has_write ops1) eqn:E1; cbn [astep a_cfg a_closed a_cur app orb] in T |- *.
  - destruct (has_write ops2) eqn:E2; unfold afiles, afinal in T; cbn [a_cfg a_closed a_cur app] in T; [exact T|].
    rewrite (written_nowrite ops2 E2). exact T.
  - destruct (has_write ops2) eqn:E2; unfold afiles, afinal in T; cbn [a_cfg a_closed a_cur app] in T; exact T.
Qed.
Print Assumptions reopen_after_remove.

(* THEOREM 2.  reset to a configuration with another file name: the old file holds exactly the records logged
   before the reset (the old writer is dropped, which flushes its buffer), the new file exactly those logged after
   it.  A file exists only if a record was written to it: the new writer opens its file at the first write.
   (reset is accepted only for the same write mode - assert_write_mode -: both configurations are synchronous by
   norot, and the buffer capacity has to be the same; see reset_other_write_mode_rejected for the other case.) *)
Theorem reset_switches c c2 t0 off ops1 ops2 :
  norot c -> norot c2 -> c_cap c2 = c_cap c -> logname c2 <> logname c -> Forall wf_op ops1 -> Forall wf_op ops2 ->
  let x := fst (run (sys0 t0 off) (OStart c :: ops1 ++ [OReset c2] ++ ops2 ++ [OStop])) in
  dir_is (wfs (s_w x))
         ((if has_write ops1 then [(logname c, written ops1)] else [])
          ++ (if has_write ops2 then [(logname c2, written ops2)] else []))
  /\ werrs (s_w x) = [].
Proof.
  intros Hc Hc2 Hcap Hne H1 H2.
  pose proof (one_switch c t0 off ops1 (IReset c2) ops2 Hc H1 H2 (conj Hc2 (conj Hcap (conj Hne eq_refl)))) as T.
  cbv zeta in *. cbn [flat1] in T. unfold cur_after in T.
  destruct (has_write ops1) eqn:E1; destruct (has_write ops2) eqn:E2;
    cbn [astep a_cfg a_closed a_cur app] in T; unfold afiles, afinal in T; cbn [a_cfg a_closed a_cur app] in T;
    rewrite ?app_nil_r in T; exact T.
Qed.
Print Assumptions reset_switches.

Corollary reset_switches_views c c2 t0 off ops1 ops2 :
  norot c -> norot c2 -> c_cap c2 = c_cap c -> logname c2 <> logname c -> Forall wf_op ops1 -> Forall wf_op ops2 ->
  has_write ops1 = true -> has_write ops2 = true ->
  let f := wfs (s_w (fst (run (sys0 t0 off) (OStart c :: ops1 ++ [OReset c2] ++ ops2 ++ [OStop])))) in
  fview f (logname c) = Some (written ops1) /\ fview f (logname c2) = Some (written ops2)
  /\ (forall n, n <> logname c -> n <> logname c2 -> fview f n = None)
  /\ Permutation (dir_names f) [logname c; logname c2].
Proof.
  intros Hc Hc2 Hcap Hne H1 H2 Hw1 Hw2.
  destruct (reset_switches c c2 t0 off ops1 ops2 Hc Hc2 Hcap Hne H1 H2) as [(V & P & _) _].
  cbv zeta in *. rewrite Hw1, Hw2 in *. cbn [List.map fst app] in *.
  split; [rewrite V, assoc_cons, beq_refl; reflexivity|].
  split; [rewrite V, !assoc_cons, (beq_neq (logname c) (logname c2)), beq_refl by congruence; reflexivity|].
  split; [|exact P].
  intros n Hn1 Hn2. rewrite V, !assoc_cons, !beq_neq by congruence. reflexivity.
Qed.

(* a rejected reset in a history: it is as if it had not been there, all records go on to the old file *)
Lemma run_skip_rejected_reset c c2 t0 off ops1 rest :
  norot c -> c_cap c2 <> c_cap c -> Forall wf_op ops1 ->
  fst (run (sys0 t0 off) (OStart c :: ops1 ++ [OReset c2] ++ rest)) = fst (run (sys0 t0 off) (OStart c :: ops1 ++ rest)).
Proof.
  intros Hc Hcap H1.
  destruct (engine (List.map IOp ops1) (astart c) _ (start_StA c t0 off Hc) (items_ok_ops ops1 _ H1)) as (x1 & o1 & E1 & H).
  cbn [astart a_cfg] in E1. rewrite flat_ops in E1. rewrite arun_ops in H.
  destruct H as (_ & _ & H). cbn [astart a_cfg a_closed a_cur] in H. destruct (St_shape _ _ _ _ H) as (st & w & ->).
  assert (R : forall l, fst (run (sys0 t0 off) (OStart c :: ops1 ++ l)) = fst (run (mksys (mkflw c st) w) l)).
  { intros l.
    change (run (sys0 t0 off) (OStart c :: ops1 ++ l))
      with (let '(x2, obs) := run (mksys (mkflw c Initial) (world0 t0 off)) (ops1 ++ l) in (x2, ObsRes 0%N false :: obs)).
    rewrite run_cat, E1. destruct (run (mksys (mkflw c st) w) l). reflexivity. }
  rewrite !R. cbn [app run]. rewrite (reset_other_write_mode_rejected c c2 st w Hc Hcap).
  destruct (run (mksys (mkflw c st) w) rest). reflexivity.
Qed.

Theorem reset_rejected_keeps_file c c2 t0 off ops1 ops2 :
  norot c -> c_cap c2 <> c_cap c -> Forall wf_op ops1 -> Forall wf_op ops2 ->
  let x := fst (run (sys0 t0 off) (OStart c :: ops1 ++ [OReset c2] ++ ops2 ++ [OStop])) in
  dir_is (wfs (s_w x)) (if has_write (ops1 ++ ops2) then [(logname c, written (ops1 ++ ops2))] else [])
  /\ werrs (s_w x) = [].
Proof.
  intros Hc Hcap H1 H2. cbv zeta. rewrite run_skip_rejected_reset by assumption.
  assert (H12 : Forall wf_op (ops1 ++ ops2)) by (apply Forall_app; split; assumption).
  destruct (switches_general c t0 off (List.map IOp (ops1 ++ ops2)) Hc (items_ok_ops _ _ H12)) as (D & _ & E & _).
  cbv zeta in *. rewrite flat_ops, arun_ops, <- app_assoc in *. split; [|exact E].
  unfold afiles, afinal, cur_after in D. cbn [astart a_cfg a_closed a_cur app] in D.
  destruct (has_write (ops1 ++ ops2)); exact D.
Qed.
Print Assumptions reset_rejected_keeps_file.

(* ================================================================== 8. the statements on concrete histories *)
Definition sw_cfg (base : N) (cap : option nat) : config :=
  {| c_spec := {| fbase := [base]; fdisc := None; fts := false; fsfx := Some [108%N; 111%N; 103%N] |};
     c_append := false; c_cap := cap; c_rot := None; c_utc := false; c_symlink := false; c_bg := false;
     c_async := false; c_start := None |}.
(* the directory: (name, content) in name order *)
Definition dir_list (x : sys) : list (bytes * bytes) :=
  List.map (fun n => (n, content_of (wfs (s_w x)) n)) (sort_names (dir_names (wfs (s_w x)))).
Definition end_of (ops : list op) : sys := fst (run (sys0 0%Z 0%Z) ops).

Definition ex_c := sw_cfg 97%N (Some 8).                    (* a.log, BufWriter with capacity 8 *)
Definition ex_c2 := sw_cfg 98%N (Some 8).                   (* b.log, the same write mode *)
Definition ex_c3 := sw_cfg 98%N None.                       (* b.log, unbuffered: another write mode *)
Definition a_log : bytes := [97; 46; 108; 111; 103]%N.
Definition a_old : bytes := [97; 46; 111; 108; 100]%N.
Definition b_log : bytes := [98; 46; 108; 111; 103]%N.
Definition b_old : bytes := [98; 46; 111; 108; 100]%N.
Definition ex_ops1 : list op := [OWrite [1; 2]%N; OPlain [3]%N; OWrite [4; 5]%N].      (* 5 bytes: all still buffered *)
Definition ex_ops2 : list op := [OWrite [6; 7]%N; OFlush; OWrite [8]%N].

Example ex_names : logname ex_c = a_log /\ logname ex_c2 = b_log.
Proof. split; vm_compute; reflexivity. Qed.

Example ex_hyps : norot ex_c /\ norot ex_c2 /\ Forall wf_op ex_ops1 /\ Forall wf_op ex_ops2
                  /\ a_old <> logname ex_c /\ logname ex_c2 <> logname ex_c
                  /\ has_write ex_ops1 = true /\ has_write ex_ops2 = true
                  /\ c_cap ex_c2 = c_cap ex_c /\ c_cap ex_c3 <> c_cap ex_c.
Proof.
  split; [repeat split|]. split; [repeat split|].
  split; [repeat constructor|]. split; [repeat constructor|].
  split; [intros H; vm_compute in H; discriminate|]. split; [intros H; vm_compute in H; discriminate|].
  split; [reflexivity|]. split; [reflexivity|]. split; [reflexivity | discriminate].
Qed.

(* Theorem 1 on a history: at the time of the rename nothing has reached the file, the five bytes are in the
   buffer; they end up in the renamed file, the records after the reopen in the new a.log *)
Example ex_reopen :
  dir_list (end_of (OStart ex_c :: ex_ops1 ++ [OExtRename a_log a_old])) = [(a_old, [])]
  /\ dir_list (end_of (OStart ex_c :: ex_ops1 ++ [OExtRename a_log a_old; OReopen] ++ ex_ops2 ++ [OStop]))
     = [(a_log, [6; 7; 8]%N); (a_old, [1; 2; 3; 4; 5]%N)]
  /\ written ex_ops1 = [1; 2; 3; 4; 5]%N /\ written ex_ops2 = [6; 7; 8]%N.
Proof. repeat split; vm_compute; reflexivity. Qed.

(* ... and what the theorem says about it *)
Example ex_reopen_thm :
  dir_is (wfs (s_w (end_of (OStart ex_c :: ex_ops1 ++ [OExtRename (logname ex_c) a_old; OReopen] ++ ex_ops2 ++ [OStop]))))
         [(a_old, written ex_ops1); (logname ex_c, written ex_ops2)].
Proof.
  destruct ex_hyps as (Hc & Hc2 & H1 & H2 & Hm & Hne & _).
  exact (proj1 (reopen_switches ex_c 0%Z 0%Z ex_ops1 ex_ops2 a_old Hc H1 H2 Hm)).
Qed.

(* no write before the switch: the rename finds nothing, reopen does nothing *)
Example ex_reopen_early :
  dir_list (end_of (OStart ex_c :: [OFlush] ++ [OExtRename a_log a_old; OReopen] ++ ex_ops2 ++ [OStop]))
  = [(a_log, [6; 7; 8]%N)]
  /\ dir_list (end_of (OStart ex_c :: [OFlush] ++ [OExtRename a_log a_old; OReopen] ++ [OFlush] ++ [OStop])) = [].
Proof. split; vm_compute; reflexivity. Qed.

(* the log file is removed instead: the five buffered bytes are flushed into the removed file *)
Example ex_remove :
  dir_list (end_of (OStart ex_c :: ex_ops1 ++ [OExtRemove a_log; OReopen] ++ ex_ops2 ++ [OStop]))
  = [(a_log, [6; 7; 8]%N)].
Proof. vm_compute; reflexivity. Qed.

(* Theorem 2 on a history: reset from a.log to b.log (both with a buffer of 8 bytes) *)
Example ex_reset :
  dir_list (end_of (OStart ex_c :: ex_ops1)) = [(a_log, [])]
  /\ dir_list (end_of (OStart ex_c :: ex_ops1 ++ [OReset ex_c2] ++ ex_ops2 ++ [OStop]))
     = [(a_log, [1; 2; 3; 4; 5]%N); (b_log, [6; 7; 8]%N)].
Proof. split; vm_compute; reflexivity. Qed.
Example ex_reset_thm :
  dir_is (wfs (s_w (end_of (OStart ex_c :: ex_ops1 ++ [OReset ex_c2] ++ ex_ops2 ++ [OStop]))))
         [(logname ex_c, written ex_ops1); (logname ex_c2, written ex_ops2)].
Proof.
  destruct ex_hyps as (Hc & Hc2 & H1 & H2 & Hm & Hne & _ & _ & Hcap & _).
  exact (proj1 (reset_switches ex_c ex_c2 0%Z 0%Z ex_ops1 ex_ops2 Hc Hc2 Hcap Hne H1 H2)).
Qed.

(* a reset to another write mode: rejected with an error result, the records after it go to a.log as well *)
Example ex_reset_rejected :
  snd (run (sys0 0%Z 0%Z) (OStart ex_c :: ex_ops1 ++ [OReset ex_c3]))
  = [ObsRes 0 false; ObsRes 0 false; ObsRes 0 false; ObsRes 0 false; ObsRes 1 false]
  /\ end_of (OStart ex_c :: ex_ops1 ++ [OReset ex_c3]) = end_of (OStart ex_c :: ex_ops1)
  /\ dir_list (end_of (OStart ex_c :: ex_ops1 ++ [OReset ex_c3] ++ ex_ops2 ++ [OStop]))
     = [(a_log, [1; 2; 3; 4; 5; 6; 7; 8]%N)]
  /\ dir_list (end_of (OStart ex_c :: [OReset ex_c3] ++ ex_ops2 ++ [OStop])) = [(a_log, [6; 7; 8]%N)].
Proof. repeat split; vm_compute; reflexivity. Qed.

(* Theorem 3 on a history with three switches *)
Definition ex_items : list item :=
  List.map IOp ex_ops1 ++ [IRename a_old] ++ List.map IOp ex_ops2 ++ [IReset ex_c2]
  ++ [IOp (OWrite [9; 10]%N); IRename b_old; IOp (OPlain [11]%N)].
Example ex_tile_hyps : static_ok ex_c ex_items /\ NoDup (logname ex_c :: new_names ex_items) /\ no_remove ex_items.
Proof.
  split; [repeat constructor|]. split.
  - vm_compute. repeat constructor; cbn [In]; intros H; repeat (destruct H as [H|H]; [discriminate|]); exact H.
  - repeat constructor; discriminate.
Qed.
Example ex_tile :
  flat ex_c ex_items
  = ex_ops1 ++ [OExtRename a_log a_old; OReopen] ++ ex_ops2 ++ [OReset ex_c2]
    ++ [OWrite [9; 10]%N; OExtRename b_log b_old; OReopen; OPlain [11]%N]
  /\ dir_list (end_of (OStart ex_c :: flat ex_c ex_items ++ [OStop]))
     = [(a_log, [6; 7; 8]%N); (a_old, [1; 2; 3; 4; 5]%N); (b_log, [11]%N); (b_old, [9; 10]%N)]
  /\ afiles (arun (astart ex_c) ex_items)                              (* the same files in switch order *)
     = [(a_old, [1; 2; 3; 4; 5]%N); (a_log, [6; 7; 8]%N); (b_old, [9; 10]%N); (b_log, [11]%N)]
  /\ written (flat ex_c ex_items) = [1; 2; 3; 4; 5; 6; 7; 8; 9; 10; 11]%N.
Proof. repeat split; vm_compute; reflexivity. Qed.

(* ================================================================== 9. the buffered records are in the renamed file at once *)
(* right after reopen_outputfile() has returned (nothing flushed or dropped by the caller yet) the renamed file
   already holds every record of ops1 on disk: the old writer is dropped inside reopen_outputfile(), and its Drop
   flushes the buffer into the inode it has open, which is the renamed file *)
Theorem reopen_flushes_at_once c t0 off ops1 moved :
  norot c -> Forall wf_op ops1 -> moved <> logname c -> has_write ops1 = true ->
  let f := wfs (s_w (fst (run (sys0 t0 off) (OStart c :: ops1 ++ [OExtRename (logname c) moved; OReopen])))) in
  fview f moved = Some (written ops1) /\ fview f (logname c) = Some []
  /\ (forall n, n <> moved -> n <> logname c -> fview f n = None).
Proof.
  intros Hc H1 Hm Hw. cbv zeta.
  set (items := List.map IOp ops1 ++ [IRename moved]).
  assert (Ef : flat c items = ops1 ++ [OExtRename (logname c) moved; OReopen]).
  { unfold items. rewrite flat_block. reflexivity. }
  assert (Ea : arun (astart c) items = {| a_cfg := c; a_closed := [(moved, written ops1)]; a_cur := Some [] |}).
  { unfold items. rewrite arun_app, arun_ops. unfold cur_after. rewrite Hw. reflexivity. }
  assert (Hok : items_ok (astart c) items).
  { unfold items. apply items_ok_app. split; [apply items_ok_ops; exact H1|].
    rewrite arun_ops. cbn [astart a_cfg a_closed a_cur items_ok item_ok]. repeat split. exact Hm. }
  destruct (engine items (astart c) _ (start_StA c t0 off Hc) Hok) as (x1 & o1 & E1 & H). cbn [astart a_cfg] in E1.
  rewrite Ea in H. destruct H as (_ & _ & H). cbn [a_cfg a_closed a_cur] in H.
  assert (R : run (sys0 t0 off) (OStart c :: ops1 ++ [OExtRename (logname c) moved; OReopen]) = (x1, ObsRes 0%N false :: o1)).
  { change (run (sys0 t0 off) (OStart c :: ops1 ++ [OExtRename (logname c) moved; OReopen]))
      with (let '(x2, obs) := run (mksys (mkflw c Initial) (world0 t0 off)) (ops1 ++ [OExtRename (logname c) moved; OReopen]) in
            (x2, ObsRes 0%N false :: obs)).
    rewrite <- Ef, E1. reflexivity. }
  rewrite R. cbn [fst].
  inversion H as [|w wr data I E2 E3]; subst. cbn [mksys s_w].
  destruct I as [Q E Ok Hwr Cur D V Fr]. cbn [app] in *.
  split; [rewrite V by exact Hm; rewrite assoc_cons, beq_refl; reflexivity|].
  split.
  - unfold fview. rewrite Cur. f_equal.
    destruct (content (wfs w) (wino wr)); [reflexivity | discriminate].
  - intros n Hn1 Hn2. rewrite V by exact Hn2. rewrite assoc_cons, beq_neq by congruence. reflexivity.
Qed.
Print Assumptions reopen_flushes_at_once.
