(* Foreign files in the directory, model level: the world primitives, the writer, the listing of the numbered
   files, the cleanup and the state machine of a writer with Numbers naming commute with the embedding of the
   file system into a directory that holds other entries - for every world, faults and kills included. *)
Require Import FL.Base.Bytes FL.Base.BytesFacts FL.Base.PathName FL.Fs.Fs FL.Fs.FsFacts FL.Time.Civil FL.Time.TsFormat
  FL.Names.FileSpec FL.Names.NamesFacts FL.Names.SortFacts FL.Names.FamilyFacts
  FL.Flw.Model FL.Flw.ModelFacts FL.Flw.NumFs FL.Flw.NumInv FL.Flw.NumListing FL.Flw.CleanupFacts
  FL.Flw.ForeignFs FL.Flw.ForeignSort.
Open Scope nat_scope.

(* the family test of the model for Numbers naming: the name is listed as a numbered file, plain or compressed,
   or it is the current file *)
Definition num_member (c : config) (n : bytes) : bool :=
  qf 0 (fsfx (c_spec c)) (fixed0 c) IFNum (fsfx (c_spec c)) n
  || qf 0 (fsfx (c_spec c)) (fixed0 c) IFNum (Some gz_sfx) n
  || beq n (cname c).

Lemma qf_num_off off sp_sfx fixed o n : qf off sp_sfx fixed IFNum o n = qf 0 sp_sfx fixed IFNum o n.
Proof. unfold qf. destruct (infix_candidate sp_sfx o fixed n); reflexivity. Qed.

(* (the number filter: "r" and one or more digits, nothing else; what follows the infix - y - is the restart part,
   the suffix, ".gz") *)
Lemma qf_num_shape off sp_sfx fixed o n : qf off sp_sfx fixed IFNum o n = true ->
  exists ds y, ds <> [] /\ all_digits ds = true /\ n = under fixed ++ r_char :: ds ++ y.
Proof.
  unfold qf. destruct (infix_candidate sp_sfx o fixed n) as [infix|] eqn:E; [|discriminate].
  apply infix_candidate_prefix in E. destruct E as [y E]. intros Hf. apply filter_num_spec in Hf.
  destruct Hf as [ds [-> [Hne Hd]]]. exists ds, y. split; [exact Hne|]. split; [exact Hd|]. rewrite E. reflexivity.
Qed.

(* the archive name of a listed plain file is listed among the archives (the suffix of the family must not be "gz":
   then the listing of the archives takes the plain files, too) *)
Lemma qf_plain_gz_name off sp fixed flt n : fsfx sp <> Some gz_sfx ->
  qf off (fsfx sp) fixed flt (fsfx sp) n = true -> qf off (fsfx sp) fixed flt (Some gz_sfx) (gz_name n) = true.
Proof.
  intros Hs. rewrite gz_name_app. unfold qf. rewrite infix_candidate_plain. unfold infix_candidate, dot_gz.
  rewrite strip_suffix_app. destruct (fsfx sp) as [s|].
  - assert (Eb : beq s gz_sfx = false) by (apply beq_neq; congruence).
    change [103%N; 122%N] with gz_sfx. rewrite Eb. cbn [beq gz_sfx N.eqb Pos.eqb andb negb].
    destruct (strip_suffix (dot :: s) n) as [st|]; [|discriminate]. unfold cand_core. intros H. exact H.
  - unfold cand_core. intros H. exact H.
Qed.

(* a name that is listed as an archive of a numbered file has the extension gz *)
Lemma qf_gz_ext off sp_sfx fixed n : qf off sp_sfx fixed IFNum (Some gz_sfx) n = true -> ext_is n gz_sfx = true.
Proof.
  intros H. destruct (qf_num_shape off sp_sfx fixed (Some gz_sfx) n H) as [ds [y [Hne [_ Shape]]]].
  destruct ds as [|d ds]; [congruence|]. clear Hne.
  unfold qf in H. destruct (infix_candidate sp_sfx (Some gz_sfx) fixed n) as [infix|] eqn:E; [|discriminate].
  unfold infix_candidate in E. destruct (strip_suffix (dot :: gz_sfx) n) as [stem|] eqn:Es; [|discriminate].
  apply strip_suffix_spec in Es. fold dot_gz in Es. rewrite Es, <- gz_name_app. apply ext_is_gz_name.
  intros ->. cbn [app] in Es. rewrite Es in Shape. unfold under in Shape. destruct fixed as [|f0 fr].
  - cbn [app] in Shape. unfold dot_gz in Shape. injection Shape as Shape _. discriminate.
  - apply (f_equal (@length N)) in Shape. cbn [app] in Shape. rewrite ?app_length in Shape. cbn [length dot_gz gz_sfx] in Shape. rewrite ?app_length in Shape. cbn [length] in Shape. lia.
Qed.

Section EmbedModel.
Variable fn : list (bytes * nat).
Variable fi : list file.
Notation emb := (embed fn fi).
Notation fnm := (fnames fn).
Notation k := (fk fi).

Definition embedw (w : world) : world := set_fs w (emb (wfs w)).
Definition shwr (wr : writer) : writer := {| wino := k + wino wr; wpend := wpend wr; wcap := wcap wr |}.
Definition lw {A} (p : A * world) : A * world := (fst p, embedw (snd p)).
Definition lw3 (p : bool * world * writer) : bool * world * writer :=
  let '(ok, w1, wr1) := p in (ok, embedw w1, shwr wr1).

(* ------------------------------------------------------------------ the world *)
Lemma tick_embed w : tick (embedw w) = lw (tick w).
Proof. unfold tick. cbn [embedw set_fs wfaults]. destruct (wfaults w); reflexivity. Qed.

Lemma effect_embed w (g gF : fs -> fs) : (forall f, gF (emb f) = emb (g f)) -> effect (embedw w) gF = embedw (effect w g).
Proof.
  intros H. unfold effect, kill_step. cbn [embedw set_fs wkill wfs].
  destruct (wkill w) as [[|[|j]]|]; unfold embedw, set_kill, set_fs; cbn; rewrite ?H; reflexivity.
Qed.

Lemma report_embed e w : report e (embedw w) = embedw (report e w).
Proof. unfold report. cbn [embedw set_fs wkill]. destruct (wkill w) as [[|j]|]; reflexivity. Qed.

Lemma p_write_embed w i b : p_write (embedw w) (k + i) b = lw (p_write w i b).
Proof.
  unfold p_write. destruct b as [|x b]; [reflexivity|]. rewrite tick_embed. destruct (tick w) as [flt w1]. cbn [lw fst snd].
  destruct flt; [reflexivity|]. unfold lw. cbn [fst snd]. f_equal. apply effect_embed. intros f. apply append_ino_embed.
Qed.

Lemma p_rename_embed w a b : ~ In a fnm -> ~ In b fnm -> p_rename (embedw w) a b = lw (p_rename w a b).
Proof.
  intros Ha Hb. unfold p_rename. rewrite tick_embed. destruct (tick w) as [flt w1]. cbn [lw fst snd].
  destruct flt; [reflexivity|]. change (wfs (embedw w1)) with (emb (wfs w1)). rewrite rename_embed by assumption.
  destruct (rename (wfs w1) a b) as [f'|]; [|reflexivity]. unfold lw. cbn [fst snd]. f_equal. apply effect_embed.
  intros f. rewrite rename_embed by assumption. destruct (rename f a b); reflexivity.
Qed.

Definition shino (o : option nat) : option nat := match o with Some i => Some (k + i) | None => None end.

Lemma p_open_embed w name app : ~ In name fnm ->
  p_open (embedw w) name app = (shino (fst (p_open w name app)), embedw (snd (p_open w name app))).
Proof.
  intros Hn. unfold p_open. rewrite tick_embed. destruct (tick w) as [flt w1]. cbn [lw fst snd].
  destruct flt; [reflexivity|]. change (wfs (embedw w1)) with (emb (wfs w1)). change (wnow (embedw w1)) with (wnow w1).
  rewrite file_of_embed_own by exact Hn.
  destruct (match file_of (wfs w1) name with Some fl => fdir fl | None => false end); [reflexivity|].
  cbn [fst snd shino]. destruct app.
  - rewrite open_append_embed by exact Hn. cbn [snd]. f_equal. apply effect_embed. intros f.
    rewrite open_append_embed by exact Hn. reflexivity.
  - rewrite open_trunc_embed by exact Hn. cbn [snd]. f_equal. apply effect_embed. intros f.
    rewrite open_trunc_embed by exact Hn. reflexivity.
Qed.

Lemma birth_or_now_embed w name : ~ In name fnm -> birth_or_now (embedw w) name = birth_or_now w name.
Proof.
  intros Hn. unfold birth_or_now. change (wfs (embedw w)) with (emb (wfs w)). rewrite file_of_embed_own by exact Hn. reflexivity.
Qed.

Lemma rotation_necessary_embed w r : rotation_necessary (embedw w) r = rotation_necessary w r.
Proof. destruct r; reflexivity. Qed.

Lemma reset_size_and_date_embed w r path : ~ In path fnm ->
  reset_size_and_date (embedw w) r path = reset_size_and_date w r path.
Proof. intros Hn. destruct r; cbn [reset_size_and_date]; rewrite ?birth_or_now_embed by exact Hn; reflexivity. Qed.

Lemma name_of_embed c w o : name_of c (embedw w) o = name_of c w o.
Proof. reflexivity. Qed.

Lemma p_remove_embed w a : ~ In a fnm -> p_remove (embedw w) a = lw (p_remove w a).
Proof.
  intros Ha. unfold p_remove. rewrite tick_embed. destruct (tick w) as [flt w1]. cbn [lw fst snd].
  destruct flt; [reflexivity|]. change (wfs (embedw w1)) with (emb (wfs w1)). rewrite lookup_embed_own by exact Ha.
  destruct (lookup (wfs w1) a) as [i|]; [|reflexivity]. unfold lw. cbn [fst snd]. f_equal. apply effect_embed.
  intros f. apply unlink_embed. exact Ha.
Qed.

Lemma set_gz_embed f i st d : set_gz (emb f) (k + i) st d = emb (set_gz f i st d).
Proof. unfold set_gz. rewrite inode_embed. unfold embed. cbn [names inodes]. rewrite upd_embed. reflexivity. Qed.

Lemma compress_file_embed w n : ~ In n fnm -> ~ In (gz_name n) fnm ->
  compress_file (embedw w) n = lw (compress_file w n).
Proof.
  intros Hn Hg. unfold compress_file. rewrite tick_embed. destruct (tick w) as [flt1 w1]. cbn [lw fst snd].
  destruct flt1; [reflexivity|]. change (wfs (embedw w1)) with (emb (wfs w1)). change (wnow (embedw w1)) with (wnow w1).
  rewrite file_of_embed_own by exact Hg.
  destruct (match file_of (wfs w1) (gz_name n) with Some fl => fdir fl | None => false end); [reflexivity|].
  rewrite open_trunc_embed by exact Hg. cbn [snd].
  set (ino := snd (open_trunc (wfs w1) (gz_name n) 2 (wnow w1))).
  rewrite (effect_embed w1 (fun f => fst (open_trunc f (gz_name n) 2 (wnow w1))) (fun f => fst (open_trunc f (gz_name n) 2 (wnow w1))))
    by (intros f; rewrite open_trunc_embed by exact Hg; reflexivity).
  rewrite tick_embed. destruct (tick (effect w1 (fun f => fst (open_trunc f (gz_name n) 2 (wnow w1))))) as [flt2 w3]. cbn [lw fst snd].
  assert (Ed : forall w' d, effect (embedw w') (fun f => set_gz f (k + ino) 1 d) = embedw (effect w' (fun f => set_gz f ino 1 d))).
  { intros w' d. apply effect_embed. intros f. apply set_gz_embed. }
  destruct flt2; [rewrite Ed; reflexivity|].
  change (wfs (embedw w3)) with (emb (wfs w3)). rewrite lookup_embed_own by exact Hn.
  destruct (lookup (wfs w3) n) as [src|]; [|rewrite Ed; reflexivity].
  rewrite content_embed. rewrite tick_embed. destruct (tick w3) as [flt3 w4]. cbn [lw fst snd].
  destruct flt3; [rewrite Ed; reflexivity|].
  rewrite (effect_embed w4 (fun f => f) (fun f => f)) by reflexivity.
  rewrite tick_embed. destruct (tick (effect w4 (fun f => f))) as [flt4 w6]. cbn [lw fst snd].
  destruct flt4; [rewrite Ed; reflexivity|]. rewrite Ed. apply p_remove_embed. exact Hn.
Qed.

Lemma cleanup_loop_embed ll total cur : forall files w idx,
  (forall n, In n files -> ~ In n fnm /\ (ext_is n gz_sfx = true \/ ~ In (gz_name n) fnm)) ->
  cleanup_loop (embedw w) files idx ll total cur = lw (cleanup_loop w files idx ll total cur).
Proof.
  induction files as [|n r IH]; intros w idx H; [reflexivity|]. cbn [cleanup_loop].
  destruct (H n (or_introl eq_refl)) as [Hn Hg].
  assert (Hr : forall m, In m r -> ~ In m fnm /\ (ext_is m gz_sfx = true \/ ~ In (gz_name m) fnm)) by (intros m Hm; apply H; right; exact Hm).
  destruct (match cur with Some p => beq p n | None => false end); [apply IH; exact Hr|].
  assert (Hc : ext_is n gz_sfx = false -> compress_file (embedw w) n = lw (compress_file w n)).
  { intros E. apply compress_file_embed; [exact Hn|]. destruct Hg as [Hg|Hg]; [congruence | exact Hg]. }
  destruct (Nat.leb total idx).
  - rewrite p_remove_embed by exact Hn. destruct (p_remove w n) as [ok w1]. cbn [lw fst snd]. destruct ok; [|reflexivity].
    apply IH. exact Hr.
  - destruct (Nat.leb ll idx); [|apply IH; exact Hr]. unfold ext_is in Hc. destruct (extension n) as [e|].
    + destruct (beq e gz_sfx); [apply IH; exact Hr|]. rewrite Hc by reflexivity.
      destruct (compress_file w n) as [ok w1]. cbn [lw fst snd]. destruct ok; [|reflexivity]. apply IH. exact Hr.
    + rewrite Hc by reflexivity.
      destruct (compress_file w n) as [ok w1]. cbn [lw fst snd]. destruct ok; [|reflexivity]. apply IH. exact Hr.
Qed.

Lemma remove_redundant_embed : forall red w files, (forall n, In n red -> ~ In n fnm) ->
  remove_redundant (embedw w) red files = (let '(ok, w1, fl) := remove_redundant w red files in (ok, embedw w1, fl)).
Proof.
  induction red as [|n r IH]; intros w files H; [reflexivity|]. cbn [remove_redundant].
  rewrite p_remove_embed by (apply H; left; reflexivity). destruct (p_remove w n) as [ok w1]. cbn [lw fst snd].
  destruct ok; [|reflexivity]. apply IH. intros m Hm. apply H. right. exact Hm.
Qed.

Lemma remove_redundant_incl : forall red w files ok w1 fl,
  remove_redundant w red files = (ok, w1, fl) -> forall n, In n fl -> In n files.
Proof.
  induction red as [|m r IH]; intros w files ok w1 fl H n Hn; cbn [remove_redundant] in H.
  - injection H as _ _ <-. exact Hn.
  - destruct (p_remove w m) as [ok' w']. destruct ok'.
    + apply (IH _ _ _ _ _ H) in Hn. apply filter_In in Hn. apply Hn.
    + injection H as _ _ <-. exact Hn.
Qed.

(* ------------------------------------------------------------------ the writer *)
Lemma w_flush_embed w wr : w_flush (embedw w) (shwr wr) = lw3 (w_flush w wr).
Proof.
  unfold w_flush. cbn [shwr wino wpend wcap]. rewrite p_write_embed. destruct (p_write w (wino wr) (wpend wr)) as [ok w1].
  cbn [lw fst snd]. destruct ok; reflexivity.
Qed.

Lemma w_write_embed w wr b : w_write (embedw w) (shwr wr) b = lw3 (w_write w wr b).
Proof.
  unfold w_write. change (wcap (shwr wr)) with (wcap wr). change (wpend (shwr wr)) with (wpend wr).
  change (wino (shwr wr)) with (k + wino wr). destruct (wcap wr) as [cp|] eqn:Ecap.
  - destruct (Nat.ltb (length b) (cp - length (wpend wr))); [reflexivity|].
    destruct (Nat.ltb (cp - length (wpend wr)) (length b)).
    + rewrite w_flush_embed.
      destruct (w_flush w wr) as [[ok1 w1] wr1]. cbn [lw3]. destruct ok1; [|reflexivity].
      destruct (Nat.leb cp (length b)); [|reflexivity]. cbn [shwr wino]. rewrite p_write_embed.
      destruct (p_write w1 (wino wr1) b) as [ok w2]. reflexivity.
    + cbv iota beta. destruct (Nat.leb cp (length b)); [|reflexivity]. change (wino (shwr wr)) with (k + wino wr). rewrite p_write_embed.
      destruct (p_write w (wino wr) b) as [ok w2]. reflexivity.
  - rewrite p_write_embed. destruct (p_write w (wino wr) b) as [ok w1]. reflexivity.
Qed.

Lemma w_drop_embed w wr : w_drop (embedw w) (shwr wr) = embedw (w_drop w wr).
Proof. unfold w_drop. rewrite w_flush_embed. destruct (w_flush w wr) as [[ok w1] wr1]. reflexivity. Qed.

(* ------------------------------------------------------------------ the listing *)
Lemma filter_related_embed f sfx fixed (q : bytes -> bool) : (forall n, In n fnm -> q n = false) ->
  filter q (related_files (emb f) sfx fixed) = filter q (related_files f sfx fixed).
Proof.
  intros Hq. unfold related_files. rewrite !filter_rev_comm. f_equal.
  rewrite dir_names_embed, filter_app.
  rewrite (filter_ext_in (fun n => is_reg_file (emb f) n && is_prefix fixed n) (fun n => is_reg_file f n && is_prefix fixed n) (dir_names f)).
  - apply filter_sort_by_key_app. intros b Hb. apply filter_In in Hb. apply Hq. apply Hb.
  - intros n Hn. apply dir_names_lookup in Hn. destruct Hn as [j Hj]. unfold is_reg_file.
    rewrite (file_of_embed_known fn fi f n j Hj). reflexivity.
Qed.

Section Cfg.
Variable c : config.
Variable crit : criterion.
Variable kc : cleanup.
(* Numbers naming with cleanup strategy kc, no start-time part in the names, no symlink; with a cleanup: no cleanup
   thread, and the suffix is not "gz" *)
Hypothesis Hrot : c_rot c = Some (crit, NNumbers, kc).
Hypothesis Hts : fts (c_spec c) = false.
Hypothesis Hlink : c_symlink c = false.
Hypothesis Hk : kc = KNever \/ (c_bg c = false /\ fsfx (c_spec c) <> Some gz_sfx).
(* no entry of the stock is a member of the family of c *)
Hypothesis Hforeign : forall n, In n fnm -> num_member c n = false.

Lemma foreign_plain off n : In n fnm -> qf off (fsfx (c_spec c)) (fixed0 c) IFNum (fsfx (c_spec c)) n = false.
Proof. intros H. apply Hforeign in H. unfold num_member in H. rewrite qf_num_off. rewrite !orb_false_iff in H. apply H. Qed.
Lemma foreign_gz off n : In n fnm -> qf off (fsfx (c_spec c)) (fixed0 c) IFNum (Some gz_sfx) n = false.
Proof. intros H. apply Hforeign in H. unfold num_member in H. rewrite qf_num_off. rewrite !orb_false_iff in H. apply H. Qed.
Lemma cname_own : ~ In (cname c) fnm.
Proof. intros H. apply Hforeign in H. unfold num_member in H. rewrite beq_refl, orb_true_r in H. discriminate. Qed.
Lemma rname_own idx : ~ In (nm c (number_infix idx)) fnm.
Proof.
  intros H. pose proof (foreign_plain 0%Z _ H) as Q. pose proof (qf_rname 0%Z c (N.to_nat idx)) as Q'.
  unfold rname in Q'. rewrite N2Nat.id in Q'. congruence.
Qed.

Lemma fixed_of_embed w : fixed_of c w = fixed0 c.
Proof. unfold fixed_of, fixed0, fixed_name_part. rewrite Hts. reflexivity. Qed.

Lemma list_log_gz_embed off f :
  list_log_gz off (c_spec c) (fixed0 c) (emb f) IFNum = list_log_gz off (c_spec c) (fixed0 c) f IFNum.
Proof.
  unfold list_log_gz, existing_rot, sel_log_gz. cbn [sel_plain sel_gz sel_rcur sel_custom].
  rewrite !filter_files_total.
  rewrite !(filter_related_embed f (fsfx (c_spec c)) (fixed0 c)); [reflexivity | |].
  - intros n Hn. apply foreign_gz. exact Hn.
  - intros n Hn. apply foreign_plain. exact Hn.
Qed.

Lemma get_highest_index_embed off f :
  get_highest_index off (c_spec c) (fixed0 c) (emb f) = get_highest_index off (c_spec c) (fixed0 c) f.
Proof. unfold get_highest_index. rewrite list_log_gz_embed. reflexivity. Qed.

(* every listed name is a member of the family, and so is the name of its archive, unless it is an archive itself *)
Lemma listed_own off f files : fsfx (c_spec c) <> Some gz_sfx ->
  list_log_gz off (c_spec c) (fixed0 c) f IFNum = Some files ->
  forall n, In n files -> ~ In n fnm /\ (ext_is n gz_sfx = true \/ ~ In (gz_name n) fnm).
Proof.
  intros Hs. unfold list_log_gz, existing_rot, sel_log_gz. cbn [sel_plain sel_gz sel_rcur sel_custom].
  rewrite !filter_files_total. cbn [app_opt]. intros E. injection E as <-. intros n Hn. rewrite !app_nil_r in Hn.
  apply in_app_or in Hn. destruct Hn as [Hn|Hn]; apply filter_In in Hn; destruct Hn as [_ Q].
  - split.
    + intros Hf. rewrite (foreign_plain off n Hf) in Q. discriminate.
    + right. intros Hf. pose proof (qf_plain_gz_name off (c_spec c) (fixed0 c) IFNum n Hs Q) as Q'.
      rewrite (foreign_gz off _ Hf) in Q'. discriminate.
  - split.
    + intros Hf. rewrite (foreign_gz off n Hf) in Q. discriminate.
    + left. eapply qf_gz_ext. exact Q.
Qed.

Lemma with_listing_embed {A} w (g gF : world -> option A) : (forall w', gF (embedw w') = g w') ->
  with_listing (embedw w) gF = lw (with_listing w g).
Proof.
  intros H. unfold with_listing. rewrite tick_embed. destruct (tick w) as [fl w1]. cbn [lw fst snd].
  destruct fl; [reflexivity|]. rewrite H. destruct (g w1); reflexivity.
Qed.

(* ------------------------------------------------------------------ the state machine *)
Lemma index_for_rcurrent_embed w o rot :
  index_for_rcurrent c (embedw w) o rot = lw (index_for_rcurrent c w o rot).
Proof.
  unfold index_for_rcurrent.
  assert (E0 : (match o with
                | Some i => (Ok i, embedw w)
                | None => with_listing (embedw w) (fun w' =>
                            match get_highest_index (woff w') (c_spec c) (fixed_of c w') (wfs w') with
                            | None => None | Some (Some i) => Some (i + 1)%N | Some None => Some 0%N end)
                end)
               = lw (match o with
                     | Some i => (Ok i, w)
                     | None => with_listing w (fun w' =>
                                 match get_highest_index (woff w') (c_spec c) (fixed_of c w') (wfs w') with
                                 | None => None | Some (Some i) => Some (i + 1)%N | Some None => Some 0%N end)
                     end)).
  { destruct o as [i|]; [reflexivity|]. apply with_listing_embed. intros w'.
    rewrite !fixed_of_embed. change (wfs (embedw w')) with (emb (wfs w')). change (woff (embedw w')) with (woff w').
    rewrite get_highest_index_embed. reflexivity. }
  rewrite E0. clear E0.
  destruct (match o with
            | Some i => (Ok i, w)
            | None => with_listing w (fun w' =>
                        match get_highest_index (woff w') (c_spec c) (fixed_of c w') (wfs w') with
                        | None => None | Some (Some i) => Some (i + 1)%N | Some None => Some 0%N end)
            end) as [r0 w0].
  cbn [lw fst snd]. destruct r0 as [idx| |]; [|reflexivity|reflexivity].
  destruct rot; [|reflexivity].
  rewrite !name_of_embed, !(name_of_fixed c w0) by exact Hts.
  rewrite p_rename_embed; [|exact cname_own | apply rname_own].
  destruct (p_rename w0 (as_name (c_spec c) (fixed0 c) (Some cur_infix)) (as_name (c_spec c) (fixed0 c) (Some (number_infix idx)))) as [r w1].
  cbn [lw fst snd]. destruct r; reflexivity.
Qed.

Definition shwp (r : res (writer * bytes)) : res (writer * bytes) :=
  match r with Ok (wr, p) => Ok (shwr wr, p) | Err => Err | Panic => Panic end.

Lemma open_log_file_embed w infix : ~ In (name_of c w (Some infix)) fnm ->
  open_log_file c (embedw w) (Some infix) = (shwp (fst (open_log_file c w (Some infix))), embedw (snd (open_log_file c w (Some infix)))).
Proof.
  intros Hn. unfold open_log_file, do_symlink. rewrite Hlink. rewrite name_of_embed.
  rewrite p_open_embed by exact Hn.
  destruct (p_open w (name_of c w (Some infix)) (c_append c)) as [o w2]. cbn [fst snd]. destruct o; reflexivity.
Qed.

Lemma open_log_file_path w o wr p w' : open_log_file c w o = (Ok (wr, p), w') -> p = name_of c w o.
Proof.
  unfold open_log_file. destruct (p_open (do_symlink c w (name_of c w o)) (name_of c w o) (c_append c)) as [[i|] w2]; [|discriminate].
  intros H. injection H as _ <- _. reflexivity.
Qed.

Lemma roll_new_embed w append path : ~ In path fnm ->
  roll_new (embedw w) crit append path = lw (roll_new w crit append path).
Proof.
  intros Hn. unfold roll_new. destruct append.
  - rewrite tick_embed. destruct (tick w) as [fl w']. cbn [lw fst snd]. destruct fl; [reflexivity|].
    change (wfs (embedw w')) with (emb (wfs w')). rewrite file_of_embed_own by exact Hn.
    destruct (file_of (wfs w') path); [|reflexivity]. rewrite birth_or_now_embed by exact Hn. reflexivity.
  - rewrite birth_or_now_embed by exact Hn. reflexivity.
Qed.

Definition shin (st : inner) : inner :=
  match st with Initial => Initial | Active o wr p => Active o (shwr wr) p end.
Definition shres (r : res inner) : res inner :=
  match r with Ok i => Ok (shin i) | Err => Err | Panic => Panic end.

Lemma cname_name_of w : name_of c w (Some cur_infix) = cname c.
Proof. rewrite name_of_fixed by exact Hts. reflexivity. Qed.

(* ---- the cleanup ---- *)
Lemma cleanup_body_embed w ll total : fsfx (c_spec c) <> Some gz_sfx ->
  (let '(fl, w1) := tick (embedw w) in
   if fl then (@Err unit, w1) else
   match list_log_gz (woff w1) (c_spec c) (fixed_of c w1) (wfs w1) IFNum with
   | None => (Panic, w1)
   | Some files =>
     let '(ok0, w1', files') := remove_redundant w1 (redundant_gz files) files in
     if negb ok0 then (Err, w1') else
     let '(ok, w2) := cleanup_loop w1' files' 0 ll total None in
     ((if ok then Ok tt else Err), w2)
   end)
  = lw (let '(fl, w1) := tick w in
        if fl then (@Err unit, w1) else
        match list_log_gz (woff w1) (c_spec c) (fixed_of c w1) (wfs w1) IFNum with
        | None => (Panic, w1)
        | Some files =>
          let '(ok0, w1', files') := remove_redundant w1 (redundant_gz files) files in
          if negb ok0 then (Err, w1') else
          let '(ok, w2) := cleanup_loop w1' files' 0 ll total None in
          ((if ok then Ok tt else Err), w2)
        end).
Proof.
  intros Hs. rewrite tick_embed. destruct (tick w) as [fl w1]. cbn [lw fst snd]. destruct fl; [reflexivity|].
  rewrite !fixed_of_embed. change (wfs (embedw w1)) with (emb (wfs w1)). change (woff (embedw w1)) with (woff w1).
  rewrite list_log_gz_embed.
  destruct (list_log_gz (woff w1) (c_spec c) (fixed0 c) (wfs w1) IFNum) as [files|] eqn:El; [|reflexivity].
  pose proof (listed_own _ _ _ Hs El) as Hown.
  rewrite remove_redundant_embed by (intros n Hn; unfold redundant_gz in Hn; apply filter_In in Hn; apply Hown; apply Hn).
  destruct (remove_redundant w1 (redundant_gz files) files) as [[ok0 w1'] files'] eqn:Er.
  destruct ok0; cbn [negb]; [|reflexivity].
  rewrite cleanup_loop_embed by (intros n Hn; apply Hown; eapply remove_redundant_incl; eassumption).
  destruct (cleanup_loop w1' files' 0 ll total None) as [ok w2]. reflexivity.
Qed.

Lemma cleanup_impl_embed w : cleanup_impl c (embedw w) kc IFNum None = lw (cleanup_impl c w kc IFNum None).
Proof.
  destruct Hk as [->|[_ Hs]]; [reflexivity|].
  unfold cleanup_impl. destruct kc as [|a|b|a b]; [reflexivity| | |]; cbn [andb]; apply cleanup_body_embed; exact Hs.
Qed.

Lemma cleanup_match (w3 : world) flt d :
  match kc with KNever => (Ok tt, w3) | _ => cleanup_impl c w3 kc flt d end = cleanup_impl c w3 kc flt d.
Proof. destruct kc; reflexivity. Qed.

Lemma bg_false : match kc with KNever => false | _ => c_bg c end = false.
Proof. destruct Hk as [->|[Hb _]]; [reflexivity|]. destruct kc; [reflexivity | exact Hb | exact Hb | exact Hb]. Qed.

Lemma initialize_embed w :
  initialize c (embedw w) = (shres (fst (initialize c w)), embedw (snd (initialize c w))).
Proof.
  unfold initialize. rewrite Hrot. unfold init_naming.
  rewrite index_for_rcurrent_embed. destruct (index_for_rcurrent c w None (negb (c_append c))) as [r w1].
  destruct r as [idx| |]; cbn [lw fst snd bind]; [|reflexivity|reflexivity].
  assert (Hn : ~ In (name_of c w1 (Some cur_infix)) fnm) by (rewrite cname_name_of; exact cname_own).
  rewrite open_log_file_embed by exact Hn.
  destruct (open_log_file c w1 (Some cur_infix)) as [r2 w2] eqn:Eo. cbn [fst snd].
  destruct r2 as [[wr path]| |]; cbn [shwp bind]; [|reflexivity|reflexivity].
  apply open_log_file_path in Eo. subst path.
  rewrite roll_new_embed by exact Hn.
  destruct (roll_new w2 crit (c_append c) (name_of c w1 (Some cur_infix))) as [r3 w3]. cbn [lw fst snd].
  destruct r3 as [roll| |]; cbn [lw fst snd bind]; [|reflexivity|reflexivity].
  cbn [ns_filter naming_writes_direct]. rewrite !cleanup_match, cleanup_impl_embed, bg_false.
  destruct (cleanup_impl c w3 kc IFNum None) as [r4 w4]. cbn [lw fst snd]. destruct r4; reflexivity.
Qed.

(* the states of a writer with Numbers naming and the cleanup strategy kc (no cleanup thread) *)
Definition good_inner (st : inner) : Prop :=
  match st with
  | Active (Some rs) _ _ => (exists idx, rs_naming rs = NSNumR idx) /\ rs_cleanup rs = kc /\ rs_bg rs = false
  | _ => True
  end.

Lemma initialize_good w i w' : initialize c w = (Ok i, w') -> good_inner i.
Proof.
  unfold initialize. rewrite Hrot. unfold init_naming.
  destruct (index_for_rcurrent c w None (negb (c_append c))) as [[idx| |] w1]; cbn [bind]; try discriminate.
  destruct (open_log_file c w1 (Some cur_infix)) as [[[wr path]| |] w2]; cbn [bind]; try discriminate.
  destruct (roll_new w2 crit (c_append c) path) as [[roll| |] w3]; cbn [bind]; try discriminate.
  rewrite cleanup_match, bg_false. destruct (cleanup_impl c w3 kc (ns_filter (NSNumR idx)) (if naming_writes_direct NNumbers then Some path else None)) as [[u| |] w4];
    cbn [bind]; try discriminate.
  intros H. injection H as <- _. cbn. split; [eauto | split; reflexivity].
Qed.

Definition lm (p : res unit * world * inner) : res unit * world * inner :=
  let '(r, w1, st1) := p in (r, embedw w1, shin st1).

Lemma mount_next_embed w st force : good_inner st ->
  mount_next c (embedw w) (shin st) force = lm (mount_next c w st force).
Proof.
  intros G. destruct st as [|[rs|] wr path]; try reflexivity.
  destruct G as [[idx En] [Ek Eb]]. destruct rs as [ns roll kc0 bg]. cbn [rs_naming rs_cleanup rs_bg] in En, Ek, Eb. subst ns kc0 bg.
  unfold mount_next. cbn [shin rs_roll rs_naming rs_cleanup rs_bg]. rewrite rotation_necessary_embed.
  destruct (force || rotation_necessary w roll); [|reflexivity].
  rewrite index_for_rcurrent_embed. destruct (index_for_rcurrent c w (Some idx) true) as [r w1]. cbn [lw fst snd].
  destruct r as [idx'| |]; [|reflexivity|reflexivity].
  assert (Hn : ~ In (name_of c w1 (Some cur_infix)) fnm) by (rewrite cname_name_of; exact cname_own).
  rewrite open_log_file_embed by exact Hn.
  destruct (open_log_file c w1 (Some cur_infix)) as [r2 w2] eqn:Eo. cbn [fst snd].
  destruct r2 as [[wr' path']| |]; cbn [shwp]; [|reflexivity|reflexivity].
  apply open_log_file_path in Eo. subst path'.
  rewrite w_flush_embed. destruct (w_flush w2 wr) as [[okf w2a] wra]. cbn [lw3].
  replace (if okf then embedw w2a else report EFlush (embedw w2a)) with (embedw (if okf then w2a else report EFlush w2a))
    by (destruct okf; [reflexivity | symmetry; apply report_embed]).
  rewrite w_drop_embed, reset_size_and_date_embed by exact Hn.
  unfold cleanup_or_queue. cbn [ns_filter ns_writes_direct]. rewrite cleanup_impl_embed.
  destruct (cleanup_impl c (w_drop (if okf then w2a else report EFlush w2a) wra) kc IFNum None) as [rc w4]. reflexivity.
Qed.

Lemma mount_next_good w st force r w' st' : good_inner st -> mount_next c w st force = (r, w', st') -> good_inner st'.
Proof.
  intros G. destruct st as [|[rs|] wr path]; try (cbn; intros H; injection H as _ _ <-; exact Logic.I).
  destruct G as [[idx En] [Ek Eb]]. destruct rs as [ns roll kc0 bg]. cbn [rs_naming rs_cleanup rs_bg] in En, Ek, Eb. subst ns kc0 bg.
  unfold mount_next. cbn [rs_roll rs_naming rs_cleanup rs_bg].
  destruct (force || rotation_necessary w roll); [|intros H; injection H as _ _ <-; cbn; split; [eauto | split; reflexivity]].
  destruct (index_for_rcurrent c w (Some idx) true) as [[idx'| |] w1];
    try (intros H; injection H as _ _ <-; cbn; split; [eauto | split; reflexivity]).
  destruct (open_log_file c w1 (Some cur_infix)) as [[[wr' path']| |] w2];
    try (intros H; injection H as _ _ <-; cbn; split; [eauto | split; reflexivity]).
  destruct (w_flush w2 wr) as [[okf w2a] wra].
  destruct (cleanup_or_queue c (w_drop (if okf then w2a else report EFlush w2a) wra) false kc (ns_filter (NSNumR idx')) (if ns_writes_direct (NSNumR idx') then Some path' else None)) as [rc w4].
  intros H; injection H as _ _ <-; cbn; split; [eauto | split; reflexivity].
Qed.

Definition embeds (s : flw) : flw := {| f_cfg := f_cfg s; f_inner := shin (f_inner s); f_poisoned := f_poisoned s |}.

Definition good_flw (s : flw) : Prop := f_cfg s = c /\ f_poisoned s = false /\ good_inner (f_inner s).

Definition lwb (p : res unit * world * flw * bool) : res unit * world * flw * bool :=
  let '(r, w1, s1, rot) := p in (r, embedw w1, embeds s1, rot).

Lemma write_buffer_embed s w b : good_flw s ->
  write_buffer (embeds s) (embedw w) b = lwb (write_buffer s w b).
Proof.
  intros [Ec [Hp G]]. destruct s as [c0 st p]. cbn [f_cfg f_inner f_poisoned] in *. subst c0 p.
  unfold write_buffer. cbn [embeds f_cfg f_inner f_poisoned].
  match goal with |- (match ?Y with _ => _ end) = lwb (match ?X with _ => _ end) => set (Y0 := Y); set (X0 := X) end.
  assert (E0 : Y0 = lm X0 /\ forall r0 w0 st0, X0 = (r0, w0, st0) -> good_inner st0).
  { subst Y0 X0. destruct st as [|o wr path].
    - cbn [shin]. rewrite initialize_embed. destruct (initialize c w) as [r w'] eqn:Ei. cbn [fst snd].
      destruct r as [i| |]; cbn [shres lm]; (split; [reflexivity|]); intros r0 w0 st0 H; injection H as _ _ <-; try exact Logic.I.
      eapply initialize_good; eassumption.
    - cbn [shin lm]. split; [reflexivity|]. intros r0 w0 st0 H; injection H as _ _ <-. exact G. }
  destruct E0 as [E0 G0]. rewrite E0. clearbody X0. clear E0 Y0. destruct X0 as [[r0 w0] st0].
  specialize (G0 r0 w0 st0 eq_refl). cbn [lm].
  destruct r0 as [u| |]; [|reflexivity|reflexivity].
  assert (Erot : match shin st0 with Active (Some rs) _ _ => rotation_necessary (embedw w0) (rs_roll rs) | _ => false end
               = match st0 with Active (Some rs) _ _ => rotation_necessary w0 (rs_roll rs) | _ => false end).
  { destruct st0 as [|[rs|] wr path]; reflexivity. }
  rewrite Erot. clear Erot.
  rewrite mount_next_embed by exact G0. destruct (mount_next c w0 st0 false) as [[r1 w1] st1]. cbn [lm].
  destruct r1 as [u1| |]; try reflexivity.
  - destruct st1 as [|o_rot wr path]; [reflexivity|]. cbn [shin]. rewrite w_write_embed.
    destruct (w_write w1 wr b) as [[ok w3] wr']. cbn [lw3]. destruct ok; reflexivity.
  - rewrite report_embed. destruct st1 as [|o_rot wr path]; [reflexivity|]. cbn [shin]. rewrite w_write_embed.
    destruct (w_write (report ELogFile w1) wr b) as [[ok w3] wr']. cbn [lw3]. destruct ok; reflexivity.
Qed.

Lemma write_buffer_good s w b r w' s' rot : good_flw s -> write_buffer s w b = (r, w', s', rot) -> r <> Panic ->
  good_flw s'.
Proof.
  intros [Ec [Hp G]]. destruct s as [c0 st p]. cbn [f_cfg f_inner f_poisoned] in *. subst c0 p.
  unfold write_buffer. cbn [f_cfg f_inner f_poisoned].
  match goal with |- (match ?X with _ => _ end) = _ -> _ => set (X0 := X) end.
  assert (G0 : forall r0 w0 st0, X0 = (r0, w0, st0) -> good_inner st0).
  { subst X0. destruct st as [|o wr path].
    - destruct (initialize c w) as [r1 w1] eqn:Ei.
      destruct r1 as [i| |]; intros r0 w0 st0 H; injection H as _ _ <-; try exact Logic.I.
      eapply initialize_good; eassumption.
    - intros r0 w0 st0 H; injection H as _ _ <-. exact G. }
  clearbody X0. destruct X0 as [[r0 w0] st0].
  specialize (G0 r0 w0 st0 eq_refl).
  destruct r0 as [u| |].
  - destruct (mount_next c w0 st0 false) as [[r1 w1] st1] eqn:Em. pose proof (mount_next_good _ _ _ _ _ _ G0 Em) as G1.
    assert (X : forall o_rot wr path, good_inner (Active o_rot wr path) -> forall b0 wr0,
              good_inner (Active (match o_rot with
                                  | Some rs => Some {| rs_naming := rs_naming rs; rs_roll := increase_size (rs_roll rs) b0;
                                                       rs_cleanup := rs_cleanup rs; rs_bg := rs_bg rs |}
                                  | None => None end) wr0 path) /\ good_inner (Active o_rot wr0 path)).
    { intros [rs|] wr path H b0 wr0; split; cbn in *; auto. }
    destruct r1 as [u1| |].
    + destruct st1 as [|o_rot wr path].
      * intros H _. injection H as _ _ <- _. repeat split.
      * destruct (w_write w1 wr b) as [[ok w3] wr']. destruct ok; intros H _; injection H as _ _ <- _;
          (split; [reflexivity|]; split; [reflexivity|]); cbn [with_inner f_inner];
          [exact (proj1 (X o_rot wr path G1 _ _)) | exact (proj2 (X o_rot wr path G1 0%N _))].
    + destruct st1 as [|o_rot wr path].
      * intros H _. injection H as _ _ <- _. repeat split.
      * destruct (w_write (report ELogFile w1) wr b) as [[ok w3] wr']. destruct ok; intros H _; injection H as _ _ <- _;
          (split; [reflexivity|]; split; [reflexivity|]); cbn [with_inner f_inner];
          [exact (proj1 (X o_rot wr path G1 _ _)) | exact (proj2 (X o_rot wr path G1 0%N _))].
    + intros H Hr. injection H as <- _ _ _. congruence.
  - intros H _. injection H as _ _ <- _. repeat split. exact G0.
  - intros H Hr. injection H as <- _ _ _. congruence.
Qed.

Lemma flush_state_embed s w :
  flush_state (embeds s) (embedw w) = (let '(ok, w1, s1) := flush_state s w in (ok, embedw w1, embeds s1)).
Proof.
  unfold flush_state. destruct s as [c0 st p]. cbn [embeds f_inner f_cfg f_poisoned]. destruct st as [|o wr path]; [reflexivity|].
  cbn [shin]. rewrite w_flush_embed. destruct (w_flush w wr) as [[ok w1] wr']. reflexivity.
Qed.

Lemma shutdown_state_embed s w :
  shutdown_state (embeds s) (embedw w) = (let '(w1, s1) := shutdown_state s w in (embedw w1, embeds s1)).
Proof.
  unfold shutdown_state, drain_acts. destruct s as [c0 st p]. cbn [embeds f_inner f_cfg f_poisoned]. destruct st as [|o wr path]; [reflexivity|].
  cbn [shin]. rewrite w_flush_embed. destruct (w_flush w wr) as [[ok w1] wr']. cbn [lw3].
  destruct ok; [reflexivity|]. rewrite report_embed. reflexivity.
Qed.

Lemma drop_state_embed s w : drop_state (embeds s) (embedw w) = embedw (drop_state s w).
Proof.
  unfold drop_state. rewrite shutdown_state_embed. destruct (shutdown_state s w) as [w1 s1].
  rewrite shutdown_state_embed. destruct (shutdown_state s1 w1) as [w2 s2].
  destruct s2 as [c0 st p]. cbn [embeds f_inner]. destruct st as [|o wr path]; [reflexivity|]. cbn [shin]. apply w_drop_embed.
Qed.

End Cfg.
End EmbedModel.
