(* The calendar conversion (Time/Civil.v) is a bijection on the days of the years 1970..9999: checked era by era
   (one computation over the 146097 days of an era), then transported to every era. *)
Require Import FL.Base.Bytes FL.Base.BytesFacts FL.Time.Civil FL.Time.TsFormat FL.Names.NamesFacts FL.Names.SortFacts.
From Coq Require Import ZifyN ZifyNat ZifyBool.
Open Scope Z_scope.

(* ------------------------------------------------------------------ a checked range *)
Fixpoint p2 (d : nat) : Z := match d with O => 1 | S d' => 2 * p2 d' end.
Fixpoint all_range (d : nat) (lo : Z) (p : Z -> bool) : bool :=
  match d with
  | O => p lo
  | S d' => all_range d' lo p && all_range d' (lo + p2 d') p
  end.
Lemma p2_pos d : 0 < p2 d.
Proof. induction d as [|d IH]; cbn [p2]; lia. Qed.
Lemma all_range_sound d : forall lo p, all_range d lo p = true -> forall z, lo <= z < lo + p2 d -> p z = true.
Proof.
  induction d as [|d IH]; intros lo p H z Hz; cbn [all_range p2] in *.
  - assert (z = lo) by lia. subst z. exact H.
  - apply andb_prop in H. destruct H as [H1 H2]. pose proof (p2_pos d) as P.
    destruct (Z_lt_ge_dec z (lo + p2 d)) as [Hlt|Hge]; [apply (IH lo p H1); lia | apply (IH (lo + p2 d) p H2); lia].
Qed.

(* ------------------------------------------------------------------ civil_from_days / days_from_civil, era by era *)
(* the part of civil_from_days that depends on the day of the era only: (year of era, month, day) *)
Definition cfd_core (doe : Z) : Z * Z * Z :=
  let yoe := (doe - doe / 1460 + doe / 36524 - doe / 146096) / 365 in
  let doy := doe - (365 * yoe + yoe / 4 - yoe / 100) in
  let mp := (5 * doy + 2) / 153 in
  let d := doy - (153 * mp + 2) / 5 + 1 in
  let m := if mp <? 10 then mp + 3 else mp - 9 in
  (yoe, m, d).
(* the day of the era of (year of era, month, day) *)
Definition dfc_core (yoe m d : Z) : Z :=
  let mp := (m + 9) mod 12 in
  let doy := (153 * mp + 2) / 5 + d - 1 in
  yoe * 365 + yoe / 4 - yoe / 100 + doy.

Definition doe_ok (doe : Z) : bool :=
  (146097 <=? doe) ||
  let '(yoe, m, d) := cfd_core doe in
  (0 <=? yoe) && (yoe <? 400) && (1 <=? m) && (m <=? 12) && (1 <=? d) && (d <=? 31) && (dfc_core yoe m d =? doe)
  && ((146037 <=? doe) || (yoe + (if m <=? 2 then 1 else 0) <=? 399)).

Lemma doe_ok_all : all_range 18 0 doe_ok = true.
Proof. vm_cast_no_check (eq_refl true). Qed.

Lemma doe_ok_spec doe : 0 <= doe < 146097 ->
  let '(yoe, m, d) := cfd_core doe in
  0 <= yoe < 400 /\ 1 <= m <= 12 /\ 1 <= d <= 31 /\ dfc_core yoe m d = doe
  /\ (doe < 146037 -> yoe + (if m <=? 2 then 1 else 0) <= 399).
Proof.
  intros H. pose proof (all_range_sound 18 0 doe_ok doe_ok_all doe) as X.
  assert (Hr : 0 <= doe < 0 + p2 18) by (change (p2 18) with 262144; lia). specialize (X Hr).
  unfold doe_ok in X. destruct (cfd_core doe) as [[yoe m] d].
  destruct (Z.leb_spec 146097 doe) as [Hx|_]; [lia|]. cbn [orb] in X.
  repeat (apply andb_prop in X; destruct X as [X ?]). lia.
Qed.

Lemma cfd_era z0 :
  let z := z0 + 719468 in let era := z / 146097 in let doe := z - era * 146097 in
  civil_from_days z0 = (let '(yoe, m, d) := cfd_core doe in ((if m <=? 2 then yoe + era * 400 + 1 else yoe + era * 400), m, d)).
Proof. reflexivity. Qed.

Lemma dfc_era yoe era m d : 0 <= yoe < 400 ->
  days_from_civil (if m <=? 2 then yoe + era * 400 + 1 else yoe + era * 400) m d = era * 146097 + dfc_core yoe m d - 719468.
Proof.
  intros Hy. unfold days_from_civil, dfc_core.
  assert (E : (if m <=? 2 then (if m <=? 2 then yoe + era * 400 + 1 else yoe + era * 400) - 1
               else (if m <=? 2 then yoe + era * 400 + 1 else yoe + era * 400)) = yoe + era * 400).
  { destruct (m <=? 2); lia. }
  rewrite E. cbv zeta. rewrite Z.div_add, (Z.div_small yoe 400) by lia.
  replace (yoe + era * 400 - (0 + era) * 400) with yoe by lia. lia.
Qed.

(* days 0 .. 2932896 are 1970-01-01 .. 9999-12-31 *)
Definition day_max : Z := 2932897.
Lemma civil_days_ok z : 0 <= z < day_max ->
  let '(y, m, d) := civil_from_days z in
  days_from_civil y m d = z /\ 0 <= y <= 9999 /\ 1 <= m <= 12 /\ 1 <= d <= 31.
Proof.
  unfold day_max. intros Hz. rewrite cfd_era. cbv zeta.
  set (era := (z + 719468) / 146097). set (doe := z + 719468 - era * 146097).
  assert (Hd : 0 <= doe < 146097 /\ 4 <= era <= 24 /\ (era = 24 -> doe < 146037)).
  { subst doe era. pose proof (Z.div_mod (z + 719468) 146097 ltac:(lia)) as D.
    pose proof (Z.mod_pos_bound (z + 719468) 146097 ltac:(lia)) as M.
    set (q := (z + 719468) / 146097) in *. set (r := (z + 719468) mod 146097) in *. lia. }
  destruct Hd as [Hdoe [Hera H24]].
  pose proof (doe_ok_spec doe Hdoe) as S. destruct (cfd_core doe) as [[yoe m] d].
  destruct S as [Hy [Hm [Hdd [Hdf Hlast]]]].
  rewrite (dfc_era yoe era m d Hy), Hdf. split; [subst doe; lia|].
  split; [|split; assumption].
  destruct (Z.eq_dec era 24) as [E24|N24].
  - specialize (Hlast (H24 E24)). destruct (m <=? 2); lia.
  - destruct (m <=? 2); lia.
Qed.

