(* C19 for the BUFFERED write modes (c_cap c = Some n), without rotation: the executable SPECIFICATION of what a
   FileLogWriter makes of a history of log calls, flushes, shutdowns and the final drop when the file-system calls
   fail as an arbitrary fault oracle says; and what the specification implies (loss bounded and announced, recovery).
   The refinement proof (the model `run` does exactly this) is in FaultBuffered.v.

   What the model does, read off Model.w_write / w_flush / write_buffer / flush_state / shutdown_state / drop_state and
   Run.sync_step (and confirmed by computation, see the examples in FaultBuffered.v):

   (o)   the OPEN of the log file (first record, and again for every record as long as it fails): write_buffer returns
         Err before anything is buffered, the incoming record is LOST, the handle reports EWrite, the log call returns
         normally; the state stays `Initial`.
   (i)   a record that FITS into the buffer makes no file-system call at all: nothing can fail.
   (ii)  a record that does not fit makes the BufWriter flush first (one write(2) call with the whole buffer content).
         If that call FAILS, w_write returns the error at once: the buffer KEEPS its whole content (nothing is dropped,
         nothing is partly written - the model's write(2) is all-or-nothing), the INCOMING record is NOT taken into the
         buffer: it is LOST.  write_buffer returns Err, the handle reports EWrite; the log call returns normally
         (ObsRes 0).  The records in the buffer are NOT lost: the flush is tried again at the next occasion (the next
         record that does not fit, OFlush, shutdown, drop) and they reach the file then, in order, before any later
         record.  As long as the flush keeps failing, every record that does not fit is lost (each one reported),
         while small records that still fit are accepted.
   (iii) a record of at least the capacity is written directly (after the flush): if that call fails, the record is
         lost and reported (EWrite); what was flushed before it is in the file.
   (iv)  OFlush: one write(2) call with the buffer content (none for an empty buffer).  A failure is NOT put on the
         error channel: it is the result of the call (ObsRes 1); the buffer keeps its content, nothing is lost.
   (v)   OShutdown: like OFlush, but the result is 0 and a failure is reported as EFlush.
   (vi)  OStop (drop of the writer): both Drop impls call shutdown (each: flush, a failure is REPORTED as EFlush -
         this is fix 4e84f2d), then the BufWriter is dropped, which flushes once more with the error swallowed.
         So there are up to THREE attempts; the buffer content is lost only if all three fail - then EFlush has been
         reported twice, for a loss of ALL records in the buffer.  One or two failing attempts are reported although
         nothing is lost.
   No log call panics or returns an error; only OFlush returns 1 on failure. *)
Require Import FL.Base.Bytes FL.Base.BytesFacts FL.Fs.Fs FL.Flw.Model FL.Flw.Run FL.Flw.NumRun FL.Flw.FaultFacts FL.Flw.FaultRotSpec.
From Coq Require Import ZifyN ZifyNat ZifyBool.
Open Scope nat_scope.

(* ------------------------------------------------------------------ the specification *)
(* the abstract state, in terms of RECORDS: those that have reached the file, those that sit in the buffer *)
Inductive bst :=
| BClosed                                (* writer not initialised, no file *)
| BOpen (F B : list bytes)               (* the file holds concat F, the buffer holds concat B *)
| BStopped (F : list bytes).             (* the writer has been dropped *)

Definition st_file (st : bst) : list bytes := match st with BClosed => [] | BOpen F _ => F | BStopped F => F end.
Definition st_buf (st : bst) : list bytes := match st with BOpen _ B => B | _ => [] end.
Definition st_all (st : bst) : list bytes := st_file st ++ st_buf st.
Definition live (st : bst) : Prop := match st with BStopped _ => False | _ => True end.

(* what one operation yields: new state, reports, rest of the oracle, result code of the call, records lost by it *)
Record bout := mkout { o_st : bst; o_errs : list ecode; o_fl : list bool; o_code : N; o_lost : list bytes }.

(* write_all of a BufWriter of capacity n *)
Definition sb_write (n : nat) (F B : list bytes) (b : bytes) (fl : list bool) : bout :=
  let spare := n - length (concat B) in
  if length b <? spare then mkout (BOpen F (B ++ [b])) [] fl 0 []
  else
    let '(ff, fl1) := if spare <? length b then wr_pop (concat B) fl else (false, fl) in      (* flush first *)
    if ff then mkout (BOpen F B) [EWrite] fl1 0 [b]
    else
      let F1 := if spare <? length b then F ++ B else F in
      let B1 := if spare <? length b then [] else B in
      if n <=? length b then
        let '(fw, fl2) := wr_pop b fl1 in                                                      (* written directly *)
        if fw then mkout (BOpen F1 B1) [EWrite] fl2 0 [b]
        else mkout (BOpen (F1 ++ B1 ++ [b]) []) [] fl2 0 []
      else mkout (BOpen F1 (B1 ++ [b])) [] fl1 0 [].

(* flush / shutdown: `rep` is what a failure puts on the error channel, `code` the result of a failing call *)
Definition sb_flush (F B : list bytes) (fl : list bool) (rep : list ecode) (code : N) : bout :=
  let '(f, fl1) := wr_pop (concat B) fl in
  if f then mkout (BOpen F B) rep fl1 code [] else mkout (BOpen (F ++ B) []) [] fl1 0 [].

(* drop: shutdown, shutdown, silent flush *)
Definition sb_stop (F B : list bytes) (fl : list bool) : bout :=
  let '(f1, fl1) := wr_pop (concat B) fl in
  if negb f1 then mkout (BStopped (F ++ B)) [] fl1 0 [] else
  let '(f2, fl2) := wr_pop (concat B) fl1 in
  if negb f2 then mkout (BStopped (F ++ B)) [EFlush] fl2 0 [] else
  let '(f3, fl3) := wr_pop (concat B) fl2 in
  if negb f3 then mkout (BStopped (F ++ B)) [EFlush; EFlush] fl3 0 []
  else mkout (BStopped F) [EFlush; EFlush] fl3 0 B.

Definition sb_step (n : nat) (st : bst) (o : op) (fl : list bool) : bout :=
  match st with
  | BStopped _ => mkout st [] fl 3 []
  | BClosed =>
    match o with
    | OWrite b => let '(f, fl1) := pop fl in                                                   (* open/create *)
                  if f then mkout BClosed [EWrite] fl1 0 [b] else sb_write n [] [] b fl1
    | OStop => mkout (BStopped []) [] fl 0 []
    | _ => mkout BClosed [] fl 0 []
    end
  | BOpen F B =>
    match o with
    | OWrite b => sb_write n F B b fl
    | OFlush => sb_flush F B fl [] 1
    | OShutdown => sb_flush F B fl [EFlush] 0
    | OStop => sb_stop F B fl
    | _ => mkout st [] fl 0 []
    end
  end.

(* a history: final state, reports, rest of the oracle, result codes, lost records *)
Fixpoint simb_run (n : nat) (st : bst) (fl : list bool) (ops : list op) : bst * list ecode * list bool * list N * list bytes :=
  match ops with
  | [] => (st, [], fl, [], [])
  | o :: rest =>
    let out := sb_step n st o fl in
    let '(st2, e2, fl2, c2, l2) := simb_run n (o_st out) (o_fl out) rest in
    (st2, o_errs out ++ e2, fl2, o_code out :: c2, o_lost out ++ l2)
  end.

(* the specification in the form asked for: file content, buffer content, reported errors, rest of the oracle *)
Definition simb (n : nat) (fl : list bool) (ops : list op) : bytes * bytes * list ecode * list bool :=
  let '(st, e, fl', _, _) := simb_run n BClosed fl ops in (concat (st_file st), concat (st_buf st), e, fl').

(* the operations covered *)
Definition bop (o : op) : Prop := match o with OWrite _ | OFlush | OShutdown => True | _ => False end.
Definition bop_stop (o : op) : Prop := match o with OWrite _ | OFlush | OShutdown | OStop => True | _ => False end.
Definition rec_of (o : op) : list bytes := match o with OWrite b => [b] | _ => [] end.
Definition recs_of (ops : list op) : list bytes := concat (List.map rec_of ops).

(* ------------------------------------------------------------------ one operation *)
Lemma wr_pop_cases b fl :
  (wr_pop b fl = (false, fl) /\ (b = [] \/ fl = []))
  \/ (exists r, fl = false :: r /\ wr_pop b fl = (false, r))
  \/ (exists r, fl = true :: r /\ wr_pop b fl = (true, r) /\ b <> []).
Proof.
  unfold wr_pop. destruct b as [|x b]; [left; auto|].
  destruct fl as [|[|] r]; cbn [pop hd tl].
  - left. auto.
  - right. right. exists r. repeat split. discriminate.
  - right. left. exists r. auto.
Qed.

(* what one operation does, in terms of: the oracle entries it uses (used), the reports, the records.
   - every report has its own failing call (at the drop the third failure is silent);
   - without a failing call: nothing reported, nothing lost, result 0;
   - a loss is reported;
   - what is in the file stays there, in place (the file grows at its end only);
   - the records: either nothing is lost and the incoming record (if any) is accepted, in order; or the call is a log
     call whose own record is lost, and that is reported as EWrite; or it is the drop, all three attempts failed,
     EFlush was reported twice, and what is lost is exactly the content of the buffer *)
Definition step_okb (st : bst) (o : op) (fl : list bool) (out : bout) : Prop :=
  exists used add,
    fl = used ++ o_fl out
    /\ length (o_errs out) <= ntrue used
    /\ (ntrue used = 0 -> o_errs out = [] /\ o_lost out = [] /\ o_code out = 0%N)
    /\ (o_lost out <> [] -> o_errs out <> [])
    /\ st_file (o_st out) = st_file st ++ add
    /\ ((o_lost out = [] /\ nlost (o_errs out) = 0 /\ st_all (o_st out) = st_all st ++ rec_of o)
        \/ (exists b, o = OWrite b /\ o_lost out = [b] /\ st_all (o_st out) = st_all st /\ o_errs out = [EWrite]
                      /\ ntrue used = 1)
        \/ (o = OStop /\ o_lost out = st_buf st /\ st_buf st <> [] /\ o_st out = BStopped (st_file st)
            /\ o_errs out = [EFlush; EFlush] /\ used = [true; true; true])).

Lemma ntrue_app a b : ntrue (a ++ b) = ntrue a + ntrue b.
Proof. unfold ntrue. rewrite filter_app, app_length. reflexivity. Qed.

Ltac okb_tac used add :=
  exists used, add; cbn [o_st o_errs o_fl o_code o_lost st_file st_buf st_all app length rec_of];
  rewrite ?app_nil_r;
  split; [reflexivity|]; split; [cbn; lia|];
  split; [first [ intros _; repeat split; reflexivity | intros H; cbn in H; discriminate H ]|];
  split; [congruence|]; split; [rewrite ?app_assoc; reflexivity|].
Ltac okb_kept := left; split; [reflexivity|]; split; [reflexivity|]; rewrite ?app_nil_r, ?app_assoc; reflexivity.
Ltac okb_lost b := right; left; exists b; repeat split.

Lemma sb_write_ok n F B b fl : step_okb (BOpen F B) (OWrite b) fl (sb_write n F B b fl).
Proof.
  unfold sb_write, step_okb.
  destruct (length b <? n - length (concat B)) eqn:E1.
  - okb_tac (@nil bool) (@nil bytes). okb_kept.
  - destruct (n - length (concat B) <? length b) eqn:E2.
    + (* flush first *)
      destruct (wr_pop_cases (concat B) fl) as [[-> _] | [[r [-> ->]] | [r [-> [-> Hne]]]]].
      * (* no call or oracle exhausted *)
        destruct (n <=? length b) eqn:E3.
        -- destruct (wr_pop_cases b fl) as [[-> _] | [[r [-> ->]] | [r [-> [-> Hb]]]]].
           ++ okb_tac (@nil bool) (B ++ [b]). okb_kept.
           ++ okb_tac [false] (B ++ [b]). okb_kept.
           ++ okb_tac [true] B. okb_lost b.
        -- okb_tac (@nil bool) B. okb_kept.
      * (* the flush succeeds *)
        destruct (n <=? length b) eqn:E3.
        -- destruct (wr_pop_cases b r) as [[-> _] | [[r2 [-> ->]] | [r2 [-> [-> Hb]]]]].
           ++ okb_tac [false] (B ++ [b]). okb_kept.
           ++ okb_tac [false; false] (B ++ [b]). okb_kept.
           ++ okb_tac [false; true] B. okb_lost b.
        -- okb_tac [false] B. okb_kept.
      * (* the flush fails: the incoming record is lost, the buffer keeps its content *)
        okb_tac [true] (@nil bytes). okb_lost b.
    + (* the record fills the buffer exactly, or (empty buffer) is written directly *)
      destruct (n <=? length b) eqn:E3.
      * destruct (wr_pop_cases b fl) as [[-> _] | [[r [-> ->]] | [r [-> [-> Hb]]]]].
        -- okb_tac (@nil bool) (B ++ [b]). okb_kept.
        -- okb_tac [false] (B ++ [b]). okb_kept.
        -- okb_tac [true] (@nil bytes). okb_lost b.
      * okb_tac (@nil bool) (@nil bytes). okb_kept.
Qed.

Lemma sb_flush_ok F B fl rep code o : rec_of o = [] -> length rep <= 1 -> nlost rep = 0 ->
  step_okb (BOpen F B) o fl (sb_flush F B fl rep code).
Proof.
  intros Ho Hrep Hnl. unfold sb_flush, step_okb. cbn [st_file st_buf st_all]. rewrite Ho.
  destruct (wr_pop_cases (concat B) fl) as [[-> _] | [[r [-> ->]] | [r [-> [-> Hne]]]]].
  - exists [], B. cbn [o_st o_errs o_fl o_code o_lost st_file st_buf st_all app length]. rewrite !app_nil_r.
    split; [reflexivity|]. split; [cbn; lia|]. split; [auto|]. split; [congruence|]. split; [reflexivity|]. left. auto.
  - exists [false], B. cbn [o_st o_errs o_fl o_code o_lost st_file st_buf st_all app length]. rewrite !app_nil_r.
    split; [reflexivity|]. split; [cbn; lia|]. split; [auto|]. split; [congruence|]. split; [reflexivity|]. left. auto.
  - exists [true], []. cbn [o_st o_errs o_fl o_code o_lost st_file st_buf st_all app length]. rewrite !app_nil_r.
    split; [reflexivity|]. split; [cbn; lia|]. split; [cbn; lia|]. split; [congruence|]. split; [reflexivity|]. left. auto.
Qed.

Lemma sb_stop_ok F B fl : step_okb (BOpen F B) OStop fl (sb_stop F B fl).
Proof.
  unfold sb_stop.
  assert (Good : forall used fl' e, fl = used ++ fl' -> length e <= ntrue used -> (ntrue used = 0 -> e = []) -> nlost e = 0 ->
    step_okb (BOpen F B) OStop fl (mkout (BStopped (F ++ B)) e fl' 0 [])).
  { intros used fl' e H1 H2 H3 H4. exists used, B. unfold st_all. cbn [o_st o_errs o_fl o_code o_lost st_file st_buf rec_of].
    split; [exact H1|]. split; [exact H2|]. split; [intros H; auto|].
    split; [congruence|]. split; [reflexivity|]. left. rewrite !app_nil_r. split; [reflexivity|]. split; [exact H4 | reflexivity]. }
  destruct (wr_pop_cases (concat B) fl) as [[-> _] | [[r [-> ->]] | [r [-> [-> Hne]]]]]; cbn [negb].
  - apply (Good [] fl []); [reflexivity | cbn; lia | auto | reflexivity].
  - apply (Good [false] r []); [reflexivity | cbn; lia | auto | reflexivity].
  - destruct (wr_pop_cases (concat B) r) as [[-> [Hc| ->]] | [[r2 [-> ->]] | [r2 [-> [-> _]]]]]; cbn [negb].
    + contradiction.
    + apply (Good [true] [] [EFlush]); [reflexivity | cbn; lia | cbn; lia | reflexivity].
    + apply (Good [true; false] r2 [EFlush]); [reflexivity | cbn; lia | cbn; lia | reflexivity].
    + destruct (wr_pop_cases (concat B) r2) as [[-> [Hc| ->]] | [[r3 [-> ->]] | [r3 [-> [-> _]]]]]; cbn [negb].
      * contradiction.
      * apply (Good [true; true] [] [EFlush; EFlush]); [reflexivity | cbn; lia | cbn; lia | reflexivity].
      * apply (Good [true; true; false] r3 [EFlush; EFlush]); [reflexivity | cbn; lia | cbn; lia | reflexivity].
      * exists [true; true; true], []. cbn [o_st o_errs o_fl o_code o_lost st_file st_buf st_all app length rec_of]. rewrite !app_nil_r.
        split; [reflexivity|]. split; [cbn; lia|]. split; [cbn; lia|]. split; [congruence|]. split; [reflexivity|].
        right. right. repeat split. intros ->. apply Hne. reflexivity.
Qed.

Theorem sb_step_ok n st o fl : live st -> bop_stop o -> step_okb st o fl (sb_step n st o fl).
Proof.
  intros Hl Ho.
  assert (Nop : forall st0, rec_of o = [] -> step_okb st0 o fl (mkout st0 [] fl 0 [])).
  { intros st0 Hr. exists [], []. cbn [o_st o_errs o_fl o_code o_lost app length]. rewrite Hr, !app_nil_r.
    split; [reflexivity|]. split; [cbn; lia|]. split; [auto|]. split; [congruence|]. split; [reflexivity|]. left. auto. }
  destruct st as [|F B|F]; [| |contradiction]; cbn [sb_step].
  - destruct o; try contradiction; try (apply Nop; reflexivity).
    + (* the first record: open *)
      destruct (pop_cases fl) as [[-> ->] | [f [r [-> ->]]]].
      * apply (sb_write_ok n [] [] b []).
      * destruct f.
        -- exists [true], []. cbn [o_st o_errs o_fl o_code o_lost st_file st_buf st_all app length].
           split; [reflexivity|]. split; [cbn; lia|]. split; [cbn; lia|]. split; [congruence|]. split; [reflexivity|].
           right. left. exists b. repeat split.
        -- destruct (sb_write_ok n [] [] b r) as [used [add H]]. exists (false :: used), add.
           rewrite ntrue_cons. cbn [plus]. destruct H as [H1 [H2 [H3 [H4 [H5 H6]]]]].
           split; [cbn [app]; rewrite <- H1; reflexivity|]. split; [exact H2|]. split; [exact H3|]. split; [exact H4|].
           split; [exact H5|]. destruct H6 as [H6 | [H6 | [H6 _]]]; [left; exact H6 | right; left; exact H6 | discriminate H6].
    + exists [], []. cbn [o_st o_errs o_fl o_code o_lost st_file st_buf st_all app length rec_of].
      split; [reflexivity|]. split; [cbn; lia|]. split; [auto|]. split; [congruence|]. split; [reflexivity|]. left. auto.
  - destruct o; try contradiction.
    + apply sb_write_ok.
    + apply sb_flush_ok; [reflexivity | cbn; lia | reflexivity].
    + apply sb_flush_ok; [reflexivity | cbn; lia | reflexivity].
    + apply sb_stop_ok.
Qed.

Lemma sb_write_live n F B b fl : live (o_st (sb_write n F B b fl)).
Proof.
  unfold sb_write.
  repeat match goal with
         | |- context [if ?c then _ else _] => destruct c
         | |- context [let '(_, _) := ?p in _] => destruct p
         end; exact I.
Qed.

Lemma sb_step_live n st o fl : live st -> bop o -> live (o_st (sb_step n st o fl)).
Proof.
  intros Hl Ho. destruct st as [|F B|F]; [| |contradiction]; cbn [sb_step]; destruct o; try contradiction; try exact I.
  - destruct (pop fl) as [f fl1]. destruct f; [exact I | apply sb_write_live].
  - apply sb_write_live.
  - unfold sb_flush. destruct (wr_pop (concat B) fl) as [f fl1]. destruct f; exact I.
  - unfold sb_flush. destruct (wr_pop (concat B) fl) as [f fl1]. destruct f; exact I.
Qed.

(* ------------------------------------------------------------------ whole histories *)
Lemma simb_run_app n : forall ops1 ops2 st fl,
  simb_run n st fl (ops1 ++ ops2)
  = let '(st1, e1, fl1, c1, l1) := simb_run n st fl ops1 in
    let '(st2, e2, fl2, c2, l2) := simb_run n st1 fl1 ops2 in (st2, e1 ++ e2, fl2, c1 ++ c2, l1 ++ l2).
Proof.
  induction ops1 as [|o rest IH]; intros ops2 st fl; cbn [Datatypes.app simb_run].
  - destruct (simb_run n st fl ops2) as [[[[st2 e2] fl2] c2] l2]. reflexivity.
  - rewrite IH. destruct (simb_run n (o_st (sb_step n st o fl)) (o_fl (sb_step n st o fl)) rest) as [[[[st1 e1] fl1] c1] l1].
    destruct (simb_run n st1 fl1 ops2) as [[[[st2 e2] fl2] c2] l2]. rewrite !app_assoc. reflexivity.
Qed.

Lemma recs_of_cons o ops : recs_of (o :: ops) = rec_of o ++ recs_of ops.
Proof. reflexivity. Qed.
Lemma recs_of_app a b : recs_of (a ++ b) = recs_of a ++ recs_of b.
Proof. unfold recs_of. rewrite map_app, concat_app. reflexivity. Qed.

Lemma subseq_refl l : Subseq l l.
Proof. induction l; constructor; assumption. Qed.
Lemma subseq_app a b c d : Subseq a b -> Subseq c d -> Subseq (a ++ c) (b ++ d).
Proof. intros H. induction H; intros K; cbn [app]; [exact K | constructor; auto | constructor; auto]. Qed.
Lemma subseq_nil l : Subseq [] l.
Proof. induction l; constructor; assumption. Qed.

(* log calls, flushes and shutdowns (no drop yet): the accepted records - those in the file followed by those in the
   buffer - are the records of the history in order, each once, without the lost ones; each lost record is the
   incoming record of a log call that reported EWrite (one EWrite per lost record); what is in the file stays *)
Theorem simb_run_records n : forall ops st fl, live st -> Forall bop ops ->
  let '(st', e, fl', codes, lost) := simb_run n st fl ops in
  live st'
  /\ exists kept used add,
       Subseq kept (recs_of ops) /\ st_all st' = st_all st ++ kept
       /\ Subseq lost (recs_of ops)
       /\ length (recs_of ops) = length kept + length lost
       /\ length lost = nlost e
       /\ fl = used ++ fl' /\ length e <= ntrue used
       /\ st_file st' = st_file st ++ add.
Proof.
  induction ops as [|o rest IH]; intros st fl Hl Hb; cbn [simb_run].
  - split; [exact Hl|]. exists [], [], []. cbn. rewrite !app_nil_r. repeat split; try constructor.
  - inversion Hb as [|o' r' Ho Hr]; subst o' r'.
    assert (Ho' : bop_stop o) by (destruct o; try contradiction; exact I).
    pose proof (sb_step_ok n st o fl Hl Ho') as S. pose proof (sb_step_live n st o fl Hl Ho) as L. unfold step_okb in S.
    destruct (sb_step n st o fl) as [st1 e1 fl1 c1 l1]. cbn [o_st o_errs o_fl o_code o_lost] in *.
    specialize (IH st1 fl1 L Hr). destruct (simb_run n st1 fl1 rest) as [[[[st2 e2] fl2] c2] l2].
    destruct IH as [L2 [kept [used2 [add2 [K1 [K2 [K3 [K4 [K5 [K6 [K7 K8]]]]]]]]]]].
    destruct S as [used [add [S1 [S2 [S3 [S4 [S5 S6]]]]]]].
    split; [exact L2|]. rewrite recs_of_cons.
    assert (Hfl : fl = (used ++ used2) ++ fl2) by (rewrite S1, K6, app_assoc; reflexivity).
    assert (He : length (e1 ++ e2) <= ntrue (used ++ used2)) by (rewrite app_length, ntrue_app; lia).
    assert (Hf : st_file st2 = st_file st ++ (add ++ add2)) by (rewrite K8, S5, app_assoc; reflexivity).
    destruct S6 as [[-> [Hn Ha]] | [[b [-> [-> [Ha [-> Hn]]]]] | [-> _]]]; [| |contradiction].
    + exists (rec_of o ++ kept), (used ++ used2), (add ++ add2).
      split; [apply subseq_app; [apply subseq_refl | exact K1]|].
      split; [rewrite K2, Ha, <- app_assoc; reflexivity|].
      split; [cbn [app]; rewrite <- (app_nil_l l2); apply subseq_app; [apply subseq_nil | exact K3]|].
      split; [cbn [app]; rewrite !app_length; lia|].
      split; [cbn [app]; rewrite nlost_app; lia|]. auto.
    + exists kept, (used ++ used2), (add ++ add2). cbn [rec_of app].
      split; [constructor; exact K1|].
      split; [rewrite K2, Ha; reflexivity|].
      split; [constructor; exact K3|].
      split; [cbn [length]; lia|].
      split; [change (EWrite :: e2) with ([EWrite] ++ e2); rewrite nlost_app; cbn [length nlost filter is_ewrite]; cbn; lia|]. auto.
Qed.

(* the final drop: either nothing is lost (the file then holds all accepted records; up to two failed attempts may
   have been reported all the same), or all three attempts fail: EFlush, EFlush, and what was in the buffer is lost *)
Theorem simb_run_stop n ops st fl : live st ->
  let '(st1, e1, fl1, c1, l1) := simb_run n st fl ops in
  live st1 ->
  let '(st2, e2, fl2, c2, l2) := simb_run n st fl (ops ++ [OStop]) in
  exists e' used, e2 = e1 ++ e' /\ c2 = c1 ++ [0%N] /\ fl1 = used ++ fl2 /\ length e' <= ntrue used /\ nlost e' = 0
    /\ ((st2 = BStopped (st_all st1) /\ l2 = l1)
        \/ (st2 = BStopped (st_file st1) /\ l2 = l1 ++ st_buf st1 /\ st_buf st1 <> [] /\ e' = [EFlush; EFlush]
            /\ used = [true; true; true])).
Proof.
  intros Hl. rewrite simb_run_app. destruct (simb_run n st fl ops) as [[[[st1 e1] fl1] c1] l1]. intros L1.
  cbn [simb_run]. pose proof (sb_step_ok n st1 OStop fl1 L1 I) as S. unfold step_okb in S.
  assert (Hst : exists F, o_st (sb_step n st1 OStop fl1) = BStopped F /\ o_code (sb_step n st1 OStop fl1) = 0%N).
  { destruct st1 as [|F B|F]; [| |contradiction]; cbn [sb_step o_st o_code]; [eauto|]. unfold sb_stop.
    repeat match goal with
           | |- context [if ?c then _ else _] => destruct c
           | |- context [let '(_, _) := ?p in _] => destruct p
           end; cbn [o_st o_code]; eexists; split; reflexivity. }
  destruct (sb_step n st1 OStop fl1) as [st2 e' fl2 c' l']. cbn [o_st o_errs o_fl o_code o_lost] in *.
  destruct Hst as [F2 [-> ->]]. destruct S as [used [add [S1 [S2 [S3 [S4 [S5 S6]]]]]]].
  exists e', used. rewrite !app_nil_r. split; [reflexivity|]. split; [reflexivity|]. split; [exact S1|]. split; [exact S2|].
  destruct S6 as [[-> [Hn Ha]] | [[b [Hb _]] | [_ [-> [Hne [E [-> ->]]]]]]]; [|discriminate Hb|].
  - split; [exact Hn|]. left. rewrite app_nil_r. split; [|reflexivity].
    unfold st_all in Ha at 1. cbn [st_file st_buf rec_of] in Ha. rewrite !app_nil_r in Ha. rewrite Ha. reflexivity.
  - split; [reflexivity|]. right. auto.
Qed.

(* ------------------------------------------------------------------ record by record *)
(* per operation: the operation, the state before it, what it yields, the oracle entries it consumed *)
Record bentry := { t_op : op; t_before : bst; t_out : bout; t_usedb : list bool }.
Fixpoint btrace (n : nat) (st : bst) (fl : list bool) (ops : list op) : list bentry :=
  match ops with
  | [] => []
  | o :: rest =>
    let out := sb_step n st o fl in
    {| t_op := o; t_before := st; t_out := out; t_usedb := firstn (length fl - length (o_fl out)) fl |}
      :: btrace n (o_st out) (o_fl out) rest
  end.

(* - every report of the operation has its own failing call among the consumed entries;
   - an operation that consumed no failing entry reports nothing, loses nothing and returns 0;
   - an operation that loses something reports something (and a call of it failed): every loss is announced;
   - a record that is lost by the operation is its own incoming record (log call), or was in the buffer when the
     final flush of the drop failed;
   - what was in the file before the operation is there afterwards, at the same place *)
Definition entry_ok (x : bentry) : Prop :=
  let out := t_out x in
  length (o_errs out) <= ntrue (t_usedb x)
  /\ (ntrue (t_usedb x) = 0 -> o_errs out = [] /\ o_lost out = [] /\ o_code out = 0%N)
  /\ (o_lost out <> [] -> o_errs out <> [] /\ In true (t_usedb x))
  /\ (forall r, In r (o_lost out) -> t_op x = OWrite r \/ (t_op x = OStop /\ In r (st_buf (t_before x))))
  /\ (exists add, st_file (o_st out) = st_file (t_before x) ++ add).

Lemma ntrue_pos_in l : 1 <= ntrue l -> In true l.
Proof.
  intros H. destruct (in_dec Bool.bool_dec true l) as [Hi|Hi]; [exact Hi|]. exfalso.
  assert (Hall : forall f, In f l -> f = false) by (intros [|] Hf; [contradiction | reflexivity]).
  apply ntrue_0_all_false in Hall. lia.
Qed.

Lemma step_okb_entry st o fl out : step_okb st o fl out ->
  entry_ok {| t_op := o; t_before := st; t_out := out; t_usedb := firstn (length fl - length (o_fl out)) fl |}.
Proof.
  intros [used [add [S1 [S2 [S3 [S4 [S5 S6]]]]]]]. unfold entry_ok. cbn [t_op t_before t_out t_usedb].
  pose proof (firstn_used used (o_fl out)) as Hu. rewrite <- S1 in Hu. rewrite !Hu.
  split; [exact S2|]. split; [exact S3|].
  split. { intros Hl. specialize (S4 Hl). split; [exact S4|]. apply ntrue_pos_in. destruct (o_errs out) eqn:Ee; [congruence | cbn [length] in S2; lia]. }
  split; [|exists add; exact S5].
  intros r Hr. destruct S6 as [[E _] | [[b [-> [E _]]] | [-> [E _]]]].
  - rewrite E in Hr. contradiction.
  - rewrite E in Hr. destruct Hr as [<-|[]]. left. reflexivity.
  - rewrite E in Hr. right. auto.
Qed.

Lemma sb_step_used n st o fl : bop_stop o -> exists used, fl = used ++ o_fl (sb_step n st o fl).
Proof.
  intros Ho. destruct st as [|F B|F].
  - destruct (sb_step_ok n BClosed o fl I Ho) as [used [_ [H _]]]. eauto.
  - destruct (sb_step_ok n (BOpen F B) o fl I Ho) as [used [_ [H _]]]. eauto.
  - exists []. reflexivity.
Qed.

Theorem simb_trace n : forall ops st fl, Forall bop_stop ops ->
  let '(st', e, fl', codes, lost) := simb_run n st fl ops in
  let t := btrace n st fl ops in
  List.map t_op t = ops
  /\ fl = concat (List.map t_usedb t) ++ fl'
  /\ e = concat (List.map (fun x => o_errs (t_out x)) t)
  /\ lost = concat (List.map (fun x => o_lost (t_out x)) t)
  /\ codes = List.map (fun x => o_code (t_out x)) t
  /\ Forall (fun x => live (t_before x) -> entry_ok x) t.
Proof.
  induction ops as [|o rest IH]; intros st fl Hb; cbn [simb_run btrace].
  - cbn. repeat split. constructor.
  - inversion Hb as [|o' r' Ho Hr]; subst o' r'.
    destruct (sb_step_used n st o fl Ho) as [used Hu].
    assert (E : forall Hl : live st, step_okb st o fl (sb_step n st o fl)) by (intros Hl; apply sb_step_ok; assumption).
    destruct (sb_step n st o fl) as [st1 e1 fl1 c1 l1] eqn:Es. cbn [o_st o_errs o_fl o_code o_lost] in *.
    specialize (IH st1 fl1 Hr). destruct (simb_run n st1 fl1 rest) as [[[[st2 e2] fl2] c2] l2]. cbv zeta in IH.
    destruct IH as [H1 [H2 [H3 [H4 [H5 H6]]]]]. cbv zeta. cbn [List.map concat t_op t_usedb t_out o_errs o_lost o_code].
    split; [rewrite H1; reflexivity|].
    split. { pose proof (firstn_used used fl1) as Hx. rewrite <- Hu in Hx. rewrite Hx, <- app_assoc, <- H2. exact Hu. }
    split; [rewrite H3; reflexivity|]. split; [rewrite H4; reflexivity|]. split; [rewrite H5; reflexivity|].
    constructor; [|exact H6]. cbn [t_before]. intros Hl.
    exact (step_okb_entry st o fl _ (E Hl)).
Qed.

(* "every loss is announced", counted: the number of operations that lose something is at most the number of reports *)
Definition loses (x : bentry) : bool := match o_lost (t_out x) with [] => false | _ => true end.
Lemma losses_le_reports (t : list bentry) :
  Forall (fun x => o_lost (t_out x) <> [] -> o_errs (t_out x) <> []) t ->
  length (filter loses t) <= length (concat (List.map (fun x => o_errs (t_out x)) t)).
Proof.
  induction 1 as [|x r Hx Hr IH]; cbn [filter List.map concat length]; [lia|].
  rewrite app_length. unfold loses at 1. destruct (o_lost (t_out x)) eqn:El; [lia|].
  cbn [length]. assert (He : o_errs (t_out x) <> []) by (apply Hx; discriminate).
  destruct (o_errs (t_out x)); [congruence | cbn [length]; lia].
Qed.

(* ------------------------------------------------------------------ recovery *)
Lemma all_false_app a b : all_false (a ++ b) -> all_false a /\ all_false b.
Proof. intros H. split; intros f Hf; apply H, in_or_app; [left | right]; exact Hf. Qed.

Lemma wr_pop_all_false b fl : all_false fl -> fst (wr_pop b fl) = false /\ all_false (snd (wr_pop b fl)).
Proof. intros H. unfold wr_pop. destruct b; [split; [reflexivity | exact H] | apply pop_all_false; exact H]. Qed.

(* one operation when no more failures come *)
Lemma sb_step_recovered n st o fl : all_false fl -> live st -> bop_stop o ->
  let out := sb_step n st o fl in
  o_errs out = [] /\ o_lost out = [] /\ o_code out = 0%N /\ all_false (o_fl out)
  /\ st_all (o_st out) = st_all st ++ rec_of o
  /\ (o = OFlush \/ o = OShutdown \/ o = OStop -> st_buf (o_st out) = []).
Proof.
  intros Hf Hl Ho. cbv zeta. destruct (sb_step_ok n st o fl Hl Ho) as [used [add [S1 [S2 [S3 [S4 [S5 S6]]]]]]].
  rewrite S1 in Hf. apply all_false_app in Hf. destruct Hf as [Hu Hf'].
  assert (Hn : ntrue used = 0) by (apply ntrue_0_all_false; exact Hu).
  destruct (S3 Hn) as [E1 [E2 E3]]. split; [exact E1|]. split; [exact E2|]. split; [exact E3|]. split; [exact Hf'|].
  split.
  - destruct S6 as [[_ [_ Ha]] | [[b [_ [_ [_ [_ H1]]]]] | [_ [_ [_ [_ [_ Hu3]]]]]]]; [exact Ha | lia | subst used; cbn in Hn; lia].
  - assert (Hfl : all_false fl) by (rewrite S1; intros f Hi; apply in_app_or in Hi; destruct Hi; auto).
    intros Hflush. destruct st as [|F B|F]; [| |contradiction]; cbn [sb_step].
    + destruct Hflush as [->|[->| ->]]; reflexivity.
    + destruct (wr_pop_all_false (concat B) fl Hfl) as [W1 _].
      destruct Hflush as [->|[->| ->]]; unfold sb_flush, sb_stop; destruct (wr_pop (concat B) fl) as [f fl1]; cbn [fst] in W1; subst f; reflexivity.
Qed.

(* (3) once no more failures come: nothing more is reported, nothing more is lost, every call returns 0, every further
   record is accepted behind what is already there (file, then buffer) *)
Theorem recovery_spec_b n : forall ops st fl, all_false fl -> live st -> Forall bop ops ->
  let '(st', e, fl', codes, lost) := simb_run n st fl ops in
  e = [] /\ lost = [] /\ Forall (fun k => k = 0%N) codes /\ all_false fl' /\ live st'
  /\ st_all st' = st_all st ++ recs_of ops.
Proof.
  induction ops as [|o rest IH]; intros st fl Hf Hl Hb; cbn [simb_run].
  - cbn. rewrite app_nil_r. repeat split; auto.
  - inversion Hb as [|o' r' Ho Hr]; subst o' r'.
    assert (Ho' : bop_stop o) by (destruct o; try contradiction; exact I).
    pose proof (sb_step_recovered n st o fl Hf Hl Ho') as S. pose proof (sb_step_live n st o fl Hl Ho) as L. cbv zeta in S.
    destruct (sb_step n st o fl) as [st1 e1 fl1 c1 l1]. cbn [o_st o_errs o_fl o_code o_lost] in *.
    destruct S as [-> [-> [-> [Hf1 [Ha _]]]]].
    specialize (IH st1 fl1 Hf1 L Hr). destruct (simb_run n st1 fl1 rest) as [[[[st2 e2] fl2] c2] l2].
    destruct IH as [-> [-> [Hc [Hf2 [L2 Ha2]]]]].
    split; [reflexivity|]. split; [reflexivity|]. split; [constructor; [reflexivity | exact Hc]|]. split; [exact Hf2|].
    split; [exact L2|]. rewrite Ha2, Ha, recs_of_cons, app_assoc. reflexivity.
Qed.

Definition final_op (o : op) : Prop := o = OFlush \/ o = OShutdown \/ o = OStop.

(* ... and after the next flush / shutdown / drop all of them are in the file, in order *)
Theorem recovery_flush_b n ops f st fl : all_false fl -> live st -> Forall bop ops -> final_op f ->
  let '(st', e, fl', codes, lost) := simb_run n st fl (ops ++ [f]) in
  e = [] /\ lost = [] /\ Forall (fun k => k = 0%N) codes /\ all_false fl'
  /\ st_file st' = st_all st ++ recs_of ops /\ st_buf st' = [].
Proof.
  intros Hf Hl Hb Hfin. rewrite simb_run_app. pose proof (recovery_spec_b n ops st fl Hf Hl Hb) as R.
  destruct (simb_run n st fl ops) as [[[[st1 e1] fl1] c1] l1]. destruct R as [-> [-> [Hc [Hf1 [L1 Ha]]]]].
  cbn [simb_run].
  assert (Ho' : bop_stop f) by (destruct Hfin as [->|[->| ->]]; exact I).
  pose proof (sb_step_recovered n st1 f fl1 Hf1 L1 Ho') as S. cbv zeta in S.
  destruct (sb_step n st1 f fl1) as [st2 e2 fl2 c2 l2]. cbn [o_st o_errs o_fl o_code o_lost] in *.
  destruct S as [-> [-> [-> [Hf2 [Ha2 Hbuf]]]]]. specialize (Hbuf Hfin).
  cbn [app]. split; [reflexivity|]. split; [reflexivity|].
  split; [apply Forall_app; split; [exact Hc | constructor; [reflexivity | constructor]]|]. split; [exact Hf2|].
  split; [|exact Hbuf]. unfold st_all in Ha2 at 1. rewrite Hbuf, app_nil_r in Ha2. rewrite Ha2, Ha.
  destruct Hfin as [->|[->| ->]]; cbn [rec_of]; rewrite app_nil_r; reflexivity.
Qed.

(* in the form of FaultRotSpec.recovery_rotation: a history ops1 after which the rest of the oracle holds no failure,
   continued by ops2 and a final flush / shutdown / drop: nothing more is reported, nothing more is lost, the file holds
   what was accepted after ops1 (file and buffer) followed by all records of ops2 *)
Theorem buffered_recovery n fl ops1 ops2 f : Forall bop ops1 -> Forall bop ops2 -> final_op f ->
  let '(st1, e1, fl1, _, l1) := simb_run n BClosed fl ops1 in
  all_false fl1 ->
  let '(st2, e2, fl2, c2, l2) := simb_run n BClosed fl (ops1 ++ ops2 ++ [f]) in
  e2 = e1 /\ l2 = l1 /\ st_file st2 = st_all st1 ++ recs_of ops2 /\ st_buf st2 = [] /\ all_false fl2.
Proof.
  intros H1 H2 Hfin. rewrite simb_run_app. pose proof (simb_run_records n ops1 BClosed fl I H1) as R.
  destruct (simb_run n BClosed fl ops1) as [[[[st1 e1] fl1] c1] l1]. destruct R as [L1 _]. intros Hf.
  pose proof (recovery_flush_b n ops2 f st1 fl1 Hf L1 H2 Hfin) as R.
  destruct (simb_run n st1 fl1 (ops2 ++ [f])) as [[[[st2 e2] fl2] c2] l2].
  destruct R as [-> [-> [_ [Hf2 [Hfile Hbuf]]]]]. rewrite !app_nil_r. auto.
Qed.

(* without failures: everything is in the file after the drop *)
Corollary no_faults_buffered n ops : Forall bop ops ->
  let '(st, e, _, codes, lost) := simb_run n BClosed [] (ops ++ [OStop]) in
  e = [] /\ lost = [] /\ Forall (fun k => k = 0%N) codes /\ st_file st = recs_of ops /\ st_buf st = [].
Proof.
  intros Hb. assert (Hf : all_false []) by (intros f []).
  pose proof (recovery_flush_b n ops OStop BClosed [] Hf I Hb (or_intror (or_intror eq_refl))) as R.
  destruct (simb_run n BClosed [] (ops ++ [OStop])) as [[[[st e] fl'] c] l]. destruct R as [-> [-> [Hc [_ [Hfile Hbuf]]]]]. auto.
Qed.

(* ------------------------------------------------------------------ (2) the loss is bounded and announced *)
Lemma subseq_trans : forall b c, Subseq b c -> forall a, Subseq a b -> Subseq a c.
Proof.
  induction 1 as [|x b c H IH|x b c H IH]; intros a Ha.
  - exact Ha.
  - inversion Ha as [|y a' b' Ha'|y a' b' Ha']; subst; [constructor; apply IH; exact Ha' | apply sub_drop; apply IH; exact Ha'].
  - apply sub_drop. apply IH. exact Ha.
Qed.
Lemma subseq_prefix (a b : list bytes) : Subseq a (a ++ b).
Proof. induction a as [|x a IH]; cbn [app]; [apply subseq_nil | constructor; exact IH]. Qed.

Lemma btrace_live n : forall ops st fl, live st -> Forall bop ops ->
  Forall (fun x => live (t_before x)) (btrace n st fl (ops ++ [OStop])).
Proof.
  induction ops as [|o rest IH]; intros st fl Hl Hb; cbn [app btrace].
  - constructor; [exact Hl | constructor].
  - inversion Hb as [|o' r' Ho Hr]; subst o' r'. constructor; [exact Hl|].
    apply IH; [apply sb_step_live; assumption | exact Hr].
Qed.

(* a history of log calls, flushes and shutdowns, ended by the drop of the writer.  The file then holds the
   concatenation of `kept`, a subsequence of the records (in order, nothing duplicated); the other records are `lost`
   (as many as are missing); with t the list of operations (trace): each of them reports at most as many errors as
   calls of it failed; an operation without a failing call loses nothing; an operation that loses something has
   reported it; a lost record is the incoming record of a log call whose write / flush / open failed, or was in the
   buffer when the last flush attempt of the drop failed (never a record that was in the file already: what is in the
   file stays); the number of operations that lose something is at most the number of reports. *)
Theorem buffered_loss_bounded_spec n fl ops : Forall bop ops ->
  let '(st, e, fl', codes, lost) := simb_run n BClosed fl (ops ++ [OStop]) in
  let t := btrace n BClosed fl (ops ++ [OStop]) in
  exists kept,
    st = BStopped kept
    /\ Subseq kept (recs_of ops)
    /\ length (recs_of ops) = length kept + length lost
    /\ List.map t_op t = ops ++ [OStop]
    /\ e = concat (List.map (fun x => o_errs (t_out x)) t)
    /\ lost = concat (List.map (fun x => o_lost (t_out x)) t)
    /\ fl = concat (List.map t_usedb t) ++ fl'
    /\ Forall entry_ok t
    /\ length (filter loses t) <= length e.
Proof.
  intros Hb.
  assert (Hbs : Forall bop_stop (ops ++ [OStop])).
  { apply Forall_app. split; [|constructor; [exact I | constructor]].
    eapply Forall_impl; [|exact Hb]. intros o Ho. destruct o; try contradiction; exact I. }
  pose proof (simb_trace n (ops ++ [OStop]) BClosed fl Hbs) as T.
  pose proof (simb_run_stop n ops BClosed fl I) as St.
  pose proof (simb_run_records n ops BClosed fl I Hb) as R.
  pose proof (btrace_live n ops BClosed fl I Hb) as Lv.
  destruct (simb_run n BClosed fl ops) as [[[[st1 e1] fl1] c1] l1].
  destruct R as [L1 [kept1 [used1 [add1 [K1 [K2 [K3 [K4 [K5 [K6 [K7 K8]]]]]]]]]]]. specialize (St L1).
  destruct (simb_run n BClosed fl (ops ++ [OStop])) as [[[[st2 e2] fl2] c2] l2]. cbv zeta in T |- *.
  destruct T as [T1 [T2 [T3 [T4 [T5 T6]]]]].
  destruct St as [e' [used' [E1 [E2 [E3 [E4 [E5 E6]]]]]]].
  assert (Tok : Forall entry_ok (btrace n BClosed fl (ops ++ [OStop]))).
  { rewrite Forall_forall in *. intros x Hx. apply T6; [exact Hx | apply Lv; exact Hx]. }
  assert (Cnt : length (filter loses (btrace n BClosed fl (ops ++ [OStop]))) <= length e2).
  { rewrite T3. apply losses_le_reports. eapply Forall_impl; [|exact Tok].
    intros x [_ [_ [H _]]] Hl. apply H. exact Hl. }
  cbn [st_all st_file st_buf app] in K2.
  destruct E6 as [[-> ->] | [-> [-> [Hne _]]]].
  - exists (st_all st1). split; [reflexivity|]. rewrite K2. split; [exact K1|]. split; [exact K4|]. auto 10.
  - exists (st_file st1). split; [reflexivity|].
    split. { apply (subseq_trans kept1 _ K1). rewrite <- K2. apply subseq_prefix. }
    split. { rewrite K4, <- K2. unfold st_all. rewrite !app_length. lia. }
    auto 10.
Qed.

Print Assumptions sb_step_ok.
Print Assumptions simb_run_records.
Print Assumptions simb_run_stop.
Print Assumptions simb_trace.
Print Assumptions buffered_loss_bounded_spec.
Print Assumptions buffered_recovery.
Print Assumptions no_faults_buffered.
