(* Numbers naming with an age criterion (or age-or-size): end-to-end statements about whole runs from an empty
   directory.  C09: each file holds the records of exactly one period of the local clock; a new file is started at
   the first write in another period (and, with age-or-size, when the size limit is exceeded; and by rotate()). *)
Require Import FL.Base.Bytes FL.Base.BytesFacts FL.Base.PathName FL.Fs.Fs FL.Fs.FsFacts FL.Time.Civil FL.Time.Period
  FL.Time.TsFormat FL.Names.FileSpec FL.Names.NamesFacts FL.Flw.Model FL.Flw.ModelFacts FL.Flw.NumFs FL.Flw.NumInv
  FL.Flw.Run FL.Flw.RunFacts FL.Flw.NumRun FL.Oracles.O_Age FL.Flw.NumTheorems FL.Flw.NumAgeInv.
From Coq Require Import ZifyN ZifyNat ZifyBool.
Open Scope nat_scope.

(* ------------------------------------------------------------------ the timed history *)
(* every write and every trigger, annotated with the clock value at which it happens: t0 + the ticks before it *)
Fixpoint titems (t : Z) (ops : list op) : list titem :=
  match ops with
  | [] => []
  | o :: r => match o with OWrite b | OPlain b => [TRec t b] | OTrigger => [TTrig t] | _ => [] end ++ titems (clock t o) r
  end.

Definition tfiles (v : tview) : list tfile := match v with None => [] | Some (cl, cur) => cl ++ [cur] end.
Definition tcl (v : tview) : list (Z * bytes) := match v with None => [] | Some (cl, _) => cl end.
Definition tcu (v : tview) : option (Z * bytes) := match v with None => None | Some (_, cur) => Some cur end.

Definition age_of (crit : criterion) : option age := fst (crit_parts crit).
Definition lim_of (crit : criterion) : option N := snd (crit_parts crit).

(* the timed specification is the oracle's partition *)
Lemma t_run_partition crit off ops : forall v t,
  tfiles (t_run crit off v t ops) = tpartition (age_of crit) (lim_of crit) off (tcl v) (tcu v) (titems t ops).
Proof.
  induction ops as [|o r IH]; intros v t.
  - destruct v as [[cl cur]|]; cbn; rewrite ?app_nil_r; reflexivity.
  - cbn [t_run titems]. rewrite IH. unfold age_of, lim_of.
    destruct o; cbn [t_step clock app]; try reflexivity.
    + destruct v as [[cl [st cu]]|]; cbn [tpartition tcl tcu]; [|reflexivity]. unfold due.
      destruct (rotate_due (fst (crit_parts crit)) (snd (crit_parts crit)) off st cu t); reflexivity.
    + destruct v as [[cl [st cu]]|]; cbn [tpartition tcl tcu]; [|reflexivity]. unfold due.
      destruct (rotate_due (fst (crit_parts crit)) (snd (crit_parts crit)) off st cu t); reflexivity.
    + destruct v as [[cl [st cu]]|]; cbn [tpartition tcl tcu]; reflexivity.
Qed.

Definition last_opt {A} (l : list A) : option A := match rev l with [] => None | x :: _ => Some x end.

Lemma tfiles_last v : last_opt (tfiles v) = tcu v.
Proof. destruct v as [[cl cur]|]; [|reflexivity]. unfold last_opt. cbn [tfiles tcu]. rewrite rev_app_distr. reflexivity. Qed.

Lemma files_of_untime v : files_of (untime v) = List.map snd (tfiles v).
Proof. destruct v as [[cl [st cu]]|]; [|reflexivity]. cbn [untime files_of tfiles]. rewrite map_app. reflexivity. Qed.

Lemma start_relT c crit t0 off : RelT c crit (fst (step (sys0 t0 off) (OStart c))) None.
Proof. cbn. repeat split. Qed.
Lemma start_clock c t0 off : wnow (s_w (fst (step (sys0 t0 off) (OStart c)))) = t0 /\ woff (s_w (fst (step (sys0 t0 off) (OStart c)))) = off.
Proof. split; reflexivity. Qed.

Lemma list_beq2_refl l : list_beq2 l l = true.
Proof. induction l as [|x r IH]; [reflexivity|]. cbn [list_beq2]. rewrite beq_refl. exact IH. Qed.

(* ------------------------------------------------------------------ 1. the rotation flags *)
(* The flag observed for the i-th operation, a write at clock value t = t0 + the ticks before it, is the oracle's
   decision `rotate_due` on the state before it: the start instant and the content (disk + buffer) of the current
   file, which is the last file of the oracle's partition of the history so far.  No file yet: no rotation. *)
Theorem numbers_age_flags c crit t0 off ops i o b :
  numcfg c crit -> Forall basic_op ops -> nth_error ops i = Some o -> (o = OWrite b \/ o = OPlain b) ->
  nth_error (snd (run (sys0 t0 off) (OStart c :: ops))) (S i)
  = Some (ObsRes 0
      match last_opt (tpartition (age_of crit) (lim_of crit) off [] None (titems t0 (firstn i ops))) with
      | None => false
      | Some (start, content) => rotate_due (age_of crit) (lim_of crit) off start content (clock_run t0 (firstn i ops))
      end).
Proof.
  intros Hcfg Hb Hi Ho. cbn [run]. destruct (step (sys0 t0 off) (OStart c)) as [x0 ob0] eqn:E0.
  pose proof (start_relT c crit t0 off) as R0. pose proof (start_clock c t0 off) as [N0 O0]. rewrite E0 in R0, N0, O0. cbn [fst] in R0, N0, O0.
  pose proof (run_relT c crit Hcfg ops x0 None R0 Hb) as [_ [_ [_ Hr]]]. rewrite N0, O0 in Hr.
  destruct (run x0 ops) as [x1 obs1]. cbn [snd nth_error] in *. rewrite (Hr i o Hi b Ho). do 2 f_equal.
  pose proof (t_run_partition crit off (firstn i ops) None t0) as P. cbn [tcl tcu] in P. rewrite <- P, tfiles_last.
  unfold t_flag, tcu, due, age_of, lim_of. destruct (t_run crit off None t0 (firstn i ops)) as [[cl [st cu]]|]; reflexivity.
Qed.

(* the same for the two criteria, the decision spelled out *)
Corollary numbers_age_flags_age c a t0 off ops i o b :
  numcfg c (CAge a) -> Forall basic_op ops -> nth_error ops i = Some o -> (o = OWrite b \/ o = OPlain b) ->
  nth_error (snd (run (sys0 t0 off) (OStart c :: ops))) (S i)
  = Some (ObsRes 0
      match last_opt (tpartition (Some a) None off [] None (titems t0 (firstn i ops))) with
      | None => false
      | Some (start, _) => negb (period_of a (start + off) =? period_of a (clock_run t0 (firstn i ops) + off))%Z
      end).
Proof.
  intros Hcfg Hb Hi Ho. rewrite (numbers_age_flags c (CAge a) t0 off ops i o b Hcfg Hb Hi Ho). do 2 f_equal.
  cbn [age_of lim_of crit_parts fst snd]. destruct (last_opt _) as [[st cu]|]; [|reflexivity].
  unfold rotate_due. apply Bool.orb_false_r.
Qed.

Corollary numbers_age_flags_age_or_size c a m t0 off ops i o b :
  numcfg c (CAgeOrSize a m) -> Forall basic_op ops -> nth_error ops i = Some o -> (o = OWrite b \/ o = OPlain b) ->
  nth_error (snd (run (sys0 t0 off) (OStart c :: ops))) (S i)
  = Some (ObsRes 0
      match last_opt (tpartition (Some a) (Some m) off [] None (titems t0 (firstn i ops))) with
      | None => false
      | Some (start, content) =>
        negb (period_of a (start + off) =? period_of a (clock_run t0 (firstn i ops) + off))%Z
        || (m <? N.of_nat (length content))%N
      end).
Proof.
  intros Hcfg Hb Hi Ho. rewrite (numbers_age_flags c (CAgeOrSize a m) t0 off ops i o b Hcfg Hb Hi Ho). reflexivity.
Qed.

(* ------------------------------------------------------------------ 2. the files *)
(* After the writer is stopped, the files r00000.., rCURRENT hold exactly the contents the oracle computes from the
   timed history: `oracle_C09_partition` holds on the model's own output, for every history. *)
Theorem numbers_age_partition c crit t0 off ops :
  numcfg c crit -> Forall basic_op ops ->
  reads c (wfs (s_w (fst (run (sys0 t0 off) (OStart c :: ops ++ [OStop])))))
        (List.map snd (tpartition (age_of crit) (lim_of crit) off [] None (titems t0 ops))).
Proof.
  intros Hcfg Hb. cbn [run]. destruct (step (sys0 t0 off) (OStart c)) as [x0 ob0] eqn:E0.
  pose proof (start_relT c crit t0 off) as R0. pose proof (start_clock c t0 off) as [N0 O0]. rewrite E0 in R0, N0, O0. cbn [fst] in R0, N0, O0.
  rewrite run_app. pose proof (run_relT c crit Hcfg ops x0 None R0 Hb) as [R1 _]. rewrite N0, O0 in R1.
  destruct (run x0 ops) as [x1 obs1]. cbn [fst snd] in *.
  pose proof (stop_rel c crit x1 _ Hcfg (RelT_Rel _ _ _ _ R1)) as S. cbn [run]. destruct (step x1 OStop) as [x2 ob2]. cbn [fst].
  pose proof (t_run_partition crit off ops None t0) as P. cbn [tcl tcu] in P. rewrite <- P, <- files_of_untime.
  apply files_of_reads. exact S.
Qed.

Corollary numbers_age_oracle c crit t0 off ops :
  numcfg c crit -> Forall basic_op ops ->
  exists files, reads c (wfs (s_w (fst (run (sys0 t0 off) (OStart c :: ops ++ [OStop]))))) files
    /\ oracle_C09_partition crit off None (titems t0 ops) files = true.
Proof.
  intros Hcfg Hb. eexists. split; [exact (numbers_age_partition c crit t0 off ops Hcfg Hb)|].
  unfold oracle_C09_partition, age_of, lim_of. destruct (crit_parts crit) as [a lim]. apply list_beq2_refl.
Qed.

(* ------------------------------------------------------------------ 3. the property, without the oracle *)
(* The record-level view: a file is the list of the records written into it, each with its instant; a file has a
   start instant and the information whether it was started by rotate() (OTrigger). *)
Record rfile := { rstart : Z; rtrig : bool; rrecs : list (Z * bytes) }.
Definition rbytes (f : rfile) : bytes := concat (List.map snd (rrecs f)).
Definition rview := option (list rfile * rfile).

Definition r_step (crit : criterion) (off : Z) (v : rview) (t : Z) (o : op) : rview :=
  match o with
  | OWrite b | OPlain b =>
    match v with
    | None => Some ([], {| rstart := t; rtrig := false; rrecs := [(t, b)] |})
    | Some (cl, cur) =>
      if due crit off (rstart cur) (rbytes cur) t
      then Some (cl ++ [cur], {| rstart := t; rtrig := false; rrecs := [(t, b)] |})
      else Some (cl, {| rstart := rstart cur; rtrig := rtrig cur; rrecs := rrecs cur ++ [(t, b)] |})
    end
  | OTrigger => match v with Some (cl, cur) => Some (cl ++ [cur], {| rstart := t; rtrig := true; rrecs := [] |}) | None => None end
  | _ => v
  end.

Fixpoint r_run (crit : criterion) (off : Z) (v : rview) (t : Z) (ops : list op) : rview :=
  match ops with
  | [] => v
  | o :: r => r_run crit off (r_step crit off v t o) (clock t o) r
  end.

Definition forget_file (f : rfile) : tfile := (rstart f, rbytes f).
Definition forget (v : rview) : tview :=
  match v with None => None | Some (cl, cur) => Some (List.map forget_file cl, forget_file cur) end.
Definition rfiles (v : rview) : list rfile := match v with None => [] | Some (cl, cur) => cl ++ [cur] end.

Lemma rbytes_snoc st tr recs t b :
  rbytes {| rstart := st; rtrig := tr; rrecs := recs ++ [(t, b)] |} = concat (List.map snd recs) ++ b.
Proof. unfold rbytes. cbn [rrecs]. rewrite map_app, concat_app. cbn. rewrite app_nil_r. reflexivity. Qed.

Lemma r_step_forget crit off v t o : forget (r_step crit off v t o) = t_step crit off (forget v) t o.
Proof.
  destruct o; try reflexivity.
  - destruct v as [[cl cur]|]; cbn [r_step t_step forget forget_file].
    + destruct (due crit off (rstart cur) (rbytes cur) t); cbn [forget].
      * rewrite map_app. unfold forget_file, rbytes. cbn. rewrite app_nil_r. reflexivity.
      * unfold forget_file at 2. cbn [rstart]. rewrite rbytes_snoc. reflexivity.
    + unfold forget_file, rbytes. cbn. rewrite app_nil_r. reflexivity.
  - destruct v as [[cl cur]|]; cbn [r_step t_step forget forget_file].
    + destruct (due crit off (rstart cur) (rbytes cur) t); cbn [forget].
      * rewrite map_app. unfold forget_file, rbytes. cbn. rewrite app_nil_r. reflexivity.
      * unfold forget_file at 2. cbn [rstart]. rewrite rbytes_snoc. reflexivity.
    + unfold forget_file, rbytes. cbn. rewrite app_nil_r. reflexivity.
  - destruct v as [[cl cur]|]; cbn [r_step t_step forget]; [|reflexivity]. rewrite map_app. reflexivity.
Qed.

Lemma r_run_forget crit off ops : forall v t, forget (r_run crit off v t ops) = t_run crit off (forget v) t ops.
Proof. induction ops as [|o r IH]; intros v t; [reflexivity|]. cbn [r_run t_run]. rewrite IH, r_step_forget. reflexivity. Qed.

Lemma tfiles_forget v : List.map snd (tfiles (forget v)) = List.map rbytes (rfiles v).
Proof.
  destruct v as [[cl cur]|]; [|reflexivity]. cbn [forget tfiles rfiles]. rewrite !map_app, map_map. reflexivity.
Qed.

(* the records and the effective triggers of a history, with their instants *)
Fixpoint trecs (t : Z) (ops : list op) : list (Z * bytes) :=
  match ops with
  | [] => []
  | o :: r => match o with OWrite b | OPlain b => [(t, b)] | _ => [] end ++ trecs (clock t o) r
  end.
(* rotate() before the first write does nothing: no file has been opened yet (lazy initialisation) *)
Fixpoint trig_times (started : bool) (t : Z) (ops : list op) : list Z :=
  match ops with
  | [] => []
  | o :: r =>
    match o with
    | OWrite _ | OPlain _ => trig_times true t r
    | OTrigger => (if started then [t] else []) ++ trig_times started t r
    | _ => trig_times started (clock t o) r
    end
  end.

Definition started_of (v : rview) : bool := match v with Some _ => true | None => false end.

(* -- it is a partition of the records, in order -- *)
Lemma r_run_recs crit off ops : forall v t,
  concat (List.map rrecs (rfiles (r_run crit off v t ops))) = concat (List.map rrecs (rfiles v)) ++ trecs t ops.
Proof.
  induction ops as [|o r IH]; intros v t; [cbn; rewrite app_nil_r; reflexivity|].
  cbn [r_run trecs]. rewrite IH. rewrite app_assoc. f_equal.
  destruct o; cbn [r_step]; rewrite ?app_nil_r; try reflexivity.
  - destruct v as [[cl cur]|]; [|reflexivity]. destruct (due crit off (rstart cur) (rbytes cur) t); cbn [rfiles].
    + rewrite !map_app, !concat_app. cbn. rewrite !app_nil_r. reflexivity.
    + rewrite !map_app, !concat_app. cbn. rewrite !app_nil_r, app_assoc. reflexivity.
  - destruct v as [[cl cur]|]; [|reflexivity]. destruct (due crit off (rstart cur) (rbytes cur) t); cbn [rfiles].
    + rewrite !map_app, !concat_app. cbn. rewrite !app_nil_r. reflexivity.
    + rewrite !map_app, !concat_app. cbn. rewrite !app_nil_r, app_assoc. reflexivity.
  - destruct v as [[cl cur]|]; [|reflexivity]. cbn [rfiles]. rewrite !map_app, !concat_app. cbn. rewrite !app_nil_r. reflexivity.
Qed.

(* -- the files started by rotate() are exactly the effective triggers, with their instants -- *)
Definition trig_starts (l : list rfile) : list Z := List.map rstart (filter rtrig l).

Lemma trig_starts_app l1 l2 : trig_starts (l1 ++ l2) = trig_starts l1 ++ trig_starts l2.
Proof. unfold trig_starts. rewrite filter_app, map_app. reflexivity. Qed.

Lemma r_run_trigs crit off ops : forall v t,
  trig_starts (rfiles (r_run crit off v t ops)) = trig_starts (rfiles v) ++ trig_times (started_of v) t ops.
Proof.
  induction ops as [|o r IH]; intros v t; [cbn; rewrite app_nil_r; reflexivity|].
  cbn [r_run]. rewrite IH.
  destruct o; cbn [r_step trig_times clock]; try reflexivity.
  - destruct v as [[cl cur]|]; [|reflexivity]. destruct (due crit off (rstart cur) (rbytes cur) t); cbn [rfiles started_of].
    + rewrite !trig_starts_app. cbn. rewrite !app_nil_r. reflexivity.
    + rewrite !trig_starts_app. unfold trig_starts. cbn [filter rtrig]. destruct (rtrig cur); reflexivity.
  - destruct v as [[cl cur]|]; [|reflexivity]. destruct (due crit off (rstart cur) (rbytes cur) t); cbn [rfiles started_of].
    + rewrite !trig_starts_app. cbn. rewrite !app_nil_r. reflexivity.
    + rewrite !trig_starts_app. unfold trig_starts. cbn [filter rtrig]. destruct (rtrig cur); reflexivity.
  - destruct v as [[cl cur]|]; cbn [rfiles started_of]; [|reflexivity].
    rewrite (trig_starts_app (cl ++ [cur])). cbn. rewrite <- app_assoc. reflexivity.
Qed.

(* -- one period per file; the start of a file -- *)
Definition one_period (a : age) (off : Z) (f : rfile) : Prop :=
  forall t b, In (t, b) (rrecs f) -> period_of a (t + off) = period_of a (rstart f + off).
(* a file not started by rotate() starts with (and at the instant of) its first record *)
Definition starts_with_record (f : rfile) : Prop :=
  rtrig f = false -> exists b rest, rrecs f = (rstart f, b) :: rest.

Lemma not_due_same_period crit a off st cu t :
  age_of crit = Some a -> due crit off st cu t = false -> period_of a (t + off) = period_of a (st + off).
Proof.
  unfold due, age_of, rotate_due. intros ->. intros H. apply Bool.orb_false_iff in H. destruct H as [H _].
  apply Bool.negb_false_iff, Z.eqb_eq in H. symmetry. exact H.
Qed.

Lemma r_step_files_ok crit a off v t o :
  age_of crit = Some a ->
  Forall (fun f => one_period a off f /\ starts_with_record f) (rfiles v) ->
  Forall (fun f => one_period a off f /\ starts_with_record f) (rfiles (r_step crit off v t o)).
Proof.
  intros Ha H.
  assert (New : forall b, one_period a off {| rstart := t; rtrig := false; rrecs := [(t, b)] |}
                          /\ starts_with_record {| rstart := t; rtrig := false; rrecs := [(t, b)] |}).
  { intros b. split.
    - intros t' b' [E|[]]. injection E as <- <-. reflexivity.
    - intros _. exists b, []. reflexivity. }
  assert (W : forall b, Forall (fun f => one_period a off f /\ starts_with_record f) (rfiles (r_step crit off v t (OWrite b)))).
  { intros b. cbn [r_step]. destruct v as [[cl cur]|]; [|constructor; [apply New | constructor]].
    cbn [rfiles] in H. apply Forall_app in H. destruct H as [Hcl Hcur].
    destruct (due crit off (rstart cur) (rbytes cur) t) eqn:D; cbn [rfiles].
    - apply Forall_app. split; [apply Forall_app; split; assumption|]. constructor; [apply New | constructor].
    - apply Forall_app. split; [exact Hcl|]. constructor; [|constructor].
      inversion Hcur as [|f l [P1 P2] _]; subst. split.
      + intros t' b' Hin. cbn [rrecs rstart] in *. apply in_app_or in Hin. destruct Hin as [Hin|[E|[]]].
        * exact (P1 t' b' Hin).
        * injection E as <- <-. exact (not_due_same_period crit a off _ _ _ Ha D).
      + intros Htr. cbn [rtrig rrecs rstart] in *. destruct (P2 Htr) as [b0 [rest E]]. rewrite E. exists b0, (rest ++ [(t, b)]). reflexivity. }
  destruct o; try exact H.
  - apply W.
  - exact (W b).
  - cbn [r_step]. destruct v as [[cl cur]|]; [|exact H]. cbn [rfiles] in *.
    apply Forall_app. split; [exact H|]. constructor; [|constructor]. split.
    + intros t' b' [].
    + intros Htr. discriminate Htr.
Qed.

Lemma r_run_files_ok crit a off ops : age_of crit = Some a -> forall v t,
  Forall (fun f => one_period a off f /\ starts_with_record f) (rfiles v) ->
  Forall (fun f => one_period a off f /\ starts_with_record f) (rfiles (r_run crit off v t ops)).
Proof.
  intros Ha. induction ops as [|o r IH]; intros v t H; [exact H|].
  cbn [r_run]. apply IH. apply r_step_files_ok; assumption.
Qed.

(* -- consecutive files: a file not started by rotate() was started because the rotation was due -- *)
Fixpoint chain {A} (P : A -> A -> Prop) (l : list A) : Prop :=
  match l with
  | x :: (y :: _) as r => P x y /\ chain P r
  | _ => True
  end.

Lemma chain_snoc {A} (P : A -> A -> Prop) l x y : chain P (l ++ [x]) -> P x y -> chain P ((l ++ [x]) ++ [y]).
Proof.
  induction l as [|z l IH]; intros H Hxy; [cbn; auto|].
  destruct l as [|z' l]; cbn [app chain] in *; [tauto|]. destruct H as [H1 H2]. split; [exact H1|]. apply IH; assumption.
Qed.

Lemma chain_last {A} (P : A -> A -> Prop) l x x' : (forall z, P z x -> P z x') -> chain P (l ++ [x]) -> chain P (l ++ [x']).
Proof.
  intros HP. induction l as [|z l IH]; intros H; [exact Logic.I|].
  destruct l as [|z' l]; cbn [app chain] in *.
  - split; [apply HP; apply H | exact Logic.I].
  - destruct H as [H1 H2]. split; [exact H1 | apply IH; exact H2].
Qed.

Lemma chain_nth {A} (P : A -> A -> Prop) l : chain P l ->
  forall i x y, nth_error l i = Some x -> nth_error l (S i) = Some y -> P x y.
Proof.
  induction l as [|z l IH]; intros H i x y Hx Hy; [destruct i; discriminate|].
  destruct l as [|z' l]; [destruct i; discriminate|]. cbn [chain] in H. destruct H as [H1 H2].
  destruct i as [|i].
  - cbn in Hx, Hy. injection Hx as <-. injection Hy as <-. exact H1.
  - exact (IH H2 i x y Hx Hy).
Qed.

Definition was_due (crit : criterion) (off : Z) (f1 f2 : rfile) : Prop :=
  rtrig f2 = false -> due crit off (rstart f1) (rbytes f1) (rstart f2) = true.

Lemma r_step_chain crit off v t o :
  chain (was_due crit off) (rfiles v) -> chain (was_due crit off) (rfiles (r_step crit off v t o)).
Proof.
  intros H.
  assert (W : forall b, chain (was_due crit off) (rfiles (r_step crit off v t (OWrite b)))).
  { intros b. cbn [r_step]. destruct v as [[cl cur]|]; [|exact Logic.I]. cbn [rfiles] in H.
    destruct (due crit off (rstart cur) (rbytes cur) t) eqn:D; cbn [rfiles].
    - apply chain_snoc; [exact H|]. intros _. exact D.
    - revert H. apply chain_last. intros z Hz. exact Hz. }
  destruct o; try exact H.
  - apply W.
  - exact (W b).
  - cbn [r_step]. destruct v as [[cl cur]|]; [|exact H]. cbn [rfiles] in *.
    apply chain_snoc; [exact H|]. intros Htr. discriminate Htr.
Qed.

Lemma r_run_chain crit off ops : forall v t,
  chain (was_due crit off) (rfiles v) -> chain (was_due crit off) (rfiles (r_run crit off v t ops)).
Proof.
  induction ops as [|o r IH]; intros v t H; [exact H|]. cbn [r_run]. apply IH. apply r_step_chain. exact H.
Qed.

(* -- a clock that does not go backwards: the files are started in order -- *)
Definition ticks_nonneg (ops : list op) : Prop :=
  Forall (fun o => match o with OTick dt => (0 <= dt)%Z | _ => True end) ops.
Definition start_le (f1 f2 : rfile) : Prop := (rstart f1 <= rstart f2)%Z.
Definition mono_inv (v : rview) (t : Z) : Prop :=
  chain start_le (rfiles v) /\ match v with Some (_, cur) => (rstart cur <= t)%Z | None => True end.

Lemma r_step_mono crit off v t o : mono_inv v t -> (t <= clock t o)%Z -> mono_inv (r_step crit off v t o) (clock t o).
Proof.
  intros [H1 H2] Hc.
  assert (W : forall b, mono_inv (r_step crit off v t (OWrite b)) t).
  { intros b. cbn [r_step]. destruct v as [[cl cur]|]; [|split; [exact Logic.I | cbn; lia]]. cbn [rfiles] in H1.
    destruct (due crit off (rstart cur) (rbytes cur) t); split; cbn [rfiles rstart]; try lia.
    - apply chain_snoc; [exact H1 | exact H2].
    - revert H1. apply chain_last. intros z Hz. exact Hz. }
  destruct o; cbn [clock] in *; try (split; [exact H1 | cbn [r_step]; destruct v as [[cl cur]|]; [lia | exact Logic.I]]).
  - apply W.
  - exact (W b).
  - cbn [r_step]. destruct v as [[cl cur]|]; [|split; [exact H1 | exact Logic.I]]. unfold mono_inv. cbn [rfiles rstart] in *.
    split; [|lia]. apply chain_snoc; [exact H1 | exact H2].
Qed.

Lemma r_run_mono crit off ops : forall v t, ticks_nonneg ops -> mono_inv v t ->
  chain start_le (rfiles (r_run crit off v t ops)).
Proof.
  induction ops as [|o r IH]; intros v t Ht H; [exact (proj1 H)|].
  inversion Ht as [|o' r' Ho Hr]; subst. cbn [r_run]. apply IH; [exact Hr|]. apply r_step_mono; [exact H|].
  destruct o; cbn [clock]; lia.
Qed.

Lemma period_of_mono a x y : (x <= y)%Z -> (period_of a x <= period_of a y)%Z.
Proof. intros H. destruct a; cbn [period_of]; try (apply Z.div_le_mono; lia). exact H. Qed.

(* the record-level specification of a history: which record goes into which file *)
Definition age_files (crit : criterion) (off t0 : Z) (ops : list op) : list rfile := rfiles (r_run crit off None t0 ops).

(* The general statement, for the record-level specification: the directory is a partition of the timed records, in
   order, into files such that
   - every record of a file lies in the period of the file's start,
   - a file not started by rotate() starts with, and at the instant of, its first record,
   - the files started by rotate() are exactly the triggers after the first write, with their instants,
   - a file not started by rotate() follows a file for which - at that instant - the rotation was due,
   - if the clock never goes backwards, the files are started in order. *)
Theorem numbers_age_records c crit a t0 off ops :
  numcfg c crit -> age_of crit = Some a -> Forall basic_op ops ->
  let fl := age_files crit off t0 ops in
    reads c (wfs (s_w (fst (run (sys0 t0 off) (OStart c :: ops ++ [OStop]))))) (List.map rbytes fl)
    /\ List.map rbytes fl = List.map snd (tpartition (age_of crit) (lim_of crit) off [] None (titems t0 ops))
    /\ concat (List.map rrecs fl) = trecs t0 ops
    /\ (forall f, In f fl -> one_period a off f /\ starts_with_record f)
    /\ trig_starts fl = trig_times false t0 ops
    /\ (forall i f1 f2, nth_error fl i = Some f1 -> nth_error fl (S i) = Some f2 -> was_due crit off f1 f2)
    /\ (ticks_nonneg ops -> forall i f1 f2, nth_error fl i = Some f1 -> nth_error fl (S i) = Some f2 -> start_le f1 f2).
Proof.
  intros Hcfg Ha Hb fl. unfold fl, age_files.
  assert (E : List.map rbytes (rfiles (r_run crit off None t0 ops))
              = List.map snd (tpartition (age_of crit) (lim_of crit) off [] None (titems t0 ops))).
  { pose proof (t_run_partition crit off ops None t0) as E. cbn [tcl tcu] in E. rewrite <- E.
    change (@None (list tfile * tfile)) with (forget None). rewrite <- r_run_forget, tfiles_forget. reflexivity. }
  split. { rewrite E. exact (numbers_age_partition c crit t0 off ops Hcfg Hb). }
  split; [exact E|].
  split. { rewrite r_run_recs. reflexivity. }
  split. { apply Forall_forall. apply (r_run_files_ok crit a off ops Ha). constructor. }
  split. { rewrite r_run_trigs. reflexivity. }
  split. { apply chain_nth. apply r_run_chain. exact Logic.I. }
  intros Ht. apply chain_nth. apply r_run_mono; [exact Ht|]. split; exact Logic.I.
Qed.

(* C09 for the pure age criterion, without reference to the oracle: the directory is an in-order partition of the
   records such that each file holds records of ONE period (that of its start), and no rotation happens inside a
   period - two consecutive files belong to different periods unless rotate() separated them; with a clock that
   does not go backwards, to a LATER period. *)
Theorem numbers_age_periods_pure c a t0 off ops :
  numcfg c (CAge a) -> Forall basic_op ops ->
  exists fl : list rfile,
    reads c (wfs (s_w (fst (run (sys0 t0 off) (OStart c :: ops ++ [OStop]))))) (List.map rbytes fl)
    /\ concat (List.map rrecs fl) = trecs t0 ops
    /\ (forall f t b, In f fl -> In (t, b) (rrecs f) -> period_of a (t + off) = period_of a (rstart f + off))
    /\ (forall f, In f fl -> rtrig f = false -> exists b rest, rrecs f = (rstart f, b) :: rest)
    /\ List.map rstart (filter rtrig fl) = trig_times false t0 ops
    /\ (forall i f1 f2, nth_error fl i = Some f1 -> nth_error fl (S i) = Some f2 -> rtrig f2 = false ->
          period_of a (rstart f1 + off) <> period_of a (rstart f2 + off))
    /\ (ticks_nonneg ops -> forall i f1 f2, nth_error fl i = Some f1 -> nth_error fl (S i) = Some f2 ->
          (period_of a (rstart f1 + off) <= period_of a (rstart f2 + off))%Z
          /\ (rtrig f2 = false -> (period_of a (rstart f1 + off) < period_of a (rstart f2 + off))%Z)).
Proof.
  intros Hcfg Hb. destruct (numbers_age_records c (CAge a) a t0 off ops Hcfg eq_refl Hb) as [H1 [_ [H2 [H3 [H4 [H5 H6]]]]]].
  exists (age_files (CAge a) off t0 ops). split; [exact H1|]. split; [exact H2|].
  split. { intros f t b Hf. apply (proj1 (H3 f Hf)). }
  split. { intros f Hf. apply (proj2 (H3 f Hf)). }
  split; [exact H4|].
  assert (N : forall i f1 f2, nth_error (age_files (CAge a) off t0 ops) i = Some f1 ->
              nth_error (age_files (CAge a) off t0 ops) (S i) = Some f2 -> rtrig f2 = false ->
              period_of a (rstart f1 + off) <> period_of a (rstart f2 + off)).
  { intros i f1 f2 E1 E2 Htr. specialize (H5 i f1 f2 E1 E2 Htr).
    unfold due, rotate_due in H5. cbn [crit_parts fst snd] in H5. rewrite Bool.orb_false_r in H5.
    apply Bool.negb_true_iff, Z.eqb_neq in H5. exact H5. }
  split; [exact N|].
  intros Ht i f1 f2 E1 E2. pose proof (H6 Ht i f1 f2 E1 E2) as L. unfold start_le in L.
  assert (M : (period_of a (rstart f1 + off) <= period_of a (rstart f2 + off))%Z) by (apply period_of_mono; lia).
  split; [exact M|]. intros Htr. pose proof (N i f1 f2 E1 E2 Htr). lia.
Qed.

(* age-or-size: one period per file as well; a file not started by rotate() follows a file of another period or
   one that had exceeded the size limit *)
Theorem numbers_age_or_size_periods_pure c a m t0 off ops :
  numcfg c (CAgeOrSize a m) -> Forall basic_op ops ->
  exists fl : list rfile,
    reads c (wfs (s_w (fst (run (sys0 t0 off) (OStart c :: ops ++ [OStop]))))) (List.map rbytes fl)
    /\ concat (List.map rrecs fl) = trecs t0 ops
    /\ (forall f t b, In f fl -> In (t, b) (rrecs f) -> period_of a (t + off) = period_of a (rstart f + off))
    /\ (forall f, In f fl -> rtrig f = false -> exists b rest, rrecs f = (rstart f, b) :: rest)
    /\ List.map rstart (filter rtrig fl) = trig_times false t0 ops
    /\ (forall i f1 f2, nth_error fl i = Some f1 -> nth_error fl (S i) = Some f2 -> rtrig f2 = false ->
          period_of a (rstart f1 + off) <> period_of a (rstart f2 + off) \/ (m < N.of_nat (length (rbytes f1)))%N)
    /\ (ticks_nonneg ops -> forall i f1 f2, nth_error fl i = Some f1 -> nth_error fl (S i) = Some f2 ->
          (period_of a (rstart f1 + off) <= period_of a (rstart f2 + off))%Z).
Proof.
  intros Hcfg Hb. destruct (numbers_age_records c (CAgeOrSize a m) a t0 off ops Hcfg eq_refl Hb) as [H1 [_ [H2 [H3 [H4 [H5 H6]]]]]].
  exists (age_files (CAgeOrSize a m) off t0 ops). split; [exact H1|]. split; [exact H2|].
  split. { intros f t b Hf. apply (proj1 (H3 f Hf)). }
  split. { intros f Hf. apply (proj2 (H3 f Hf)). }
  split; [exact H4|].
  split.
  { intros i f1 f2 E1 E2 Htr. specialize (H5 i f1 f2 E1 E2 Htr).
    unfold due, rotate_due in H5. cbn [crit_parts fst snd] in H5.
    apply Bool.orb_true_iff in H5. destruct H5 as [H5|H5].
    - left. apply Bool.negb_true_iff, Z.eqb_neq in H5. exact H5.
    - right. apply N.ltb_lt. exact H5. }
  intros Ht i f1 f2 E1 E2. pose proof (H6 Ht i f1 f2 E1 E2) as L. unfold start_le in L. apply period_of_mono. lia.
Qed.

Print Assumptions numbers_age_flags.
Print Assumptions numbers_age_partition.
Print Assumptions numbers_age_oracle.
Print Assumptions numbers_age_records.
Print Assumptions numbers_age_periods_pure.
Print Assumptions numbers_age_or_size_periods_pure.

(* ------------------------------------------------------------------ examples *)
Import String.StringSyntax.
Open Scope string_scope.
Definition age_cfg (app : bool) (cap : option nat) (crit : criterion) : config :=
  {| c_spec := {| fbase := bs "app"; fdisc := None; fts := false; fsfx := Some (bs "log") |};
     c_append := app; c_cap := cap; c_rot := Some (crit, NNumbers, KNever); c_utc := false;
     c_symlink := false; c_bg := false; c_async := false; c_start := None |}.
Lemma age_numcfg app cap crit : numcfg (age_cfg app cap crit) crit.
Proof. repeat split. Qed.

Definition dir_of (x : sys) : list (bytes * N * bytes) :=
  match snapshot (s_w x) with ObsSnap l _ _ => l | _ => [] end.
Definition flags_of (obs : list obs) : list bool := List.map rot_of obs.

(* Age::Minute; the writer is started 59 s before the full minute, a record every 30 s: the first two records lie
   in minute 0, the next two in minute 1, the fifth in minute 2; then rotate() and one more record in minute 2 *)
Definition minute_ops : list op :=
  [OWrite (bs "a"); OTick 30; OWrite (bs "b"); OTick 30; OWrite (bs "c"); OTick 30; OPlain (bs "d"); OFlush; OTick 30;
   OWrite (bs "e"); OTrigger; OWrite (bs "f")].

Example minute_hyps : numcfg (age_cfg false (Some 8%nat) (CAge AMinute)) (CAge AMinute) /\ Forall basic_op minute_ops /\ ticks_nonneg minute_ops.
Proof. split; [apply age_numcfg|]. split; repeat constructor; cbn; lia. Qed.

Example minute_dir :
  dir_of (fst (run (sys0 1 0) (OStart (age_cfg false (Some 8%nat) (CAge AMinute)) :: minute_ops ++ [OStop])))
  = [ (bs "app_r00000.log", 0%N, bs "ab"); (bs "app_r00001.log", 0%N, bs "cd"); (bs "app_r00002.log", 0%N, bs "e");
      (bs "app_rCURRENT.log", 0%N, bs "f") ]
  /\ flags_of (snd (run (sys0 1 0) (OStart (age_cfg false (Some 8%nat) (CAge AMinute)) :: minute_ops)))
     = [false; false; false; false; false; true; false; false; false; false; true; false; false].
Proof. split; vm_compute; reflexivity. Qed.

(* the specification of that history: the timed items, the oracle's partition, the record-level files *)
Example minute_spec :
  titems 1 minute_ops = [TRec 1 (bs "a"); TRec 31 (bs "b"); TRec 61 (bs "c"); TRec 91 (bs "d"); TRec 121 (bs "e"); TTrig 121; TRec 121 (bs "f")]
  /\ tpartition (Some AMinute) None 0 [] None (titems 1 minute_ops)
     = [(1%Z, bs "ab"); (61%Z, bs "cd"); (121%Z, bs "e"); (121%Z, bs "f")]
  /\ age_files (CAge AMinute) 0 1 minute_ops
     = [ {| rstart := 1; rtrig := false; rrecs := [(1%Z, bs "a"); (31%Z, bs "b")] |};
         {| rstart := 61; rtrig := false; rrecs := [(61%Z, bs "c"); (91%Z, bs "d")] |};
         {| rstart := 121; rtrig := false; rrecs := [(121%Z, bs "e")] |};
         {| rstart := 121; rtrig := true; rrecs := [(121%Z, bs "f")] |} ].
Proof. repeat split; vm_compute; reflexivity. Qed.

(* the theorems, instantiated *)
Example minute_instance :
  reads (age_cfg false (Some 8%nat) (CAge AMinute))
        (wfs (s_w (fst (run (sys0 1 0) (OStart (age_cfg false (Some 8%nat) (CAge AMinute)) :: minute_ops ++ [OStop])))))
        [bs "ab"; bs "cd"; bs "e"; bs "f"].
Proof.
  destruct minute_hyps as [H1 [H2 _]].
  exact (numbers_age_partition (age_cfg false (Some 8%nat) (CAge AMinute)) (CAge AMinute) 1 0 minute_ops H1 H2).
Qed.

Example minute_flag_instance :
  nth_error (snd (run (sys0 1 0) (OStart (age_cfg false (Some 8%nat) (CAge AMinute)) :: minute_ops))) 5 = Some (ObsRes 0 true).
Proof.
  destruct minute_hyps as [H1 [H2 _]].
  rewrite (numbers_age_flags_age (age_cfg false (Some 8%nat) (CAge AMinute)) AMinute 1 0 minute_ops 4 (OWrite (bs "c")) (bs "c")
             H1 H2 eq_refl (or_introl eq_refl)).
  vm_compute. reflexivity.
Qed.

(* the zone offset decides: with an offset of 29 s the same instants fall into the minutes 0 1 1 2 2 *)
Example minute_offset_dir :
  dir_of (fst (run (sys0 1 29) (OStart (age_cfg true None (CAge AMinute)) :: minute_ops ++ [OStop])))
  = [ (bs "app_r00000.log", 0%N, bs "a"); (bs "app_r00001.log", 0%N, bs "bc"); (bs "app_r00002.log", 0%N, bs "de");
      (bs "app_rCURRENT.log", 0%N, bs "f") ].
Proof. vm_compute. reflexivity. Qed.

(* age-or-size, limit 1 byte: the size is checked before the write, so a file is closed by the first write that
   finds it larger than the limit ("ab" by "c"; "c" is not larger than 1, so "d" follows it) or in another period
   ("cd" by "e") *)
Example minute_or_size_dir :
  dir_of (fst (run (sys0 1 0) (OStart (age_cfg false (Some 8%nat) (CAgeOrSize AMinute 1)) ::
                               [OWrite (bs "ab"); OWrite (bs "c"); OWrite (bs "d"); OTick 60; OWrite (bs "e"); OStop])))
  = [ (bs "app_r00000.log", 0%N, bs "ab"); (bs "app_r00001.log", 0%N, bs "cd"); (bs "app_rCURRENT.log", 0%N, bs "e") ].
Proof. vm_compute. reflexivity. Qed.

(* observations about the start instant of a file *)
(* rotate() before the first write does nothing (no file is open: initialisation is lazy), and the first file is
   started at the first WRITE, not when the writer is built: built in minute 0, first record in minute 1, second in
   minute 1 - one file *)
Example trigger_before_first_write :
  dir_of (fst (run (sys0 1 0) (OStart (age_cfg false None (CAge AMinute)) ::
                               [OTrigger; OTick 60; OWrite (bs "a"); OTick 30; OWrite (bs "b"); OStop])))
  = [ (bs "app_rCURRENT.log", 0%N, bs "ab") ]
  /\ trig_times false 1 [OTrigger; OTick 60; OWrite (bs "a"); OTick 30; OWrite (bs "b")] = [].
Proof. split; vm_compute; reflexivity. Qed.

(* a file started by rotate() is started at the instant of rotate(): when the next record comes in another period,
   the file is closed empty *)
Example trigger_then_other_period :
  dir_of (fst (run (sys0 1 0) (OStart (age_cfg false None (CAge AMinute)) ::
                               [OWrite (bs "a"); OTrigger; OTick 60; OWrite (bs "b"); OStop])))
  = [ (bs "app_r00000.log", 0%N, bs "a"); (bs "app_r00001.log", 0%N, []); (bs "app_rCURRENT.log", 0%N, bs "b") ].
Proof. vm_compute. reflexivity. Qed.

(* the comparison is "another period", not "a later period": a clock that is set back one minute rotates as well
   (this is why the statements above need no assumption about the ticks) *)
Example clock_set_back :
  dir_of (fst (run (sys0 61 0) (OStart (age_cfg false None (CAge AMinute)) ::
                                [OWrite (bs "a"); OTick (-60); OWrite (bs "b"); OStop])))
  = [ (bs "app_r00000.log", 0%N, bs "a"); (bs "app_rCURRENT.log", 0%N, bs "b") ].
Proof. vm_compute. reflexivity. Qed.

(* outside the scope of the theorems (which start from the empty directory): a writer that is restarted with append
   continues rCURRENT, and the start instant of the continued file is the file's creation time, not the instant of
   the restart - written to in minute 0 by the first writer, it is closed by the first write of the second writer in
   minute 1.  One period per file holds here as well. *)
Example restart_append_birth_time :
  dir_of (fst (run (sys0 1 0) [OStart (age_cfg true None (CAge AMinute)); OWrite (bs "a"); OStop; OTick 60;
                               OStart (age_cfg true None (CAge AMinute)); OWrite (bs "b"); OTick 1; OWrite (bs "c"); OStop]))
  = [ (bs "app_r00000.log", 0%N, bs "a"); (bs "app_rCURRENT.log", 0%N, bs "bc") ].
Proof. vm_compute. reflexivity. Qed.
