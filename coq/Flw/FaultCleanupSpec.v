(* C19 with rotation AND cleanup: the executable SPECIFICATION of what a FileLogWriter with Numbers naming (rCURRENT,
   r00000, r00001, ...), size criterion, direct mode (no buffer), cleanup KeepLogFiles n (deletion only, in the
   caller's thread), synchronous, makes of a list of records when the file-system calls fail as an arbitrary fault
   oracle says; and what the specification implies.  The refinement proof (the model `run` does exactly this) is in
   FaultCleanup.v.  FaultRotSpec.v is the same without cleanup; the cases (i)-(iv) described there stay as they are.

   What the cleanup adds, read off mount_next / initialize / cleanup_impl / cleanup_loop (and checked by vm_compute
   against `run` for all oracles up to length 8, see FaultCleanup.v):

   The cleanup runs (a) at the end of a rotation, after the new rCURRENT has been opened, and (b) at the end of the
   initialisation, after rCURRENT has been opened (and its size has been read, with append).  It makes one read_dir
   call and then one remove_file call for every closed file beyond the newest n, from the newest of them to the
   oldest; the first failing call ends it with an error.

   (v)   a failing call of the cleanup AT A ROTATION: mount_next returns Err, but the state has been switched to the
         new writer already; write_buffer reports ELogFile and WRITES THE RECORD INTO THE NEW rCURRENT.  Nothing is
         lost, the log call returns normally.  What was not deleted stays: the directory holds MORE closed files than
         n (and, when a remove_file failed half-way, with a gap in the numbers: the newer surplus files are gone, the
         older ones are still there).  The next rotation runs the cleanup again over everything that is there, so
         the limit is restored as soon as one cleanup gets through.
   (vi)  a failing call of the cleanup AT THE INITIALISATION: initialize returns Err like for every other failing step
         of the initialisation: write_buffer returns Err BEFORE anything is written, the record is LOST, the handle
         reports EWrite, the state stays `Initial`.  rCURRENT has been created by then: without append the next
         initialisation renames this empty file to r<next index> (an empty closed file appears), with append it is
         continued.  The next initialisation lists the directory again (the index is the highest one found + 1).
   So a failure inside the cleanup loses a record exactly in case (vi) - the record being written, as C19 allows - and
   never at a rotation.

   The closed files are no longer a contiguous range: the specification keeps them as a list of (index, content),
   ascending. *)
Require Import FL.Base.Bytes FL.Base.BytesFacts FL.Fs.Fs FL.Flw.Model FL.Flw.Run FL.Flw.NumRun FL.Flw.FaultFacts FL.Flw.FaultRotSpec.
From Coq Require Import ZifyN ZifyNat ZifyBool.
Open Scope nat_scope.

(* ------------------------------------------------------------------ the specification *)
(* the closed files r<i>: index and content, ascending *)
Definition cdir := list (nat * bytes).
(* the index a (re-)initialisation finds: the highest one + 1 *)
Definition next_idx (cl : cdir) : nat := fold_left (fun _ p => S (fst p)) cl 0.

Inductive kst :=
| KInit (cl : cdir) (created : bool)         (* writer not initialised; rCURRENT absent / present and empty *)
| KCur (cl : cdir) (idx : nat) (d : bytes)   (* rCURRENT holds d, the writer writes into it; the next closed file is r<idx> *)
| KOld (cl : cdir) (idx : nat) (d : bytes).  (* closed files cl ++ [(idx, d)], NO rCURRENT: it was renamed to r<idx>, the new one
                                                could not be created; the writer still writes into r<idx> *)

(* the remove_file calls for the files beyond the limit, newest first; the first failure ends the loop: that file
   and the older ones stay *)
Fixpoint s_remove (old : cdir) (fl : list bool) : cdir * bool * list bool :=
  match old with
  | [] => ([], true, fl)
  | p :: r => let '(f, fl1) := pop fl in if f then (old, false, fl1) else s_remove r fl1
  end.
(* one cleanup: read_dir, then the removals; the result: the closed files that are left, success, the oracle *)
Definition s_cleanup (n : nat) (cl : cdir) (fl : list bool) : cdir * bool * list bool :=
  let '(f0, fl0) := pop fl in                                  (* read_dir *)
  if f0 then (cl, false, fl0) else
  let desc := rev cl in
  let '(rest, ok, fl1) := s_remove (skipn n desc) fl0 in
  (rev rest ++ rev (firstn n desc), ok, fl1).

(* an initialised writer whose file (rCURRENT, or - old = true - the closed file r<idx>) holds d *)
Definition k_active (m : N) (n : nat) (old : bool) (cl : cdir) (idx : nat) (d b : bytes) (fl : list bool)
  : kst * list ecode * list bool :=
  let same d' := if old then KOld cl idx d' else KCur cl idx d' in
  if (m <? N.of_nat (length d))%N then
    let '(f1, fl1) := pop fl in                               (* rename rCURRENT -> r<idx> *)
    if f1 then let '(d', e, fl2) := s_write d b fl1 in (same d', ELogFile :: e, fl2)
    else
      let '(f2, fl2) := pop fl1 in                            (* create the new rCURRENT *)
      if f2 then let '(d', e, fl3) := s_write d b fl2 in (KOld cl idx d', ELogFile :: e, fl3)
      else
        let '(cl2, ok, fl3) := s_cleanup n (cl ++ [(idx, d)]) fl2 in     (* the cleanup; then the record goes into the new file *)
        let '(d', e, fl4) := s_write [] b fl3 in
        (KCur cl2 (S idx) d', (if ok then [] else [ELogFile]) ++ e, fl4)
  else let '(d', e, fl1) := s_write d b fl in (same d', e, fl1).

(* a writer that is not initialised yet *)
Definition k_init (app : bool) (m : N) (n : nat) (cl : cdir) (created : bool) (b : bytes) (fl : list bool)
  : kst * list ecode * list bool :=
  let '(f1, fl1) := pop fl in                                 (* read_dir *)
  if f1 then (KInit cl created, [EWrite], fl1) else
  let idx := next_idx cl in
  let '(f2, fl2) := if app then (false, fl1) else pop fl1 in  (* rename of an old rCURRENT (not with append) *)
  if f2 then (KInit cl created, [EWrite], fl2) else
  let cl1 := if app then cl else if created then cl ++ [(idx, [])] else cl in
  let idx1 := if app then idx else if created then S idx else idx in
  let created1 := if app then created else false in
  let '(f3, fl3) := pop fl2 in                                (* open/create rCURRENT *)
  if f3 then (KInit cl1 created1, [EWrite], fl3) else
  let '(f4, fl4) := if app then pop fl3 else (false, fl3) in  (* metadata (with append) *)
  if f4 then (KInit cl1 true, [EWrite], fl4) else
  let '(cl2, ok, fl5) := s_cleanup n cl1 fl4 in               (* the cleanup *)
  if ok then k_active m n false cl2 idx1 [] b fl5 else (KInit cl2 true, [EWrite], fl5).

Definition kstep (app : bool) (m : N) (n : nat) (st : kst) (fl : list bool) (b : bytes) : kst * list ecode * list bool :=
  match st with
  | KInit cl created => k_init app m n cl created b fl
  | KCur cl idx d => k_active m n false cl idx d b fl
  | KOld cl idx d => k_active m n true cl idx d b fl
  end.

Fixpoint simk_st (app : bool) (m : N) (n : nat) (st : kst) (fl : list bool) (recs : list bytes) : kst * list ecode * list bool :=
  match recs with
  | [] => (st, [], fl)
  | b :: rest =>
    let '(st1, e1, fl1) := kstep app m n st fl b in
    let '(st2, e2, fl2) := simk_st app m n st1 fl1 rest in (st2, e1 ++ e2, fl2)
  end.

Definition k_closed (st : kst) : cdir :=
  match st with KInit cl _ => cl | KCur cl _ _ => cl | KOld cl idx d => cl ++ [(idx, d)] end.
Definition k_cur (st : kst) : option bytes :=
  match st with KInit _ created => if created then Some [] else None | KCur _ _ d => Some d | KOld _ _ _ => None end.

(* the specification in the form asked for: closed files (index, content), current file, reported errors (with their
   codes), the rest of the oracle *)
Definition simk (app : bool) (m : N) (n : nat) (fl : list bool) (recs : list bytes) : cdir * option bytes * list ecode * list bool :=
  let '(st, e, fl') := simk_st app m n (KInit [] false) fl recs in (k_closed st, k_cur st, e, fl').

(* ------------------------------------------------------------------ lists: the newest n, the others *)
Definition lastn {A} (n : nat) (l : list A) : list A := rev (firstn n (rev l)).
Definition butlastn {A} (n : nat) (l : list A) : list A := rev (skipn n (rev l)).

Lemma lastn_split {A} n (l : list A) : l = butlastn n l ++ lastn n l.
Proof. unfold butlastn, lastn. rewrite <- rev_app_distr, firstn_skipn, rev_involutive. reflexivity. Qed.
Lemma lastn_length {A} n (l : list A) : length (lastn n l) <= n.
Proof. unfold lastn. rewrite rev_length. apply firstn_le_length. Qed.
Lemma lastn_length_eq {A} n (l : list A) : length (lastn n l) = Nat.min n (length l).
Proof. unfold lastn. rewrite rev_length, firstn_length, rev_length. reflexivity. Qed.

(* ------------------------------------------------------------------ the cleanup *)
Lemma ntrue_app a b : ntrue (a ++ b) = ntrue a + ntrue b.
Proof. unfold ntrue. rewrite filter_app, app_length. reflexivity. Qed.

Lemma s_remove_spec : forall old fl,
  let '(rest, ok, fl') := s_remove old fl in
  exists used removed, fl = used ++ fl' /\ old = removed ++ rest
    /\ (ok = true -> rest = [] /\ ntrue used = 0) /\ (ok = false -> ntrue used = 1 /\ rest <> []).
Proof.
  induction old as [|p r IH]; intros fl; cbn [s_remove].
  - exists [], []. repeat split; try reflexivity; discriminate.
  - destruct (pop_cases fl) as [[-> ->] | [f [fr [-> ->]]]].
    + specialize (IH []). destruct (s_remove r []) as [[rest ok] fl'].
      destruct IH as (used & removed & Hu & Hr & Ht & Hf). exists used, (p :: removed).
      split; [exact Hu|]. split; [cbn [app]; rewrite <- Hr; reflexivity|]. split; assumption.
    + destruct f.
      * exists [true], []. split; [reflexivity|]. split; [reflexivity|]. split; [discriminate|]. intros _. split; [reflexivity | discriminate].
      * specialize (IH fr). destruct (s_remove r fr) as [[rest ok] fl'].
        destruct IH as (used & removed & Hu & Hr & Ht & Hf). exists (false :: used), (p :: removed).
        split; [cbn [app]; rewrite <- Hu; reflexivity|]. split; [cbn [app]; rewrite <- Hr; reflexivity|].
        rewrite ntrue_cons. cbn [Nat.add]. split; assumption.
Qed.

(* what a cleanup leaves: the newest n files, and - only if it failed - older ones: a front part `older` of the
   files beyond the limit (the removals go from the newest of them to the oldest); it consumes as many failing
   oracle entries as it reports errors (at most one) *)
Theorem s_cleanup_spec n cl fl :
  let '(cl2, ok, fl') := s_cleanup n cl fl in
  exists used older gone, fl = used ++ fl' /\ cl2 = older ++ lastn n cl /\ butlastn n cl = older ++ gone
    /\ (ok = true -> older = [] /\ ntrue used = 0) /\ (ok = false -> ntrue used = 1).
Proof.
  unfold s_cleanup. destruct (pop_cases fl) as [[-> ->] | [f [fr [-> ->]]]].
  - pose proof (s_remove_spec (skipn n (rev cl)) []) as S. destruct (s_remove (skipn n (rev cl)) []) as [[rest ok] fl'].
    destruct S as (used & removed & Hu & Hr & Ht & Hf). exists used, (rev rest), (rev removed).
    split; [exact Hu|]. split; [reflexivity|]. split; [unfold butlastn; rewrite Hr, rev_app_distr; reflexivity|].
    split.
    + intros E. destruct (Ht E) as [-> H0]. split; [reflexivity | exact H0].
    + intros E. exact (proj1 (Hf E)).
  - destruct f.
    + exists [true], (butlastn n cl), []. split; [reflexivity|]. split; [apply lastn_split|]. split; [rewrite app_nil_r; reflexivity|].
      split; [discriminate | reflexivity].
    + pose proof (s_remove_spec (skipn n (rev cl)) fr) as S. destruct (s_remove (skipn n (rev cl)) fr) as [[rest ok] fl'].
      destruct S as (used & removed & Hu & Hr & Ht & Hf). exists (false :: used), (rev rest), (rev removed).
      split; [cbn [app]; rewrite <- Hu; reflexivity|]. split; [reflexivity|].
      split; [unfold butlastn; rewrite Hr, rev_app_distr; reflexivity|]. rewrite ntrue_cons. cbn [Nat.add].
      split.
      * intros E. destruct (Ht E) as [-> H0]. split; [reflexivity | exact H0].
      * intros E. exact (proj1 (Hf E)).
Qed.

(* a cleanup only deletes: every file it leaves was there, with the same content *)
Lemma s_cleanup_incl n cl fl p : In p (fst (fst (s_cleanup n cl fl))) -> In p cl.
Proof.
  pose proof (s_cleanup_spec n cl fl) as S. destruct (s_cleanup n cl fl) as [[cl2 ok] fl']. cbn [fst].
  destruct S as (used & older & gone & _ & -> & Hb & _). intros H. rewrite (lastn_split n cl), Hb.
  apply in_app_or in H. apply in_or_app. destruct H as [H|H]; [left; apply in_or_app; left; exact H | right; exact H].
Qed.

Lemma s_remove_all_false old fl : all_false fl -> exists fl', s_remove old fl = ([], true, fl') /\ all_false fl'.
Proof.
  revert fl. induction old as [|p r IH]; intros fl H; cbn [s_remove]; [eauto|].
  destruct (pop_all_false fl H) as [E1 E2]. destruct (pop fl) as [f fl1]. cbn [fst snd] in *. subst f. apply IH. exact E2.
Qed.
(* without failures: exactly the newest n files are left *)
Lemma s_cleanup_all_false n cl fl : all_false fl -> exists fl', s_cleanup n cl fl = (lastn n cl, true, fl') /\ all_false fl'.
Proof.
  intros H. unfold s_cleanup. destruct (pop_all_false fl H) as [E1 E2]. destruct (pop fl) as [f fl0]. cbn [fst snd] in *. subst f.
  destruct (s_remove_all_false (skipn n (rev cl)) fl0 E2) as [fl' [E H']]. rewrite E. exists fl'. split; [reflexivity | exact H'].
Qed.

(* ------------------------------------------------------------------ one record *)
(* the content of the file the writer writes into *)
Definition k_wcur (st : kst) : bytes := match st with KInit _ _ => [] | KCur _ _ d => d | KOld _ _ d => d end.
(* the closed files apart from the one the writer still writes into *)
Definition k_cl (st : kst) : cdir := match st with KInit cl _ => cl | KCur cl _ _ => cl | KOld cl _ _ => cl end.
(* the file that the step from st to st' closes for good (a completed rotation): its index and final content *)
Definition closes (st st' : kst) : cdir :=
  match st, st' with
  | KCur _ idx d, KCur _ idx' _ => if Nat.eqb idx idx' then [] else [(idx, d)]
  | KOld _ idx d, KCur _ idx' _ => if Nat.eqb idx idx' then [] else [(idx, d)]
  | _, _ => []
  end.

(* what one step does: the oracle entries it uses, the reports (one per failing entry), at most one record lost - and
   then reported with EWrite -; the LOG (the files closed so far, then the writer's file) grows by exactly the record
   unless it is lost; the closed files in the directory are files that were closed (or empty files left by a failed
   initialisation), unchanged: the cleanup only deletes *)
Definition kstep_ok (st : kst) (fl : list bool) (b : bytes) (r : kst * list ecode * list bool) : Prop :=
  let '(st', e, fl') := r in
  exists used, fl = used ++ fl' /\ length e = ntrue used /\ nlost e <= 1
    /\ concat (List.map snd (closes st st')) ++ k_wcur st' = k_wcur st ++ (if lost e then [] else b)
    /\ (forall p, In p (k_cl st') -> In p (k_cl st) \/ In p (closes st st') \/ snd p = []).

Lemma lost_cons_logfile e : lost (ELogFile :: e) = lost e.
Proof. reflexivity. Qed.
Lemma nlost_cons_logfile e : nlost (ELogFile :: e) = nlost e.
Proof. reflexivity. Qed.

Lemma k_active_ok m n (old : bool) cl idx d b fl :
  kstep_ok (if old then KOld cl idx d else KCur cl idx d) fl b (k_active m n old cl idx d b fl).
Proof.
  set (st := if old then KOld cl idx d else KCur cl idx d).
  assert (Wst : k_wcur st = d) by (unfold st; destruct old; reflexivity).
  assert (Cst : k_cl st = cl) by (unfold st; destruct old; reflexivity).
  (* the record is written into the old file: the state keeps its shape *)
  assert (W : forall pre fl0 errs0 (old' : bool), fl = pre ++ fl0 -> ntrue pre = length errs0 -> lost errs0 = false -> nlost errs0 = 0 ->
     (old = true -> old' = true) ->
     let '(d', e, fl1) := s_write d b fl0 in
     kstep_ok st fl b ((if old' then KOld cl idx d' else KCur cl idx d'), errs0 ++ e, fl1)).
  { intros pre fl0 errs0 old' Hfl Hn Hl Hnl Ho. pose proof (s_write_ok d b fl0) as S.
    destruct (s_write d b fl0) as [[d' e] fl1]. destruct S as [used [Hu [He [Hc Hd]]]].
    exists (pre ++ used). split; [rewrite Hfl, Hu, app_assoc; reflexivity|].
    split; [rewrite app_length, ntrue_app; lia|].
    split; [rewrite nlost_app; destruct Hc as [->| ->]; cbn; lia|].
    assert (El : lost (errs0 ++ e) = lost e) by (unfold lost in *; rewrite existsb_app, Hl; reflexivity).
    rewrite El, Wst, Cst. split.
    - assert (Ecl : closes st (if old' then KOld cl idx d' else KCur cl idx d') = []).
      { unfold st. destruct old, old'; cbn [closes]; rewrite ?Nat.eqb_refl; reflexivity. }
      rewrite Ecl. cbn [List.map concat app]. destruct old'; cbn [k_wcur]; exact Hd.
    - intros p Hp. left. destruct old'; exact Hp. }
  unfold k_active. fold st.
  destruct (m <? N.of_nat (length d))%N.
  - destruct (pop_cases fl) as [[-> ->] | [f1 [r1 [-> ->]]]].
    + (* oracle exhausted: the rotation and the cleanup succeed *)
      cbn [pop hd tl].
      destruct (s_cleanup_all_false n (cl ++ [(idx, d)]) [] (fun f H => match H with end)) as [fl3 [Ec Hf3]]. rewrite Ec.
      assert (fl3 = []) by (destruct fl3 as [|x r]; [reflexivity|]; pose proof (s_cleanup_spec n (cl ++ [(idx, d)]) []) as S; rewrite Ec in S;
                            destruct S as (u & _ & _ & Hu & _); destruct u; discriminate). subst fl3.
      pose proof (s_write_ok [] b []) as S. destruct (s_write [] b []) as [[d' e] fl1]. destruct S as [used [Hu [He [Hc Hd]]]].
      exists used. split; [exact Hu|]. cbn [app]. split; [exact He|]. split; [destruct Hc as [->| ->]; cbn; lia|].
      split.
      * assert (Ecl : closes st (KCur (lastn n (cl ++ [(idx, d)])) (S idx) d') = [(idx, d)]).
        { unfold st. destruct old; cbn [closes]; rewrite (proj2 (Nat.eqb_neq idx (S idx))) by lia; reflexivity. }
        rewrite Ecl, Wst. cbn [List.map concat snd k_wcur]. rewrite app_nil_r, Hd. reflexivity.
      * intros p Hp. cbn [k_cl] in Hp. assert (Hin : In p (cl ++ [(idx, d)])).
        { rewrite (lastn_split n (cl ++ [(idx, d)])). apply in_or_app. right. exact Hp. }
        apply in_app_or in Hin. rewrite Cst. destruct Hin as [H|[<-|[]]]; [left; exact H|]. right. left.
        unfold st. destruct old; cbn [closes]; rewrite (proj2 (Nat.eqb_neq idx (S idx))) by lia; left; reflexivity.
    + destruct f1.
      * (* the rename fails *)
        pose proof (W [true] r1 [ELogFile] old eq_refl eq_refl eq_refl eq_refl (fun H => H)) as S.
        destruct (s_write d b r1) as [[d' e] fl2]. exact S.
      * destruct (pop_cases r1) as [[-> ->] | [f2 [r2 [-> ->]]]].
        -- cbn [pop hd tl].
           destruct (s_cleanup_all_false n (cl ++ [(idx, d)]) [] (fun f H => match H with end)) as [fl3 [Ec Hf3]]. rewrite Ec.
           assert (fl3 = []) by (destruct fl3 as [|x r]; [reflexivity|]; pose proof (s_cleanup_spec n (cl ++ [(idx, d)]) []) as S; rewrite Ec in S;
                                 destruct S as (u & _ & _ & Hu & _); destruct u; discriminate). subst fl3.
           pose proof (s_write_ok [] b []) as S. destruct (s_write [] b []) as [[d' e] fl1]. destruct S as [used [Hu [He [Hc Hd]]]].
           exists (false :: used). split; [cbn [app]; rewrite <- Hu; reflexivity|]. cbn [app]. rewrite ntrue_cons.
           split; [exact He|]. split; [destruct Hc as [->| ->]; cbn; lia|].
           split.
           ++ assert (Ecl : closes st (KCur (lastn n (cl ++ [(idx, d)])) (S idx) d') = [(idx, d)]).
              { unfold st. destruct old; cbn [closes]; rewrite (proj2 (Nat.eqb_neq idx (S idx))) by lia; reflexivity. }
              rewrite Ecl, Wst. cbn [List.map concat snd k_wcur]. rewrite app_nil_r, Hd. reflexivity.
           ++ intros p Hp. cbn [k_cl] in Hp. assert (Hin : In p (cl ++ [(idx, d)])).
              { rewrite (lastn_split n (cl ++ [(idx, d)])). apply in_or_app. right. exact Hp. }
              apply in_app_or in Hin. rewrite Cst. destruct Hin as [H|[<-|[]]]; [left; exact H|]. right. left.
              unfold st. destruct old; cbn [closes]; rewrite (proj2 (Nat.eqb_neq idx (S idx))) by lia; left; reflexivity.
        -- destruct f2.
           ++ (* the creation of the new current file fails *)
              pose proof (W [false; true] r2 [ELogFile] true eq_refl eq_refl eq_refl eq_refl (fun _ => eq_refl)) as S.
              destruct (s_write d b r2) as [[d' e] fl3]. exact S.
           ++ (* the rotation is completed; the cleanup; the write into the new file *)
              pose proof (s_cleanup_spec n (cl ++ [(idx, d)]) r2) as C. pose proof (s_cleanup_incl n (cl ++ [(idx, d)]) r2) as CI.
              destruct (s_cleanup n (cl ++ [(idx, d)]) r2) as [[cl2 ok] fl3]. cbn [fst] in CI.
              destruct C as (cu & older & gone & Hcu & _ & _ & Hct & Hcf).
              pose proof (s_write_ok [] b fl3) as S. destruct (s_write [] b fl3) as [[d' e] fl4]. destruct S as [used [Hu [He [Hc Hd]]]].
              exists (false :: false :: cu ++ used).
              split; [cbn [app]; rewrite <- app_assoc, <- Hu, <- Hcu; reflexivity|].
              assert (Eok : length (if ok then [] else [ELogFile]) = ntrue cu /\ lost (if ok then [] else [ELogFile]) = false
                            /\ nlost (if ok then @nil ecode else [ELogFile]) = 0).
              { destruct ok; [destruct (Hct eq_refl) as [_ H0]; rewrite H0 | rewrite (Hcf eq_refl)]; repeat split. }
              destruct Eok as [E1 [E2 E3]].
              split; [rewrite !ntrue_cons, ntrue_app, app_length; cbn [Nat.add]; lia|].
              split; [rewrite nlost_app, E3; destruct Hc as [->| ->]; cbn; lia|].
              assert (El : lost ((if ok then [] else [ELogFile]) ++ e) = lost e) by (unfold lost in *; rewrite existsb_app, E2; reflexivity).
              rewrite El. split.
              ** assert (Ecl : closes st (KCur cl2 (S idx) d') = [(idx, d)]).
                 { unfold st. destruct old; cbn [closes]; rewrite (proj2 (Nat.eqb_neq idx (S idx))) by lia; reflexivity. }
                 rewrite Ecl, Wst. cbn [List.map concat snd k_wcur]. rewrite app_nil_r, Hd. reflexivity.
              ** intros p Hp. cbn [k_cl] in Hp. specialize (CI p Hp).
                 apply in_app_or in CI. rewrite Cst. destruct CI as [H|[<-|[]]]; [left; exact H|]. right. left.
                 unfold st. destruct old; cbn [closes]; rewrite (proj2 (Nat.eqb_neq idx (S idx))) by lia; left; reflexivity.
  - pose proof (W [] fl [] old eq_refl eq_refl eq_refl eq_refl (fun H => H)) as S.
    destruct (s_write d b fl) as [[d' e] fl1]. exact S.
Qed.

Lemma k_init_ok ap m n cl created b fl : kstep_ok (KInit cl created) fl b (k_init ap m n cl created b fl).
Proof.
  (* a failing step of the initialisation: the closed files stay or an empty one is added *)
  assert (Fail : forall pre fl' cl' cr, fl = pre ++ true :: fl' -> ntrue pre = 0 ->
            (forall p, In p cl' -> In p cl \/ snd p = []) ->
            kstep_ok (KInit cl created) fl b (KInit cl' cr, [EWrite], fl')).
  { intros pre fl' cl' cr Hfl Hn Hin. exists (pre ++ [true]). split; [rewrite Hfl, <- app_assoc; reflexivity|].
    split; [rewrite ntrue_app; cbn; lia|]. split; [cbn; lia|]. split; [reflexivity|].
    intros p Hp. destruct (Hin p Hp) as [H|H]; [left; exact H | right; right; exact H]. }
  assert (Go : forall pre fl' cl' idx', fl = pre ++ fl' -> ntrue pre = 0 ->
            (forall p, In p cl' -> In p cl \/ snd p = []) ->
            kstep_ok (KInit cl created) fl b (k_active m n false cl' idx' [] b fl')).
  { intros pre fl' cl' idx' Hfl Hn Hin. pose proof (k_active_ok m n false cl' idx' [] b fl') as K. cbv iota in K.
    destruct (k_active m n false cl' idx' [] b fl') as [[st' e] fl2]. destruct K as [used [Hu [He [Hl [Hst Hcl]]]]].
    exists (pre ++ used). split; [rewrite Hfl, Hu, app_assoc; reflexivity|].
    split; [rewrite ntrue_app; lia|]. split; [exact Hl|].
    assert (Ecl : concat (List.map snd (closes (KCur cl' idx' []) st')) = []).
    { destruct st' as [| cl3 idx3 d3|]; cbn [closes]; try reflexivity. destruct (Nat.eqb idx' idx3); reflexivity. }
    rewrite Ecl in Hst. cbn [k_wcur app] in *. split; [cbn [closes List.map concat app]; exact Hst|].
    intros p Hp. destruct (Hcl p Hp) as [H|[H|H]].
    - cbn [k_cl] in H. destruct (Hin p H) as [H1|H1]; [left; exact H1 | right; right; exact H1].
    - right. right. destruct st' as [| cl3 idx3 d3|]; cbn [closes] in H; try contradiction.
      destruct (Nat.eqb idx' idx3); [contradiction|]. destruct H as [<-|[]]. reflexivity.
    - right. right. exact H. }
  (* the closed files after the rename of an old rCURRENT *)
  set (idx := next_idx cl).
  set (cl1 := if ap then cl else if created then cl ++ [(idx, [])] else cl).
  assert (Hcl1 : forall p, In p cl1 -> In p cl \/ snd p = []).
  { unfold cl1. intros p Hp. destruct ap; [left; exact Hp|]. destruct created; [|left; exact Hp].
    apply in_app_or in Hp. destruct Hp as [H|[<-|[]]]; [left; exact H | right; reflexivity]. }
  assert (Hid : forall p, In p cl -> In p cl \/ snd p = []) by (intros p Hp; left; exact Hp).
  (* the cleanup and what follows *)
  assert (Tail : forall pre fl4, fl = pre ++ fl4 -> ntrue pre = 0 ->
     kstep_ok (KInit cl created) fl b
       (let '(cl2, ok, fl5) := s_cleanup n cl1 fl4 in
        if ok then k_active m n false cl2 (if ap then idx else if created then S idx else idx) [] b fl5 else (KInit cl2 true, [EWrite], fl5))).
  { intros pre fl4 Hfl Hn. pose proof (s_cleanup_spec n cl1 fl4) as C. pose proof (s_cleanup_incl n cl1 fl4) as CI.
    destruct (s_cleanup n cl1 fl4) as [[cl2 ok] fl5]. cbn [fst] in CI. destruct C as (cu & older & gone & Hcu & _ & _ & Hct & Hcf).
    assert (Hcl2 : forall p, In p cl2 -> In p cl \/ snd p = []) by (intros p Hp; apply Hcl1, CI, Hp).
    destruct ok.
    - destruct (Hct eq_refl) as [_ H0]. apply (Go (pre ++ cu) fl5); [rewrite Hfl, Hcu, app_assoc; reflexivity | rewrite ntrue_app; lia | exact Hcl2].
    - specialize (Hcf eq_refl).
      exists (pre ++ cu). split; [rewrite Hfl, Hcu, app_assoc; reflexivity|].
      split; [rewrite ntrue_app; cbn; lia|]. split; [cbn; lia|]. split; [reflexivity|].
      intros p Hp. destruct (Hcl2 p Hp) as [H|H]; [left; exact H | right; right; exact H]. }
  unfold k_init. fold idx. fold cl1.
  destruct (pop_cases fl) as [[-> ->] | [f1 [r1 [-> ->]]]].
  - (* no faults at all *)
    destruct ap; cbn [pop hd tl]; apply (Tail [] []); reflexivity.
  - destruct f1; [apply (Fail [] r1 cl created); [reflexivity | reflexivity | exact Hid]|].
    destruct ap.
    + destruct (pop_cases r1) as [[-> ->] | [f3 [r3 [-> ->]]]].
      * cbn [pop hd tl]. apply (Tail [false] []); reflexivity.
      * destruct f3; [apply (Fail [false] r3 cl1 created); [reflexivity | reflexivity | exact Hcl1]|].
        destruct (pop_cases r3) as [[-> ->] | [f4 [r4 [-> ->]]]].
        -- apply (Tail [false; false] []); reflexivity.
        -- destruct f4; [apply (Fail [false; false] r4 cl1 true); [reflexivity | reflexivity | exact Hcl1]|].
           apply (Tail [false; false; false] r4); reflexivity.
    + destruct (pop_cases r1) as [[-> ->] | [f2 [r2 [-> ->]]]].
      * cbn [pop hd tl]. apply (Tail [false] []); reflexivity.
      * destruct f2; [apply (Fail [false] r2 cl created); [reflexivity | reflexivity | exact Hid]|].
        destruct (pop_cases r2) as [[-> ->] | [f3 [r3 [-> ->]]]].
        -- apply (Tail [false; false] []); reflexivity.
        -- destruct f3; [apply (Fail [false; false] r3 cl1 false); [reflexivity | reflexivity | exact Hcl1]|].
           apply (Tail [false; false; false] r3); reflexivity.
Qed.

Theorem kstep_is_ok app m n st fl b : kstep_ok st fl b (kstep app m n st fl b).
Proof.
  destruct st as [cl created|cl idx d|cl idx d]; cbn [kstep].
  - apply k_init_ok.
  - apply (k_active_ok m n false cl idx d b fl).
  - apply (k_active_ok m n true cl idx d b fl).
Qed.

(* ------------------------------------------------------------------ whole lists of records *)
(* the files closed for good during the run, in the order in which they were closed *)
Fixpoint klog (ap : bool) (m : N) (n : nat) (st : kst) (fl : list bool) (recs : list bytes) : cdir :=
  match recs with
  | [] => []
  | b :: rest => let '(st1, _, fl1) := kstep ap m n st fl b in closes st st1 ++ klog ap m n st1 fl1 rest
  end.
(* per record: the record, the reports of its log call, the oracle entries its log call consumed *)
Fixpoint ktrace (ap : bool) (m : N) (n : nat) (st : kst) (fl : list bool) (recs : list bytes) : list entry :=
  match recs with
  | [] => []
  | b :: rest =>
    let '(st1, e1, fl1) := kstep ap m n st fl b in
    {| t_rec := b; t_errs := e1; t_used := firstn (length fl - length fl1) fl |} :: ktrace ap m n st1 fl1 rest
  end.

Lemma simk_st_app ap m n : forall recs1 recs2 st fl,
  simk_st ap m n st fl (recs1 ++ recs2)
  = let '(st1, e1, fl1) := simk_st ap m n st fl recs1 in
    let '(st2, e2, fl2) := simk_st ap m n st1 fl1 recs2 in (st2, e1 ++ e2, fl2).
Proof.
  induction recs1 as [|b rest IH]; intros recs2 st fl; cbn [Datatypes.app simk_st].
  - destruct (simk_st ap m n st fl recs2) as [[st2 e2] fl2]. reflexivity.
  - destruct (kstep ap m n st fl b) as [[st1 e1] fl1]. rewrite IH.
    destruct (simk_st ap m n st1 fl1 rest) as [[st2 e2] fl2].
    destruct (simk_st ap m n st2 fl2 recs2) as [[st3 e3] fl3]. rewrite app_assoc. reflexivity.
Qed.

(* the run of the specification, record by record.  LOG = the contents of the files closed for good, in order, then
   the content of the file the writer writes into.  The log is the concatenation of the records that were kept; the
   oracle entries consumed are partitioned among the log calls; a call reports as many errors as it consumed failing
   entries, at most one of them EWrite; every closed file in the directory is one of the files that were closed
   (same index, same content) or an empty file left by a failed initialisation *)
Theorem simk_trace ap m n : forall recs st fl,
  let '(st', e, fl') := simk_st ap m n st fl recs in
  let t := ktrace ap m n st fl recs in
  let lg := klog ap m n st fl recs in
  List.map t_rec t = recs
  /\ fl = concat (List.map t_used t) ++ fl'
  /\ e = concat (List.map t_errs t)
  /\ concat (List.map snd lg) ++ k_wcur st' = k_wcur st ++ concat (List.map t_kept t)
  /\ Forall (fun x => length (t_errs x) = ntrue (t_used x) /\ nlost (t_errs x) <= 1) t
  /\ (forall p, In p (k_cl st') -> In p (k_cl st) \/ In p lg \/ snd p = []).
Proof.
  induction recs as [|b rest IH]; intros st fl; cbn [simk_st ktrace klog].
  - cbn. rewrite app_nil_r. repeat split; [constructor | intros p Hp; left; exact Hp].
  - pose proof (kstep_is_ok ap m n st fl b) as S. destruct (kstep ap m n st fl b) as [[st1 e1] fl1].
    specialize (IH st1 fl1). destruct (simk_st ap m n st1 fl1 rest) as [[st2 e2] fl2].
    destruct S as [used [Hu [He [Hl [Hs Hc]]]]]. destruct IH as [H1 [H2 [H3 [H4 [H5 H6]]]]].
    cbn [List.map concat t_rec t_used t_errs]. subst fl. rewrite firstn_used.
    split; [rewrite H1; reflexivity|].
    split; [rewrite <- app_assoc, <- H2; reflexivity|].
    split; [rewrite H3; reflexivity|].
    split.
    { rewrite map_app, concat_app, <- app_assoc, H4, app_assoc, Hs, <- app_assoc. reflexivity. }
    split; [constructor; [cbn [t_errs t_used]; split; assumption | exact H5]|].
    intros p Hp. destruct (H6 p Hp) as [H|[H|H]].
    + destruct (Hc p H) as [G|[G|G]]; [left; exact G | right; left; apply in_or_app; left; exact G | right; right; exact G].
    + right. left. apply in_or_app. right. exact H.
    + right. right. exact H.
Qed.

(* (2) Only records during whose own log call a failing call was consumed can be missing; the log consists of the
   other records, in order, each once *)
Theorem lost_only_around_failures_k ap m n fl recs :
  let '(st', e, fl') := simk_st ap m n (KInit [] false) fl recs in
  let t := ktrace ap m n (KInit [] false) fl recs in
  let lg := klog ap m n (KInit [] false) fl recs in
  List.map t_rec t = recs
  /\ fl = concat (List.map t_used t) ++ fl'
  /\ e = concat (List.map t_errs t)
  /\ concat (List.map snd lg) ++ k_wcur st' = concat (List.map t_kept t)
  /\ (forall p, In p (k_cl st') -> In p lg \/ snd p = [])
  /\ (forall x, In x t -> length (t_errs x) = ntrue (t_used x))
  /\ (forall x, In x t -> (forall f, In f (t_used x) -> f = false) -> t_errs x = [] /\ t_kept x = t_rec x)
  /\ (forall x, In x t -> t_kept x <> t_rec x -> In true (t_used x) /\ In EWrite (t_errs x)).
Proof.
  pose proof (simk_trace ap m n recs (KInit [] false) fl) as T.
  destruct (simk_st ap m n (KInit [] false) fl recs) as [[st' e] fl']. cbv zeta in T |- *.
  destruct T as [H1 [H2 [H3 [H4 [H5 H6]]]]]. rewrite Forall_forall in H5.
  split; [exact H1|]. split; [exact H2|]. split; [exact H3|]. split; [exact H4|].
  split; [intros p Hp; destruct (H6 p Hp) as [[]|H]; exact H|].
  split; [intros x Hx; apply (H5 x Hx)|].
  split.
  - intros x Hx Hall. destruct (H5 x Hx) as [Hn _]. apply ntrue_0_all_false in Hall. rewrite Hall in Hn.
    destruct (t_errs x) eqn:E; [|discriminate]. unfold t_kept. rewrite E. split; reflexivity.
  - intros x Hx Hk. destruct (H5 x Hx) as [Hn _]. unfold t_kept in Hk.
    destruct (lost (t_errs x)) eqn:El; [|congruence]. split.
    + destruct (in_dec Bool.bool_dec true (t_used x)) as [Hi|Hi]; [exact Hi|]. exfalso.
      assert (Hall : forall f, In f (t_used x) -> f = false) by (intros [|] Hf; [contradiction | reflexivity]).
      apply ntrue_0_all_false in Hall. rewrite Hall in Hn. destruct (t_errs x); [discriminate El | discriminate Hn].
    + unfold lost in El. apply existsb_exists in El. destruct El as [c [Hc Ec]]. destruct c; try discriminate. exact Hc.
Qed.

(* (3) the log is the concatenation of a subsequence of the records (no duplication, no reordering); each missing
   record is one reported EWrite: the number of missing records is at most the number of reported errors *)
Theorem loss_is_reported_k ap m n : forall recs st fl,
  let '(st', e, _) := simk_st ap m n st fl recs in
  exists kept, Subseq kept recs
    /\ concat (List.map snd (klog ap m n st fl recs)) ++ k_wcur st' = k_wcur st ++ concat kept
    /\ length recs = length kept + nlost e /\ nlost e <= length e.
Proof.
  induction recs as [|b rest IH]; intros st fl; cbn [simk_st klog].
  - exists []. cbn. rewrite app_nil_r. repeat split; [constructor | lia].
  - pose proof (kstep_is_ok ap m n st fl b) as S. destruct (kstep ap m n st fl b) as [[st1 e1] fl1].
    specialize (IH st1 fl1). destruct (simk_st ap m n st1 fl1 rest) as [[st2 e2] fl2].
    destruct S as [used [Hu [He [Hl [Hs _]]]]]. destruct IH as [kept [Hsub [Hst [Hlen Hle]]]].
    pose proof (nlost_le (e1 ++ e2)) as Hle2. rewrite nlost_app in Hle2.
    rewrite map_app, concat_app, <- app_assoc, Hst, app_assoc, Hs.
    destruct (lost e1) eqn:El.
    + exists kept. split; [constructor; exact Hsub|]. rewrite app_nil_r. split; [reflexivity|].
      apply lost_nlost in El. rewrite nlost_app. cbn [length]. split; lia.
    + exists (b :: kept). split; [constructor; exact Hsub|]. cbn [concat]. rewrite <- app_assoc. split; [reflexivity|].
      assert (nlost e1 = 0). { destruct (nlost e1) eqn:E; [reflexivity|]. assert (lost e1 = true) by (apply lost_nlost; lia). congruence. }
      rewrite nlost_app. cbn [length]. split; lia.
Qed.

(* ------------------------------------------------------------------ failures inside the cleanup *)
(* (v) AT A ROTATION whose rename and create succeed, whatever happens inside the cleanup: the state is switched to the
   new rCURRENT, the record is lost only if its OWN write call fails, a failed cleanup is reported with one ELogFile,
   and the cleanup has only deleted: the newest n closed files are there and - only after a failure - a front part
   `older` of the surplus files as well, i.e. MORE files than the limit, never fewer *)
Theorem cleanup_fault_loses_no_record m n (old : bool) (cl : cdir) idx (d b : bytes) fl2 cl2 ok fl3 :
  (m <? N.of_nat (length d))%N = true ->
  s_cleanup n (cl ++ [(idx, d)]) fl2 = (cl2, ok, fl3) ->
  let f := fst (wr_pop b fl3) in
  k_active m n old cl idx d b (false :: false :: fl2)
  = (KCur cl2 (S idx) (if f then [] else b), (if ok then [] else [ELogFile]) ++ (if f then [EWrite] else []), snd (wr_pop b fl3))
  /\ lost ((if ok then [] else [ELogFile]) ++ (if f then [EWrite] else [])) = f
  /\ exists older gone, cl2 = older ++ lastn n (cl ++ [(idx, d)]) /\ butlastn n (cl ++ [(idx, d)]) = older ++ gone
       /\ (ok = true -> older = []) /\ Nat.min n (S (length cl)) <= length cl2.
Proof.
  intros Hm Ec. cbv zeta. unfold k_active. rewrite Hm. cbn [pop hd tl]. rewrite Ec.
  pose proof (s_cleanup_spec n (cl ++ [(idx, d)]) fl2) as C. rewrite Ec in C.
  destruct C as (cu & older & gone & Hcu & Hcl2 & Hb & Hct & Hcf).
  unfold s_write. destruct (wr_pop b fl3) as [f fl4]. cbn [fst snd].
  split; [destruct f; reflexivity|]. split; [destruct ok, f; reflexivity|].
  exists older, gone. split; [exact Hcl2|]. split; [exact Hb|]. split; [intros E; exact (proj1 (Hct E))|].
  rewrite Hcl2, app_length, lastn_length_eq, app_length. cbn [length]. lia.
Qed.

(* (vi) AT THE INITIALISATION a failure inside the cleanup loses the record: all the calls before the cleanup succeed
   (read_dir, the rename [no append], open, metadata [append]: three calls in both modes), the cleanup fails: the
   record is lost and reported with EWrite although its write call was never made; rCURRENT exists (empty) *)
Theorem init_cleanup_fault_loses_record (ap : bool) m n (cl : cdir) (created : bool) (b : bytes) fl4 cl2 fl5 :
  let idx := next_idx cl in
  let cl1 := if ap then cl else if created then cl ++ [(idx, [])] else cl in
  s_cleanup n cl1 fl4 = (cl2, false, fl5) ->
  k_init ap m n cl created b (false :: false :: false :: fl4) = (KInit cl2 true, [EWrite], fl5).
Proof. cbv zeta. intros Ec. unfold k_init. destruct ap; cbn [pop hd tl]; rewrite Ec; reflexivity. Qed.

(* ------------------------------------------------------------------ (4) recovery: the limit is restored *)
(* in the state KOld a rotation is pending *)
Definition kpending_ok (m : N) (st : kst) : Prop :=
  match st with KOld _ _ d => (m <? N.of_nat (length d))%N = true | _ => True end.
(* the next log call initialises or rotates - and therefore runs the cleanup *)
Definition krotates (m : N) (st : kst) : bool :=
  match st with KInit _ _ => true | KCur _ _ d => (m <? N.of_nat (length d))%N | KOld _ _ d => (m <? N.of_nat (length d))%N end.
(* the limit of the cleanup strategy holds *)
Definition limit_ok (n : nat) (st : kst) : Prop := length (k_closed st) <= n.

Lemma k_active_pending m n (old : bool) cl idx d b fl :
  kpending_ok m (if old then KOld cl idx d else KCur cl idx d) -> kpending_ok m (fst (fst (k_active m n old cl idx d b fl))).
Proof.
  intros P. unfold k_active. destruct (m <? N.of_nat (length d))%N eqn:Em.
  - destruct (pop fl) as [f1 fl1]. destruct f1.
    + pose proof (s_write_pending d b fl1) as L. destruct (s_write d b fl1) as [[d' e] fl2]. cbn [fst].
      destruct old; cbn [kpending_ok]; [lia | exact I].
    + destruct (pop fl1) as [f2 fl2]. destruct f2.
      * pose proof (s_write_pending d b fl2) as L. destruct (s_write d b fl2) as [[d' e] fl3]. cbn [fst kpending_ok]. lia.
      * destruct (s_cleanup n (cl ++ [(idx, d)]) fl2) as [[cl2 ok] fl3]. destruct (s_write [] b fl3) as [[d' e] fl4]. exact I.
  - pose proof (s_write_pending d b fl) as L. destruct (s_write d b fl) as [[d' e] fl1]. cbn [fst].
    destruct old; cbn [kpending_ok] in *; [congruence | exact I].
Qed.

Lemma kstep_pending ap m n st fl b : kpending_ok m st -> kpending_ok m (fst (fst (kstep ap m n st fl b))).
Proof.
  intros P. destruct st as [cl created|cl idx d|cl idx d]; cbn [kstep].
  - unfold k_init. destruct (pop fl) as [f1 fl1]. destruct f1; [exact I|].
    destruct (if ap then (false, fl1) else pop fl1) as [f2 fl2]. destruct f2; [exact I|].
    destruct (pop fl2) as [f3 fl3]. destruct f3; [exact I|].
    destruct (if ap then pop fl3 else (false, fl3)) as [f4 fl4]. destruct f4; [exact I|].
    destruct (s_cleanup n _ fl4) as [[cl2 ok] fl5]. destruct ok; [|exact I].
    apply (k_active_pending m n false). exact I.
  - apply (k_active_pending m n false cl idx d b fl). exact I.
  - apply (k_active_pending m n true cl idx d b fl). exact P.
Qed.

Lemma simk_st_pending ap m n : forall recs st fl, kpending_ok m st -> kpending_ok m (fst (fst (simk_st ap m n st fl recs))).
Proof.
  induction recs as [|b rest IH]; intros st fl P; cbn [simk_st]; [exact P|].
  pose proof (kstep_pending ap m n st fl b P) as P1. destruct (kstep ap m n st fl b) as [[st1 e1] fl1]. cbn [fst] in P1.
  specialize (IH st1 fl1 P1). destruct (simk_st ap m n st1 fl1 rest) as [[st2 e2] fl2]. exact IH.
Qed.

Lemma s_write_all_false d b fl : all_false fl -> let '(d', e, fl1) := s_write d b fl in d' = d ++ b /\ e = [] /\ all_false fl1.
Proof.
  intros H0. unfold s_write, wr_pop. destruct b as [|x b']; [rewrite app_nil_r; auto|].
  destruct (pop_all_false fl H0) as [E1 E2]. destruct (pop fl) as [f fl1]. cbn [fst snd] in *. subst f. auto.
Qed.

Lemma k_active_recovered m n (old : bool) (cl : cdir) idx (d b : bytes) fl :
  all_false fl -> (old = true -> (m <? N.of_nat (length d))%N = true) ->
  exists fl', all_false fl' /\
    k_active m n old cl idx d b fl
    = ((if (m <? N.of_nat (length d))%N then KCur (lastn n (cl ++ [(idx, d)])) (S idx) b else KCur cl idx (d ++ b)), [], fl').
Proof.
  intros H0 Ho. unfold k_active. destruct (m <? N.of_nat (length d))%N eqn:Em.
  - destruct (pop_all_false fl H0) as [E1 E2]. destruct (pop fl) as [f1 fl1]. cbn [fst snd] in *. subst f1.
    destruct (pop_all_false fl1 E2) as [E3 E4]. destruct (pop fl1) as [f2 fl2]. cbn [fst snd] in *. subst f2.
    destruct (s_cleanup_all_false n (cl ++ [(idx, d)]) fl2 E4) as [fl3 [Ec H3]]. rewrite Ec.
    pose proof (s_write_all_false [] b fl3 H3) as S. destruct (s_write [] b fl3) as [[d' e] fl4]. destruct S as [-> [-> S3]].
    exists fl4. split; [exact S3 | reflexivity].
  - pose proof (s_write_all_false d b fl H0) as S. destruct (s_write d b fl) as [[d' e] fl1]. destruct S as [-> [-> S3]].
    destruct old; [specialize (Ho eq_refl); congruence|]. exists fl1. split; [exact S3 | reflexivity].
Qed.

(* one record when no more failures come: nothing is reported, the record is appended to the log, the writer is on
   rCURRENT; if the call initialises or rotates, the cleanup gets through and the limit holds; otherwise the closed
   files stay as they are *)
Lemma kstep_recovered ap m n st fl b : all_false fl -> kpending_ok m st ->
  let '(st', e, fl') := kstep ap m n st fl b in
  e = [] /\ all_false fl' /\ (exists cl idx d, st' = KCur cl idx d)
  /\ (krotates m st = true -> limit_ok n st')
  /\ (krotates m st = false -> k_closed st' = k_closed st).
Proof.
  intros Hf P.
  assert (A : forall (old : bool) (cl : cdir) idx (d : bytes) fl0, all_false fl0 -> (old = true -> (m <? N.of_nat (length d))%N = true) ->
     let '(st', e, fl') := k_active m n old cl idx d b fl0 in
     e = [] /\ all_false fl' /\ (exists cl' idx' d', st' = KCur cl' idx' d')
     /\ ((m <? N.of_nat (length d))%N = true -> limit_ok n st')
     /\ ((m <? N.of_nat (length d))%N = false -> k_closed st' = cl)).
  { intros old cl idx d fl0 H0 Ho. destruct (k_active_recovered m n old cl idx d b fl0 H0 Ho) as [fl' [H' E]]. rewrite E.
    split; [reflexivity|]. split; [exact H'|]. destruct (m <? N.of_nat (length d))%N.
    - split; [eauto|]. split; [intros _; unfold limit_ok; cbn [k_closed]; apply lastn_length | discriminate].
    - split; [eauto|]. split; [discriminate | reflexivity]. }
  destruct st as [cl created|cl idx d|cl idx d]; cbn [kstep krotates].
  - unfold k_init.
    destruct (pop_all_false fl Hf) as [E1 E2]. destruct (pop fl) as [f1 fl1]. cbn [fst snd] in *. subst f1.
    assert (X2 : fst (if ap then (false, fl1) else pop fl1) = false /\ all_false (snd (if ap then (false, fl1) else pop fl1))).
    { destruct ap; [split; [reflexivity | exact E2] | apply pop_all_false; exact E2]. }
    destruct (if ap then (false, fl1) else pop fl1) as [f2 fl2]. cbn [fst snd] in X2. destruct X2 as [-> E3].
    destruct (pop_all_false fl2 E3) as [E4 E5]. destruct (pop fl2) as [f3 fl3]. cbn [fst snd] in *. subst f3.
    assert (X4 : fst (if ap then pop fl3 else (false, fl3)) = false /\ all_false (snd (if ap then pop fl3 else (false, fl3)))).
    { destruct ap; [apply pop_all_false; exact E5 | split; [reflexivity | exact E5]]. }
    destruct (if ap then pop fl3 else (false, fl3)) as [f4 fl4]. cbn [fst snd] in X4. destruct X4 as [-> E6].
    destruct (s_cleanup_all_false n (if ap then cl else if created then cl ++ [(next_idx cl, [])] else cl) fl4 E6) as [fl5 [Ec H5]].
    rewrite Ec.
    pose proof (A false (lastn n (if ap then cl else if created then cl ++ [(next_idx cl, [])] else cl))
                  (if ap then next_idx cl else if created then S (next_idx cl) else next_idx cl) [] fl5 H5
                  (fun H => False_ind _ (Bool.diff_false_true H))) as S.
    destruct (k_active m n false _ _ [] b fl5) as [[st' e] fl']. destruct S as [S1 [S2 [S3 [_ S5]]]].
    split; [exact S1|]. split; [exact S2|]. split; [exact S3|]. split; [|discriminate].
    intros _. unfold limit_ok. rewrite S5; [apply lastn_length|]. cbn [length]. apply N.ltb_ge. apply N.le_0_l.
  - pose proof (A false cl idx d fl Hf (fun H => False_ind _ (Bool.diff_false_true H))) as S.
    destruct (k_active m n false cl idx d b fl) as [[st' e] fl']. exact S.
  - cbn [kpending_ok] in P. pose proof (A true cl idx d fl Hf (fun _ => P)) as S.
    destruct (k_active m n true cl idx d b fl) as [[st' e] fl']. destruct S as [S1 [S2 [S3 [S4 _]]]].
    split; [exact S1|]. split; [exact S2|]. split; [exact S3|]. split; [exact S4|]. rewrite P. discriminate.
Qed.

(* Once no more failures come (the rest of the oracle is empty or all `false`): nothing more is reported, every further
   record is in the log, a limit that holds keeps holding, and after the first record the writer is on rCURRENT *)
Theorem recovery_cleanup_spec ap m n : forall recs st fl, all_false fl -> kpending_ok m st ->
  let '(st', e, fl') := simk_st ap m n st fl recs in
  e = [] /\ all_false fl'
  /\ concat (List.map snd (klog ap m n st fl recs)) ++ k_wcur st' = k_wcur st ++ concat recs
  /\ (limit_ok n st -> limit_ok n st')
  /\ (recs <> [] -> exists cl idx d, st' = KCur cl idx d).
Proof.
  induction recs as [|b rest IH]; intros st fl Hf P; cbn [simk_st klog].
  - cbn. rewrite app_nil_r. repeat split; try assumption; [intros H; exact H | intros H; contradiction].
  - pose proof (kstep_recovered ap m n st fl b Hf P) as S. pose proof (kstep_is_ok ap m n st fl b) as K.
    destruct (kstep ap m n st fl b) as [[st1 e1] fl1]. destruct S as [-> [Hf1 [[cl1 [idx1 [d1 Est]]] [Hr Hn]]]].
    destruct K as [used [_ [_ [_ [Hs _]]]]]. cbn [lost existsb] in Hs.
    assert (P1 : kpending_ok m st1) by (rewrite Est; exact I).
    specialize (IH st1 fl1 Hf1 P1). destruct (simk_st ap m n st1 fl1 rest) as [[st2 e2] fl2] eqn:Er.
    destruct IH as [-> [Hf2 [Hs2 [Hl2 Hc2]]]].
    split; [reflexivity|]. split; [exact Hf2|].
    split; [rewrite map_app, concat_app, <- app_assoc, Hs2, app_assoc, Hs; cbn [concat]; rewrite <- app_assoc; reflexivity|].
    split.
    + intros L. apply Hl2. destruct (krotates m st) eqn:Ek; [apply Hr; reflexivity|]. unfold limit_ok. rewrite (Hn eq_refl). exact L.
    + intros _. destruct rest as [|b2 rest2]; [|apply Hc2; discriminate].
      cbn [simk_st] in Er. injection Er as <- _. eauto.
Qed.

(* ... and THE LIMIT IS RESTORED by the next initialisation or rotation: if, after the records recs1, the next log call
   initialises or rotates (krotates), then after it - and after whatever records follow - at most n closed files exist *)
Theorem cleanup_limit_restored_spec ap m n recs1 b recs2 st fl :
  all_false fl -> kpending_ok m st ->
  krotates m (fst (fst (simk_st ap m n st fl recs1))) = true ->
  let '(st', e, fl') := simk_st ap m n st fl (recs1 ++ b :: recs2) in
  e = [] /\ all_false fl' /\ limit_ok n st' /\ exists cl idx d, st' = KCur cl idx d.
Proof.
  intros Hf P. rewrite simk_st_app.
  pose proof (recovery_cleanup_spec ap m n recs1 st fl Hf P) as R1. pose proof (simk_st_pending ap m n recs1 st fl P) as P1.
  destruct (simk_st ap m n st fl recs1) as [[st1 e1] fl1]. cbn [fst] in *. destruct R1 as [-> [Hf1 _]]. intros Hk.
  cbn [simk_st].
  pose proof (kstep_recovered ap m n st1 fl1 b Hf1 P1) as S. pose proof (kstep_pending ap m n st1 fl1 b P1) as P2.
  destruct (kstep ap m n st1 fl1 b) as [[st2 e2] fl2]. cbn [fst] in P2. destruct S as [-> [Hf2 [[cl2 [idx2 [d2 Est]]] [Hr _]]]].
  specialize (Hr Hk).
  pose proof (recovery_cleanup_spec ap m n recs2 st2 fl2 Hf2 P2) as R2.
  destruct (simk_st ap m n st2 fl2 recs2) as [[st3 e3] fl3] eqn:E3. destruct R2 as [-> [Hf3 [_ [Hl3 Hc3]]]].
  split; [reflexivity|]. split; [exact Hf3|]. split; [exact (Hl3 Hr)|].
  destruct recs2 as [|b2 r2]; [cbn [simk_st] in E3; injection E3 as <- _; eauto | apply Hc3; discriminate].
Qed.

(* without failures the limit holds from the start *)
Corollary no_faults_cleanup ap m n recs :
  let '(st, e, _) := simk_st ap m n (KInit [] false) [] recs in
  e = [] /\ limit_ok n st /\ concat (List.map snd (klog ap m n (KInit [] false) [] recs)) ++ k_wcur st = concat recs.
Proof.
  assert (Hf : all_false []) by (intros f []).
  pose proof (recovery_cleanup_spec ap m n recs (KInit [] false) [] Hf I) as R.
  destruct (simk_st ap m n (KInit [] false) [] recs) as [[st e] fl']. destruct R as [-> [_ [Hs [Hl _]]]].
  split; [reflexivity|]. split; [apply Hl; unfold limit_ok; cbn; lia | exact Hs].
Qed.

Print Assumptions lost_only_around_failures_k.
Print Assumptions loss_is_reported_k.
Print Assumptions cleanup_fault_loses_no_record.
Print Assumptions init_cleanup_fault_loses_record.
Print Assumptions cleanup_limit_restored_spec.
