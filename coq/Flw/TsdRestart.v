(* TimestampsDirect naming: sequences of runs on the same directory.  A writer that starts on the directory that earlier
   writers left behind never destroys, truncates or reorders what they wrote, and no file name is used twice: the files are
   named by keys (second in which the file was started, position within the second) that satisfy keys_ok over the WHOLE
   history.  Without append every run starts a new file (a restart in the second of the last file takes the next restart
   counter); with append the newest file - the last one of the directory - is continued under its old name, even if its time
   stamp is older than the present second; a run without a write changes nothing.

   A real finding on the way, since repaired in the code (fix: "TimestampsDirect with append and use_utc reads the newest time
   stamp back as UTC"): with append AND use_utc AND a zone offset <> 0 the time stamp read back from the newest file name was
   taken for local time, the writer started a file whose time stamp was shifted by the offset and the order of the names was no
   longer the order of writing.  The theorems asked, for the runs with append, for (use_utc = false or offset = 0); with the
   repair they hold for every offset (tsd_utc_append_fine is the former counterexample). *)
Require Import FL.Base.Bytes FL.Base.BytesFacts FL.Base.PathName FL.Fs.Fs FL.Fs.FsFacts FL.Time.Civil FL.Time.TsFormat
  FL.Names.FileSpec FL.Names.NamesFacts FL.Names.SortFacts FL.Flw.Model FL.Flw.ModelFacts FL.Flw.NumFs FL.Flw.NumInv FL.Flw.Run
  FL.Flw.RunFacts FL.Flw.NumRun FL.Oracles.O_Flw FL.Flw.NumTheorems FL.Flw.NumListing FL.Flw.NumRestart
  FL.Flw.TsCal FL.Flw.TsTime FL.Flw.TsNames FL.Flw.TsInv FL.Flw.TsRun FL.Flw.TsTheorems FL.Flw.TsRestartInv FL.Flw.TsRestart
  FL.Names.FamilyFacts FL.Oracles.ReaderOrder FL.Flw.TsReader FL.Flw.NumDTheorems
  FL.Flw.TsdInv FL.Flw.TsdRun FL.Flw.TsdTheorems FL.Flw.TsdRestartInv.
From Coq Require Import ZifyN ZifyNat ZifyBool.
Import String.StringSyntax.
Open Scope nat_scope.

(* ------------------------------------------------------------------ the abstract view *)
(* None: the directory is empty.  Some (keys, closed, cur): the keys of ALL files in the order of their creation, the
   contents of all files but the last one, the content of the last one (including what its writer still buffers) *)
Definition dview := option (list key * list bytes * bytes).
Definition closedD (d : dview) : list bytes := match d with Some (_, cl, _) => cl | None => [] end.
Definition flatD (d : dview) : bytes := match d with Some (_, cl, cu) => concat cl ++ cu | None => [] end.
Definition keysD (d : dview) : list key := match d with Some (ks, _, _) => ks | None => [] end.
Definition filesD (d : dview) : list bytes := match d with Some (_, cl, cu) => cl ++ [cu] | None => [] end.

(* d' continues d: the same files, the last one possibly longer; or the last file of d - possibly after more was appended to
   it - is followed by further files.  No file but the last one changes, no key changes. *)
Definition ExtD (d d' : dview) : Prop :=
  match d with
  | None => True
  | Some (keys, closed, cur) =>
    match d' with
    | None => False
    | Some (keys', closed', cur') =>
      (keys' = keys /\ closed' = closed /\ exists t, cur' = cur ++ t)
      \/ (exists t mk mc, keys' = keys ++ mk /\ closed' = closed ++ (cur ++ t) :: mc)
    end
  end.

(* d' continues d with new files only: the last file of d is not touched either *)
Definition FreshD (d d' : dview) : Prop :=
  match d with
  | None => True
  | Some (keys, closed, cur) =>
    match d' with
    | None => False
    | Some (keys', closed', cur') => exists mk mc, keys' = keys ++ mk /\ closed' = closed ++ cur :: mc
    end
  end.

Lemma ExtD_refl d : ExtD d d.
Proof.
  destruct d as [[[keys closed] cur]|]; cbn [ExtD]; [|exact Logic.I].
  left. repeat split. exists []. rewrite app_nil_r. reflexivity.
Qed.

Lemma ExtD_trans d1 d2 d3 : ExtD d1 d2 -> ExtD d2 d3 -> ExtD d1 d3.
Proof.
  destruct d1 as [[[k1 c1] u1]|]; [|intros; exact Logic.I].
  destruct d2 as [[[k2 c2] u2]|]; [|intros []].
  destruct d3 as [[[k3 c3] u3]|]; [|intros _ []].
  cbn [ExtD]. intros [[-> [-> [t ->]]]|[t [mk [mc [-> ->]]]]] [[-> [-> [t' ->]]]|[t' [mk' [mc' [-> ->]]]]].
  - left. repeat split. exists (t ++ t'). rewrite app_assoc. reflexivity.
  - right. exists (t ++ t'), mk', mc'. rewrite app_assoc. split; reflexivity.
  - right. exists t, mk, mc. split; reflexivity.
  - right. exists t, (mk ++ mk'), (mc ++ (u2 ++ t') :: mc'). rewrite <- !app_assoc. split; reflexivity.
Qed.

Lemma ExtD_same keys closed cur t : ExtD (Some (keys, closed, cur)) (Some (keys, closed, cur ++ t)).
Proof. cbn [ExtD]. left. repeat split. exists t. reflexivity. Qed.

Lemma ExtD_rot keys closed cur k cur' : ExtD (Some (keys, closed, cur)) (Some (keys ++ [k], closed ++ [cur], cur')).
Proof. cbn [ExtD]. right. exists [], [k], []. rewrite app_nil_r. split; reflexivity. Qed.

Lemma FreshD_rot keys closed cur k cur' : FreshD (Some (keys, closed, cur)) (Some (keys ++ [k], closed ++ [cur], cur')).
Proof. cbn [FreshD]. exists [k], []. split; reflexivity. Qed.

Lemma FreshD_ExtD d1 d2 d3 : FreshD d1 d2 -> ExtD d2 d3 -> FreshD d1 d3.
Proof.
  destruct d1 as [[[k1 c1] u1]|]; [|intros; exact Logic.I].
  destruct d2 as [[[k2 c2] u2]|]; [|intros []].
  destruct d3 as [[[k3 c3] u3]|]; [|intros _ []].
  cbn [FreshD ExtD]. intros [mk [mc [-> ->]]] [[-> [-> [t' ->]]]|[t' [mk' [mc' [-> ->]]]]].
  - exists mk, mc. split; reflexivity.
  - exists (mk ++ mk'), (mc ++ (u2 ++ t') :: mc'). rewrite <- !app_assoc. split; reflexivity.
Qed.

Lemma FreshD_is_ExtD d1 d2 : FreshD d1 d2 -> ExtD d1 d2.
Proof.
  destruct d1 as [[[k1 c1] u1]|]; [|intros; exact Logic.I]. destruct d2 as [[[k2 c2] u2]|]; [|intros []].
  cbn [FreshD ExtD]. intros [mk [mc [-> ->]]]. right. exists [], mk, mc. rewrite app_nil_r. split; reflexivity.
Qed.

(* nothing that was there is touched: nothing happened at all, or new files only *)
Definition KeepD (d d' : dview) : Prop := d' = d \/ FreshD d d'.

Lemma KeepD_trans d1 d2 d3 : KeepD d1 d2 -> KeepD d2 d3 -> KeepD d1 d3.
Proof.
  intros [->|H1] [->|H2]; [left; reflexivity | right; exact H2 | right; exact H1 | right].
  exact (FreshD_ExtD _ _ _ H1 (FreshD_is_ExtD _ _ H2)).
Qed.

(* ------------------------------------------------------------------ the directory between two writers *)
(* described as what a writer with an empty buffer holds *)
Definition dir_tsd (c : config) (e lo : Z) (w : world) (d : dview) : Prop :=
  match d with
  | None => names (wfs w) = [] /\ inodes (wfs w) = [] /\ (lo <= wnow w)%Z
  | Some (keys, closed, cur) =>
    exists wr, TsdInv c e lo w wr keys closed /\ wpend wr = [] /\ cur_view w wr = cur
  end.

(* e: the offset that enters the time-stamp texts; off: the offset of the zone *)
Definition envTd (c : config) (e off : Z) (x : sys) : Prop :=
  s_tl x = [] /\ wacts (s_w x) = 0 /\ quiet (s_w x) /\ eoff c (s_w x) = e /\ woff (s_w x) = off.

(* no writer; n bounds the number of files *)
Definition IdleTd (c : config) (e off lo : Z) (n : nat) (x : sys) (d : dview) : Prop :=
  envTd c e off x /\ s_flw x = None /\ dir_tsd c e lo (s_w x) d /\ length (closedD d) <= n.
(* a writer that has not written yet: it has not looked at the directory *)
Definition PreTd (c : config) (e off lo : Z) (n : nat) (x : sys) (d : dview) : Prop :=
  envTd c e off x /\ s_flw x = Some (new_flw c) /\ dir_tsd c e lo (s_w x) d /\ S (length (closedD d)) <= n.
(* a writer that has written *)
Definition ActTd (c : config) (e off lo : Z) (n : nat) (x : sys) (d : dview) : Prop :=
  envTd c e off x /\
  match d with
  | None => False
  | Some (keys, closed, cur) =>
    exists wr roll, s_flw x = Some (st_tsd c e (nth (length closed) keys kd) roll wr)
      /\ TsdInv c e lo (s_w x) wr keys closed
      /\ cur_view (s_w x) wr = cur /\ length closed <= n /\ roll_size_ok roll (length cur)
  end.

(* ---- the names depend on the file spec only ---- *)
Lemma tsdinv_spec c c' e lo w wr keys closed : c_spec c = c_spec c' -> eoff c' w = e ->
  TsdInv c e lo w wr keys closed -> wpend wr = [] ->
  TsdInv c' e lo w {| wino := wino wr; wpend := []; wcap := c_cap c' |} keys closed.
Proof.
  intros E Hoff' [Q W Hnd Hoff Hlen Hc Hcp Hcl Hon Hko Hrg Hwr Hcap] Hp.
  constructor; cbn [wino wpend wcap]; try assumption.
  - rewrite <- (kname_spec_eq c c' e _ E). exact Hc.
  - intros i Hi. rewrite <- (kname_spec_eq c c' e _ E). exact (Hcl i Hi).
  - intros n j L. destruct (Hon n j L) as [i [Hi ->]]. exists i. split; [exact Hi | apply kname_spec_eq; exact E].
  - unfold wr_ok. cbn. destruct (c_cap c'); [lia | reflexivity].
  - reflexivity.
Qed.

Lemma dir_tsd_spec c c' e lo w d : c_spec c = c_spec c' -> eoff c' w = e -> dir_tsd c e lo w d -> dir_tsd c' e lo w d.
Proof.
  intros E Hoff'. destruct d as [[[keys closed] cur]|]; cbn [dir_tsd]; [|tauto].
  intros [wr [I [Hp V]]]. exists {| wino := wino wr; wpend := []; wcap := c_cap c' |}.
  split; [exact (tsdinv_spec c c' e lo w wr keys closed E Hoff' I Hp)|].
  split; [reflexivity|]. unfold cur_view in *. cbn [wino wpend]. rewrite Hp in V. exact V.
Qed.

Lemma idleTd_spec c c' e off lo n x d : c_spec c = c_spec c' -> c_utc c = c_utc c' ->
  IdleTd c e off lo n x d -> IdleTd c' e off lo n x d.
Proof.
  intros E U [[Ht [Ha [Q [Ho Hw]]]] [Es [D Hn]]].
  assert (Ho' : eoff c' (s_w x) = e) by (rewrite <- (eoff_utc c c' _ U); exact Ho).
  split; [repeat split; try assumption; apply Q|]. split; [exact Es|]. split; [exact (dir_tsd_spec c c' e lo _ d E Ho' D) | exact Hn].
Qed.

Lemma idleTd_mono c e off lo n m x d : n <= m -> IdleTd c e off lo n x d -> IdleTd c e off lo m x d.
Proof. intros H [A [B [C D]]]. split; [exact A|]. split; [exact B|]. split; [exact C | lia]. Qed.

(* ------------------------------------------------------------------ steps are steps of the synchronous handle *)
Lemma step_sync_tsd c crit x s o : tsdcfg c crit -> s_flw x = Some s -> f_cfg s = c -> step x o = sync_step x o.
Proof.
  intros [_ [Hts [_ Ha]]] Es Ec.
  rewrite step_plain by (intros s' Es'; rewrite Es in Es'; injection Es' as <-; rewrite Ec; exact Hts).
  unfold step_core. rewrite Es. unfold is_async. rewrite Ec, Ha. reflexivity.
Qed.

Lemma envTd_env c e off x x' : envTd c e off x -> s_tl x' = [] -> same_env (s_w x) (s_w x') -> envTd c e off x'.
Proof.
  intros [Ht [Ha [Q [Ho Hw]]]] Ht' S. split; [exact Ht'|]. split; [exact (same_env_acts _ _ S Ha)|]. split; [apply S|].
  split; [rewrite (eoff_same_env c _ _ S); exact Ho|]. destruct S as [_ [_ [-> _]]]. exact Hw.
Qed.

(* ------------------------------------------------------------------ one operation of a writer that has written *)
Lemma act_step_td c crit e off lo hi n x D o :
  tsdcfg c crit -> tag_ok c -> years_ok e lo hi -> ActTd c e off lo n x (Some D) -> basic_op o -> tick_ok o ->
  (wnow (s_w x) <= hi)%Z -> (N.of_nat (S n) <= usize_max)%N ->
  exists D', ActTd c e off lo (S n) (fst (step x o)) (Some D') /\ ExtD (Some D) (Some D')
    /\ flatD (Some D') = flatD (Some D) ++ written [o]
    /\ wnow (s_w (fst (step x o))) = (wnow (s_w x) + dt_of o)%Z.
Proof.
  intros Hcfg T Y A Hb Htk Hhi Hmax. destruct D as [[keys closed] cur].
  destruct A as [E0 [wr [roll [Es [I [V [Hn Z]]]]]]]. pose proof E0 as [Ht [Ha [Q [Ho Hw]]]].
  pose proof (td_len _ _ _ _ _ _ _ I) as Hlen.
  assert (Hk : (N.of_nat (length keys) <= usize_max)%N) by lia.
  rewrite (step_sync_tsd c crit x _ o Hcfg Es eq_refl).
  set (k0 := nth (length closed) keys kd) in *.
  assert (WR : forall b, exists D', ActTd c e off lo (S n)
              (fst (let '(r, w1, s1, rot) := write_buffer (st_tsd c e k0 roll wr) (s_w x) b in
                    ({| s_flw := Some s1; s_w := w1; s_tl := []; s_dead := s_dead x |}, ObsRes 0%N rot))) (Some D')
            /\ ExtD (Some (keys, closed, cur)) (Some D')
            /\ flatD (Some D') = flatD (Some (keys, closed, cur)) ++ b
            /\ wnow (s_w (fst (let '(r, w1, s1, rot) := write_buffer (st_tsd c e k0 roll wr) (s_w x) b in
                    ({| s_flw := Some s1; s_w := w1; s_tl := []; s_dead := s_dead x |}, ObsRes 0%N rot)))) = wnow (s_w x)
            /\ fst (fst (fst (write_buffer (st_tsd c e k0 roll wr) (s_w x) b))) = Ok tt).
  { intros b. rewrite <- V in Z.
    destruct (write_active_tsd_k c crit e lo hi (s_w x) wr keys closed roll b Hcfg T Y I Hhi Hk Z)
      as [w' [wr' [roll' [keys' [closed' [E [I' [Z' [S' V']]]]]]]]].
    fold k0 in E. rewrite E. cbn [fst s_w]. rewrite V in V'.
    exists (keys', closed', cur_view w' wr').
    split; [|split; [|split; [|split; [exact (same_env_now _ _ S') | reflexivity]]]].
    - split; [apply (envTd_env c e off x _ E0); [reflexivity | exact S']|].
      exists wr', roll'. cbn [s_flw s_w]. split; [reflexivity|]. split; [exact I'|]. split; [reflexivity|].
      split; [|exact Z'].
      destruct (rotation_necessary (s_w x) roll); injection V' as _ -> _; rewrite ?app_length; cbn [length]; lia.
    - rewrite V'. destruct (rotation_necessary (s_w x) roll); [apply ExtD_rot | apply ExtD_same].
    - rewrite V'. destruct (rotation_necessary (s_w x) roll); cbn [flatD].
      + rewrite concat_app. cbn [concat]. rewrite app_nil_r. reflexivity.
      + rewrite app_assoc. reflexivity. }
  destruct o; try contradiction; cbn [sync_step dt_of written].
  - (* OWrite *)
    rewrite Es. cbn [st_tsd f_poisoned]. fold (st_tsd c e k0 roll wr). rewrite Ht. cbn [app].
    destruct (WR b) as [D' [A' [X' [F' [W' R']]]]]. exists D'.
    destruct (write_buffer (st_tsd c e k0 roll wr) (s_w x) b) as [[[r w1] s1] rot] eqn:E.
    cbn [fst] in R'. subst r. cbn [fst s_w] in *. rewrite app_nil_r. split; [exact A'|]. split; [exact X'|]. split; [exact F' | lia].
  - (* OPlain *)
    rewrite Es. cbn [st_tsd f_poisoned]. fold (st_tsd c e k0 roll wr).
    destruct (WR b) as [D' [A' [X' [F' [W' _]]]]]. exists D'.
    destruct (write_buffer (st_tsd c e k0 roll wr) (s_w x) b) as [[[r w1] s1] rot] eqn:E.
    cbn [fst s_w] in *. rewrite Ht. rewrite app_nil_r. split; [exact A'|]. split; [exact X'|]. split; [exact F' | lia].
  - (* OFlush *)
    rewrite Es. cbn [st_tsd f_poisoned]. fold (st_tsd c e k0 roll wr).
    destruct (flush_active_tsd c e lo (s_w x) wr keys closed roll k0 I) as [w' [wr' [E [I' [V' [P' S']]]]]].
    rewrite E. cbn [fst s_w]. exists (keys, closed, cur).
    split; [|split; [apply ExtD_refl|]; split; [rewrite app_nil_r; reflexivity | rewrite (same_env_now _ _ S'); lia]].
    split; [apply (envTd_env c e off x _ E0); [exact Ht | exact S']|].
    exists wr', roll. cbn [s_flw s_w]. split; [reflexivity|]. split; [exact I'|]. split; [congruence|]. split; [lia | exact Z].
  - (* OTrigger *)
    rewrite Es. cbn [st_tsd f_poisoned f_cfg f_inner].
    destruct (mount_next_rotates_tsd c crit e lo hi (s_w x) wr keys closed roll true Hcfg T Y I Hhi Hk eq_refl)
      as [w' [wr' [roll' [E [I' [V' [Z' [S' _]]]]]]]].
    fold k0 in E. rewrite E. cbn [fst code_of with_inner f_cfg f_poisoned s_w].
    exists (keys ++ [(wnow (s_w x), count (wnow (s_w x)) keys)], closed ++ [cur], []).
    split; [|split; [apply ExtD_rot|]; split; [|rewrite (same_env_now _ _ S'); lia]].
    + split; [apply (envTd_env c e off x _ E0); [exact Ht | exact S']|].
      rewrite V in *. exists wr', roll'. cbn [s_flw s_w].
      split. { rewrite nth_snoc_last by (rewrite app_length; cbn [length]; lia). reflexivity. }
      split; [exact I'|]. split; [exact V'|]. split; [rewrite app_length; cbn [length]; lia | exact Z'].
    + cbn [flatD]. rewrite concat_app. cbn [concat]. rewrite !app_nil_r. reflexivity.
  - (* OTick *)
    cbn [fst s_w set_now wnow tick_ok] in *. exists (keys, closed, cur).
    split; [|split; [apply ExtD_refl|]; split; [rewrite app_nil_r; reflexivity | reflexivity]].
    split; [repeat split; [exact Ht | exact Ha | apply Q | apply Q | exact Ho | exact Hw]|].
    exists wr, roll. cbn [s_flw s_w]. split; [exact Es|]. split; [apply tsdinv_tick; assumption|]. split; [exact V|].
    split; [lia | exact Z].
  - (* OSnap *)
    cbn [fst]. exists (keys, closed, cur).
    split; [|split; [apply ExtD_refl|]; split; [rewrite app_nil_r; reflexivity | lia]].
    split; [repeat split; [exact Ht | exact Ha | apply Q | apply Q | exact Ho | exact Hw]|].
    exists wr, roll. split; [exact Es|]. split; [exact I|]. split; [exact V|]. split; [lia | exact Z].
Qed.

(* ------------------------------------------------------------------ the first write of a writer *)
(* the hypothesis for a writer with append (TsdRestartInv.append_ok) *)
Definition aok (c : config) : Prop := append_ok c.

Lemma first_write_td c crit e off lo hi n x d b :
  tsdcfg c crit -> tag_ok c -> years_ok e lo hi -> aok c -> PreTd c e off lo n x d ->
  (wnow (s_w x) <= hi)%Z -> (N.of_nat (S n) <= usize_max)%N ->
  exists w' s' rot D', write_buffer (new_flw c) (s_w x) b = (Ok tt, w', s', rot)
    /\ ActTd c e off lo (S n) {| s_flw := Some s'; s_w := w'; s_tl := []; s_dead := s_dead x |} (Some D')
    /\ ExtD d (Some D') /\ flatD (Some D') = flatD d ++ b /\ wnow w' = wnow (s_w x)
    /\ (c_append c = false -> FreshD d (Some D')).
Proof.
  intros Hcfg T Y Hao [E0 [Es [D Hn]]] Hhi Hmax. pose proof E0 as [Ht [Ha [Q [Ho Hw]]]].
  (* what initialize makes of the directory *)
  assert (IN : exists w1 wr1 roll1 keys1 closed1,
            initialize c (s_w x) = (Ok (Active (Some (mk_rs (NSTs (fst (nth (length closed1) keys1 kd)) None std_fmt) roll1)) wr1
                                               (kname c e (nth (length closed1) keys1 kd))), w1)
            /\ TsdInv c e lo w1 wr1 keys1 closed1 /\ same_env (s_w x) w1
            /\ roll_size_ok roll1 (length (cur_view w1 wr1))
            /\ ExtD d (Some (keys1, closed1, cur_view w1 wr1))
            /\ flatD (Some (keys1, closed1, cur_view w1 wr1)) = flatD d
            /\ length closed1 <= n
            /\ (c_append c = false -> FreshD d (Some (keys1, closed1, cur_view w1 wr1)))).
  { destruct d as [[[keys closed] cur]|]; cbn [dir_tsd closedD] in D, Hn.
    - destruct D as [wr [I [Hp V]]]. pose proof (td_len _ _ _ _ _ _ _ I) as Hlen.
      pose proof Hao as Hao'.
      destruct (initialize_view_tsd c crit e lo hi (s_w x) wr keys closed Hcfg T Y I Hp Hhi ltac:(lia) Hao')
        as [w1 [wr1 [roll1 [keys1 [closed1 [Ei [I1 [S1 [Z1 V1]]]]]]]]].
      exists w1, wr1, roll1, keys1, closed1. split; [exact Ei|]. split; [exact I1|]. split; [exact S1|]. split; [exact Z1|].
      rewrite V in V1. destruct (c_append c); injection V1 as -> -> ->.
      + split; [apply ExtD_refl|]. split; [reflexivity|]. split; [lia | discriminate].
      + split; [apply ExtD_rot|]. split; [|split; [rewrite app_length; cbn [length]; lia | intros _; apply FreshD_rot]].
        cbn [flatD]. rewrite concat_app. cbn [concat]. rewrite !app_nil_r. reflexivity.
    - destruct D as [Hnm [Hin Hlo]].
      destruct (initialize_empty_tsd c crit e lo (s_w x) Hcfg Q Hnm Hin Ho Hlo) as [w1 [wr1 [roll1 [Ei [I1 [V1 [Z1 [S1 _]]]]]]]].
      exists w1, wr1, roll1, [(wnow (s_w x), 0)], []. cbn [length nth fst]. split; [exact Ei|]. split; [exact I1|]. split; [exact S1|].
      rewrite V1. split; [exact Z1|]. split; [exact Logic.I|]. split; [reflexivity|]. split; [lia | intros _; exact Logic.I]. }
  destruct IN as [w1 [wr1 [roll1 [keys1 [closed1 [Ei [I1 [S1 [Z1 [X1 [F1 [L1 N1]]]]]]]]]]]].
  assert (Hhi1 : (wnow w1 <= hi)%Z) by (rewrite (same_env_now _ _ S1); exact Hhi).
  pose proof (td_len _ _ _ _ _ _ _ I1) as Hlen1.
  destruct (write_active_tsd_k c crit e lo hi w1 wr1 keys1 closed1 roll1 b Hcfg T Y I1 Hhi1 ltac:(lia) Z1)
    as [w' [wr' [roll' [keys' [closed' [E [I' [Z' [S' V']]]]]]]]].
  exists w', (st_tsd c e (nth (length closed') keys' kd) roll' wr'), (rotation_necessary w1 roll1), (keys', closed', cur_view w' wr').
  split. { rewrite (write_buffer_init c (s_w x) b _ _ _ w1 Ei). exact E. }
  assert (S2 : same_env (s_w x) w') by (eapply same_env_trans; eassumption).
  assert (X2 : ExtD (Some (keys1, closed1, cur_view w1 wr1)) (Some (keys', closed', cur_view w' wr'))).
  { rewrite V'. destruct (rotation_necessary w1 roll1); [apply ExtD_rot | apply ExtD_same]. }
  split; [|split; [|split; [|split; [exact (same_env_now _ _ S2)|]]]].
  - split; [apply (envTd_env c e off x _ E0); [reflexivity | exact S2]|].
    exists wr', roll'. cbn [s_flw s_w]. split; [reflexivity|]. split; [exact I'|]. split; [reflexivity|]. split; [|exact Z'].
    destruct (rotation_necessary w1 roll1); injection V' as _ -> _; rewrite ?app_length; cbn [length]; lia.
  - exact (ExtD_trans _ _ _ X1 X2).
  - rewrite <- F1, V'. destruct (rotation_necessary w1 roll1); cbn [flatD].
    + rewrite concat_app. cbn [concat]. rewrite app_nil_r. reflexivity.
    + rewrite app_assoc. reflexivity.
  - intros Hna. exact (FreshD_ExtD _ _ _ (N1 Hna) X2).
Qed.

(* ------------------------------------------------------------------ one run *)
(* the state of a run: None as long as nothing has been written (the directory is still d0) *)
Definition GRelTd (c : config) (e off lo : Z) (n : nat) (x : sys) (d0 a : dview) : Prop :=
  match a with None => PreTd c e off lo n x d0 | Some _ => ActTd c e off lo n x a end.
Definition gviewD (d0 a : dview) : dview := match a with None => d0 | Some _ => a end.
(* a run without append has not touched what it found *)
Definition NoTouch (d0 a : dview) : Prop := match a with None => True | Some _ => FreshD d0 a end.

Lemma dir_tsd_tick c e lo w d dt : (0 <= dt)%Z -> dir_tsd c e lo w d -> dir_tsd c e lo (set_now w (wnow w + dt)%Z) d.
Proof.
  intros Hdt. destruct d as [[[keys closed] cur]|]; cbn [dir_tsd].
  - intros [wr [I [Hp V]]]. exists wr. split; [apply tsdinv_tick; assumption|]. split; [exact Hp | exact V].
  - intros [A [B C]]. repeat split; try assumption. cbn [set_now wnow]. lia.
Qed.

Lemma gstep_td c crit e off lo hi n x d0 a o :
  tsdcfg c crit -> tag_ok c -> years_ok e lo hi -> aok c -> GRelTd c e off lo n x d0 a -> basic_op o -> tick_ok o ->
  (wnow (s_w x) <= hi)%Z -> (N.of_nat (S n) <= usize_max)%N ->
  exists a', GRelTd c e off lo (S n) (fst (step x o)) d0 a' /\ ExtD (gviewD d0 a) (gviewD d0 a')
    /\ flatD (gviewD d0 a') = flatD (gviewD d0 a) ++ written [o]
    /\ wnow (s_w (fst (step x o))) = (wnow (s_w x) + dt_of o)%Z
    /\ (c_append c = false -> NoTouch d0 a -> NoTouch d0 a').
Proof.
  intros Hcfg T Y Hao G Hb Htk Hhi Hmax. destruct a as [D|].
  - cbn [GRelTd gviewD] in *. destruct (act_step_td c crit e off lo hi n x D o Hcfg T Y G Hb Htk Hhi Hmax) as [D' [A' [X' [F' W']]]].
    exists (Some D'). cbn [GRelTd gviewD NoTouch]. split; [exact A'|]. split; [exact X'|]. split; [exact F'|]. split; [exact W'|].
    intros _ N0. exact (FreshD_ExtD _ _ _ N0 X').
  - cbn [GRelTd gviewD] in *. pose proof G as [[Ht [Ha [Q [Ho Hw]]]] [Es [D Hn]]].
    rewrite (step_sync_tsd c crit x _ o Hcfg Es eq_refl).
    destruct o; try contradiction; cbn [sync_step dt_of written].
    + (* OWrite *)
      destruct (first_write_td c crit e off lo hi n x d0 (s_tl x ++ b) Hcfg T Y Hao G Hhi Hmax) as [w' [s' [rot [D' [E [A' [X' [F' [W' N']]]]]]]]].
      rewrite Es. cbn [new_flw f_poisoned]. fold (new_flw c). rewrite E. cbn [fst s_w].
      rewrite Ht in F'. cbn [app] in F'.
      exists (Some D'). cbn [GRelTd gviewD NoTouch]. rewrite app_nil_r. split; [exact A'|]. split; [exact X'|]. split; [exact F'|].
      split; [lia | intros Hna _; exact (N' Hna)].
    + (* OPlain *)
      destruct (first_write_td c crit e off lo hi n x d0 b Hcfg T Y Hao G Hhi Hmax) as [w' [s' [rot [D' [E [A' [X' [F' [W' N']]]]]]]]].
      rewrite Es. cbn [new_flw f_poisoned]. fold (new_flw c). rewrite E. cbn [fst s_w]. rewrite Ht.
      exists (Some D'). cbn [GRelTd gviewD NoTouch]. rewrite app_nil_r. split; [exact A'|]. split; [exact X'|]. split; [exact F'|].
      split; [lia | intros Hna _; exact (N' Hna)].
    + (* OFlush *)
      rewrite Es. cbn [new_flw f_poisoned flush_state f_inner fst s_w]. exists None. cbn [GRelTd gviewD NoTouch].
      split; [|split; [apply ExtD_refl|]; split; [rewrite app_nil_r; reflexivity | split; [lia | auto]]].
      split; [repeat split; try assumption; apply Q|]. split; [reflexivity|]. split; [exact D | lia].
    + (* OTrigger *)
      rewrite Es. cbn [new_flw f_poisoned f_cfg f_inner mount_next with_inner code_of fst s_w]. exists None. cbn [GRelTd gviewD NoTouch].
      split; [|split; [apply ExtD_refl|]; split; [rewrite app_nil_r; reflexivity | split; [lia | auto]]].
      split; [repeat split; try assumption; apply Q|]. split; [reflexivity|]. split; [exact D | lia].
    + (* OTick *)
      cbn [fst s_w set_now wnow tick_ok] in *. exists None. cbn [GRelTd gviewD NoTouch].
      split; [|split; [apply ExtD_refl|]; split; [rewrite app_nil_r; reflexivity | split; [reflexivity | auto]]].
      split; [repeat split; try assumption; apply Q|]. split; [exact Es|]. split; [apply dir_tsd_tick; assumption | lia].
    + (* OSnap *)
      cbn [fst]. exists None. cbn [GRelTd gviewD NoTouch].
      split; [|split; [apply ExtD_refl|]; split; [rewrite app_nil_r; reflexivity | split; [lia | auto]]].
      split; [repeat split; try assumption; apply Q|]. split; [exact Es|]. split; [exact D | lia].
Qed.

Lemma grun_td c crit e off lo hi d0 : tsdcfg c crit -> tag_ok c -> years_ok e lo hi -> aok c ->
  forall ops x a n, GRelTd c e off lo n x d0 a -> Forall basic_op ops -> Forall tick_ok ops ->
  (wnow (s_w x) + elapsed ops <= hi)%Z -> (N.of_nat (n + length ops) <= usize_max)%N ->
  exists a', GRelTd c e off lo (n + length ops) (fst (run x ops)) d0 a' /\ ExtD (gviewD d0 a) (gviewD d0 a')
    /\ flatD (gviewD d0 a') = flatD (gviewD d0 a) ++ written ops
    /\ wnow (s_w (fst (run x ops))) = (wnow (s_w x) + elapsed ops)%Z
    /\ (c_append c = false -> NoTouch d0 a -> NoTouch d0 a').
Proof.
  intros Hcfg T Y Hao. induction ops as [|o r IH]; intros x a n G Hb Htk Hhi Hmax.
  - cbn [run fst length elapsed written]. rewrite Nat.add_0_r, app_nil_r. exists a.
    split; [exact G|]. split; [apply ExtD_refl|]. split; [reflexivity|]. split; [lia | auto].
  - cbn [run]. inversion Hb as [|o' r' Ho Hr]; subst. inversion Htk as [|o' r' Hto Htr]; subst.
    cbn [elapsed length] in *. pose proof (elapsed_nonneg r Htr) as Er.
    assert (Hdt : (0 <= dt_of o)%Z) by (destruct o; cbn [dt_of tick_ok] in *; lia).
    destruct (gstep_td c crit e off lo hi n x d0 a o Hcfg T Y Hao G Ho Hto ltac:(lia) ltac:(lia)) as [a1 [G1 [X1 [F1 [W1 N1]]]]].
    destruct (step x o) as [x1 ob]. cbn [fst] in *.
    destruct (IH x1 a1 (S n) G1 Hr Htr ltac:(lia) ltac:(lia)) as [a2 [G2 [X2 [F2 [W2 N2]]]]].
    destruct (run x1 r) as [x2 obs]. cbn [fst] in *.
    exists a2. replace (n + S (length r)) with (S n + length r) by lia.
    split; [exact G2|]. split; [exact (ExtD_trans _ _ _ X1 X2)|].
    split; [rewrite F2, F1, (written_cons o r), app_assoc; reflexivity|]. split; [lia | auto].
Qed.

(* ---- start, stop, the clock between two runs ---- *)
Lemma start_td c e off lo n x d : IdleTd c e off lo n x d -> PreTd c e off lo (S n) (fst (step x (OStart c))) d.
Proof.
  intros [[Ht [Ha [Q [Ho Hw]]]] [Es [D Hn]]]. rewrite (step_sync_none x _ Es). cbn [sync_step fst].
  split; [repeat split; try assumption; apply Q|]. split; [reflexivity|]. split; [exact D | lia].
Qed.

Lemma idle_tick_td c e off lo n x d dt : (0 <= dt)%Z -> IdleTd c e off lo n x d ->
  IdleTd c e off lo n (fst (step x (OTick dt))) d /\ wnow (s_w (fst (step x (OTick dt)))) = (wnow (s_w x) + dt)%Z.
Proof.
  intros Hdt [[Ht [Ha [Q [Ho Hw]]]] [Es [D Hn]]]. rewrite (step_sync_none x _ Es). cbn [sync_step fst s_w set_now wnow].
  split; [|reflexivity].
  split; [repeat split; try assumption; apply Q|]. split; [exact Es|]. split; [apply dir_tsd_tick; assumption | exact Hn].
Qed.

Lemma stop_td c crit e off lo n x d0 a : tsdcfg c crit -> GRelTd c e off lo n x d0 a ->
  IdleTd c e off lo n (fst (step x OStop)) (gviewD d0 a) /\ wnow (s_w (fst (step x OStop))) = wnow (s_w x).
Proof.
  intros Hcfg G. destruct a as [[[keys closed] cur]|]; cbn [GRelTd gviewD] in *.
  - destruct G as [E0 [wr [roll [Es [I [V [Hn Z]]]]]]]. pose proof E0 as [Ht [Ha [Q [Ho Hw]]]].
    rewrite (step_sync_tsd c crit x _ OStop Hcfg Es eq_refl). cbn [sync_step].
    rewrite Es. cbn [st_tsd f_poisoned]. unfold drop_state.
    set (k := nth (length closed) keys kd).
    destruct (shutdown_active_tsd_env c e lo (s_w x) wr keys closed roll k I) as [w1 [wr1 [E1 [I1 [V1 [P1 S1]]]]]].
    fold (st_tsd c e k roll wr). rewrite E1.
    destruct (shutdown_active_tsd_env c e lo w1 wr1 keys closed roll k I1) as [w2 [wr2 [E2 [I2 [V2 [P2 S2]]]]]].
    rewrite E2. cbn [st_tsd f_inner s_w]. unfold w_drop.
    destruct (w_flush_quiet w2 wr2 (td_quiet _ _ _ _ _ _ _ I2)) as [w3 [E3 [F3 S3]]]. rewrite E3. cbn [fst snd s_w].
    assert (SE : same_env (s_w x) w3) by (eapply same_env_trans; [eapply same_env_trans|]; eassumption).
    split; [|exact (same_env_now _ _ SE)].
    split; [apply (envTd_env c e off x _ E0); [exact Ht | exact SE]|].
    split; [reflexivity|]. cbn [s_w dir_tsd closedD]. split; [|exact Hn].
    set (wr3 := {| wino := wino wr2; wpend := []; wcap := wcap wr2 |}).
    assert (Hok : wr_ok wr3) by (unfold wr_ok, wr3; cbn; destruct (wcap wr2); [lia | reflexivity]).
    destruct (tsdinv_append c e lo w2 w3 wr2 wr3 keys closed (wpend wr2) I2 F3 S3 eq_refl eq_refl Hok) as [I3 C3].
    exists wr3. split; [exact I3|]. split; [reflexivity|].
    unfold cur_view in *. cbn [wr3 wino wpend] in *. rewrite C3, app_nil_r. congruence.
  - destruct G as [[Ht [Ha [Q [Ho Hw]]]] [Es [D Hn]]].
    rewrite (step_sync_tsd c crit x _ OStop Hcfg Es eq_refl). cbn [sync_step].
    rewrite Es. cbn [new_flw f_poisoned drop_state shutdown_state f_inner fst s_w]. split; [|reflexivity].
    split; [repeat split; try assumption; apply Q|]. split; [reflexivity|]. split; [exact D | lia].
Qed.

(* ---- one whole run, after the clock has advanced by dt ---- *)
Lemma one_run_td c crit e off lo hi n x d dt ops :
  tsdcfg c crit -> tag_ok c -> years_ok e lo hi -> aok c -> IdleTd c e off lo n x d -> (0 <= dt)%Z ->
  Forall basic_op ops -> Forall tick_ok ops ->
  (wnow (s_w x) + elapsed (run_t dt c ops) <= hi)%Z -> (N.of_nat (n + length (run_t dt c ops)) <= usize_max)%N ->
  exists d', IdleTd c e off lo (n + length (run_t dt c ops)) (fst (run x (run_t dt c ops))) d'
    /\ ExtD d d' /\ flatD d' = flatD d ++ written ops
    /\ wnow (s_w (fst (run x (run_t dt c ops)))) = (wnow (s_w x) + elapsed (run_t dt c ops))%Z
    /\ (c_append c = false -> KeepD d d').
Proof.
  intros Hcfg T Y Hao Id Hdt Hb Htk Hhi Hmax. unfold run_t in *.
  cbn [elapsed dt_of length] in Hhi, Hmax. rewrite elapsed_app in Hhi. rewrite app_length in Hmax. cbn [elapsed dt_of length] in Hhi, Hmax.
  pose proof (elapsed_nonneg ops Htk) as Eo.
  cbn [run].
  destruct (idle_tick_td c e off lo n x d dt Hdt Id) as [Id0 W0]. destruct (step x (OTick dt)) as [xa oba]. cbn [fst] in Id0, W0.
  pose proof (start_td c e off lo n xa d Id0) as P0. pose proof (start_now xa c) as W1.
  destruct (step xa (OStart c)) as [x0 ob0]. cbn [fst] in P0, W1.
  assert (G0 : GRelTd c e off lo (S n) x0 d None) by exact P0.
  destruct (grun_td c crit e off lo hi d Hcfg T Y Hao ops x0 None (S n) G0 Hb Htk ltac:(lia) ltac:(lia)) as [a1 [G1 [X1 [F1 [W2 N1]]]]].
  pose proof (fst_run_app ops [OStop] x0) as RA.
  destruct (run x0 (ops ++ [OStop])) as [x2 obs2]. cbn [fst] in RA |- *.
  destruct (run x0 ops) as [x1 obs1]. cbn [fst] in RA, G1, W2.
  destruct (stop_td c crit e off lo (S n + length ops) x1 d a1 Hcfg G1) as [Id2 W3].
  cbn [run] in RA. destruct (step x1 OStop) as [x2' ob2]. cbn [fst] in RA, Id2, W3. subst x2'.
  exists (gviewD d a1). cbn [gviewD] in X1, F1.
  split; [apply (idleTd_mono c e off lo (S n + length ops)); [cbn [length]; rewrite app_length; cbn [length]; lia | exact Id2]|].
  split; [exact X1|]. split; [exact F1|].
  split; [cbn [elapsed dt_of]; rewrite elapsed_app; cbn [elapsed dt_of]; lia|].
  intros Hna. specialize (N1 Hna Logic.I). destruct a1 as [D1|]; [right; exact N1 | left; reflexivity].
Qed.

(* ------------------------------------------------------------------ sequences of runs *)
(* histories as for Timestamps naming (TsRestart.trun, runs_ops_t, runs_written_t): before each run the clock advances by
   dt >= 0.  Every run: the same file spec, the same choice of use_utc; its own criterion, buffer capacity and append flag.
   A run with append: the infix is found in the names (probe_ok; for instance by
   TsdRestartInv.probe_free_ok) *)
Definition cfg_of (r : trun) : config := snd (fst r).
Definition run_ok_tsd (sp : file_spec) (utc : bool) (r : trun) : Prop :=
  let '(dt, c, ops) := r in
  (0 <= dt)%Z /\ c_spec c = sp /\ c_utc c = utc /\ (exists crit, tsdcfg c crit) /\ tag_ok c
  /\ Forall basic_op ops /\ Forall tick_ok ops
  /\ (c_append c = true -> probe_ok c).

Lemma run_ok_tsd_elim sp utc dt c ops : run_ok_tsd sp utc (dt, c, ops) ->
  (0 <= dt)%Z /\ c_spec c = sp /\ c_utc c = utc /\ (exists crit, tsdcfg c crit) /\ tag_ok c
  /\ Forall basic_op ops /\ Forall tick_ok ops
  /\ (c_append c = true -> probe_ok c).
Proof. exact (fun H => H). Qed.

Lemma run_ok_tsd_intro sp utc dt c ops :
  (0 <= dt)%Z /\ c_spec c = sp /\ c_utc c = utc /\ (exists crit, tsdcfg c crit) /\ tag_ok c
  /\ Forall basic_op ops /\ Forall tick_ok ops
  /\ (c_append c = true -> probe_ok c) -> run_ok_tsd sp utc (dt, c, ops).
Proof. exact (fun H => H). Qed.

Lemma runs_elapsed_nonneg_tsd sp utc rs : Forall (run_ok_tsd sp utc) rs -> (0 <= elapsed (runs_ops_t rs))%Z.
Proof.
  induction 1 as [|[[dt c] ops] r Hok _ IH]; cbn [runs_ops_t elapsed]; [lia|].
  apply run_ok_tsd_elim in Hok. destruct Hok as [Hdt [_ [_ [_ [_ [_ [Htk _]]]]]]].
  rewrite elapsed_app. unfold run_t. cbn [elapsed dt_of]. rewrite elapsed_app. cbn [elapsed dt_of].
  pose proof (elapsed_nonneg ops Htk). lia.
Qed.

Definition no_append (r : trun) : Prop := c_append (cfg_of r) = false.

Lemma runs_rel_td sp (utc : bool) off lo hi : let e := (if utc then 0 else off)%Z in years_ok e lo hi ->
  forall rs x d c0 n, c_spec c0 = sp -> c_utc c0 = utc -> Forall (run_ok_tsd sp utc) rs -> IdleTd c0 e off lo n x d ->
  (wnow (s_w x) + elapsed (runs_ops_t rs) <= hi)%Z -> (N.of_nat (n + length (runs_ops_t rs)) <= usize_max)%N ->
  exists d', IdleTd c0 e off lo (n + length (runs_ops_t rs)) (fst (run x (runs_ops_t rs))) d'
    /\ ExtD d d' /\ flatD d' = flatD d ++ runs_written_t rs
    /\ wnow (s_w (fst (run x (runs_ops_t rs)))) = (wnow (s_w x) + elapsed (runs_ops_t rs))%Z
    /\ (Forall no_append rs -> KeepD d d').
Proof.
  intros e Y. induction rs as [|[[dt c] ops] r IH]; intros x d c0 n Ec0 Eu0 Hrs Id Hhi Hmax.
  - cbn [runs_ops_t runs_written_t run fst length elapsed]. rewrite Nat.add_0_r, app_nil_r. exists d.
    split; [exact Id|]. split; [apply ExtD_refl|]. split; [reflexivity|]. split; [lia | intros _; left; reflexivity].
  - inversion Hrs as [|r0 r' Hok Hr]; subst. apply run_ok_tsd_elim in Hok.
    destruct Hok as [Hdt [Ec [Eu [[crit Hcfg] [T [Hb [Htk Hap]]]]]]].
    cbn [runs_ops_t runs_written_t] in *. rewrite elapsed_app in Hhi. rewrite app_length in Hmax.
    pose proof (runs_elapsed_nonneg_tsd _ _ r Hr) as Er.
    assert (Id' : IdleTd c e off lo n x d) by (apply (idleTd_spec c0 c); congruence).
    assert (Hao : aok c).
    { exact Hap. }
    destruct (one_run_td c crit e off lo hi n x d dt ops Hcfg T Y Hao Id' Hdt Hb Htk ltac:(lia) ltac:(lia)) as [d1 [Id1 [X1 [F1 [W1 K1]]]]].
    rewrite fst_run_app. set (x1 := fst (run x (run_t dt c ops))) in *.
    assert (Id1' : IdleTd c0 e off lo (n + length (run_t dt c ops)) x1 d1) by (apply (idleTd_spec c c0); congruence).
    destruct (IH x1 d1 c0 (n + length (run_t dt c ops)) eq_refl eq_refl Hr Id1' ltac:(lia) ltac:(lia)) as [d2 [Id2 [X2 [F2 [W2 K2]]]]].
    exists d2. rewrite app_length, elapsed_app, Nat.add_assoc.
    split; [exact Id2|]. split; [exact (ExtD_trans _ _ _ X1 X2)|].
    split; [rewrite F2, F1, app_assoc; reflexivity|]. split; [lia|].
    intros Hna. inversion Hna as [|r0 r' Hn0 Hnr]; subst. exact (KeepD_trans _ _ _ (K1 Hn0) (K2 Hnr)).
Qed.

Lemma idleTd0 c t0 off : IdleTd c (ts_e c off) off t0 0 (sys0 t0 off) None.
Proof. cbn. repeat split; cbn; lia. Qed.

(* ------------------------------------------------------------------ what the reader finds between two writers *)
Lemma tsd_view_spec c c' e f keys files : c_spec c = c_spec c' -> tsd_view c e f keys files -> tsd_view c' e f keys files.
Proof.
  intros E [Hlen [Hcl [Hon Hnd]]]. split; [exact Hlen|]. split; [|split; [|exact Hnd]].
  - intros i Hi. rewrite <- (kname_spec_eq c c' e _ E). exact (Hcl i Hi).
  - intros n j L. destruct (Hon n j L) as [i [Hi ->]]. exists i. split; [exact Hi | apply kname_spec_eq; exact E].
Qed.

Lemma idleTd_view sp c0 e off lo n x d : c_spec c0 = sp -> IdleTd c0 e off lo n x d ->
  (forall c, c_spec c = sp -> tsd_view c e (wfs (s_w x)) (keysD d) (filesD d))
  /\ concat (filesD d) = flatD d /\ keys_ok (keysD d) /\ (forall k, In k (keysD d) -> (lo <= fst k <= wnow (s_w x))%Z).
Proof.
  intros E0 [_ [_ [D _]]]. destruct d as [[[keys closed] cur]|]; cbn [dir_tsd keysD filesD flatD] in *.
  - destruct D as [wr [I [Hp V]]]. split; [|split; [|split; [exact (td_keys _ _ _ _ _ _ _ I) | exact (td_range _ _ _ _ _ _ _ I)]]].
    + intros c Ec. apply (tsd_view_spec c0 c); [congruence|]. rewrite <- V. apply (tsdinv_view c0 e lo); assumption.
    + rewrite concat_app. cbn [concat]. rewrite app_nil_r. reflexivity.
  - destruct D as [Hn _]. split; [|split; [reflexivity | split; [constructor | intros k []]]].
    intros c _. apply tsd_view_nil. auto.
Qed.

(* ------------------------------------------------------------------ THE THEOREMS *)
(* Any number of runs on the same directory, starting from the empty one; before each run the clock may advance (and it may
   advance within the runs); each run has its own criterion, buffer capacity and append flag; all runs have the same file
   spec and the same choice of use_utc.  e is the offset that enters the time-stamp texts.

   After the whole history the directory consists exactly of the plain files named by keys (second of the start, position),
   in the order of their creation (files = [] stands for the empty directory, tsd_view_nil);
   - their contents, in this order, are exactly the bytes written in all runs, in the order of the writing;
   - keys_ok keys: over the WHOLE history the keys are pairwise distinct and strictly increasing in the order of creation
     (keys_ok_order, ts_names_distinct in TsTheorems.v, tsd_view_names): no file name is used twice, across runs too. *)
Theorem timestampsdirect_restarts sp utc t0 off rs :
  Forall (run_ok_tsd sp utc) rs ->
  let e := if utc then 0%Z else off in
  (0 <= t0 + e)%Z -> (t0 + elapsed (runs_ops_t rs) + e < sec_max)%Z -> (N.of_nat (length (runs_ops_t rs)) <= usize_max)%N ->
  let f := wfs (s_w (fst (run (sys0 t0 off) (runs_ops_t rs)))) in
  exists keys files,
    (forall c, c_spec c = sp -> tsd_view c e f keys files)
    /\ concat files = runs_written_t rs
    /\ keys_ok keys
    /\ (forall k, In k keys -> (t0 <= fst k <= t0 + elapsed (runs_ops_t rs))%Z).
Proof.
  intros Hrs e Hlo Hhi Hmax f.
  assert (Y : years_ok e t0 (t0 + elapsed (runs_ops_t rs))) by (split; assumption).
  pose proof (idleTd0 (sp_config_utc sp utc) t0 off) as Id0. change (ts_e (sp_config_utc sp utc) off) with e in Id0.
  destruct (runs_rel_td sp utc off t0 _ Y rs (sys0 t0 off) None (sp_config_utc sp utc) 0 eq_refl eq_refl Hrs Id0
              ltac:(cbn [sys0 s_w world0 wnow]; lia) ltac:(cbn [Nat.add]; exact Hmax)) as [d' [Id [_ [F [W _]]]]].
  cbn [flatD app] in F. cbn [sys0 s_w world0 wnow] in W. fold f in Id.
  destruct (idleTd_view sp (sp_config_utc sp utc) e off t0 _ _ d' eq_refl Id) as [V [C [K Rg]]].
  exists (keysD d'), (filesD d'). split; [exact V|]. split; [rewrite C; exact F|]. split; [exact K|].
  intros k Ik. specialize (Rg k Ik). lia.
Qed.
Print Assumptions timestampsdirect_restarts.

(* Later runs never change an earlier file and never reuse a name: after rs1 the directory shows (keys1, files1), after the
   further runs rs2 it shows (keys2, files2): every file of before is there under its key; all but the last one have their
   content of before, the last one - the newest file - has at most been continued (by a run with append); further files follow.
   If no run of rs2 has append, the last file is untouched, too: files2 = files1 ++ more. *)
Theorem timestampsdirect_restarts_keep sp utc t0 off rs1 rs2 :
  Forall (run_ok_tsd sp utc) (rs1 ++ rs2) ->
  let e := if utc then 0%Z else off in
  (0 <= t0 + e)%Z -> (t0 + elapsed (runs_ops_t (rs1 ++ rs2)) + e < sec_max)%Z ->
  (N.of_nat (length (runs_ops_t (rs1 ++ rs2))) <= usize_max)%N ->
  let f1 := wfs (s_w (fst (run (sys0 t0 off) (runs_ops_t rs1)))) in
  let f2 := wfs (s_w (fst (run (sys0 t0 off) (runs_ops_t (rs1 ++ rs2))))) in
  exists keys1 files1 keys2 files2,
    (forall c, c_spec c = sp -> tsd_view c e f1 keys1 files1)
    /\ concat files1 = runs_written_t rs1
    /\ (forall c, c_spec c = sp -> tsd_view c e f2 keys2 files2)
    /\ concat files2 = runs_written_t (rs1 ++ rs2)
    /\ keys_ok keys2
    /\ (files1 = []
        \/ exists closed cur t mk more,
             files1 = closed ++ [cur] /\ keys2 = keys1 ++ mk /\ files2 = closed ++ (cur ++ t) :: more)
    /\ (Forall no_append rs2 -> exists mk more, keys2 = keys1 ++ mk /\ files2 = files1 ++ more).
Proof.
  intros Hrs e Hlo Hhi Hmax f1 f2. apply Forall_app in Hrs. destruct Hrs as [Hrs1 Hrs2].
  assert (RA : forall a b, runs_ops_t (a ++ b) = runs_ops_t a ++ runs_ops_t b).
  { induction a as [|[[dt c] ops] r IH]; intros b; [reflexivity|]. cbn [app runs_ops_t]. rewrite IH, app_assoc. reflexivity. }
  assert (RW : forall a b, runs_written_t (a ++ b) = runs_written_t a ++ runs_written_t b).
  { induction a as [|[[dt c] ops] r IH]; intros b; [reflexivity|]. cbn [app runs_written_t]. rewrite IH, app_assoc. reflexivity. }
  pose proof (runs_elapsed_nonneg_tsd sp utc) as EN.
  unfold f2. rewrite RA in *. rewrite elapsed_app in Hhi. rewrite app_length in Hmax.
  pose proof (EN rs1 Hrs1) as E1. pose proof (EN rs2 Hrs2) as E2.
  set (hi := (t0 + (elapsed (runs_ops_t rs1) + elapsed (runs_ops_t rs2)))%Z).
  assert (Y : years_ok e t0 hi) by (split; assumption).
  pose proof (idleTd0 (sp_config_utc sp utc) t0 off) as Id0. change (ts_e (sp_config_utc sp utc) off) with e in Id0.
  destruct (runs_rel_td sp utc off t0 hi Y rs1 (sys0 t0 off) None (sp_config_utc sp utc) 0 eq_refl eq_refl Hrs1 Id0
              ltac:(cbn [sys0 s_w world0 wnow]; unfold hi; lia) ltac:(cbn [Nat.add]; lia)) as [d1 [Id1 [_ [F1 [W1 _]]]]].
  cbn [flatD app] in F1. cbn [sys0 s_w world0 wnow] in W1. cbn [Nat.add] in Id1.
  rewrite fst_run_app. set (x1 := fst (run (sys0 t0 off) (runs_ops_t rs1))) in *.
  destruct (runs_rel_td sp utc off t0 hi Y rs2 x1 d1 (sp_config_utc sp utc) _ eq_refl eq_refl Hrs2 Id1
              ltac:(unfold hi; lia) ltac:(lia)) as [d2 [Id2 [X2 [F2 [W2 K2]]]]].
  destruct (idleTd_view sp (sp_config_utc sp utc) e off t0 _ _ d1 eq_refl Id1) as [V1 [C1 _]].
  destruct (idleTd_view sp (sp_config_utc sp utc) e off t0 _ _ d2 eq_refl Id2) as [V2 [C2 [Ko2 _]]].
  exists (keysD d1), (filesD d1), (keysD d2), (filesD d2).
  split; [exact V1|]. split; [rewrite C1; exact F1|]. split; [exact V2|]. split; [rewrite C2, F2, RW, F1; reflexivity|].
  split; [exact Ko2|]. split.
  - destruct d1 as [[[keys1 closed1] cur1]|]; [right | left; reflexivity].
    destruct d2 as [[[keys2 closed2] cur2]|]; [|destruct X2]. cbn [keysD filesD ExtD] in *.
    destruct X2 as [[-> [-> [t ->]]]|[t [mk [mc [-> ->]]]]].
    + exists closed1, cur1, t, [], []. rewrite app_nil_r. auto.
    + exists closed1, cur1, t, mk, (mc ++ [cur2]). rewrite <- app_assoc. auto.
  - intros Hna. destruct (K2 Hna) as [->|Hf]; [exists [], []; rewrite !app_nil_r; auto|].
    destruct d1 as [[[keys1 closed1] cur1]|]; [|exists (keysD d2), (filesD d2); auto].
    destruct d2 as [[[keys2 closed2] cur2]|]; [|destruct Hf]. cbn [keysD filesD FreshD] in *.
    destruct Hf as [mk [mc [-> ->]]]. exists mk, (mc ++ [cur2]). rewrite <- !app_assoc. auto.
Qed.
Print Assumptions timestampsdirect_restarts_keep.

(* no name twice: spelled out for the names; the order of creation is the strict order of (second, position) *)
Theorem timestampsdirect_restarts_names sp utc t0 off rs :
  Forall (run_ok_tsd sp utc) rs ->
  let e := if utc then 0%Z else off in
  (0 <= t0 + e)%Z -> (t0 + elapsed (runs_ops_t rs) + e < sec_max)%Z -> (N.of_nat (length (runs_ops_t rs)) <= usize_max)%N ->
  let f := wfs (s_w (fst (run (sys0 t0 off) (runs_ops_t rs)))) in
  exists keys files,
    (forall c, c_spec c = sp -> tsd_view c e f keys files)
    /\ concat files = runs_written_t rs
    /\ (forall i j, i < j < length keys ->
          let a := nth i keys kd in let b := nth j keys kd in (fst a < fst b)%Z \/ (fst a = fst b /\ snd a < snd b))
    /\ (forall c, c_spec c = sp ->
          forall i j, i < length keys -> j < length keys -> kname c e (nth i keys kd) = kname c e (nth j keys kd) -> i = j).
Proof.
  intros Hrs e Hlo Hhi Hmax f.
  destruct (timestampsdirect_restarts sp utc t0 off rs Hrs Hlo Hhi Hmax) as [keys [files [V [F [K Rg]]]]].
  exists keys, files. split; [exact V|]. split; [exact F|]. split; [exact (proj1 (keys_ok_order keys K))|].
  intros c _. apply (ts_names_distinct c e t0 (t0 + elapsed (runs_ops_t rs)) keys K); [split; assumption | exact Rg].
Qed.
Print Assumptions timestampsdirect_restarts_names.

(* not reordered: the reader (Oracles/ReaderOrder.v: sorted by time stamp, then by restart counter) gets the files in the order
   in which they were written, over all runs; their concatenation is the stream of all runs *)
Theorem timestampsdirect_restarts_reader sp utc t0 off rs c crit :
  Forall (run_ok_tsd sp utc) rs ->
  let e := if utc then 0%Z else off in
  (0 <= t0 + e)%Z -> (t0 + elapsed (runs_ops_t rs) + e < sec_max)%Z -> (N.of_nat (length (runs_ops_t rs)) <= usize_max)%N ->
  c_spec c = sp -> tsdcfg c crit -> not_gz c ->
  let x := fst (run (sys0 t0 off) (runs_ops_t rs)) in
  concat (family_in_order c (snap_of x)) = runs_written_t rs
  /\ exists keys, tsd_view c e (wfs (s_w x)) keys (family_in_order c (snap_of x)) /\ keys_ok keys.
Proof.
  intros Hrs e Hlo Hhi Hmax Ec Hcfg G x.
  destruct (timestampsdirect_restarts sp utc t0 off rs Hrs Hlo Hhi Hmax) as [keys [files [V [F [K Rg]]]]].
  assert (Y : years_ok e t0 (t0 + elapsed (runs_ops_t rs))) by (split; assumption).
  pose proof (tsd_reader_order c crit e _ _ _ keys files Hcfg G Y Rg K (V c Ec)) as E. rewrite <- snap_of_list in E.
  fold x in E. rewrite E. split; [exact F|]. exists keys. split; [exact (V c Ec) | exact K].
Qed.
Print Assumptions timestampsdirect_restarts_reader.

(* ------------------------------------------------------------------ a run without a write changes nothing *)
(* the writer looks at the directory at its first write only (lazy initialisation) *)
Lemma run_without_write_tsd c crit x ops : tsdcfg c crit -> s_flw x = None -> Forall no_write_op ops ->
  wfs (s_w (fst (run x (OStart c :: ops ++ [OStop])))) = wfs (s_w x).
Proof.
  intros Hcfg Es Hops. cbn [run]. rewrite (step_sync_none x _ Es). cbn [sync_step].
  set (x0 := {| s_flw := Some (new_flw c); s_w := s_w x; s_tl := s_tl x; s_dead := false |}).
  assert (G : forall l y, Forall no_write_op l -> s_flw y = Some (new_flw c) ->
            s_flw (fst (run y l)) = Some (new_flw c) /\ wfs (s_w (fst (run y l))) = wfs (s_w y)).
  { induction l as [|o r IH]; intros y Hl Ey; [split; [exact Ey | reflexivity]|].
    inversion Hl as [|o' r' Ho Hr]; subst. cbn [run].
    assert (S1 : s_flw (fst (step y o)) = Some (new_flw c) /\ wfs (s_w (fst (step y o))) = wfs (s_w y)).
    { rewrite (step_sync_tsd c crit y _ o Hcfg Ey eq_refl).
      destruct o; try contradiction; cbn [sync_step]; rewrite ?Ey; cbn [new_flw f_poisoned flush_state f_inner f_cfg mount_next with_inner fst s_flw s_w];
        split; reflexivity || exact Ey. }
    destruct (step y o) as [y1 ob]. cbn [fst] in S1. destruct S1 as [E1 F1].
    destruct (IH y1 Hr E1) as [E2 F2]. destruct (run y1 r) as [y2 obs]. cbn [fst] in *. split; [exact E2 | congruence]. }
  destruct (G ops x0 Hops eq_refl) as [E1 F1].
  pose proof (fst_run_app ops [OStop] x0) as RA. destruct (run x0 (ops ++ [OStop])) as [x2 obs2]. cbn [fst] in RA |- *. rewrite RA.
  set (x1 := fst (run x0 ops)) in *. cbn [run].
  rewrite (step_sync_tsd c crit x1 _ OStop Hcfg E1 eq_refl). cbn [sync_step]. rewrite E1.
  cbn [new_flw f_poisoned drop_state shutdown_state f_inner fst s_w]. exact F1.
Qed.

(* after any history: one more run (any configuration of this naming, any append flag) that flushes, triggers rotations,
   lets the clock advance, but does not write, leaves the directory as it is *)
Theorem timestampsdirect_run_without_write sp utc t0 off rs dt c crit ops :
  Forall (run_ok_tsd sp utc) rs ->
  let e := if utc then 0%Z else off in
  (0 <= t0 + e)%Z -> (t0 + elapsed (runs_ops_t rs) + e < sec_max)%Z -> (N.of_nat (length (runs_ops_t rs)) <= usize_max)%N ->
  tsdcfg c crit -> Forall no_write_op ops ->
  wfs (s_w (fst (run (sys0 t0 off) (runs_ops_t rs ++ run_t dt c ops)))) = wfs (s_w (fst (run (sys0 t0 off) (runs_ops_t rs)))).
Proof.
  intros Hrs e Hlo Hhi Hmax Hcfg Hops.
  assert (Y : years_ok e t0 (t0 + elapsed (runs_ops_t rs))) by (split; assumption).
  pose proof (idleTd0 (sp_config_utc sp utc) t0 off) as Id0. change (ts_e (sp_config_utc sp utc) off) with e in Id0.
  destruct (runs_rel_td sp utc off t0 _ Y rs (sys0 t0 off) None (sp_config_utc sp utc) 0 eq_refl eq_refl Hrs Id0
              ltac:(cbn [sys0 s_w world0 wnow]; lia) ltac:(cbn [Nat.add]; exact Hmax)) as [d' [[_ [Es _]] _]].
  rewrite fst_run_app. set (x1 := fst (run (sys0 t0 off) (runs_ops_t rs))) in *.
  unfold run_t. change (OTick dt :: OStart c :: ops ++ [OStop]) with ([OTick dt] ++ (OStart c :: ops ++ [OStop])).
  rewrite fst_run_app. set (x2 := fst (run x1 [OTick dt])).
  assert (E2 : s_flw x2 = None /\ wfs (s_w x2) = wfs (s_w x1)).
  { unfold x2. cbn [run]. rewrite (step_sync_none x1 _ Es). cbn [sync_step fst s_flw s_w set_now wfs]. split; [exact Es | reflexivity]. }
  destruct E2 as [Es2 F2]. rewrite (run_without_write_tsd c crit x2 ops Hcfg Es2 Hops). exact F2.
Qed.
Print Assumptions timestampsdirect_run_without_write.

(* ------------------------------------------------------------------ examples *)
Open Scope string_scope.
Definition rsd_sp : file_spec := ex_sp "log".
Definition rsd_cfg (app : bool) (crit : criterion) (cap : option nat) : config := tsd_cfg rsd_sp app crit cap false.

(* seven runs.  (1) without append, three files in second 0: a | b | c.  (2) with append, five seconds later: the newest time
   stamp in the directory (second 0) is OLDER than the clock; "c" is continued under its old name ("cd"); the clock advances,
   a rotation starts "e" in second 6.  (3) without append, started in the SAME second 6 as the last file: collision-free, "f"
   gets the next restart counter of second 6, "g" the one after it.  (4), (5) two seconds later, writers - without and with
   append - that do not write (they flush and trigger a rotation): nothing changes.  (6) with append: "g", the newest file of the
   newest second (restart-0001 of second 6), is continued ("gh").  (7) with append and the limit 0: "gh" is opened and
   exceeds the limit, the first write rotates: "i" and "j" in second 8. *)
Definition rsd_ex : list trun :=
  [ (0%Z, rsd_cfg false (CSize 100) None, [OWrite (bs "a"); OTrigger; OWrite (bs "b"); OTrigger; OWrite (bs "c")]);
    (5%Z, rsd_cfg true (CSize 100) (Some 4%nat), [OWrite (bs "d"); OTick 1; OTrigger; OWrite (bs "e")]);
    (0%Z, rsd_cfg false (CAge ADay) None, [OWrite (bs "f"); OTrigger; OWrite (bs "g")]);
    (2%Z, rsd_cfg false (CSize 1) None, [OSnap; OFlush; OTrigger]);
    (0%Z, rsd_cfg true (CSize 1) None, [OSnap; OFlush; OTrigger]);
    (0%Z, rsd_cfg true (CSize 100) (Some 2%nat), [OPlain (bs "h")]);
    (0%Z, rsd_cfg true (CSize 0) (Some 2%nat), [OPlain (bs "i"); OPlain (bs "j")]) ].

Example tsd_restarts_dir :
  snap_of (fst (run (sys0 0 0) (runs_ops_t rsd_ex)))
  = [ (bs "app_r1970-01-01_00-00-00.log", 0%N, bs "a");
      (bs "app_r1970-01-01_00-00-00.restart-0000.log", 0%N, bs "b");
      (bs "app_r1970-01-01_00-00-00.restart-0001.log", 0%N, bs "cd");
      (bs "app_r1970-01-01_00-00-06.log", 0%N, bs "e");
      (bs "app_r1970-01-01_00-00-06.restart-0000.log", 0%N, bs "f");
      (bs "app_r1970-01-01_00-00-06.restart-0001.log", 0%N, bs "gh");
      (bs "app_r1970-01-01_00-00-08.log", 0%N, bs "i");
      (bs "app_r1970-01-01_00-00-08.restart-0000.log", 0%N, bs "j") ]
  /\ runs_written_t rsd_ex = bs "abcdefghij".
Proof. split; vm_compute; reflexivity. Qed.

(* after the second run: the old file "c" was continued under its old name, although the clock showed second 5 *)
Example tsd_restarts_dir2 :
  snap_of (fst (run (sys0 0 0) (runs_ops_t (firstn 2 rsd_ex))))
  = [ (bs "app_r1970-01-01_00-00-00.log", 0%N, bs "a");
      (bs "app_r1970-01-01_00-00-00.restart-0000.log", 0%N, bs "b");
      (bs "app_r1970-01-01_00-00-00.restart-0001.log", 0%N, bs "cd");
      (bs "app_r1970-01-01_00-00-06.log", 0%N, bs "e") ].
Proof. vm_compute. reflexivity. Qed.

(* after the third run; the fourth and the fifth run leave the directory as it is *)
Example tsd_restarts_dir3 :
  snap_of (fst (run (sys0 0 0) (runs_ops_t (firstn 3 rsd_ex))))
  = [ (bs "app_r1970-01-01_00-00-00.log", 0%N, bs "a");
      (bs "app_r1970-01-01_00-00-00.restart-0000.log", 0%N, bs "b");
      (bs "app_r1970-01-01_00-00-00.restart-0001.log", 0%N, bs "cd");
      (bs "app_r1970-01-01_00-00-06.log", 0%N, bs "e");
      (bs "app_r1970-01-01_00-00-06.restart-0000.log", 0%N, bs "f");
      (bs "app_r1970-01-01_00-00-06.restart-0001.log", 0%N, bs "g") ]
  /\ snap_of (fst (run (sys0 0 0) (runs_ops_t (firstn 5 rsd_ex)))) = snap_of (fst (run (sys0 0 0) (runs_ops_t (firstn 3 rsd_ex)))).
Proof. split; vm_compute; reflexivity. Qed.

(* the hypotheses of the theorems can be met *)
Lemma rsd_cfg_tag_ok app crit cap : tag_ok (rsd_cfg app crit cap).
Proof. apply tag_free_ok. split; vm_compute; reflexivity. Qed.
Lemma rsd_cfg_probe_ok app crit cap : probe_ok (rsd_cfg app crit cap).
Proof. apply probe_free_ok. vm_compute. reflexivity. Qed.

Lemma rsd_ex_ok : Forall (run_ok_tsd rsd_sp false) rsd_ex.
Proof.
  unfold rsd_ex.
  repeat (apply Forall_cons;
          [apply run_ok_tsd_intro; split; [lia|]; split; [reflexivity|]; split; [reflexivity|];
           split; [eexists; apply tsd_cfg_ok; reflexivity|]; split; [apply rsd_cfg_tag_ok|];
           split; [repeat constructor|];
           split; [repeat (apply Forall_cons; [cbn [tick_ok]; first [exact Logic.I | lia]|]); apply Forall_nil|];
           intros _; apply rsd_cfg_probe_ok|]).
  apply Forall_nil.
Qed.

Example tsd_restarts_instance :
  exists keys files,
    (forall c, c_spec c = rsd_sp -> tsd_view c 0 (wfs (s_w (fst (run (sys0 0 0) (runs_ops_t rsd_ex))))) keys files)
    /\ concat files = bs "abcdefghij" /\ keys_ok keys /\ (forall k, In k keys -> (0 <= fst k <= 8)%Z).
Proof.
  apply (timestampsdirect_restarts rsd_sp false 0 0 rsd_ex rsd_ex_ok);
    [change (0 <= 0)%Z; lia | change (8 + 0 < sec_max)%Z; unfold sec_max; lia | vm_compute; discriminate].
Qed.

(* the keys of this history: the seconds in which the files were STARTED never decrease, positions count from 0 within each
   second *)
Example tsd_restarts_keys :
  List.map (kname (rsd_cfg false (CSize 1) None) 0) [(0%Z, 0); (0%Z, 1); (0%Z, 2); (6%Z, 0); (6%Z, 1); (6%Z, 2); (8%Z, 0); (8%Z, 1)]
  = List.map (fun x : bytes * N * bytes => fst (fst x)) (snap_of (fst (run (sys0 0 0) (runs_ops_t rsd_ex)))).
Proof. vm_compute. reflexivity. Qed.

Example tsd_restarts_keep_instance :
  exists keys1 files1 keys2 files2,
    (forall c, c_spec c = rsd_sp ->
       tsd_view c 0 (wfs (s_w (fst (run (sys0 0 0) (runs_ops_t (firstn 3 rsd_ex)))))) keys1 files1)
    /\ concat files1 = bs "abcdefg"
    /\ (forall c, c_spec c = rsd_sp -> tsd_view c 0 (wfs (s_w (fst (run (sys0 0 0) (runs_ops_t rsd_ex))))) keys2 files2)
    /\ concat files2 = bs "abcdefghij"
    /\ (files1 = [] \/ exists closed cur t mk more,
          files1 = closed ++ [cur] /\ keys2 = keys1 ++ mk /\ files2 = closed ++ (cur ++ t) :: more).
Proof.
  pose proof rsd_ex_ok as Hok. change rsd_ex with (firstn 3 rsd_ex ++ skipn 3 rsd_ex) in Hok |- *.
  destruct (timestampsdirect_restarts_keep rsd_sp false 0 0 (firstn 3 rsd_ex) (skipn 3 rsd_ex) Hok)
    as [keys1 [files1 [keys2 [files2 [V1 [F1 [V2 [F2 [_ [X _]]]]]]]]]];
    [change (0 <= 0)%Z; lia | change (8 + 0 < sec_max)%Z; unfold sec_max; lia | vm_compute; discriminate |].
  exists keys1, files1, keys2, files2. auto.
Qed.

(* runs without append only: every file of before is untouched *)
Example tsd_restarts_fresh_instance :
  exists keys1 files1 keys2 files2 mk more,
    (forall c, c_spec c = rsd_sp ->
       tsd_view c 0 (wfs (s_w (fst (run (sys0 0 0) (runs_ops_t (firstn 2 rsd_ex)))))) keys1 files1)
    /\ (forall c, c_spec c = rsd_sp ->
       tsd_view c 0 (wfs (s_w (fst (run (sys0 0 0) (runs_ops_t (firstn 4 rsd_ex)))))) keys2 files2)
    /\ keys2 = keys1 ++ mk /\ files2 = files1 ++ more.
Proof.
  assert (Hok : Forall (run_ok_tsd rsd_sp false) (firstn 4 rsd_ex)) by (apply firstn_Forall; exact rsd_ex_ok).
  change (firstn 4 rsd_ex) with (firstn 2 rsd_ex ++ firstn 2 (skipn 2 rsd_ex)) in Hok |- *.
  destruct (timestampsdirect_restarts_keep rsd_sp false 0 0 (firstn 2 rsd_ex) (firstn 2 (skipn 2 rsd_ex)) Hok)
    as [keys1 [files1 [keys2 [files2 [V1 [_ [V2 [_ [_ [_ X]]]]]]]]]];
    [change (0 <= 0)%Z; lia | change (8 + 0 < sec_max)%Z; unfold sec_max; lia | vm_compute; discriminate |].
  destruct X as [mk [more [E1 E2]]]; [repeat (apply Forall_cons; [reflexivity|]); apply Forall_nil|].
  exists keys1, files1, keys2, files2, mk, more. auto.
Qed.

(* the reader finds the files in the order in which they were written: computed, and by the theorem *)
Example tsd_restarts_reader_computed :
  family_in_order (rsd_cfg false (CSize 1) None) (snap_of (fst (run (sys0 0 0) (runs_ops_t rsd_ex))))
  = [bs "a"; bs "b"; bs "cd"; bs "e"; bs "f"; bs "gh"; bs "i"; bs "j"].
Proof. vm_compute. reflexivity. Qed.

Example tsd_restarts_reader_instance :
  concat (family_in_order (rsd_cfg false (CSize 1) None) (snap_of (fst (run (sys0 0 0) (runs_ops_t rsd_ex))))) = bs "abcdefghij".
Proof.
  apply (timestampsdirect_restarts_reader rsd_sp false 0 0 rsd_ex (rsd_cfg false (CSize 1) None) (CSize 1) rsd_ex_ok);
    [change (0 <= 0)%Z; lia | change (8 + 0 < sec_max)%Z; unfold sec_max; lia | vm_compute; discriminate | reflexivity
     | apply tsd_cfg_ok; reflexivity | vm_compute; reflexivity].
Qed.

(* ------------------------------------------------------------------ use_utc with a zone offset; the hypotheses are needed *)
(* use_utc, zone offset one hour, append.  The first writer (no append) names its files by UTC: "a", "b" in <03:46:40>.  The
   second writer, with append, lists the directory, reads the newest time stamp back - as UTC, the way it was written - and
   continues "b"; the rotation names "d" by the clock, <03:46:45>, which the third writer continues.
   (THE FORMER FINDING: the code read the time stamp back as LOCAL time, i.e. as the instant one hour earlier, wrote this instant
   as UTC again, did not find "b" but started <02:46:40> for "c", and likewise <02:46:45> for "e": a reader that goes by the
   names got c, e, a, b, d, f - the records were REORDERED; with a negative offset a, b, d, f, c, e.  Repaired in the code,
   the model follows the repaired code.) *)
Definition utc_app_ex (utc : bool) : list trun :=
  [ (0%Z, tsd_cfg rsd_sp false (CSize 100) None utc, [OWrite (bs "a"); OTrigger; OWrite (bs "b")]);
    (5%Z, tsd_cfg rsd_sp true (CSize 100) None utc, [OWrite (bs "c"); OTrigger; OWrite (bs "d")]);
    (5%Z, tsd_cfg rsd_sp true (CSize 100) None utc, [OWrite (bs "e"); OTrigger; OWrite (bs "f")]) ].

Example tsd_utc_append_fine :
  snap_of (fst (run (sys0 100000 3600) (runs_ops_t (utc_app_ex true))))
  = [ (bs "app_r1970-01-02_03-46-40.log", 0%N, bs "a");
      (bs "app_r1970-01-02_03-46-40.restart-0000.log", 0%N, bs "bc");
      (bs "app_r1970-01-02_03-46-45.log", 0%N, bs "de");
      (bs "app_r1970-01-02_03-46-50.log", 0%N, bs "f") ]
  /\ family_in_order (tsd_cfg rsd_sp true (CSize 100) None true) (snap_of (fst (run (sys0 100000 3600) (runs_ops_t (utc_app_ex true)))))
     = [bs "a"; bs "bc"; bs "de"; bs "f"]
  /\ runs_written_t (utc_app_ex true) = bs "abcdef".
Proof. repeat split; vm_compute; reflexivity. Qed.

(* the same with a negative offset *)
Example tsd_utc_append_fine_west :
  family_in_order (tsd_cfg rsd_sp true (CSize 100) None true) (snap_of (fst (run (sys0 100000 (-3600)) (runs_ops_t (utc_app_ex true)))))
  = [bs "a"; bs "bc"; bs "de"; bs "f"].
Proof. vm_compute. reflexivity. Qed.

(* the same history with local time stamps (use_utc off), or with use_utc and the offset 0 *)
Example tsd_local_append_fine :
  snap_of (fst (run (sys0 100000 3600) (runs_ops_t (utc_app_ex false))))
  = [ (bs "app_r1970-01-02_04-46-40.log", 0%N, bs "a");
      (bs "app_r1970-01-02_04-46-40.restart-0000.log", 0%N, bs "bc");
      (bs "app_r1970-01-02_04-46-45.log", 0%N, bs "de");
      (bs "app_r1970-01-02_04-46-50.log", 0%N, bs "f") ]
  /\ List.map snd (snap_of (fst (run (sys0 100000 0) (runs_ops_t (utc_app_ex true))))) = [bs "a"; bs "bc"; bs "de"; bs "f"].
Proof. split; vm_compute; reflexivity. Qed.

Lemma utc_app_ex_ok utc : Forall (run_ok_tsd rsd_sp utc) (utc_app_ex utc).
Proof.
  unfold utc_app_ex.
  repeat (apply Forall_cons;
          [apply run_ok_tsd_intro; split; [lia|]; split; [reflexivity|]; split; [reflexivity|];
           split; [eexists; apply tsd_cfg_ok; reflexivity|]; split; [apply tag_free_ok; split; vm_compute; reflexivity|];
           split; [repeat constructor|];
           split; [repeat (apply Forall_cons; [cbn [tick_ok]; first [exact Logic.I | lia]|]); apply Forall_nil|];
           intros _; apply probe_free_ok; vm_compute; reflexivity|]).
  apply Forall_nil.
Qed.

Example tsd_local_append_instance :
  exists keys files,
    (forall c, c_spec c = rsd_sp ->
       tsd_view c 3600 (wfs (s_w (fst (run (sys0 100000 3600) (runs_ops_t (utc_app_ex false)))))) keys files)
    /\ concat files = bs "abcdef" /\ keys_ok keys.
Proof.
  destruct (timestampsdirect_restarts rsd_sp false 100000 3600 (utc_app_ex false) (utc_app_ex_ok false))
    as [keys [files [V [F [K _]]]]];
    [change (0 <= 103600)%Z; lia | change (100000 + 10 + 3600 < sec_max)%Z; unfold sec_max; lia | vm_compute; discriminate |].
  exists keys, files. auto.
Qed.

(* the theorem covers use_utc with an offset now *)
Example tsd_utc_append_instance :
  exists keys files,
    (forall c, c_spec c = rsd_sp ->
       tsd_view c 0 (wfs (s_w (fst (run (sys0 100000 3600) (runs_ops_t (utc_app_ex true)))))) keys files)
    /\ concat files = bs "abcdef" /\ keys_ok keys.
Proof.
  destruct (timestampsdirect_restarts rsd_sp true 100000 3600 (utc_app_ex true) (utc_app_ex_ok true))
    as [keys [files [V [F [K _]]]]];
    [change (0 <= 100000)%Z; lia | change (100000 + 10 + 0 < sec_max)%Z; unfold sec_max; lia | vm_compute; discriminate |].
  exists keys, files. auto.
Qed.

(* without append use_utc and an offset are no problem (the directory is not read for time stamps) *)
Example tsd_utc_no_append_dir :
  snap_of (fst (run (sys0 100000 3600) (runs_ops_t
     [ (0%Z, tsd_cfg rsd_sp false (CSize 100) None true, [OWrite (bs "a"); OTrigger; OWrite (bs "b")]);
       (0%Z, tsd_cfg rsd_sp false (CSize 100) None true, [OWrite (bs "c")]) ])))
  = [ (bs "app_r1970-01-02_03-46-40.log", 0%N, bs "a");
      (bs "app_r1970-01-02_03-46-40.restart-0000.log", 0%N, bs "b");
      (bs "app_r1970-01-02_03-46-40.restart-0001.log", 0%N, bs "c") ].
Proof. vm_compute. reflexivity. Qed.

(* probe_ok: a basename that contains "rXXXXX".  The position of the infix is taken from the first occurrence of "rXXXXX" in
   a name built with this infix: here position 0 instead of 7; the 20 bytes from there are no time stamp, so the appending
   writer falls back to the clock: "b" is NOT continued, "c" starts the file of second 5.  (Harmless: nothing is lost, the
   order is kept; a later appending writer in the same second continues "d".) *)
Definition probe_sp : file_spec := {| fbase := bs "rXXXXX"; fdisc := None; fts := false; fsfx := Some (bs "log") |}.
Example tsd_probe_in_basename :
  snap_of (fst (run (sys0 0 0) (runs_ops_t
     [ (0%Z, tsd_cfg probe_sp false (CSize 100) None false, [OWrite (bs "a"); OTrigger; OWrite (bs "b")]);
       (5%Z, tsd_cfg probe_sp true (CSize 100) None false, [OWrite (bs "c"); OTrigger; OWrite (bs "d")]);
       (0%Z, tsd_cfg probe_sp true (CSize 100) None false, [OWrite (bs "e")]) ])))
  = [ (bs "rXXXXX_r1970-01-01_00-00-00.log", 0%N, bs "a");
      (bs "rXXXXX_r1970-01-01_00-00-00.restart-0000.log", 0%N, bs "b");
      (bs "rXXXXX_r1970-01-01_00-00-05.log", 0%N, bs "c");
      (bs "rXXXXX_r1970-01-01_00-00-05.restart-0000.log", 0%N, bs "de") ]
  /\ ~ probe_ok (tsd_cfg probe_sp true (CSize 100) None false).
Proof. split; [vm_compute; reflexivity|]. intros H. vm_compute in H. discriminate. Qed.

Print Assumptions timestampsdirect_restarts.
Print Assumptions timestampsdirect_restarts_keep.
