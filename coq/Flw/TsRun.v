(* Timestamps naming: every history of writes, flushes, triggers and (non-negative) clock ticks refines the abstract
   reader's view (closed files, current content).  The abstract side (aview, a_step, a_run, flat, written) is the one of
   Numbers naming (NumRun.v); the concrete side additionally carries the keys (second, position) of the closed files. *)
Require Import FL.Base.Bytes FL.Base.BytesFacts FL.Base.PathName FL.Fs.Fs FL.Fs.FsFacts FL.Time.Civil FL.Time.TsFormat
  FL.Names.FileSpec FL.Names.NamesFacts FL.Flw.Model FL.Flw.ModelFacts FL.Flw.NumFs FL.Flw.NumInv FL.Flw.Run FL.Flw.RunFacts
  FL.Flw.NumRun FL.Flw.TsCal FL.Flw.TsTime FL.Flw.TsNames FL.Flw.TsInv.
From Coq Require Import ZifyN ZifyNat ZifyBool.
Open Scope nat_scope.

(* the clock does not go backwards *)
Definition tick_ok (o : op) : Prop := match o with OTick dt => (0 <= dt)%Z | _ => True end.
Definition dt_of (o : op) : Z := match o with OTick dt => dt | _ => 0%Z end.
Fixpoint elapsed (ops : list op) : Z := match ops with [] => 0%Z | o :: r => (dt_of o + elapsed r)%Z end.

Lemma elapsed_nonneg ops : Forall tick_ok ops -> (0 <= elapsed ops)%Z.
Proof.
  induction 1 as [|o r Ho _ IH]; cbn [elapsed]; [lia|]. destruct o; cbn [dt_of tick_ok] in *; lia.
Qed.

(* n bounds the number of closed files (it grows by one with every operation) *)
Definition RelT (c : config) (e lo : Z) (n : nat) (x : sys) (a : aview) : Prop :=
  s_tl x = [] /\ wacts (s_w x) = 0 /\
  match a with
  | None => s_flw x = Some (new_flw c) /\ quiet (s_w x) /\ names (wfs (s_w x)) = [] /\ inodes (wfs (s_w x)) = []
            /\ eoff c (s_w x) = e /\ (lo <= wnow (s_w x))%Z
  | Some (closed, cur) =>
    exists keys wr roll ts, s_flw x = Some (st_ts c ts roll wr) /\ TsInv c e lo (s_w x) wr keys closed ts
      /\ cur_view (s_w x) wr = cur /\ length closed <= n
  end.

Lemma same_env_now w w' : same_env w w' -> wnow w' = wnow w.
Proof. intros [_ [H _]]. exact H. Qed.

(* what a write does, from either kind of state *)
Lemma write_rel_ts c crit e lo hi n x a b :
  tscfg c crit -> tag_ok c -> years_ok e lo hi -> RelT c e lo n x a ->
  (wnow (s_w x) <= hi)%Z -> (N.of_nat n <= usize_max)%N ->
  exists s w' s' rot, s_flw x = Some s /\ f_poisoned s = false /\
    write_buffer s (s_w x) b = (Ok tt, w', s', rot)
    /\ RelT c e lo (S n) {| s_flw := Some s'; s_w := w'; s_tl := []; s_dead := s_dead x |} (a_step a (OWrite b) rot)
    /\ wnow w' = wnow (s_w x).
Proof.
  intros Hcfg T Y [Ht [Ha R]] Hhi Hmax. destruct a as [[closed cur]|].
  - destruct R as [keys [wr [roll [ts [Es [I [V Hn]]]]]]].
    destruct (write_active_ts c crit e lo hi (s_w x) wr keys closed ts roll b Hcfg T Y I Hhi ltac:(lia))
      as [w' [wr' [roll' [keys' [closed' [ts' [E [I' [S' V']]]]]]]]].
    exists (st_ts c ts roll wr), w', (st_ts c ts' roll' wr'), (rotation_necessary (s_w x) roll).
    split; [exact Es|]. split; [reflexivity|]. split; [exact E|].
    split; [|exact (same_env_now _ _ S')].
    split; [reflexivity|]. split; [cbn [s_w]; exact (same_env_acts _ _ S' Ha)|].
    cbn [a_step]. rewrite V in V'.
    destruct (rotation_necessary (s_w x) roll); injection V' as -> V''; (exists keys', wr', roll', ts'; cbn [s_flw s_w];
      split; [reflexivity|]; split; [exact I'|]; split; [exact V''|]; rewrite ?app_length; cbn [length]; lia).
  - destruct R as [Es [Q [Hn [Hi [Hoff Hlo]]]]].
    destruct (initialize_empty_ts c crit e lo (s_w x) Hcfg Q Hn Hi Hoff Hlo) as [w1 [wr [roll [Ei [I [V S1]]]]]].
    assert (Hhi1 : (wnow w1 <= hi)%Z) by (rewrite (same_env_now _ _ S1); exact Hhi).
    destruct (write_active_ts c crit e lo hi w1 wr [] [] (wnow (s_w x)) roll b Hcfg T Y I Hhi1 ltac:(cbn; lia))
      as [w' [wr' [roll' [keys' [closed' [ts' [E [I' [S' V']]]]]]]]].
    exists (new_flw c), w', (st_ts c ts' roll' wr'), (rotation_necessary w1 roll).
    split; [exact Es|]. split; [reflexivity|].
    split. { rewrite (write_buffer_init c (s_w x) b _ _ _ w1 Ei). exact E. }
    split; [|rewrite (same_env_now _ _ S'); exact (same_env_now _ _ S1)].
    split; [reflexivity|]. split; [cbn [s_w]; exact (same_env_acts _ _ (same_env_trans _ _ _ S1 S') Ha)|].
    cbn [a_step]. rewrite V in V'. cbn [app] in V'.
    destruct (rotation_necessary w1 roll); injection V' as -> V''; (exists keys', wr', roll', ts'; cbn [s_flw s_w];
      split; [reflexivity|]; split; [exact I'|]; split; [exact V''|]; cbn [app length]; lia).
Qed.

(* the clock may advance under the invariant *)
Lemma tsinv_tick c e lo w wr keys closed ts dt : TsInv c e lo w wr keys closed ts -> (0 <= dt)%Z ->
  TsInv c e lo (set_now w (wnow w + dt)%Z) wr keys closed ts.
Proof.
  intros [Q W Hnd Hoff Hc Hcp Hlen Hcl Hon Hko Hrg Htsr Hwr Hcap] Hdt. constructor; try assumption. cbn [set_now wnow]. lia.
Qed.

Lemma step_sync_rel_ts c crit e lo n x a o : tscfg c crit -> RelT c e lo n x a -> step x o = sync_step x o.
Proof.
  intros [_ [Hts [_ Ha]]] [_ [_ R]].
  assert (E : exists s, s_flw x = Some s /\ f_cfg s = c).
  { destruct a as [[closed cur]|]; [destruct R as [keys [wr [roll [ts [Es _]]]]] | destruct R as [Es _]]; rewrite Es; eexists; split; reflexivity. }
  destruct E as [s [Es Ec]].
  rewrite step_plain by (intros s' Es'; rewrite Es in Es'; injection Es' as <-; rewrite Ec; exact Hts).
  unfold step_core. rewrite Es. unfold is_async. rewrite Ec, Ha. reflexivity.
Qed.

Lemma RelT_mono c e lo n x a : RelT c e lo n x a -> RelT c e lo (S n) x a.
Proof.
  intros [Ht [Ha R]]. split; [exact Ht|]. split; [exact Ha|]. destruct a as [[closed cur]|]; [|exact R].
  destruct R as [keys [wr [roll [ts [Es [I [V Hn]]]]]]]. exists keys, wr, roll, ts. split; [exact Es|]. split; [exact I|]. split; [exact V | lia].
Qed.

(* one basic operation *)
Lemma step_rel_ts c crit e lo hi n x a o :
  tscfg c crit -> tag_ok c -> years_ok e lo hi -> RelT c e lo n x a -> basic_op o -> tick_ok o ->
  (wnow (s_w x) <= hi)%Z -> (N.of_nat n <= usize_max)%N ->
  let '(x', ob) := step x o in
  RelT c e lo (S n) x' (a_step a o (rot_of ob)) /\ wnow (s_w x') = (wnow (s_w x) + dt_of o)%Z.
Proof.
  intros Hcfg T Y R Hb Htk Hhi Hmax. rewrite (step_sync_rel_ts c crit e lo n x a o Hcfg R). destruct o; try contradiction; cbn [sync_step dt_of].
  - (* OWrite *)
    destruct (write_rel_ts c crit e lo hi n x a b Hcfg T Y R Hhi Hmax) as [s [w' [s' [rot [Es [Hp [E [R' Hw]]]]]]]].
    rewrite Es, Hp. rewrite (proj1 R). cbn [app]. rewrite E. cbn [rot_of s_w]. split; [exact R' | lia].
  - (* OPlain *)
    destruct (write_rel_ts c crit e lo hi n x a b Hcfg T Y R Hhi Hmax) as [s [w' [s' [rot [Es [Hp [E [R' Hw]]]]]]]].
    rewrite Es, Hp, E. cbn [rot_of code_of s_w]. rewrite (proj1 R). split; [exact R' | lia].
  - (* OFlush *)
    destruct R as [Ht [Ha R]]. destruct a as [[closed cur]|].
    + destruct R as [keys [wr [roll [ts [Es [I [V Hn]]]]]]]. rewrite Es. cbn [st_ts f_poisoned].
      destruct (flush_active_ts c e lo (s_w x) wr keys closed ts roll I) as [w' [wr' [E [I' [V' [P' S']]]]]].
      fold (st_ts c ts roll wr). rewrite E. cbn [rot_of a_step s_w].
      split; [|rewrite (same_env_now _ _ S'); lia].
      split; [exact Ht|]. split; [exact (same_env_acts _ _ S' Ha)|]. exists keys, wr', roll, ts. cbn [s_flw s_w].
      split; [reflexivity|]. split; [exact I'|]. split; [congruence | lia].
    + destruct R as [Es R]. rewrite Es. cbn [new_flw f_poisoned flush_state f_inner rot_of a_step s_w].
      split; [|lia]. split; [exact Ht|]. split; [exact Ha|]. split; [reflexivity | exact R].
  - (* OTrigger *)
    destruct R as [Ht [Ha R]]. destruct a as [[closed cur]|].
    + destruct R as [keys [wr [roll [ts [Es [I [V Hn]]]]]]]. rewrite Es. cbn [st_ts f_poisoned f_cfg f_inner].
      destruct (mount_next_rotates_ts c crit e lo hi (s_w x) wr keys closed ts roll true Hcfg T Y I Hhi ltac:(lia) eq_refl)
        as [w' [wr' [roll' [E [I' [V' S']]]]]].
      rewrite E. cbn [rot_of a_step code_of with_inner f_cfg f_poisoned s_w].
      split; [|rewrite (same_env_now _ _ S'); lia].
      split; [exact Ht|]. split; [exact (same_env_acts _ _ S' Ha)|]. rewrite V in *.
      exists (keys ++ [(ts, count ts keys)]), wr', roll', (wnow (s_w x)). cbn [s_flw s_w].
      split; [reflexivity|]. split; [exact I'|]. split; [exact V'|]. rewrite app_length. cbn [length]. lia.
    + destruct R as [Es R]. rewrite Es. cbn [new_flw f_poisoned f_cfg f_inner mount_next with_inner rot_of a_step code_of s_w].
      split; [|lia]. split; [exact Ht|]. split; [exact Ha|]. split; [reflexivity | exact R].
  - (* OTick *)
    cbn [rot_of a_step s_w set_now wnow tick_ok] in *. split; [|reflexivity].
    destruct R as [Ht [Ha R]]. split; [exact Ht|]. split; [exact Ha|]. destruct a as [[closed cur]|].
    + destruct R as [keys [wr [roll [ts [Es [I [V Hn]]]]]]]. exists keys, wr, roll, ts. cbn [s_flw s_w].
      split; [exact Es|]. split; [apply tsinv_tick; assumption|]. split; [exact V | lia].
    + cbn [s_flw s_w]. destruct R as [Es [Q [Hn [Hi [Hoff Hlo]]]]]. repeat split; try assumption; try apply Q. cbn [set_now wnow]. lia.
  - (* OSnap *)
    cbn [rot_of a_step]. split; [apply RelT_mono; exact R | lia].
Qed.

Lemma run_rel_ts c crit e lo hi : tscfg c crit -> tag_ok c -> years_ok e lo hi ->
  forall ops x a n, RelT c e lo n x a -> Forall basic_op ops -> Forall tick_ok ops ->
  (wnow (s_w x) + elapsed ops <= hi)%Z -> (N.of_nat (n + length ops) <= usize_max)%N ->
  RelT c e lo (n + length ops) (fst (run x ops)) (a_run a ops (snd (run x ops)))
  /\ wnow (s_w (fst (run x ops))) = (wnow (s_w x) + elapsed ops)%Z.
Proof.
  intros Hcfg T Y. induction ops as [|o r IH]; intros x a n R Hb Htk Hhi Hmax.
  - cbn [run fst snd a_run length elapsed]. rewrite Nat.add_0_r. split; [exact R | lia].
  - cbn [run]. inversion Hb as [|o' r' Ho Hr]; subst. inversion Htk as [|o' r' Hto Htr]; subst.
    cbn [elapsed length] in *. pose proof (elapsed_nonneg r Htr) as Er.
    assert (Hdt : (0 <= dt_of o)%Z) by (destruct o; cbn [dt_of tick_ok] in *; lia).
    pose proof (step_rel_ts c crit e lo hi n x a o Hcfg T Y R Ho Hto ltac:(lia) ltac:(lia)) as S. destruct (step x o) as [x1 ob].
    destruct S as [R1 W1]. specialize (IH x1 _ (S n) R1 Hr Htr ltac:(lia) ltac:(lia)). destruct (run x1 r) as [x2 obs].
    cbn [fst snd a_run] in *. replace (n + S (length r)) with (S n + length r) by lia. destruct IH as [IH1 IH2]. split; [exact IH1 | lia].
Qed.

(* ------------------------------------------------------------------ stop: what the reader finds *)
(* the directory consists exactly of the closed files - plain, named by their keys, with the given contents - and the
   current file *)
Definition ts_view (c : config) (e : Z) (f : fs) (keys : list key) (closed : list bytes) (cur : bytes) : Prop :=
  length keys = length closed
  /\ (forall i, i < length closed ->
        exists j, lookup f (kname c e (nth i keys kd)) = Some j /\ plain (inode f j) /\ content f j = nth i closed [])
  /\ (exists j, lookup f (cname c) = Some j /\ plain (inode f j) /\ content f j = cur)
  /\ (forall n j, lookup f n = Some j -> n = cname c \/ exists i, i < length closed /\ n = kname c e (nth i keys kd))
  /\ NoDup (dir_names f).

Lemma tsinv_env c e lo w w' wr keys closed ts : TsInv c e lo w wr keys closed ts ->
  wfs w' = wfs w -> quiet w' -> woff w' = woff w -> wnow w' = wnow w -> TsInv c e lo w' wr keys closed ts.
Proof.
  intros [Q W Hnd Hoff Hc Hcp Hlen Hcl Hon Hko Hrg Htsr Hwr Hcap] F Q' O N'.
  constructor; try rewrite F; try assumption; [unfold eoff in *; rewrite O; exact Hoff | rewrite N'; exact Htsr].
Qed.

Lemma shutdown_active_ts c e lo w wr keys closed ts roll : TsInv c e lo w wr keys closed ts -> wacts w = 0 ->
  exists w' wr', shutdown_state (st_ts c ts roll wr) w = (w', st_ts c ts roll wr')
    /\ TsInv c e lo w' wr' keys closed ts /\ cur_view w' wr' = cur_view w wr /\ wpend wr' = [] /\ wacts w' = 0.
Proof.
  intros I Ha. unfold shutdown_state, st_ts, drain_acts. cbn [f_inner f_cfg mk_rs rs_cleanup rs_naming].
  destruct (w_flush_quiet w wr (ti_quiet _ _ _ _ _ _ _ _ I)) as [w1 [E [F S]]]. rewrite E.
  set (wr' := {| wino := wino wr; wpend := []; wcap := wcap wr |}).
  assert (Hok : wr_ok wr') by (unfold wr_ok, wr'; cbn; destruct (wcap wr); [lia | reflexivity]).
  destruct (tsinv_append c e lo w w1 wr wr' keys closed ts (wpend wr) I F S eq_refl eq_refl Hok) as [I1 C1].
  exists w1, wr'. split; [reflexivity|]. split; [exact I1|]. split; [|split; [reflexivity | exact (same_env_acts _ _ S Ha)]].
  unfold cur_view. rewrite C1. cbn [wr' wpend]. rewrite app_nil_r. reflexivity.
Qed.

Lemma stop_rel_ts c crit e lo n x a : tscfg c crit -> RelT c e lo n x a ->
  let '(x', _) := step x OStop in
  match a with
  | None => names (wfs (s_w x')) = []
  | Some (closed, cur) => exists keys, ts_view c e (wfs (s_w x')) keys closed cur /\ keys_ok keys
                                       /\ (forall k, In k keys -> (lo <= fst k <= wnow (s_w x))%Z)
  end.
Proof.
  intros Hcfg R0. rewrite (step_sync_rel_ts c crit e lo n x a OStop Hcfg R0). destruct R0 as [Ht [Ha R]]. cbn [sync_step]. destruct a as [[closed cur]|].
  - destruct R as [keys [wr [roll [ts [Es [I [V Hn]]]]]]]. rewrite Es. cbn [st_ts f_poisoned]. unfold drop_state.
    destruct (shutdown_active_ts c e lo (s_w x) wr keys closed ts roll I Ha) as [w1 [wr1 [E1 [I1 [V1 [P1 A1]]]]]]. fold (st_ts c ts roll wr). rewrite E1.
    destruct (shutdown_active_ts c e lo w1 wr1 keys closed ts roll I1 A1) as [w2 [wr2 [E2 [I2 [V2 [P2 A2]]]]]]. rewrite E2.
    cbn [st_ts f_inner s_w]. unfold w_drop.
    destruct (w_flush_quiet w2 wr2 (ti_quiet _ _ _ _ _ _ _ _ I2)) as [w3 [E3 [F3 S3]]]. rewrite E3. cbn [fst snd].
    rewrite P2, append_ino_nil_id in F3. rewrite F3.
    pose proof (ti_range _ _ _ _ _ _ _ _ I) as Hrg0. pose proof (ti_ts _ _ _ _ _ _ _ _ I) as Hts0.
    destruct I2 as [Q W Hnd Hoff Hc Hcp Hlen Hcl Hon Hko Hrg Htsr Hwr Hcap]. exists keys.
    split; [|split; [exact Hko | intros k Ik; specialize (Hrg0 k Ik); lia]].
    split; [exact Hlen|]. split.
    { intros i Hi. destruct (Hcl i Hi) as [j [Lj [Pj [Cj _]]]]. eauto. }
    split; [|split; [exact Hon | exact Hnd]].
    exists (wino wr2). split; [exact Hc|]. split; [exact Hcp|].
    unfold cur_view in *. rewrite P2, app_nil_r in V2. congruence.
  - destruct R as [Es [Q [Hn Hi]]]. rewrite Es. cbn [new_flw f_poisoned drop_state shutdown_state f_inner s_w]. exact Hn.
Qed.
