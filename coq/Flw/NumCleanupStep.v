(* Numbers naming with cleanup, part 2: one run of the cleanup (cleanup_impl) on a directory of the shape
   "rCURRENT, plain files r<i> for mid <= i < L, archives r<i>.gz for lo <= i < mid":
   the newest n files stay plain, the next m files are (or become) archives with the same content, the rest is removed:
   the new shape is  lo' = max lo (L - (n+m)),  mid' = max mid (L - n).  rCURRENT is not touched. *)
Require Import FL.Base.Bytes FL.Base.BytesFacts FL.Base.PathName FL.Fs.Fs FL.Fs.FsFacts FL.Time.Civil FL.Time.TsFormat
  FL.Names.FileSpec FL.Names.NamesFacts FL.Names.SortFacts FL.Names.FamilyFacts FL.Flw.Model FL.Flw.ModelFacts FL.Flw.NumFs
  FL.Flw.NumInv FL.Flw.Run FL.Flw.NumRun FL.Flw.NumListing FL.Flw.CleanupFacts FL.Flw.NumCleanupNames.
From Coq Require Import ZifyN ZifyNat ZifyBool.
Open Scope nat_scope.

(* ------------------------------------------------------------------ no name is entered twice in the directory *)
Definition nodup_names (f : fs) : Prop := NoDup (dir_names f).

Lemma lookup_none_notin f a : lookup f a = None -> ~ In a (dir_names f).
Proof. intros H I. apply dir_names_lookup in I. destruct I as [j E]. congruence. Qed.

Lemma map_fst_filter (p : bytes -> bool) (l : list (bytes * nat)) :
  map fst (filter (fun q => p (fst q)) l) = filter p (map fst l).
Proof. induction l as [|[a i] l IH]; cbn [filter map fst]; [reflexivity|]. destruct (p a); cbn [map fst]; rewrite IH; reflexivity. Qed.

Lemma nd_create f a gz now : lookup f a = None -> nodup_names f -> nodup_names (fst (create_file f a gz now)).
Proof. intros H N. unfold nodup_names, dir_names, create_file. cbn [fst names map]. constructor; [apply lookup_none_notin; exact H | exact N]. Qed.
Lemma nd_open_trunc f a gz now : nodup_names f -> nodup_names (fst (open_trunc f a gz now)).
Proof. intros N. unfold open_trunc. destruct (lookup f a) eqn:E; [exact N | apply nd_create; assumption]. Qed.
Lemma nd_open_append f a now : nodup_names f -> nodup_names (fst (open_append f a now)).
Proof. intros N. unfold open_append. destruct (lookup f a) eqn:E; [exact N | apply nd_create; assumption]. Qed.
Lemma nd_unlink f a : nodup_names f -> nodup_names (unlink f a).
Proof.
  intros N. unfold nodup_names, dir_names, unlink. cbn [names].
  rewrite (map_fst_filter (fun x => negb (beq x a))). apply NoDup_filter. exact N.
Qed.
Lemma nd_rename f a b f' : rename f a b = Some f' -> nodup_names f -> nodup_names f'.
Proof.
  unfold rename. destruct (lookup f a) as [i|]; [|discriminate]. intros E N. injection E as <-.
  unfold nodup_names, dir_names. cbn [names map fst].
  rewrite (map_fst_filter (fun x => negb (beq x a) && negb (beq x b))). constructor.
  - intros I. apply filter_In in I. destruct I as [_ I]. rewrite beq_refl, andb_false_r in I. discriminate.
  - apply NoDup_filter. exact N.
Qed.
Lemma nd_set_gz f i st d : nodup_names f -> nodup_names (set_gz f i st d).
Proof. intros N. exact N. Qed.
Lemma nd_append f i b : nodup_names f -> nodup_names (append_ino f i b).
Proof. intros N. exact N. Qed.

Lemma tick_wfs w : wfs (snd (tick w)) = wfs w.
Proof. unfold tick. destruct (wfaults w); reflexivity. Qed.
Lemma effect_cases w g : wfs (effect w g) = g (wfs w) \/ wfs (effect w g) = wfs w.
Proof. unfold effect. destruct (kill_step w); [left | right]; reflexivity. Qed.
Lemma effect_nd w g : (forall f, nodup_names f -> nodup_names (g f)) -> nodup_names (wfs w) -> nodup_names (wfs (effect w g)).
Proof. intros Hg N. destruct (effect_cases w g) as [-> | ->]; auto. Qed.

Lemma p_remove_nd w a : nodup_names (wfs w) -> nodup_names (wfs (snd (p_remove w a))).
Proof.
  intros N. unfold p_remove. pose proof (tick_wfs w) as T. destruct (tick w) as [flt w1]. cbn [snd] in T. rewrite <- T in N.
  destruct flt; [exact N|]. destruct (lookup (wfs w1) a); [|exact N]. cbn [snd]. apply effect_nd; [|exact N].
  intros f. apply nd_unlink.
Qed.

Lemma compress_file_nd w n : nodup_names (wfs w) -> nodup_names (wfs (snd (compress_file w n))).
Proof.
  intros N. unfold compress_file.
  pose proof (tick_wfs w) as T1. destruct (tick w) as [flt1 w1]. cbn [snd] in T1. rewrite <- T1 in N.
  destruct flt1; [exact N|].
  destruct (match file_of (wfs w1) (gz_name n) with Some fl => fdir fl | None => false end); [exact N|].
  set (ino := snd (open_trunc (wfs w1) (gz_name n) 2%N (wnow w1))).
  assert (N2 : nodup_names (wfs (effect w1 (fun f => fst (open_trunc f (gz_name n) 2%N (wnow w1)))))).
  { apply effect_nd; [|exact N]. intros f. apply nd_open_trunc. }
  set (w2 := effect w1 (fun f => fst (open_trunc f (gz_name n) 2%N (wnow w1)))) in *.
  pose proof (tick_wfs w2) as T2. destruct (tick w2) as [flt2 w3]. cbn [snd] in T2. rewrite <- T2 in N2.
  assert (D : forall w' d, nodup_names (wfs w') -> nodup_names (wfs (effect w' (fun f => set_gz f ino 1%N d)))).
  { intros w' d N'. apply effect_nd; [|exact N']. intros f. apply nd_set_gz. }
  destruct flt2; [cbn [snd]; apply D; exact N2|].
  destruct (lookup (wfs w3) n) as [src|]; [|cbn [snd]; apply D; exact N2].
  pose proof (tick_wfs w3) as T3. destruct (tick w3) as [flt3 w4]. cbn [snd] in T3. rewrite <- T3 in N2.
  destruct flt3; [cbn [snd]; apply D; exact N2|].
  assert (N5 : nodup_names (wfs (effect w4 (fun f => f)))) by (apply effect_nd; auto).
  set (w5 := effect w4 (fun f => f)) in *.
  pose proof (tick_wfs w5) as T5. destruct (tick w5) as [flt4 w6]. cbn [snd] in T5. rewrite <- T5 in N5.
  destruct flt4; [cbn [snd]; apply D; exact N5|].
  apply p_remove_nd. apply D. exact N5.
Qed.

Lemma cleanup_loop_nd ll total cur : forall files w idx,
  nodup_names (wfs w) -> nodup_names (wfs (snd (cleanup_loop w files idx ll total cur))).
Proof.
  induction files as [|n r IH]; intros w idx N; [exact N|].
  destruct (match cur with Some p => beq p n | None => false end) eqn:B;
    [cbn [cleanup_loop]; rewrite B; apply IH; exact N|].
  rewrite (cleanup_loop_cur_cons w n r idx ll total cur B).
  destruct (act ll total idx n).
  - apply IH. exact N.
  - pose proof (compress_file_nd w n N) as N1. destruct (compress_file w n) as [ok w1]. cbn [snd] in N1.
    destruct ok; [apply IH; exact N1 | exact N1].
  - pose proof (p_remove_nd w n N) as N1. destruct (p_remove w n) as [ok w1]. cbn [snd] in N1.
    destruct ok; [apply IH; exact N1 | exact N1].
Qed.

(* ------------------------------------------------------------------ the directory with contents *)
Record kdir (c : config) (f : fs) (closed : list bytes) (lo mid : nat) : Prop := {
  kd_le : lo <= mid <= length closed;
  kd_nodup : nodup_names f;
  kd_plain : forall i, mid <= i < length closed ->
      exists j, lookup f (rname c i) = Some j /\ plain (inode f j) /\ content f j = nth i closed [];
  kd_arch : forall i, lo <= i < mid ->
      exists j, lookup f (gname c i) = Some j /\ fdata (inode f j) = nth i closed [] /\ fgz (inode f j) = 1%N /\ fdir (inode f j) = false;
  kd_only : forall n j, lookup f n = Some j ->
      n = cname c \/ (exists i, mid <= i < length closed /\ n = rname c i) \/ (exists i, lo <= i < mid /\ n = gname c i) }.

Lemma kdir_shape c f closed lo mid : kdir c f closed lo mid -> dir_shape c f lo mid (length closed).
Proof.
  intros [Hle Hn Hp Ha Ho]. constructor; auto.
  - intros i Hi. destruct (Hp i Hi) as (j & Lj & [_ Dj] & _). eauto.
  - intros i Hi. destruct (Ha i Hi) as (j & Lj & _ & _ & Dj). eauto.
Qed.

(* the limits of a cleanup strategy: log files kept as they are, files kept as archives *)
Definition klim (k : cleanup) : option (nat * nat) :=
  match k with KNever => None | KLog a => Some (a, 0) | KGz b => Some (0, b) | KLogGz a b => Some (a, b) end.

Lemma fixed_of_fixed0 c w : fts (c_spec c) = false -> fixed_of c w = fixed0 c.
Proof. intros H. unfold fixed_of, fixed0, fixed_name_part. rewrite H. reflexivity. Qed.

Lemma cleanup_impl_unfold c w k flt n m : klim k = Some (n, m) -> quiet w ->
  cleanup_impl c w k flt None =
  match list_log_gz (woff w) (c_spec c) (fixed_of c w) (wfs w) flt with
  | None => (Panic, w)
  | Some files =>
    let '(ok0, w1', files') := remove_redundant w (redundant_gz files) files in
    if negb ok0 then (Err, w1') else
    let '(ok, w2) := cleanup_loop w1' files' 0 n (n + m) None in ((if ok then Ok tt else Err), w2)
  end.
Proof.
  intros H Q. destruct k; cbn [klim] in H; try discriminate; injection H as <- <-;
    unfold cleanup_impl; cbn [andb]; rewrite (tick_quiet w Q); reflexivity.
Qed.

Lemma listing_nth_inv c lo mid L k x : lo <= mid <= L ->
  nth_error (listing c lo mid L) k = Some x -> k < L - lo /\ x = entry c mid (L - 1 - k).
Proof.
  intros H E. rewrite listing_nth in E by exact H. destruct (Nat.ltb_spec k (L - lo)); [|discriminate].
  injection E as <-. auto.
Qed.
Lemma listing_nth_of c lo mid L i : lo <= mid <= L -> lo <= i < L ->
  nth_error (listing c lo mid L) (L - 1 - i) = Some (entry c mid i).
Proof.
  intros H Hi. rewrite listing_nth by exact H. destruct (Nat.ltb_spec (L - 1 - i) (L - lo)); [|lia].
  do 2 f_equal. lia.
Qed.

Lemma entry_plain c mid i : mid <= i -> entry c mid i = rname c i.
Proof. intros H. unfold entry. destruct (Nat.leb_spec mid i); [reflexivity | lia]. Qed.
Lemma entry_arch c mid i : i < mid -> entry c mid i = gname c i.
Proof. intros H. unfold entry. destruct (Nat.leb_spec mid i); [lia | reflexivity]. Qed.
Lemma entry_ext c mid i : sfx_ok (c_spec c) -> ext_is (entry c mid i) gz_sfx = negb (mid <=? i).
Proof. intros H. unfold entry. destruct (mid <=? i); [apply rname_not_gz; exact H | apply gname_is_gz]. Qed.

Definition bytes_eq_dec : forall a b : bytes, {a = b} + {a <> b} := list_eq_dec N.eq_dec.

(* ------------------------------------------------------------------ 2. ONE CLEANUP *)
Theorem cleanup_numbers c w k n m closed lo mid :
  fts (c_spec c) = false -> sfx_ok (c_spec c) ->
  klim k = Some (n, m) ->
  quiet w -> fs_wf (wfs w) -> kdir c (wfs w) closed lo mid ->
  exists w', cleanup_impl c w k IFNum None = (Ok tt, w') /\ same_env w w' /\ fs_wf (wfs w')
    /\ kdir c (wfs w') closed (Nat.max lo (length closed - (n + m))) (Nat.max mid (length closed - n))
    /\ same_at (wfs w) (wfs w') (cname c).
Proof.
  intros Hts Hsfx Hk Q W KD. set (L := length closed) in *. set (f := wfs w) in *.
  pose proof (kd_le _ _ _ _ _ KD) as Hle. fold L in Hle.
  pose proof KD as [_ Hnd Hp Ha Hon]. fold L in Hp, Hon.
  rewrite (cleanup_impl_unfold c w k IFNum n m Hk Q), (fixed_of_fixed0 c w Hts).
  fold f. rewrite (list_log_gz_numbers c f (woff w) lo mid L Hsfx (kdir_shape _ _ _ _ _ KD)).
  rewrite (listing_no_redundant c lo mid L Hsfx Hle). cbn [remove_redundant negb].
  set (files := listing c lo mid L).
  (* every listed name exists *)
  assert (Ex : forall i, lo <= i < L -> lookup f (entry c mid i) <> None).
  { intros i Hi. destruct (Nat.le_gt_cases mid i) as [H|H].
    - rewrite entry_plain by exact H. destruct (Hp i ltac:(lia)) as (j & Lj & _). congruence.
    - rewrite entry_arch by exact H. destruct (Ha i ltac:(lia)) as (j & Lj & _). congruence. }
  (* no archive of a plain file exists *)
  assert (NoG : forall i, mid <= i -> lookup f (gname c i) = None).
  { intros i Hi. destruct (lookup f (gname c i)) as [j|] eqn:E; [exfalso | reflexivity].
    destruct (Hon _ _ E) as [X|[(i' & Hi' & X)|(i' & Hi' & X)]].
    - exact (gname_not_cname _ _ X).
    - exact (gname_not_rname _ _ _ Hsfx X).
    - apply gname_inj in X. lia. }
  assert (Pos : forall k x, nth_error files k = Some x -> k < L - lo /\ x = entry c mid (L - 1 - k)).
  { intros k0 x. apply listing_nth_inv. exact Hle. }
  (* an entry that is compressed is a plain file *)
  assert (Zone : forall k x, nth_error files k = Some x -> ext_is x gz_sfx = false ->
                 mid <= L - 1 - k /\ x = rname c (L - 1 - k)).
  { intros k0 x Hk0 He. destruct (Pos _ _ Hk0) as [Hk1 ->]. rewrite entry_ext in He by exact Hsfx.
    destruct (Nat.leb_spec mid (L - 1 - k0)); [|discriminate]. split; [assumption | apply entry_plain; assumption]. }
  destruct (cleanup_loop_spec w files 0 n (n + m) Q W (listing_nodup c lo mid L Hsfx Hle)) as (w' & E & S & W' & O & Fr).
  { intros k0 x Hk0 _. destruct (Pos _ _ Hk0) as [Hk1 ->]. apply Ex. lia. }
  { intros k0 x Hk0 _ He Hin. destruct (Zone _ _ Hk0 He) as [Hm ->]. fold (gname c (L - 1 - k0)) in Hin.
    apply listing_in in Hin; [|exact Hle]. destruct Hin as [(j & Hj & X)|(j & Hj & X)].
    - exact (gname_not_rname _ _ _ Hsfx X).
    - apply gname_inj in X. lia. }
  { intros k0 x Hk0 _ He. destruct (Zone _ _ Hk0 He) as [Hm ->]. apply not_dir_missing. apply NoG. exact Hm. }
  cbn [Nat.add] in O. fold f in O, Fr.
  exists w'. rewrite E. split; [reflexivity|]. split; [exact S|]. split; [exact W'|].
  set (f' := wfs w') in *.
  (* what happens to the entry of index i *)
  assert (Of : forall i, lo <= i < L ->
             (n + m <= L - 1 - i -> lookup f' (entry c mid i) = None)
             /\ (L - 1 - i < n + m -> L - 1 - i < n \/ ext_is (entry c mid i) gz_sfx = true -> same_at f f' (entry c mid i))
             /\ (n <= L - 1 - i < n + m -> ext_is (entry c mid i) gz_sfx = false -> archived f f' (entry c mid i))).
  { intros i Hi. apply (O (L - 1 - i)). apply listing_nth_of; assumption. }
  assert (NDf' : nodup_names f').
  { unfold f'. replace w' with (snd (cleanup_loop w files 0 n (n + m) None)) by (rewrite E; reflexivity).
    apply cleanup_loop_nd. exact Hnd. }
  (* the names that the loop creates *)
  set (made := map gz_name (filter not_gz (zone_part n (n + m) files))).
  assert (Made : forall x, In x made <-> exists i, mid <= i < L /\ n <= L - 1 - i < n + m /\ x = gname c i).
  { intros x. unfold made. rewrite in_map_iff. split.
    - intros (y & <- & Hy). apply filter_In in Hy. destruct Hy as [Hy G]. apply In_zone_nth in Hy.
      destruct Hy as (k0 & Hk0 & Ek0). unfold not_gz in G. apply negb_true_iff in G.
      destruct (Zone _ _ Ek0 G) as [Hm ->]. destruct (Pos _ _ Ek0) as [Hk1 _].
      exists (L - 1 - k0). split; [lia|]. split; [|reflexivity]. replace (L - 1 - (L - 1 - k0)) with k0 by lia. lia.
    - intros (i & Hi & Hz & ->). exists (rname c i). split; [reflexivity|]. apply filter_In. split.
      + apply (nth_In_zone _ _ _ (L - 1 - i)); [|lia]. unfold files. rewrite listing_nth_of by (auto; lia).
        rewrite entry_plain by lia. reflexivity.
      + unfold not_gz. rewrite rname_not_gz by exact Hsfx. reflexivity. }
  assert (Fr' : forall x, ~ In x files -> ~ In x made -> same_at f f' x).
  { intros x H1 H2. apply Fr; [exact H1|]. intros k0 y Hk0 Hz He ->. apply H2. destruct (Zone _ _ Hk0 He) as [Hm ->].
    destruct (Pos _ _ Hk0) as [Hk1 _]. apply Made. exists (L - 1 - k0). split; [lia|]. split; [|reflexivity].
    replace (L - 1 - (L - 1 - k0)) with k0 by lia. lia. }
  split; [|].
  - constructor.
    + fold L. lia.
    + exact NDf'.
    + (* plain *)
      fold L. intros i Hi. destruct (Of i ltac:(lia)) as (_ & K & _). rewrite entry_plain in K by lia.
      destruct (Hp i ltac:(lia)) as (j & Lj & Pj & Cj).
      assert (K1 : L - 1 - i < n + m) by lia. assert (K2 : L - 1 - i < n) by lia.
      destruct (same_at_content _ _ _ _ (K K1 (or_introl K2)) Lj) as [Lj' Ij'].
      exists j. split; [exact Lj'|]. unfold content. fold f'. rewrite Ij'. split; [exact Pj | exact Cj].
    + (* archives *)
      fold L. intros i Hi. destruct (Nat.lt_ge_cases i mid) as [Hm|Hm].
      * destruct (Of i ltac:(lia)) as (_ & K & _). rewrite entry_arch in K by lia.
        destruct (Ha i ltac:(lia)) as (j & Lj & Dj & Gj & Fj).
        assert (K1 : L - 1 - i < n + m) by lia.
        destruct (same_at_content _ _ _ _ (K K1 (or_intror (gname_is_gz c i))) Lj) as [Lj' Ij'].
        exists j. fold f'. rewrite Ij'. auto.
      * destruct (Of i ltac:(lia)) as (_ & _ & Z). rewrite entry_plain in Z by lia.
        assert (K1 : n <= L - 1 - i < n + m) by lia.
        destruct (Z K1 (rname_not_gz c i Hsfx)) as (i0 & j & Li & Ln & Lg & D & G & Dr).
        destruct (Hp i ltac:(lia)) as (j0 & Lj0 & _ & Cj0). rewrite Li in Lj0. injection Lj0 as <-.
        exists j. split; [exact Lg|]. split; [rewrite D; exact Cj0|]. auto.
    + (* nothing else *)
      fold L. intros x j Lx. destruct (in_dec bytes_eq_dec x files) as [Hin|Hnin].
      * apply In_nth_error in Hin. destruct Hin as [k0 Hk0]. destruct (Pos _ _ Hk0) as [Hk1 ->].
        set (i := L - 1 - k0) in *. assert (Hi : lo <= i < L) by (unfold i; lia).
        destruct (Of i Hi) as (R & K & Z). fold f' in Lx.
        destruct (Nat.le_gt_cases (n + m) (L - 1 - i)) as [H1|H1]; [rewrite (R H1) in Lx; discriminate|].
        destruct (Nat.le_gt_cases mid i) as [H2|H2].
        -- rewrite entry_plain in * by exact H2. destruct (Nat.le_gt_cases n (L - 1 - i)) as [H3|H3].
           ++ assert (K1 : n <= L - 1 - i < n + m) by lia.
              destruct (Z K1 (rname_not_gz c i Hsfx)) as (_ & _ & _ & Ln & _). rewrite Ln in Lx. discriminate.
           ++ right. left. exists i. split; [lia | reflexivity].
        -- rewrite entry_arch in * by exact H2. right. right. exists i. split; [lia | reflexivity].
      * destruct (in_dec bytes_eq_dec x made) as [Hm|Hm].
        -- apply Made in Hm. destruct Hm as (i & Hi & Hz & ->). right. right. exists i. split; [lia | reflexivity].
        -- destruct (Fr' x Hnin Hm) as [Lx' _]. fold f' in Lx. rewrite Lx' in Lx.
           destruct (Hon _ _ Lx) as [->|[(i & Hi & ->)|(i & Hi & ->)]]; [left; reflexivity | exfalso | exfalso];
             apply Hnin, listing_in; auto; [left | right]; exists i; auto.
  - apply Fr'.
    + intros Hin. apply listing_in in Hin; [|exact Hle]. destruct Hin as [(i & _ & X)|(i & _ & X)].
      * symmetry in X. exact (rname_not_cname _ _ X).
      * symmetry in X. exact (gname_not_cname _ _ X).
    + intros Hin. apply Made in Hin. destruct Hin as (i & _ & _ & X). symmetry in X. exact (gname_not_cname _ _ X).
Qed.
Print Assumptions cleanup_numbers.
