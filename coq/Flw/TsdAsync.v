(* TimestampsDirect naming (r<time stamp>[.restart-NNNN], no rCURRENT): the write mode - Direct, BufWriter of any
   capacity, asynchronous with either - does not change WHAT is written NOR UNDER WHICH NAMES (C15), and after flush() /
   after the drop of the writer nothing accepted stays behind in a buffer (C04).

   The file names depend on the clock at the moment of a rotation.  The development of TsdRun.v / TsdTheorems.v states the
   existence of keys (second, position within the second) that name the files; to compare two runs the keys have to be
   KNOWN.  Part A: the keys as a function of the history - kd_step / kd_run (driven by the rotation flags) and ks_run (size
   criterion: the greedy rule decides) -, the invariant RelTdK = RelTd of TsdRun.v with the keys exposed, and the run
   theorems for the synchronous modes (the invariant does not mention the capacity).  Part B: any mode, through
   AsyncSim.v / AsyncTransfer.v: the asynchronous run goes through the same worlds as the synchronous run with the same
   capacity - every message is consumed before the next operation starts (the scheduling assumption of the model and of
   the test harness), so the rotation of the writer thread happens at the same instant of the model clock. *)
Require Import FL.Base.Bytes FL.Base.BytesFacts FL.Base.PathName FL.Fs.Fs FL.Fs.FsFacts FL.Time.Civil FL.Time.TsFormat
  FL.Names.FileSpec FL.Names.NamesFacts FL.Names.SortFacts FL.Flw.Model FL.Flw.ModelFacts FL.Flw.NumFs FL.Flw.NumInv FL.Flw.Run
  FL.Flw.RunFacts FL.Flw.NumRun FL.Oracles.O_Flw FL.Flw.NumTheorems FL.Flw.NumListing FL.Flw.NumRestart FL.Flw.NumKillRestart
  FL.Flw.NumDInv FL.Flw.NumDRun FL.Flw.NumDTheorems
  FL.Flw.TsCal FL.Flw.TsTime FL.Flw.TsMono FL.Flw.TsNames FL.Flw.TsInv FL.Flw.TsRun FL.Flw.TsTheorems FL.Flw.TsdInv FL.Flw.TsdRun
  FL.Flw.TsReader FL.Flw.TsdTheorems FL.Flw.NoPanic FL.Flw.NumCfg0 FL.Flw.NumAsync FL.Flw.AsyncSim FL.Flw.AsyncTransfer FL.Flw.NumDAsync.
From Coq Require Import ZifyN ZifyNat ZifyBool.
Import String.StringSyntax.
Open Scope nat_scope.

(* ================================================================== Part A: the keys of a history *)
(* one operation: ks are the keys so far (the last one names the file being written), a the abstract view before the
   operation, rot the rotation decision of a write, now the clock.  The first write opens the file of the present second;
   a rotation opens the next free name of the present second *)
Definition kd_step (ks : list key) (a : aview) (o : op) (rot : bool) (now : Z) : list key :=
  match o with
  | OWrite _ | OPlain _ =>
    let ks0 := match a with Some _ => ks | None => [(now, 0)] end in
    if rot then ks0 ++ [(now, count now ks0)] else ks0
  | OTrigger => match a with Some _ => ks ++ [(now, count now ks)] | None => ks end
  | _ => ks
  end.

Fixpoint kd_run (ks : list key) (a : aview) (now : Z) (ops : list op) (obs : list obs) : list key :=
  match ops, obs with
  | o :: r, ob :: robs => kd_run (kd_step ks a o (rot_of ob) now) (a_step a o (rot_of ob)) (now + dt_of o)%Z r robs
  | _, _ => ks
  end.

(* size criterion: the rotation decisions are those of the greedy rule (s_run of NumRun.v) *)
Fixpoint ks_run (m : N) (ks : list key) (a : aview) (now : Z) (ops : list op) : list key :=
  match ops with
  | o :: r => let rot := (m <? N.of_nat (length (cur_of a)))%N in
              ks_run m (kd_step ks a o rot now) (a_step a o rot) (now + dt_of o)%Z r
  | [] => ks
  end.

(* the keys of a whole run that starts at t0 on an empty directory *)
Definition tsd_keys (m : N) (t0 : Z) (ops : list op) : list key := ks_run m [] None t0 ops.

Lemma kd_step_rot_irrelevant ks a o r1 r2 now : (forall b, o <> OWrite b /\ o <> OPlain b) -> kd_step ks a o r1 now = kd_step ks a o r2 now.
Proof. intros H. destruct o; try reflexivity; destruct (H b) as [H1 H2]; congruence. Qed.

(* ------------------------------------------------------------------ a write on an active writer, the keys exposed *)
Lemma write_active_tsd_k c crit e lo hi w wr keys closed roll b :
  tsdcfg c crit -> tag_ok c -> years_ok e lo hi -> TsdInv c e lo w wr keys closed ->
  (wnow w <= hi)%Z -> (N.of_nat (length keys) <= usize_max)%N -> roll_size_ok roll (length (cur_view w wr)) ->
  let rot := rotation_necessary w roll in
  let keys' := if rot then keys ++ [(wnow w, count (wnow w) keys)] else keys in
  exists w' wr' roll' closed',
    write_buffer (st_tsd c e (nth (length closed) keys kd) roll wr) w b
      = (Ok tt, w', st_tsd c e (nth (length closed') keys' kd) roll' wr', rot)
    /\ TsdInv c e lo w' wr' keys' closed' /\ roll_size_ok roll' (length (cur_view w' wr')) /\ same_env w w'
    /\ (closed', cur_view w' wr') = (if rot then (closed ++ [cur_view w wr], b) else (closed, cur_view w wr ++ b))
    /\ (forall m cur, roll = RSize m cur -> exists cur', roll' = RSize m cur').
Proof.
  intros Hcfg T Y I Hhi Hmax Hsz rot keys'.
  unfold write_buffer, st_tsd. cbn [f_cfg f_inner f_poisoned mk_rs rs_roll]. fold rot.
  assert (M : exists w1 wr1 roll1 closed1,
            mount_next c w (Active (Some (mk_rs (NSTs (fst (nth (length closed) keys kd)) None std_fmt) roll)) wr
                                   (kname c e (nth (length closed) keys kd))) false
            = (Ok tt, w1, Active (Some (mk_rs (NSTs (fst (nth (length closed1) keys' kd)) None std_fmt) roll1)) wr1
                                 (kname c e (nth (length closed1) keys' kd)))
            /\ TsdInv c e lo w1 wr1 keys' closed1 /\ roll_size_ok roll1 (length (cur_view w1 wr1)) /\ same_env w w1
            /\ (closed1, cur_view w1 wr1) = (if rot then (closed ++ [cur_view w wr], []) else (closed, cur_view w wr))
            /\ (forall m cur, roll = RSize m cur -> exists cur', roll1 = RSize m cur')).
  { unfold keys'. destruct rot eqn:Er.
    - destruct (mount_next_rotates_tsd c crit e lo hi w wr keys closed roll false Hcfg T Y I Hhi Hmax)
        as [w1 [wr1 [roll1 [E [I1 [V1 [Z1 [S1 R1]]]]]]]]; [exact Er|].
      exists w1, wr1, roll1, (closed ++ [cur_view w wr]). rewrite V1.
      assert (En : nth (length (closed ++ [cur_view w wr])) (keys ++ [(wnow w, count (wnow w) keys)]) kd = (wnow w, count (wnow w) keys)).
      { apply nth_snoc_last. rewrite app_length. cbn [length]. rewrite (td_len _ _ _ _ _ _ _ I). lia. }
      rewrite En. cbn [fst].
      split; [exact E|]. split; [exact I1|]. split; [exact Z1|]. split; [exact S1|]. split; [reflexivity | exact R1].
    - exists w, wr, roll, closed. split.
      + unfold mount_next. cbn [mk_rs rs_roll orb]. unfold rot in Er. rewrite Er. reflexivity.
      + split; [exact I|]. split; [exact Hsz|]. split; [apply same_env_refl; apply I|]. split; [reflexivity | eauto]. }
  destruct M as [w1 [wr1 [roll1 [closed1 [E [I1 [Z1 [S1 [V1 R1]]]]]]]]].
  rewrite E.
  destruct (w_write_quiet w1 wr1 b (td_quiet _ _ _ _ _ _ _ I1) (td_wr _ _ _ _ _ _ _ I1)) as [w2 [wr2 [fl [Ew [S2 [F2 [Ei [Ec [Ep Hok]]]]]]]]].
  rewrite Ew.
  destruct (tsdinv_append c e lo w1 w2 wr1 wr2 keys' closed1 fl I1 F2 S2 Ei Ec Hok) as [I2 C2].
  exists w2, wr2, (increase_size roll1 (N.of_nat (length b))), closed1.
  assert (V2 : cur_view w2 wr2 = cur_view w1 wr1 ++ b).
  { unfold cur_view. rewrite C2, <- !app_assoc, Ep. reflexivity. }
  split; [reflexivity|]. split; [exact I2|].
  split. { rewrite V2, app_length. apply roll_size_increase. exact Z1. }
  split; [eapply same_env_trans; eassumption|].
  split. { rewrite V2. destruct rot; injection V1 as -> ->; reflexivity. }
  intros m cur Hr. destruct (R1 m cur Hr) as [cur' ->]. cbn. eauto.
Qed.

(* ------------------------------------------------------------------ the invariant with the keys exposed *)
Definition RelTdK (c : config) (crit : criterion) (e lo : Z) (n : nat) (x : sys) (a : aview) (ks : list key) : Prop :=
  s_tl x = [] /\ wacts (s_w x) = 0 /\
  match a with
  | None => ks = [] /\ s_flw x = Some (new_flw c) /\ quiet (s_w x) /\ names (wfs (s_w x)) = [] /\ inodes (wfs (s_w x)) = []
            /\ eoff c (s_w x) = e /\ (lo <= wnow (s_w x))%Z
  | Some (closed, cur) =>
    exists wr roll, s_flw x = Some (st_tsd c e (nth (length closed) ks kd) roll wr)
      /\ TsdInv c e lo (s_w x) wr ks closed
      /\ cur_view (s_w x) wr = cur /\ length closed <= n
      /\ roll_size_ok roll (length cur) /\ (forall m, crit = CSize m -> exists k, roll = RSize m k)
  end.

Lemma reltdk_reltd c crit e lo n x a ks : RelTdK c crit e lo n x a ks -> RelTd c crit e lo n x a.
Proof.
  intros [Ht [Ha R]]. split; [exact Ht|]. split; [exact Ha|]. destruct a as [[closed cur]|].
  - destruct R as [wr [roll R]]. exists ks, wr, roll. exact R.
  - apply R.
Qed.

Lemma reltdk_quiet c crit e lo n x a ks : RelTdK c crit e lo n x a ks -> quiet (s_w x).
Proof. intros [_ [_ R]]. destruct a as [[cl cu]|]; [destruct R as [wr [roll [_ [I _]]]]; apply I | apply R]. Qed.

Lemma RelTdK_mono c crit e lo n x a ks : RelTdK c crit e lo n x a ks -> RelTdK c crit e lo (S n) x a ks.
Proof.
  intros [Ht [Ha R]]. split; [exact Ht|]. split; [exact Ha|]. destruct a as [[closed cur]|]; [|exact R].
  destruct R as [wr [roll [Es [I [V [Hn ZR]]]]]]. exists wr, roll.
  split; [exact Es|]. split; [exact I|]. split; [exact V|]. split; [lia | exact ZR].
Qed.

Lemma start_rel_tsd_k c crit t0 off : RelTdK c crit (ts_e c off) t0 0 (fst (step (sys0 t0 off) (OStart c))) None [].
Proof. cbn. repeat split. cbn. lia. Qed.

(* what a write does, from either kind of state *)
Lemma write_rel_tsd_k c crit e lo hi n x a ks b :
  tsdcfg c crit -> tag_ok c -> years_ok e lo hi -> RelTdK c crit e lo n x a ks ->
  (wnow (s_w x) <= hi)%Z -> (N.of_nat (S n) <= usize_max)%N ->
  exists s w' s' rot, s_flw x = Some s /\ f_poisoned s = false /\
    write_buffer s (s_w x) b = (Ok tt, w', s', rot)
    /\ RelTdK c crit e lo (S n) {| s_flw := Some s'; s_w := w'; s_tl := []; s_dead := s_dead x |} (a_step a (OWrite b) rot)
              (kd_step ks a (OWrite b) rot (wnow (s_w x)))
    /\ wnow w' = wnow (s_w x)
    /\ (forall m, crit = CSize m -> rot = (m <? N.of_nat (length (cur_of a)))%N).
Proof.
  intros Hcfg T Y [Ht [Ha R]] Hhi Hmax. destruct a as [[closed cur]|].
  - destruct R as [wr [roll [Es [I [V [Hn [Z RS]]]]]]].
    rewrite <- V in Z.
    assert (Hk : (N.of_nat (length ks) <= usize_max)%N) by (rewrite (td_len _ _ _ _ _ _ _ I); lia).
    destruct (write_active_tsd_k c crit e lo hi (s_w x) wr ks closed roll b Hcfg T Y I Hhi Hk Z)
      as [w' [wr' [roll' [closed' [E [I' [Z' [S' [V' R']]]]]]]]].
    cbv zeta in E, I'.
    exists (st_tsd c e (nth (length closed) ks kd) roll wr), w'. eexists. exists (rotation_necessary (s_w x) roll).
    split; [exact Es|]. split; [reflexivity|]. split; [exact E|].
    split; [|split; [exact (same_env_now _ _ S')|]].
    + split; [reflexivity|]. split; [cbn [s_w]; exact (same_env_acts _ _ S' Ha)|].
      cbn [a_step kd_step]. rewrite V in V'.
      destruct (rotation_necessary (s_w x) roll); injection V' as -> V''; (exists wr', roll'; cbn [s_flw s_w];
        split; [reflexivity|]; split; [exact I'|]; split; [exact V''|]; split; [rewrite ?app_length; cbn [length]; lia|];
        split; [rewrite <- V''; exact Z'|];
        intros m Hm; destruct (RS m Hm) as [k ->]; destruct (R' m k eq_refl) as [k' ->]; eauto).
    + intros m Hm. destruct (RS m Hm) as [k ->]. cbn in Z. subst k. rewrite V. reflexivity.
  - destruct R as [-> [Es [Q [Hn [Hi [Hoff Hlo]]]]]].
    destruct (initialize_empty_tsd c crit e lo (s_w x) Hcfg Q Hn Hi Hoff Hlo) as [w1 [wr [roll [Ei [I [V [Z [S1 RS]]]]]]]].
    assert (Hnow1 : wnow w1 = wnow (s_w x)) by exact (same_env_now _ _ S1).
    assert (Hhi1 : (wnow w1 <= hi)%Z) by (rewrite Hnow1; exact Hhi).
    assert (Z0 : roll_size_ok roll (length (cur_view w1 wr))) by (rewrite V; exact Z).
    destruct (write_active_tsd_k c crit e lo hi w1 wr [(wnow (s_w x), 0)] [] roll b Hcfg T Y I Hhi1 ltac:(cbn [length]; lia) Z0)
      as [w' [wr' [roll' [closed' [E [I' [Z' [S' [V' R']]]]]]]]].
    cbv zeta in E, I'. rewrite Hnow1 in E, I'.
    exists (new_flw c), w'. eexists. exists (rotation_necessary w1 roll).
    split; [exact Es|]. split; [reflexivity|].
    split. { rewrite (write_buffer_init c (s_w x) b _ _ _ w1 Ei). exact E. }
    split; [|split; [rewrite (same_env_now _ _ S'); exact Hnow1|]].
    + split; [reflexivity|]. split; [cbn [s_w]; exact (same_env_acts _ _ (same_env_trans _ _ _ S1 S') Ha)|].
      cbn [a_step kd_step]. rewrite V in V'. cbn [app] in V'.
      destruct (rotation_necessary w1 roll); injection V' as -> V''; (exists wr', roll'; cbn [s_flw s_w];
        split; [reflexivity|]; split; [exact I'|]; split; [exact V''|]; split; [cbn [app length]; lia|];
        split; [rewrite <- V''; exact Z'|]).
      * intros m Hm. rewrite (RS m Hm) in R'. destruct (R' m 0%N eq_refl) as [k' ->]; eauto.
      * intros m Hm. rewrite (RS m Hm) in R'. destruct (R' m 0%N eq_refl) as [k' ->]; eauto.
    + intros m Hm. rewrite (RS m Hm). reflexivity.
Qed.

(* one basic operation: the relation with the keys of kd_step, the clock, the rotation flag of a write under a size
   criterion, a normal result *)
Lemma step_rel_tsd_k c crit e lo hi n x a ks o :
  tsdcfg c crit -> tag_ok c -> years_ok e lo hi -> RelTdK c crit e lo n x a ks -> basic_op o -> tick_ok o ->
  (wnow (s_w x) <= hi)%Z -> (N.of_nat (S n) <= usize_max)%N ->
  let '(x', ob) := step x o in
  RelTdK c crit e lo (S n) x' (a_step a o (rot_of ob)) (kd_step ks a o (rot_of ob) (wnow (s_w x)))
  /\ wnow (s_w x') = (wnow (s_w x) + dt_of o)%Z
  /\ (forall b m, (o = OWrite b \/ o = OPlain b) -> crit = CSize m -> rot_of ob = (m <? N.of_nat (length (cur_of a)))%N)
  /\ obs_ok ob.
Proof.
  intros Hcfg T Y R Hb Htk Hhi Hmax.
  rewrite (step_sync_rel_tsd c crit e lo n x a o Hcfg (reltdk_reltd _ _ _ _ _ _ _ _ R)).
  destruct o; try contradiction; cbn [sync_step dt_of].
  - (* OWrite *)
    destruct (write_rel_tsd_k c crit e lo hi n x a ks b Hcfg T Y R Hhi Hmax) as [s [w' [s' [rot [Es [Hp [E [R' [Hw C]]]]]]]]].
    rewrite Es, Hp. rewrite (proj1 R). cbn [app]. rewrite E. cbn [rot_of s_w]. split; [exact R'|]. split; [lia|].
    split; [|reflexivity]. intros b0 m _ Hm. exact (C m Hm).
  - (* OPlain *)
    destruct (write_rel_tsd_k c crit e lo hi n x a ks b Hcfg T Y R Hhi Hmax) as [s [w' [s' [rot [Es [Hp [E [R' [Hw C]]]]]]]]].
    rewrite Es, Hp, E. cbn [rot_of code_of s_w]. rewrite (proj1 R). split; [exact R'|]. split; [lia|].
    split; [|reflexivity]. intros b0 m _ Hm. exact (C m Hm).
  - (* OFlush *)
    destruct R as [Ht [Ha R]]. destruct a as [[closed cur]|].
    + destruct R as [wr [roll [Es [I [V [Hn ZR]]]]]]. rewrite Es. cbn [st_tsd f_poisoned].
      destruct (flush_active_tsd c e lo (s_w x) wr ks closed roll (nth (length closed) ks kd) I) as [w' [wr' [E [I' [V' [P' S']]]]]].
      fold (st_tsd c e (nth (length closed) ks kd) roll wr). rewrite E. cbn [rot_of a_step kd_step s_w].
      split; [|split; [rewrite (same_env_now _ _ S'); lia | split; [intros b m [H|H]; discriminate | reflexivity]]].
      split; [exact Ht|]. split; [exact (same_env_acts _ _ S' Ha)|]. exists wr', roll. cbn [s_flw s_w].
      split; [reflexivity|]. split; [exact I'|]. split; [congruence|]. split; [lia | exact ZR].
    + destruct R as [Ek [Es R]]. rewrite Es. cbn [new_flw f_poisoned flush_state f_inner rot_of a_step kd_step s_w].
      split; [|split; [lia | split; [intros b m [H|H]; discriminate | reflexivity]]].
      split; [exact Ht|]. split; [exact Ha|]. split; [exact Ek|]. split; [reflexivity | exact R].
  - (* OTrigger *)
    destruct R as [Ht [Ha R]]. destruct a as [[closed cur]|].
    + destruct R as [wr [roll [Es [I [V [Hn [Z RS]]]]]]]. rewrite Es. cbn [st_tsd f_poisoned f_cfg f_inner].
      assert (Hk : (N.of_nat (length ks) <= usize_max)%N) by (rewrite (td_len _ _ _ _ _ _ _ I); lia).
      destruct (mount_next_rotates_tsd c crit e lo hi (s_w x) wr ks closed roll true Hcfg T Y I Hhi Hk eq_refl)
        as [w' [wr' [roll' [E [I' [V' [Z' [S' R']]]]]]]].
      rewrite E. cbn [rot_of a_step kd_step code_of with_inner f_cfg f_poisoned s_w].
      split; [|split; [rewrite (same_env_now _ _ S'); lia | split; [intros b m [H|H]; discriminate | reflexivity]]].
      split; [exact Ht|]. split; [exact (same_env_acts _ _ S' Ha)|]. rewrite V in *.
      exists wr', roll'. cbn [s_flw s_w].
      split.
      { rewrite nth_snoc_last by (rewrite app_length; cbn [length]; rewrite (td_len _ _ _ _ _ _ _ I); lia). reflexivity. }
      split; [exact I'|]. split; [exact V'|]. split; [rewrite app_length; cbn [length]; lia|]. split; [exact Z'|].
      intros m Hm. destruct (RS m Hm) as [k ->]. destruct (R' m k eq_refl) as [k' ->]. eauto.
    + destruct R as [Ek [Es R]]. rewrite Es. cbn [new_flw f_poisoned f_cfg f_inner mount_next with_inner rot_of a_step kd_step code_of s_w].
      split; [|split; [lia | split; [intros b m [H|H]; discriminate | reflexivity]]].
      split; [exact Ht|]. split; [exact Ha|]. split; [exact Ek|]. split; [reflexivity | exact R].
  - (* OTick *)
    cbn [rot_of a_step kd_step s_w set_now wnow tick_ok] in *.
    split; [|split; [reflexivity | split; [intros b m [H|H]; discriminate | reflexivity]]].
    destruct R as [Ht [Ha R]]. split; [exact Ht|]. split; [exact Ha|]. destruct a as [[closed cur]|].
    + destruct R as [wr [roll [Es [I [V [Hn ZR]]]]]]. exists wr, roll. cbn [s_flw s_w].
      split; [exact Es|]. split; [apply tsdinv_tick; assumption|]. split; [exact V|]. split; [lia | exact ZR].
    + cbn [s_flw s_w]. destruct R as [Ek [Es [Q [Hn [Hi [Hoff Hlo]]]]]]. repeat split; try assumption; try apply Q. cbn [set_now wnow]. lia.
  - (* OSnap *)
    cbn [rot_of a_step kd_step]. split; [apply RelTdK_mono; exact R|]. split; [lia|]. split; [intros b m [H|H]; discriminate|].
    cbn [snapshot obs_ok]. exact Logic.I.
Qed.

(* a history *)
Lemma run_rel_tsd_k c crit e lo hi : tsdcfg c crit -> tag_ok c -> years_ok e lo hi ->
  forall ops x a ks n, RelTdK c crit e lo n x a ks -> Forall basic_op ops -> Forall tick_ok ops ->
  (wnow (s_w x) + elapsed ops <= hi)%Z -> (N.of_nat (n + length ops) <= usize_max)%N ->
  RelTdK c crit e lo (n + length ops) (fst (run x ops)) (a_run a ops (snd (run x ops))) (kd_run ks a (wnow (s_w x)) ops (snd (run x ops)))
  /\ wnow (s_w (fst (run x ops))) = (wnow (s_w x) + elapsed ops)%Z
  /\ Forall obs_ok (snd (run x ops))
  /\ (forall m, crit = CSize m ->
        a_run a ops (snd (run x ops)) = s_run m a ops
        /\ kd_run ks a (wnow (s_w x)) ops (snd (run x ops)) = ks_run m ks a (wnow (s_w x)) ops).
Proof.
  intros Hcfg T Y. induction ops as [|o r IH]; intros x a ks n R Hb Htk Hhi Hmax.
  - cbn [run fst snd a_run kd_run length elapsed]. rewrite Nat.add_0_r. split; [exact R|]. split; [lia|]. split; [constructor|].
    intros m _. split; reflexivity.
  - cbn [run]. inversion Hb as [|o' r' Ho Hr]; subst. inversion Htk as [|o' r' Hto Htr]; subst.
    cbn [elapsed length] in *. pose proof (elapsed_nonneg r Htr) as Er.
    assert (Hdt : (0 <= dt_of o)%Z) by (destruct o; cbn [dt_of tick_ok] in *; lia).
    pose proof (step_rel_tsd_k c crit e lo hi n x a ks o Hcfg T Y R Ho Hto ltac:(lia) ltac:(lia)) as S. destruct (step x o) as [x1 ob].
    destruct S as [R1 [W1 [C1 K1]]]. specialize (IH x1 _ _ (S n) R1 Hr Htr ltac:(lia) ltac:(lia)). destruct (run x1 r) as [x2 obs].
    cbn [fst snd a_run kd_run] in *. replace (n + S (length r)) with (S n + length r) by lia. destruct IH as [IH1 [IH2 [IH3 IH4]]].
    rewrite W1 in IH1, IH4.
    split; [exact IH1|]. split; [lia|]. split; [constructor; assumption|].
    intros m Hm. destruct (IH4 m Hm) as [IHa IHb].
    assert (Erot : a_step a o (rot_of ob) = a_step a o (m <? N.of_nat (length (cur_of a)))%N
                   /\ kd_step ks a o (rot_of ob) (wnow (s_w x)) = kd_step ks a o (m <? N.of_nat (length (cur_of a)))%N (wnow (s_w x))).
    { destruct o; try (split; reflexivity).
      - rewrite (C1 b m (or_introl eq_refl) Hm). split; reflexivity.
      - rewrite (C1 b m (or_intror eq_refl) Hm). split; reflexivity. }
    destruct Erot as [Ea Ek]. cbn [s_run ks_run]. rewrite <- Ea, <- Ek. split; assumption.
Qed.

(* ------------------------------------------------------------------ what the reader finds *)
(* with nothing pending the directory reads as the abstract view, under the names given by the keys *)
Lemma reltdk_view c crit e lo n x a ks : RelTdK c crit e lo n x a ks -> pending x = [] ->
  tsd_view c e (wfs (s_w x)) ks (files_of a) /\ keys_ok ks /\ (forall k, In k ks -> (lo <= fst k <= wnow (s_w x))%Z).
Proof.
  intros [_ [_ R]] P. destruct a as [[closed cur]|]; cbn [files_of].
  - destruct R as [wr [roll [Es [I [V _]]]]]. unfold pending in P. rewrite Es in P. cbn [st_tsd f_inner] in P.
    split; [rewrite <- V; apply (tsdinv_view c e lo); assumption|].
    split; [exact (td_keys _ _ _ _ _ _ _ I) | exact (td_range _ _ _ _ _ _ _ I)].
  - destruct R as [-> [_ [_ [Hn _]]]]. split; [apply tsd_view_nil; auto|]. split; [constructor | intros k []].
Qed.

(* a flush: the relation is kept, nothing is pending afterwards *)
Lemma flush_rel_tsd_k c crit e lo n x a ks : tsdcfg c crit -> RelTdK c crit e lo n x a ks ->
  RelTdK c crit e lo n (fst (step x OFlush)) a ks /\ pending (fst (step x OFlush)) = []
  /\ wnow (s_w (fst (step x OFlush))) = wnow (s_w x).
Proof.
  intros Hcfg R0. rewrite (step_sync_rel_tsd c crit e lo n x a OFlush Hcfg (reltdk_reltd _ _ _ _ _ _ _ _ R0)). cbn [sync_step].
  destruct R0 as [Ht [Ha R]]. destruct a as [[closed cur]|].
  - destruct R as [wr [roll [Es [I [V [Hn ZR]]]]]]. rewrite Es. cbn [st_tsd f_poisoned].
    destruct (flush_active_tsd c e lo (s_w x) wr ks closed roll (nth (length closed) ks kd) I) as [w' [wr' [E [I' [V' [P' S']]]]]].
    fold (st_tsd c e (nth (length closed) ks kd) roll wr). rewrite E. cbn [fst s_w]. split; [|split].
    + split; [exact Ht|]. split; [exact (same_env_acts _ _ S' Ha)|]. exists wr', roll. cbn [s_flw s_w].
      split; [reflexivity|]. split; [exact I'|]. split; [congruence|]. split; [exact Hn | exact ZR].
    + unfold pending. cbn [s_flw st_tsd f_inner]. exact P'.
    + exact (same_env_now _ _ S').
  - destruct R as [Ek [Es R]]. rewrite Es. cbn [new_flw f_poisoned flush_state f_inner fst s_w]. split; [|split].
    + split; [exact Ht|]. split; [exact Ha|]. split; [exact Ek|]. split; [reflexivity | exact R].
    + unfold pending. cbn [s_flw f_inner]. reflexivity.
    + reflexivity.
Qed.

(* the drop of the writer *)
Lemma stop_rel_tsd_k c crit e lo n x a ks : tsdcfg c crit -> RelTdK c crit e lo n x a ks ->
  let x' := fst (step x OStop) in
  tsd_view c e (wfs (s_w x')) ks (files_of a) /\ keys_ok ks /\ (forall k, In k ks -> (lo <= fst k <= wnow (s_w x))%Z)
  /\ s_flw x' = None.
Proof.
  intros Hcfg R0. cbn zeta. rewrite (step_sync_rel_tsd c crit e lo n x a OStop Hcfg (reltdk_reltd _ _ _ _ _ _ _ _ R0)).
  destruct R0 as [Ht [Ha R]]. cbn [sync_step]. destruct a as [[closed cur]|]; cbn [files_of].
  - destruct R as [wr [roll [Es [I [V _]]]]]. rewrite Es. cbn [st_tsd f_poisoned]. unfold drop_state.
    set (k := nth (length closed) ks kd).
    destruct (shutdown_active_tsd c e lo (s_w x) wr ks closed roll k I Ha) as [w1 [wr1 [E1 [I1 [V1 [P1 A1]]]]]].
    fold (st_tsd c e k roll wr). rewrite E1.
    destruct (shutdown_active_tsd c e lo w1 wr1 ks closed roll k I1 A1) as [w2 [wr2 [E2 [I2 [V2 [P2 A2]]]]]]. rewrite E2.
    cbn [st_tsd f_inner s_w s_flw fst]. unfold w_drop.
    destruct (w_flush_quiet w2 wr2 (td_quiet _ _ _ _ _ _ _ I2)) as [w3 [E3 [F3 S3]]]. rewrite E3. cbn [fst snd].
    rewrite P2, append_ino_nil_id in F3. rewrite F3.
    split; [|split; [exact (td_keys _ _ _ _ _ _ _ I) | split; [exact (td_range _ _ _ _ _ _ _ I) | reflexivity]]].
    rewrite <- V, <- V1, <- V2. apply (tsdinv_view c e lo); assumption.
  - destruct R as [-> [Es [Q [Hn Hi]]]]. rewrite Es. cbn [new_flw f_poisoned drop_state shutdown_state f_inner s_w s_flw fst].
    split; [apply tsd_view_nil; auto|]. split; [constructor|]. split; [intros k [] | reflexivity].
Qed.

(* ------------------------------------------------------------------ whole runs, synchronous modes *)
Section SyncRuns.
Variables (c : config) (crit : criterion) (t0 off : Z) (ops : list op).
Hypothesis Hcfg : tsdcfg c crit.
Hypothesis T : tag_ok c.
Hypothesis Hb : Forall basic_op ops.
Hypothesis Htk : Forall tick_ok ops.
Hypothesis Hlo : (0 <= t0 + ts_e c off)%Z.
Hypothesis Hhi : (t0 + elapsed ops + ts_e c off < sec_max)%Z.
Hypothesis Hmax : (N.of_nat (length ops) <= usize_max)%N.

(* the state after the history *)
Lemma tsd_run_k :
  exists x0 ob0, step (sys0 t0 off) (OStart c) = (x0, ob0) /\ ob0 = ObsRes 0%N false /\
    let x1 := fst (run x0 ops) in
    let a := a_run None ops (snd (run x0 ops)) in
    let ks := kd_run [] None t0 ops (snd (run x0 ops)) in
    RelTdK c crit (ts_e c off) t0 (length ops) x1 a ks
    /\ wnow (s_w x1) = (t0 + elapsed ops)%Z
    /\ Forall obs_ok (snd (run x0 ops))
    /\ flat a = written ops
    /\ (forall m, crit = CSize m -> files_of a = expected_files m None (items false ops) /\ ks = tsd_keys m t0 ops).
Proof.
  destruct (step (sys0 t0 off) (OStart c)) as [x0 ob0] eqn:E0.
  exists x0, ob0. split; [reflexivity|]. split; [cbn in E0; injection E0 as _ <-; reflexivity|].
  pose proof (start_rel_tsd_k c crit t0 off) as R0. rewrite E0 in R0. cbn [fst] in R0.
  assert (W0 : wnow (s_w x0) = t0) by (cbn in E0; injection E0 as <- _; reflexivity).
  assert (Y : years_ok (ts_e c off) t0 (t0 + elapsed ops)) by (split; assumption).
  pose proof (run_rel_tsd_k c crit _ _ _ Hcfg T Y ops x0 None [] 0 R0 Hb Htk ltac:(lia) ltac:(cbn [Nat.add]; exact Hmax)) as [R1 [W1 [K1 Z1]]].
  rewrite W0 in *. cbn [Nat.add] in R1. cbn zeta.
  split; [exact R1|]. split; [exact W1|]. split; [exact K1|].
  split. { pose proof (a_run_flat ops None (snd (run x0 ops)) Hb (run_length ops x0)) as F. cbn [flat app] in F. exact F. }
  intros m Hm. destruct (Z1 m Hm) as [Ea Ek]. rewrite Ea, Ek. split; [apply s_run_none; exact Hb | reflexivity].
Qed.

(* the hypotheses of the simulation *)
Lemma tsd_sync_ok :
  Forall obs_ok (snd (run (sys0 t0 off) (OStart c :: ops))) /\ quiet (s_w (fst (run (sys0 t0 off) (OStart c :: ops)))).
Proof.
  destruct tsd_run_k as [x0 [ob0 [E0 [Eob [R1 [_ [K1 _]]]]]]]. cbn [run]. rewrite E0.
  destruct (run x0 ops) as [x1 obs1]. cbn [fst snd] in *. subst ob0.
  split; [constructor; [reflexivity | exact K1] | exact (reltdk_quiet _ _ _ _ _ _ _ _ R1)].
Qed.

(* after the drop of the writer *)
Theorem tsd_stop_sync :
  let x := fst (run (sys0 t0 off) (OStart c :: ops ++ [OStop])) in
  exists keys files,
    tsd_view c (ts_e c off) (wfs (s_w x)) keys files /\ concat files = written ops
    /\ keys_ok keys /\ (forall k, In k keys -> (t0 <= fst k <= t0 + elapsed ops)%Z)
    /\ s_flw x = None
    /\ (forall m, crit = CSize m -> files = expected_files m None (items false ops) /\ keys = tsd_keys m t0 ops).
Proof.
  destruct tsd_run_k as [x0 [ob0 [E0 [_ [R1 [W1 [_ [F Z]]]]]]]]. cbn zeta in *. cbn [run]. rewrite E0, run_app.
  destruct (run x0 ops) as [x1 obs1]. cbn [fst snd] in *.
  destruct (stop_rel_tsd_k c crit _ _ _ x1 _ _ Hcfg R1) as [V [K [Rg Fl]]]. cbn [run]. destruct (step x1 OStop) as [x2 ob2]. cbn [fst] in *.
  eexists. eexists. split; [exact V|]. split; [rewrite files_concat; exact F|]. split; [exact K|].
  split; [intros k Ik; specialize (Rg k Ik); lia|]. split; [exact Fl | exact Z].
Qed.

(* after a flush *)
Theorem tsd_flush_sync :
  let x := fst (run (sys0 t0 off) (OStart c :: ops ++ [OFlush])) in
  exists keys files,
    tsd_view c (ts_e c off) (wfs (s_w x)) keys files /\ concat files = written ops
    /\ keys_ok keys /\ (forall k, In k keys -> (t0 <= fst k <= t0 + elapsed ops)%Z)
    /\ pending x = []
    /\ (forall m, crit = CSize m -> files = expected_files m None (items false ops) /\ keys = tsd_keys m t0 ops).
Proof.
  destruct tsd_run_k as [x0 [ob0 [E0 [_ [R1 [W1 [_ [F Z]]]]]]]]. cbn zeta in *. cbn [run]. rewrite E0, run_app.
  destruct (run x0 ops) as [x1 obs1]. cbn [fst snd] in *.
  destruct (flush_rel_tsd_k c crit _ _ _ x1 _ _ Hcfg R1) as [R2 [P W2]]. cbn [run]. destruct (step x1 OFlush) as [x2 ob2]. cbn [fst] in *.
  destruct (reltdk_view c crit _ _ _ x2 _ _ R2 P) as [V [K Rg]].
  eexists. eexists. split; [exact V|]. split; [rewrite files_concat; exact F|]. split; [exact K|].
  split; [intros k Ik; specialize (Rg k Ik); lia|]. split; [exact P | exact Z].
Qed.
End SyncRuns.

Print Assumptions tsd_stop_sync.
Print Assumptions tsd_flush_sync.

(* ================================================================== Part B: any mode *)
(* TimestampsDirect naming, no cleanup, no start-time part, no symlink; ANY write mode; use_utc either way *)
Definition tsdmcfg (c : config) (crit : criterion) : Prop :=
  c_rot c = Some (crit, NTimestampsDirect, KNever) /\ fts (c_spec c) = false /\ c_symlink c = false.
Definition tsdacfg (c : config) (crit : criterion) : Prop := tsdmcfg c crit /\ c_async c = true.

Lemma tsdmcfg_sync c crit : tsdmcfg c crit -> tsdcfg (sync_of c) crit.
Proof. intros [H1 [H2 H3]]. repeat split; assumption. Qed.
Lemma tsdcfg_any c crit : tsdcfg c crit -> tsdmcfg c crit.
Proof. intros [H1 [H2 [H3 _]]]. repeat split; assumption. Qed.
Lemma tsdmcfg_mode c1 c2 crit : same_but_mode c1 c2 -> tsdmcfg c1 crit -> tsdmcfg c2 crit.
Proof. intros [S1 [_ [S3 [_ [S5 _]]]]] [H1 [H2 H3]]. repeat split; congruence. Qed.

(* what the statements mention of the configuration does not depend on the mode *)
Lemma same_mode_tag_ok c1 c2 : same_but_mode c1 c2 -> tag_ok c1 -> tag_ok c2.
Proof. intros [S1 _]. unfold tag_ok, fixed0. rewrite S1. exact (fun H => H). Qed.
Lemma same_mode_ts_e c1 c2 off : same_but_mode c1 c2 -> ts_e c1 off = ts_e c2 off.
Proof. intros [_ [_ [_ [S4 _]]]]. unfold ts_e. rewrite S4. reflexivity. Qed.
Lemma same_mode_tsd_view c1 c2 e f keys files : same_but_mode c1 c2 -> tsd_view c1 e f keys files -> tsd_view c2 e f keys files.
Proof. intros Hm. unfold tsd_view, kname. rewrite (same_mode_nm c1 c2 Hm). exact (fun H => H). Qed.

Section AnyMode.
Variables (c : config) (crit : criterion) (t0 off : Z) (ops : list op).
Hypothesis Hcfg : tsdmcfg c crit.
Hypothesis T : tag_ok c.
Hypothesis Hb : Forall basic_op ops.
Hypothesis Htk : Forall tick_ok ops.
Hypothesis Hlo : (0 <= t0 + ts_e c off)%Z.
Hypothesis Hhi : (t0 + elapsed ops + ts_e c off < sec_max)%Z.
Hypothesis Hmax : (N.of_nat (length ops) <= usize_max)%N.

Let Hs : tsdcfg (sync_of c) crit := tsdmcfg_sync c crit Hcfg.

Lemma tsd_ok_sync_of :
  Forall obs_ok (snd (run (sys0 t0 off) (OStart (sync_of c) :: ops)))
  /\ quiet (s_w (fst (run (sys0 t0 off) (OStart (sync_of c) :: ops)))).
Proof. exact (tsd_sync_ok (sync_of c) crit t0 off ops Hs T Hb Htk Hlo Hhi Hmax). Qed.

Lemma tsd_to_sync :
  let r := run (sys0 t0 off) (OStart c :: ops) in
  let rs := run (sys0 t0 off) (OStart (sync_of c) :: ops) in
  let r' := run (sys0 t0 off) (OStart c :: ops ++ [OStop]) in
  let rs' := run (sys0 t0 off) (OStart (sync_of c) :: ops ++ [OStop]) in
  s_w (fst r) = s_w (fst rs) /\ pending (fst r) = pending (fst rs) /\ s_w (fst r') = s_w (fst rs').
Proof. destruct tsd_ok_sync_of as [K Q]. exact (to_sync c t0 off ops Hb K Q). Qed.

Lemma tsd_stop_flw : s_flw (fst (run (sys0 t0 off) (OStart c :: ops ++ [OStop]))) = None.
Proof.
  destruct (c_async c) eqn:Ha.
  - destruct tsd_ok_sync_of as [K Q]. destruct (async_transfer c t0 off ops Ha Hb K Q) as [_ [_ [Fa _]]]. exact Fa.
  - pose proof (tsd_stop_sync (sync_of c) crit t0 off ops Hs T Hb Htk Hlo Hhi Hmax) as H. cbn zeta in H.
    rewrite (sync_of_sync c Ha) in H. destruct H as [keys [files [_ [_ [_ [_ [Fl _]]]]]]]. exact Fl.
Qed.

(* C04, drop of the writer (shutdown + drop of the last handle), any mode; for a size criterion the contents are the
   greedy partition and the names are those of tsd_keys - functions of the history and the clock alone *)
Theorem tsd_stop_durable :
  let x := fst (run (sys0 t0 off) (OStart c :: ops ++ [OStop])) in
  exists keys files,
    tsd_view c (ts_e c off) (wfs (s_w x)) keys files /\ concat files = written ops
    /\ keys_ok keys /\ (forall k, In k keys -> (t0 <= fst k <= t0 + elapsed ops)%Z)
    /\ pending x = [] /\ s_flw x = None
    /\ (forall m, crit = CSize m -> files = expected_files m None (items false ops) /\ keys = tsd_keys m t0 ops).
Proof.
  cbn zeta. destruct tsd_to_sync as [_ [_ E]]. cbn zeta in E. rewrite E.
  destruct (tsd_stop_sync (sync_of c) crit t0 off ops Hs T Hb Htk Hlo Hhi Hmax) as [keys [files [V [F [K [Rg [_ Z]]]]]]].
  exists keys, files. split; [exact V|]. split; [exact F|]. split; [exact K|]. split; [exact Rg|].
  split; [unfold pending; rewrite tsd_stop_flw; reflexivity|]. split; [exact tsd_stop_flw | exact Z].
Qed.
End AnyMode.

(* C04, flush, any mode.  Asynchronous mode: "after the flush" is after the writer thread has consumed the flush message -
   in the model and in the test harness that is before the next operation starts *)
Theorem tsd_flush_durable c crit t0 off ops :
  tsdmcfg c crit -> tag_ok c -> Forall basic_op ops -> Forall tick_ok ops ->
  (0 <= t0 + ts_e c off)%Z -> (t0 + elapsed ops + ts_e c off < sec_max)%Z -> (N.of_nat (S (length ops)) <= usize_max)%N ->
  let x := fst (run (sys0 t0 off) (OStart c :: ops ++ [OFlush])) in
  exists keys files,
    tsd_view c (ts_e c off) (wfs (s_w x)) keys files /\ concat files = written ops
    /\ keys_ok keys /\ (forall k, In k keys -> (t0 <= fst k <= t0 + elapsed ops)%Z)
    /\ pending x = []
    /\ (forall m, crit = CSize m -> files = expected_files m None (items false ops) /\ keys = tsd_keys m t0 ops).
Proof.
  intros Hcfg T Hb Htk Hlo Hhi Hmax. cbn zeta.
  assert (Htk' : Forall tick_ok (ops ++ [OFlush])) by (apply Forall_app; split; [exact Htk | repeat constructor]).
  assert (El : elapsed (ops ++ [OFlush]) = elapsed ops).
  { clear. induction ops as [|o r IH]; [reflexivity|]. cbn [app elapsed]. rewrite IH. reflexivity. }
  assert (Hmax' : (N.of_nat (length (ops ++ [OFlush])) <= usize_max)%N) by (rewrite app_length; cbn [length]; lia).
  destruct (tsd_to_sync c crit t0 off (ops ++ [OFlush]) Hcfg T (basic_snoc_flush ops Hb) Htk' Hlo ltac:(rewrite El; exact Hhi) Hmax') as [E [P _]].
  cbn zeta in E, P. rewrite E, P.
  assert (Hmax0 : (N.of_nat (length ops) <= usize_max)%N) by lia.
  exact (tsd_flush_sync (sync_of c) crit t0 off ops (tsdmcfg_sync _ _ Hcfg) T Hb Htk Hlo Hhi Hmax0).
Qed.

(* C15: two configurations that differ in the write mode only - Direct, buffered with any capacity, asynchronous with
   either - leave, after the same operations under the same clock and the drop of the writer, the same directory: the
   same file names (kname c1 = kname c2; the keys tsd_keys m t0 ops) with the same contents, the greedy partition of the
   written records and chunks, and nothing else *)
Theorem tsd_modes c1 c2 m t0 off ops :
  same_but_mode c1 c2 -> tsdmcfg c1 (CSize m) -> tag_ok c1 -> Forall basic_op ops -> Forall tick_ok ops ->
  (0 <= t0 + ts_e c1 off)%Z -> (t0 + elapsed ops + ts_e c1 off < sec_max)%Z -> (N.of_nat (length ops) <= usize_max)%N ->
  let f1 := wfs (s_w (fst (run (sys0 t0 off) (OStart c1 :: ops ++ [OStop])))) in
  let f2 := wfs (s_w (fst (run (sys0 t0 off) (OStart c2 :: ops ++ [OStop])))) in
  let keys := tsd_keys m t0 ops in
  let files := expected_files m None (items false ops) in
  tsd_view c1 (ts_e c1 off) f1 keys files /\ tsd_view c1 (ts_e c1 off) f2 keys files /\ tsd_view c2 (ts_e c2 off) f2 keys files
  /\ keys_ok keys /\ (forall k, In k keys -> (t0 <= fst k <= t0 + elapsed ops)%Z).
Proof.
  intros Hm H1 T1 Hb Htk Hlo Hhi Hmax. cbn zeta.
  pose proof (tsdmcfg_mode c1 c2 _ Hm H1) as H2. pose proof (same_mode_tag_ok c1 c2 Hm T1) as T2.
  pose proof (same_mode_ts_e c1 c2 off Hm) as Ee.
  destruct (tsd_stop_durable c1 (CSize m) t0 off ops H1 T1 Hb Htk Hlo Hhi Hmax) as [k1 [f1 [V1 [_ [K1 [R1 [_ [_ Z1]]]]]]]].
  destruct (tsd_stop_durable c2 (CSize m) t0 off ops H2 T2 Hb Htk ltac:(rewrite <- Ee; exact Hlo) ltac:(rewrite <- Ee; exact Hhi) Hmax)
    as [k2 [f2 [V2 [_ [_ [_ [_ [_ Z2]]]]]]]].
  cbn zeta in *. destruct (Z1 m eq_refl) as [-> ->]. destruct (Z2 m eq_refl) as [-> ->].
  split; [exact V1|]. split; [|split; [exact V2 | split; assumption]].
  rewrite Ee. apply (same_mode_tsd_view c2 c1); [apply same_but_mode_sym; exact Hm | exact V2].
Qed.

(* flushed directories agree across the modes *)
Theorem tsd_modes_flushed c1 c2 m t0 off ops :
  same_but_mode c1 c2 -> tsdmcfg c1 (CSize m) -> tag_ok c1 -> Forall basic_op ops -> Forall tick_ok ops ->
  (0 <= t0 + ts_e c1 off)%Z -> (t0 + elapsed ops + ts_e c1 off < sec_max)%Z -> (N.of_nat (S (length ops)) <= usize_max)%N ->
  let x1 := fst (run (sys0 t0 off) (OStart c1 :: ops ++ [OFlush])) in
  let x2 := fst (run (sys0 t0 off) (OStart c2 :: ops ++ [OFlush])) in
  let keys := tsd_keys m t0 ops in
  let files := expected_files m None (items false ops) in
  tsd_view c1 (ts_e c1 off) (wfs (s_w x1)) keys files /\ tsd_view c1 (ts_e c1 off) (wfs (s_w x2)) keys files
  /\ pending x1 = [] /\ pending x2 = [].
Proof.
  intros Hm H1 T1 Hb Htk Hlo Hhi Hmax. cbn zeta.
  pose proof (tsdmcfg_mode c1 c2 _ Hm H1) as H2. pose proof (same_mode_tag_ok c1 c2 Hm T1) as T2.
  pose proof (same_mode_ts_e c1 c2 off Hm) as Ee.
  destruct (tsd_flush_durable c1 (CSize m) t0 off ops H1 T1 Hb Htk Hlo Hhi Hmax) as [k1 [f1 [V1 [_ [_ [_ [P1 Z1]]]]]]].
  destruct (tsd_flush_durable c2 (CSize m) t0 off ops H2 T2 Hb Htk ltac:(rewrite <- Ee; exact Hlo) ltac:(rewrite <- Ee; exact Hhi) Hmax)
    as [k2 [f2 [V2 [_ [_ [_ [P2 Z2]]]]]]].
  cbn zeta in *. destruct (Z1 m eq_refl) as [-> ->]. destruct (Z2 m eq_refl) as [-> ->].
  split; [exact V1|]. split; [|split; assumption].
  rewrite Ee. apply (same_mode_tsd_view c2 c1); [apply same_but_mode_sym; exact Hm | exact V2].
Qed.

(* ------------------------------------------------------------------ the asynchronous mode, spelled out *)
(* the stream: any criterion *)
Theorem async_tsd_stream c crit t0 off ops :
  tsdacfg c crit -> tag_ok c -> Forall basic_op ops -> Forall tick_ok ops ->
  (0 <= t0 + ts_e c off)%Z -> (t0 + elapsed ops + ts_e c off < sec_max)%Z -> (N.of_nat (length ops) <= usize_max)%N ->
  exists keys files,
    tsd_view c (ts_e c off) (wfs (s_w (fst (run (sys0 t0 off) (OStart c :: ops ++ [OStop]))))) keys files
    /\ concat files = written ops /\ keys_ok keys
    /\ (forall k, In k keys -> (t0 <= fst k <= t0 + elapsed ops)%Z).
Proof.
  intros [Hcfg _] T Hb Htk Hlo Hhi Hmax.
  destruct (tsd_stop_durable c crit t0 off ops Hcfg T Hb Htk Hlo Hhi Hmax) as [keys [files [V [F [K [Rg _]]]]]].
  exists keys, files. auto.
Qed.

(* size criterion: the greedy partition, under the names of tsd_keys *)
Theorem async_tsd_partition c m t0 off ops :
  tsdacfg c (CSize m) -> tag_ok c -> Forall basic_op ops -> Forall tick_ok ops ->
  (0 <= t0 + ts_e c off)%Z -> (t0 + elapsed ops + ts_e c off < sec_max)%Z -> (N.of_nat (length ops) <= usize_max)%N ->
  tsd_view c (ts_e c off) (wfs (s_w (fst (run (sys0 t0 off) (OStart c :: ops ++ [OStop]))))) (tsd_keys m t0 ops)
           (expected_files m None (items false ops))
  /\ keys_ok (tsd_keys m t0 ops) /\ (forall k, In k (tsd_keys m t0 ops) -> (t0 <= fst k <= t0 + elapsed ops)%Z).
Proof.
  intros [Hcfg _] T Hb Htk Hlo Hhi Hmax.
  destruct (tsd_stop_durable c (CSize m) t0 off ops Hcfg T Hb Htk Hlo Hhi Hmax) as [keys [files [V [F [K [Rg [_ [_ Z]]]]]]]].
  destruct (Z m eq_refl) as [-> ->]. auto.
Qed.

(* what the caller of an asynchronous writer observes: every operation except a snapshot returns "ok, no rotation" - also
   the writes at which the writer thread rotates; after the drop there is no writer, the thread is gone, nothing is pending *)
Theorem async_tsd_observations c crit t0 off ops :
  tsdacfg c crit -> tag_ok c -> Forall basic_op ops -> Forall tick_ok ops ->
  (0 <= t0 + ts_e c off)%Z -> (t0 + elapsed ops + ts_e c off < sec_max)%Z -> (N.of_nat (length ops) <= usize_max)%N ->
  let r := run (sys0 t0 off) (OStart c :: ops ++ [OStop]) in
  Forall2 aobs (OStart c :: ops ++ [OStop]) (snd r)
  /\ s_flw (fst r) = None /\ s_dead (fst r) = true /\ pending (fst r) = [].
Proof.
  intros [Hcfg Ha] T Hb Htk Hlo Hhi Hmax. cbn zeta.
  destruct (tsd_ok_sync_of c crit t0 off ops Hcfg T Hb Htk Hlo Hhi Hmax) as [K Q].
  destruct (async_transfer c t0 off ops Ha Hb K Q) as [_ [_ [Fa [Da O]]]].
  split; [exact O|]. split; [exact Fa|]. split; [exact Da|]. unfold pending. rewrite Fa. reflexivity.
Qed.

(* flush: as tsd_flush_durable, and the writer thread is still running *)
Theorem async_tsd_flush_durable c crit t0 off ops :
  tsdacfg c crit -> tag_ok c -> Forall basic_op ops -> Forall tick_ok ops ->
  (0 <= t0 + ts_e c off)%Z -> (t0 + elapsed ops + ts_e c off < sec_max)%Z -> (N.of_nat (S (length ops)) <= usize_max)%N ->
  let x := fst (run (sys0 t0 off) (OStart c :: ops ++ [OFlush])) in
  exists keys files,
    tsd_view c (ts_e c off) (wfs (s_w x)) keys files /\ concat files = written ops
    /\ keys_ok keys /\ (forall k, In k keys -> (t0 <= fst k <= t0 + elapsed ops)%Z)
    /\ pending x = [] /\ s_dead x = false
    /\ (forall m, crit = CSize m -> files = expected_files m None (items false ops) /\ keys = tsd_keys m t0 ops).
Proof.
  intros [Hcfg Ha] T Hb Htk Hlo Hhi Hmax. cbn zeta.
  destruct (tsd_flush_durable c crit t0 off ops Hcfg T Hb Htk Hlo Hhi Hmax) as [keys [files [V [F [K [Rg [P Z]]]]]]]. cbn zeta in *.
  exists keys, files. split; [exact V|]. split; [exact F|]. split; [exact K|]. split; [exact Rg|]. split; [exact P|]. split; [|exact Z].
  assert (Htk' : Forall tick_ok (ops ++ [OFlush])) by (apply Forall_app; split; [exact Htk | repeat constructor]).
  assert (El : elapsed (ops ++ [OFlush]) = elapsed ops).
  { clear. induction ops as [|o r IH]; [reflexivity|]. cbn [app elapsed]. rewrite IH. reflexivity. }
  assert (Hmax' : (N.of_nat (length (ops ++ [OFlush])) <= usize_max)%N) by (rewrite app_length; cbn [length]; lia).
  destruct (tsd_ok_sync_of c crit t0 off (ops ++ [OFlush]) Hcfg T (basic_snoc_flush ops Hb) Htk' Hlo ltac:(rewrite El; exact Hhi) Hmax') as [K' Q'].
  destruct (async_transfer c t0 off (ops ++ [OFlush]) Ha (basic_snoc_flush ops Hb) K' Q') as [S _]. apply S.
Qed.

(* drop: as tsd_stop_durable, and the writer thread has ended *)
Theorem async_tsd_stop_durable c crit t0 off ops :
  tsdacfg c crit -> tag_ok c -> Forall basic_op ops -> Forall tick_ok ops ->
  (0 <= t0 + ts_e c off)%Z -> (t0 + elapsed ops + ts_e c off < sec_max)%Z -> (N.of_nat (length ops) <= usize_max)%N ->
  let x := fst (run (sys0 t0 off) (OStart c :: ops ++ [OStop])) in
  exists keys files,
    tsd_view c (ts_e c off) (wfs (s_w x)) keys files /\ concat files = written ops
    /\ keys_ok keys /\ (forall k, In k keys -> (t0 <= fst k <= t0 + elapsed ops)%Z)
    /\ pending x = [] /\ s_flw x = None /\ s_dead x = true
    /\ (forall m, crit = CSize m -> files = expected_files m None (items false ops) /\ keys = tsd_keys m t0 ops).
Proof.
  intros [Hcfg Ha] T Hb Htk Hlo Hhi Hmax. cbn zeta.
  destruct (tsd_stop_durable c crit t0 off ops Hcfg T Hb Htk Hlo Hhi Hmax) as [keys [files [V [F [K [Rg [P [Fl Z]]]]]]]]. cbn zeta in *.
  exists keys, files. split; [exact V|]. split; [exact F|]. split; [exact K|]. split; [exact Rg|]. split; [exact P|]. split; [exact Fl|].
  split; [|exact Z]. apply (async_tsd_observations c crit t0 off ops (conj Hcfg Ha) T Hb Htk Hlo Hhi Hmax).
Qed.

(* the asynchronous writer and the synchronous writer of the same capacity go through the very same worlds (file system,
   clock, error channel), with and without the final drop - ANY criterion; the caller's observations differ in the rotation
   flag only, which the asynchronous caller never sees *)
Theorem async_tsd_worlds c crit t0 off ops :
  tsdacfg c crit -> tag_ok c -> Forall basic_op ops -> Forall tick_ok ops ->
  (0 <= t0 + ts_e c off)%Z -> (t0 + elapsed ops + ts_e c off < sec_max)%Z -> (N.of_nat (length ops) <= usize_max)%N ->
  let ra := run (sys0 t0 off) (OStart c :: ops) in
  let rs := run (sys0 t0 off) (OStart (sync_of c) :: ops) in
  let ra' := run (sys0 t0 off) (OStart c :: ops ++ [OStop]) in
  let rs' := run (sys0 t0 off) (OStart (sync_of c) :: ops ++ [OStop]) in
  s_w (fst ra) = s_w (fst rs) /\ snd ra = List.map no_rot (snd rs)
  /\ s_w (fst ra') = s_w (fst rs') /\ snd ra' = List.map no_rot (snd rs').
Proof.
  intros [Hcfg Ha] T Hb Htk Hlo Hhi Hmax. cbn zeta.
  destruct (tsd_ok_sync_of c crit t0 off ops Hcfg T Hb Htk Hlo Hhi Hmax) as [K Q].
  destruct (async_sim_whole c t0 off ops Ha Hb K) as [[E1 [E2 _]] St]. destruct (St Q) as [E3 [E4 _]].
  repeat split; assumption.
Qed.

Print Assumptions tsd_stop_durable.
Print Assumptions tsd_flush_durable.
Print Assumptions tsd_modes.
Print Assumptions tsd_modes_flushed.
Print Assumptions async_tsd_stream.
Print Assumptions async_tsd_partition.
Print Assumptions async_tsd_observations.
Print Assumptions async_tsd_flush_durable.
Print Assumptions async_tsd_stop_durable.
Print Assumptions async_tsd_worlds.

(* ------------------------------------------------------------------ "the same directory", literally *)
Lemma tsd_view_same_dir c e f1 f2 keys files : tsd_view c e f1 keys files -> tsd_view c e f2 keys files ->
  same_dir f1 f2 /\ snap_list f1 = snap_list f2.
Proof.
  intros [_ [A1 [B1 N1]]] [_ [A2 [B2 N2]]].
  assert (S : same_dir f1 f2).
  { apply (same_dir_of_entries f1 f2 (fun i => kname c e (nth i keys kd)) (fun i => nth i files []) (length files)); assumption. }
  split; [exact S | apply same_dir_snap; assumption].
Qed.

(* C15 once more: the two final directories are the same map from names to files (kind, content), and the snapshots -
   names in sorted order with kind and content - are equal *)
Theorem tsd_modes_same_dir c1 c2 m t0 off ops :
  same_but_mode c1 c2 -> tsdmcfg c1 (CSize m) -> tag_ok c1 -> Forall basic_op ops -> Forall tick_ok ops ->
  (0 <= t0 + ts_e c1 off)%Z -> (t0 + elapsed ops + ts_e c1 off < sec_max)%Z -> (N.of_nat (length ops) <= usize_max)%N ->
  let x1 := fst (run (sys0 t0 off) (OStart c1 :: ops ++ [OStop])) in
  let x2 := fst (run (sys0 t0 off) (OStart c2 :: ops ++ [OStop])) in
  same_dir (wfs (s_w x1)) (wfs (s_w x2)) /\ snap_of x1 = snap_of x2.
Proof.
  intros Hm H1 T1 Hb Htk Hlo Hhi Hmax. cbn zeta.
  destruct (tsd_modes c1 c2 m t0 off ops Hm H1 T1 Hb Htk Hlo Hhi Hmax) as [V1 [V2 _]]. cbn zeta in *.
  rewrite !snap_of_list. exact (tsd_view_same_dir c1 _ _ _ _ _ V1 V2).
Qed.
Print Assumptions tsd_modes_same_dir.

(* ------------------------------------------------------------------ examples *)
Section Examples.
Open Scope string_scope.
(* app_r<time stamp>[.restart-NNNN].log, rotation when the current file holds more than 3 bytes *)
Definition extm (cap : option nat) (async : bool) : config := with_mode (tsd_cfg (ex_sp "log") false (CSize 3) None false) cap async.
Definition extm_direct := extm None false.
Definition extm_buffered := extm (Some 4%nat) false.
Definition extm_async := extm (Some 4%nat) true.        (* the writer thread writes through a BufWriter of 4 bytes *)
Definition extm_async_unbuffered := extm None true.

(* a trigger before the first record, a rotation by size in second 3, a trigger in the same second, a rotation by size in
   second 5 *)
Definition extm_hist : list op :=
  [OTrigger; OWrite (bs "abcd"); OTick 3; OWrite (bs "ef"); OSnap; OFlush; OSnap; OTrigger; OPlain (bs "g"); OWrite (bs "hijkl");
   OTick 2; OWrite (bs "m")].

Lemma extm_hist_basic : Forall basic_op extm_hist.
Proof. repeat constructor. Qed.
Lemma extm_hist_ticks : Forall tick_ok extm_hist.
Proof. repeat (apply Forall_cons; [cbn [tick_ok]; first [exact Logic.I | lia]|]). apply Forall_nil. Qed.
Lemma extm_tag_ok cap async : tag_ok (extm cap async).
Proof. apply tag_free_ok. split; vm_compute; reflexivity. Qed.

(* the hypotheses are satisfiable *)
Example extm_hyps :
  tsdcfg extm_direct (CSize 3) /\ tsdcfg extm_buffered (CSize 3) /\ tsdacfg extm_async (CSize 3)
  /\ tsdacfg extm_async_unbuffered (CSize 3)
  /\ same_but_mode extm_direct extm_buffered /\ same_but_mode extm_direct extm_async /\ same_but_mode extm_buffered extm_async_unbuffered
  /\ (0 <= 0 + ts_e extm_direct 0)%Z /\ (0 + elapsed extm_hist + ts_e extm_direct 0 < sec_max)%Z
  /\ (N.of_nat (S (length extm_hist)) <= usize_max)%N.
Proof.
  repeat split; try discriminate.
Qed.

Definition extm_dir : list (bytes * N * bytes) :=
  [ (bs "app_r1970-01-01_00-00-00.log", 0%N, bs "abcd"); (bs "app_r1970-01-01_00-00-03.log", 0%N, bs "ef");
    (bs "app_r1970-01-01_00-00-03.restart-0000.log", 0%N, bs "ghijkl"); (bs "app_r1970-01-01_00-00-05.log", 0%N, bs "m") ].

(* the directory after the history and the drop of the writer: the same in the four modes *)
Example extm_dir_direct : snap_of (fst (run (sys0 0 0) (OStart extm_direct :: extm_hist ++ [OStop]))) = extm_dir.
Proof. vm_compute. reflexivity. Qed.
Example extm_dir_buffered : snap_of (fst (run (sys0 0 0) (OStart extm_buffered :: extm_hist ++ [OStop]))) = extm_dir.
Proof. vm_compute. reflexivity. Qed.
Example extm_dir_async : snap_of (fst (run (sys0 0 0) (OStart extm_async :: extm_hist ++ [OStop]))) = extm_dir.
Proof. vm_compute. reflexivity. Qed.
Example extm_dir_async_unbuffered : snap_of (fst (run (sys0 0 0) (OStart extm_async_unbuffered :: extm_hist ++ [OStop]))) = extm_dir.
Proof. vm_compute. reflexivity. Qed.

(* the keys and the contents as the theorems have them: functions of the history and the clock *)
Example extm_keys : tsd_keys 3 0 extm_hist = [(0%Z, 0); (3%Z, 0); (3%Z, 1); (5%Z, 0)]
  /\ expected_files 3 None (items false extm_hist) = [bs "abcd"; bs "ef"; bs "ghijkl"; bs "m"]
  /\ List.map (kname extm_direct 0) (tsd_keys 3 0 extm_hist) = List.map (fun x : bytes * N * bytes => fst (fst x)) extm_dir.
Proof. vm_compute. repeat split; reflexivity. Qed.

(* instance of tsd_modes: Direct against asynchronous-buffered *)
Example extm_modes_instance :
  let f1 := wfs (s_w (fst (run (sys0 0 0) (OStart extm_direct :: extm_hist ++ [OStop])))) in
  let f2 := wfs (s_w (fst (run (sys0 0 0) (OStart extm_async :: extm_hist ++ [OStop])))) in
  tsd_view extm_direct 0 f1 [(0%Z, 0); (3%Z, 0); (3%Z, 1); (5%Z, 0)] [bs "abcd"; bs "ef"; bs "ghijkl"; bs "m"]
  /\ tsd_view extm_direct 0 f2 [(0%Z, 0); (3%Z, 0); (3%Z, 1); (5%Z, 0)] [bs "abcd"; bs "ef"; bs "ghijkl"; bs "m"].
Proof.
  destruct (tsd_modes extm_direct extm_async 3 0 0 extm_hist) as [V1 [V2 _]];
    [repeat split | repeat split | apply extm_tag_ok | exact extm_hist_basic | exact extm_hist_ticks
     | change (0 <= 0)%Z; lia | change (5 < sec_max)%Z; unfold sec_max; lia | vm_compute; discriminate |].
  cbn zeta in *. destruct extm_keys as [Ek [Ef _]]. rewrite Ek, Ef in V1, V2. split; [exact V1 | exact V2].
Qed.

(* the snapshots before and after the flush: with a BufWriter of 4 bytes the record "ef" is still pending at the first
   one - in buffered and in asynchronous mode alike - and on the disk at the second, in every mode; the file of second 3
   exists in both *)
Definition extm_snap (cur : bytes) : obs :=
  ObsSnap [(bs "app_r1970-01-01_00-00-00.log", 0%N, bs "abcd"); (bs "app_r1970-01-01_00-00-03.log", 0%N, cur)] None [].
Example extm_snaps_direct : snaps extm_direct extm_hist = [extm_snap (bs "ef"); extm_snap (bs "ef")].
Proof. vm_compute. reflexivity. Qed.
Example extm_snaps_buffered : snaps extm_buffered extm_hist = [extm_snap (bs ""); extm_snap (bs "ef")].
Proof. vm_compute. reflexivity. Qed.
Example extm_snaps_async : snaps extm_async extm_hist = [extm_snap (bs ""); extm_snap (bs "ef")].
Proof. vm_compute. reflexivity. Qed.
Example extm_snaps_async_unbuffered : snaps extm_async_unbuffered extm_hist = [extm_snap (bs "ef"); extm_snap (bs "ef")].
Proof. vm_compute. reflexivity. Qed.

(* the rotation flags: the synchronous caller sees the rotations at the writes of "ef" and of "m", the asynchronous never *)
Example extm_flags_buffered : rots_seen extm_buffered extm_hist
  = [false; false; false; false; true; false; false; false; false; false; false; false; true; false]%bool.
Proof. vm_compute. reflexivity. Qed.
Example extm_flags_async : rots_seen extm_async extm_hist
  = [false; false; false; false; false; false; false; false; false; false; false; false; false; false]%bool.
Proof. vm_compute. reflexivity. Qed.

(* instance of async_tsd_flush_durable: the prefix of the history up to the record "ef", then a flush *)
Example extm_flush_instance :
  let x := fst (run (sys0 0 0) (OStart extm_async :: [OTrigger; OWrite (bs "abcd"); OTick 3; OWrite (bs "ef")] ++ [OFlush])) in
  tsd_view extm_async 0 (wfs (s_w x)) [(0%Z, 0); (3%Z, 0)] [bs "abcd"; bs "ef"] /\ pending x = [] /\ s_dead x = false.
Proof.
  destruct (async_tsd_flush_durable extm_async (CSize 3) 0 0 [OTrigger; OWrite (bs "abcd"); OTick 3; OWrite (bs "ef")])
    as [keys [files [V [_ [_ [_ [P [D Z]]]]]]]];
    [repeat split | apply extm_tag_ok | repeat constructor
     | repeat (apply Forall_cons; [cbn [tick_ok]; first [exact Logic.I | lia]|]); apply Forall_nil
     | change (0 <= 0)%Z; lia | change (3 < sec_max)%Z; unfold sec_max; lia | vm_compute; discriminate |].
  cbn zeta in *. destruct (Z 3%N eq_refl) as [-> ->]. split; [exact V | split; [exact P | exact D]].
Qed.

(* NOT covered by tsd_modes (size criterion only): an age criterion, use_utc with a zone offset of two hours.  The rotation
   decision depends on the clock and on the creation time of the current file, not on the buffer; the four modes agree on this
   history (computed) *)
Definition extm_age (cap : option nat) (async : bool) : config := with_mode (tsd_cfg ext_sp2 true (CAge ADay) None true) cap async.
Example extm_age_modes_agree :
  let dir c := snap_of (fst (run (sys0 1700000000 7200) (OStart c :: ext_ops2 ++ [OStop]))) in
  dir (extm_age None false) = [ (bs "srv_a1_r2023-11-14_22-13-20", 0%N, bs "x"); (bs "srv_a1_r2023-11-15_23-13-20", 0%N, bs "yz") ]
  /\ dir (extm_age (Some 100%nat) false) = dir (extm_age None false)
  /\ dir (extm_age (Some 100%nat) true) = dir (extm_age None false)
  /\ dir (extm_age None true) = dir (extm_age None false).
Proof. vm_compute. repeat split; reflexivity. Qed.
End Examples.
