(* C19 for the buffered write modes, without rotation: the model does what the specification FaultBufSpec.simb_run says -
   for EVERY fault oracle and EVERY history of log calls, flushes, shutdowns and drops (no rotation, a BufWriter of
   any capacity n, synchronous, no symlink, no start-time part in the name; with and without append; empty records
   and records larger than the buffer included). *)
Require Import FL.Base.Bytes FL.Base.BytesFacts FL.Base.PathName FL.Fs.Fs FL.Fs.FsFacts FL.Names.FileSpec
  FL.Flw.Model FL.Flw.ModelFacts FL.Flw.Run FL.Flw.RunFacts FL.Flw.NumRun FL.Flw.KillFacts FL.Flw.NumKill
  FL.Flw.FaultFacts FL.Flw.FaultRotSpec FL.Flw.FaultRotation FL.Flw.FaultBufSpec.
From Coq Require Import ZifyN ZifyNat ZifyBool.
Open Scope nat_scope.

(* the configurations covered: no rotation, buffer of capacity n, synchronous, no symlink, no start-time part *)
Definition bufcfg (c : config) (n : nat) : Prop :=
  c_rot c = None /\ c_cap c = Some n /\ c_async c = false /\ c_symlink c = false /\ fts (c_spec c) = false.

(* the BufWriter whose buffer holds the records B *)
Definition bwr (n ino : nat) (B : list bytes) : writer := {| wino := ino; wpend := concat B; wcap := Some n |}.

Lemma concat_snoc (B : list bytes) b : concat (B ++ [b]) = concat B ++ b.
Proof. rewrite concat_app. cbn [concat]. rewrite app_nil_r. reflexivity. Qed.

(* ------------------------------------------------------------------ the writer primitives under an oracle *)
(* one flush attempt: delta is what reaches the file *)
Lemma w_flush_b q fl n ino B : quiet q ->
  exists q', w_flush (fw q fl) (bwr n ino B)
             = (negb (fst (wr_pop (concat B) fl)), fw q' (snd (wr_pop (concat B) fl)),
                bwr n ino (if fst (wr_pop (concat B) fl) then B else []))
    /\ same_env q q'
    /\ wfs q' = append_ino (wfs q) ino (if fst (wr_pop (concat B) fl) then [] else concat B).
Proof.
  intros Q. unfold w_flush, bwr. cbn [wino wpend wcap].
  destruct (p_write_fw q fl ino (concat B) Q) as [q' [E [S F]]]. rewrite E.
  exists q'. destruct (fst (wr_pop (concat B) fl)); cbn [negb].
  - split; [reflexivity|]. split; [exact S|]. rewrite append_ino_nil_id. exact F.
  - split; [reflexivity|]. split; [exact S | exact F].
Qed.

(* write_all *)
Lemma w_write_sb q fl n ino F B b : quiet q -> length (concat B) <= n ->
  let out := sb_write n F B b fl in
  exists q' F' B' delta,
    o_st out = BOpen F' B' /\ concat F' = concat F ++ delta /\ length (concat B') <= n
    /\ w_write (fw q fl) (bwr n ino B) b
       = (match o_errs out with [] => true | _ => false end, fw q' (o_fl out), bwr n ino B')
    /\ same_env q q' /\ wfs q' = append_ino (wfs q) ino delta
    /\ (o_errs out = [] \/ o_errs out = [EWrite])
    /\ o_code out = 0%N.
Proof.
  intros Q HB. cbv zeta. unfold w_write, sb_write. cbn [bwr wcap wpend wino].
  destruct (length b <? n - length (concat B)) eqn:E1.
  - (* fits *)
    exists q, F, (B ++ [b]), []. cbn [o_st o_errs o_fl o_code]. rewrite app_nil_r, append_ino_nil_id.
    split; [reflexivity|]. split; [reflexivity|]. split; [rewrite concat_snoc, app_length; lia|].
    split; [unfold bwr; rewrite concat_snoc; reflexivity|]. split; [apply same_env_refl; exact Q|]. auto.
  - destruct (n - length (concat B) <? length b) eqn:E2.
    + (* flush first *)
      destruct (w_flush_b q fl n ino B Q) as [q1 [Ef [S1 F1]]]. rewrite Ef.
      destruct (wr_pop (concat B) fl) as [ff fl1]. cbn [fst snd negb] in *. destruct ff; cbn [negb].
      * (* the flush fails *)
        exists q1, F, B, []. cbn [o_st o_errs o_fl o_code]. rewrite app_nil_r.
        split; [reflexivity|]. split; [reflexivity|]. split; [exact HB|]. split; [reflexivity|]. split; [exact S1|]. auto.
      * cbn [bwr wino wpend wcap concat].
        destruct (n <=? length b) eqn:E3.
        -- (* written directly *)
           destruct (p_write_fw q1 fl1 ino b (proj1 S1)) as [q2 [Ew [S2 F2]]]. rewrite Ew.
           destruct (wr_pop b fl1) as [fw2 fl2]. cbn [fst snd negb] in *. destruct fw2; cbn [negb].
           ++ exists q2, (F ++ B), [], (concat B). cbn [o_st o_errs o_fl o_code concat length].
              split; [reflexivity|]. split; [apply concat_app|]. split; [lia|]. split; [reflexivity|].
              split; [eapply same_env_trans; eassumption|]. split; [rewrite F2; exact F1|]. auto.
           ++ exists q2, ((F ++ B) ++ [] ++ [b]), [], (concat B ++ b). cbn [o_st o_errs o_fl o_code concat length app].
              split; [reflexivity|]. split; [rewrite concat_snoc, concat_app, app_assoc; reflexivity|]. split; [lia|].
              split; [reflexivity|]. split; [eapply same_env_trans; eassumption|].
              split; [rewrite F2, F1, append_ino_app; reflexivity|]. auto.
        -- (* into the empty buffer *)
           exists q1, (F ++ B), ([] ++ [b]), (concat B). cbn [o_st o_errs o_fl o_code concat length app]. rewrite app_nil_r.
           split; [reflexivity|]. split; [apply concat_app|]. split; [lia|].
           split; [unfold bwr; cbn [concat]; rewrite app_nil_r; reflexivity|].
           split; [exact S1|]. split; [exact F1|]. auto.
    + (* no flush: the record fills the buffer exactly, or the buffer is empty and the record is written directly *)
      cbv beta iota. cbn [bwr wino wpend wcap].
      destruct (n <=? length b) eqn:E3.
      * assert (HB0 : concat B = []) by (destruct (concat B); [reflexivity | cbn [length] in *; lia]).
        destruct (p_write_fw q fl ino b Q) as [q2 [Ew [S2 F2]]]. rewrite Ew.
        destruct (wr_pop b fl) as [fw2 fl2]. cbn [fst snd negb] in *. destruct fw2; cbn [negb].
        -- exists q2, F, B, []. cbn [o_st o_errs o_fl o_code]. rewrite app_nil_r, append_ino_nil_id.
           split; [reflexivity|]. split; [reflexivity|]. split; [exact HB|]. split; [reflexivity|]. split; [exact S2|]. auto.
        -- exists q2, (F ++ B ++ [b]), [], b. cbn [o_st o_errs o_fl o_code concat length].
           split; [reflexivity|]. split; [rewrite !concat_app, HB0; cbn [concat app]; rewrite app_nil_r; reflexivity|].
           split; [lia|]. split; [unfold bwr; rewrite HB0; reflexivity|]. split; [exact S2|]. auto.
      * exists q, F, (B ++ [b]), []. cbn [o_st o_errs o_fl o_code]. rewrite app_nil_r, append_ino_nil_id.
        split; [reflexivity|]. split; [reflexivity|]. split; [rewrite concat_snoc, app_length; lia|].
        split; [unfold bwr; rewrite concat_snoc; reflexivity|]. split; [apply same_env_refl; exact Q|]. auto.
Qed.

Section Buf.
Variables (c : config) (n : nat).
Hypothesis Hcfg : bufcfg c n.

(* the state of an initialised writer whose buffer holds B *)
Definition ost (ino : nat) (B : list bytes) (path : bytes) : flw := mkflw c (Active None (bwr n ino B) path).

(* the file of the writer holds the records F *)
Definition OInv (q : world) (ino : nat) (F : list bytes) : Prop :=
  quiet q /\ fs_wf (wfs q) /\ lookup (wfs q) (the_name c) = Some ino /\ content (wfs q) ino = concat F.

Lemma oinv_append q q' ino F F' delta :
  OInv q ino F -> quiet q' -> wfs q' = append_ino (wfs q) ino delta -> concat F' = concat F ++ delta -> OInv q' ino F'.
Proof.
  intros [Q [W [L C]]] Q' Hf Hc. unfold OInv. rewrite Hf. split; [exact Q'|]. split; [apply wf_append; exact W|].
  split; [rewrite lookup_append; exact L|].
  rewrite content_append by (eapply wf_bound; eassumption). rewrite Nat.eqb_refl, C, Hc. reflexivity.
Qed.

Definition BInv (x : sys) (st : bst) (errs : list ecode) (fl : list bool) : Prop :=
  match st with
  | BClosed => exists q, x = mksys (mkflw c Initial) (fw q fl) /\ quiet q /\ fs_wf (wfs q)
                         /\ lookup (wfs q) (the_name c) = None /\ werrs q = errs
  | BOpen F B => exists q ino path, x = mksys (ost ino B path) (fw q fl) /\ OInv q ino F /\ werrs q = errs
                                    /\ length (concat B) <= n
  | BStopped F => exists q, x = {| s_flw := None; s_w := fw q fl; s_tl := []; s_dead := false |} /\ quiet q
                            /\ content_of (wfs q) (the_name c) = concat F /\ werrs q = errs
  end.

(* ---- the log call ---- *)
Lemma wb_open wr path w b :
  write_buffer (mkflw c (Active None wr path)) w b
  = let '(ok, w3, wr') := w_write w wr b in ((if ok then Ok tt else Err), w3, mkflw c (Active None wr' path), false).
Proof.
  unfold write_buffer, mkflw. cbn [f_inner f_cfg mount_next]. destruct (w_write w wr b) as [[ok w3] wr']. destruct ok; reflexivity.
Qed.

Lemma step_sync_b i w o : step (mksys (mkflw c i) w) o = sync_step (mksys (mkflw c i) w) o.
Proof. destruct Hcfg as (_ & _ & Ha & _ & Hts). apply (step_sync_cfg (mksys (mkflw c i) w) o (mkflw c i)); [reflexivity | exact Hts | exact Ha]. Qed.

Lemma step_write_b i w b r w1 i1 rot :
  write_buffer (mkflw c i) w b = (r, w1, mkflw c i1, rot) -> r <> Panic ->
  step (mksys (mkflw c i) w) (OWrite b)
  = (mksys (mkflw c i1) (match r with Err => report EWrite w1 | _ => w1 end), ObsRes 0 rot).
Proof.
  intros E Hr. rewrite step_sync_b. unfold sync_step. cbn [mksys s_flw s_w s_tl s_dead mkflw f_poisoned app].
  fold (mkflw c i). rewrite E. destruct r; [reflexivity | reflexivity | contradiction].
Qed.

Lemma step_write_eq i w i' w' b :
  write_buffer (mkflw c i) w b = write_buffer (mkflw c i') w' b ->
  step (mksys (mkflw c i) w) (OWrite b) = step (mksys (mkflw c i') w') (OWrite b).
Proof.
  intros E. rewrite !step_sync_b. unfold sync_step. cbn [mksys s_flw s_w s_tl s_dead mkflw f_poisoned app].
  fold (mkflw c i) (mkflw c i'). rewrite E. reflexivity.
Qed.

Lemma open_write q fl ino F B path errs b : OInv q ino F -> werrs q = errs -> length (concat B) <= n ->
  let out := sb_write n F B b fl in
  exists x', step (mksys (ost ino B path) (fw q fl)) (OWrite b) = (x', ObsRes (o_code out) false)
             /\ BInv x' (o_st out) (errs ++ o_errs out) (o_fl out).
Proof.
  intros I He HB. cbv zeta.
  destruct (w_write_sb q fl n ino F B b (proj1 I) HB) as [q' [F' [B' [delta [Est [Hc [HB' [Ew [S [Hf [Herr Hcode]]]]]]]]]]].
  cbv zeta in *. rewrite Est, Hcode.
  assert (I' : OInv q' ino F') by (eapply oinv_append; [exact I | apply S | exact Hf | exact Hc]).
  assert (He' : werrs q' = errs) by (destruct S as [_ [_ [_ [E _]]]]; congruence).
  pose proof (wb_open (bwr n ino B) path (fw q fl) b) as Wb. rewrite Ew in Wb.
  destruct Herr as [Hr | Hr]; rewrite Hr in Wb |- *; cbv beta iota zeta in Wb.
  - eexists. split; [unfold ost; rewrite (step_write_b _ _ _ _ _ _ _ Wb) by discriminate; reflexivity|].
    rewrite app_nil_r. exists q', ino, path. auto.
  - eexists. split; [unfold ost; rewrite (step_write_b _ _ _ _ _ _ _ Wb) by discriminate; reflexivity|].
    cbv beta iota. rewrite report_fw by apply I'. destruct (report_reported EWrite q' (proj1 I')) as [R Fs].
    exists (report EWrite q'), ino, path. split; [reflexivity|].
    split; [destruct I' as [_ [W [L C]]]; unfold OInv; rewrite Fs; split; [apply R | auto]|].
    split; [destruct R as [_ [_ [_ [E _]]]]; rewrite E, He'; reflexivity | exact HB'].
Qed.

(* ---- the first log call: the file is opened ---- *)
Lemma wb_closed q fl b : quiet q -> lookup (wfs q) (the_name c) = None ->
  let op := if c_append c then open_append (wfs q) (the_name c) (wnow q) else open_trunc (wfs q) (the_name c) 0%N (wnow q) in
  write_buffer (mkflw c Initial) (fw q fl) b =
  if fst (pop fl) then (Err, fw q (snd (pop fl)), mkflw c Initial, false)
  else write_buffer (ost (snd op) [] (the_name c)) (fw (set_fs q (fst op)) (snd (pop fl))) b.
Proof.
  intros Q L. cbv zeta. destruct Hcfg as (Hrot & Hcap & Ha & Hsym & Hts).
  unfold write_buffer at 1. cbn [mkflw f_inner f_cfg]. unfold initialize. rewrite Hrot.
  unfold open_log_file, do_symlink. rewrite Hsym, name_plain by exact Hts. rewrite p_open_fw by exact Q.
  destruct (pop fl) as [f fl1]. cbn [fst snd]. destruct f; [reflexivity|].
  unfold file_of at 1. rewrite L. cbn [bind fst snd]. rewrite Hcap.
  unfold write_buffer, ost, mkflw, bwr. cbn [f_inner f_cfg concat]. reflexivity.
Qed.

Lemma closed_write x errs fl b : BInv x BClosed errs fl ->
  let out := sb_step n BClosed (OWrite b) fl in
  exists x', step x (OWrite b) = (x', ObsRes (o_code out) false) /\ BInv x' (o_st out) (errs ++ o_errs out) (o_fl out).
Proof.
  intros [q [-> [Q [W [L E]]]]]. cbv zeta. cbn [sb_step].
  pose proof (wb_closed q fl b Q L) as Wb. cbv zeta in Wb.
  set (op := if c_append c then open_append (wfs q) (the_name c) (wnow q) else open_trunc (wfs q) (the_name c) 0%N (wnow q)) in *.
  assert (OP : fs_wf (fst op) /\ lookup (fst op) (the_name c) = Some (snd op) /\ content (fst op) (snd op) = []).
  { unfold op. destruct (c_append c).
    - pose proof (open_append_spec (wfs q) (the_name c) (wnow q) W) as S.
      destruct (open_append (wfs q) (the_name c) (wnow q)) as [f' i].
      destruct S as (S_wf & S_l & _ & _ & _ & _ & S_new & _). destruct (S_new L) as [_ S_c]. auto.
    - pose proof (open_trunc_spec (wfs q) (the_name c) 0%N (wnow q) W) as S.
      destruct (open_trunc (wfs q) (the_name c) 0%N (wnow q)) as [f' i].
      destruct S as (S_wf & S_l & _ & S_c & _). auto. }
  destruct (pop fl) as [f fl1]. cbn [fst snd] in Wb. destruct f.
  - (* the open fails *)
    eexists. split; [rewrite (step_write_b _ _ _ _ _ _ _ Wb) by discriminate; reflexivity|].
    cbn [o_st o_errs o_fl]. rewrite report_fw by exact Q. destruct (report_reported EWrite q Q) as [R Fs].
    exists (report EWrite q). split; [reflexivity|]. split; [apply R|]. rewrite Fs. split; [exact W|]. split; [exact L|].
    destruct R as [_ [_ [_ [E' _]]]]. rewrite E', E. reflexivity.
  - rewrite (step_write_eq _ _ _ _ _ Wb).
    apply (open_write (set_fs q (fst op)) fl1 (snd op) [] [] (the_name c) errs b).
    + destruct OP as [O1 [O2 O3]]. split; [apply quiet_set_fs; exact Q|]. cbn [set_fs wfs concat]. auto.
    + exact E.
    + cbn. lia.
Qed.

(* ---- flush, shutdown, drop ---- *)
(* one attempt to flush in terms of the invariant: it fails (f) and everything stays, or the buffer reaches the file *)
Lemma flush_inv q fl ino F B : OInv q ino F ->
  exists q', w_flush (fw q fl) (bwr n ino B)
             = (negb (fst (wr_pop (concat B) fl)), fw q' (snd (wr_pop (concat B) fl)),
                bwr n ino (if fst (wr_pop (concat B) fl) then B else []))
    /\ OInv q' ino (if fst (wr_pop (concat B) fl) then F else F ++ B) /\ werrs q' = werrs q.
Proof.
  intros I. destruct (w_flush_b q fl n ino B (proj1 I)) as [q' [E [S Fs]]]. exists q'. split; [exact E|].
  split; [|destruct S as [_ [_ [_ [Ee _]]]]; exact Ee].
  eapply oinv_append; [exact I | apply S | exact Fs|].
  destruct (fst (wr_pop (concat B) fl)); [rewrite app_nil_r; reflexivity | apply concat_app].
Qed.

Lemma shutdown_inv q fl ino F B path : OInv q ino F ->
  exists q', shutdown_state (ost ino B path) (fw q fl)
             = (fw q' (snd (wr_pop (concat B) fl)), ost ino (if fst (wr_pop (concat B) fl) then B else []) path)
    /\ OInv q' ino (if fst (wr_pop (concat B) fl) then F else F ++ B)
    /\ werrs q' = werrs q ++ (if fst (wr_pop (concat B) fl) then [EFlush] else []).
Proof.
  intros I. destruct (flush_inv q fl ino F B I) as [q1 [E [I1 Ee]]].
  unfold shutdown_state, ost, mkflw. cbn [f_inner]. unfold drain_acts. rewrite E.
  destruct (fst (wr_pop (concat B) fl)); cbn [negb with_inner f_cfg f_poisoned].
  - rewrite report_fw by apply I1. destruct (report_reported EFlush q1 (proj1 I1)) as [R Fs].
    exists (report EFlush q1). split; [reflexivity|].
    split; [destruct I1 as [_ [W [L C]]]; unfold OInv; rewrite Fs; split; [apply R | auto]|].
    destruct R as [_ [_ [_ [E' _]]]]. rewrite E', Ee. reflexivity.
  - exists q1. split; [reflexivity|]. split; [exact I1|]. rewrite app_nil_r. exact Ee.
Qed.

Lemma oinv_content q ino F : OInv q ino F -> content_of (wfs q) (the_name c) = concat F.
Proof. intros [_ [_ [L C]]]. unfold content_of, file_of. rewrite L. exact C. Qed.

Lemma open_flush q fl ino F B path errs : OInv q ino F -> werrs q = errs -> length (concat B) <= n ->
  let out := sb_flush F B fl [] 1 in
  exists x', step (mksys (ost ino B path) (fw q fl)) OFlush = (x', ObsRes (o_code out) false)
             /\ BInv x' (o_st out) (errs ++ o_errs out) (o_fl out).
Proof.
  intros I He HB. cbv zeta. unfold ost at 1. rewrite step_sync_b. unfold sync_step.
  cbn [mksys s_flw s_w s_tl s_dead mkflw f_poisoned]. unfold flush_state, mkflw. cbn [f_inner].
  destruct (flush_inv q fl ino F B I) as [q1 [E [I1 Ee]]]. rewrite E. unfold sb_flush.
  destruct (wr_pop (concat B) fl) as [f fl1]. cbn [fst snd] in *.
  destruct f; cbn [negb o_st o_errs o_fl o_code with_inner f_cfg f_poisoned]; rewrite app_nil_r; eexists; (split; [reflexivity|]).
  - exists q1, ino, path. split; [reflexivity|]. split; [exact I1|]. split; [congruence | exact HB].
  - exists q1, ino, path. split; [reflexivity|]. split; [exact I1|]. split; [congruence | cbn; lia].
Qed.

Lemma open_shutdown q fl ino F B path errs : OInv q ino F -> werrs q = errs -> length (concat B) <= n ->
  let out := sb_flush F B fl [EFlush] 0 in
  exists x', step (mksys (ost ino B path) (fw q fl)) OShutdown = (x', ObsRes (o_code out) false)
             /\ BInv x' (o_st out) (errs ++ o_errs out) (o_fl out).
Proof.
  intros I He HB. cbv zeta. unfold ost at 1. rewrite step_sync_b. unfold sync_step.
  cbn [mksys s_flw s_w s_tl s_dead mkflw f_poisoned]. fold (mkflw c (Active None (bwr n ino B) path)). fold (ost ino B path).
  destruct (shutdown_inv q fl ino F B path I) as [q1 [E [I1 Ee]]]. rewrite E. unfold sb_flush.
  destruct (wr_pop (concat B) fl) as [f fl1]. cbn [fst snd] in *.
  destruct f; cbn [o_st o_errs o_fl o_code]; eexists; (split; [reflexivity|]).
  - exists q1, ino, path. split; [reflexivity|]. split; [exact I1|]. split; [congruence | exact HB].
  - exists q1, ino, path. split; [reflexivity|]. split; [exact I1|]. split; [congruence | cbn; lia].
Qed.

Lemma open_stop q fl ino F B path errs : OInv q ino F -> werrs q = errs ->
  let out := sb_stop F B fl in
  exists x', step (mksys (ost ino B path) (fw q fl)) OStop = (x', ObsRes (o_code out) false)
             /\ BInv x' (o_st out) (errs ++ o_errs out) (o_fl out).
Proof.
  intros I He. cbv zeta. unfold ost at 1. rewrite step_sync_b. unfold sync_step.
  cbn [mksys s_flw s_w s_tl s_dead mkflw f_poisoned]. fold (mkflw c (Active None (bwr n ino B) path)). fold (ost ino B path).
  unfold drop_state, sb_stop.
  assert (Fin : forall q3 fl3 F3 e3, OInv q3 ino F3 -> werrs q3 = errs ++ e3 ->
            BInv {| s_flw := None; s_w := fw q3 fl3; s_tl := []; s_dead := false |} (BStopped F3) (errs ++ e3) fl3).
  { intros q3 fl3 F3 e3 I3 E3. exists q3. split; [reflexivity|]. split; [apply I3|]. split; [apply oinv_content with ino; exact I3 | exact E3]. }
  (* first shutdown *)
  destruct (shutdown_inv q fl ino F B path I) as [q1 [E1 [I1 Ee1]]]. rewrite E1.
  destruct (wr_pop (concat B) fl) as [f1 fl1]. cbn [fst snd] in *. destruct f1; cbn [negb].
  - (* second shutdown *)
    destruct (shutdown_inv q1 fl1 ino F B path I1) as [q2 [E2 [I2 Ee2]]]. rewrite E2.
    destruct (wr_pop (concat B) fl1) as [f2 fl2]. cbn [fst snd] in *. destruct f2; cbn [negb].
    + (* the drop of the BufWriter *)
      destruct (flush_inv q2 fl2 ino F B I2) as [q3 [E3 [I3 Ee3]]].
      unfold ost, mkflw. cbn [f_inner]. unfold w_drop. rewrite E3. cbn [fst snd].
      destruct (wr_pop (concat B) fl2) as [f3 fl3]. cbn [fst snd] in *.
      destruct f3; cbn [negb o_st o_errs o_fl o_code]; eexists; (split; [reflexivity|]);
        (apply Fin; [exact I3 | rewrite Ee3, Ee2, Ee1, He, <- app_assoc; reflexivity]).
    + destruct (flush_inv q2 fl2 ino (F ++ B) [] I2) as [q3 [E3 [I3 Ee3]]].
      unfold ost, mkflw. cbn [f_inner]. unfold w_drop. rewrite E3. cbn [fst snd concat wr_pop] in *.
      cbn [o_st o_errs o_fl o_code]. eexists. split; [reflexivity|]. rewrite app_nil_r in I3.
      apply Fin; [exact I3 | rewrite Ee3, Ee2, Ee1, He, app_nil_r; reflexivity].
  - destruct (shutdown_inv q1 fl1 ino (F ++ B) [] path I1) as [q2 [E2 [I2 Ee2]]]. rewrite E2.
    cbn [fst snd concat wr_pop] in *. rewrite app_nil_r in I2.
    destruct (flush_inv q2 fl1 ino (F ++ B) [] I2) as [q3 [E3 [I3 Ee3]]].
    unfold ost, mkflw. cbn [f_inner]. unfold w_drop. rewrite E3. cbn [fst snd concat wr_pop] in *.
    cbn [o_st o_errs o_fl o_code]. eexists. split; [reflexivity|]. rewrite !app_nil_r in I3.
    apply Fin; [exact I3 | rewrite Ee3, Ee2, Ee1, He, !app_nil_r; reflexivity].
Qed.

(* ---- one operation, whole histories ---- *)
Theorem bstep x st errs fl o : bop_stop o -> BInv x st errs fl ->
  let out := sb_step n st o fl in
  exists x', step x o = (x', ObsRes (o_code out) false) /\ BInv x' (o_st out) (errs ++ o_errs out) (o_fl out).
Proof.
  intros Ho I. cbv zeta. destruct st as [|F B|F].
  - destruct o; try contradiction.
    + apply closed_write. exact I.
    + destruct I as [q [-> R]]. cbn [sb_step o_st o_errs o_fl o_code]. eexists. split; [rewrite step_sync_b; reflexivity|].
      rewrite app_nil_r. exists q. split; [reflexivity | exact R].
    + destruct I as [q [-> R]]. cbn [sb_step o_st o_errs o_fl o_code]. eexists. split; [rewrite step_sync_b; reflexivity|].
      rewrite app_nil_r. exists q. split; [reflexivity | exact R].
    + destruct I as [q [-> [Q [W [L E]]]]]. cbn [sb_step o_st o_errs o_fl o_code]. eexists. split; [rewrite step_sync_b; reflexivity|].
      rewrite app_nil_r. exists q. split; [reflexivity|]. split; [exact Q|]. split; [|exact E].
      unfold content_of, file_of. rewrite L. reflexivity.
  - destruct I as [q [ino [path [-> [I [E HB]]]]]].
    destruct o; try contradiction; cbn [sb_step]; [apply open_write | apply open_flush | apply open_shutdown | apply open_stop]; assumption.
  - destruct I as [q [-> R]]. cbn [sb_step o_st o_errs o_fl o_code]. rewrite app_nil_r.
    destruct o; try contradiction; (eexists; split; [reflexivity|]; exists q; split; [reflexivity | exact R]).
Qed.

Theorem brun : forall ops x st errs fl, Forall bop_stop ops -> BInv x st errs fl ->
  let '(st', e, fl', codes, _) := simb_run n st fl ops in
  exists x', run x ops = (x', List.map (fun k => ObsRes k false) codes) /\ BInv x' st' (errs ++ e) fl'.
Proof.
  induction ops as [|o rest IH]; intros x st errs fl Hb I; cbn [simb_run run].
  - exists x. rewrite app_nil_r. split; [reflexivity | exact I].
  - inversion Hb as [|o' r' Ho Hr]; subst o' r'.
    destruct (bstep x st errs fl o Ho I) as [x1 [S1 I1]]. cbv zeta in S1, I1.
    specialize (IH x1 _ _ _ Hr I1).
    destruct (simb_run n (o_st (sb_step n st o fl)) (o_fl (sb_step n st o fl)) rest) as [[[[st2 e2] fl2] c2] l2].
    destruct IH as [x2 [R2 I2]]. exists x2. rewrite S1, R2. cbn [List.map]. split; [reflexivity|].
    rewrite app_assoc. exact I2.
Qed.

Definition pend_of (x : sys) : option bytes :=
  match s_flw x with
  | Some s => match f_inner s with Active _ wr _ => Some (wpend wr) | Initial => None end
  | None => None
  end.
Definition pend_bytes (x : sys) : bytes := match pend_of x with Some p => p | None => [] end.

Lemma binv_final x st errs fl : BInv x st errs fl ->
  content_of (wfs (s_w x)) (the_name c) = concat (st_file st)
  /\ pend_of x = (match st with BOpen _ B => Some (concat B) | _ => None end)
  /\ werrs (s_w x) = errs /\ wfaults (s_w x) = fl.
Proof.
  destruct st as [|F B|F]; cbn [BInv st_file].
  - intros [q [-> [Q [W [L E]]]]]. cbn [mksys s_w fw set_faults wfs werrs wfaults].
    unfold content_of, file_of. rewrite L. auto.
  - intros [q [ino [path [-> [I [E HB]]]]]]. cbn [mksys s_w fw set_faults wfs werrs wfaults].
    rewrite (oinv_content q ino F I). auto.
  - intros [q [-> [Q [C E]]]]. cbn [s_w fw set_faults wfs werrs wfaults]. auto.
Qed.

Lemma binv_start t0 off fl : BInv (fst (step (fsys t0 off fl) (OStart c))) BClosed [] fl.
Proof.
  exists (world0 t0 off). split; [reflexivity|]. split; [split; reflexivity|]. split; [apply wf_empty|]. split; reflexivity.
Qed.

End Buf.

(* ------------------------------------------------------------------ the theorems *)
Lemma run_start c t0 off fl ops :
  run (fsys t0 off fl) (OStart c :: ops)
  = let '(x2, obs) := run (fst (step (fsys t0 off fl) (OStart c))) ops in (x2, ObsRes 0 false :: obs).
Proof. reflexivity. Qed.

(* (1) For every fault oracle fl and every history ops of log calls, flushes, shutdowns and drops of a buffered writer
   without rotation: after  OStart c :: ops  from the empty directory with the oracle fl, the log file holds exactly the
   records simb_run lists as written, the BufWriter holds exactly those it lists as buffered (no writer: after the drop,
   or before the first successful open), the error channel holds exactly the errors it lists (codes, order), the oracle
   is consumed as it says, and every call returns what it says: 0 for every log call, shutdown and drop whatever
   fails (no panic, no error result); 1 for a flush() whose write fails (nothing is put on the error channel then);
   3 for calls after the drop. *)
Theorem faults_buffered c n t0 off fl ops :
  bufcfg c n -> Forall bop_stop ops ->
  let r := run (fsys t0 off fl) (OStart c :: ops) in
  let '(st, errs, rest, codes, _) := simb_run n BClosed fl ops in
  content_of (wfs (s_w (fst r))) (the_name c) = concat (st_file st)
  /\ pend_of (fst r) = (match st with BOpen _ B => Some (concat B) | _ => None end)
  /\ werrs (s_w (fst r)) = errs
  /\ wfaults (s_w (fst r)) = rest
  /\ snd r = ObsRes 0 false :: List.map (fun k => ObsRes k false) codes.
Proof.
  intros Hcfg Hb. cbv zeta. rewrite run_start.
  pose proof (brun c n Hcfg ops _ _ _ _ Hb (binv_start c n t0 off fl)) as R.
  destruct (simb_run n BClosed fl ops) as [[[[st e] fl'] codes] lost].
  destruct R as [x' [R I]]. rewrite R. cbn [fst snd app] in *.
  destruct (binv_final c n x' st e fl' I) as [H1 [H2 [H3 H4]]]. auto.
Qed.
Print Assumptions faults_buffered.

(* the same in the form (file content, buffer content, error list, remaining oracle) *)
Corollary faults_buffered_simb c n t0 off fl ops :
  bufcfg c n -> Forall bop_stop ops ->
  let x := fst (run (fsys t0 off fl) (OStart c :: ops)) in
  (content_of (wfs (s_w x)) (the_name c), pend_bytes x, werrs (s_w x), wfaults (s_w x)) = simb n fl ops.
Proof.
  intros Hcfg Hb. cbv zeta. pose proof (faults_buffered c n t0 off fl ops Hcfg Hb) as T. cbv zeta in T. unfold simb.
  destruct (simb_run n BClosed fl ops) as [[[[st e] fl'] codes] lost]. destruct T as [H1 [H2 [H3 [H4 _]]]].
  unfold pend_bytes. rewrite H1, H2, H3, H4. destruct st; reflexivity.
Qed.

(* every log call returns normally *)
Corollary buffered_calls_return c n t0 off fl ops :
  bufcfg c n -> Forall bop_stop ops ->
  forall i b, nth_error ops i = Some (OWrite b) ->
    exists k, nth_error (snd (run (fsys t0 off fl) (OStart c :: ops))) (S i) = Some (ObsRes k false) /\ (k = 0%N \/ k = 3%N).
Proof.
  intros Hcfg Hb i b Hi. pose proof (faults_buffered c n t0 off fl ops Hcfg Hb) as T. cbv zeta in T.
  pose proof (simb_trace n ops BClosed fl Hb) as Tr.
  destruct (simb_run n BClosed fl ops) as [[[[st e] fl'] codes] lost]. destruct T as [_ [_ [_ [_ ->]]]].
  cbv zeta in Tr. destruct Tr as [T1 [_ [_ [_ [T5 _]]]]]. cbn [nth_error]. rewrite nth_error_map.
  assert (Hx : exists x, nth_error (btrace n BClosed fl ops) i = Some x /\ t_op x = OWrite b).
  { rewrite <- T1 in Hi. rewrite nth_error_map in Hi. destruct (nth_error (btrace n BClosed fl ops) i) as [x|]; [|discriminate].
    injection Hi as Hi. eauto. }
  destruct Hx as [x [Hx Hop]]. rewrite T5, nth_error_map, Hx. cbn [option_map]. eexists. split; [reflexivity|].
  (* the code of a log call *)
  assert (G : forall ops' st' fl0, In x (btrace n st' fl0 ops') -> o_code (t_out x) = 0%N \/ o_code (t_out x) = 3%N).
  { induction ops' as [|o r IH]; intros st' fl0; cbn [btrace]; [intros []|]. intros [<-|Hin]; [|eapply IH; exact Hin].
    cbn [t_out t_op] in *. subst o. destruct st' as [|F B|F]; cbn [sb_step].
    - destruct (pop fl0) as [f fl1]. destruct f; [left; reflexivity|].
      destruct (w_write_sb (world0 0 0) fl1 n 0 [] [] b (conj eq_refl eq_refl)) as [_ [_ [_ [_ [_ [_ [_ [_ [_ [_ [_ H]]]]]]]]]]]; [cbn; lia|].
      left. exact H.
    - destruct (Nat.le_gt_cases (length (concat B)) n) as [HB|HB].
      + destruct (w_write_sb (world0 0 0) fl0 n 0 F B b (conj eq_refl eq_refl) HB) as [_ [_ [_ [_ [_ [_ [_ [_ [_ [_ [_ H]]]]]]]]]]].
        left. exact H.
      + left. unfold sb_write.
        repeat match goal with
               | |- context [if ?c then _ else _] => destruct c
               | |- context [let '(_, _) := ?p in _] => destruct p
               end; reflexivity.
    - right. reflexivity. }
  apply (G ops BClosed fl). eapply nth_error_In. exact Hx.
Qed.

(* (2) the loss is bounded and announced.  A history of log calls, flushes and shutdowns ended by the drop of the
   writer.  With t the list of operations as the specification traces them (operation, state before, outcome, oracle
   entries consumed): the file holds the concatenation of `kept`, a subsequence of the records (in order, nothing
   duplicated); exactly the other records are lost (counted); the error channel holds the reports of the operations,
   the consumed entries partition the consumed part of the oracle; and for every operation (entry_ok): it reports at
   most as many errors as calls of it failed, without a failing call it reports and loses nothing and returns 0,
   whatever it loses it has reported, a record it loses is its own incoming record (log call) or was in the buffer
   when the last attempt of the drop failed, and what was in the file before is still there.  The number of
   operations that lose something is at most the number of reports. *)
Theorem buffered_loss_bounded c n t0 off fl ops :
  bufcfg c n -> Forall bop ops ->
  let x := fst (run (fsys t0 off fl) (OStart c :: ops ++ [OStop])) in
  let t := btrace n BClosed fl (ops ++ [OStop]) in
  let lost := concat (List.map (fun e => o_lost (t_out e)) t) in
  exists kept,
    content_of (wfs (s_w x)) (the_name c) = concat kept
    /\ Subseq kept (recs_of ops)
    /\ length (recs_of ops) = length kept + length lost
    /\ List.map t_op t = ops ++ [OStop]
    /\ werrs (s_w x) = concat (List.map (fun e => o_errs (t_out e)) t)
    /\ fl = concat (List.map t_usedb t) ++ wfaults (s_w x)
    /\ Forall entry_ok t
    /\ length (filter loses t) <= length (werrs (s_w x)).
Proof.
  intros Hcfg Hb. cbv zeta.
  assert (Hbs : Forall bop_stop (ops ++ [OStop])).
  { apply Forall_app. split; [|constructor; [exact I | constructor]].
    eapply Forall_impl; [|exact Hb]. intros o Ho. destruct o; try contradiction; exact I. }
  pose proof (faults_buffered c n t0 off fl (ops ++ [OStop]) Hcfg Hbs) as T. cbv zeta in T.
  pose proof (buffered_loss_bounded_spec n fl ops Hb) as L.
  destruct (simb_run n BClosed fl (ops ++ [OStop])) as [[[[st e] fl'] codes] lost]. cbv zeta in L.
  destruct T as [H1 [_ [H3 [H4 _]]]]. destruct L as [kept [-> [L1 [L2 [L3 [L4 [L5 [L6 [L7 L8]]]]]]]]].
  exists kept. rewrite H1, H3, H4, <- L5, <- L4. cbn [st_file]. auto 10.
Qed.
Print Assumptions buffered_loss_bounded.

(* before the drop: the records in the file followed by those in the buffer are the records of the history without the
   lost ones, in order; each lost record is the incoming record of a log call and is announced by one EWrite *)
Theorem buffered_accepted c n t0 off fl ops :
  bufcfg c n -> Forall bop ops ->
  let x := fst (run (fsys t0 off fl) (OStart c :: ops)) in
  exists F B,
    content_of (wfs (s_w x)) (the_name c) = concat F /\ pend_bytes x = concat B
    /\ Subseq (F ++ B) (recs_of ops)
    /\ length (recs_of ops) = length (F ++ B) + nlost (werrs (s_w x))
    /\ nlost (werrs (s_w x)) <= length (werrs (s_w x)).
Proof.
  intros Hcfg Hb. cbv zeta.
  assert (Hbs : Forall bop_stop ops) by (eapply Forall_impl; [|exact Hb]; intros o Ho; destruct o; try contradiction; exact I).
  pose proof (faults_buffered c n t0 off fl ops Hcfg Hbs) as T. cbv zeta in T.
  pose proof (simb_run_records n ops BClosed fl I Hb) as R.
  destruct (simb_run n BClosed fl ops) as [[[[st e] fl'] codes] lost].
  destruct T as [H1 [H2 [H3 _]]]. destruct R as [_ [kept [used [add [K1 [K2 [K3 [K4 [K5 _]]]]]]]]].
  exists (st_file st), (st_buf st). rewrite H1, H3. split; [reflexivity|].
  split; [unfold pend_bytes; rewrite H2; destruct st; reflexivity|].
  unfold st_all in K2. cbn [st_file st_buf app] in K2. subst kept. split; [exact K1|]. split; [rewrite <- K5; exact K4 | apply nlost_le].
Qed.
Print Assumptions buffered_accepted.

(* (3) recovery.  A history ops1 after which the rest of the oracle holds no failure any more, continued by any ops2
   and a final flush / shutdown / drop: nothing more is reported, and the file holds what it held after ops1, then what
   the buffer held after ops1, then ALL records of ops2, in order; the buffer is empty *)
Theorem buffered_recovery_run c n t0 off fl ops1 ops2 f :
  bufcfg c n -> Forall bop ops1 -> Forall bop ops2 -> final_op f ->
  let x1 := fst (run (fsys t0 off fl) (OStart c :: ops1)) in
  let x2 := fst (run (fsys t0 off fl) (OStart c :: ops1 ++ ops2 ++ [f])) in
  all_false (wfaults (s_w x1)) ->
  content_of (wfs (s_w x2)) (the_name c)
    = content_of (wfs (s_w x1)) (the_name c) ++ pend_bytes x1 ++ concat (recs_of ops2)
  /\ pend_bytes x2 = []
  /\ werrs (s_w x2) = werrs (s_w x1)
  /\ all_false (wfaults (s_w x2)).
Proof.
  intros Hcfg H1 H2 Hfin. cbv zeta.
  assert (Up : forall l, Forall bop l -> Forall bop_stop l)
    by (intros l Hl; eapply Forall_impl; [|exact Hl]; intros o Ho; destruct o; try contradiction; exact I).
  assert (Hb2 : Forall bop_stop (ops1 ++ ops2 ++ [f])).
  { apply Forall_app. split; [apply Up; exact H1|]. apply Forall_app. split; [apply Up; exact H2|].
    constructor; [destruct Hfin as [->|[->| ->]]; exact I | constructor]. }
  pose proof (faults_buffered c n t0 off fl ops1 Hcfg (Up _ H1)) as T1. cbv zeta in T1.
  pose proof (faults_buffered c n t0 off fl _ Hcfg Hb2) as T2. cbv zeta in T2.
  pose proof (buffered_recovery n fl ops1 ops2 f H1 H2 Hfin) as R.
  destruct (simb_run n BClosed fl ops1) as [[[[st1 e1] fl1] c1] l1].
  destruct (simb_run n BClosed fl (ops1 ++ ops2 ++ [f])) as [[[[st2 e2] fl2] c2] l2].
  destruct T1 as [A1 [A2 [A3 [A4 _]]]]. destruct T2 as [B1 [B2 [B3 [B4 _]]]].
  rewrite A4. intros Hf. destruct (R Hf) as [-> [_ [Rf [Rb Rfl]]]].
  assert (P1 : pend_bytes (fst (run (fsys t0 off fl) (OStart c :: ops1))) = concat (st_buf st1))
    by (unfold pend_bytes; rewrite A2; destruct st1; reflexivity).
  assert (P2 : pend_bytes (fst (run (fsys t0 off fl) (OStart c :: ops1 ++ ops2 ++ [f]))) = concat (st_buf st2))
    by (unfold pend_bytes; rewrite B2; destruct st2; reflexivity).
  rewrite B1, A1, P1, P2, B3, A3, B4, Rf, Rb. unfold st_all. rewrite !concat_app, <- app_assoc. auto.
Qed.
Print Assumptions buffered_recovery_run.

(* without failures nothing is lost and nothing is reported: after the drop the file holds all records *)
Corollary buffered_no_faults c n t0 off ops :
  bufcfg c n -> Forall bop ops ->
  let x := fst (run (fsys t0 off []) (OStart c :: ops ++ [OStop])) in
  content_of (wfs (s_w x)) (the_name c) = concat (recs_of ops) /\ werrs (s_w x) = [].
Proof.
  intros Hcfg Hb. cbv zeta.
  pose proof (buffered_recovery_run c n t0 off [] [] ops OStop Hcfg (Forall_nil _) Hb (or_intror (or_intror eq_refl))) as R.
  cbv zeta in R. cbn [app] in R. destruct R as [R1 [_ [R3 _]]]; [intros f []|]. rewrite R1, R3. split; reflexivity.
Qed.
Print Assumptions buffered_no_faults.

(* ------------------------------------------------------------------ the statement, computed on examples *)
Import String.StringSyntax.
Open Scope string_scope.
Definition bx_cfg (app : bool) (n : nat) : config :=
  {| c_spec := {| fbase := bs "app"; fdisc := None; fts := false; fsfx := Some (bs "log") |};
     c_append := app; c_cap := Some n; c_rot := None; c_utc := false;
     c_symlink := false; c_bg := false; c_async := false; c_start := None |}.
Lemma bx_bufcfg app n : bufcfg (bx_cfg app n) n.
Proof. repeat split. Qed.

Definition obs_code (o : obs) : N := match o with ObsRes k _ => k | _ => 9%N end.
(* the run: file content, buffer content (None: no writer), error channel, rest of the oracle, result codes *)
Definition bx_run (app : bool) (n : nat) (fl : list bool) (ops : list op)
  : bytes * option bytes * list ecode * list bool * list N :=
  let r := run (fsys 0 0 fl) (OStart (bx_cfg app n) :: ops) in
  (content_of (wfs (s_w (fst r))) (the_name (bx_cfg app n)), pend_of (fst r), werrs (s_w (fst r)), wfaults (s_w (fst r)),
   List.map obs_code (tl (snd r))).
(* the specification, with the lost records *)
Definition bx_sim (n : nat) (fl : list bool) (ops : list op)
  : bytes * option bytes * list ecode * list bool * list N * list bytes :=
  let '(st, e, rest, codes, lost) := simb_run n BClosed fl ops in
  (concat (st_file st), match st with BOpen _ B => Some (concat B) | _ => None end, e, rest, codes, lost).

Definition W (s : String.string) : op := OWrite (bs s).

(* capacity 5.  "abc" and "de" fill the buffer; "fg" does not fit: the flush fails (second oracle entry; the first is the
   open): "fg" is lost and reported (EWrite), the log call returns 0, the buffer keeps "abcde"; "h" does not fit either:
   now the flush succeeds, "abcde" is in the file, "h" in the buffer *)
Example bx_flush_in_write_fails :
  bx_run false 5 [F; T] [W "abc"; W "de"; W "fg"; W "h"] = (bs "abcde", Some (bs "h"), [EWrite], [], [0; 0; 0; 0]%N)
  /\ bx_sim 5 [F; T] [W "abc"; W "de"; W "fg"; W "h"] = (bs "abcde", Some (bs "h"), [EWrite], [], [0; 0; 0; 0]%N, [bs "fg"]).
Proof. split; vm_compute; reflexivity. Qed.
(* as long as the flush fails every record that does not fit is lost (each one reported); a record that still fits is
   accepted; the buffered records reach the file as soon as a flush succeeds, before the later ones *)
Example bx_flush_keeps_failing :
  bx_run false 5 [F; T; T; F] [W "abc"; W "d"; W "fg"; W "hi"; W "j"; W "kl"; OStop]
  = (bs "abcdjkl", None, [EWrite; EWrite], [], [0; 0; 0; 0; 0; 0; 0]%N)
  /\ bx_sim 5 [F; T; T; F] [W "abc"; W "d"; W "fg"; W "hi"; W "j"; W "kl"; OStop]
     = (bs "abcdjkl", None, [EWrite; EWrite], [], [0; 0; 0; 0; 0; 0; 0]%N, [bs "fg"; bs "hi"]).
Proof. split; vm_compute; reflexivity. Qed.
(* a record of at least the capacity is written directly after the flush: when that write fails, it is lost *)
Example bx_large_record :
  bx_run false 3 [F; F; T] [W "ab"; W "cdefg"; W "h"; OStop] = (bs "abh", None, [EWrite], [], [0; 0; 0; 0]%N)
  /\ bx_sim 3 [F; F; T] [W "ab"; W "cdefg"; W "h"; OStop] = (bs "abh", None, [EWrite], [], [0; 0; 0; 0]%N, [bs "cdefg"]).
Proof. split; vm_compute; reflexivity. Qed.
(* flush(): a failure is the RESULT of the call (1) and is NOT put on the error channel; nothing is lost *)
Example bx_oflush_fails :
  bx_run false 5 [F; T] [W "abc"; OFlush; W "d"; OFlush] = (bs "abcd", Some [], [], [], [0; 1; 0; 0]%N)
  /\ bx_sim 5 [F; T] [W "abc"; OFlush; W "d"; OFlush] = (bs "abcd", Some [], [], [], [0; 1; 0; 0]%N, []).
Proof. split; vm_compute; reflexivity. Qed.
(* the drop: one or two failing attempts are reported (EFlush) although nothing is lost ... *)
Example bx_stop_reports_without_loss :
  bx_run false 5 [F; T] [W "abc"; W "d"; OStop] = (bs "abcd", None, [EFlush], [], [0; 0; 0]%N)
  /\ bx_run false 5 [F; T; T] [W "abc"; W "d"; OStop] = (bs "abcd", None, [EFlush; EFlush], [], [0; 0; 0]%N)
  /\ bx_sim 5 [F; T; T] [W "abc"; W "d"; OStop] = (bs "abcd", None, [EFlush; EFlush], [], [0; 0; 0]%N, []).
Proof. repeat split; vm_compute; reflexivity. Qed.
(* ... three failing attempts lose the WHOLE buffer: here five records for two reports.  So the statement of the direct
   mode (FaultFacts.lost_only_failed, FaultRotSpec.loss_is_reported: "the number of missing records is the number of
   reported errors") is FALSE for a buffered writer; what holds is "every operation that loses something reports
   something" (buffered_loss_bounded) *)
Example bx_stop_loses_buffer :
  bx_run false 100 [F; T; T; T] [W "a"; W "b"; W "c"; W "d"; W "e"; OStop]
  = ([], None, [EFlush; EFlush], [], [0; 0; 0; 0; 0; 0]%N)
  /\ bx_sim 100 [F; T; T; T] [W "a"; W "b"; W "c"; W "d"; W "e"; OStop]
     = ([], None, [EFlush; EFlush], [], [0; 0; 0; 0; 0; 0]%N, [bs "a"; bs "b"; bs "c"; bs "d"; bs "e"]).
Proof. split; vm_compute; reflexivity. Qed.
Example bx_more_lost_than_reported :
  let '(_, _, errs, _, _, lost) := bx_sim 100 [F; T; T; T] [W "a"; W "b"; W "c"; W "d"; W "e"; OStop] in
  (length errs < length lost)%nat.
Proof. vm_compute. lia. Qed.
(* shutdown() without drop: reported, returns 0, nothing lost; a second shutdown writes the buffer *)
Example bx_shutdown :
  bx_run false 5 [F; T] [W "abc"; OShutdown; OShutdown] = (bs "abc", Some [], [EFlush], [], [0; 0; 0]%N).
Proof. vm_compute; reflexivity. Qed.
(* the open fails: the record is lost and reported, the next log call opens again; calls after the drop return 3 *)
Example bx_open_fails :
  bx_run true 4 [T; F] [OFlush; W "ab"; W "cd"; OStop; W "x"; OFlush] = (bs "cd", None, [EWrite], [], [0; 0; 0; 0; 3; 3]%N).
Proof. vm_compute; reflexivity. Qed.

(* run and specification agree on ALL fault oracles up to length 8 (511 oracles), for five settings: capacities 5, 3,
   0 (everything is written directly) and 4, with and without append, empty records, records larger than the buffer,
   flushes, shutdowns, the drop, and calls after the drop *)
Definition opt_eqb (a b : option bytes) : bool :=
  match a, b with Some x, Some y => beq x y | None, None => true | _, _ => false end.
Definition agreeb (app : bool) (n : nat) (ops : list op) (fl : list bool) : bool :=
  let '(d1, p1, e1, f1, c1) := bx_run app n fl ops in
  let '(d2, p2, e2, f2, c2, _) := bx_sim n fl ops in
  beq d1 d2 && opt_eqb p1 p2 && leqb ec_eqb e1 e2 && leqb Bool.eqb f1 f2 && leqb N.eqb c1 c2.
Example bx_agree_all :
  forallb (agreeb false 5 [W "abc"; W "de"; W "fg"; OFlush; W "hi"; W "j"; W "klmnopq"; OShutdown; W "r"; OStop]) (all_lists 8) = true
  /\ forallb (agreeb true 3 [W "ab"; W ""; W "cdefg"; W "h"; OFlush; W "ij"; W "kl"; OStop; W "x"; OFlush]) (all_lists 8) = true
  /\ forallb (agreeb false 0 [W "a"; OFlush; W ""; W "bc"; OStop]) (all_lists 8) = true
  /\ forallb (agreeb false 4 [W "ab"; W "cd"; W "ef"; W "gh"; W "ij"; W "k"; OStop]) (all_lists 8) = true
  /\ forallb (agreeb true 2 [OStop; W "a"]) (all_lists 8) = true.
Proof. repeat split; vm_compute; reflexivity. Qed.
