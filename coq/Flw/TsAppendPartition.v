(* Timestamps naming (rCURRENT + r<time stamp>[.restart-NNNN]) with a size criterion: the greedy partition over SEQUENCES of
   runs on one directory (C08 with content found at start).
   - with append the content found in rCURRENT counts for the limit from the first write on;
   - without append rCURRENT is closed - under the stamp of ITS creation - when the new writer writes for the first time, and
     the run's own files are those of a fresh start;
   - a writer that never writes leaves the directory as it is.
   The abstract side (gs_run, files_after, cur_before, runs_files) is the one of NumAppendPartition.v; the concrete side is
   the one of TsRestart.v, strengthened by the roll state: the size counted is the length of the reader's view of rCURRENT. *)
Require Import FL.Base.Bytes FL.Base.BytesFacts FL.Base.PathName FL.Fs.Fs FL.Fs.FsFacts FL.Time.Civil FL.Time.TsFormat
  FL.Names.FileSpec FL.Names.NamesFacts FL.Names.SortFacts FL.Flw.Model FL.Flw.ModelFacts FL.Flw.NumFs FL.Flw.NumInv FL.Flw.Run
  FL.Flw.RunFacts FL.Flw.NumRun FL.Oracles.O_Flw FL.Flw.NumTheorems FL.Flw.NumListing FL.Flw.NumRestart
  FL.Flw.TsCal FL.Flw.TsTime FL.Flw.TsNames FL.Flw.TsInv FL.Flw.TsRun FL.Flw.TsTheorems FL.Flw.TsRestartInv FL.Flw.TsRestart
  FL.Flw.TsPartition FL.Flw.NumAppendPartition.
From Coq Require Import ZifyN ZifyNat ZifyBool.
Import String.StringSyntax.
Open Scope nat_scope.

(* ------------------------------------------------------------------ the roll state, exactly *)
Lemma rot_nec_size w m k : rotation_necessary w (RSize m k) = (m <? k)%N.
Proof. reflexivity. Qed.

Lemma mount_next_rotates_tsz c m e lo hi w wr keys closed ts k force :
  tscfg c (CSize m) -> tag_ok c -> years_ok e lo hi -> TsInvB c e lo w wr keys closed ts ->
  (wnow w <= hi)%Z -> (N.of_nat (length closed) <= usize_max)%N ->
  force || rotation_necessary w (RSize m k) = true ->
  exists w' wr',
    mount_next c w (Active (Some (mk_rs (NSTs ts (Some cur_infix) std_fmt) (RSize m k))) wr (cname c)) force
      = (Ok tt, w', Active (Some (mk_rs (NSTs (wnow w) (Some cur_infix) std_fmt) (RSize m 0))) wr' (cname c))
    /\ TsInvB c e lo w' wr' (keys ++ [(ts, count ts keys)]) (closed ++ [cur_view w wr]) (wnow w)
    /\ cur_view w' wr' = [] /\ same_env w w'.
Proof.
  intros Hcfg T Y I Hhi Hmax Hnec.
  destruct (mount_next_rotates_tsb c (CSize m) e lo hi w wr keys closed ts (RSize m k) force Hcfg T Y I Hhi Hmax Hnec)
    as [w' [wr' [roll' [E [I' [V' S']]]]]].
  exists w', wr'.
  destruct (mount_next_roll _ _ _ _ _ _ _ _ E Hnec) as [rs' [wr'' [p' [w3 [Est Er]]]]].
  injection Est as Ers _ _. rewrite <- Ers in Er. cbn [mk_rs rs_roll reset_size_and_date] in Er. subst roll'.
  split; [exact E|]. split; [exact I'|]. split; [exact V' | exact S'].
Qed.

Lemma write_active_tsz c m e lo hi w wr keys closed ts b :
  tscfg c (CSize m) -> tag_ok c -> years_ok e lo hi -> TsInvB c e lo w wr keys closed ts ->
  (wnow w <= hi)%Z -> (N.of_nat (length closed) <= usize_max)%N ->
  let rot := (m <? N.of_nat (length (cur_view w wr)))%N in
  exists w' wr' keys' closed' ts',
    write_buffer (st_ts c ts (RSize m (N.of_nat (length (cur_view w wr)))) wr) w b
      = (Ok tt, w', st_ts c ts' (RSize m (N.of_nat (length (cur_view w' wr')))) wr', rot)
    /\ TsInvB c e lo w' wr' keys' closed' ts' /\ same_env w w'
    /\ (keys', closed', cur_view w' wr', ts')
       = (if rot then (keys ++ [(ts, count ts keys)], closed ++ [cur_view w wr], b, wnow w)
          else (keys, closed, cur_view w wr ++ b, ts)).
Proof.
  intros Hcfg T Y I Hhi Hmax rot.
  set (k := N.of_nat (length (cur_view w wr))).
  unfold write_buffer, st_ts. cbn [f_cfg f_inner f_poisoned mk_rs rs_roll]. rewrite rot_nec_size. fold rot.
  assert (M : exists w1 wr1 keys1 closed1 ts1,
            mount_next c w (Active (Some (mk_rs (NSTs ts (Some cur_infix) std_fmt) (RSize m k))) wr (cname c)) false
            = (Ok tt, w1, Active (Some (mk_rs (NSTs ts1 (Some cur_infix) std_fmt) (RSize m (N.of_nat (length (cur_view w1 wr1)))))) wr1 (cname c))
            /\ TsInvB c e lo w1 wr1 keys1 closed1 ts1 /\ same_env w w1
            /\ (keys1, closed1, cur_view w1 wr1, ts1)
               = (if rot then (keys ++ [(ts, count ts keys)], closed ++ [cur_view w wr], [], wnow w) else (keys, closed, cur_view w wr, ts))).
  { destruct rot eqn:Er.
    - destruct (mount_next_rotates_tsz c m e lo hi w wr keys closed ts k false Hcfg T Y I Hhi Hmax) as [w1 [wr1 [E [I1 [V1 S1]]]]].
      { rewrite rot_nec_size. exact Er. }
      exists w1, wr1, (keys ++ [(ts, count ts keys)]), (closed ++ [cur_view w wr]), (wnow w). rewrite V1.
      split; [exact E|]. split; [exact I1|]. split; [exact S1 | reflexivity].
    - exists w, wr, keys, closed, ts. split.
      + unfold mount_next. cbn [mk_rs rs_roll orb]. rewrite rot_nec_size. unfold rot in Er. fold k in Er. rewrite Er. reflexivity.
      + split; [exact I|]. split; [apply same_env_refl; apply (proj1 I) | reflexivity]. }
  destruct M as [w1 [wr1 [keys1 [closed1 [ts1 [E [I1 [S1 V1]]]]]]]].
  rewrite E.
  destruct (w_write_quiet w1 wr1 b (ti_quiet _ _ _ _ _ _ _ _ (proj1 I1)) (ti_wr _ _ _ _ _ _ _ _ (proj1 I1))) as [w2 [wr2 [fl [Ew [S2 [F2 [Ei [Ec [Ep Hok]]]]]]]]].
  rewrite Ew.
  destruct (tsinvb_append c e lo w1 w2 wr1 wr2 keys1 closed1 ts1 fl I1 F2 S2 Ei Ec Hok) as [I2 C2].
  exists w2, wr2, keys1, closed1, ts1.
  assert (V2 : cur_view w2 wr2 = cur_view w1 wr1 ++ b).
  { unfold cur_view. rewrite C2, <- !app_assoc, Ep. reflexivity. }
  split. { rewrite V2, app_length, Nat2N.inj_add. reflexivity. }
  split; [exact I2|].
  split; [eapply same_env_trans; eassumption|].
  rewrite V2. destruct rot; injection V1 as -> -> -> ->; reflexivity.
Qed.

(* the writer that initialize opens has an empty buffer *)
Lemma initialize_wpend c w crit nam rs wr p w' :
  c_rot c = Some (crit, nam, KNever) -> initialize c w = (Ok (Active (Some rs) wr p), w') -> wpend wr = [].
Proof.
  intros Hrot E. unfold initialize in E. rewrite Hrot in E.
  destruct (init_naming c w nam) as [[[ns infix]| |] w1]; cbn [bind] in E; try discriminate.
  destruct (open_log_file c w1 (Some infix)) as [[[wr0 path]| |] w2] eqn:EO; cbn [bind] in E; try discriminate.
  destruct (roll_new w2 crit (c_append c) path) as [[roll| |] w3] eqn:ER; cbn [bind] in E; try discriminate.
  injection E as _ <- _ _.
  unfold open_log_file in EO. destruct (p_open (do_symlink c w1 (name_of c w1 (Some infix))) (name_of c w1 (Some infix)) (c_append c)) as [[i|] w2'];
    [|discriminate]. injection EO as <- _ _. reflexivity.
Qed.

Lemma init_roll_size c m e lo w w' wr roll ns keys closed ts :
  tscfg c (CSize m) -> initialize c w = (Ok (Active (Some (mk_rs ns roll)) wr (cname c)), w') ->
  TsInvB c e lo w' wr keys closed ts -> (c_append c = false -> cur_view w' wr = []) ->
  roll = RSize m (N.of_nat (length (cur_view w' wr))).
Proof.
  intros Hcfg E [I B] Hna.
  destruct (initialize_roll c w (CSize m) NTimestamps _ _ _ _ (proj1 Hcfg) E) as [w2 ER]. cbn [mk_rs rs_roll] in ER.
  pose proof (initialize_wpend c w (CSize m) NTimestamps _ _ _ _ (proj1 Hcfg) E) as Hp.
  destruct (roll_new_size _ _ _ _ _ _ ER) as [size [created [Er Hs]]]. subst roll. f_equal.
  destruct (c_append c) eqn:Happ.
  - destruct Hs as [f [Ef ->]]. unfold file_of in Ef. rewrite (ti_cur _ _ _ _ _ _ _ _ I) in Ef. injection Ef as <-.
    unfold cur_view. rewrite Hp, app_nil_r. reflexivity.
  - rewrite Hs, (Hna eq_refl). reflexivity.
Qed.

(* ------------------------------------------------------------------ the relation with the roll state *)
Definition vwT (d : tview) : aview := match d with Some (_, cl, cu, _) => Some (cl, cu) | None => None end.

Definition ActTz (c : config) (m : N) (e lo : Z) (n : nat) (x : sys) (D : list key * list bytes * bytes * Z) : Prop :=
  envT c e x /\
  let '(keys, closed, cur, ts) := D in
  exists wr, s_flw x = Some (st_ts c ts (RSize m (N.of_nat (length cur))) wr) /\ TsInvB c e lo (s_w x) wr keys closed ts
    /\ cur_view (s_w x) wr = cur /\ length closed <= n.

Definition GRelTz (c : config) (m : N) (e lo : Z) (n : nat) (x : sys) (d0 : tview) (a : aview) : Prop :=
  match a with
  | None => PreT c e lo n x d0
  | Some (cl, cu) => exists keys ts, ActTz c m e lo n x (keys, cl, cu, ts)
  end.

Lemma ActTz_ActT c m e lo n x D : ActTz c m e lo n x D -> ActT c e lo n x (Some D).
Proof.
  destruct D as [[[keys closed] cur] ts]. intros [E0 [wr [Es [I [V Hn]]]]]. split; [exact E0|].
  exists wr, (RSize m (N.of_nat (length cur))). auto.
Qed.

Lemma GRelTz_GRelT c m e lo n x d0 a : GRelTz c m e lo n x d0 a ->
  exists a', GRelT c e lo n x d0 a' /\ vwT (gviewT d0 a') = gview (vwT d0) a.
Proof.
  destruct a as [[cl cu]|]; cbn [GRelTz].
  - intros [keys [ts A]]. exists (Some (keys, cl, cu, ts)). split; [exact (ActTz_ActT _ _ _ _ _ _ _ A) | reflexivity].
  - intros P. exists None. split; [exact P | reflexivity].
Qed.

(* ------------------------------------------------------------------ one operation of a writer that has written *)
Lemma act_step_z c m e lo hi n x d0 keys cl cu ts o :
  tscfg c (CSize m) -> tag_ok c -> years_ok e lo hi -> ActTz c m e lo n x (keys, cl, cu, ts) -> basic_op o -> tick_ok o ->
  (wnow (s_w x) <= hi)%Z -> (N.of_nat n <= usize_max)%N ->
  GRelTz c m e lo (S n) (fst (step x o)) d0 (a_step (Some (cl, cu)) o (rot_of (snd (step x o))))
  /\ wnow (s_w (fst (step x o))) = (wnow (s_w x) + dt_of o)%Z
  /\ (forall b, o = OWrite b \/ o = OPlain b -> snd (step x o) = ObsRes 0 (m <? N.of_nat (length cu))%N).
Proof.
  intros Hcfg T Y A Hb Htk Hhi Hmax.
  destruct A as [E0 [wr [Es [I [V Hn]]]]]. pose proof E0 as [Ht [Ha [Q Ho]]]. subst cu.
  rewrite (step_sync_cfg c (CSize m) x _ o Hcfg Es eq_refl).
  assert (WR : forall b tl, exists w' s',
            write_buffer (st_ts c ts (RSize m (N.of_nat (length (cur_view (s_w x) wr)))) wr) (s_w x) b
              = (Ok tt, w', s', (m <? N.of_nat (length (cur_view (s_w x) wr)))%N)
            /\ (tl = [] -> GRelTz c m e lo (S n) {| s_flw := Some s'; s_w := w'; s_tl := tl; s_dead := s_dead x |} d0
                 (a_step (Some (cl, cur_view (s_w x) wr)) (OPlain b) (m <? N.of_nat (length (cur_view (s_w x) wr)))%N))
            /\ wnow w' = wnow (s_w x)).
  { intros b tl.
    destruct (write_active_tsz c m e lo hi (s_w x) wr keys cl ts b Hcfg T Y I Hhi ltac:(lia))
      as [w' [wr' [keys' [closed' [ts' [E [I' [S' V']]]]]]]].
    exists w', (st_ts c ts' (RSize m (N.of_nat (length (cur_view w' wr')))) wr').
    split; [exact E|]. split; [|exact (same_env_now _ _ S')].
    - intros ->. cbn [a_step].
      destruct (m <? N.of_nat (length (cur_view (s_w x) wr)))%N; injection V' as -> -> V' ->; cbn [GRelTz].
      + exists (keys ++ [(ts, count ts keys)]), (wnow (s_w x)). split; [apply (envT_env c e x _ E0); [reflexivity | exact S']|].
        exists wr'. cbn [s_flw s_w]. rewrite <- V'. split; [reflexivity|]. split; [exact I'|]. split; [reflexivity|].
        rewrite app_length. cbn [length]. lia.
      + exists keys, ts. split; [apply (envT_env c e x _ E0); [reflexivity | exact S']|].
        exists wr'. cbn [s_flw s_w]. rewrite <- V'. split; [reflexivity|]. split; [exact I'|]. split; [reflexivity | lia]. }
  destruct o; try contradiction; cbn [sync_step dt_of].
  - (* OWrite *)
    rewrite Es. cbn [st_ts f_poisoned]. fold (st_ts c ts (RSize m (N.of_nat (length (cur_view (s_w x) wr)))) wr). rewrite Ht. cbn [app].
    destruct (WR b []) as [w' [s' [E [G' W']]]]. rewrite E. cbn [fst snd s_w rot_of].
    split; [exact (G' eq_refl)|]. split; [lia|]. intros b0 _. reflexivity.
  - (* OPlain *)
    rewrite Es. cbn [st_ts f_poisoned]. fold (st_ts c ts (RSize m (N.of_nat (length (cur_view (s_w x) wr)))) wr).
    destruct (WR b (s_tl x)) as [w' [s' [E [G' W']]]]. rewrite E. cbn [fst snd s_w rot_of code_of].
    split; [exact (G' Ht)|]. split; [lia|]. intros b0 _. reflexivity.
  - (* OFlush *)
    rewrite Es. cbn [st_ts f_poisoned]. fold (st_ts c ts (RSize m (N.of_nat (length (cur_view (s_w x) wr)))) wr).
    destruct (flush_active_tsb c e lo (s_w x) wr keys cl ts (RSize m (N.of_nat (length (cur_view (s_w x) wr)))) I) as [w' [wr' [E [I' [V' [P' S']]]]]].
    rewrite E. cbn [fst snd s_w rot_of a_step GRelTz].
    split; [|split; [rewrite (same_env_now _ _ S'); lia | intros b [H|H]; discriminate]].
    exists keys, ts. split; [apply (envT_env c e x _ E0); [exact Ht | exact S']|].
    exists wr'. cbn [s_flw s_w]. split; [reflexivity|]. split; [exact I'|]. split; [exact V' | lia].
  - (* OTrigger *)
    rewrite Es. cbn [st_ts f_poisoned f_cfg f_inner].
    destruct (mount_next_rotates_tsz c m e lo hi (s_w x) wr keys cl ts (N.of_nat (length (cur_view (s_w x) wr))) true Hcfg T Y I Hhi ltac:(lia) eq_refl)
      as [w' [wr' [E [I' [V' S']]]]].
    rewrite E. cbn [fst snd code_of with_inner f_cfg f_poisoned s_w rot_of a_step GRelTz].
    split; [|split; [rewrite (same_env_now _ _ S'); lia | intros b [H|H]; discriminate]].
    exists (keys ++ [(ts, count ts keys)]), (wnow (s_w x)). split; [apply (envT_env c e x _ E0); [exact Ht | exact S']|].
    exists wr'. cbn [s_flw s_w]. split; [reflexivity|]. split; [exact I'|]. split; [exact V'|].
    rewrite app_length. cbn [length]. lia.
  - (* OTick *)
    cbn [fst snd s_w set_now wnow tick_ok rot_of a_step GRelTz] in *.
    split; [|split; [reflexivity | intros b [H|H]; discriminate]].
    exists keys, ts. split; [repeat split; [exact Ht | exact Ha | apply Q | apply Q | exact Ho]|].
    exists wr. cbn [s_flw s_w]. split; [exact Es|]. split; [apply tsinvb_tick; assumption|]. split; [reflexivity | lia].
  - (* OSnap *)
    cbn [fst snd rot_of a_step GRelTz]. split; [|split; [lia | intros b [H|H]; discriminate]].
    exists keys, ts. split; [exact E0|]. exists wr. split; [exact Es|]. split; [exact I|]. split; [reflexivity | lia].
Qed.

(* ------------------------------------------------------------------ the first write of a writer *)
Lemma first_write_z c m e lo hi n x d b :
  tscfg c (CSize m) -> tag_ok c -> years_ok e lo hi -> PreT c e lo n x d ->
  (wnow (s_w x) <= hi)%Z -> (N.of_nat n <= usize_max)%N ->
  let rot := (m <? N.of_nat (length (snd (init_view c (vwT d)))))%N in
  exists w' s', write_buffer (new_flw c) (s_w x) b = (Ok tt, w', s', rot)
    /\ GRelTz c m e lo (S n) {| s_flw := Some s'; s_w := w'; s_tl := []; s_dead := s_dead x |} d
         (a_step (Some (init_view c (vwT d))) (OPlain b) rot)
    /\ wnow w' = wnow (s_w x).
Proof.
  intros Hcfg T Y [E0 [Es [D Hn]]] Hhi Hmax rot. pose proof E0 as [Ht [Ha [Q Ho]]].
  assert (IN : exists w1 wr1 keys1 closed1 ts1,
            initialize c (s_w x) = (Ok (Active (Some (mk_rs (NSTs ts1 (Some cur_infix) std_fmt) (RSize m (N.of_nat (length (cur_view w1 wr1)))))) wr1 (cname c)), w1)
            /\ TsInvB c e lo w1 wr1 keys1 closed1 ts1 /\ same_env (s_w x) w1
            /\ init_view c (vwT d) = (closed1, cur_view w1 wr1)
            /\ length closed1 <= n).
  { destruct d as [[[[keys closed] cur] ts]|]; cbn [dir_ts closedT vwT init_view] in D, Hn |- *.
    - destruct D as [wr [I [Hp V]]].
      destruct (initialize_view_ts c (CSize m) e lo hi (s_w x) wr keys closed ts Hcfg T Y I Hp Hhi ltac:(lia))
        as [w1 [wr1 [roll1 [keys1 [closed1 [ts1 [Ei [I1 [S1 V1]]]]]]]]].
      assert (Hna : c_append c = false -> cur_view w1 wr1 = []).
      { intros Happ. rewrite Happ in V1. injection V1 as _ _ -> _. reflexivity. }
      pose proof (init_roll_size c m e lo _ _ _ _ _ _ _ _ Hcfg Ei I1 Hna) as Er. subst roll1.
      exists w1, wr1, keys1, closed1, ts1. split; [exact Ei|]. split; [exact I1|]. split; [exact S1|].
      rewrite V in V1. destruct (c_append c); injection V1 as -> -> -> ->.
      + split; [reflexivity | lia].
      + split; [reflexivity | rewrite app_length; cbn [length]; lia].
    - destruct D as [Hnm [Hin Hlo]].
      destruct (initialize_empty_tsb c (CSize m) e lo (s_w x) Hcfg Q Hnm Hin Ho Hlo) as [w1 [wr1 [roll1 [Ei [I1 [V1 S1]]]]]].
      pose proof (init_roll_size c m e lo _ _ _ _ _ _ _ _ Hcfg Ei I1 (fun _ => V1)) as Er. subst roll1.
      exists w1, wr1, [], [], (wnow (s_w x)). split; [exact Ei|]. split; [exact I1|]. split; [exact S1|].
      split; [rewrite V1; reflexivity | cbn [length]; lia]. }
  destruct IN as [w1 [wr1 [keys1 [closed1 [ts1 [Ei [I1 [S1 [IV L1]]]]]]]]].
  unfold rot. rewrite IV. cbn [snd].
  assert (Hhi1 : (wnow w1 <= hi)%Z) by (rewrite (same_env_now _ _ S1); exact Hhi).
  destruct (write_active_tsz c m e lo hi w1 wr1 keys1 closed1 ts1 b Hcfg T Y I1 Hhi1 ltac:(lia))
    as [w' [wr' [keys' [closed' [ts' [E [I' [S' V']]]]]]]].
  exists w', (st_ts c ts' (RSize m (N.of_nat (length (cur_view w' wr')))) wr').
  split. { rewrite (write_buffer_init c (s_w x) b _ _ _ w1 Ei). exact E. }
  assert (S2 : same_env (s_w x) w') by (eapply same_env_trans; eassumption).
  split; [|exact (same_env_now _ _ S2)].
  cbn [a_step].
  destruct (m <? N.of_nat (length (cur_view w1 wr1)))%N; injection V' as -> -> V' ->; cbn [GRelTz].
  - exists (keys1 ++ [(ts1, count ts1 keys1)]), (wnow w1). split; [apply (envT_env c e x _ E0); [reflexivity | exact S2]|].
    exists wr'. cbn [s_flw s_w]. rewrite <- V'. split; [reflexivity|]. split; [exact I'|]. split; [reflexivity|].
    rewrite app_length. cbn [length]. lia.
  - exists keys1, ts1. split; [apply (envT_env c e x _ E0); [reflexivity | exact S2]|].
    exists wr'. cbn [s_flw s_w]. rewrite <- V'. split; [reflexivity|]. split; [exact I'|]. split; [reflexivity | lia].
Qed.

(* ------------------------------------------------------------------ one operation of a run *)
Lemma gstep_z c m e lo hi n x d0 a o :
  tscfg c (CSize m) -> tag_ok c -> years_ok e lo hi -> GRelTz c m e lo n x d0 a -> basic_op o -> tick_ok o ->
  (wnow (s_w x) <= hi)%Z -> (N.of_nat n <= usize_max)%N ->
  GRelTz c m e lo (S n) (fst (step x o)) d0 (g_step c (vwT d0) a o (rot_of (snd (step x o))))
  /\ wnow (s_w (fst (step x o))) = (wnow (s_w x) + dt_of o)%Z
  /\ (forall b, o = OWrite b \/ o = OPlain b -> snd (step x o) = ObsRes 0 (m <? N.of_nat (length (gcur c (vwT d0) a)))%N).
Proof.
  intros Hcfg T Y G Hb Htk Hhi Hmax. destruct a as [[cl cu]|].
  - cbn [GRelTz g_step gcur] in *. destruct G as [keys [ts A]].
    exact (act_step_z c m e lo hi n x d0 keys cl cu ts o Hcfg T Y A Hb Htk Hhi Hmax).
  - cbn [GRelTz g_step gcur] in *. pose proof G as [[Ht [Ha [Q Ho]]] [Es [D Hn]]].
    rewrite (step_sync_cfg c (CSize m) x _ o Hcfg Es eq_refl).
    destruct o; try contradiction; cbn [sync_step dt_of].
    + (* OWrite *)
      destruct (first_write_z c m e lo hi n x d0 (s_tl x ++ b) Hcfg T Y G Hhi Hmax) as [w' [s' [E [G' W']]]].
      rewrite Es. cbn [new_flw f_poisoned]. fold (new_flw c). rewrite E. cbn [fst snd s_w rot_of].
      rewrite Ht in G'. cbn [app] in G'. split; [exact G'|]. split; [lia|]. intros b0 _. reflexivity.
    + (* OPlain *)
      destruct (first_write_z c m e lo hi n x d0 b Hcfg T Y G Hhi Hmax) as [w' [s' [E [G' W']]]].
      rewrite Es. cbn [new_flw f_poisoned]. fold (new_flw c). rewrite E. cbn [fst snd s_w rot_of code_of]. rewrite Ht.
      split; [exact G'|]. split; [lia|]. intros b0 _. reflexivity.
    + (* OFlush *)
      rewrite Es. cbn [new_flw f_poisoned flush_state f_inner fst snd s_w GRelTz].
      split; [|split; [lia | intros b [H|H]; discriminate]].
      split; [repeat split; try assumption; apply Q|]. split; [reflexivity|]. split; [exact D | lia].
    + (* OTrigger *)
      rewrite Es. cbn [new_flw f_poisoned f_cfg f_inner mount_next with_inner code_of fst snd s_w GRelTz].
      split; [|split; [lia | intros b [H|H]; discriminate]].
      split; [repeat split; try assumption; apply Q|]. split; [reflexivity|]. split; [exact D | lia].
    + (* OTick *)
      cbn [fst snd s_w set_now wnow tick_ok GRelTz] in *.
      split; [|split; [reflexivity | intros b [H|H]; discriminate]].
      split; [repeat split; try assumption; apply Q|]. split; [exact Es|]. split; [apply dir_ts_tick; assumption | lia].
    + (* OSnap *)
      cbn [fst snd GRelTz]. split; [|split; [lia | intros b [H|H]; discriminate]].
      split; [repeat split; try assumption; apply Q|]. split; [exact Es|]. split; [exact D | lia].
Qed.

(* ------------------------------------------------------------------ one run under the size rule *)
Lemma grun_z c m e lo hi d0 : tscfg c (CSize m) -> tag_ok c -> years_ok e lo hi ->
  forall ops x a n, GRelTz c m e lo n x d0 a -> Forall basic_op ops -> Forall tick_ok ops ->
  (wnow (s_w x) + elapsed ops <= hi)%Z -> (N.of_nat (n + length ops) <= usize_max)%N ->
  GRelTz c m e lo (n + length ops) (fst (run x ops)) d0 (gs_run m c (vwT d0) a ops)
  /\ wnow (s_w (fst (run x ops))) = (wnow (s_w x) + elapsed ops)%Z
  /\ (forall i o, nth_error ops i = Some o -> forall b, (o = OWrite b \/ o = OPlain b) ->
        nth_error (snd (run x ops)) i
        = Some (ObsRes 0 (m <? N.of_nat (length (gcur c (vwT d0) (gs_run m c (vwT d0) a (firstn i ops)))))%N)).
Proof.
  intros Hcfg T Y. induction ops as [|o r IH]; intros x a n G Hb Htk Hhi Hmax.
  - cbn [run fst snd length elapsed gs_run]. rewrite Nat.add_0_r. split; [exact G|]. split; [lia|].
    intros i o H. destruct i; discriminate.
  - cbn [run]. inversion Hb as [|o' r' Ho Hr]; subst. inversion Htk as [|o' r' Hto Htr]; subst.
    cbn [elapsed length] in *. pose proof (elapsed_nonneg r Htr) as Er.
    assert (Hdt : (0 <= dt_of o)%Z) by (destruct o; cbn [dt_of tick_ok] in *; lia).
    destruct (gstep_z c m e lo hi n x d0 a o Hcfg T Y G Ho Hto ltac:(lia) ltac:(lia)) as [G1 [W1 C1]].
    destruct (step x o) as [x1 ob]. cbn [fst snd] in *.
    assert (Erot : g_step c (vwT d0) a o (rot_of ob) = g_step c (vwT d0) a o (m <? N.of_nat (length (gcur c (vwT d0) a)))%N).
    { destruct o; try (destruct a; reflexivity).
      - rewrite (C1 b (or_introl eq_refl)). reflexivity.
      - rewrite (C1 b (or_intror eq_refl)). reflexivity. }
    rewrite Erot in G1.
    destruct (IH x1 _ (S n) G1 Hr Htr ltac:(lia) ltac:(lia)) as [G2 [W2 C2]].
    destruct (run x1 r) as [x2 obs]. cbn [fst snd gs_run] in *.
    replace (n + S (length r)) with (S n + length r) by lia.
    split; [exact G2|]. split; [lia|].
    intros i o0 Hi b Hw. destruct i as [|i].
    + cbn in Hi. injection Hi as <-. cbn [nth_error firstn gs_run]. f_equal. apply (C1 b Hw).
    + cbn [nth_error firstn gs_run] in *. apply (C2 i o0 Hi b Hw).
Qed.

Lemma stop_z c m e lo n x d0 a : tscfg c (CSize m) -> GRelTz c m e lo n x d0 a ->
  exists d', IdleT c e lo n (fst (step x OStop)) d' /\ vwT d' = gview (vwT d0) a
    /\ wnow (s_w (fst (step x OStop))) = wnow (s_w x).
Proof.
  intros Hcfg G. destruct (GRelTz_GRelT _ _ _ _ _ _ _ _ G) as [a' [G' Ev]].
  destruct (stop_ts c (CSize m) e lo n x d0 a' Hcfg G') as [Id W]. exists (gviewT d0 a'). auto.
Qed.

(* ---- one whole run, after the clock has advanced by dt ---- *)
Lemma one_run_z c m e lo hi n x d dt ops :
  tscfg c (CSize m) -> tag_ok c -> years_ok e lo hi -> IdleT c e lo n x d -> (0 <= dt)%Z ->
  Forall basic_op ops -> Forall tick_ok ops ->
  (wnow (s_w x) + elapsed (run_t dt c ops) <= hi)%Z -> (N.of_nat (n + length (run_t dt c ops)) <= usize_max)%N ->
  exists d', IdleT c e lo (n + length (run_t dt c ops)) (fst (run x (run_t dt c ops))) d'
    /\ files_of (vwT d') = files_after (files_of (vwT d)) (c_append c) m ops
    /\ wnow (s_w (fst (run x (run_t dt c ops)))) = (wnow (s_w x) + elapsed (run_t dt c ops))%Z.
Proof.
  intros Hcfg T Y Id Hdt Hb Htk Hhi Hmax. unfold run_t in *.
  cbn [elapsed dt_of length] in Hhi, Hmax. rewrite elapsed_app in Hhi. rewrite app_length in Hmax. cbn [elapsed dt_of length] in Hhi, Hmax.
  pose proof (elapsed_nonneg ops Htk) as Eo.
  cbn [run].
  destruct (idle_tick c e lo n x d dt Hdt Id) as [Id0 W0]. destruct (step x (OTick dt)) as [xa oba]. cbn [fst] in Id0, W0.
  pose proof (start_ts c e lo n xa d Id0) as P0. pose proof (start_now xa c) as W1.
  destruct (step xa (OStart c)) as [x0 ob0]. cbn [fst] in P0, W1.
  assert (G0 : GRelTz c m e lo (S n) x0 d None) by exact P0.
  destruct (grun_z c m e lo hi d Hcfg T Y ops x0 None (S n) G0 Hb Htk ltac:(lia) ltac:(lia)) as [G1 [W2 _]].
  pose proof (fst_run_app ops [OStop] x0) as RA.
  destruct (run x0 (ops ++ [OStop])) as [x2 obs2]. cbn [fst] in RA |- *.
  destruct (run x0 ops) as [x1 obs1]. cbn [fst] in RA, G1, W2.
  destruct (stop_z c m e lo (S n + length ops) x1 d _ Hcfg G1) as [d' [Id2 [Ev W3]]].
  cbn [run] in RA. destruct (step x1 OStop) as [x2' ob2]. cbn [fst] in RA, Id2, W3. subst x2'.
  exists d'.
  split; [apply (idleT_mono c e lo (S n + length ops)); [cbn [length]; rewrite app_length; cbn [length]; lia | exact Id2]|].
  split; [rewrite Ev; apply gview_files; exact Hb|].
  cbn [elapsed dt_of]. rewrite elapsed_app. cbn [elapsed dt_of]. lia.
Qed.

(* the flags of a run that is still going on *)
Lemma one_run_flags_z c m e lo hi n x d dt ops i o b :
  tscfg c (CSize m) -> tag_ok c -> years_ok e lo hi -> IdleT c e lo n x d -> (0 <= dt)%Z ->
  Forall basic_op ops -> Forall tick_ok ops ->
  (wnow (s_w x) + dt + elapsed ops <= hi)%Z -> (N.of_nat (S n + length ops) <= usize_max)%N ->
  nth_error ops i = Some o -> (o = OWrite b \/ o = OPlain b) ->
  nth_error (snd (run x (OTick dt :: OStart c :: ops))) (S (S i))
  = Some (ObsRes 0 (m <? N.of_nat (length (cur_before m (start_of (files_of (vwT d)) (c_append c)) (firstn i ops))))%N).
Proof.
  intros Hcfg T Y Id Hdt Hb Htk Hhi Hmax Hi Hw.
  pose proof (elapsed_nonneg ops Htk) as Eo.
  cbn [run].
  destruct (idle_tick c e lo n x d dt Hdt Id) as [Id0 W0]. destruct (step x (OTick dt)) as [xa oba]. cbn [fst] in Id0, W0.
  pose proof (start_ts c e lo n xa d Id0) as P0. pose proof (start_now xa c) as W1.
  destruct (step xa (OStart c)) as [x0 ob0]. cbn [fst] in P0, W1.
  assert (G0 : GRelTz c m e lo (S n) x0 d None) by exact P0.
  destruct (grun_z c m e lo hi d Hcfg T Y ops x0 None (S n) G0 Hb Htk ltac:(lia) ltac:(lia)) as [_ [_ Hr]].
  destruct (run x0 ops) as [x1 obs1]. cbn [snd nth_error] in *.
  rewrite (Hr i o Hi b Hw), gcur_before. reflexivity.
Qed.

(* ------------------------------------------------------------------ sequences of runs *)
Definition strip (rs : list trun) : list (config * list op) := List.map (fun r => (snd (fst r), snd r)) rs.
Definition size_run (r : trun) : Prop := exists m, tscfg (snd (fst r)) (CSize m).

Lemma runs_rel_z sp utc e lo hi : years_ok e lo hi ->
  forall rs x d c0 n, c_spec c0 = sp -> c_utc c0 = utc -> Forall (run_ok_ts sp utc) rs -> Forall size_run rs ->
  IdleT c0 e lo n x d ->
  (wnow (s_w x) + elapsed (runs_ops_t rs) <= hi)%Z -> (N.of_nat (n + length (runs_ops_t rs)) <= usize_max)%N ->
  exists d', IdleT c0 e lo (n + length (runs_ops_t rs)) (fst (run x (runs_ops_t rs))) d'
    /\ files_of (vwT d') = runs_files (files_of (vwT d)) (strip rs)
    /\ wnow (s_w (fst (run x (runs_ops_t rs)))) = (wnow (s_w x) + elapsed (runs_ops_t rs))%Z.
Proof.
  intros Y. induction rs as [|[[dt c] ops] r IH]; intros x d c0 n Ec0 Eu0 Hrs Hsz Id Hhi Hmax.
  - cbn [runs_ops_t strip List.map runs_files run fst length elapsed]. rewrite Nat.add_0_r. exists d.
    split; [exact Id|]. split; [reflexivity | lia].
  - inversion Hrs as [|r0 r' Hok Hr]; subst. inversion Hsz as [|r0 r' [m Hcfg] Hsr]; subst. cbn [fst snd] in Hcfg.
    apply run_ok_ts_elim in Hok.
    destruct Hok as [Hdt [Ec [Eu [_ [T [Hb Htk]]]]]].
    cbn [runs_ops_t] in *. rewrite elapsed_app in Hhi. rewrite app_length in Hmax.
    pose proof (runs_elapsed_nonneg _ _ r Hr) as Er.
    assert (Id' : IdleT c e lo n x d) by (apply (idleT_spec c0 c); congruence).
    destruct (one_run_z c m e lo hi n x d dt ops Hcfg T Y Id' Hdt Hb Htk ltac:(lia) ltac:(lia)) as [d1 [Id1 [F1 W1]]].
    rewrite fst_run_app. set (x1 := fst (run x (run_t dt c ops))) in *.
    assert (Id1' : IdleT c0 e lo (n + length (run_t dt c ops)) x1 d1) by (apply (idleT_spec c c0); congruence).
    destruct (IH x1 d1 c0 (n + length (run_t dt c ops)) eq_refl eq_refl Hr Hsr Id1' ltac:(lia) ltac:(lia)) as [d2 [Id2 [F2 W2]]].
    exists d2. rewrite app_length, elapsed_app, Nat.add_assoc.
    split; [exact Id2|]. split; [|lia].
    rewrite F2, F1. cbn [strip List.map runs_files fst snd]. destruct Hcfg as [-> _]. reflexivity.
Qed.

Lemma runs_idle_z sp utc t0 off rs hi :
  Forall (run_ok_ts sp utc) rs -> Forall size_run rs ->
  let e := if utc then 0%Z else off in
  years_ok e t0 hi -> (t0 + elapsed (runs_ops_t rs) <= hi)%Z -> (N.of_nat (length (runs_ops_t rs)) <= usize_max)%N ->
  exists d', IdleT (sp_config_utc sp utc) e t0 (length (runs_ops_t rs)) (fst (run (sys0 t0 off) (runs_ops_t rs))) d'
    /\ files_of (vwT d') = runs_files [] (strip rs)
    /\ wnow (s_w (fst (run (sys0 t0 off) (runs_ops_t rs)))) = (t0 + elapsed (runs_ops_t rs))%Z.
Proof.
  intros Hrs Hsz e Y Hhi Hmax.
  pose proof (idleT0 (sp_config_utc sp utc) t0 off) as Id0. change (ts_e (sp_config_utc sp utc) off) with e in Id0.
  destruct (runs_rel_z sp utc e t0 hi Y rs (sys0 t0 off) None (sp_config_utc sp utc) 0 eq_refl eq_refl Hrs Hsz Id0
              ltac:(cbn [sys0 s_w world0 wnow]; lia) ltac:(cbn [Nat.add]; exact Hmax)) as [d' [Id [F W]]].
  cbn [sys0 s_w world0 wnow] in W. cbn [Nat.add] in Id. exists d'. split; [exact Id|]. split; [exact F | exact W].
Qed.

(* ================================================================== THE THEOREMS *)
(* C08 for any number of runs on one directory under Timestamps naming, each run with its own size limit, buffer capacity
   and append flag; before each run (and within the runs) the clock may advance.  The directory is empty and nothing is
   expected, or what is expected - the fold of files_after over the runs (NumAppendPartition.v: with append the content found
   counts, without append rCURRENT is closed at the first write, a run without a write changes nothing) - is closed ++ [cur]
   and the directory consists exactly of the closed files, named by their keys in the order of closing, and rCURRENT. *)
Theorem timestamps_runs_partition sp utc t0 off rs :
  Forall (run_ok_ts sp utc) rs -> Forall (fun r => exists m, tscfg (snd (fst r)) (CSize m)) rs ->
  let e := if utc then 0%Z else off in
  (0 <= t0 + e)%Z -> (t0 + elapsed (runs_ops_t rs) + e < sec_max)%Z -> (N.of_nat (length (runs_ops_t rs)) <= usize_max)%N ->
  let f := wfs (s_w (fst (run (sys0 t0 off) (runs_ops_t rs)))) in
  (runs_files [] (strip rs) = [] /\ names f = [])
  \/ exists keys closed cur,
       runs_files [] (strip rs) = closed ++ [cur]
       /\ (forall c, c_spec c = sp -> ts_view c e f keys closed cur)
       /\ keys_ok keys
       /\ (forall k, In k keys -> (t0 <= fst k <= t0 + elapsed (runs_ops_t rs))%Z).
Proof.
  intros Hrs Hsz e Hlo Hhi Hmax f.
  assert (Y : years_ok e t0 (t0 + elapsed (runs_ops_t rs))) by (split; assumption).
  destruct (runs_idle_z sp utc t0 off rs _ Hrs Hsz Y ltac:(lia) Hmax) as [d' [Id [F W]]]. fold e in Id. fold f in Id.
  destruct d' as [[[[keys closed] cur] ts]|]; cbn [vwT files_of] in F.
  - right. destruct (idleT_view sp (sp_config_utc sp utc) e t0 _ _ keys closed cur ts eq_refl Id) as [V [K [Rg Rt]]].
    exists keys, closed, cur. split; [symmetry; exact F|]. split; [intros c Ec; exact (proj1 (V c Ec))|]. split; [exact K|].
    intros k Ik. specialize (Rg k Ik). lia.
  - left. split; [symmetry; exact F | exact (idleT_none _ _ _ _ _ Id)].
Qed.
Print Assumptions timestamps_runs_partition.

(* the rotation flag of every write of a run that follows any number of runs (the run is still going on): a rotation is
   reported exactly when the bytes counted for the current file exceed the limit; they start with the content found in
   rCURRENT iff the run appends *)
Theorem timestamps_runs_rotates_iff sp utc t0 off rs dt c m ops i o b :
  Forall (run_ok_ts sp utc) rs -> Forall (fun r => exists m, tscfg (snd (fst r)) (CSize m)) rs ->
  run_ok_ts sp utc (dt, c, ops) -> tscfg c (CSize m) ->
  let e := if utc then 0%Z else off in
  (0 <= t0 + e)%Z -> (t0 + elapsed (runs_ops_t rs) + dt + elapsed ops + e < sec_max)%Z ->
  (N.of_nat (length (runs_ops_t rs) + S (length ops)) <= usize_max)%N ->
  nth_error ops i = Some o -> (o = OWrite b \/ o = OPlain b) ->
  nth_error (snd (run (fst (run (sys0 t0 off) (runs_ops_t rs))) (OTick dt :: OStart c :: ops))) (S (S i))
  = Some (ObsRes 0 (m <? N.of_nat (length (cur_before m (start_of (runs_files [] (strip rs)) (c_append c)) (firstn i ops))))%N).
Proof.
  intros Hrs Hsz Hok Hcfg e Hlo Hhi Hmax Hi Hw.
  apply run_ok_ts_elim in Hok. destruct Hok as [Hdt [Ec [Eu [_ [T [Hb Htk]]]]]].
  pose proof (elapsed_nonneg ops Htk) as Eo.
  set (hi := (t0 + elapsed (runs_ops_t rs) + dt + elapsed ops)%Z).
  assert (Y : years_ok e t0 hi) by (split; [exact Hlo | unfold hi; lia]).
  destruct (runs_idle_z sp utc t0 off rs hi Hrs Hsz Y ltac:(unfold hi; lia) ltac:(lia)) as [d' [Id [F W]]]. fold e in Id.
  rewrite <- F.
  apply (one_run_flags_z c m e t0 hi (length (runs_ops_t rs)) _ d' dt ops i o b Hcfg T Y); try assumption.
  - apply (idleT_spec (sp_config_utc sp utc) c); [symmetry; exact Ec | symmetry; exact Eu | exact Id].
  - rewrite W. unfold hi. lia.
  - lia.
Qed.
Print Assumptions timestamps_runs_rotates_iff.

(* ================================================================== two runs *)
Lemma partition_nonnil lim items : forall cl cu, partition lim cl cu items <> [].
Proof.
  induction items as [|[r|] rest IH]; intros cl cu; cbn [partition].
  - destruct cl; discriminate.
  - destruct (lim <? N.of_nat (length cu))%N; apply IH.
  - apply IH.
Qed.

Lemma expected_some_nonnil lim s items : expected_files lim (Some s) items <> [].
Proof. unfold expected_files. destruct (has_rec items); [apply partition_nonnil | discriminate]. Qed.

Lemma files_after_nil app m ops : files_after [] app m ops = expected_files m None (items false ops).
Proof. unfold files_after. destruct app; reflexivity. Qed.

Lemma runs_files_two dt1 dt2 c1 c2 m1 m2 ops1 ops2 : tscfg c1 (CSize m1) -> tscfg c2 (CSize m2) ->
  runs_files [] (strip [(dt1, c1, ops1); (dt2, c2, ops2)])
  = files_after (expected_files m1 None (items false ops1)) (c_append c2) m2 ops2.
Proof.
  intros [E1 _] [E2 _]. cbn [strip List.map runs_files fst snd]. rewrite E1, E2, files_after_nil. reflexivity.
Qed.

Lemma files_after_append closed1 cur1 m ops :
  files_after (closed1 ++ [cur1]) true m ops = closed1 ++ expected_files m (Some cur1) (items false ops).
Proof.
  unfold files_after. destruct (closed1 ++ [cur1]) eqn:E0; [destruct closed1; discriminate|]. rewrite <- E0.
  rewrite removelast_last, last_last. reflexivity.
Qed.

Lemma start_of_append closed1 cur1 : start_of (closed1 ++ [cur1]) true = Some cur1.
Proof. unfold start_of. destruct (closed1 ++ [cur1]) eqn:E0; [destruct closed1; discriminate|]. rewrite <- E0, last_last. reflexivity. Qed.

Definition two_runs (dt1 : Z) (c1 : config) (ops1 : list op) (dt2 : Z) (c2 : config) (ops2 : list op) : list trun :=
  [(dt1, c1, ops1); (dt2, c2, ops2)].

(* 1. Two runs, the second one appending: the content found in rCURRENT counts from the first write on; the file that was
   rCURRENT is continued and - when it is closed - named by the second of ITS creation in run 1. *)
Theorem timestamps_append_partition sp utc t0 off dt1 c1 m1 ops1 dt2 c2 m2 ops2 closed1 cur1 :
  run_ok_ts sp utc (dt1, c1, ops1) -> run_ok_ts sp utc (dt2, c2, ops2) ->
  tscfg c1 (CSize m1) -> tscfg c2 (CSize m2) -> c_append c2 = true ->
  expected_files m1 None (items false ops1) = closed1 ++ [cur1] ->
  let rs := two_runs dt1 c1 ops1 dt2 c2 ops2 in
  let e := if utc then 0%Z else off in
  (0 <= t0 + e)%Z -> (t0 + elapsed (runs_ops_t rs) + e < sec_max)%Z -> (N.of_nat (length (runs_ops_t rs)) <= usize_max)%N ->
  let f := wfs (s_w (fst (run (sys0 t0 off) (runs_ops_t rs)))) in
  exists keys closed cur,
    closed1 ++ expected_files m2 (Some cur1) (items false ops2) = closed ++ [cur]
    /\ (forall c, c_spec c = sp -> ts_view c e f keys closed cur)
    /\ keys_ok keys
    /\ (forall k, In k keys -> (t0 <= fst k <= t0 + elapsed (runs_ops_t rs))%Z).
Proof.
  intros Hok1 Hok2 Hcfg1 Hcfg2 Happ E1 rs e Hlo Hhi Hmax f.
  assert (Hrs : Forall (run_ok_ts sp utc) rs) by (unfold rs, two_runs; apply Forall_cons; [exact Hok1|]; apply Forall_cons; [exact Hok2 | apply Forall_nil]).
  assert (Hsz : Forall (fun r => exists m, tscfg (snd (fst r)) (CSize m)) rs)
    by (unfold rs, two_runs; apply Forall_cons; [exists m1; exact Hcfg1|]; apply Forall_cons; [exists m2; exact Hcfg2 | apply Forall_nil]).
  pose proof (timestamps_runs_partition sp utc t0 off rs Hrs Hsz Hlo Hhi Hmax) as H. cbv zeta in H. fold e f in H.
  assert (RF : runs_files [] (strip rs) = files_after (expected_files m1 None (items false ops1)) (c_append c2) m2 ops2)
    by exact (runs_files_two dt1 dt2 c1 c2 m1 m2 ops1 ops2 Hcfg1 Hcfg2).
  rewrite RF, E1, Happ, files_after_append in H.
  destruct H as [[H _]|H]; [|exact H].
  exfalso. apply app_eq_nil in H. destruct H as [_ H]. exact (expected_some_nonnil _ _ _ H).
Qed.
Print Assumptions timestamps_append_partition.

(* the rotation flags of the appending run.  The operations before the first write of the run do not count
   (from_first_write): the writer opens rCURRENT at its first write, a trigger before that does nothing. *)
Theorem timestamps_append_rotates_iff sp utc t0 off dt1 c1 m1 ops1 dt2 c2 m2 ops2 closed1 cur1 i o b :
  run_ok_ts sp utc (dt1, c1, ops1) -> run_ok_ts sp utc (dt2, c2, ops2) ->
  tscfg c1 (CSize m1) -> tscfg c2 (CSize m2) -> c_append c2 = true ->
  expected_files m1 None (items false ops1) = closed1 ++ [cur1] ->
  let e := if utc then 0%Z else off in
  (0 <= t0 + e)%Z -> (t0 + elapsed (run_t dt1 c1 ops1) + dt2 + elapsed ops2 + e < sec_max)%Z ->
  (N.of_nat (length (run_t dt1 c1 ops1) + S (length ops2)) <= usize_max)%N ->
  nth_error ops2 i = Some o -> (o = OWrite b \/ o = OPlain b) ->
  nth_error (snd (run (fst (run (sys0 t0 off) (run_t dt1 c1 ops1))) (OTick dt2 :: OStart c2 :: ops2))) (S (S i))
  = Some (ObsRes 0 (m2 <? N.of_nat (length (cur_of (s_run m2 (Some ([], cur1)) (from_first_write (firstn i ops2))))))%N).
Proof.
  intros Hok1 Hok2 Hcfg1 Hcfg2 Happ E1 e Hlo Hhi Hmax Hi Hw.
  assert (Hrs : Forall (run_ok_ts sp utc) [(dt1, c1, ops1)]) by (apply Forall_cons; [exact Hok1 | apply Forall_nil]).
  assert (Hsz : Forall (fun r => exists m, tscfg (snd (fst r)) (CSize m)) [(dt1, c1, ops1)])
    by (apply Forall_cons; [exists m1; exact Hcfg1 | apply Forall_nil]).
  pose proof (timestamps_runs_rotates_iff sp utc t0 off [(dt1, c1, ops1)] dt2 c2 m2 ops2 i o b Hrs Hsz Hok2 Hcfg2) as H.
  cbv zeta in H. cbn [runs_ops_t] in H. rewrite app_nil_r in H. fold e in H.
  rewrite (H Hlo Hhi Hmax Hi Hw). cbn [strip List.map runs_files fst snd]. destruct Hcfg1 as [-> _].
  rewrite files_after_nil, E1, Happ, start_of_append. reflexivity.
Qed.
Print Assumptions timestamps_append_rotates_iff.

(* 2. Two runs, the second one NOT appending: whatever the first run left (also nothing) stays; rCURRENT of run 1 is closed
   - under the second of its creation - when run 2 writes for the first time; the files of run 2 are those of a fresh start. *)
Theorem timestamps_noappend_partition sp utc t0 off dt1 c1 m1 ops1 dt2 c2 m2 ops2 :
  run_ok_ts sp utc (dt1, c1, ops1) -> run_ok_ts sp utc (dt2, c2, ops2) ->
  tscfg c1 (CSize m1) -> tscfg c2 (CSize m2) -> c_append c2 = false ->
  let rs := two_runs dt1 c1 ops1 dt2 c2 ops2 in
  let e := if utc then 0%Z else off in
  (0 <= t0 + e)%Z -> (t0 + elapsed (runs_ops_t rs) + e < sec_max)%Z -> (N.of_nat (length (runs_ops_t rs)) <= usize_max)%N ->
  let f := wfs (s_w (fst (run (sys0 t0 off) (runs_ops_t rs)))) in
  let files := expected_files m1 None (items false ops1) ++ expected_files m2 None (items false ops2) in
  (files = [] /\ names f = [])
  \/ exists keys closed cur,
       files = closed ++ [cur]
       /\ (forall c, c_spec c = sp -> ts_view c e f keys closed cur)
       /\ keys_ok keys
       /\ (forall k, In k keys -> (t0 <= fst k <= t0 + elapsed (runs_ops_t rs))%Z).
Proof.
  intros Hok1 Hok2 Hcfg1 Hcfg2 Happ rs e Hlo Hhi Hmax f files.
  assert (Hrs : Forall (run_ok_ts sp utc) rs) by (unfold rs, two_runs; apply Forall_cons; [exact Hok1|]; apply Forall_cons; [exact Hok2 | apply Forall_nil]).
  assert (Hsz : Forall (fun r => exists m, tscfg (snd (fst r)) (CSize m)) rs)
    by (unfold rs, two_runs; apply Forall_cons; [exists m1; exact Hcfg1|]; apply Forall_cons; [exists m2; exact Hcfg2 | apply Forall_nil]).
  pose proof (timestamps_runs_partition sp utc t0 off rs Hrs Hsz Hlo Hhi Hmax) as H. cbv zeta in H. fold e f in H.
  assert (RF : runs_files [] (strip rs) = files_after (expected_files m1 None (items false ops1)) (c_append c2) m2 ops2)
    by exact (runs_files_two dt1 dt2 c1 c2 m1 m2 ops1 ops2 Hcfg1 Hcfg2).
  rewrite RF, Happ in H.
  unfold files_after in H. exact H.
Qed.
Print Assumptions timestamps_noappend_partition.

Theorem timestamps_noappend_rotates_iff sp utc t0 off dt1 c1 m1 ops1 dt2 c2 m2 ops2 i o b :
  run_ok_ts sp utc (dt1, c1, ops1) -> run_ok_ts sp utc (dt2, c2, ops2) ->
  tscfg c1 (CSize m1) -> tscfg c2 (CSize m2) -> c_append c2 = false ->
  let e := if utc then 0%Z else off in
  (0 <= t0 + e)%Z -> (t0 + elapsed (run_t dt1 c1 ops1) + dt2 + elapsed ops2 + e < sec_max)%Z ->
  (N.of_nat (length (run_t dt1 c1 ops1) + S (length ops2)) <= usize_max)%N ->
  nth_error ops2 i = Some o -> (o = OWrite b \/ o = OPlain b) ->
  nth_error (snd (run (fst (run (sys0 t0 off) (run_t dt1 c1 ops1))) (OTick dt2 :: OStart c2 :: ops2))) (S (S i))
  = Some (ObsRes 0 (m2 <? N.of_nat (length (cur_of (s_run m2 None (firstn i ops2)))))%N).
Proof.
  intros Hok1 Hok2 Hcfg1 Hcfg2 Happ e Hlo Hhi Hmax Hi Hw.
  assert (Hrs : Forall (run_ok_ts sp utc) [(dt1, c1, ops1)]) by (apply Forall_cons; [exact Hok1 | apply Forall_nil]).
  assert (Hsz : Forall (fun r => exists m, tscfg (snd (fst r)) (CSize m)) [(dt1, c1, ops1)])
    by (apply Forall_cons; [exists m1; exact Hcfg1 | apply Forall_nil]).
  pose proof (timestamps_runs_rotates_iff sp utc t0 off [(dt1, c1, ops1)] dt2 c2 m2 ops2 i o b Hrs Hsz Hok2 Hcfg2) as H.
  cbv zeta in H. cbn [runs_ops_t] in H. rewrite app_nil_r in H. fold e in H.
  rewrite (H Hlo Hhi Hmax Hi Hw). unfold start_of. rewrite Happ. reflexivity.
Qed.
Print Assumptions timestamps_noappend_rotates_iff.

(* ================================================================== examples (non-vacuity) *)
Open Scope string_scope.
Definition tap_c1 : config := ext_cfg rs_sp false (CSize 3) None false.
Definition tap_c2 : config := ext_cfg rs_sp true (CSize 5) (Some 3%nat) false.      (* appending, buffered *)
Definition tap_c2n : config := ext_cfg rs_sp false (CSize 5) (Some 3%nat) false.    (* not appending *)
Definition tap_ops1 : list op := [OWrite (bs "abcd"); OWrite (bs "ef"); OTrigger; OWrite (bs "ghij")].
Definition tap_ops2 : list op := [OFlush; OWrite (bs "kl"); OTick 7; OWrite (bs "mn"); OPlain (bs "op")].
Definition tap_rs : list trun := two_runs 0 tap_c1 tap_ops1 5 tap_c2 tap_ops2.
Definition tap_rsn : list trun := two_runs 0 tap_c1 tap_ops1 5 tap_c2n tap_ops2.
Definition tap_rs4 : list trun :=
  [ (0%Z, tap_c1, tap_ops1); (5%Z, tap_c2, tap_ops2); (1%Z, tap_c2n, [OTrigger; OFlush]);
    (2%Z, ext_cfg rs_sp false (CSize 1) None false, [OPlain (bs "qr"); OWrite (bs "s")]) ].

Ltac tap_run_ok :=
  apply run_ok_ts_elim_rev; split; [lia|]; split; [reflexivity|]; split; [reflexivity|];
  split; [eexists; apply ext_cfg_ok; reflexivity|]; split; [apply ext_cfg_tag_ok|];
  split; [repeat constructor | repeat (apply Forall_cons; [cbn [tick_ok]; first [exact Logic.I | lia]|]); apply Forall_nil].

Lemma tap_ok1 : run_ok_ts rs_sp false (0%Z, tap_c1, tap_ops1). Proof. tap_run_ok. Qed.
Lemma tap_ok2 : run_ok_ts rs_sp false (5%Z, tap_c2, tap_ops2). Proof. tap_run_ok. Qed.
Lemma tap_ok2n : run_ok_ts rs_sp false (5%Z, tap_c2n, tap_ops2). Proof. tap_run_ok. Qed.

(* run 1 (limit 3, second 0) leaves abcd | ef | ghij (rCURRENT = ghij, created in second 0).  Run 2 (limit 5, append), started
   in second 5: "kl" is appended to the 4 bytes found (4 <= 5: no rotation), the clock advances to second 12, "mn" rotates
   because the 4 bytes found count (6 > 5) - a fresh start would not rotate here (2 <= 5) - and "ghijkl" is closed under the
   second of ITS creation, 0, the third name of that second *)
Example ts_append_partition_dir :
  snap_of (fst (run (sys0 0 0) (runs_ops_t tap_rs)))
  = [ (bs "app_r1970-01-01_00-00-00.log", 0%N, bs "abcd");
      (bs "app_r1970-01-01_00-00-00.restart-0000.log", 0%N, bs "ef");
      (bs "app_r1970-01-01_00-00-00.restart-0001.log", 0%N, bs "ghijkl");
      (bs "app_rCURRENT.log", 0%N, bs "mnop") ]
  /\ expected_files 3 None (items false tap_ops1) = [bs "abcd"; bs "ef"] ++ [bs "ghij"]
  /\ expected_files 5 (Some (bs "ghij")) (items false tap_ops2) = [bs "ghijkl"; bs "mnop"]
  /\ expected_files 5 None (items false tap_ops2) = [bs "klmnop"].
Proof. repeat split; vm_compute; reflexivity. Qed.

(* the theorem applies: its hypotheses can be met, and it yields this view *)
Example ts_append_partition_instance :
  exists keys closed cur,
    [bs "abcd"; bs "ef"; bs "ghijkl"; bs "mnop"] = closed ++ [cur]
    /\ (forall c, c_spec c = rs_sp -> ts_view c 0 (wfs (s_w (fst (run (sys0 0 0) (runs_ops_t tap_rs))))) keys closed cur)
    /\ keys_ok keys /\ (forall k, In k keys -> (0 <= fst k <= 12)%Z).
Proof.
  change [bs "abcd"; bs "ef"; bs "ghijkl"; bs "mnop"] with ([bs "abcd"; bs "ef"] ++ expected_files 5 (Some (bs "ghij")) (items false tap_ops2)).
  apply (timestamps_append_partition rs_sp false 0 0 0 tap_c1 3 tap_ops1 5 tap_c2 5 tap_ops2 [bs "abcd"; bs "ef"] (bs "ghij") tap_ok1 tap_ok2).
  - apply ext_cfg_ok. reflexivity.
  - apply ext_cfg_ok. reflexivity.
  - reflexivity.
  - vm_compute. reflexivity.
  - change (0 <= 0)%Z. lia.
  - change (12 + 0 < sec_max)%Z. unfold sec_max. lia.
  - vm_compute. discriminate.
Qed.

(* the flags of run 2 as observed (tick, start, flush, "kl", tick, "mn", "op"), and as the theorem computes them
   (operation 3 of run 2 is OWrite "mn") *)
Example ts_append_rotates_flags :
  List.map rot_of (snd (run (fst (run (sys0 0 0) (run_t 0 tap_c1 tap_ops1))) (OTick 5 :: OStart tap_c2 :: tap_ops2)))
  = [false; false; false; false; false; true; false]
  /\ (5 <? N.of_nat (length (cur_of (s_run 5 (Some ([], bs "ghij")) (from_first_write (firstn 3 tap_ops2))))))%N = true
  /\ (5 <? N.of_nat (length (cur_of (s_run 5 None (firstn 3 tap_ops2)))))%N = false.
Proof. vm_compute. repeat split. Qed.

Example ts_append_rotates_instance :
  nth_error (snd (run (fst (run (sys0 0 0) (run_t 0 tap_c1 tap_ops1))) (OTick 5 :: OStart tap_c2 :: tap_ops2))) 5
  = Some (ObsRes 0 true).
Proof.
  rewrite (timestamps_append_rotates_iff rs_sp false 0 0 0 tap_c1 3 tap_ops1 5 tap_c2 5 tap_ops2 [bs "abcd"; bs "ef"] (bs "ghij")
             3 (OWrite (bs "mn")) (bs "mn") tap_ok1 tap_ok2).
  - vm_compute. reflexivity.
  - apply ext_cfg_ok. reflexivity.
  - apply ext_cfg_ok. reflexivity.
  - reflexivity.
  - vm_compute. reflexivity.
  - change (0 <= 0)%Z. lia.
  - change (0 + 0 + 5 + 7 + 0 < sec_max)%Z. unfold sec_max. lia.
  - vm_compute. discriminate.
  - reflexivity.
  - left. reflexivity.
Qed.

(* without append: rCURRENT of run 1 ("ghij", created in second 0) is closed at the first write of run 2 - in second 5 - under
   the third name of second 0, and run 2 partitions as from a fresh start: no write of run 2 rotates *)
Example ts_noappend_partition_dir :
  snap_of (fst (run (sys0 0 0) (runs_ops_t tap_rsn)))
  = [ (bs "app_r1970-01-01_00-00-00.log", 0%N, bs "abcd");
      (bs "app_r1970-01-01_00-00-00.restart-0000.log", 0%N, bs "ef");
      (bs "app_r1970-01-01_00-00-00.restart-0001.log", 0%N, bs "ghij");
      (bs "app_rCURRENT.log", 0%N, bs "klmnop") ]
  /\ List.map rot_of (snd (run (fst (run (sys0 0 0) (run_t 0 tap_c1 tap_ops1))) (OTick 5 :: OStart tap_c2n :: tap_ops2)))
     = [false; false; false; false; false; false; false].
Proof. split; vm_compute; reflexivity. Qed.

Example ts_noappend_partition_instance :
  exists keys closed cur,
    [bs "abcd"; bs "ef"; bs "ghij"] ++ [bs "klmnop"] = closed ++ [cur]
    /\ (forall c, c_spec c = rs_sp -> ts_view c 0 (wfs (s_w (fst (run (sys0 0 0) (runs_ops_t tap_rsn))))) keys closed cur)
    /\ keys_ok keys /\ (forall k, In k keys -> (0 <= fst k <= 12)%Z).
Proof.
  destruct (timestamps_noappend_partition rs_sp false 0 0 0 tap_c1 3 tap_ops1 5 tap_c2n 5 tap_ops2 tap_ok1 tap_ok2n) as [[H _]|H];
    [apply ext_cfg_ok; reflexivity | apply ext_cfg_ok; reflexivity | reflexivity | change (0 <= 0)%Z; lia
     | change (12 + 0 < sec_max)%Z; unfold sec_max; lia | vm_compute; discriminate | vm_compute in H; discriminate H | exact H].
Qed.

(* four runs: fresh / append / no write at all (it even triggers a rotation: nothing happens) / no append *)
Example ts_runs_partition_dir :
  snap_of (fst (run (sys0 0 0) (runs_ops_t tap_rs4)))
  = [ (bs "app_r1970-01-01_00-00-00.log", 0%N, bs "abcd");
      (bs "app_r1970-01-01_00-00-00.restart-0000.log", 0%N, bs "ef");
      (bs "app_r1970-01-01_00-00-00.restart-0001.log", 0%N, bs "ghijkl");
      (bs "app_r1970-01-01_00-00-12.log", 0%N, bs "mnop");
      (bs "app_r1970-01-01_00-00-15.log", 0%N, bs "qr");
      (bs "app_rCURRENT.log", 0%N, bs "s") ]
  /\ runs_files [] (strip tap_rs4) = [bs "abcd"; bs "ef"; bs "ghijkl"; bs "mnop"; bs "qr"; bs "s"].
Proof. split; vm_compute; reflexivity. Qed.

Lemma tap_rs4_ok : Forall (run_ok_ts rs_sp false) tap_rs4.
Proof. unfold tap_rs4. repeat (apply Forall_cons; [tap_run_ok|]). apply Forall_nil. Qed.

Lemma tap_rs4_size : Forall (fun r => exists m, tscfg (snd (fst r)) (CSize m)) tap_rs4.
Proof. unfold tap_rs4. repeat (apply Forall_cons; [eexists; apply ext_cfg_ok; reflexivity|]). apply Forall_nil. Qed.

Example ts_runs_partition_instance :
  exists keys closed cur,
    [bs "abcd"; bs "ef"; bs "ghijkl"; bs "mnop"; bs "qr"; bs "s"] = closed ++ [cur]
    /\ (forall c, c_spec c = rs_sp -> ts_view c 0 (wfs (s_w (fst (run (sys0 0 0) (runs_ops_t tap_rs4))))) keys closed cur)
    /\ keys_ok keys /\ (forall k, In k keys -> (0 <= fst k <= 15)%Z).
Proof.
  destruct (timestamps_runs_partition rs_sp false 0 0 tap_rs4 tap_rs4_ok tap_rs4_size) as [[H _]|H];
    [change (0 <= 0)%Z; lia | change (15 + 0 < sec_max)%Z; unfold sec_max; lia | vm_compute; discriminate
     | vm_compute in H; discriminate H | exact H].
Qed.

(* the flag of the second write of the fourth run ("s": the current file holds "qr", 2 > 1), by the theorem *)
Example ts_runs_rotates_instance :
  nth_error (snd (run (fst (run (sys0 0 0) (runs_ops_t (firstn 3 tap_rs4))))
                      (OTick 2 :: OStart (ext_cfg rs_sp false (CSize 1) None false) :: [OPlain (bs "qr"); OWrite (bs "s")]))) 3
  = Some (ObsRes 0 true).
Proof.
  rewrite (timestamps_runs_rotates_iff rs_sp false 0 0 (firstn 3 tap_rs4) 2 (ext_cfg rs_sp false (CSize 1) None false) 1
             [OPlain (bs "qr"); OWrite (bs "s")] 1 (OWrite (bs "s")) (bs "s")).
  - vm_compute. reflexivity.
  - apply FL.Flw.NumDTheorems.firstn_Forall. exact tap_rs4_ok.
  - apply FL.Flw.NumDTheorems.firstn_Forall. exact tap_rs4_size.
  - tap_run_ok.
  - apply ext_cfg_ok. reflexivity.
  - change (0 <= 0)%Z. lia.
  - change (0 + 13 + 2 + 0 + 0 < sec_max)%Z. unfold sec_max. lia.
  - vm_compute. discriminate.
  - reflexivity.
  - left. reflexivity.
Qed.

(* as for Numbers naming (NumAppendPartition.append_trigger_before_first_write): a trigger issued on the appending writer
   before its first write does nothing, the content found still counts at the first write (limit 3, "ghij" found: the
   first write rotates); hence from_first_write in the statements *)
Example ts_append_trigger_before_first_write :
  nth_error (snd (run (fst (run (sys0 0 0) (run_t 0 tap_c1 tap_ops1)))
                      (OTick 5 :: OStart (ext_cfg rs_sp true (CSize 3) (Some 3%nat) false) :: [OTrigger; OWrite (bs "kl")]))) 3
  = Some (ObsRes 0 true)
  /\ (3 <? N.of_nat (length (cur_of (s_run 3 (Some ([], bs "ghij")) (firstn 1 [OTrigger; OWrite (bs "kl")])))))%N = false
  /\ (3 <? N.of_nat (length (cur_of (s_run 3 (Some ([], bs "ghij")) (from_first_write (firstn 1 [OTrigger; OWrite (bs "kl")]))))))%N = true.
Proof. vm_compute. repeat split. Qed.
