(* NumbersDirect naming with cleanup, part 1: one run of the cleanup (cleanup_impl with cur = Some (the file being
   written), the repaired code: the loop skips that entry; here it is at position 0 and kept anyway) on a directory
   of the shape "plain files r<i> for mid <= i < L, archives r<i>.gz for lo <= i < mid" - there is no rCURRENT: the file
   that is being written is the newest numbered file r<L-1>, and it IS PART OF THE LISTING that the cleanup works on
   (position 0, the listing is newest first).  What protects it:  the cleanup is told which file it is (cur) and skips it
   (repaired code, CurrentSpared.v); cleanup_impl also raises a log limit of 0 to 1 for the direct namings, so position 0 is
   always in the "keep as it is" part.  Consequence for the limits:
     KeepLogFiles(n)                  keeps n plain files IN TOTAL, the current one included: n - 1 closed files (n >= 1);
     KeepLogFiles(0)                  keeps the current file only;
     KeepCompressedFiles(m)           = KeepLogAndCompressedFiles(0, m) = KeepLogAndCompressedFiles(1, m):
                                      the current file stays plain, the m closed files before it are archives;
     KeepLogAndCompressedFiles(n, m)  n >= 1: the current file and n - 1 closed files plain, the next m as archives.
   klimd gives these effective limits (plain files including the current one, archives).
   The names, the listing and the directory description (kdir) are those of Numbers naming (NumCleanupNames.v,
   NumCleanupStep.v): a directory without rCURRENT satisfies them as well. *)
Require Import FL.Base.Bytes FL.Base.BytesFacts FL.Base.PathName FL.Fs.Fs FL.Fs.FsFacts FL.Time.Civil FL.Time.TsFormat
  FL.Names.FileSpec FL.Names.NamesFacts FL.Names.SortFacts FL.Names.FamilyFacts FL.Flw.Model FL.Flw.ModelFacts FL.Flw.NumFs
  FL.Flw.NumInv FL.Flw.Run FL.Flw.NumRun FL.Flw.NumListing FL.Flw.CleanupFacts FL.Flw.NumCleanupNames FL.Flw.NumCleanupStep.
From Coq Require Import ZifyN ZifyNat ZifyBool.
Open Scope nat_scope.

(* ------------------------------------------------------------------ the effective limits of a direct naming *)
(* (plain files kept, the file being written included; files kept as archives) *)
Definition klimd (k : cleanup) : option (nat * nat) :=
  match klim k with Some (n, m) => Some (Nat.max 1 n, m) | None => None end.

Lemma klimd_pos k n m : klimd k = Some (n, m) -> 1 <= n.
Proof. unfold klimd. destruct (klim k) as [[a b]|]; [|discriminate]. intros H. assert (E : n = Nat.max 1 a) by congruence. lia. Qed.
Lemma klimd_none k : klimd k = None -> k = KNever.
Proof. unfold klimd. destruct k; cbn [klim]; congruence. Qed.
Lemma klimd_klim k : klimd k = None <-> klim k = None.
Proof. unfold klimd. destruct (klim k) as [[a b]|]; split; congruence. Qed.

Lemma cleanup_impl_unfold_d c w k flt n m p : klimd k = Some (n, m) -> quiet w ->
  cleanup_impl c w k flt (Some p) =
  match list_log_gz (woff w) (c_spec c) (fixed_of c w) (wfs w) flt with
  | None => (Panic, w)
  | Some files =>
    let '(ok0, w1', files') := remove_redundant w (redundant_gz files) files in
    if negb ok0 then (Err, w1') else
    let '(ok, w2) := cleanup_loop w1' files' 0 n (n + m) (Some p) in ((if ok then Ok tt else Err), w2)
  end.
Proof.
  intros H Q. unfold klimd in H.
  destruct k as [|a|b|a b]; cbn [klim] in H; try discriminate; injection H as <- <-;
    unfold cleanup_impl; cbn [andb]; rewrite (tick_quiet w Q); try (destruct a as [|a]); reflexivity.
Qed.

(* ------------------------------------------------------------------ ONE CLEANUP (direct) *)
(* `closed` lists the contents of ALL numbered files, the one being written included (it is the last entry).
   Besides the new shape: the files that stay plain are untouched (same inode, same content) - in particular the last one,
   because the first limit is at least 1. *)
Theorem cleanup_numbers_d c w k n m closed lo mid :
  fts (c_spec c) = false -> sfx_ok (c_spec c) ->
  klimd k = Some (n, m) ->
  quiet w -> fs_wf (wfs w) -> kdir c (wfs w) closed lo mid ->
  exists w', cleanup_impl c w k IFNum (Some (rname c (length closed - 1))) = (Ok tt, w') /\ same_env w w' /\ fs_wf (wfs w')
    /\ kdir c (wfs w') closed (Nat.max lo (length closed - (n + m))) (Nat.max mid (length closed - n))
    /\ same_at (wfs w) (wfs w') (cname c)
    /\ (forall i, Nat.max mid (length closed - n) <= i < length closed -> same_at (wfs w) (wfs w') (rname c i)).
Proof.
  intros Hts Hsfx Hk Q W KD. set (L := length closed) in *. set (f := wfs w) in *.
  pose proof (kd_le _ _ _ _ _ KD) as Hle. fold L in Hle.
  pose proof KD as [_ Hnd Hp Ha Hon]. fold L in Hp, Hon.
  rewrite (cleanup_impl_unfold_d c w k IFNum n m (rname c (L - 1)) Hk Q), (fixed_of_fixed0 c w Hts).
  fold f. rewrite (list_log_gz_numbers c f (woff w) lo mid L Hsfx (kdir_shape _ _ _ _ _ KD)).
  rewrite (listing_no_redundant c lo mid L Hsfx Hle). cbn [remove_redundant negb].
  set (files := listing c lo mid L).
  assert (Ex : forall i, lo <= i < L -> lookup f (entry c mid i) <> None).
  { intros i Hi. destruct (Nat.le_gt_cases mid i) as [H|H].
    - rewrite entry_plain by exact H. destruct (Hp i ltac:(lia)) as (j & Lj & _). congruence.
    - rewrite entry_arch by exact H. destruct (Ha i ltac:(lia)) as (j & Lj & _). congruence. }
  assert (NoG : forall i, mid <= i -> lookup f (gname c i) = None).
  { intros i Hi. destruct (lookup f (gname c i)) as [j|] eqn:E; [exfalso | reflexivity].
    destruct (Hon _ _ E) as [X|[(i' & Hi' & X)|(i' & Hi' & X)]].
    - exact (gname_not_cname _ _ X).
    - exact (gname_not_rname _ _ _ Hsfx X).
    - apply gname_inj in X. lia. }
  assert (Pos : forall k x, nth_error files k = Some x -> k < L - lo /\ x = entry c mid (L - 1 - k)).
  { intros k0 x. apply listing_nth_inv. exact Hle. }
  assert (Zone : forall k x, nth_error files k = Some x -> ext_is x gz_sfx = false ->
                 mid <= L - 1 - k /\ x = rname c (L - 1 - k)).
  { intros k0 x Hk0 He. destruct (Pos _ _ Hk0) as [Hk1 ->]. rewrite entry_ext in He by exact Hsfx.
    destruct (Nat.leb_spec mid (L - 1 - k0)); [|discriminate]. split; [assumption | apply entry_plain; assumption]. }
  (* the file being written is at position 0 of the listing, if it is listed at all: skipping it changes nothing *)
  assert (Ecur : cleanup_loop w files 0 n (n + m) (Some (rname c (L - 1))) = cleanup_loop w files 0 n (n + m) None).
  { apply cleanup_loop_cur_kept. intros k0 Hk0. cbn [Nat.add]. destruct (Pos _ _ Hk0) as [Hk1 Ee].
    assert (k0 = 0).
    { unfold entry in Ee. destruct (mid <=? L - 1 - k0).
      - apply rname_inj in Ee. lia.
      - exfalso. exact (gname_not_rname _ _ _ Hsfx (eq_sym Ee)). }
    subst k0. apply act_keep. pose proof (klimd_pos _ _ _ Hk). split; [lia | left; lia]. }
  rewrite Ecur.
  destruct (cleanup_loop_spec w files 0 n (n + m) Q W (listing_nodup c lo mid L Hsfx Hle)) as (w' & E & S & W' & O & Fr).
  { intros k0 x Hk0 _. destruct (Pos _ _ Hk0) as [Hk1 ->]. apply Ex. lia. }
  { intros k0 x Hk0 _ He Hin. destruct (Zone _ _ Hk0 He) as [Hm ->]. fold (gname c (L - 1 - k0)) in Hin.
    apply listing_in in Hin; [|exact Hle]. destruct Hin as [(j & Hj & X)|(j & Hj & X)].
    - exact (gname_not_rname _ _ _ Hsfx X).
    - apply gname_inj in X. lia. }
  { intros k0 x Hk0 _ He. destruct (Zone _ _ Hk0 He) as [Hm ->]. apply not_dir_missing. apply NoG. exact Hm. }
  cbn [Nat.add] in O. fold f in O, Fr.
  exists w'. rewrite E. split; [reflexivity|]. split; [exact S|]. split; [exact W'|].
  set (f' := wfs w') in *.
  assert (Of : forall i, lo <= i < L ->
             (n + m <= L - 1 - i -> lookup f' (entry c mid i) = None)
             /\ (L - 1 - i < n + m -> L - 1 - i < n \/ ext_is (entry c mid i) gz_sfx = true -> same_at f f' (entry c mid i))
             /\ (n <= L - 1 - i < n + m -> ext_is (entry c mid i) gz_sfx = false -> archived f f' (entry c mid i))).
  { intros i Hi. apply (O (L - 1 - i)). apply listing_nth_of; assumption. }
  assert (NDf' : nodup_names f').
  { unfold f'. replace w' with (snd (cleanup_loop w files 0 n (n + m) None)) by (rewrite E; reflexivity).
    apply cleanup_loop_nd. exact Hnd. }
  set (made := map gz_name (filter not_gz (zone_part n (n + m) files))).
  assert (Made : forall x, In x made <-> exists i, mid <= i < L /\ n <= L - 1 - i < n + m /\ x = gname c i).
  { intros x. unfold made. rewrite in_map_iff. split.
    - intros (y & <- & Hy). apply filter_In in Hy. destruct Hy as [Hy G]. apply In_zone_nth in Hy.
      destruct Hy as (k0 & Hk0 & Ek0). unfold not_gz in G. apply negb_true_iff in G.
      destruct (Zone _ _ Ek0 G) as [Hm ->]. destruct (Pos _ _ Ek0) as [Hk1 _].
      exists (L - 1 - k0). split; [lia|]. split; [|reflexivity]. replace (L - 1 - (L - 1 - k0)) with k0 by lia. lia.
    - intros (i & Hi & Hz & ->). exists (rname c i). split; [reflexivity|]. apply filter_In. split.
      + apply (nth_In_zone _ _ _ (L - 1 - i)); [|lia]. unfold files. rewrite listing_nth_of by (auto; lia).
        rewrite entry_plain by lia. reflexivity.
      + unfold not_gz. rewrite rname_not_gz by exact Hsfx. reflexivity. }
  assert (Fr' : forall x, ~ In x files -> ~ In x made -> same_at f f' x).
  { intros x H1 H2. apply Fr; [exact H1|]. intros k0 y Hk0 Hz He ->. apply H2. destruct (Zone _ _ Hk0 He) as [Hm ->].
    destruct (Pos _ _ Hk0) as [Hk1 _]. apply Made. exists (L - 1 - k0). split; [lia|]. split; [|reflexivity].
    replace (L - 1 - (L - 1 - k0)) with k0 by lia. lia. }
  split; [|split].
  - constructor.
    + fold L. lia.
    + exact NDf'.
    + fold L. intros i Hi. destruct (Of i ltac:(lia)) as (_ & K & _). rewrite entry_plain in K by lia.
      destruct (Hp i ltac:(lia)) as (j & Lj & Pj & Cj).
      assert (K1 : L - 1 - i < n + m) by lia. assert (K2 : L - 1 - i < n) by lia.
      destruct (same_at_content _ _ _ _ (K K1 (or_introl K2)) Lj) as [Lj' Ij'].
      exists j. split; [exact Lj'|]. unfold content. fold f'. rewrite Ij'. split; [exact Pj | exact Cj].
    + fold L. intros i Hi. destruct (Nat.lt_ge_cases i mid) as [Hm|Hm].
      * destruct (Of i ltac:(lia)) as (_ & K & _). rewrite entry_arch in K by lia.
        destruct (Ha i ltac:(lia)) as (j & Lj & Dj & Gj & Fj).
        assert (K1 : L - 1 - i < n + m) by lia.
        destruct (same_at_content _ _ _ _ (K K1 (or_intror (gname_is_gz c i))) Lj) as [Lj' Ij'].
        exists j. fold f'. rewrite Ij'. auto.
      * destruct (Of i ltac:(lia)) as (_ & _ & Z). rewrite entry_plain in Z by lia.
        assert (K1 : n <= L - 1 - i < n + m) by lia.
        destruct (Z K1 (rname_not_gz c i Hsfx)) as (i0 & j & Li & Ln & Lg & D & G & Dr).
        destruct (Hp i ltac:(lia)) as (j0 & Lj0 & _ & Cj0). rewrite Li in Lj0. injection Lj0 as <-.
        exists j. split; [exact Lg|]. split; [rewrite D; exact Cj0|]. auto.
    + fold L. intros x j Lx. destruct (in_dec bytes_eq_dec x files) as [Hin|Hnin].
      * apply In_nth_error in Hin. destruct Hin as [k0 Hk0]. destruct (Pos _ _ Hk0) as [Hk1 ->].
        set (i := L - 1 - k0) in *. assert (Hi : lo <= i < L) by (unfold i; lia).
        destruct (Of i Hi) as (R & K & Z). fold f' in Lx.
        destruct (Nat.le_gt_cases (n + m) (L - 1 - i)) as [H1|H1]; [rewrite (R H1) in Lx; discriminate|].
        destruct (Nat.le_gt_cases mid i) as [H2|H2].
        -- rewrite entry_plain in * by exact H2. destruct (Nat.le_gt_cases n (L - 1 - i)) as [H3|H3].
           ++ assert (K1 : n <= L - 1 - i < n + m) by lia.
              destruct (Z K1 (rname_not_gz c i Hsfx)) as (_ & _ & _ & Ln & _). rewrite Ln in Lx. discriminate.
           ++ right. left. exists i. split; [lia | reflexivity].
        -- rewrite entry_arch in * by exact H2. right. right. exists i. split; [lia | reflexivity].
      * destruct (in_dec bytes_eq_dec x made) as [Hm|Hm].
        -- apply Made in Hm. destruct Hm as (i & Hi & Hz & ->). right. right. exists i. split; [lia | reflexivity].
        -- destruct (Fr' x Hnin Hm) as [Lx' _]. fold f' in Lx. rewrite Lx' in Lx.
           destruct (Hon _ _ Lx) as [->|[(i & Hi & ->)|(i & Hi & ->)]]; [left; reflexivity | exfalso | exfalso];
             apply Hnin, listing_in; auto; [left | right]; exists i; auto.
  - apply Fr'.
    + intros Hin. apply listing_in in Hin; [|exact Hle]. destruct Hin as [(i & _ & X)|(i & _ & X)].
      * symmetry in X. exact (rname_not_cname _ _ X).
      * symmetry in X. exact (gname_not_cname _ _ X).
    + intros Hin. apply Made in Hin. destruct Hin as (i & _ & _ & X). symmetry in X. exact (gname_not_cname _ _ X).
  - fold L. intros i Hi. destruct (Of i ltac:(lia)) as (_ & K & _). rewrite entry_plain in K by lia.
    apply K; [lia | left; lia].
Qed.
Print Assumptions cleanup_numbers_d.
